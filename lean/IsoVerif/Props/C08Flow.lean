/-
C08 — the flow around the resolver: the two ways the per-read lists are built (`--high_memory` / default), the order of
the record stream (chromosomes, files, records), the verdict re-applied by `ReadAssignmentLoader.get_next`
(suspended records reach no consumer), model construction ignoring multimappers, and the facts extracted from the
sources on every run (Gen/Resolver.lean).
-/
import IsoVerif.Model.Resolver
import IsoVerif.Lemmas.Resolver
import IsoVerif.Lemmas.ResolverFlow
import IsoVerif.Props.C08
import IsoVerif.Props.C08Order

namespace IsoVerif.Props.C08Flow
open IsoVerif.Gen IsoVerif.Model.Resolver IsoVerif.Lemmas.Resolver IsoVerif.Lemmas.ResolverFlow
open IsoVerif.Props.C08 IsoVerif.Props.C08Order

/-! ### the two list-building paths -/

/-- **memory_paths_agree**: `--high_memory` (all records grouped in memory, lists of one skipped at resolution) and the
    default path (`prepare_multimapper_dict`: second pass over the dump files, read ids seen once skipped) hand the
    same lists, in the same order, to the resolver and so write the same verdicts - for every record stream -/
theorem memory_paths_agree (s : MultimapResolvingStrategy) (records : List Rec) :
    resolveAll s (groupMulti records) = resolveAll s (groupAll records) := by
  have hfilter : groupMulti records =
      (groupAll records).filter (fun kv => !(countOf records kv.1 == 1)) := by
    have := foldl_dictAppend_filter (fun k => !(countOf records k == 1)) records []
    simpa [groupMulti, groupAll] using this.symm
  unfold resolveAll
  rw [hfilter, List.filter_filter]
  congr 1
  apply List.filter_congr
  intro kv hkv
  have hlen : kv.2.length = countOf records kv.1 := by
    rw [groupAll_vals records kv hkv]; rfl
  rw [hlen]
  cases h : decide (1 < countOf records kv.1) with
  | false => simp
  | true =>
    have : 1 < countOf records kv.1 := by simpa using h
    have hne : (countOf records kv.1 == 1) = false := by rw [beq_eq_false_iff_ne]; omega
    simp [hne]

/-- what is resolved for a read is exactly its records, in stream order -/
theorem resolved_list_is_filter (records : List Rec) :
    ∀ kv ∈ groupAll records, kv.2 = records.filter (fun r => r.readId == kv.1) := groupAll_vals records

/-- **stream_order_independent**: reorder the record stream in any way (chromosomes, input files, records within a
    file): every read with at least two records is still resolved, and is retained on the same set of alignments -/
theorem stream_order_independent (records records' : List Rec) (hp : records.Perm records')
    (hin : NoSuspendedInput records) :
    ∀ kv ∈ groupAll records, 2 ≤ kv.2.length →
      ∃ kv' ∈ groupAll records', kv'.1 = kv.1 ∧ kv.2.Perm kv'.2 ∧
        ∃ out out', resolve .take_best kv.2 = some out ∧ resolve .take_best kv'.2 = some out' ∧
          ∀ k, RetainedOn out k ↔ RetainedOn out' k := by
  intro kv hkv h2
  have hv := groupAll_vals records kv hkv
  -- some record of that read exists, so the read is a key of the other dict as well
  have hne : kv.2 ≠ [] := by intro h; simp [h] at h2
  obtain ⟨x, hx⟩ := List.exists_mem_of_ne_nil _ hne
  have hx' : x ∈ records ∧ x.readId = kv.1 := by
    rw [hv] at hx; simpa using hx
  obtain ⟨kv', hkv', hk'⟩ := groupAll_cover records' x (hp.mem_iff.mp hx'.1)
  have hv' := groupAll_vals records' kv' hkv'
  have hkey : kv'.1 = kv.1 := hk'.trans hx'.2
  have hperm : kv.2.Perm kv'.2 := by
    rw [hv, hv', hkey]; exact hp.filter _
  have hin' : NoSuspendedInput kv.2 := by
    intro r hr; rw [hv] at hr; exact hin r (List.mem_filter.mp hr).1
  obtain ⟨out, out', h1, h2', h3⟩ := order_independent kv.2 kv'.2 hperm h2 hin'
  exact ⟨kv', hkv', hkey, hperm, out, out', h1, h2', h3⟩

/-! ### the verdict re-applied: suspended records reach no consumer -/

/-- the verdict of the record with `ra`'s (assignment id, chromosome) is `suspended` (and the look-up does not raise) -/
def SuspendedFor (dict : List (Nat × List Rec)) (ra : Full) : Bool :=
  !raisesFor dict ra &&
  match dict.lookup ra.readId with
  | none => false
  | some vs =>
    match lookupVerdict vs ra with
    | none => false
    | some a => a.atype == .suspended

theorem loadOne_none_of_suspended (dict : List (Nat × List Rec)) (ra : Full) (h : SuspendedFor dict ra = true) :
    loadOne dict ra = none := by
  unfold SuspendedFor at h
  simp only [Bool.and_eq_true] at h
  have h := h.2
  unfold loadOne
  cases hd : dict.lookup ra.readId with
  | none => simp [hd] at h
  | some vs =>
    simp only [hd] at h ⊢
    cases hv : lookupVerdict vs ra with
    | none => simp [hv] at h
    | some a => simp only [hv] at h ⊢; simp [h]

/-- **suspended_everywhere**: the storage the loader hands on is the same as if the suspended alignment records had
    never been in the file - so whatever is computed from it (counts, read_assignments.tsv and BED lines, introns,
    intron-graph edges and paths, transcript_model_reads) cannot depend on them; and no record in the storage is
    `suspended` -/
theorem suspended_everywhere (dict : List (Nat × List Rec)) (ras : List Full) :
    load dict ras = load dict (ras.filter (fun ra => !SuspendedFor dict ra)) ∧
    (∀ {β : Type} (consumer : Option (List Full) → β),
        consumer (load dict ras) = consumer (load dict (ras.filter (fun ra => !SuspendedFor dict ra)))) ∧
    ((∀ ra ∈ ras, ra.atype ≠ .suspended) → ∀ storage, load dict ras = some storage → ∀ f ∈ storage, f.atype ≠ .suspended) := by
  have hcore : loadCore dict ras = loadCore dict (ras.filter (fun ra => !SuspendedFor dict ra)) := by
    unfold loadCore
    induction ras with
    | nil => rfl
    | cons ra rest ih =>
      cases hs : SuspendedFor dict ra with
      | true =>
        simp only [List.filterMap_cons, loadOne_none_of_suspended dict ra hs, List.filter_cons, hs, Bool.not_true,
          Bool.false_eq_true, ↓reduceIte]
        exact ih
      | false =>
        simp only [List.filter_cons, hs, Bool.not_false, ↓reduceIte, List.filterMap_cons]
        cases loadOne dict ra with
        | none => exact ih
        | some f => simp only [List.cons.injEq, true_and]; exact ih
  have hany : ras.any (raisesFor dict) = (ras.filter (fun ra => !SuspendedFor dict ra)).any (raisesFor dict) := by
    rw [Bool.eq_iff_iff, List.any_eq_true, List.any_eq_true]
    constructor
    · rintro ⟨ra, hra, hr⟩
      refine ⟨ra, List.mem_filter.mpr ⟨hra, ?_⟩, hr⟩
      simp [SuspendedFor, hr]
    · rintro ⟨ra, hra, hr⟩
      exact ⟨ra, (List.mem_filter.mp hra).1, hr⟩
  have h1 : load dict ras = load dict (ras.filter (fun ra => !SuspendedFor dict ra)) := by
    unfold load; rw [← hany, ← hcore]
  refine ⟨h1, fun consumer => congrArg consumer h1, ?_⟩
  intro hns storage hst f hf
  unfold load at hst
  split at hst
  · cases hst
  · simp only [Option.some.injEq] at hst
    subst hst
    obtain ⟨ra, hra, hload⟩ := List.mem_filterMap.mp hf
    unfold loadOne at hload
    cases hd : dict.lookup ra.readId with
    | none =>
      simp only [hd, Option.some.injEq] at hload
      subst hload; exact hns ra hra
    | some vs =>
      simp only [hd] at hload
      cases hv : lookupVerdict vs ra with
      | none => simp [hv] at hload
      | some a =>
        simp only [hv] at hload
        by_cases hs : a.atype = .suspended
        · simp [hs] at hload
        · have hs' : (a.atype == ReadAssignmentType.suspended) = false := by
            rw [beq_eq_false_iff_ne]; exact hs
          simp only [hs', Bool.false_eq_true, ↓reduceIte, Option.some.injEq] at hload
          subst hload; exact hs

/-- a record the resolver suspended is dropped by the loader; a retained one is loaded with the resolver's types and
    multimapper flag -/
theorem loader_applies_verdict (dict : List (Nat × List Rec)) (ra : Full) (vs : List Rec) (a : Rec)
    (hd : dict.lookup ra.readId = some vs) (ha : a ∈ vs) (hm : a.aid = ra.aid ∧ a.chr = ra.chr)
    (huniq : ∀ b ∈ vs, b.aid = ra.aid ∧ b.chr = ra.chr → b = a) :
    (a.atype = .suspended → loadOne dict ra = none) ∧
    (a.atype ≠ .suspended →
      loadOne dict ra = some { ra with atype := a.atype, gtype := a.gtype, multimapper := a.multimapper }) := by
  have hv := lookupVerdict_unique vs ra a ha hm huniq
  constructor
  · intro hs; simp [loadOne, hd, hv, hs]
  · intro hs
    have hs' : (a.atype == ReadAssignmentType.suspended) = false := by rw [beq_eq_false_iff_ne]; exact hs
    simp [loadOne, hd, hv, hs']

/-- **end to end**: resolver → verdict file of chromosome `c` → loader.  For a read whose records carry pairwise
    different (assignment id, chromosome), the full record that stands for the read's `i`-th alignment is dropped by
    the loader exactly when the resolver did not retain it, and is loaded with the resolver's types and flag when it
    did.  (`hdict`: `construct_models_in_parallel` rebuilds `dict[read_id]` from the records of that read in the file of
    chromosome `c`, see `verdictsFor`.) -/
theorem losers_never_loaded (l : List Rec) (h2 : 2 ≤ l.length) (hin : NoSuspendedInput l)
    (huniq : l.Pairwise (fun a b => ¬ (a.aid = b.aid ∧ a.chr = b.chr)))
    (out : List Rec) (hout : resolve .take_best l = some out)
    (c : Nat) (dict : List (Nat × List Rec)) (ra : Full)
    (hdict : dict.lookup ra.readId = some (out.filter (fun r => r.chr == c)))
    (i : Nat) (r r' : Rec) (hr : l[i]? = some r) (hr' : out[i]? = some r') (hc : r.chr = c)
    (hra : ra.aid = r.aid ∧ ra.chr = r.chr) :
    (r' ∉ retained out → loadOne dict ra = none) ∧
    (r' ∈ retained out →
      loadOne dict ra = some { ra with atype := r'.atype, gtype := r'.gtype, multimapper := r'.multimapper }) := by
  obtain ⟨hlen, hsame, hlost⟩ := losers_suspended l h2 hin out hout
  have hr'out : r' ∈ out := List.mem_of_getElem? hr'
  obtain ⟨r'', hr'', hsa⟩ := hsame i r hr
  have : r'' = r' := Option.some.inj (hr''.symm.trans hr')
  subst this
  have haid : r''.aid = r.aid := hsa.1
  have hchr : r''.chr = r.chr := hsa.2.2.1
  have hmem : r'' ∈ out.filter (fun x => x.chr == c) := by
    refine List.mem_filter.mpr ⟨hr'out, ?_⟩
    simp [hchr, hc]
  have hm : r''.aid = ra.aid ∧ r''.chr = ra.chr := ⟨haid.trans hra.1.symm, hchr.trans hra.2.symm⟩
  have hunique : ∀ b ∈ out.filter (fun x => x.chr == c), b.aid = ra.aid ∧ b.chr = ra.chr → b = r'' := by
    intro b hb hbm
    have hbout : b ∈ out := (List.mem_filter.mp hb).1
    obtain ⟨j, hj, hbj⟩ := List.mem_iff_getElem.mp hbout
    have hjl : j < l.length := by rw [← hlen]; exact hj
    obtain ⟨b', hb', hsb⟩ := hsame j l[j] (by simp [hjl])
    have hbb : b' = b := by
      have : out[j]? = some b := by simp [hj, hbj]
      exact Option.some.inj (hb'.symm.trans this)
    subst hbb
    -- l[j] and l[i] = r carry the same (assignment id, chromosome): so j = i
    have hil : i < l.length := by
      apply Classical.byContradiction; intro h
      rw [List.getElem?_eq_none (Nat.le_of_not_lt h)] at hr; cases hr
    have hri : l[i] = r := by
      have := List.getElem?_eq_getElem hil; rw [this] at hr; exact Option.some.inj hr
    have heq : l[j].aid = l[i].aid ∧ l[j].chr = l[i].chr := by
      rw [hri]
      exact ⟨hsb.1.symm.trans (hbm.1.trans hra.1), hsb.2.2.1.symm.trans (hbm.2.trans hra.2)⟩
    have hij : j = i := by
      rcases Nat.lt_trichotomy j i with h | h | h
      · exact absurd heq (List.pairwise_iff_getElem.mp huniq j i hjl hil h)
      · exact h
      · exact absurd ⟨heq.1.symm, heq.2.symm⟩ (List.pairwise_iff_getElem.mp huniq i j hil hjl h)
    subst hij
    exact Option.some.inj (hb'.symm.trans hr'')
  obtain ⟨h1, h2'⟩ := loader_applies_verdict dict ra _ r'' hdict hmem hm hunique
  constructor
  · intro hnr; exact h1 (hlost r'' hr'out hnr).1
  · intro hret; exact h2' (mem_retained.mp hret).2

/-- **a single winner is loaded as it was saved** (audit-2 GAP C08-1, end to end): when the read is retained on exactly
    one record, the loader hands the full record of that alignment to the consumers unchanged - exactly what
    `loader_keeps_unique_reads` gives for a read that has no other alignment at all.  (`hagree`: the full record and its
    compact copy carry the same types and flag - `BasicReadAssignment.__init__` copies them.) -/
theorem single_winner_loaded_as_is (l : List Rec) (h2 : 2 ≤ l.length) (hin : NoSuspendedInput l)
    (huniq : l.Pairwise (fun a b => ¬ (a.aid = b.aid ∧ a.chr = b.chr)))
    (out : List Rec) (hout : resolve .take_best l = some out)
    (c : Nat) (dict : List (Nat × List Rec)) (ra : Full)
    (hdict : dict.lookup ra.readId = some (out.filter (fun r => r.chr == c)))
    (r' : Rec) (h1 : retained out = [r']) (hc : r'.chr = c) (hra : ra.aid = r'.aid ∧ ra.chr = r'.chr)
    (hagree : ra.atype = r'.atype ∧ ra.gtype = r'.gtype ∧ ra.multimapper = r'.multimapper) :
    loadOne dict ra = some ra := by
  obtain ⟨i, hi, hi'⟩ := single_winner_untouched l h2 hin out hout r' h1
  have hmem : r' ∈ retained out := by rw [h1]; simp
  have := (losers_never_loaded l h2 hin huniq out hout c dict ra hdict i r' r' hi hi' hc hra).2 hmem
  rw [this, ← hagree.1, ← hagree.2.1, ← hagree.2.2]

/-- what the pre-fix flag rule did to the same read: the only retained record is loaded as a multimapper and contributes
    no intron and no edge - with the loser absent (`loader_keeps_unique_reads`) the same record contributes its introns -/
theorem single_winner_flow_witness :
    let ra : Full := { aid := 1, readId := 0, chr := 0, atype := .inconsistent_ambiguous, gtype := .inconsistent,
                       multimapper := false, introns := [(321, 340)], isoforms := [0, 1] }
    (match selectBestAssignmentBuggyFlag witnessSingle with
     | none => false
     | some out =>
       let loaded := (loadOne [(0, out.filter (fun r => r.chr == 0))] ra).toList
       (loaded.map (·.multimapper) == [true]) && (collectIntrons loaded == [])) = true ∧
    (match resolve .take_best witnessSingle with
     | none => false
     | some out =>
       let loaded := (loadOne [(0, out.filter (fun r => r.chr == 0))] ra).toList
       (loaded == [ra]) && (collectIntrons loaded == [(321, 340)])) = true ∧
    collectIntrons (loadOne [] ra).toList = [(321, 340)] := by
  refine ⟨by decide, by decide, by decide⟩

/-- a read that is not in the verdict dict (a single alignment record) is loaded as it is -/
theorem loader_keeps_unique_reads (dict : List (Nat × List Rec)) (ra : Full) (h : dict.lookup ra.readId = none) :
    loadOne dict ra = some ra := by simp [loadOne, h]

/-! ### model construction ignores multimappers -/

/-- `IntronCollector.collect_introns` and `IntronGraph.construct` see only non-multimapper records -/
theorem graph_ignores_multimappers (discarded : List Iv) (storage : List Full) :
    collectIntrons storage = collectIntrons (storage.filter (fun a => !a.multimapper)) ∧
    graphEdges discarded storage = graphEdges discarded (storage.filter (fun a => !a.multimapper)) := by
  constructor
  · unfold collectIntrons
    rw [List.filter_filter]
    congr 1
    apply List.filter_congr
    intro a _
    cases a.multimapper <;> simp
  · unfold graphEdges
    rw [List.filter_filter]
    congr 1
    apply List.filter_congr
    intro a _
    cases a.multimapper <;> simp

/-- so a read that stays on several loci (every retained record is then flagged `multimapper`, see `ties_flagged`)
    contributes no intron and no edge at any of them -/
theorem tie_records_build_nothing (discarded : List Iv) (storage : List Full)
    (h : ∀ a ∈ storage, a.multimapper = true) :
    collectIntrons storage = [] ∧ graphEdges discarded storage = [] := by
  have hf : storage.filter (fun a => !a.multimapper) = [] := by
    rw [List.filter_eq_nil_iff]; intro a ha; simp [h a ha]
  obtain ⟨h1, h2⟩ := graph_ignores_multimappers discarded storage
  rw [h1, h2, hf]
  exact ⟨rfl, rfl⟩

/-! ### non-vacuity -/

def recA : Rec :=
  { aid := 7, readId := 3, chr := 0, start := 10, stop := 50, region := (1, 90), multimapper := false, polyA := false,
    atype := .unique, gtype := .unique, penalty := 0, isoforms := [1], genes := [0] }
def recB : Rec :=
  { aid := 9, readId := 3, chr := 1, start := 10, stop := 50, region := (1, 90), multimapper := true, polyA := false,
    atype := .suspended, gtype := .suspended, penalty := 0, isoforms := [2], genes := [1] }
def fullA : Full :=
  { aid := 7, readId := 3, chr := 0, atype := .unique, gtype := .unique, multimapper := false, introns := [(51, 99)], isoforms := [1] }
def fullB : Full :=
  { aid := 9, readId := 3, chr := 1, atype := .unique, gtype := .unique, multimapper := true, introns := [(51, 99)], isoforms := [2] }

-- the loader drops the suspended record, keeps the retained one, and the suspended one is what `SuspendedFor` names
example : load [(3, [recA, recB])] [fullA, fullB] = some [fullA] ∧ SuspendedFor [(3, [recA, recB])] fullB = true ∧
    SuspendedFor [(3, [recA, recB])] fullA = false := by decide

-- both paths on a stream with a two-record read, a three-record read and a singleton
example : let recs := [recA, { recA with readId := 4, aid := 1 }, { recB with atype := .unique, gtype := .unique },
                        { recA with readId := 5, aid := 2 }, { recA with readId := 5, aid := 3, chr := 2 },
                        { recA with readId := 5, aid := 4, chr := 3 }]
    (resolveAll .take_best (groupMulti recs)).map (·.1) = [3, 5] ∧
    resolveAll .take_best (groupMulti recs) = resolveAll .take_best (groupAll recs) := by decide

-- `losers_never_loaded` is live: the tie witness of C08.lean, verdict file of chromosome 0 - the inconsistent primary
-- (id 1) is dropped, the retained secondary (id 2) is loaded as an `ambiguous` multimapper
example : 2 ≤ witnessTie.length ∧ NoSuspendedInput witnessTie ∧
    (match resolve .take_best witnessTie with
     | none => false
     | some out =>
       let dict := [(0, out.filter (fun r => r.chr == 0))]
       let ra1 : Full := { aid := 1, readId := 0, chr := 0, atype := .inconsistent, gtype := .inconsistent,
                           multimapper := false, introns := [], isoforms := [4] }
       let ra2 : Full := { aid := 2, readId := 0, chr := 0, atype := .unique, gtype := .unique,
                           multimapper := true, introns := [], isoforms := [0] }
       (loadOne dict ra1 == none) &&
       ((loadOne dict ra2).map (fun f => (f.atype, f.multimapper)) == some (.ambiguous, true))) = true := by
  refine ⟨by decide, by decide, by decide⟩

-- `single_winner_loaded_as_is` is live: the read of `witnessSingle`, verdict file of chromosome 0
example : 2 ≤ witnessSingle.length ∧ NoSuspendedInput witnessSingle ∧
    witnessSingle.Pairwise (fun a b => ¬ (a.aid = b.aid ∧ a.chr = b.chr)) ∧
    (resolve .take_best witnessSingle).map retained = some [witnessSingle[0]] := by
  refine ⟨by decide, by decide, by decide, by decide⟩

end IsoVerif.Props.C08Flow
