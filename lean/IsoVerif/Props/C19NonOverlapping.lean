/-
C19 (audit-2 G3) — the split-exon READ profile: `NonOverlappingFeaturesProfileConstructor.construct_profile`
(src/long_read_profiles.py; model `Model/Profiles.lean` `noSweep` / `constructNonOverlapping`, correspondence op
`C19.nonoverlapping_profile`).

Last sentence of C19: "read profiles mark a feature present iff a read feature matches it within delta and absent iff the read
spans it without matching".  For the split-exon profile the known features are the disjoint blocks of `split_exons`, a read
exon MATCHES a block when it overlaps it and passes the comparator (`overlaps_at_least_when_overlap … minimal_exon_overlap`:
contains it, lies inside it, or shares at least `minimal_exon_overlap` bases), and the reading of "spans it without matching"
under which the code is right (proposed DESIGN §6 sentence, see docs/C19.md) is: the block's END lies strictly inside a gap
between two consecutive read exons.  A block that overlaps a read exon by fewer than `minimal_exon_overlap` bases and whose end
is not in a gap is left UNDETERMINED (0): `nonoverlapping_literal_witness`.

`nonoverlapping_profile_spec` is exact (three `↔`), for all sorted disjoint well-formed block and read lists, every comparator.
-/
import IsoVerif.Lemmas.C19NoSweep
import IsoVerif.Props.C19Lists

namespace IsoVerif.Props.C19NonOverlapping
open IsoVerif.Gen IsoVerif.Model IsoVerif.Lemmas IsoVerif.Lemmas.C01 IsoVerif.Lemmas.C19NoSweep

/-- some read exon overlaps the block and passes the comparator -/
def Present (cmp : Iv → Iv → Bool) (R : List Iv) (k : Iv) : Prop :=
  ∃ r ∈ R, overlaps r k = true ∧ cmp r k = true

/-- the END of the block lies strictly inside a gap between two consecutive read exons -/
def EndInGap (R : List Iv) (k : Iv) : Prop :=
  ∃ (j : Nat) (r r' : Iv), R[j]? = some r ∧ R[j + 1]? = some r' ∧ r.2 < k.2 ∧ k.2 < r'.1

/-- the gene profile computed by the sweep (before polyA / polyT masking) -/
def sweepGene (cmp : Iv → Iv → Bool) (K R : List Iv) : List Int :=
  (noSweep cmp K 0 R 0 { gene := K.map (fun _ => 0), read := R.map (fun _ => 0) }).gene

theorem sweepGene_length (cmp : Iv → Iv → Bool) (K R : List Iv) : (sweepGene cmp K R).length = K.length := by
  simp [sweepGene, noSweep_gene_length]

theorem sweep_inv (cmp : Iv → Iv → Bool) (K R : List Iv) (hK : SD K) (hKw : WFl K) :
    NoInv cmp K R (noSweep cmp K 0 R 0 { gene := K.map (fun _ => 0), read := R.map (fun _ => 0) }) :=
  noSweep_inv cmp K R hK hKw K 0 R 0 _ rfl rfl (fun h => absurd h (by omega)) (noSweep_init_inv cmp K R)

/-- **nonoverlapping_profile_spec** — for every comparator, every sorted, pairwise disjoint, well-formed block list `K`
    (touching blocks allowed: that is what `split_exons` returns) and read exon list `R`, and every block `K[i] = k`:
    the profile value is 1 iff some read exon overlaps `k` and passes the comparator; −1 iff not, and the end of `k` lies
    strictly inside a gap between two consecutive read exons; 0 otherwise.  No other value occurs. -/
theorem nonoverlapping_profile_spec (cmp : Iv → Iv → Bool) (K R : List Iv) (hK : SD K) (hKw : WFl K) (hR : SD R)
    (hRw : WFl R) (i : Nat) (k : Iv) (hi : K[i]? = some k) :
    ((sweepGene cmp K R)[i]? = some 1 ↔ Present cmp R k) ∧
    ((sweepGene cmp K R)[i]? = some (-1) ↔ ¬ Present cmp R k ∧ EndInGap R k) ∧
    ((sweepGene cmp K R)[i]? = some 0 ↔ ¬ Present cmp R k ∧ ¬ EndInGap R k) := by
  have inv := sweep_inv cmp K R hK hKw
  have hlen := sweepGene_length cmp K R
  have hiK : i < K.length := getElem?_lt hi
  obtain ⟨v, hv⟩ : ∃ v, (sweepGene cmp K R)[i]? = some v :=
    ⟨(sweepGene cmp K R)[i]'(by omega), List.getElem?_eq_getElem (by omega)⟩
  have hdom : v = 0 ∨ v = 1 ∨ v = -1 := inv.dom v (List.mem_of_getElem? hv)
  -- completeness / soundness of the mark 1
  have h1 : (sweepGene cmp K R)[i]? = some 1 ↔ Present cmp R k := by
    constructor
    · intro h
      obtain ⟨k', j, r, hk', hr, hov, hc⟩ := inv.gene1 i h
      rw [hi] at hk'; cases hk'
      exact ⟨r, List.mem_of_getElem? hr, hov, hc⟩
    · rintro ⟨r, hr, hov, hc⟩
      obtain ⟨j, hj⟩ := List.getElem?_of_mem hr
      exact (noSweep_marks cmp K R hK hKw hR hRw i j k r hi hj hov hc K 0 R 0 _ rfl rfl (by simp) (by simp)
        (by omega) (by omega)).1
  have hgap : EndInGap R k → (sweepGene cmp K R)[i]? ≠ some 0 := by
    rintro ⟨j, r, r', hj, hj', ha, hb⟩
    exact noSweep_gap_marked cmp K R hK hKw hR hRw i j k r r' hi hj hj' ha hb K 0 R 0 _ rfl rfl (by simp) (by omega)
      (by omega)
  have hN : (sweepGene cmp K R)[i]? = some (-1) → EndInGap R k := by
    intro h
    obtain ⟨k', j, r, r', hk', hr, hr', ha, hb⟩ := inv.geneN i h
    rw [hi] at hk'; cases hk'
    exact ⟨j, r, r', hr, hr', ha, hb⟩
  refine ⟨h1, ?_, ?_⟩
  · constructor
    · intro h
      refine ⟨fun hp => ?_, hN h⟩
      have := h1.mpr hp
      rw [h] at this; cases this
    · rintro ⟨hnp, hg⟩
      rcases hdom with e | e | e
      · subst e; exact absurd hv (hgap hg)
      · subst e; exact absurd (h1.mp hv) hnp
      · subst e; exact hv
  · constructor
    · intro h
      refine ⟨fun hp => ?_, fun hg => hgap hg h⟩
      have := h1.mpr hp
      rw [h] at this; cases this
    · rintro ⟨hnp, hng⟩
      rcases hdom with e | e | e
      · subst e; exact hv
      · subst e; exact absurd (h1.mp hv) hnp
      · subst e; exact absurd (hN hv) hng

/-- without a tail the constructor returns exactly the sweep's profile (never raises, on any list — also an empty one) -/
theorem nonoverlapping_no_tail (cmp : Iv → Iv → Bool) (K : List Iv) (delta : Int) (R : List Iv) :
    ∃ res, constructNonOverlapping K cmp delta R (-1) (-1) = some res ∧ res.gene = sweepGene cmp K R := by
  simp [constructNonOverlapping, sweepGene]

/-- non-vacuity of `nonoverlapping_profile_spec`: blocks (1,3),(4,8),(20,30),(40,45), read (2,8),(25,28),(50,60), 5 common
    bases required: (1,3) lies inside no read exon but is overlapped by 2 < 5 bases and its end is not in a gap → 0; (4,8)
    lies inside the first read exon → 1; (20,30) contains the second read exon → 1; the end of (40,45) lies in the gap
    (29, 49) → −1 -/
example : SD [(1, 3), (4, 8), (20, 30), (40, 45)] ∧ SD [(2, 8), (25, 28), (50, 60)] ∧
    sweepGene (fun a b => overlaps_at_least_when_overlap a b 5) [(1, 3), (4, 8), (20, 30), (40, 45)]
      [(2, 8), (25, 28), (50, 60)] = [0, 1, 1, -1] := by decide +kernel

/-- the LITERAL sentence ("absent iff the read spans it without matching") is not what the code computes: the block (2,3)
    lies between the first and the last base of the read (1,1),(3,5), no read exon matches it (1 common base, 2 required, it
    neither contains nor lies inside a read exon), and it is left undetermined (0), not absent — its end is not in a gap.
    Replayed on the real constructor by the oracle (`nonoverlapping_literal_witness`). -/
theorem nonoverlapping_literal_witness :
    let K : List Iv := [(2, 3)]
    let R : List Iv := [(1, 1), (3, 5)]
    let cmp : Iv → Iv → Bool := fun a b => overlaps_at_least_when_overlap a b 2
    sweepGene cmp K R = [0] ∧ (1 : Int) ≤ 2 ∧ (3 : Int) ≤ 5 ∧ ¬ Present cmp R (2, 3) ∧ ¬ EndInGap R (2, 3) := by
  refine ⟨by decide +kernel, by decide, by decide, ?_, ?_⟩
  · rintro ⟨r, hr, hov, hc⟩
    simp only [List.mem_cons, List.mem_nil_iff, or_false] at hr
    rcases hr with e | e <;> subst e <;> revert hc <;> decide
  · rintro ⟨j, r, r', hj, hj', ha, hb⟩
    match j, hj, hj' with
    | 0, hj, hj' => simp at hj hj'; subst hj hj'; revert hb; decide
    | (n + 1), hj, hj' => simp at hj'

end IsoVerif.Props.C19NonOverlapping
