/-
C09 — grouped tables partition the ungrouped ones; matrix and linear formats agree.
Counter side (src/long_read_counter.py `AssignedFeatureCounter`): theorems about `IsoVerif.Model.C09`
(`initCounter`, `run`, `dump`).  The `read_groups` set reaches the counter in *some* iteration order `π`
(a duplicate-free list); every theorem below holds for all `π`, all call streams, all strategies/formats.
Grouper side: Props/C09Groupers.lean; table loading: Props/C09Tables.lean.
-/
import IsoVerif.Model.C09
import IsoVerif.Lemmas.C09
import IsoVerif.Props.C09Groupers

namespace IsoVerif.Props.C09
open IsoVerif.Gen IsoVerif.Model.C09 IsoVerif.Lemmas.C09

/-! ### the counter after `__init__` -/

/-- hash-seed independence of the counter: the iteration order of the `read_groups` set does not reach the state -/
theorem init_independent_of_iteration_order {π₁ π₂ : List String} (h : π₁.Perm π₂) (s : CountingStrategy)
    (af : List String) (oz : Bool) (fmt : GroupedOutputFormat) :
    initCounter false (some π₁) s af oz fmt = initCounter false (some π₂) s af oz fmt := by
  have he : π₁.isEmpty = π₂.isEmpty := by
    cases π₁ with
    | nil => rw [h.symm.eq_nil]
    | cons a t =>
      cases π₂ with
      | nil => exact absurd h.eq_nil (by simp)
      | cons b u => rfl
  simp [initCounter, he, sortStr_eq_of_perm h]

/-! ### group_of_read: every cell holds exactly the reads of its group -/

/-- **group_of_read** (counter): for every iteration order `π` of the group universe, every call stream the counter
    accepts, every feature `f` and every group `g` of the universe, the cell in the column labelled `g` is the sum of
    the values of exactly the calls whose read group is `g`. -/
theorem group_of_read {π : List String} (hne : π ≠ []) (hnd : π.Nodup) (s : CountingStrategy) (af : List String)
    (oz : Bool) (fmt : GroupedOutputFormat) (calls : List Call) (c : Counter)
    (h : run (initCounter false (some π) s af oz fmt) calls = .ok c) (f g : String) (hg : g ∈ π) :
    c.ordered[idOf c.ids g]? = some g ∧
    cell c.fc f (idOf c.ids g) = sumOver calls (fun x => if x.group = some g then callVal s x f else 0) := by
  obtain ⟨hig, hord, hids, hfc, hs, _⟩ := init_grouped hne s af oz fmt
  generalize initCounter false (some π) s af oz fmt = c0 at *
  obtain ⟨hcfg, hcell⟩ := run_spec h
  have hnd' : (sortStr π).Nodup := sortStr_nodup hnd
  obtain ⟨i, hli, hgi⟩ := lookup_zipIdx_isSome hnd' (mem_sortStr.mpr hg)
  have hid : idOf c.ids g = i := by
    rw [hcfg.1, hids]; simp [idOf, hli]
  rw [hid, hcfg.2.1, hord]
  refine ⟨hgi, ?_⟩
  rw [hcell f i, hfc, hs, hids]
  have h0 : cell ([] : FC) f i = 0 := by simp [cell, dataOf, getD, List.lookup]
  rw [h0, Rat.zero_add]
  apply sumOver_congr
  intro x _
  simp only [gnameOf, hig, Bool.false_eq_true, if_false]
  have hiff := lookup_zipIdx hnd' (x.group.getD NA) i
  cases hx : x.group with
  | some g' =>
    simp only [Option.getD] at hiff ⊢
    rw [hx] at hiff
    simp only [Option.getD] at hiff
    by_cases hgg : g' = g
    · subst hgg; simp [hiff.mpr hgi]
    · have : ¬ (List.lookup g' (sortStr π).zipIdx = some i) := by
        intro hl
        have := hiff.mp hl
        rw [hgi] at this
        exact hgg (Option.some.inj this).symm
      simp [this, hgg]
  | none =>
    have : callVal s x f = 0 := by
      cases x with
      | confirmFeatures fs => simp [callVal, callEffect, Effect.none, incsVal]
      | info r => simp [Call.group] at hx
      | raw r => simp [Call.group] at hx
    simp [this]

/-- the ungrouped counter: its single column holds all reads -/
theorem ungrouped_cell (s : CountingStrategy) (af : List String) (oz : Bool) (fmt : GroupedOutputFormat)
    (calls : List Call) (c : Counter) (h : run (initCounter false none s af oz fmt) calls = .ok c) (f : String) :
    cell c.fc f 0 = sumOver calls (fun x => callVal s x f) := by
  obtain ⟨hig, hord, hids, hfc, hs, _⟩ := init_ungrouped s af oz fmt
  generalize initCounter false none s af oz fmt = c0 at *
  obtain ⟨hcfg, hcell⟩ := run_spec h
  rw [hcell f 0, hfc, hs, hids]
  have h0 : cell ([] : FC) f 0 = 0 := by simp [cell, dataOf, getD, List.lookup]
  rw [h0, Rat.zero_add]
  apply sumOver_congr
  intro x _
  simp [gnameOf, hig, List.lookup]

/-! ### partition: the groups sum to the ungrouped count -/

/-- **partition** (cells): feed the same call stream to a grouped counter (universe `π`, any iteration order) and to an
    ungrouped one; if both accept it, then for every feature the cells of all groups sum to the ungrouped cell. -/
theorem partition {π : List String} (hne : π ≠ []) (hnd : π.Nodup) (s : CountingStrategy) (af : List String)
    (oz ozU : Bool) (fmt fmtU : GroupedOutputFormat) (calls : List Call) (cG cU : Counter)
    (hG : run (initCounter false (some π) s af oz fmt) calls = .ok cG)
    (hU : run (initCounter false none s af ozU fmtU) calls = .ok cU) (f : String) :
    sumOver cG.ordered (fun g => cell cG.fc f (idOf cG.ids g)) = cell cU.fc f 0 := by
  rw [ungrouped_cell s af ozU fmtU calls cU hU f]
  obtain ⟨hig, hord, hids, hfc, hs, _⟩ := init_grouped hne s af oz fmt
  have hcfg := (run_spec hG).1
  have hordG : cG.ordered = sortStr π := by rw [hcfg.2.1, hord]
  have hnd' : (sortStr π).Nodup := sortStr_nodup hnd
  rw [hordG]
  rw [sumOver_congr (sortStr π) _ (fun g => sumOver calls (fun x => if (x.group.getD NA) = g then
        (if x.group.isSome then callVal s x f else 0) else 0))]
  · rw [sumOver_groups (sortStr π) hnd' calls (fun x => x.group.getD NA) (fun x => if x.group.isSome then callVal s x f else 0)]
    apply sumOver_congr
    intro x hx
    by_cases hv : callVal s x f = 0
    · simp [hv]
    · have hk := run_contributing_known hG x hx f (by rw [hs]; exact hv)
      obtain ⟨k, hk⟩ := hk
      rw [hids] at hk
      simp only [gnameOf, hig, Bool.false_eq_true, if_false] at hk
      have hmem : x.group.getD NA ∈ sortStr π := List.mem_of_getElem? ((lookup_zipIdx hnd' _ k).mp hk)
      have hsome : x.group.isSome = true := by
        cases x with
        | confirmFeatures fs => simp [callVal, callEffect, Effect.none, incsVal] at hv
        | info r => rfl
        | raw r => rfl
      simp [hmem, hsome]
  · intro g hg
    rw [(group_of_read hne hnd s af oz fmt calls cG hG f g (mem_sortStr.mp hg)).2]
    apply sumOver_congr
    intro x _
    cases hx : x.group with
    | none => simp
    | some g' =>
      by_cases hgg : g' = g
      · simp [hgg]
      · simp [hgg]

/-! ### no abort: a stream the ungrouped counter accepts is accepted by the grouped one -/

/-- the grouped counter raises nothing the ungrouped counter does not raise, as long as every read group is in the
    universe it was built with (which is the case when every grouper adds what it returns, see C09Groupers) -/
theorem no_abort {π : List String} (hne : π ≠ []) (hnd : π.Nodup) (s : CountingStrategy) (af : List String)
    (oz ozU : Bool) (fmt fmtU : GroupedOutputFormat) (calls : List Call) (cU : Counter)
    (hU : run (initCounter false none s af ozU fmtU) calls = .ok cU)
    (hgroups : ∀ x ∈ calls, ∀ g, x.group = some g → g ∈ π) :
    ∃ cG, run (initCounter false (some π) s af oz fmt) calls = .ok cG := by
  obtain ⟨hig, hord, hids, hfc, hs, _⟩ := init_grouped hne s af oz fmt
  obtain ⟨_, _, _, _, hsU, _⟩ := init_ungrouped s af ozU fmtU
  apply (run_ok_iff _ calls).mpr
  intro x hx
  obtain ⟨e, he, _⟩ := (run_ok_iff _ calls).mp ⟨cU, hU⟩ x hx
  rw [hsU] at he
  refine ⟨e, by rw [hs]; exact he, ?_⟩
  intro hn
  rw [hids]
  simp only [gnameOf, hig, Bool.false_eq_true, if_false]
  cases hg : x.group with
  | none =>
    cases x with
    | confirmFeatures fs => simp [callEffect] at he; subst he; simp [Effect.none] at hn
    | info r => simp [Call.group] at hg
    | raw r => simp [Call.group] at hg
  | some g =>
    obtain ⟨i, hi, _⟩ := lookup_zipIdx_isSome (sortStr_nodup hnd) (mem_sortStr.mpr (hgroups x hx g hg))
    exact ⟨i, by simpa [Option.getD] using hi⟩

-- non-vacuity of `group_of_read` / `partition` / `no_abort`: a concrete stream over three groups (given in an
-- unsorted iteration order) is accepted; the NA column holds the half read
example : (match run (initCounter false (some ["b", "NA", "a"]) .with_ambiguous [] true .both)
    [.raw ⟨true, ["T1"], "a"⟩, .raw ⟨true, ["T1", "T2"], "NA"⟩, .confirmFeatures ["T1"]] with
    | .ok c => decide (cell c.fc "T1" (idOf c.ids "NA") = 1 / 2 ∧ c.ordered = ["NA", "a", "b"] ∧
                       cell c.fc "T1" (idOf c.ids "a") = 1)
    | .error _ => false) = true := by decide +kernel

/-! ### matrix and linear renderings agree -/

/-- **matrix_linear_agree**: for every iteration order `π` of the group universe, every strategy / format / zero
    setting and every call stream the counter accepts, `dump()` succeeds and, whenever both renderings are written,
    they contain identical non-zero (feature, group, value) triples; with `--counts_format both` both are written. -/
theorem matrix_linear_agree {π : List String} (hne : π ≠ []) (hnd : π.Nodup) (s : CountingStrategy) (af : List String)
    (oz : Bool) (fmt : GroupedOutputFormat) (calls : List Call) (c : Counter)
    (h : run (initCounter false (some π) s af oz fmt) calls = .ok c) :
    ∃ d, dump c = .ok d ∧ d.header = sortStr π ∧
      (∀ rows lins, d.matrix = some rows → d.linear = some lins → Agree d.header rows lins) ∧
      (fmt = GroupedOutputFormat.both → d.matrix.isSome ∧ d.linear.isSome) := by
  have hinv := Inv_run (inv_init_grouped hne hnd s af oz fmt) h
  obtain ⟨hig, hord, _, _, _, _, hfmt, _⟩ := init_grouped hne s af oz fmt
  have hcfg := (run_spec h).1
  have hig' : c.ignoreGroups = false := by rw [hcfg.2.2.1, hig]
  have hord' : c.ordered = sortStr π := by rw [hcfg.2.1, hord]
  have hfmt' : c.fmt = fmt := by rw [hcfg.2.2.2.2.2, hfmt]
  obtain ⟨rows, lins, hr, hagree⟩ := dumpGroupedRows_agree c hinv (sortStr c.allFeatures) c.confirmed
  refine ⟨_, by simp only [dump, hig', Bool.false_eq_true, if_false, hr]; rfl, hord', ?_, ?_⟩
  · intro rows' lins' h1 h2
    simp only at h1 h2
    split at h1 <;> split at h2 <;> simp at h1 h2
    subst h1; subst h2
    exact hagree
  · intro hb
    have h1 : GroupedOutputFormat.both.output_matrix = true := by decide
    have h2 : GroupedOutputFormat.both.output_linear = true := by decide
    simp [hfmt', hb, h1, h2]

/-- **the per-chromosome tables can be concatenated**: the counters of different chromosomes (different worker
    processes, hence possibly different iteration orders of the same universe) print the same header, so the rows of
    `merge_counts` line up under the header of the first file -/
theorem chromosome_headers_agree {π₁ π₂ : List String} (hperm : π₁.Perm π₂) (hne : π₁ ≠ []) (hnd : π₁.Nodup)
    (s : CountingStrategy) (af₁ af₂ : List String) (oz : Bool) (fmt : GroupedOutputFormat) (calls₁ calls₂ : List Call)
    (c₁ c₂ : Counter)
    (h₁ : run (initCounter false (some π₁) s af₁ oz fmt) calls₁ = .ok c₁)
    (h₂ : run (initCounter false (some π₂) s af₂ oz fmt) calls₂ = .ok c₂) :
    ∃ d₁ d₂, dump c₁ = .ok d₁ ∧ dump c₂ = .ok d₂ ∧ d₁.header = d₂.header := by
  have hne₂ : π₂ ≠ [] := fun e => hne (by rw [e] at hperm; exact hperm.eq_nil)
  have hnd₂ : π₂.Nodup := hperm.nodup_iff.mp hnd
  obtain ⟨d₁, hd₁, hh₁, _⟩ := matrix_linear_agree hne hnd s af₁ oz fmt calls₁ c₁ h₁
  obtain ⟨d₂, hd₂, hh₂, _⟩ := matrix_linear_agree hne₂ hnd₂ s af₂ oz fmt calls₂ c₂ h₂
  exact ⟨d₁, d₂, hd₁, hd₂, by rw [hh₁, hh₂, sortStr_eq_of_perm hperm]⟩

/-! ### partition of the printed tables -/

/-- **partition** (dumped tables): the same call stream counted by a grouped counter (universe `π` in any iteration
    order) and by an ungrouped one, both dumped with the same `output_zeroes` setting: `dump()` succeeds for both, the
    two tables list the same features, and every grouped row sums to the ungrouped value (after the zeroing of
    unconfirmed features, which is the same in both because the confirmed sets coincide). -/
theorem partition_dump {π : List String} (hne : π ≠ []) (hnd : π.Nodup) (s : CountingStrategy) (af : List String)
    (oz : Bool) (fmt fmtU : GroupedOutputFormat) (calls : List Call) (cG cU : Counter)
    (hG : run (initCounter false (some π) s af oz fmt) calls = .ok cG)
    (hU : run (initCounter false none s af oz fmtU) calls = .ok cU) :
    ∃ dG dU rowsU, dump cG = .ok dG ∧ dump cU = .ok dU ∧ dU.matrix = some rowsU ∧
      ∀ rowsG, dG.matrix = some rowsG →
        (∀ f row, (f, row) ∈ rowsG → (f, [sumList row]) ∈ rowsU) ∧
        (∀ f v, (f, [v]) ∈ rowsU → ∃ row, (f, row) ∈ rowsG ∧ sumList row = v) := by
  have hinvG := Inv_run (inv_init_grouped hne hnd s af oz fmt) hG
  obtain ⟨higG, hordG, _, _, hsG, hozG, hfmtG, hcG⟩ := init_grouped hne s af oz fmt
  obtain ⟨higU, hordU, hidsU, _, hsU, hozU, _, hcU⟩ := init_ungrouped s af oz fmtU
  have hcfgG := (run_spec hG).1
  have hcfgU := (run_spec hU).1
  have hafeq : (initCounter false (some π) s af oz fmt).allFeatures = (initCounter false none s af oz fmtU).allFeatures := by
    have : π.isEmpty = false := by cases π with | nil => exact absurd rfl hne | cons a t => rfl
    simp [initCounter, this]
  obtain ⟨hAF, hCF⟩ := run_sets (by rw [hsG, hsU]) hafeq (by rw [hcG, hcU]) hG hU
  have higG' : cG.ignoreGroups = false := by rw [hcfgG.2.2.1, higG]
  have higU' : cU.ignoreGroups = true := by rw [hcfgU.2.2.1, higU]
  have hidsU' : cU.ids = [(NA, 0)] := by rw [hcfgU.1, hidsU]
  have hozG' : cG.outputZeroes = oz := by rw [hcfgG.2.2.2.2.1, hozG]
  have hozU' : cU.outputZeroes = oz := by rw [hcfgU.2.2.2.2.1, hozU]
  -- the grouped dump
  have hD : ∀ f, DInv cG.ordered.length (dataOf (zeroUnconfirmed cG.fc (sortStr cG.allFeatures) cG.confirmed) f) := by
    intro f; rw [dataOf_zeroUnconfirmed]; exact DInv_zeroIf _ (DInv_dataOf hinvG.2.2 f)
  have hids : ∀ g ∈ cG.ordered, ∃ i, cG.ids.lookup g = some i := by
    intro g hg
    obtain ⟨i, hi, _⟩ := lookup_zipIdx_isSome hinvG.1 hg
    exact ⟨i, by rw [hinvG.2.1]; exact hi⟩
  obtain ⟨rows, lins, hr, _, hm⟩ := dumpGroupedRows_spec cG (zeroUnconfirmed cG.fc (sortStr cG.allFeatures) cG.confirmed)
    (fun f kv hkv => ((hD f).2 kv hkv).1) hids (sortStr cG.allFeatures)
  -- value of the ungrouped table and sum of a grouped row
  let Z : String → Bool := fun f => (sortStr cG.allFeatures).contains f && !cG.confirmed.contains f
  have hrowsum : ∀ f, sumOver cG.ordered (fun g => getD (dataOf (zeroUnconfirmed cG.fc (sortStr cG.allFeatures) cG.confirmed) f) (idOf cG.ids g))
      = cell (zeroUnconfirmed cU.fc (sortStr cU.allFeatures) cU.confirmed) f 0 := by
    intro f
    simp only [cell, dataOf_zeroUnconfirmed, getD_zeroIf, ← hAF, ← hCF]
    cases hz : ((sortStr cG.allFeatures).contains f && !cG.confirmed.contains f) with
    | true => simp only [if_true]; exact sumOver_zero _
    | false =>
      simp only [Bool.false_eq_true, if_false]
      exact partition hne hnd s af oz oz fmt fmtU calls cG cU hG hU f
  have hsumvals : ∀ f, sumVals (dataOf (zeroUnconfirmed cG.fc (sortStr cG.allFeatures) cG.confirmed) f) =
      cell (zeroUnconfirmed cU.fc (sortStr cU.allFeatures) cU.confirmed) f 0 := by
    intro f
    rw [← hrowsum f, hinvG.2.1]
    exact sumVals_eq_row hinvG.1 _ (hD f).1 (fun kv hkv => ((hD f).2 kv hkv).1)
  refine ⟨_, _, _, by simp only [dump, higG', Bool.false_eq_true, if_false, hr]; rfl,
    by simp only [dump, higU', if_true, hidsU', List.head?]; rfl, rfl, ?_⟩
  intro rowsG hrG
  simp only at hrG
  split at hrG
  · injection hrG with hrG
    subst hrG
    constructor
    · intro f row hfr
      rw [hm] at hfr
      obtain ⟨hf, hskip, rfl⟩ := hfr
      rw [sumList_map, hrowsum f]
      simp only [List.mem_filterMap]
      refine ⟨f, by rw [← hAF]; exact hf, ?_⟩
      have : ¬ ((!cU.outputZeroes) = true ∧ cell (zeroUnconfirmed cU.fc (sortStr cU.allFeatures) cU.confirmed) f 0 = 0) := by
        rintro ⟨h1, h2⟩
        apply hskip
        refine ⟨by rw [hozG']; rw [hozU'] at h1; simpa using h1, ?_⟩
        rw [hsumvals f]; exact h2
      rw [if_neg this]
    · intro f v hfv
      simp only [List.mem_filterMap] at hfv
      obtain ⟨f', hf', hsome⟩ := hfv
      split at hsome
      · cases hsome
      · rename_i hns
        injection hsome with hsome
        injection hsome with h1 h2
        subst h1
        injection h2 with h2 _
        refine ⟨_, (hm f' _).mpr ⟨by rw [hAF]; exact hf', ?_, rfl⟩, ?_⟩
        · rintro ⟨h1, h3⟩
          apply hns
          refine ⟨by rw [hozU']; rw [hozG'] at h1; simpa using h1, ?_⟩
          rw [← hsumvals f']; exact h3
        · rw [sumList_map, hrowsum f', h2]
  · cases hrG

/-! ### groupers and counters together -/

/-- **a read that cannot be grouped never aborts the run** (whole flow): a validly configured grouper is run over the
    alignments of every chromosome; the counters are built with the union of the recorded `read_groups` sets in any
    iteration order `π`; every call carries the group the grouper returned for some read.  Then the grouped counter
    accepts every call stream the ungrouped counter accepts — no `KeyError`, whichever reads lack a tag / delimiter /
    table row / file name. -/
theorem pipeline_no_abort (g : Grouper) (hv : C09Groupers.ValidGrouper g) (chrAlns : List (List Aln))
    (results : List (List (Option String) × List String))
    (hres : chrAlns.map (fun alns => runGrouper g alns g.initGroups) = results.map Except.ok)
    (π : List String) (hπ : π.Perm (groupUniverse (results.map Prod.snd))) (hne : π ≠ [])
    (s : CountingStrategy) (af : List String) (oz ozU : Bool) (fmt fmtU : GroupedOutputFormat) (calls : List Call)
    (hcalls : ∀ x ∈ calls, ∀ grp, x.group = some grp → ∃ res ∈ results, some grp ∈ res.1)
    (cU : Counter) (hU : run (initCounter false none s af ozU fmtU) calls = .ok cU) :
    ∃ cG, run (initCounter false (some π) s af oz fmt) calls = .ok cG := by
  obtain ⟨results', hres', hin⟩ := C09Groupers.group_of_every_read_in_universe g hv chrAlns
  have heq : results' = results := map_ok_injective _ _ (by rw [← hres', hres])
  subst heq
  have hnd : π.Nodup := hπ.nodup_iff.mpr (C09Groupers.groupUniverse_nodup _)
  apply no_abort hne hnd s af oz ozU fmt fmtU calls cU hU
  intro x hx grp hg
  obtain ⟨res, hr, hmem⟩ := hcalls x hx grp hg
  obtain ⟨y, hy, hyU⟩ := hin res hr (some grp) hmem
  injection hy with hy
  rw [hy]
  exact hπ.mem_iff.mpr hyU

/-! ### the tree before fix b707b14 (`enumerate(read_groups)` over the unsorted set) -/

/-- with the old numbering and the iteration order `["b", "a"]`, one read of group `a` is printed under `a` in the
    matrix and under `b` in the linear table: the two renderings disagree -/
theorem matrix_linear_agree_buggy_witness :
    (match run (initCounter true (some ["b", "a"]) .unique_only [] true .both)
        [.raw ⟨true, ["T1"], "a"⟩, .confirmFeatures ["T1"]] with
     | .ok c =>
       (match dump c with
        | .ok d => decide (d.header = ["a", "b"] ∧ d.matrix = some [("T1", [1, 0])] ∧ d.linear = some [("T1", "b", 1)])
        | .error _ => false)
     | .error _ => false) = true ∧
    ¬ Agree ["a", "b"] [("T1", [1, 0])] [("T1", "b", 1)] := by
  refine ⟨by decide +kernel, ?_⟩
  intro h
  have := (h "T1" "b" 1 (by decide)).mp (by simp)
  rw [mem_matrixTriples] at this
  obtain ⟨row, hrow, hz⟩ := this
  simp at hrow
  subst hrow
  simp at hz

/-- ... and the linear table depends on the iteration order of the set (i.e. on PYTHONHASHSEED): the same read of
    group `a` is labelled `a` under the order `["a", "b"]` -/
theorem iteration_order_buggy_witness :
    (match run (initCounter true (some ["a", "b"]) .unique_only [] true .both)
        [.raw ⟨true, ["T1"], "a"⟩, .confirmFeatures ["T1"]] with
     | .ok c =>
       (match dump c with
        | .ok d => decide (d.linear = some [("T1", "a", 1)])
        | .error _ => false)
     | .error _ => false) = true := by decide +kernel

-- the same stream on the fixed numbering, in both iteration orders: matrix and linear agree
example :
    (match run (initCounter false (some ["b", "a"]) .unique_only [] true .both)
        [.raw ⟨true, ["T1"], "a"⟩, .confirmFeatures ["T1"]] with
     | .ok c =>
       (match dump c with
        | .ok d => decide (d.header = ["a", "b"] ∧ d.matrix = some [("T1", [1, 0])] ∧ d.linear = some [("T1", "a", 1)])
        | .error _ => false)
     | .error _ => false) = true := by decide +kernel

/-! ### the grouped TPM table keeps the group labels (`convert_counts_to_tpm` header) -/

/-- for a grouped counter the TPM table has exactly the columns of the count table, whatever the group names are -/
theorem tpm_header_labels (header : List String) : tpmHeader false false header = header := by
  simp [tpmHeader]

/-- the ungrouped table still renames its value column -/
theorem tpm_header_ungrouped : tpmHeader false true ["count"] = ["TPM"] := by decide +kernel

/-- before fix fea027c the header line went through `replace("count", "TPM")`: the group `count_A` lost its name -/
theorem tpm_header_buggy_witness : tpmHeader true false ["B", "count_A"] = ["B", "TPM_A"] := by decide +kernel

end IsoVerif.Props.C09
