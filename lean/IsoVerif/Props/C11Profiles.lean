/-
C11 — translation equivariance of `truncate_read_to_polya` and of the profile code (Model/Profiles.lean):
`FeatureProfiles.set_profiles`, both read-profile constructors.  Profiles are lists of marks, so they are INVARIANT;
for ALL feature lists (sorted or not), ALL reads, ALL shifts `k : Int`.

Hypotheses that appear, and why:
  * `ShiftInv k cmp` — the comparator passed in only looks at relative positions; proved for every comparator the
    pipeline passes (`equal_ranges · · d`, `contains`, `overlaps_at_least · · d`, `overlaps_at_least_when_overlap · · d`);
  * `p ≠ −1 → p + k ≠ −1` for polyA / polyT positions — the code's sentinel −1 ("not found") must not be hit by a
    shifted real position; `truncate_sentinel_collision_witness` shows the hypothesis is needed (never an issue for
    k ≥ 0 and genomic coordinates ≥ 0).
Reflection of the profile constructors and of `split_exons` is NOT proved; the full-strength statement for `split_exons`
is kept below as a `def … : Prop` and is evaluated by the correspondence / oracle only.
-/
import IsoVerif.Gen.Prims
import IsoVerif.Model.Interval
import IsoVerif.Model.Profiles
import IsoVerif.Model.C11Symmetry
import IsoVerif.Lemmas.C11ShiftProfiles

namespace IsoVerif.Props.C11Profiles
open IsoVerif.Gen IsoVerif.Model IsoVerif.Model.C11 IsoVerif.Lemmas.C11

/-! ## section: Model/Interval.lean — truncate_read_to_polya -/

theorem shift_equivariant_truncateReadToPolya (k : Int) (exons : List Iv) (polya polyt : Int)
    (hA : polya ≠ -1 → polya + k ≠ -1) (hT : polyt ≠ -1 → polyt + k ≠ -1) :
    truncateReadToPolya (shiftL k exons) (shiftPos k polya) (shiftPos k polyt)
      = (truncateReadToPolya exons polya polyt).map (shiftL k) := by
  cases hf : exons.head? with
  | none => simp [truncateReadToPolya, shiftL_head?, hf]
  | some f =>
    cases ht : exons.getLast? with
    | none => simp [truncateReadToPolya, shiftL_getLast?, ht]
    | some t =>
      rw [truncate_eq exons polya polyt f t hf ht,
        truncate_eq (shiftL k exons) _ _ (shiftIv k f) (shiftIv k t) (by rw [shiftL_head?, hf]; rfl) (by rw [shiftL_getLast?, ht]; rfl),
        ← truncTail_shift]
      simp only [shiftL_length, ← shiftL_reverse]
      by_cases ca : polya = -1 <;> by_cases ct : polyt = -1
      · subst ca; subst ct; simp [shiftPos]
      · subst ca
        have := hT ct
        simp [shiftPos, ct, this, startIndexLoop_shift]
      · subst ct
        have := hA ca
        simp [shiftPos, ca, this, endIndexLoop_shift]
      · have h1 := hA ca
        have h2 := hT ct
        simp [shiftPos, ca, ct, h1, h2, startIndexLoop_shift, endIndexLoop_shift]

/-- a real polyA position that is shifted ONTO the sentinel is read as "no polyA": nothing is truncated -/
theorem truncate_sentinel_collision_witness :
    truncateReadToPolya (shiftL (-5) [(1, 10)]) (shiftPos (-5) 4) (shiftPos (-5) (-1))
      ≠ (truncateReadToPolya [(1, 10)] 4 (-1)).map (shiftL (-5)) := by decide

example : truncateReadToPolya (shiftL 255 [(1, 10), (20, 30)]) (shiftPos 255 25) (shiftPos 255 (-1))
    = some (shiftL 255 [(1, 10), (20, 25)]) := by decide

/-! ## section: Model/Profiles.lean — translation -/

theorem shiftInv_equal_ranges (k d : Int) : ShiftInv k (fun a b => equal_ranges a b d) := by
  intro a b; simp only [equal_ranges, shiftIv, iabs]; grind
theorem shiftInv_contains (k : Int) : ShiftInv k (fun a b => contains a b) := by
  intro a b; simp only [contains, shiftIv]; grind
theorem shiftInv_overlaps_at_least (k d : Int) : ShiftInv k (fun a b => overlaps_at_least a b d) := by
  intro a b; simp only [overlaps_at_least, shiftIv]; grind
theorem shiftInv_overlaps_at_least_when_overlap (k d : Int) :
    ShiftInv k (fun a b => overlaps_at_least_when_overlap a b d) := by
  intro a b; simp only [overlaps_at_least_when_overlap, shiftIv]; grind

theorem shift_equivariant_setProfiles (k : Int) (c : Iv → Iv → Bool) (hc : ShiftInv k c)
    (features tf : List Iv) (region : Iv) :
    setProfiles (shiftL k features) (shiftL k tf) (shiftIv k region) c = setProfiles features tf region c := by
  simp only [setProfiles, markLoop_shift k c hc]
  have : (shiftL k features).map (fun f => if overlaps f (shiftIv k region) then (-1 : Int) else -2)
       = features.map (fun f => if overlaps f region then (-1 : Int) else -2) := by
    simp only [shiftL, List.map_map]
    congr 1; funext f; simp only [Function.comp, overlaps_shift]
  rw [this]

/-- the three isoform profiles of `GeneInfo` (introns and exons by exact equality, split exons by containment) -/
theorem shift_equivariant_isoform_profiles (k : Int) (features tf : List Iv) (region : Iv) :
    setProfiles (shiftL k features) (shiftL k tf) (shiftIv k region) (fun a b => equal_ranges a b 0)
        = setProfiles features tf region (fun a b => equal_ranges a b 0) ∧
    setProfiles (shiftL k features) (shiftL k tf) (shiftIv k region) (fun a b => contains a b)
        = setProfiles features tf region (fun a b => contains a b) :=
  ⟨shift_equivariant_setProfiles k _ (shiftInv_equal_ranges k 0) features tf region,
   shift_equivariant_setProfiles k _ (shiftInv_contains k) features tf region⟩

theorem shift_equivariant_constructNonOverlapping (k : Int) (c : Iv → Iv → Bool) (hc : ShiftInv k c)
    (known : List Iv) (delta : Int) (read : List Iv) (polya polyt : Int)
    (hA : polya ≠ -1 → polya + k ≠ -1) (hT : polyt ≠ -1 → polyt + k ≠ -1) :
    constructNonOverlapping (shiftL k known) c delta (shiftL k read) (shiftPos k polya) (shiftPos k polyt)
      = constructNonOverlapping known c delta read polya polyt := by
  simp only [constructNonOverlapping, noSweep_shift k c hc]
  have m1 : (shiftL k known).map (fun _ => (0 : Int)) = known.map (fun _ => (0 : Int)) := by simp [shiftL]
  have m2 : (shiftL k read).map (fun _ => (0 : Int)) = read.map (fun _ => (0 : Int)) := by simp [shiftL]
  rw [m1, m2]
  by_cases ca : polya = -1 <;> by_cases ct : polyt = -1
  · subst ca; subst ct; simp [shiftPos]
  · subst ca
    have := hT ct
    simp [shiftPos, ct, this, intervalBinSearchRev_shift']
  · subst ct
    have := hA ca
    simp [shiftPos, ca, this, intervalBinSearch_shift']
  · have h1 := hA ca
    have h2 := hT ct
    simp [shiftPos, ca, ct, h1, h2, intervalBinSearch_shift', intervalBinSearchRev_shift']


theorem shift_equivariant_constructOverlapping (k : Int) (c ab : Iv → Iv → Bool) (hc : ShiftInv k c) (hab : ShiftInv k ab)
    (known : List Iv) (geneRegion : Iv) (delta : Int) (read : List Iv) (mapped : Iv) (polya polyt : Int)
    (hA : polya ≠ -1 → polya + k ≠ -1) (hT : polyt ≠ -1 → polyt + k ≠ -1) :
    constructOverlapping (shiftL k known) (shiftIv k geneRegion) c ab delta (shiftL k read) (shiftIv k mapped)
        (shiftPos k polya) (shiftPos k polyt)
      = constructOverlapping known geneRegion c ab delta read mapped polya polyt := by
  simp only [constructOverlapping]
  have m1 : (shiftL k known).map (fun x => if ab (shiftIv k mapped) x then (-1 : Int) else 0)
      = known.map (fun x => if ab mapped x then (-1 : Int) else 0) := by
    simp only [shiftL, List.map_map]; congr 1; funext x; simp only [Function.comp, hab mapped x]
  have m2 : (shiftL k read).map (fun x => if ab (shiftIv k geneRegion) x then (-1 : Int) else 0)
      = read.map (fun x => if ab geneRegion x then (-1 : Int) else 0) := by
    simp only [shiftL, List.map_map]; congr 1; funext x; simp only [Function.comp, hab geneRegion x]
  rw [m1, m2, ovSweep_shift k c ab hc hab]
  have hr : MatchedInRange known read
      (ovSweep c ab mapped known 0 read 0
        { gene := known.map (fun x => if ab mapped x then (-1 : Int) else 0),
          read := read.map (fun x => if ab geneRegion x then (-1 : Int) else 0), matched := [] }).matched := by
    intro p hp
    rcases ovSweep_matched_range c ab mapped known 0 read 0 _ p hp with h | h
    · simp at h
    · omega
  rw [ovEliminate_shift k known read _ _ hr]
  have z1 : ∀ (g : List Int) (pa : Int), List.zipWith (fun (x : Iv) (v : Int) => if x.1 > pa + k + delta then -2 else v) (shiftL k known) g
      = List.zipWith (fun (x : Iv) (v : Int) => if x.1 > pa + delta then -2 else v) known g := by
    intro g pa
    simp only [shiftL, List.zipWith_map_left]
    congr 1; funext x v; simp only [shiftIv_fst]
    have : (x.1 + k > pa + k + delta) ↔ (x.1 > pa + delta) := by omega
    simp only [this]
  have z2 : ∀ (g : List Int) (pt : Int), List.zipWith (fun (x : Iv) (v : Int) => if x.2 < pt + k - delta then -2 else v) (shiftL k known) g
      = List.zipWith (fun (x : Iv) (v : Int) => if x.2 < pt - delta then -2 else v) known g := by
    intro g pt
    simp only [shiftL, List.zipWith_map_left]
    congr 1; funext x v; simp only [shiftIv_snd]
    have : (x.2 + k < pt + k - delta) ↔ (x.2 < pt - delta) := by omega
    simp only [this]
  by_cases ca : polya = -1 <;> by_cases ct : polyt = -1
  · subst ca; subst ct; simp [shiftPos]
  · subst ca
    have := hT ct
    simp [shiftPos, ct, this, z2]
  · subst ct
    have := hA ca
    simp [shiftPos, ca, this, z1]
  · have h1 := hA ca
    have h2 := hT ct
    simp [shiftPos, ca, ct, h1, h2, z1, z2]

/-- the read profiles the pipeline builds (CombinedProfileConstructor): introns (absence = `overlaps_at_least`),
    exons (absence = `contains`), split exons (`overlaps_at_least_when_overlap`) -/
theorem shift_equivariant_read_profiles (k d absd minov : Int) (known : List Iv) (geneRegion : Iv) (read : List Iv)
    (mapped : Iv) (polya polyt : Int) (hA : polya ≠ -1 → polya + k ≠ -1) (hT : polyt ≠ -1 → polyt + k ≠ -1) :
    constructOverlapping (shiftL k known) (shiftIv k geneRegion) (fun a b => equal_ranges a b d)
        (fun a b => overlaps_at_least a b absd) d (shiftL k read) (shiftIv k mapped) (shiftPos k polya) (shiftPos k polyt)
      = constructOverlapping known geneRegion (fun a b => equal_ranges a b d) (fun a b => overlaps_at_least a b absd) d
          read mapped polya polyt ∧
    constructOverlapping (shiftL k known) (shiftIv k geneRegion) (fun a b => equal_ranges a b d)
        (fun a b => contains a b) d (shiftL k read) (shiftIv k mapped) (shiftPos k polya) (shiftPos k polyt)
      = constructOverlapping known geneRegion (fun a b => equal_ranges a b d) (fun a b => contains a b) d
          read mapped polya polyt ∧
    constructNonOverlapping (shiftL k known) (fun a b => overlaps_at_least_when_overlap a b minov) d (shiftL k read)
        (shiftPos k polya) (shiftPos k polyt)
      = constructNonOverlapping known (fun a b => overlaps_at_least_when_overlap a b minov) d read polya polyt :=
  ⟨shift_equivariant_constructOverlapping k _ _ (shiftInv_equal_ranges k d) (shiftInv_overlaps_at_least k absd) known
      geneRegion d read mapped polya polyt hA hT,
   shift_equivariant_constructOverlapping k _ _ (shiftInv_equal_ranges k d) (shiftInv_contains k) known
      geneRegion d read mapped polya polyt hA hT,
   shift_equivariant_constructNonOverlapping k _ (shiftInv_overlaps_at_least_when_overlap k minov) known d read polya polyt
      hA hT⟩

-- non-vacuity: a shifted read against shifted known introns gives the profile of the original
example : (constructOverlapping (shiftL 255 [(6, 9), (13, 19)]) (shiftIv 255 (1, 30)) (fun a b => equal_ranges a b 1)
      (fun a b => overlaps_at_least a b 3) 1 (shiftL 255 [(6, 9), (13, 20)]) (shiftIv 255 (1, 30)) (shiftPos 255 (-1)) (shiftPos 255 (-1))).gene
    = [1, 1] := by decide +kernel

/-! ## statements that are evaluated (correspondence / oracle) but not proved -/

/-- `GeneInfo.split_exons` is translation equivariant for well-formed exons as long as no block border lands on the
    code's sentinel (`last_border = -1`): neither an exon start nor an exon end + 1, before or after the shift -/
theorem shift_equivariant_splitExons (k : Int) (exons : List Iv)
    (hw : ∀ e ∈ exons, e.1 ≤ e.2)
    (hs : ∀ e ∈ exons, e.1 ≠ -1 ∧ e.1 + k ≠ -1 ∧ e.2 + 1 ≠ -1 ∧ e.2 + 1 + k ≠ -1) :
    splitExons (shiftL k exons) = (splitExons exons).map (shiftL k) := by
  simp only [splitExons]
  have m1 : (shiftL k exons).map (·.1) = (exons.map (·.1)).map (· + k) := by simp [shiftL, shiftIv]
  have m2 : (shiftL k exons).map (·.2) = (exons.map (·.2)).map (· + k) := by simp [shiftL, shiftIv]
  rw [m1, m2, sortInts_shift, sortInts_shift]
  have h1 : ∀ s ∈ sortInts (exons.map (·.1)), s ≠ -1 ∧ s + k ≠ -1 := by
    intro s hs'
    obtain ⟨e, he, rfl⟩ := List.mem_map.mp ((mem_sortInts s _).mp hs')
    exact ⟨(hs e he).1, (hs e he).2.1⟩
  have h2 : ∀ x ∈ sortInts (exons.map (·.2)), x + 1 ≠ -1 ∧ x + 1 + k ≠ -1 := by
    intro x hx
    obtain ⟨e, he, rfl⟩ := List.mem_map.mp ((mem_sortInts x _).mp hx)
    exact ⟨(hs e he).2.2.1, (hs e he).2.2.2⟩
  cases hss : sortInts (exons.map (·.1)) with
  | nil =>
    -- no exons at all
    have : exons = [] := by
      cases exons with
      | nil => rfl
      | cons a t =>
        have : a.1 ∈ sortInts ((a :: t).map (·.1)) := (mem_sortInts _ _).mpr (by simp)
        rw [hss] at this; simp at this
    subst this; simp [sortInts, splitMain, splitTail, shiftL]
  | cons s0 ss =>
    cases hee : sortInts (exons.map (·.2)) with
    | nil =>
      have : exons = [] := by
        cases exons with
        | nil => rfl
        | cons a t =>
          have : a.2 ∈ sortInts ((a :: t).map (·.2)) := (mem_sortInts _ _).mpr (by simp)
          rw [hee] at this; simp at this
      subst this; simp [sortInts] at hss
    | cons e0 es =>
      have hle : s0 ≤ e0 := by
        have he0 : e0 ∈ exons.map (·.2) := (mem_sortInts _ _).mp (by rw [hee]; simp)
        obtain ⟨x, hx, hx2⟩ := List.mem_map.mp he0
        have := sortInts_head_le (exons.map (·.1)) s0 ss hss x.1 (List.mem_map.mpr ⟨x, hx, rfl⟩)
        have := hw x hx
        omega
      have := splitMain_shift k (s0 :: ss) (e0 :: es) none none 0 (-1) (by rw [← hss]; exact h1) (by rw [← hee]; exact h2)
        (by intro h; exact absurd rfl h) (Or.inr ⟨rfl, s0, ss, e0, es, rfl, rfl, hle⟩)
      simpa [shiftPos] using this

/-- the sentinel hypothesis is needed: shifting an exon start onto −1 makes the code treat the border as unset and
    the block (−1, 0) is lost (coordinates < 1 do not occur in a genome) -/
theorem split_exons_sentinel_collision_witness :
    splitExons (shiftL (-2) [(1, 6), (3, 6)]) ≠ (splitExons [(1, 6), (3, 6)]).map (shiftL (-2)) := by
  simp [splitExons, shiftL, shiftIv, sortInts, insertSorted, splitMain_cons_cons, isNew, splitMain, splitTail]

example : splitExons (shiftL 255 [(1, 3), (2, 5)]) = some (shiftL 255 [(1, 1), (2, 3), (4, 5)]) := by
  simp [splitExons, shiftL, shiftIv, sortInts, insertSorted, splitMain_cons_cons, isNew, splitMain, splitTail]

/-- the split exons of the mirrored exons are the mirrored split exons (relation `M.split_exons`) -/
def SplitExonsMirror : Prop :=
  ∀ (L : Int) (exons : List Iv), (∀ e ∈ exons, e.1 ≤ e.2) →
    (∀ e ∈ exons ++ mirrorL L exons, e.1 ≠ -1 ∧ e.2 + 1 ≠ -1) →
    splitExons (mirrorL L exons) = (splitExons exons).map (mirrorL L)

end IsoVerif.Props.C11Profiles
