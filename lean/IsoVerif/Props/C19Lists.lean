/-
C19 (lists) — the loop functions of src/common.py equal their set-theoretic specification for every
sorted, pairwise disjoint, well-formed interval list (no bound on length or coordinates).
`inter l₁ l₂` (Lemmas/Interval.lean) is the number of common positions written as the double sum of the
generated `intersection_len`, which `C19.intersection_len_eq` grounds in positions.
-/
import IsoVerif.Props.C19
import IsoVerif.Lemmas.Interval
import IsoVerif.Lemmas.BinSearch
import IsoVerif.Lemmas.Lists
import IsoVerif.Lemmas.Jaccard
import IsoVerif.Lemmas.Merge
import IsoVerif.Lemmas.BinSearchRev
import IsoVerif.Lemmas.Positions
import IsoVerif.Lemmas.MergeSorted
import IsoVerif.Lemmas.Exons
import IsoVerif.Lemmas.Truncate

namespace IsoVerif.Props.C19Lists
open IsoVerif.Gen IsoVerif.Model IsoVerif.Lemmas

/-! ### grounding in sets of positions
`countWin f lo n` is the number of positions `p ∈ [lo, lo+n)` with `f p`; `covb l p` decides whether `p` is covered by `l`.
Inside any window containing the lists, total length = |A| and `inter` = |A ∩ B|. -/

theorem total_length_counts_positions (l : List Iv) (lo : Int) (n : Nat) (h : SD l) (w : WFl l)
    (hwin : ∀ r ∈ l, lo ≤ r.1 ∧ r.2 < lo + n) :
    intervalsTotalLength l = (countWin (covb l) lo n : Int) :=
  total_length_counts l lo n h w hwin

theorem inter_counts_positions (l1 l2 : List Iv) (lo : Int) (n : Nat) (h1 : SD l1) (h2 : SD l2) (w1 : WFl l1) (w2 : WFl l2)
    (hwin : ∀ r ∈ l1, lo ≤ r.1 ∧ r.2 < lo + n) :
    inter l1 l2 = (countWin (fun p => covb l1 p && covb l2 p) lo n : Int) :=
  inter_counts l1 l2 lo n h1 h2 w1 w2 hwin

theorem covb_iff_cov (l : List Iv) (p : Int) : covb l p = true ↔ cov l p := covb_iff l p

example : intervalsTotalLength [(2, 4), (7, 7)] = (countWin (covb [(2, 4), (7, 7)]) 0 10 : Int) := by decide

/-! ### total length, coverage sweep -/

theorem total_length_eq_sum (l : List Iv) :
    intervalsTotalLength l = (l.map (fun r => r.2 - r.1 + 1)).sum := by
  induction l with
  | nil => rfl
  | cons a t ih => simp [intervalsTotalLength, interval_len, ih]

/-- the two-pointer sweep of `read_coverage_fraction` returns the number of common positions -/
theorem coverage_sweep_eq (l1 l2 : List Iv) (h1 : SD l1) (h2 : SD l2) (w1 : WFl l1) (w2 : WFl l2) :
    readCoverageSweep l1 l2 = inter l1 l2 :=
  sweep_eq_inter l1 l2 h1 h2 w1 w2

/-- `read_coverage_fraction` = |read ∩ isoform| / |read| (as an exact fraction); it raises exactly when the
    read has total length 0 -/
theorem coverage_fraction_spec (read iso : List Iv) (h1 : SD read) (h2 : SD iso) (w1 : WFl read) (w2 : WFl iso) :
    readCoverageFraction read iso =
      if intervalsTotalLength read = 0 then none else some (inter read iso, intervalsTotalLength read) := by
  simp only [readCoverageFraction, coverage_sweep_eq read iso h1 h2 w1 w2]

example : SD [(1, 5), (10, 12)] ∧ SD [(4, 11)] ∧ readCoverageFraction [(1, 5), (10, 12)] [(4, 11)] = some (4, 8) := by
  decide +kernel

/-! ### Jaccard similarity -/

/-- `jaccard_similarity` = |A ∩ B| / |A ∪ B| with |A ∪ B| = |A| + |B| − |A ∩ B| (exact fraction); the inner
    assertion never fails on sorted disjoint lists and the function raises exactly when the union is empty -/
theorem jaccard_sweep_eq (l1 l2 : List Iv) (h1 : SD l1) (h2 : SD l2) (w1 : WFl l1) (w2 : WFl l2) :
    jaccardSweep l1 l2 =
      if intervalsTotalLength l1 + intervalsTotalLength l2 - inter l1 l2 = 0 then none
      else some (inter l1 l2, intervalsTotalLength l1 + intervalsTotalLength l2 - inter l1 l2) := by
  simp only [jaccardSweep]
  rw [jaccardLoop_spec l1 false l2 false h1 h2 w1 w2 (by simp) (by simp) (by simp)]
  simp

example : SD [(1, 5), (10, 12)] ∧ jaccardSweep [(1, 5), (10, 12)] [(4, 11)] = some (4, 12) := by
  decide +kernel

/-! ### merging -/

/-- `merge_ranges` on sorted disjoint lists (not both empty) succeeds — neither assertion fires and the
    accumulator is never indexed while empty — and the returned blocks cover exactly the union of the positions -/
theorem merge_cov (l1 l2 : List Iv) (h1 : SD l1) (h2 : SD l2) (w1 : WFl l1) (w2 : WFl l2)
    (hne : l1 ≠ [] ∨ l2 ≠ []) :
    ∃ res, mergeRanges l1 l2 = some res ∧ ∀ p, cov res p ↔ cov l1 p ∨ cov l2 p := by
  obtain ⟨acc, hacc, hcov⟩ := mergeLoop_spec l1 false l2 false [] h1 h2 w1 w2 (by simp) (by simp) (by simp)
  have hne' : acc.isEmpty = false := by
    cases hacc' : acc with
    | cons x t => rfl
    | nil =>
      exfalso
      subst hacc'
      rcases hne with h | h
      · cases l1 with
        | nil => exact h rfl
        | cons a t =>
          have := (hcov a.1).mpr (Or.inr (Or.inl ⟨a, by simp, by omega, WFl_head w1⟩))
          exact cov_nil _ this
      · cases l2 with
        | nil => exact h rfl
        | cons a t =>
          have := (hcov a.1).mpr (Or.inr (Or.inr ⟨a, by simp, by omega, WFl_head w2⟩))
          exact cov_nil _ this
  refine ⟨acc.reverse, by simp [mergeRanges, hacc, hne'], fun p => ?_⟩
  rw [cov_reverse, hcov p]
  simp [cov_nil]

/-- both lists empty: the real code raises (assert len(union) != 0) -/
theorem merge_empty : mergeRanges [] [] = none := by decide +kernel

example : mergeRanges [(1, 5), (10, 12)] [(4, 11), (20, 21)] = some [(1, 12), (20, 21)] := by decide +kernel

/-- the blocks returned by `merge_ranges` on sorted disjoint lists are again sorted, pairwise disjoint and well
    formed: every block lies strictly left of every later one, so starts increase strictly and no block is nested in
    (or even overlaps) another -/
theorem merge_sorted (l1 l2 : List Iv) (h1 : SD l1) (h2 : SD l2) (w1 : WFl l1) (w2 : WFl l2)
    (res : List Iv) (hres : mergeRanges l1 l2 = some res) :
    SD res ∧ WFl res ∧
      res.Pairwise (fun x y => x.1 < y.1 ∧ x.2 < y.1 ∧ contains x y = false ∧ contains y x = false ∧
        overlaps x y = false) := by
  simp only [mergeRanges] at hres
  split at hres
  · rename_i acc hacc
    split at hres
    · cases hres
    · injection hres with hres; subst hres
      obtain ⟨hr, hw⟩ := mergeLoop_sorted l1 false l2 false [] h1 h2 w1 w2 trivial (fun r hr => by cases hr)
        (by simp) (by simp) (by simp) (by intro _ _; simp [Front]) (by simp) (by simp) acc hacc
      have hsd := SD_reverse_of_RSD acc hr
      have hwf : WFl acc.reverse := fun r hr' => hw r (by simpa using hr')
      refine ⟨hsd, hwf, ?_⟩
      have hp := SD_pairwise _ hsd hwf
      rw [List.pairwise_iff_forall_sublist] at hp ⊢
      intro x y hxy
      have hlt := hp hxy
      have hx := hwf x (hxy.subset (by simp))
      have hy := hwf y (hxy.subset (by simp))
      simp only [contains, overlaps, Bool.and_eq_false_iff, decide_eq_false_iff_not, Bool.not_eq_false',
        Bool.or_eq_true, decide_eq_true_eq]
      omega
  · cases hres

example : SD [(1, 5), (10, 12)] ∧ SD [(4, 11), (20, 21)] ∧
    mergeRanges [(1, 5), (10, 12)] [(4, 11), (20, 21)] = some [(1, 12), (20, 21)] := by decide +kernel

/-! ### prefix / suffix sums -/

/-- `lenBelow r p` / `lenAbove r p` (Lemmas/Lists.lean) are the numbers of positions of `r` that are `< p` / `> p` -/
theorem lenBelow_def (r : Iv) (p : Int) : lenBelow r p = max 0 (min r.2 (p - 1) - r.1 + 1) := rfl
theorem lenAbove_def (r : Iv) (p : Int) : lenAbove r p = max 0 (r.2 - max r.1 (p + 1) + 1) := rfl

theorem sum_to_point_spec (l : List Iv) (p : Int) (h : SD l) (w : WFl l) (hne : l ≠ []) :
    sumIntervalsToPoint l p = some ((l.map (lenBelow · p)).sum) :=
  sum_to_point_aux l p h w hne

theorem sum_from_point_spec (l : List Iv) (p : Int) (h : SD l) (w : WFl l) (hne : l ≠ []) :
    sumIntervalsFromPoint l p = some ((l.map (lenAbove · p)).sum) :=
  sum_from_point_aux l p h w hne

/-- on the empty list the real code raises IndexError; so does the model -/
theorem sum_to_point_empty (p : Int) : sumIntervalsToPoint [] p = none := rfl

example : sumIntervalsToPoint [(1, 5), (10, 12)] 11 = some 6 ∧ sumIntervalsFromPoint [(1, 5), (10, 12)] 3 = some 5 := by
  decide

/-! ### junctions and exons are inverse -/

/- `Gapped` (Lemmas/Lists.lean): exon lists as produced from an alignment — well formed, each exon separated
   from the next by ≥ 1 base -/

theorem junctions_exons_inverse (ex : List Iv) (f t : Iv) (h : Gapped ex)
    (hf : ex.head? = some f) (ht : ex.getLast? = some t) :
    getExons (f.1, t.2) (junctionsFromBlocks ex) = ex :=
  junctions_exons_inverse_aux ex f t h hf ht

/-- introns are exactly the gaps: each junction abuts the exons on both sides -/
theorem junctions_are_gaps (a b : Iv) (t : List Iv) (h : a.2 + 1 < b.1) :
    junctionsFromBlocks (a :: b :: t) = (a.2 + 1, b.1 - 1) :: junctionsFromBlocks (b :: t) := by
  simp [junctionsFromBlocks, h]

theorem junctions_skip_touching (a b : Iv) (t : List Iv) (h : ¬ a.2 + 1 < b.1) :
    junctionsFromBlocks (a :: b :: t) = junctionsFromBlocks (b :: t) := by
  simp [junctionsFromBlocks, h]

example : Gapped [(1, 5), (10, 12), (20, 30)] ∧
    getExons (1, 30) (junctionsFromBlocks [(1, 5), (10, 12), (20, 30)]) = [(1, 5), (10, 12), (20, 30)] := by
  refine ⟨by simp [Gapped], by decide⟩

/-! ### single exons from the junction list
`region` = (start of the first exon, end of the last exon), `junctions` = `junctions_from_blocks` of a gapped exon list. -/

/-- `get_exon(region, junctions, i)` is exon `i` (needs ≥ 2 exons: with no junction the code indexes an empty list) -/
theorem get_exon_spec (ex : List Iv) (f t : Iv) (h : Gapped ex) (hf : ex.head? = some f) (ht : ex.getLast? = some t)
    (h2 : 2 ≤ ex.length) (i : Nat) (hi : i < ex.length) :
    getExon (f.1, t.2) (junctionsFromBlocks ex) (i : Int) = ex[i]? :=
  getExon_junctions ex f t h hf ht h2 i hi

/-- negative positions count from the end: position `−k` (1 ≤ k ≤ |ex|) is exon `|ex| − k` -/
theorem get_exon_neg_spec (ex : List Iv) (f t : Iv) (h : Gapped ex) (hf : ex.head? = some f) (ht : ex.getLast? = some t)
    (h2 : 2 ≤ ex.length) (k : Nat) (h0 : 0 < k) (hk : k ≤ ex.length) :
    getExon (f.1, t.2) (junctionsFromBlocks ex) (-(k : Int)) = ex[ex.length - k]? := by
  have hn := junctions_length ex h
  rw [getExon_neg _ _ k h0 (by omega), hn]
  have : ex.length - 1 + 1 - k = ex.length - k := by omega
  rw [this]
  exact getExon_junctions ex f t h hf ht h2 _ (by omega)

/-- a position beyond the last exon violates the `assert` -/
theorem get_exon_out_of_range (region : Iv) (junctions : List Iv) (i : Int) (hi : (junctions.length : Int) < i) :
    getExon region junctions i = none := by
  simp [getExon, hi]

/-- a single-exon read has no junction: `get_exon` raises IndexError (so does the model) -/
theorem get_exon_single (a : Iv) (i : Int) : getExon (a.1, a.2) (junctionsFromBlocks [a]) i = none := by
  have hnil : ∀ x : Int, pyGet? ([] : List Iv) x = none := by
    intro x; simp only [pyGet?, List.length_nil]; split
    · simp
    · split <;> simp
  simp only [junctionsFromBlocks, getExon, hnil, Option.map_none, ite_self]

/-- `get_preceding_exon_from_junctions(region, junctions, i)` is exon `i` — the exon before intron `i`; `i = |junctions|`
    gives the last exon (also for a single-exon read) -/
theorem get_preceding_exon_spec (ex : List Iv) (f t : Iv) (h : Gapped ex) (hf : ex.head? = some f)
    (ht : ex.getLast? = some t) (i : Nat) (hi : i < ex.length) :
    getPrecedingExon (f.1, t.2) (junctionsFromBlocks ex) (i : Int) = ex[i]? :=
  getPrecedingExon_junctions ex f t h hf ht i hi

/-- `get_following_exon_from_junctions(region, junctions, i)` is exon `i + 1` — the exon after intron `i` -/
theorem get_following_exon_spec (ex : List Iv) (f t : Iv) (h : Gapped ex) (hf : ex.head? = some f)
    (ht : ex.getLast? = some t) (i : Nat) (hi : i + 1 < ex.length) :
    getFollowingExon (f.1, t.2) (junctionsFromBlocks ex) (i : Int) = ex[i + 1]? :=
  getFollowingExon_junctions ex f t h hf ht i hi

/-- intron position `−1` (the code's special case) is the last intron: the following exon is the last exon -/
theorem get_following_exon_last (ex : List Iv) (f t : Iv) (h : Gapped ex) (hf : ex.head? = some f)
    (ht : ex.getLast? = some t) (h2 : 2 ≤ ex.length) :
    getFollowingExon (f.1, t.2) (junctionsFromBlocks ex) (-1) = some t := by
  have hn := junctions_length ex h
  have hlast := getElem?_last ex t ht
  obtain ⟨a, ha⟩ : ∃ a, ex[ex.length - 2]? = some a := ⟨ex[ex.length - 2], List.getElem?_eq_getElem (by omega)⟩
  have hlast' : ex[ex.length - 2 + 1]? = some t := by
    have : ex.length - 2 + 1 = ex.length - 1 := by omega
    rw [this]; exact hlast
  have hj := junctions_getElem ex h (ex.length - 2) a t ha hlast'
  have hg : pyGet? (junctionsFromBlocks ex) (-1) = some (a.2 + 1, t.1 - 1) := by
    have := pyGet?_neg (junctionsFromBlocks ex) 1 (by omega) (by omega)
    rw [hn] at this
    have e : ex.length - 1 - 1 = ex.length - 2 := by omega
    rw [e, hj] at this
    simpa using this
  simp only [getFollowingExon, or_true, if_true, hg]
  congr 1; ext <;> simp

example : Gapped [(1, 5), (10, 12), (20, 30)] ∧
    getExon (1, 30) (junctionsFromBlocks [(1, 5), (10, 12), (20, 30)]) 1 = some (10, 12) ∧
    getExon (1, 30) (junctionsFromBlocks [(1, 5), (10, 12), (20, 30)]) (-1) = some (20, 30) ∧
    getPrecedingExon (1, 30) (junctionsFromBlocks [(1, 5), (10, 12), (20, 30)]) 2 = some (20, 30) ∧
    getFollowingExon (1, 30) (junctionsFromBlocks [(1, 5), (10, 12), (20, 30)]) 0 = some (10, 12) := by
  refine ⟨by simp [Gapped], by decide, by decide, by decide, by decide⟩

/-! ### extra_exon_percentage -/

/-- numerator = number of read positions outside the isoform region (per exon: positions `< reg.1` plus positions
    `> reg.2`), denominator = total read length; raises (ZeroDivisionError) exactly when the total length is 0 -/
theorem extra_exon_percentage_spec (reg : Iv) (exons : List Iv) (w : WFl exons) :
    extraExonPercentage reg exons =
      if intervalsTotalLength exons = 0 then none
      else some ((exons.map (fun e => lenBelow e reg.1 + lenAbove e reg.2)).sum, intervalsTotalLength exons) := by
  simp only [extraExonPercentage, extraExonLoop_eq reg exons w]

/-- a non-empty well-formed read never divides by zero -/
theorem extra_exon_percentage_defined (reg : Iv) (exons : List Iv) (w : WFl exons) (hne : exons ≠ []) :
    extraExonPercentage reg exons =
      some ((exons.map (fun e => lenBelow e reg.1 + lenAbove e reg.2)).sum, intervalsTotalLength exons) := by
  rw [extra_exon_percentage_spec reg exons w]
  have := total_length_pos exons w hne
  have h0 : ¬ intervalsTotalLength exons = 0 := by omega
  simp only [h0, if_false]

example : WFl [(1, 5), (10, 12), (20, 30)] ∧
    extraExonPercentage (4, 24) [(1, 5), (10, 12), (20, 30)] = some (9, 19) := by
  refine ⟨by decide, by decide⟩

/-! ### truncate_read_to_polya (no caller in the pipeline) -/

/-- no tail on either side: the read is returned unchanged -/
theorem truncate_identity (exons : List Iv) (hne : exons ≠ []) : truncateReadToPolya exons (-1) (-1) = some exons := by
  cases exons with
  | nil => exact absurd rfl hne
  | cons a rest =>
    obtain ⟨t, ht⟩ : ∃ t, (a :: rest).getLast? = some t :=
      ⟨(a :: rest).getLast (by simp), List.getLast?_eq_some_getLast (by simp)⟩
    simp [truncateReadToPolya, ht]

theorem truncate_empty (a t : Int) : truncateReadToPolya [] a t = none := rfl

/-- polyA side only, tail position `P` inside the read span in the sense that `P − 1` is a read position (`P` lies in
    an exon behind its first base, or directly behind an exon): the result is sorted, disjoint and well formed, starts
    where the read starts, ends at `P`, and covers exactly the read positions `≤ P` plus `P` itself -/
theorem truncate_polya_spec (exons : List Iv) (f t : Iv) (P : Int) (h : SD exons) (w : WFl exons)
    (hf : exons.head? = some f) (ht : exons.getLast? = some t) (hP : P ≠ -1) (hin : cov exons (P - 1)) :
    ∃ res, truncateReadToPolya exons P (-1) = some res ∧ SD res ∧ WFl res ∧
      res.head?.map (·.1) = some f.1 ∧ res.getLast?.map (·.2) = some P ∧
      ∀ p, cov res p ↔ (p ≤ P ∧ cov exons p) ∨ p = P :=
  truncate_polya_aux exons f t P h w hf ht hP hin

/-- polyT side only, `T + 1` a read position: the result starts at `T`, ends where the read ends and covers exactly
    the read positions `≥ T` plus `T` itself -/
theorem truncate_polyt_spec (exons : List Iv) (f t : Iv) (T : Int) (h : SD exons) (w : WFl exons)
    (hf : exons.head? = some f) (ht : exons.getLast? = some t) (hT : T ≠ -1) (hin : cov exons (T + 1)) :
    ∃ res, truncateReadToPolya exons (-1) T = some res ∧ SD res ∧ WFl res ∧
      res.head?.map (·.1) = some T ∧ res.getLast?.map (·.2) = some t.2 ∧
      ∀ p, cov res p ↔ (T ≤ p ∧ cov exons p) ∨ p = T :=
  truncate_polyt_aux exons f t T h w hf ht hT hin

example : SD [(1, 5), (10, 12), (20, 30)] ∧ WFl [(1, 5), (10, 12), (20, 30)] ∧ cov [(1, 5), (10, 12), (20, 30)] (11 - 1) ∧
    truncateReadToPolya [(1, 5), (10, 12), (20, 30)] 11 (-1) = some [(1, 5), (10, 11)] ∧
    cov [(1, 5), (10, 12), (20, 30)] (11 + 1) ∧
    truncateReadToPolya [(1, 5), (10, 12), (20, 30)] (-1) 11 = some [(11, 12), (20, 30)] := by
  refine ⟨by decide, by decide, ⟨(10, 12), by simp, by decide, by decide⟩, by decide,
    ⟨(10, 12), by simp, by decide, by decide⟩, by decide⟩

/-- polyA side, ANY tail position behind the first base of the read (`f.1 < P`; at or before it the code indexes
    `read_exons[-1]` and returns an unsorted list): the result is sorted, disjoint, well formed, spans exactly
    `[read start, P]`, keeps every read position `≤ P`, and any other position it covers lies in the stretch between
    the end of the last exon starting before `P` and `P` (the last kept exon is stretched up to the tail) -/
theorem truncate_polya_span (exons : List Iv) (f t : Iv) (P : Int) (h : SD exons) (w : WFl exons)
    (hf : exons.head? = some f) (ht : exons.getLast? = some t) (hP : P ≠ -1) (hin : f.1 < P) :
    ∃ res, truncateReadToPolya exons P (-1) = some res ∧ SD res ∧ WFl res ∧
      res.head?.map (·.1) = some f.1 ∧ res.getLast?.map (·.2) = some P ∧
      (∀ p, p ≤ P → cov exons p → cov res p) ∧
      (∀ p, cov res p → p ≤ P ∧ (cov exons p ∨ ∀ e ∈ exons, e.1 < P → e.2 < p)) :=
  truncate_polya_span_aux exons f t P h w hf ht hP hin

/-- polyT side, ANY tail position before the last base of the read (`T < t.2`) -/
theorem truncate_polyt_span (exons : List Iv) (f t : Iv) (T : Int) (h : SD exons) (w : WFl exons)
    (hf : exons.head? = some f) (ht : exons.getLast? = some t) (hT : T ≠ -1) (hin : T < t.2) :
    ∃ res, truncateReadToPolya exons (-1) T = some res ∧ SD res ∧ WFl res ∧
      res.head?.map (·.1) = some T ∧ res.getLast?.map (·.2) = some t.2 ∧
      (∀ p, T ≤ p → cov exons p → cov res p) ∧
      (∀ p, cov res p → T ≤ p ∧ (cov exons p ∨ ∀ e ∈ exons, T < e.2 → p < e.1)) :=
  truncate_polyt_span_aux exons f t T h w hf ht hT hin

/-- the domain hypothesis of `truncate_polya_span` is needed: a polyA position at the first base makes the code read
    `read_exons[-1]` through Python's negative index and return an unsorted list -/
example : truncateReadToPolya [(1, 5), (10, 12), (20, 30)] 1 (-1) = some [(1, 5), (10, 12), (20, 1)] := by decide

/-- outside the domain of `truncate_polya_spec` the function does not truncate to read positions: a tail position strictly inside an intron
    stretches the neighbouring exon across the intron bases up to the tail (here 6 and 7 are not read positions) -/
example : truncateReadToPolya [(1, 5), (10, 12)] 8 (-1) = some [(1, 8)] := by decide

/-! ### binary search: termination, index safety and result -/

/-- for strictly increasing starts, a position inside `[l[t].1, l[t+1].1)` is found at index `t`
    (the halving loop terminates within the fuel and never leaves the list) -/
theorem bin_search_spec (l : List Iv) (pos : Int) (hinc : StrictInc (l.map (·.1))) (hw : WFl l)
    (f tl : Iv) (hf : l.head? = some f) (ht : l.getLast? = some tl)
    (t : Nat) (a b : Iv) (hta : l[t]? = some a) (htb : l[t + 1]? = some b)
    (hpa : a.1 ≤ pos) (hpb : pos < b.1) (hin : pos ≤ tl.2) :
    intervalBinSearch l pos = some (t : Int) :=
  bin_search_aux l pos hinc hw f tl hf ht t a b hta htb hpa hpb hin

theorem bin_search_outside (l : List Iv) (pos : Int) (f tl : Iv) (hf : l.head? = some f) (ht : l.getLast? = some tl)
    (hout : pos > tl.2 ∨ pos < f.1) : intervalBinSearch l pos = some (-1) := by
  simp [intervalBinSearch, hf, ht, hout]

theorem bin_search_last (l : List Iv) (pos : Int) (f tl : Iv) (hf : l.head? = some f) (ht : l.getLast? = some tl)
    (h1 : f.1 ≤ pos) (h2 : tl.1 ≤ pos) (h3 : pos ≤ tl.2) :
    intervalBinSearch l pos = some ((l.length : Int) - 1) := by
  have hne : l ≠ [] := by intro e; simp [e] at hf
  have : 0 < l.length := List.length_pos_iff.mpr hne
  simp [intervalBinSearch, hf, ht]
  have : ¬ (tl.2 < pos ∨ pos < f.1) := by omega
  simp [this, h2]; omega

example : intervalBinSearch [(1, 5), (10, 12), (20, 30), (40, 41), (50, 60)] 11 = some 1 := by decide

/-- mirror search (`interval_bin_search_rev`): for strictly increasing ends a position in `(l[t].2, l[t+1].2]`
    is found at index `t + 1`; the loop terminates, and Python's silent `l[-1]` wrap at index 0 is harmless -/
theorem bin_search_rev_spec (l : List Iv) (pos : Int) (hinc : StrictInc (l.map (fun r => r.2 + 1)))
    (f tl : Iv) (hf : l.head? = some f) (ht : l.getLast? = some tl)
    (t : Nat) (a b : Iv) (hta : l[t]? = some a) (htb : l[t + 1]? = some b)
    (hpa : a.2 < pos) (hpb : pos ≤ b.2) (hin : f.1 ≤ pos) :
    intervalBinSearchRev l pos = some ((t : Int) + 1) :=
  bin_search_rev_aux l pos hinc f tl hf ht t a b hta htb hpa hpb hin

theorem bin_search_rev_outside (l : List Iv) (pos : Int) (f tl : Iv) (hf : l.head? = some f) (ht : l.getLast? = some tl)
    (hout : pos > tl.2 ∨ pos < f.1) : intervalBinSearchRev l pos = some (-1) := by
  simp [intervalBinSearchRev, hf, ht, hout]

theorem bin_search_rev_first (l : List Iv) (pos : Int) (f tl : Iv) (hf : l.head? = some f) (ht : l.getLast? = some tl)
    (h1 : f.1 ≤ pos) (h2 : pos ≤ f.2) (h3 : pos ≤ tl.2) : intervalBinSearchRev l pos = some 0 := by
  have : ¬ (tl.2 < pos ∨ pos < f.1) := by omega
  simp [intervalBinSearchRev, hf, ht, this, h2]

example : intervalBinSearchRev [(1, 5), (10, 12), (20, 30), (40, 41), (50, 60)] 35 = some 3 := by decide

end IsoVerif.Props.C19Lists
