import IsoVerif.Props.C19
namespace IsoVerif.Props.C19Lists
end IsoVerif.Props.C19Lists
