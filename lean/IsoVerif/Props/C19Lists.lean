/-
C19 (lists) — the loop functions of src/common.py equal their set-theoretic specification for every
sorted, pairwise disjoint, well-formed interval list (no bound on length or coordinates).
`inter l₁ l₂` (Lemmas/Interval.lean) is the number of common positions written as the double sum of the
generated `intersection_len`, which `C19.intersection_len_eq` grounds in positions.
-/
import IsoVerif.Props.C19
import IsoVerif.Lemmas.Interval
import IsoVerif.Lemmas.BinSearch
import IsoVerif.Lemmas.Lists
import IsoVerif.Lemmas.Jaccard
import IsoVerif.Lemmas.Merge
import IsoVerif.Lemmas.BinSearchRev
import IsoVerif.Lemmas.Positions

namespace IsoVerif.Props.C19Lists
open IsoVerif.Gen IsoVerif.Model IsoVerif.Lemmas

/-! ### grounding in sets of positions
`countWin f lo n` is the number of positions `p ∈ [lo, lo+n)` with `f p`; `covb l p` decides whether `p` is covered by `l`.
Inside any window containing the lists, total length = |A| and `inter` = |A ∩ B|. -/

theorem total_length_counts_positions (l : List Iv) (lo : Int) (n : Nat) (h : SD l) (w : WFl l)
    (hwin : ∀ r ∈ l, lo ≤ r.1 ∧ r.2 < lo + n) :
    intervalsTotalLength l = (countWin (covb l) lo n : Int) :=
  total_length_counts l lo n h w hwin

theorem inter_counts_positions (l1 l2 : List Iv) (lo : Int) (n : Nat) (h1 : SD l1) (h2 : SD l2) (w1 : WFl l1) (w2 : WFl l2)
    (hwin : ∀ r ∈ l1, lo ≤ r.1 ∧ r.2 < lo + n) :
    inter l1 l2 = (countWin (fun p => covb l1 p && covb l2 p) lo n : Int) :=
  inter_counts l1 l2 lo n h1 h2 w1 w2 hwin

theorem covb_iff_cov (l : List Iv) (p : Int) : covb l p = true ↔ cov l p := covb_iff l p

example : intervalsTotalLength [(2, 4), (7, 7)] = (countWin (covb [(2, 4), (7, 7)]) 0 10 : Int) := by decide

/-! ### total length, coverage sweep -/

theorem total_length_eq_sum (l : List Iv) :
    intervalsTotalLength l = (l.map (fun r => r.2 - r.1 + 1)).sum := by
  induction l with
  | nil => rfl
  | cons a t ih => simp [intervalsTotalLength, interval_len, ih]

/-- the two-pointer sweep of `read_coverage_fraction` returns the number of common positions -/
theorem coverage_sweep_eq (l1 l2 : List Iv) (h1 : SD l1) (h2 : SD l2) (w1 : WFl l1) (w2 : WFl l2) :
    readCoverageSweep l1 l2 = inter l1 l2 :=
  sweep_eq_inter l1 l2 h1 h2 w1 w2

/-- `read_coverage_fraction` = |read ∩ isoform| / |read| (as an exact fraction); it raises exactly when the
    read has total length 0 -/
theorem coverage_fraction_spec (read iso : List Iv) (h1 : SD read) (h2 : SD iso) (w1 : WFl read) (w2 : WFl iso) :
    readCoverageFraction read iso =
      if intervalsTotalLength read = 0 then none else some (inter read iso, intervalsTotalLength read) := by
  simp only [readCoverageFraction, coverage_sweep_eq read iso h1 h2 w1 w2]

example : SD [(1, 5), (10, 12)] ∧ SD [(4, 11)] ∧ readCoverageFraction [(1, 5), (10, 12)] [(4, 11)] = some (4, 8) := by
  decide +kernel

/-! ### Jaccard similarity -/

/-- `jaccard_similarity` = |A ∩ B| / |A ∪ B| with |A ∪ B| = |A| + |B| − |A ∩ B| (exact fraction); the inner
    assertion never fails on sorted disjoint lists and the function raises exactly when the union is empty -/
theorem jaccard_sweep_eq (l1 l2 : List Iv) (h1 : SD l1) (h2 : SD l2) (w1 : WFl l1) (w2 : WFl l2) :
    jaccardSweep l1 l2 =
      if intervalsTotalLength l1 + intervalsTotalLength l2 - inter l1 l2 = 0 then none
      else some (inter l1 l2, intervalsTotalLength l1 + intervalsTotalLength l2 - inter l1 l2) := by
  simp only [jaccardSweep]
  rw [jaccardLoop_spec l1 false l2 false h1 h2 w1 w2 (by simp) (by simp) (by simp)]
  simp

example : SD [(1, 5), (10, 12)] ∧ jaccardSweep [(1, 5), (10, 12)] [(4, 11)] = some (4, 12) := by
  decide +kernel

/-! ### merging -/

/-- `merge_ranges` on sorted disjoint lists (not both empty) succeeds — neither assertion fires and the
    accumulator is never indexed while empty — and the returned blocks cover exactly the union of the positions -/
theorem merge_cov (l1 l2 : List Iv) (h1 : SD l1) (h2 : SD l2) (w1 : WFl l1) (w2 : WFl l2)
    (hne : l1 ≠ [] ∨ l2 ≠ []) :
    ∃ res, mergeRanges l1 l2 = some res ∧ ∀ p, cov res p ↔ cov l1 p ∨ cov l2 p := by
  obtain ⟨acc, hacc, hcov⟩ := mergeLoop_spec l1 false l2 false [] h1 h2 w1 w2 (by simp) (by simp) (by simp)
  have hne' : acc.isEmpty = false := by
    cases hacc' : acc with
    | cons x t => rfl
    | nil =>
      exfalso
      subst hacc'
      rcases hne with h | h
      · cases l1 with
        | nil => exact h rfl
        | cons a t =>
          have := (hcov a.1).mpr (Or.inr (Or.inl ⟨a, by simp, by omega, WFl_head w1⟩))
          exact cov_nil _ this
      · cases l2 with
        | nil => exact h rfl
        | cons a t =>
          have := (hcov a.1).mpr (Or.inr (Or.inr ⟨a, by simp, by omega, WFl_head w2⟩))
          exact cov_nil _ this
  refine ⟨acc.reverse, by simp [mergeRanges, hacc, hne'], fun p => ?_⟩
  rw [cov_reverse, hcov p]
  simp [cov_nil]

/-- both lists empty: the real code raises (assert len(union) != 0) -/
theorem merge_empty : mergeRanges [] [] = none := by decide +kernel

example : mergeRanges [(1, 5), (10, 12)] [(4, 11), (20, 21)] = some [(1, 12), (20, 21)] := by decide +kernel

/-! ### prefix / suffix sums -/

/-- `lenBelow r p` / `lenAbove r p` (Lemmas/Lists.lean) are the numbers of positions of `r` that are `< p` / `> p` -/
theorem lenBelow_def (r : Iv) (p : Int) : lenBelow r p = max 0 (min r.2 (p - 1) - r.1 + 1) := rfl
theorem lenAbove_def (r : Iv) (p : Int) : lenAbove r p = max 0 (r.2 - max r.1 (p + 1) + 1) := rfl

theorem sum_to_point_spec (l : List Iv) (p : Int) (h : SD l) (w : WFl l) (hne : l ≠ []) :
    sumIntervalsToPoint l p = some ((l.map (lenBelow · p)).sum) :=
  sum_to_point_aux l p h w hne

theorem sum_from_point_spec (l : List Iv) (p : Int) (h : SD l) (w : WFl l) (hne : l ≠ []) :
    sumIntervalsFromPoint l p = some ((l.map (lenAbove · p)).sum) :=
  sum_from_point_aux l p h w hne

/-- on the empty list the real code raises IndexError; so does the model -/
theorem sum_to_point_empty (p : Int) : sumIntervalsToPoint [] p = none := rfl

example : sumIntervalsToPoint [(1, 5), (10, 12)] 11 = some 6 ∧ sumIntervalsFromPoint [(1, 5), (10, 12)] 3 = some 5 := by
  decide

/-! ### junctions and exons are inverse -/

/- `Gapped` (Lemmas/Lists.lean): exon lists as produced from an alignment — well formed, each exon separated
   from the next by ≥ 1 base -/

theorem junctions_exons_inverse (ex : List Iv) (f t : Iv) (h : Gapped ex)
    (hf : ex.head? = some f) (ht : ex.getLast? = some t) :
    getExons (f.1, t.2) (junctionsFromBlocks ex) = ex :=
  junctions_exons_inverse_aux ex f t h hf ht

/-- introns are exactly the gaps: each junction abuts the exons on both sides -/
theorem junctions_are_gaps (a b : Iv) (t : List Iv) (h : a.2 + 1 < b.1) :
    junctionsFromBlocks (a :: b :: t) = (a.2 + 1, b.1 - 1) :: junctionsFromBlocks (b :: t) := by
  simp [junctionsFromBlocks, h]

theorem junctions_skip_touching (a b : Iv) (t : List Iv) (h : ¬ a.2 + 1 < b.1) :
    junctionsFromBlocks (a :: b :: t) = junctionsFromBlocks (b :: t) := by
  simp [junctionsFromBlocks, h]

example : Gapped [(1, 5), (10, 12), (20, 30)] ∧
    getExons (1, 30) (junctionsFromBlocks [(1, 5), (10, 12), (20, 30)]) = [(1, 5), (10, 12), (20, 30)] := by
  refine ⟨by simp [Gapped], by decide⟩

/-! ### binary search: termination, index safety and result -/

/-- for strictly increasing starts, a position inside `[l[t].1, l[t+1].1)` is found at index `t`
    (the halving loop terminates within the fuel and never leaves the list) -/
theorem bin_search_spec (l : List Iv) (pos : Int) (hinc : StrictInc (l.map (·.1))) (hw : WFl l)
    (f tl : Iv) (hf : l.head? = some f) (ht : l.getLast? = some tl)
    (t : Nat) (a b : Iv) (hta : l[t]? = some a) (htb : l[t + 1]? = some b)
    (hpa : a.1 ≤ pos) (hpb : pos < b.1) (hin : pos ≤ tl.2) :
    intervalBinSearch l pos = some (t : Int) :=
  bin_search_aux l pos hinc hw f tl hf ht t a b hta htb hpa hpb hin

theorem bin_search_outside (l : List Iv) (pos : Int) (f tl : Iv) (hf : l.head? = some f) (ht : l.getLast? = some tl)
    (hout : pos > tl.2 ∨ pos < f.1) : intervalBinSearch l pos = some (-1) := by
  simp [intervalBinSearch, hf, ht, hout]

theorem bin_search_last (l : List Iv) (pos : Int) (f tl : Iv) (hf : l.head? = some f) (ht : l.getLast? = some tl)
    (h1 : f.1 ≤ pos) (h2 : tl.1 ≤ pos) (h3 : pos ≤ tl.2) :
    intervalBinSearch l pos = some ((l.length : Int) - 1) := by
  have hne : l ≠ [] := by intro e; simp [e] at hf
  have : 0 < l.length := List.length_pos_iff.mpr hne
  simp [intervalBinSearch, hf, ht]
  have : ¬ (tl.2 < pos ∨ pos < f.1) := by omega
  simp [this, h2]; omega

example : intervalBinSearch [(1, 5), (10, 12), (20, 30), (40, 41), (50, 60)] 11 = some 1 := by decide

/-- mirror search (`interval_bin_search_rev`): for strictly increasing ends a position in `(l[t].2, l[t+1].2]`
    is found at index `t + 1`; the loop terminates, and Python's silent `l[-1]` wrap at index 0 is harmless -/
theorem bin_search_rev_spec (l : List Iv) (pos : Int) (hinc : StrictInc (l.map (fun r => r.2 + 1)))
    (f tl : Iv) (hf : l.head? = some f) (ht : l.getLast? = some tl)
    (t : Nat) (a b : Iv) (hta : l[t]? = some a) (htb : l[t + 1]? = some b)
    (hpa : a.2 < pos) (hpb : pos ≤ b.2) (hin : f.1 ≤ pos) :
    intervalBinSearchRev l pos = some ((t : Int) + 1) :=
  bin_search_rev_aux l pos hinc f tl hf ht t a b hta htb hpa hpb hin

theorem bin_search_rev_outside (l : List Iv) (pos : Int) (f tl : Iv) (hf : l.head? = some f) (ht : l.getLast? = some tl)
    (hout : pos > tl.2 ∨ pos < f.1) : intervalBinSearchRev l pos = some (-1) := by
  simp [intervalBinSearchRev, hf, ht, hout]

theorem bin_search_rev_first (l : List Iv) (pos : Int) (f tl : Iv) (hf : l.head? = some f) (ht : l.getLast? = some tl)
    (h1 : f.1 ≤ pos) (h2 : pos ≤ f.2) (h3 : pos ≤ tl.2) : intervalBinSearchRev l pos = some 0 := by
  have : ¬ (tl.2 < pos ∨ pos < f.1) := by omega
  simp [intervalBinSearchRev, hf, ht, this, h2]

example : intervalBinSearchRev [(1, 5), (10, 12), (20, 30), (40, 41), (50, 60)] 35 = some 3 := by decide

end IsoVerif.Props.C19Lists
