/-
C04 (part 5) — `IntronGraph.attach_terminal_positions`: the terminal vertices of the graph.
Every vertex attached to `outgoing_edges[v]` is `(VERTEX_polya | VERTEX_read_end, pos)` with `pos` beyond the end of `v`,
every vertex attached to `incoming_edges[v]` is `(VERTEX_polyt | VERTEX_read_start, pos)` with `pos` before the start of `v`;
`pos` is the outer end of a non-multimapper read or (polyA / polyT clusters only) an annotated transcript end of an isoform
whose last / first intron is `v`.  Hence all terminal positions lie inside the chromosome.
Property theorems only; helper lemmas: IsoVerif/Lemmas/IntronTerminals.lean.  Model: IsoVerif/Model/IntronTerminals.lean.
-/
import IsoVerif.Model.IntronTerminals
import IsoVerif.Lemmas.IntronTerminals
import IsoVerif.Props.C04Graph

namespace IsoVerif.Props.C04Terminals
open IsoVerif.Gen IsoVerif.Model IsoVerif.Model.C04 IsoVerif.Lemmas.C04 IsoVerif.Props.C04Graph

/-- **attached_terminals_spec.** Whatever the graph, the reads and the thresholds: every operation
    `attach_terminal_positions` performs is a defaultdict read of `clustered_introns[i]` for a neighbour `i`, or attaches to a
    key `v` of `clustered_introns` a polyA / read-end vertex positioned after `v.end` (resp. a polyT / read-start vertex
    positioned before `v.start`) whose position is the end (start) of a non-multimapper read — or, for polyA / polyT
    clusters, an annotated terminal position of `v`.  (`none` = an `assert` of `cluster_polya_positions` fails.) -/
theorem attached_terminals_spec (g : Graph) (p : TermParams) (reads : List Read) (ops : List Op) (fr : Bool)
    (h : attachTerminalOps g p reads = some (ops, fr)) : ∀ op ∈ ops, AttachOpOK g p reads op :=
  attachTerminalOps_ok h

/-- **attach_keeps_correction_map.** `attach_terminal_positions` changes neither the correction map nor the discarded
    set (so `correction_map_clean` survives it), and adds nothing but the attached pairs to the edge sets. -/
theorem attach_keeps_correction_map (g g' : Graph) (p : TermParams) (reads : List Read)
    (h : g.attachTerminals p reads = some g') :
    g'.col.corr = g.col.corr ∧ g'.col.discarded = g.col.discarded ∧
    (∀ k t, (k, t) ∈ g'.out → (k, t) ∈ g.out ∨ AttachOpOK g p reads (Op.attachOut k t)) ∧
    (∀ k t, (k, t) ∈ g'.inc → (k, t) ∈ g.inc ∨ AttachOpOK g p reads (Op.attachInc k t)) := by
  unfold Graph.attachTerminals at h
  split at h
  · simp at h
  · rename_i ops fr hops
    have hok := attachTerminalOps_ok hops
    obtain ⟨h1, h2, h3, h4⟩ := foldlM_attach_edges (p := p) (reads := reads) g ops hok h
    refine ⟨h3, h4, fun k t hk => ?_, fun k t hk => ?_⟩
    · rcases h1 k t hk with h' | h'
      · exact Or.inl h'
      · exact Or.inr (hok _ h')
    · rcases h2 k t hk with h' | h'
      · exact Or.inl h'
      · exact Or.inr (hok _ h')

/-- **attach_is_history.** On a graph without terminal vertices the operations of `attach_terminal_positions` are scoped
    in the sense of `runOps`: the whole `IntronGraph.__init__` is one operation history, so every theorem stated for
    arbitrary histories (`vertices_observed`, `edges_witnessed`, `paths_monotone`, …) covers the modelled attachment. -/
theorem attach_is_history (obs : List Iv) (g g' : Graph) (p : TermParams) (reads : List Read) (hn : NoTerm g)
    (h : g.attachTerminals p reads = some g') :
    ∃ aops, attachTerminalOps g p reads = some (aops, (attachTerminalOps g p reads).elim false (·.2)) ∧
      runOps obs g aops = some g' := by
  unfold Graph.attachTerminals at h
  split at h
  · simp at h
  · rename_i ops fr hops
    refine ⟨ops, by simp [hops], ?_⟩
    rw [runOps_of_attach (obs := obs) hn ops (attachTerminalOps_ok hops) g (fun v hv => hv)]
    exact h

/-- **terminal_vertices_spec.** The whole constructor: `process`, `construct()`, ANY history of operations that are not
    attachments (what `simplify()` does), then the modelled `attach_terminal_positions`.  If read introns have non-negative
    coordinates, read exons are well-formed and, like the annotated transcript ends, lie inside `[1, L]`, then every non-intron member of
    `outgoing_edges[k]` has a terminal code, a position after `k.end` and inside `[1, L]`; every non-intron member of
    `incoming_edges[k]` has a starting code, a position before `k.start` and inside `[1, L]`. -/
theorem terminal_vertices_spec (known : List Iv) (δ minCount : Int) (reads : List Read) (ops : List Op) (g0 g1 g' : Graph)
    (p : TermParams) (L : Int) (hpos : ∀ v, Observed reads v → 0 ≤ v.1)
    (hreads : ∀ r ∈ reads, ∀ e ∈ r.exons, 1 ≤ e.1 ∧ e.1 ≤ e.2 ∧ e.2 ≤ L)
    (hke : ∀ e ∈ p.knownEnds, ∀ x ∈ e.2, 1 ≤ x ∧ x ≤ L) (hks : ∀ e ∈ p.knownStarts, ∀ x ∈ e.2, 1 ≤ x ∧ x ≤ L)
    (h0 : Graph.constructed known δ reads minCount = some g0)
    (hna : ∀ op ∈ ops, notAttach op = true) (h1 : runOps (obsIntrons reads) g0 ops = some g1)
    (h2 : g1.attachTerminals p reads = some g') :
    (∀ k t, (k, t) ∈ g'.out → isIntronVertex t = false → t.1 ∈ terminal_vertex_codes ∧ k.2 < t.2 ∧ 1 ≤ t.2 ∧ t.2 ≤ L) ∧
    (∀ k t, (k, t) ∈ g'.inc → isIntronVertex t = false → t.1 ∈ starting_vertex_codes ∧ t.2 < k.1 ∧ 1 ≤ t.2 ∧ t.2 ≤ L) ∧
    NoTerm g1 := by
  have hpos' : ∀ v ∈ obsIntrons reads, 0 ≤ v.1 := fun v hv => hpos v (mem_obsIntrons.1 hv)
  have hinit : GSub (Graph.init known δ reads minCount) (fun v => v ∈ obsIntrons reads) :=
    ⟨collectorProcess_csub known δ reads minCount, by simp [Graph.init, ESub], by simp [Graph.init, ESub]⟩
  have hn0 : NoTerm (Graph.init known δ reads minCount) := ⟨by simp [Graph.init], by simp [Graph.init]⟩
  have hcons : ∀ op ∈ constructOps (Graph.init known δ reads minCount).col reads, notAttach op = true := by
    intro op hop
    obtain ⟨v1, v2, rfl, _, _⟩ := constructOps_scoped _ reads op hop
    rfl
  obtain ⟨n0, s0⟩ := runOps_noTerm hpos' _ hinit hn0 hcons h0
  obtain ⟨n1, _⟩ := runOps_noTerm hpos' _ s0 n0 hna h1
  obtain ⟨_, _, ho, hi⟩ := attach_keeps_correction_map g1 g' p reads h2
  have hend : ∀ pos, ReadEndPos reads pos → 1 ≤ pos ∧ pos ≤ L := by
    rintro pos ⟨r, hr, _, el, hel, rfl⟩
    have := hreads r hr el (List.mem_of_getLast? hel); omega
  have hstart : ∀ pos, ReadStartPos reads pos → 1 ≤ pos ∧ pos ≤ L := by
    rintro pos ⟨r, hr, _, e0, he0, rfl⟩
    obtain ⟨ys, hys⟩ := List.head?_eq_some_iff.mp he0
    have := hreads r hr e0 (by rw [hys]; simp); omega
  have hk : ∀ (tbl : List (Iv × List Int)), (∀ e ∈ tbl, ∀ x ∈ e.2, 1 ≤ x ∧ x ≤ L) →
      ∀ v x, x ∈ (amGet? tbl v).getD [] → 1 ≤ x ∧ x ≤ L := by
    intro tbl ht v x hx
    cases hg : amGet? tbl v with
    | none => simp [hg] at hx
    | some l => simp only [hg, Option.getD_some] at hx; exact ht (v, l) (amGet?_mem hg) x hx
  refine ⟨?_, ?_, n1⟩
  · intro k t hkt hti
    rcases ho k t hkt with h' | ⟨_, hgt, hc⟩
    · have := n1.1 (k, t) h'; simp only at this; rw [this] at hti; cases hti
    · simp only [terminal_vertex_codes, List.mem_cons, List.not_mem_nil, or_false]
      rcases hc with ⟨e, hor⟩ | ⟨e, hr⟩
      · refine ⟨Or.inl e, hgt, ?_⟩
        rcases hor with hr | hkn
        · exact hend _ hr
        · exact hk p.knownEnds hke k t.2 hkn
      · exact ⟨Or.inr e, hgt, hend _ hr⟩
  · intro k t hkt hti
    rcases hi k t hkt with h' | ⟨_, hgt, hc⟩
    · have := n1.2 (k, t) h'; simp only at this; rw [this] at hti; cases hti
    · simp only [starting_vertex_codes, List.mem_cons, List.not_mem_nil, or_false]
      rcases hc with ⟨e, hor⟩ | ⟨e, hr⟩
      · refine ⟨Or.inl e, hgt, ?_⟩
        rcases hor with hr | hkn
        · exact hstart _ hr
        · exact hk p.knownStarts hks k t.2 hkn
      · exact ⟨Or.inr e, hgt, hstart _ hr⟩

/-! non-vacuity: the reads of the end-to-end example get a polyA vertex at 400 and a read-start vertex at 10 from the
    modelled attachment (thresholds of the `default_ont`-like kind), after which the code's path enumeration finds the
    full-length path -/

def exTermParams : TermParams :=
  { delta := 0, apaDelta := 10, abs := 1, relM := 100, internalRelM := 50, knownEnds := [], knownStarts := [] }

def e2eReads' : List Read :=
  [⟨"a", [(50, 90), (100, 200)], [(10, 49), (91, 99), (201, 400)], false, "+", true, false, "g"⟩,
   ⟨"b", [(50, 90), (100, 200)], [(12, 49), (91, 99), (201, 400)], false, "+", true, false, "g"⟩,
   ⟨"c", [(50, 90), (100, 200)], [(10, 49), (91, 99), (201, 398)], false, "+", true, false, "g"⟩]

example : (((Graph.constructed [] 0 e2eReads' 1).bind (fun g0 => g0.attachTerminals exTermParams e2eReads')).map (fun g => g.out)
      = some [((50, 90), (100, 200)), ((100, 200), (VERTEX_polya, 400))]) ∧
    (((Graph.constructed [] 0 e2eReads' 1).bind (fun g0 => g0.attachTerminals exTermParams e2eReads')).map (fun g => g.inc)
      = some [((100, 200), (50, 90)), ((50, 90), (VERTEX_read_start, 10))]) ∧
    (((Graph.constructed [] 0 e2eReads' 1).bind (fun g0 => g0.attachTerminals exTermParams e2eReads')).map
      (fun g => (fillGraphPaths g 0 10 true e2eReads').fl)
      = some [[(VERTEX_read_start, 10), (50, 90), (100, 200), (VERTEX_polya, 400)]]) := by decide +kernel

/-- an annotated transcript end within `apa_delta` of the best supported polyA position replaces it -/
example : ((Graph.constructed [] 0 e2eReads' 1).bind (fun g0 =>
      g0.attachTerminals { exTermParams with knownEnds := [((100, 200), [405, 900])] } e2eReads')).map (fun g => g.out)
    = some [((50, 90), (100, 200)), ((100, 200), (VERTEX_polya, 405))] := by decide +kernel

end IsoVerif.Props.C04Terminals
