/-
C04 (growth: `detect_similar_isoforms` inside the model) — the non-redundancy clause for models with ≥ 3 exons and the
bookkeeping clauses of `pre_filter_transcripts` / `filter_transcripts`, about the filter as the code COMPUTES it
(`Model/SimilarIsoforms.lean`: `detectSimilar` = the C01 assigner model on `GeneInfo.from_models([model])` +
`is_matching_assignment` over the GENERATED allowed set; `Store.filterTranscriptsC` = both passes with the end correction
in between).  Component coverage, per-read mapq and the reads' outer coordinates are universally quantified inputs.
Property theorems only (helper lemmas: IsoVerif/Lemmas/SimilarIsoforms.lean).

Result.  The full-strength clause "after `filter_transcripts` no two novel models with ≥ 3 exons of one strand share their
intron chain" (`ChainsDistinctAfterFilter`) is FALSE of the function (`chains_distinct_after_filter_witness`: two models with
one chain whose ends are not nested — each reaches more than `minor_exon_extension` beyond the other — are both kept;
replayed on the real `filter_transcripts` by harness/props/c04sim.py).  What the filter guarantees is
`survivors_pairwise_unmatched`: no surviving novel model would be substituted by another surviving model; hence
`chains_distinct_after_filter_partial` under the exact decidable hypothesis that one model of every same-chain pair matches
the other.
-/
import IsoVerif.Model.SimilarIsoforms
import IsoVerif.Lemmas.SimilarIsoforms
import IsoVerif.Lemmas.Exons

namespace IsoVerif.Props.C04Similar
open IsoVerif.Gen IsoVerif.Model IsoVerif.Model.C04 IsoVerif.Lemmas.C04
open IsoVerif.Lemmas (Gapped)

/-! ## the allowed event set (regenerated from `is_matching_assignment`) -/

/-- no event `is_matching_assignment` tolerates is a major inconsistency … -/
theorem allowed_events_not_major : ∀ e ∈ matching_allowed_events, e.is_major_inconsistency = false := by decide

/-- … and an alternative polyA / polyT site or a major exon elongation is never tolerated -/
theorem alternative_polya_not_allowed :
    matching_allowed_events.contains .alternative_polya_site_left = false ∧
    matching_allowed_events.contains .alternative_polya_site_right = false ∧
    matching_allowed_events.contains .major_exon_elongation_left = false ∧
    matching_allowed_events.contains .major_exon_elongation_right = false := by decide

/-- **simPolyA_absent.** The polyA / polyT vertex → `PolyAInfo` conversion of `detect_similar_isoforms` tests the START
    COORDINATE of the first / last INTRON of `intron_path` (= `path[1:-1]`, the terminal vertices are already cut off)
    against the vertex codes −20 / −10.  For genomic (non-negative) coordinates it never fires: the assigner is always
    called with `PolyAInfo(-1, -1, -1, -1)`, so no `alternative_polya_site_*` / `correct_polya_site_*` event can arise from
    the terminal vertices of the compared model. -/
theorem simPolyA_absent (path : List Iv) (hne : path ≠ []) (hpos : ∀ i ∈ path, 0 ≤ i.1) :
    simPolyA path = some ⟨-1, -1, -1, -1⟩ := by
  unfold simPolyA
  cases hh : path.head? with
  | none => simp [List.head?_eq_none_iff] at hh; exact absurd hh hne
  | some first =>
    cases hl : path.getLast? with
    | none => simp [List.getLast?_eq_none_iff] at hl; exact absurd hl hne
    | some last =>
      have h1 := hpos first (List.mem_of_mem_head? hh)
      have h2 := hpos last (List.mem_of_getLast? hl)
      have e1 : ¬ first.1 = VERTEX_polyt := by unfold VERTEX_polyt; omega
      have e2 : ¬ last.1 = VERTEX_polya := by unfold VERTEX_polya; omega
      simp [e1, e2]

/-- non-vacuity, and the only way the conversion fires: an intron that starts at coordinate −20 -/
example : (simPolyA [(1201, 1299), (1401, 1499)]).map (fun x => (x.extA, x.extT, x.intA, x.intT)) = some (-1, -1, -1, -1) ∧
    (simPolyA [(-20, 59), (121, 199)]).map (fun x => (x.extA, x.extT, x.intA, x.intT)) = some (-1, 59, -1, -1) := by
  decide +kernel

/-! ## detect_similar_isoforms: who is substituted by whom -/

/-- **detect_similar_sound.** Every entry `to_substitute[k] = v` names two models of the storage: `v` is the id of a model
    with ≥ 3 exons (known or novel) whose artificial gene was built, `k` the id of a NOVEL model `m ≠ model` with ≥ 2 exons, a
    non-empty `intron_path` and at most as many exons as `model`, and `is_matching_assignment` held for `m` assigned against
    `model`.  It is the model playing the READ that is deleted; the model playing the GENE stays. -/
theorem detect_similar_sound {γ : Type} (prep : TModel → Option γ) (verdict : γ → TModel → Option Bool)
    (storage : List TModel) (sub : List (String × String)) (h : detectSimilarG prep verdict storage = some sub) :
    ∀ kv ∈ sub, ∃ model ∈ storage, ∃ g, ∃ m ∈ storage, 3 ≤ model.exons.length ∧ prep model = some g ∧
      kv = (m.tid, model.tid) ∧ Comparable model m ∧ verdict g m = some true := by
  intro kv hkv
  rcases simOuter_sound prep verdict storage storage [] sub h kv hkv with h1 | h1
  · simp at h1
  · exact h1

/-- **detect_similar_complete.** Two models that both stay OUT of `to_substitute` were compared (if the guard allows the
    comparison at all) and did not match: for every unsubstituted `model` with ≥ 3 exons its gene was built and every
    unsubstituted comparable `m` got the verdict `False`. -/
theorem detect_similar_complete {γ : Type} (prep : TModel → Option γ) (verdict : γ → TModel → Option Bool)
    (storage : List TModel) (sub : List (String × String)) (h : detectSimilarG prep verdict storage = some sub) :
    ∀ model ∈ storage, 3 ≤ model.exons.length → amHas sub model.tid = false →
      ∃ g, prep model = some g ∧ ∀ m ∈ storage, Comparable model m → amHas sub m.tid = false → verdict g m = some false :=
  simOuter_complete prep verdict storage storage [] sub h

/-! ## filter_transcripts, computed -/

/-- the second pass: the returned storage is the pre-filtered (end-corrected) storage minus the novel models the second
    `detect_similar_isoforms` names -/
theorem filterTranscriptsG_second_pass {s s' : Store} {p : FilterParams} {mapq : String → Int}
    {similar : List TModel → Option (List String)} {post : Store → TModel → Option TModel} {covTerm : TModel → Int}
    (h : s.filterTranscriptsG p mapq similar post covTerm = some s') :
    ∃ sub1 s1 pre sub2, similar s.models = some sub1 ∧
      filterLoopC (filterDec1 p mapq sub1 covTerm) post s.models s [] = some (s1, pre) ∧ similar pre = some sub2 ∧
      s'.models = pre.filter (fun m => decide (m.ttype = .known) || !decide (m.tid ∈ sub2)) := by
  unfold Store.filterTranscriptsG at h
  split at h
  · simp at h
  · rename_i sub1 h1
    split at h
    · simp at h
    · rename_i s1 pre h2
      split at h
      · simp at h
      · rename_i sub2 h3
        split at h
        · simp at h
        · rename_i s2 kept h4
          simp only [Option.some.injEq] at h; subst h
          refine ⟨sub1, s1, pre, sub2, h1, h2, h3, ?_⟩
          have := filterLoopG_dec2 sub2 pre s1 [] s2 kept h4
          simpa using this

/-- **survivors_pairwise_unmatched.** After the computed `filter_transcripts`: if a novel model `M` with ≥ 3 exons and a
    novel model `m` (another id, ≥ 2 exons, non-empty `intron_path`, at most as many exons as `M`) BOTH survive, then the
    assigner, run on the gene made of `M` alone, did NOT give `m` a matching assignment — evaluated on the models as
    returned (after end correction).  For every storage, all parameters, coverages, mapping qualities, read coordinates. -/
theorem survivors_pairwise_unmatched (s s' : Store) (p : FilterParams) (sp : SimParams) (mapq : String → Int)
    (readSpan : String → Iv) (covTerm : TModel → Int)
    (h : s.filterTranscriptsC p sp mapq readSpan covTerm = some s') :
    ∀ M ∈ s'.models, ∀ m ∈ s'.models, M.ttype ≠ .known → 3 ≤ M.exons.length → Comparable M m →
      simMatch sp M m = some false := by
  intro M hM m hm hMn hlen hc
  obtain ⟨sub1, s1, pre, sub2, _, _, h3, hmod⟩ := filterTranscriptsG_second_pass h
  rw [hmod] at hM hm
  simp only [List.mem_filter, Bool.or_eq_true, decide_eq_true_eq, Bool.not_eq_true', decide_eq_false_iff_not] at hM hm
  cases hd : detectSimilar sp pre with
  | none => simp [hd] at h3
  | some sub =>
    simp only [hd, Option.map_some, Option.some.injEq] at h3
    subst h3
    have hMk : amHas sub M.tid = false := by
      rcases hM.2 with hk | hk
      · exact absurd hk hMn
      · cases hb : amHas sub M.tid with
        | false => rfl
        | true => exact absurd ((amHas_iff_mem_keys sub M.tid).1 hb) hk
    have hmk : amHas sub m.tid = false := by
      rcases hm.2 with hk | hk
      · exact absurd hk hc.1
      · cases hb : amHas sub m.tid with
        | false => rfl
        | true => exact absurd ((amHas_iff_mem_keys sub m.tid).1 hb) hk
    obtain ⟨g, hg, hall⟩ := detect_similar_complete simGene (simVerdict sp) pre sub hd M hM.1 hlen hMk
    have := hall m hm.1 hc hmk
    unfold simMatch
    rw [hg]
    exact this

/-- the full-strength clause for spliced models with ≥ 3 exons (kept visible; FALSE: `chains_distinct_after_filter_witness`) -/
def ChainsDistinctAfterFilter : Prop :=
  ∀ (s s' : Store) (p : FilterParams) (sp : SimParams) (mapq : String → Int) (readSpan : String → Iv) (covTerm : TModel → Int),
    s.filterTranscriptsC p sp mapq readSpan covTerm = some s' →
    ∀ a ∈ s'.models, ∀ b ∈ s'.models, a.tid ≠ b.tid → a.ttype ≠ .known → b.ttype ≠ .known →
      3 ≤ a.exons.length → 3 ≤ b.exons.length → a.strand = b.strand → a.introns ≠ b.introns

/-- **chains_distinct_after_filter_partial.** Two surviving novel models with ≥ 3 exons (gapped exon lists, non-empty
    `intron_path`s) and ONE GTF intron chain are mutually unmatched: each was assigned against the other and neither
    assignment was a matching one.  Equivalently: if for a same-chain pair the assigner matches one model against the other
    (`simMatch sp a b = some true ∨ simMatch sp b a = some true` — decidable, the exact negation of the failing class), the two
    cannot both survive; the one that is deleted is the one that matched as a READ.  Whether strands agree plays no role:
    the comparison ignores the strand of `m`. -/
theorem chains_distinct_after_filter_partial (s s' : Store) (p : FilterParams) (sp : SimParams) (mapq : String → Int)
    (readSpan : String → Iv) (covTerm : TModel → Int)
    (h : s.filterTranscriptsC p sp mapq readSpan covTerm = some s')
    (a b : TModel) (ha : a ∈ s'.models) (hb : b ∈ s'.models) (hne : a.tid ≠ b.tid)
    (han : a.ttype ≠ .known) (hbn : b.ttype ≠ .known) (hal : 3 ≤ a.exons.length) (hbl : 3 ≤ b.exons.length)
    (hap : a.intronPath ≠ []) (hbp : b.intronPath ≠ []) (hag : Gapped a.exons) (hbg : Gapped b.exons)
    (hchain : a.introns = b.introns) :
    simMatch sp a b = some false ∧ simMatch sp b a = some false := by
  have hlen : a.exons.length = b.exons.length := by
    have h1 := IsoVerif.Lemmas.junctions_length a.exons hag
    have h2 := IsoVerif.Lemmas.junctions_length b.exons hbg
    unfold TModel.introns at hchain
    rw [hchain] at h1
    omega
  constructor
  · exact survivors_pairwise_unmatched s s' p sp mapq readSpan covTerm h a ha b hb han hal
      ⟨hbn, fun e => hne e.symm, by omega, hbp, by omega⟩
  · exact survivors_pairwise_unmatched s s' p sp mapq readSpan covTerm h b hb a ha hbn hbl
      ⟨han, hne, by omega, hap, by omega⟩

/-- the same as an exclusion: a same-chain pair one of whose members matches the other never survives together -/
theorem chains_distinct_when_matched (s s' : Store) (p : FilterParams) (sp : SimParams) (mapq : String → Int)
    (readSpan : String → Iv) (covTerm : TModel → Int)
    (h : s.filterTranscriptsC p sp mapq readSpan covTerm = some s')
    (a b : TModel) (hne : a.tid ≠ b.tid)
    (han : a.ttype ≠ .known) (hbn : b.ttype ≠ .known) (hal : 3 ≤ a.exons.length) (hbl : 3 ≤ b.exons.length)
    (hap : a.intronPath ≠ []) (hbp : b.intronPath ≠ []) (hag : Gapped a.exons) (hbg : Gapped b.exons)
    (hchain : a.introns = b.introns)
    (hfit : simMatch sp a b = some true ∨ simMatch sp b a = some true) :
    ¬ (a ∈ s'.models ∧ b ∈ s'.models) := by
  rintro ⟨ha, hb⟩
  obtain ⟨h1, h2⟩ := chains_distinct_after_filter_partial s s' p sp mapq readSpan covTerm h a b ha hb hne han hbn hal hbl
    hap hbp hag hbg hchain
  rcases hfit with hf | hf
  · rw [h1] at hf; simp at hf
  · rw [h2] at hf; simp at hf

/-! ## witness: non-nested ends -/

/-- the `default` matching preset as `isoquant.py` derives it (checked against the real namespace by the correspondence) -/
def wParams : SimParams :=
  { p := { delta := 6, minor_exon_extension := 50, major_exon_extension := 300, min_abs_exon_overlap := 10, apa_delta := 50,
           minimal_exon_overlap := 5, minimal_intron_absence_overlap := 20, max_fake_terminal_exon_len := 40,
           max_missed_exon_len := 100, resolve_ambiguous := .monoexon_and_fsm },
    q := { max_intron_shift := 60, micro_intron_length := 50, max_intron_abs_diff := 30,
           max_intron_rel_diff_num := 1, max_intron_rel_diff_den := 5, min_rel_exon_overlap_num := 1,
           min_rel_exon_overlap_den := 5, max_suspicious_intron_abs_len := 60,
           max_suspicious_intron_rel_len_num := 1, max_suspicious_intron_rel_len_den := 1 } }

def wA : TModel :=
  ⟨"chr1", .plus, "transcript1.chr1.nnic", "novel_gene_chr1_1", [(1000, 1200), (1300, 1400), (1500, 1600)],
   .novel_not_in_catalog, [(1201, 1299), (1401, 1499)]⟩

/-- the same intron chain; starts 100 bp later, ends 100 bp later -/
def wB : TModel :=
  ⟨"chr1", .plus, "transcript2.chr1.nnic", "novel_gene_chr1_2", [(1100, 1200), (1300, 1400), (1500, 1700)],
   .novel_not_in_catalog, [(1201, 1299), (1401, 1499)]⟩

def wStore : Store := (Store.empty.addModel wA ["a1", "a2", "a3"]).addModel wB ["b1", "b2", "b3"]

def wSpan (r : String) : Iv := if r = "a1" ∨ r = "a2" ∨ r = "a3" then (1000, 1600) else (1100, 1700)

/-- the two verdicts: assigned against `wA`, `wB` reaches 100 bp beyond its end (`major_exon_elongation_right`); assigned
    against `wB`, `wA` reaches 100 bp beyond its start (`major_exon_elongation_left`): neither matches -/
theorem witness_verdicts : simMatch wParams wA wB = some false ∧ simMatch wParams wB wA = some false := by
  decide +kernel

/-- **chains_distinct_after_filter_witness.** `ChainsDistinctAfterFilter` is FALSE of model and code: the storage
    `[wA, wB]` (three reads each, `min_novel_count = 2`) passes `pre_filter_transcripts` and the computed
    `filter_transcripts` unchanged — two novel 3-exon `+` models with the intron chain `[(1201,1299), (1401,1499)]`. -/
theorem chains_distinct_after_filter_witness : ¬ ChainsDistinctAfterFilter := by
  intro hall
  have hrun : wStore.filterTranscriptsC ⟨2, 30⟩ wParams (fun _ => 60) wSpan (fun _ => 0)
      = some { wStore with readIds := wStore.readIds, counter := wStore.counter } := by decide +kernel
  exact hall wStore _ ⟨2, 30⟩ wParams (fun _ => 60) wSpan (fun _ => 0) hrun wA (by decide +kernel) wB (by decide +kernel)
    (by decide +kernel) (by decide) (by decide) (by decide +kernel) (by decide +kernel) rfl (by decide +kernel)

/-- the witness also passes `pre_filter_transcripts` (3-exon models are never touched there) -/
example : (wStore.preFilter ⟨2, 30⟩ (fun _ => 60)).map (fun s => ids s.models) = some [wA.tid, wB.tid] := by decide +kernel

/-- non-vacuity of `chains_distinct_when_matched`: NESTED ends — `wC` lies inside `wA` — the pair is matched and the inner
    model is deleted together with its reads -/
def wC : TModel :=
  ⟨"chr1", .plus, "transcript3.chr1.nnic", "novel_gene_chr1_3", [(1100, 1200), (1300, 1400), (1500, 1550)],
   .novel_not_in_catalog, [(1201, 1299), (1401, 1499)]⟩

def wStore2 : Store := (Store.empty.addModel wA ["a1", "a2", "a3"]).addModel wC ["c1", "c2", "c3"]

example : Gapped wA.exons ∧ Gapped wC.exons := by simp [Gapped, wA, wC]

example : simMatch wParams wA wC = some true ∧ wA.introns = wC.introns ∧
    (wStore2.filterTranscriptsC ⟨2, 30⟩ wParams (fun _ => 60) wSpan (fun _ => 0)).map
      (fun s => (ids s.models, s.readIds.map (·.1), s.rcount))
      = some ([wA.tid], [wA.tid], [("a1", 1), ("a2", 1), ("a3", 1), ("c1", 0), ("c2", 0), ("c3", 0)]) := by
  decide +kernel

/-! ## bookkeeping of the two filters (what C04's other clauses need from them) -/

/-- **filters_only_delete.** `pre_filter_transcripts` returns a sub-list of the storage; the computed `filter_transcripts`
    returns, in the original order, models of the input storage whose `exon_blocks` may have been rewritten by the end
    correction and nothing else (id, type, strand, gene, `intron_path` untouched; a known model is returned verbatim).  No
    model is invented. -/
theorem filters_only_delete (s s' : Store) (p : FilterParams) (sp : SimParams) (mapq : String → Int)
    (readSpan : String → Iv) (covTerm : TModel → Int) :
    (s.preFilter p mapq = some s' → s'.models.Sublist s.models) ∧
    (s.filterTranscriptsC p sp mapq readSpan covTerm = some s' →
      (ids s'.models).Sublist (ids s.models) ∧
      ∀ b ∈ s'.models, ∃ a ∈ s.models, b = { a with exons := b.exons } ∧ (a.ttype = .known → b = a)) := by
  constructor
  · intro h
    obtain ⟨D, hsub, _, _⟩ := preFilter_spec h
    exact hsub
  · intro h
    have hp := correctModel_postOK sp.p.apa_delta readSpan
    obtain ⟨D, _, hsub, hmem, _, _⟩ := filterTranscriptsG_spec hp h
    refine ⟨hsub, fun b hb => ?_⟩
    obtain ⟨a, ha, sx, hpost⟩ := hmem b hb
    exact ⟨a, ha, (hp sx a b hpost).2, (hp sx a b hpost).1⟩

/-- **known_never_dropped.** Neither filter ever removes (or changes) a known model. -/
theorem known_never_dropped (s s' : Store) (p : FilterParams) (sp : SimParams) (mapq : String → Int)
    (readSpan : String → Iv) (covTerm : TModel → Int) :
    (s.preFilter p mapq = some s' → ∀ m ∈ s.models, m.ttype = .known → m ∈ s'.models) ∧
    (s.filterTranscriptsC p sp mapq readSpan covTerm = some s' → ∀ m ∈ s.models, m.ttype = .known → m ∈ s'.models) := by
  constructor
  · exact fun h => preFilter_known h
  · intro h
    obtain ⟨D, _, _, _, hk, _⟩ := filterTranscriptsG_spec (correctModel_postOK sp.p.apa_delta readSpan) h
    exact hk

/-- **surviving_novel_keeps_reads.** Every novel model that survives the computed `filter_transcripts` keeps exactly the
    reads `transcript_read_ids` listed for it before, and at least one (`min_novel_count ≥ 1`: `min_novel_count_pos`;
    `CounterLe`: `counter_le_reads`; distinct ids: C17).  With `Grow` of the final `assign_reads_to_models` this is what
    `has_supporting_read` states for ANY `detect_similar_isoforms`; here it holds of the computed one. -/
theorem surviving_novel_keeps_reads (s s' : Store) (p : FilterParams) (sp : SimParams) (mapq : String → Int)
    (readSpan : String → Iv) (covTerm : TModel → Int)
    (hpos : 1 ≤ p.minNovelCount) (hnd : (ids s.models).Nodup) (hle : CounterLe s)
    (h : s.filterTranscriptsC p sp mapq readSpan covTerm = some s') :
    ∀ m ∈ s'.models, m.ttype ≠ .known →
      readsIn s'.readIds m.tid = readsIn s.readIds m.tid ∧ 1 ≤ (readsIn s'.readIds m.tid).length := by
  obtain ⟨D, hsh, _, _, _, hB⟩ := filterTranscriptsG_spec (correctModel_postOK sp.p.apa_delta readSpan) h
  intro m hm hn
  obtain ⟨hD, hq⟩ := hB hnd m hm
  have hr : readsIn s'.readIds m.tid = readsIn s.readIds m.tid := by rw [hsh.reads, if_neg hD]
  refine ⟨hr, ?_⟩
  have h1 := hq hn
  have h2 := hle m.tid
  rw [hr]
  omega

/-- **counts_consistent.** `read_assignment_counts[r]` = the number of times `r` is listed in `transcript_read_ids`
    (`CountsConsistent`: one dict entry per key, absent count = 0) holds of the empty constructor and is preserved by
    `save_assigned_read`, by adding a model with its reads, by `delete_from_storage`, by `pre_filter_transcripts` and by the
    computed `filter_transcripts` — so `read_assignment_counts[r] = 0` (the `*` lines of `transcript_model_reads`, the
    re-assignment guard of `assign_reads_to_models`) means exactly "listed for no stored model". -/
theorem counts_consistent :
    CountsConsistent Store.empty ∧
    (∀ s read tid, CountsConsistent s → CountsConsistent (s.saveRead read tid)) ∧
    (∀ s m reads, CountsConsistent s → CountsConsistent (s.addModel m reads)) ∧
    (∀ s s' tid, CountsConsistent s → s.deleteFromStorage tid = some s' → CountsConsistent s') ∧
    (∀ s s' p mapq, CountsConsistent s → s.preFilter p mapq = some s' → CountsConsistent s') ∧
    (∀ s s' p sp mapq readSpan covTerm, CountsConsistent s →
      s.filterTranscriptsC p sp mapq readSpan covTerm = some s' → CountsConsistent s') :=
  ⟨countsConsistent_empty, fun _ r t h => saveRead_counts h r t, fun _ m rs h => addModel_counts h m rs,
   fun _ _ _ h hd => deleteFromStorage_counts h hd, fun _ _ _ _ h hp => preFilter_counts h hp,
   fun _ _ _ _ _ _ _ h hf => filterTranscriptsG_counts h hf⟩

/-- consequence used by `dump_read_assignments`: a read whose count is 0 after the filters is listed for no transcript -/
theorem zero_count_unlisted (s : Store) (hc : CountsConsistent s) (r : String) (h0 : cnt s.rcount r = 0) :
    ∀ p ∈ s.readIds, r ∉ p.2 := by
  intro q hq hr
  have h := hc.2 r
  rw [h0] at h
  have hnn : ∀ (l : List (String × List String)), 0 ≤ occ l r := by
    intro l
    induction l with
    | nil => simp [occ]
    | cons a t ih => simp only [occ, List.map_cons, List.sum_cons] at ih ⊢; omega
  have hpos : ∀ (l : List (String × List String)), q ∈ l → 1 ≤ occ l r := by
    intro l
    induction l with
    | nil => intro hm; simp at hm
    | cons a t ih =>
      intro hm
      simp only [List.mem_cons] at hm
      simp only [occ, List.map_cons, List.sum_cons]
      rcases hm with rfl | hm
      · have : 1 ≤ q.2.count r := List.count_pos_iff.2 hr
        have := hnn t
        simp only [occ] at this
        omega
      · have := ih hm
        simp only [occ] at this
        omega
  have := hpos s.readIds hq
  omega

/-- non-vacuity of the bookkeeping theorems: the witness storages satisfy the hypotheses (built by `add_model`), the nested
    pair runs through the computed filter, the survivor keeps its three reads and the deleted model's reads drop to 0 -/
example : CountsConsistent wStore2 ∧ CounterLe wStore2 ∧ (ids wStore2.models).Nodup :=
  ⟨addModel_counts (addModel_counts countsConsistent_empty _ _) _ _,
   addModel_counterLe (addModel_counterLe counterLe_empty _ _) _ _, by decide +kernel⟩

/-- non-vacuity with a known model and an end correction: the known 2-exon model survives both filters verbatim, the novel
    model `wC` (inside the novel `wA`) is deleted, `wA`'s unsupported start is moved to its reads' start -/
def wK : TModel :=
  ⟨"chr1", .plus, "K1", "G1", [(1000, 1200), (1300, 1400)], .known, []⟩

def wStore3 : Store := ((Store.empty.addModel wK ["k1"]).addModel wA ["a1", "a2", "a3"]).addModel wC ["c1", "c2", "c3"]

example : (wStore3.filterTranscriptsC ⟨2, 30⟩ wParams (fun _ => 60) (fun _ => (1080, 1600)) (fun _ => 0)).map
      (fun s => (s.models.map (fun m => (m.tid, m.exons)), s.rcount.filter (fun x => x.2 = 0)))
      = some ([("K1", [(1000, 1200), (1300, 1400)]), (wA.tid, [(1080, 1200), (1300, 1400), (1500, 1600)])],
              [("c1", 0), ("c2", 0), ("c3", 0)]) := by
  decide +kernel

/-! ## why non-nested same-chain pairs do not come out of the path enumeration of one strand

`fill` calls `thread_starts(…, trusted = strand == '-' and polyT found)` and `thread_ends(…, trusted = strand == '+' and polyA
found)`: for reads of a `+` locus the start is never trusted, for reads of a `-` locus the end is never trusted.  An
untrusted call can only return THE extreme vertex (leftmost start / rightmost end), so two full-length paths with the same first
(last) intron get the same starting (terminal) vertex: before end correction the models of one chain share one outer
coordinate, i.e. their ends are nested. -/

theorem pickStart_untrusted {s : Int} {L : List Iv} {v : Iv} (h : pickStart s false L = some v) : L.head? = some v := by
  cases L with
  | nil => simp [pickStart] at h
  | cons a t =>
    cases t with
    | nil => simp [pickStart] at h; simp [h.2]
    | cons b t' => simp [pickStart] at h; simp [h.2]

theorem pickEnd_untrusted {apa e : Int} {L : List Iv} {v : Iv} (h : pickEnd apa e false L = some v) : L.head? = some v := by
  cases L with
  | nil => simp [pickEnd] at h
  | cons a t =>
    cases t with
    | nil => simp [pickEnd] at h; simp [h.2]
    | cons b t' => simp [pickEnd] at h; simp [h.2]

theorem ite_none_some {c : Prop} [Decidable c] {x : Option Iv} {v : Iv} (h : (if c then none else x) = some v) : x = some v := by
  split at h
  · simp at h
  · exact h

/-- **untrusted_reads_share_start.** Two untrusted calls of `thread_starts` on one intron that both return a vertex return
    the same one. -/
theorem untrusted_reads_share_start (g : Graph) (delta apa : Int) (intron : Iv) (s1 s2 : Int) (v1 v2 : Iv)
    (h1 : threadStarts g delta apa intron s1 false = some v1) (h2 : threadStarts g delta apa intron s2 false = some v2) :
    v1 = v2 := by
  unfold threadStarts at h1 h2
  simp only [Bool.false_eq_true, if_false] at h1 h2
  have a := pickStart_untrusted (ite_none_some h1)
  have b := pickStart_untrusted (ite_none_some h2)
  rw [a] at b
  exact Option.some.inj b

/-- **untrusted_reads_share_end.** The same for `thread_ends`. -/
theorem untrusted_reads_share_end (g : Graph) (delta apa : Int) (intron : Iv) (e1 e2 : Int) (v1 v2 : Iv)
    (h1 : threadEnds g delta apa intron e1 false = some v1) (h2 : threadEnds g delta apa intron e2 false = some v2) :
    v1 = v2 := by
  unfold threadEnds at h1 h2
  simp only [Bool.false_eq_true, if_false] at h1 h2
  have a := pickEnd_untrusted (ite_none_some h1)
  have b := pickEnd_untrusted (ite_none_some h2)
  rw [a] at b
  exact Option.some.inj b

end IsoVerif.Props.C04Similar
