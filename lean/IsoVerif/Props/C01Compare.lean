/-
C01 (comparator) — `JunctionComparator.compare_junctions` (Model/JunctionCompare.lean), for ALL inputs:
  (1) it never raises, and every event it emits is well formed (type among the members the comparator names, info 0,
      regions that index the two junction lists or are the code's sentinels);
  (2) the test that decides whether `detect_contradiction_type` runs (`any(el == -1 …)`) is false exactly when every read
      intron overlapping the isoform span equals an isoform intron within δ and every isoform intron overlapping the read
      span equals a read intron within δ — for intron chains as the pipeline produces them (`ChainsWF`).
The converse clause of C01 built on top of this is in Props/C01Converse.lean.
-/
import IsoVerif.Model.JunctionCompare
import IsoVerif.Lemmas.C01CmpTotal
import IsoVerif.Lemmas.C01CmpEvents
import IsoVerif.Lemmas.C01CmpSpec

namespace IsoVerif.Props.C01Compare
open IsoVerif.Gen IsoVerif.Model IsoVerif.Model.C01 IsoVerif.Lemmas IsoVerif.Lemmas.C01Cmp

/-! ### (1) never raises; well-formed events -/

/-- `compare_junctions` returns a value on EVERY input (any junction lists — sorted or not —, any regions, any
    parameters, any known-intron list): no IndexError / AssertionError / KeyError path is reachable -/
theorem compare_never_raises (c : CmpCtx) (rj : List Iv) (rr : Iv) (ij : List Iv) (ir : Iv) :
    ∃ evs, compareJunctions c rj rr ij ir = some evs :=
  compareJunctions_some c rj rr ij ir

/-- … and what it returns is a non-empty list of well-formed events: the type is one of the generated
    `comparator_event_types`, `event_info = 0`, the read region is undefined / (absent, position ≤ #read introns) / an
    index range of the read introns, the isoform region likewise (or one of the two `extra_…_region` sentinels) -/
theorem compare_events_wellformed (c : CmpCtx) (rj : List Iv) (rr : Iv) (ij : List Iv) (ir : Iv) (evs : List Event)
    (h : compareJunctions c rj rr ij ir = some evs) :
    evs ≠ [] ∧ ∀ e ∈ evs, EventOK rj.length ij.length e :=
  compareJunctions_ok c rj rr ij ir evs h

/-- the two presence lists have the lengths of the junction lists and every contradictory region pair indexes them -/
theorem sweep_wellformed (c : CmpCtx) (rj : List Iv) (rr : Iv) (ij : List Iv) (ir : Iv) :
    (sweepOf c rj rr ij ir).readProf.length = rj.length ∧ (sweepOf c rj rr ij ir).isoProf.length = ij.length ∧
    ∀ pr ∈ (sweepOf c rj rr ij ir).pairs, PairOK rj.length ij.length pr :=
  sweep_ok c.p.delta rr ir rj.length ij.length rj 0 0 ij 0 0 none (by simp) (by simp) trivial

/-- the comparator events never carry an elongation / polyA type and never the lone `undefined` that makes
    `detect_inconsistensies` skip an isoform (closed over the regenerated table) -/
theorem comparator_types_not_undefined :
    ∀ t ∈ comparator_event_types, t ≠ .undefined ∧ t.is_major_elongation = false ∧ t.is_minor_elongation = false := by
  decide

/-! ### (2) when the comparator sees no contradiction -/

/-- intron chains as the pipeline produces them (`junctions_from_blocks` of sorted alignment blocks / annotated exons):
    δ ≥ 0, both chains sorted and separated, every intron longer than 2δ, and inside its region -/
def ChainsWF (δ : Int) (rj : List Iv) (rr : Iv) (ij : List Iv) (ir : Iv) : Prop := Geo δ rr ir rj ij

/-- the presence lists ARE the declarative profiles: read intron `r` is marked 1 iff some isoform intron equals it
    within δ, −1 iff none does and `r` overlaps the isoform region, 0 otherwise (symmetric for the isoform introns) -/
theorem presence_spec (c : CmpCtx) (rj : List Iv) (rr : Iv) (ij : List Iv) (ir : Iv)
    (hwf : ChainsWF c.p.delta rj rr ij ir) (hr : rj ≠ []) (hi : ij ≠ []) :
    (sweepOf c rj rr ij ir).readProf = rj.map (specR c.p.delta ir ij) ∧
    (sweepOf c rj rr ij ir).isoProf = ij.map (specK c.p.delta rr rj) := by
  have h1 : 0 < rj.length := List.length_pos_iff.mpr hr
  have h2 : 0 < ij.length := List.length_pos_iff.mpr hi
  exact sweep_spec c.p.delta rr ir rj 0 0 ij 0 0 none hwf (Or.inl rfl) (Or.inl rfl)
    (fun h => absurd h (by omega)) (fun h => absurd h (by omega)) (by omega) (by omega)

/-- **no_contradiction_iff**: `detect_contradiction_type` is NOT consulted (no −1 in either presence list) iff the read's
    introns inside the isoform span match isoform introns within δ and no isoform intron inside the read span is missed -/
theorem no_contradiction_iff (c : CmpCtx) (rj : List Iv) (rr : Iv) (ij : List Iv) (ir : Iv)
    (hwf : ChainsWF c.p.delta rj rr ij ir) (hr : rj ≠ []) (hi : ij ≠ []) :
    (hasNeg (sweepOf c rj rr ij ir).readProf || hasNeg (sweepOf c rj rr ij ir).isoProf) = false ↔
    ((∀ r ∈ rj, overlaps ir r = true → ∃ k ∈ ij, equal_ranges k r c.p.delta = true) ∧
     (∀ k ∈ ij, overlaps rr k = true → ∃ r ∈ rj, equal_ranges k r c.p.delta = true)) := by
  obtain ⟨e1, e2⟩ := presence_spec c rj rr ij ir hwf hr hi
  rw [e1, e2]
  simp only [hasNeg, Bool.or_eq_false_iff, List.any_eq_false, List.mem_map, beq_iff_eq, forall_exists_index, and_imp,
    forall_apply_eq_imp_iff₂]
  constructor
  · rintro ⟨h1, h2⟩
    constructor
    · intro r hr' hov
      have := h1 r hr'
      simp only [specR, hov, if_true] at this
      by_cases hm : matchedBy c.p.delta ij r = true
      · simpa [matchedBy] using hm
      · simp [hm] at this
    · intro k hk' hov
      have := h2 k hk'
      simp only [specK, hov, if_true] at this
      by_cases hm : matchesSome c.p.delta rj k = true
      · simpa [matchesSome] using hm
      · simp [hm] at this
  · rintro ⟨h1, h2⟩
    constructor
    · intro r hr'
      unfold specR
      by_cases hm : matchedBy c.p.delta ij r = true
      · simp [hm]
      · by_cases hov : overlaps ir r = true
        · exfalso; apply hm
          obtain ⟨k, hk, he⟩ := h1 r hr' hov
          simp only [matchedBy, List.any_eq_true]; exact ⟨k, hk, he⟩
        · simp [hm, hov]
    · intro k hk'
      unfold specK
      by_cases hm : matchesSome c.p.delta rj k = true
      · simp [hm]
      · by_cases hov : overlaps rr k = true
        · exfalso; apply hm
          obtain ⟨r, hr', he⟩ := h2 k hk' hov
          simp only [matchesSome, List.any_eq_true]; exact ⟨r, hr', he⟩
        · simp [hm, hov]

/-- when no contradiction is seen, the only events are those of `add_extra_out_exon_events` (or the single `none`) -/
theorem no_contradiction_events (c : CmpCtx) (rj : List Iv) (rr : Iv) (ij : List Iv) (ir : Iv) (evs : List Event)
    (hr : rj ≠ [])
    (hno : (hasNeg (sweepOf c rj rr ij ir).readProf || hasNeg (sweepOf c rj rr ij ir).isoProf) = false)
    (h : compareJunctions c rj rr ij ir = some evs) :
    ∀ e ∈ evs, e.ty = .none ∨ e.ty ∈ flank_types := by
  unfold compareJunctions at h
  have hne : rj.isEmpty = false := by cases rj with | nil => exact absurd rfl hr | cons _ _ => rfl
  rw [hne] at h
  simp only [Bool.false_eq_true, if_false] at h
  have hno' : ¬ ((hasNeg (sweepOf c rj rr ij ir).readProf || hasNeg (sweepOf c rj rr ij ir).isoProf) = true) := by
    rw [hno]; simp
  rw [if_neg hno'] at h
  simp only [List.nil_append, Option.map_eq_some_iff] at h
  obtain ⟨ev2, hev2, rfl⟩ := h
  intro e he
  split at he
  · simp only [List.mem_singleton] at he; subst he; left; rfl
  · split at hev2
    · simp only [Option.map_eq_some_iff] at hev2
      obtain ⟨x, hx, rfl⟩ := hev2
      right; exact (addExtraOut_ok (m := ij.length) hx e he).2
    · simp only [Option.some.injEq] at hev2; subst hev2; cases he

/-- a spliced read against a mono-exonic isoform: the terminating loop stops at the first read intron that does not
    overlap the isoform region, so a later intron INSIDE the isoform's exon is called "flanking" (still a major event;
    this is why `no_contradiction_iff` asks for `ij ≠ []`) -/
theorem flanking_inside_monoexon_witness :
    ((compareJunctions
        { p := { delta := 6, minor_exon_extension := 50, major_exon_extension := 300, min_abs_exon_overlap := 10,
                 apa_delta := 50, minimal_exon_overlap := 5, minimal_intron_absence_overlap := 20,
                 max_fake_terminal_exon_len := 40, max_missed_exon_len := 100, resolve_ambiguous := .monoexon_and_fsm },
          q := { max_intron_shift := 60, micro_intron_length := 50, max_intron_abs_diff := 30,
                 max_intron_rel_diff_num := 1, max_intron_rel_diff_den := 5, min_rel_exon_overlap_num := 1,
                 min_rel_exon_overlap_den := 5, max_suspicious_intron_abs_len := 60,
                 max_suspicious_intron_rel_len_num := 1, max_suspicious_intron_rel_len_den := 1 },
          known := [], geneRegion := (1000, 2000) }
        [(100, 500), (1200, 1500)] (50, 1900) [] (1000, 2000)).map (fun l => l.map (fun e => (e.ty, e.readRegion))))
      = some [(.extra_intron_flanking_left, (0, 0)), (.extra_intron_flanking_left, (1, 1))] := by
  decide +kernel

end IsoVerif.Props.C01Compare
