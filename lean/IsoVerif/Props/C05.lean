/-
C05 — every aligned read is accounted for; region splitting loses or duplicates none.
Property theorems only (helper lemmas: IsoVerif/Lemmas/Regions.lean).  The model (IsoVerif/Model/Regions.lean)
describes /repo after the two `fix:` commits of this property; the `…Buggy` definitions keep the old behaviour
and the `…_witness` theorems show what it lost.  See docs/C05.md.
-/
import IsoVerif.Model.Regions
import IsoVerif.Lemmas.Regions

namespace IsoVerif.Props.C05
open IsoVerif.Gen IsoVerif.Model.Regions IsoVerif.Lemmas.Regions

/-- the coverage dictionary belongs to the region: its smallest / largest key are the bins of the region's ends
    (true of every storage built by `add_alignment`, theorem `store_dict_for`) -/
def DictFor (d : CovDict) (R : Iv) : Prop := minKey d = some (bin R.1) ∧ maxKey d = some (bin R.2)

/-- `regs` tile `R`: non-empty, first starts at `R.1`, consecutive ones abut, last ends at `R.2` -/
def Tiles (R : Iv) (regs : List Iv) : Prop := regs ≠ [] ∧ TilesFrom R.1 regs R.2

/-! ### `split_coverage_regions` -/

/-- **split_tiles** (termination included): for every region, read count and coverage dictionary of that region,
    the nested `while` loops terminate within the fuel and the sub-regions tile the region exactly –
    whatever the coverage values are (valleys anywhere, final-bin valley, a single bin, thresholds). -/
theorem split_tiles (R : Iv) (count : Nat) (d : CovDict) (hR : R.1 ≤ R.2) (hd : DictFor d R) :
    ∃ regs, splitCoverageRegions R count d = some regs ∧ Tiles R regs := by
  unfold splitCoverageRegions
  split
  · exact ⟨[R], rfl, by simp, rfl, hR, rfl⟩
  · obtain ⟨hmin, hmax⟩ := hd
    have hcov : ∀ k, bin R.2 < k → covGet d k = 0 := fun k hk => covGet_gt_maxKey hmax hk
    have hfl : bin R.1 ≤ bin R.2 := by simp only [bin, ap_COVERAGE_BIN]; omega
    obtain ⟨regs, h1, h2, h3⟩ := splitOuter_spec d R (bin R.1) (bin R.2) (bin R.2 + 2 - bin R.1).toNat hcov hR rfl rfl
      (Nat.le_refl _) (bin R.2 + 2 - bin R.1).toNat (bin R.1) (bin R.1 + 1) (covGet d (bin R.1)) (Int.le_refl _)
      (fun _ => by omega) (by omega) (by omega)
    simp only [splitLoop, hmin, hmax, h1]
    refine ⟨_, rfl, ?_⟩
    cases regs with
    | nil => exact ⟨by simp [retile], rfl, hR, rfl⟩
    | cons r rs =>
      have hle : bin R.1 + 1 ≤ bin R.2 := by
        by_cases h : bin R.1 + 1 ≤ bin R.2
        · exact h
        · exact absurd (h2 (by omega)) (by simp)
      obtain ⟨_, e, ht, he1, he2⟩ := h3 hle
      have hr2 : R.1 ≤ r.2 := by
        obtain ⟨ha, hw, _⟩ := ht
        omega
      have ht' := tilesFrom_setFirstStart (x := R.1) ht hr2
      refine ⟨?_, ?_⟩
      · simp only [retile]
        exact setLastEnd_ne_nil (by simp [setFirstStart])
      · simp only [retile]
        exact tilesFrom_setLastEnd ht' (by simp [setFirstStart]) he1

/-- no alignment of the cluster falls between sub-regions: every interval inside `R` (1 bp or longer, anywhere)
    overlaps at least one sub-region, and every position of `R` lies in exactly one -/
theorem split_covers (R : Iv) (count : Nat) (d : CovDict) (hR : R.1 ≤ R.2) (hd : DictFor d R) (a : Iv)
    (h1 : R.1 ≤ a.1) (h2 : a.1 ≤ a.2) (h3 : a.2 ≤ R.2) :
    ∃ regs, splitCoverageRegions R count d = some regs ∧ (∃ r, r ∈ regs ∧ overlaps r a = true) ∧
      regs.Pairwise (fun r r' => r.2 < r'.1) := by
  obtain ⟨regs, hs, _, ht⟩ := split_tiles R count d hR hd
  obtain ⟨r, hr, hr1, hr2⟩ := tilesFrom_cover ht a.1 h1 (by omega)
  refine ⟨regs, hs, ⟨r, hr, ?_⟩, tilesFrom_disjoint ht⟩
  simp [overlaps]; omega

-- non-vacuity: a dictionary of three bins belongs to its region; 2000 reads force the loop
example : DictFor [(3, 5), (4, 2000), (5, 1)] (800, 1500) ∧ (800 : Int) ≤ 1500 ∧
    splitCoverageRegions (800, 1500) 2000 [(3, 5), (4, 2000), (5, 1)] = some [(800, 1500)] := by
  unfold DictFor; decide

/-! ### clusters (`AlignmentCollector.process`) -/

/-- the records of one chromosome as a coordinate-sorted BAM yields them: ordered by start, each with at least one
    reference base -/
def ValidInput (l : List Aln) : Prop := SortedByStart l ∧ ∀ x, x ∈ l → WFA x

/-- **clusters_partition**: the clusters forwarded one after the other are non-empty, their concatenation is the
    input (nothing lost, nothing repeated, order kept), every forwarded storage is exactly the storage built from
    its cluster, and alignments of different clusters never overlap (each cluster ends before the next starts),
    so a cluster is a maximal chain of overlapping alignments. -/
theorem clusters_partition (l : List Aln) (h : ValidInput l) :
    (clusters l).flatten = l ∧ (∀ c, c ∈ clusters l → c ≠ []) ∧
    processStores l = (clusters l).map buildStore ∧
    (clusters l).Pairwise (fun c1 c2 => ∀ x, x ∈ c1 → ∀ b, b ∈ c2 → x.stop - 1 < b.start) := by
  obtain ⟨h1, h2, h3⟩ := processStores_spec l h.1 h.2
  refine ⟨h2, ?_, ?_, ?_⟩
  · intro c hc
    obtain ⟨s, hs, rfl⟩ := List.mem_map.1 hc
    exact (h1 s hs).2
  · unfold clusters
    rw [List.map_map]
    conv => lhs; rw [← List.map_id (processStores l)]
    apply List.map_congr_left
    intro s hs
    exact (h1 s hs).1
  · unfold clusters
    rw [List.pairwise_map]
    exact h3

/-- inside a cluster the alignments form one connected block: every alignment after the first overlaps the region
    spanned by its predecessors (this is the adjacency test that kept it in the cluster) – stated through the
    hull: every stored alignment lies inside the region and both ends of the region are attained -/
theorem cluster_region_is_hull (c : List Aln) (R : Iv) (h : (buildStore c).region = some R) :
    c ≠ [] ∧ (∀ x, x ∈ c → R.1 ≤ x.start ∧ x.stop - 1 ≤ R.2) ∧
      (∃ x, x ∈ c ∧ x.start = R.1) ∧ (∃ x, x ∈ c ∧ x.stop - 1 = R.2) :=
  buildStore_region_spec h

/-- **cluster_connected**: inside every forwarded cluster each position of its region is covered by one of its
    alignments – a cluster has no gap, it is one chain of overlapping alignments (with `clusters_partition`:
    a maximal one) -/
theorem cluster_connected (l : List Aln) (h : ∀ x, x ∈ l → WFA x) (s : Store) (hs : s ∈ processStores l) (R : Iv)
    (hR : s.region = some R) (p : Int) (h1 : R.1 ≤ p) (h2 : p ≤ R.2) :
    ∃ x, x ∈ s.alns ∧ x.start ≤ p ∧ p ≤ x.stop - 1 :=
  processStores_conn l h s hs R hR p h1 h2

/-- **coverage_counts**: `coverage_dict[b]` of a storage is the number of its alignments whose bin range
    `[start // BIN, (end - 1) // BIN]` contains `b` (0 for bins nobody touches) -/
theorem coverage_counts (c : List Aln) (b : Int) :
    covGet (buildStore c).cov b = ((c.filter (fun a => decide (a.binS ≤ b) && decide (b ≤ a.binE))).length : Int) :=
  covGet_buildStore c b

/-- the coverage dictionary of a built storage belongs to its region (hypothesis of `split_tiles`) -/
theorem store_dict_for (c : List Aln) (hw : ∀ x, x ∈ c → WFA x) (R : Iv) (h : (buildStore c).region = some R) :
    DictFor (buildStore c).cov R := by
  have := buildStore_covInv c hw
  unfold CovInv at this
  rw [h] at this
  exact this

/-! ### the two storages -/

/-- **memory_mode_exact** (full strength, current tree): for every coordinate-sorted cluster and every sub-region
    of its region, `InMemoryAlignmentStorage.get_alignments(region)` is exactly the overlap filter of the stored
    alignments, in storage order (no `KeyError`, nothing lost in the last bin, nothing extra); without a region it
    returns the whole storage. -/
theorem memory_mode_exact (c : List Aln) (h : ValidInput c) (R : Iv) (hreg : (buildStore c).region = some R) :
    (buildStore c).memGet none = some c ∧
    ∀ r : Iv, R.1 ≤ r.1 → r.1 ≤ r.2 → r.2 ≤ R.2 →
      (buildStore c).memGet (some r) = some (c.filter (fun a => overlaps r a.iv)) := by
  refine ⟨?_, fun r h1 h2 h3 => memGet_exact c h.1 h.2 R hreg r h1 h2 h3⟩
  simp [Store.memGet, Store.memGetOff, buildStore_alns]

/-- **bam_mode_no_loss**: re-fetching a sub-region of a cluster from the file (`fetch` = overlap filter over the
    whole chromosome) returns exactly the cluster's alignments overlapping it – records of other clusters cannot
    interfere – so every alignment of the cluster is returned for each sub-region it overlaps. -/
theorem bam_mode_no_loss (pre c post : List Aln) (R r : Iv) (hreg : (buildStore c).region = some R)
    (hpre : ∀ x, x ∈ pre → ∀ b, b ∈ c → x.stop - 1 < b.start)
    (hpost : ∀ x, x ∈ c → ∀ b, b ∈ post → x.stop - 1 < b.start) (h1 : R.1 ≤ r.1) (h2 : r.2 ≤ R.2) :
    bamGet (pre ++ c ++ post) r = c.filter (fun a => overlaps r a.iv) := by
  obtain ⟨_, _, hlo, hhi⟩ := buildStore_region_spec hreg
  exact bamGet_cluster hpre hpost hlo hhi h1 h2

/-! ### the whole collector -/

/-- what a forwarded storage yields, independent of the memory mode -/
def expectedOf (s : Store) : List (Iv × List Aln) :=
  match s.region with
  | none => []
  | some R => match splitCoverageRegions R s.alns.length s.cov with
    | none => []
    | some regs => expectedForward s.alns R regs

theorem forward_eq (m : Mode) (all : List Aln) (h : ValidInput all) (s : Store) (hs : s ∈ processStores all) :
    forward m all s = some (expectedOf s) ∧
    ∃ R regs, s.region = some R ∧ splitCoverageRegions R s.alns.length s.cov = some regs ∧ Tiles R regs ∧
      (∀ x, x ∈ s.alns → R.1 ≤ x.start ∧ x.start ≤ x.stop - 1 ∧ x.stop - 1 ≤ R.2) := by
  obtain ⟨hb, hflat, hpw⟩ := processStores_spec all h.1 h.2
  obtain ⟨hbuilt, hne⟩ := hb s hs
  obtain ⟨S1, S2, hS⟩ := List.append_of_mem hs
  -- the input is pre ++ cluster ++ post
  have hall : all = (S1.map (·.alns)).flatten ++ s.alns ++ (S2.map (·.alns)).flatten := by
    rw [← hflat, hS]; simp
  rw [hS, List.pairwise_append] at hpw
  obtain ⟨_, hpw2, hpw3⟩ := hpw
  have hpre : Before (S1.map (·.alns)).flatten s.alns := by
    intro x hx b hb'
    obtain ⟨c1, hc1, hxc1⟩ := List.mem_flatten.1 hx
    obtain ⟨s1, hs1, rfl⟩ := List.mem_map.1 hc1
    exact hpw3 s1 hs1 s (by simp) x hxc1 b hb'
  have hpost : Before s.alns (S2.map (·.alns)).flatten := by
    intro x hx b hb'
    obtain ⟨c2, hc2, hbc2⟩ := List.mem_flatten.1 hb'
    obtain ⟨s2, hs2, rfl⟩ := List.mem_map.1 hc2
    exact (List.pairwise_cons.1 hpw2).1 s2 hs2 x hx b hbc2
  -- the cluster is sorted and well formed
  have hsub : ∀ x, x ∈ s.alns → x ∈ all := by
    intro x hx; rw [hall]; simp [hx]
  have hcw : ∀ x, x ∈ s.alns → WFA x := fun x hx => h.2 x (hsub x hx)
  have hcs : SortedByStart s.alns := by
    have := h.1
    unfold SortedByStart at this ⊢
    rw [hall, List.pairwise_append, List.pairwise_append] at this
    exact this.1.2.1
  obtain ⟨R, hR⟩ := buildStore_region_of_ne hne
  have hreg : s.region = some R := by rw [hbuilt]; exact hR
  obtain ⟨_, hc, hlo, hhi⟩ := buildStore_region_spec hR
  have hRwf := region_wf hR hcw
  have hdict : DictFor s.cov R := by rw [hbuilt]; exact store_dict_for s.alns hcw R hR
  obtain ⟨regs, hsplit, htiles⟩ := split_tiles R s.alns.length s.cov hRwf hdict
  have hexp : expectedOf s = expectedForward s.alns R regs := by
    simp only [expectedOf, hreg, hsplit]
  have hfilterAll : s.alns.filter (fun a => overlaps R a.iv) = s.alns := by
    rw [List.filter_eq_self]
    exact overlaps_hull hR hcw
  refine ⟨?_, R, regs, hreg, hsplit, htiles, ?_⟩
  · rw [hexp]
    unfold forward
    apply forwardWith_of hreg hsplit
    · cases m with
      | memory => simp [getAlignments, Store.memGet, Store.memGetOff]
      | bam =>
        simp only [getAlignments, hreg]
        rw [hall, bamGet_cluster hpre hpost hlo hhi (Int.le_refl _) (Int.le_refl _), hfilterAll]
    · intro r hr
      obtain ⟨hr1, hr2, hr3⟩ := tilesFrom_sub htiles.2 r hr
      cases m with
      | memory =>
        simp only [getAlignments]
        have hm := memGet_exact s.alns hcs hcw R hR r hr1 hr2 hr3
        rw [← hbuilt] at hm
        exact hm
      | bam =>
        simp only [getAlignments]
        rw [hall, bamGet_cluster hpre hpost hlo hhi hr1 hr3]
  · intro x hx
    have := hc x hx
    have := hcw x hx
    unfold WFA at this
    omega

/-- **every_alignment_forwarded** (the collector loses nothing, in either memory mode): on every valid input the
    collector terminates without error, and every input record is handed to `process_alignments_in_region` for at
    least one region that it overlaps – whatever the coverage profile (pile-ups, long loci, valleys anywhere,
    single-bin pile-ups, 1-bp reads, reads in the last bin). -/
theorem every_alignment_forwarded (m : Mode) (all : List Aln) (h : ValidInput all) :
    ∃ out, collect m all = some out ∧
      ∀ a, a ∈ all → ∃ p, p ∈ out ∧ a ∈ p.2 ∧ overlaps p.1 a.iv = true := by
  have hf : ∀ s, s ∈ processStores all → forward m all s = some (expectedOf s) :=
    fun s hs => (forward_eq m all h s hs).1
  refine ⟨_, collectStores_of_forall _ hf, ?_⟩
  intro a ha
  obtain ⟨_, hflat, _⟩ := processStores_spec all h.1 h.2
  rw [← hflat] at ha
  obtain ⟨c, hc, hac⟩ := List.mem_flatten.1 ha
  obtain ⟨s, hs, rfl⟩ := List.mem_map.1 hc
  obtain ⟨_, R, regs, hreg, hsplit, htiles, hin⟩ := forward_eq m all h s hs
  have hexp : expectedOf s = expectedForward s.alns R regs := by
    simp only [expectedOf, hreg, hsplit]
  obtain ⟨hx1, hx2, hx3⟩ := hin a hac
  have hgoal : ∃ p, p ∈ expectedForward s.alns R regs ∧ a ∈ p.2 ∧ overlaps p.1 a.iv = true := by
    have hcase : (∃ r0, regs = [r0]) ∨ expectedForward s.alns R regs =
        regs.map (fun r => (r, s.alns.filter (fun a => overlaps r a.iv))) := by
      match regs with
      | [] => exact Or.inr rfl
      | [r0] => exact Or.inl ⟨r0, rfl⟩
      | _ :: _ :: _ => exact Or.inr rfl
    rcases hcase with ⟨r0, hr0⟩ | hmap
    · subst hr0
      refine ⟨(R, s.alns), by simp [expectedForward], hac, ?_⟩
      rw [overlaps_true_iff]; simp only [Aln.iv]; omega
    · obtain ⟨r, hr, hr1, hr2⟩ := tilesFrom_cover htiles.2 a.start hx1 (by omega)
      have hov : overlaps r a.iv = true := by rw [overlaps_true_iff]; simp only [Aln.iv]; omega
      refine ⟨(r, s.alns.filter (fun a => overlaps r a.iv)), ?_, ?_, hov⟩
      · rw [hmap]; exact List.mem_map.2 ⟨r, hr, rfl⟩
      · exact List.mem_filter.2 ⟨hac, by simpa using hov⟩
  obtain ⟨p, hp, hp2, hp3⟩ := hgoal
  refine ⟨p, ?_, hp2, hp3⟩
  rw [List.mem_flatMap]
  exact ⟨s, hs, by rw [hexp]; exact hp⟩

/-- **memory_mode_equal**: default mode and `--high_memory` hand exactly the same `(region, alignments)` sequence
    to the assigner (used by C06) -/
theorem memory_mode_equal (all : List Aln) (h : ValidInput all) : collect .memory all = collect .bam all := by
  unfold collect
  rw [collectStores_of_forall (g := expectedOf) _ (fun s hs => (forward_eq .memory all h s hs).1),
      collectStores_of_forall (g := expectedOf) _ (fun s hs => (forward_eq .bam all h s hs).1)]

/-- nothing is invented and nothing is repeated inside one region: each forwarded list is a sub-list of the input
    (in input order), all of whose members overlap the region or belong to an unsplit cluster -/
theorem forwarded_sublist (m : Mode) (all : List Aln) (h : ValidInput all) (out : List (Iv × List Aln))
    (hout : collect m all = some out) : ∀ p, p ∈ out → ∃ c, c ∈ clusters all ∧ p.2.Sublist c := by
  have hf : ∀ s, s ∈ processStores all → forward m all s = some (expectedOf s) :=
    fun s hs => (forward_eq m all h s hs).1
  have := collectStores_of_forall _ hf
  unfold collect at hout
  rw [this] at hout
  injection hout with hout
  subst hout
  intro p hp
  obtain ⟨s, hs, hps⟩ := List.mem_flatMap.1 hp
  refine ⟨s.alns, List.mem_map.2 ⟨s, hs, rfl⟩, ?_⟩
  obtain ⟨_, R, regs, hreg, hsplit, _, _⟩ := forward_eq m all h s hs
  simp only [expectedOf, hreg, hsplit] at hps
  unfold expectedForward at hps
  split at hps
  · simp at hps; subst hps; exact List.Sublist.refl _
  · obtain ⟨r, _, rfl⟩ := List.mem_map.1 hps
    exact List.filter_sublist

/-! ### statistics -/

/-- **stats_equal_categories**: the counters of the log are incremented once per input record in the outer
    iteration – never per region – and equal the per-category record counts of the input: `secondary` = records
    flagged secondary, `supplementary` = non-secondary supplementary ones, `primary` = the remaining mapped ones;
    `unaligned` is not touched here (it is taken from the BAM index afterwards). -/
theorem stats_equal_categories (l : List Aln) :
    processStats l AlignmentType.secondary = (l.filter (fun a => a.secondary)).length ∧
    processStats l AlignmentType.supplementary = (l.filter (fun a => !a.secondary && a.supplementary)).length ∧
    processStats l AlignmentType.primary = (l.filter (fun a => !a.secondary && !a.supplementary && a.mapped)).length ∧
    processStats l AlignmentType.unaligned = 0 := by
  have key : ∀ t, processStats l t = (l.filter (fun a => decide (statKey a = some t))).length := by
    intro t
    unfold processStats
    rw [stats_foldl, statStep_foldl]
    simp [PState.init]
  refine ⟨?_, ?_, ?_, ?_⟩
  · rw [key]; congr 1; apply List.filter_congr; intro a _
    unfold statKey; cases a.secondary <;> cases a.supplementary <;> cases a.mapped <;> decide
  · rw [key]; congr 1; apply List.filter_congr; intro a _
    unfold statKey; cases a.secondary <;> cases a.supplementary <;> cases a.mapped <;> decide
  · rw [key]; congr 1; apply List.filter_congr; intro a _
    unfold statKey; cases a.secondary <;> cases a.supplementary <;> cases a.mapped <;> decide
  · rw [key]
    have : l.filter (fun a => decide (statKey a = some AlignmentType.unaligned)) = [] := by
      rw [List.filter_eq_nil_iff]; intro a _
      unfold statKey; cases a.secondary <;> cases a.supplementary <;> cases a.mapped <;> decide
    rw [this]; rfl

/-! ### de-duplication of an alignment seen in several regions -/

/-- **no_identical_twins** (the de-duplication itself): `find_duplicates` keeps a sub-list of the given indices in
    which no two records are equal under `__eq__`, every discarded record has an equal kept one, and a non-empty
    selection stays non-empty – for every record list, every index list and every equality test. -/
theorem no_identical_twins {α : Type} [DecidableEq α] (eq : α → α → Bool) (idxs : List α) :
    (findDuplicates eq idxs).Sublist idxs ∧
    (findDuplicates eq idxs).Pairwise (fun a b => eq a b = false) ∧
    (∀ y, y ∈ idxs → ∃ x, x ∈ findDuplicates eq idxs ∧ (x = y ∨ eq x y = true)) ∧
    (idxs ≠ [] → findDuplicates eq idxs ≠ []) :=
  findDuplicates_spec eq idxs

/-- two records made from the same alignment (same read, chromosome, start, end) in two regions are either equal
    under `BasicReadAssignment.__eq__` or differ in their isoform lists -/
theorem twin_records (x y : Rec) (h1 : x.rid = y.rid) (h2 : x.chr = y.chr) (h3 : x.start = y.start)
    (h4 : x.stop = y.stop) : x.eqv y = true ∨ x.isoforms ≠ y.isoforms := by
  by_cases h : x.isoforms = y.isoforms
  · left; simp [Rec.eqv, h1, h2, h3, h4, h]
  · right; exact h

/-- after `MultimapResolver.resolve` (`take_best`) at most one record per `(read, chr, start, end, isoforms)` stays
    non-suspended: the retained records of a read are pairwise different under `__eq__` -/
theorem resolved_no_twins (recs : List Rec) (kept : List Nat) (h : ResolveKept recs kept) :
    kept.Pairwise (fun i j => recEqAt recs i j = false) := by
  unfold ResolveKept at h
  split at h
  · rename_i hl
    subst h
    match recs, hl with
    | [], _ => simp
    | [r], _ => simp [List.range, List.range.loop]
    | _ :: _ :: _, hl => simp at hl
  · split at h
    · subst h; exact (findDuplicates_spec _ _).2.1
    · obtain ⟨b, _, rfl⟩ := h; simp

/-- a selection is usable: non-empty and made of indices of the record list -/
def SelOK (n : Nat) : Selection → Prop
  | .exact l => l ≠ [] ∧ ∀ i, i ∈ l → i < n
  | .oneOf c => c ≠ [] ∧ ∀ i, i ∈ c → i < n

/-- **distinct_reads_preserved** (resolution never drops a read): a read with at least one record keeps at least one
    non-suspended record after resolution, and every kept index is a record of that read; moreover the resolver
    always has something to keep (`select_noninformative`'s assertion cannot fail). -/
theorem distinct_reads_preserved (recs : List Rec) (hne : recs ≠ []) :
    (∃ kept, ResolveKept recs kept) ∧
    ∀ kept, ResolveKept recs kept → kept ≠ [] ∧ ∀ i, i ∈ kept → i < recs.length := by
  have hsel : recs.length > 1 → SelOK recs.length (selectBest recs) := by
    intro hlen
    unfold selectBest
    simp only
    split
    · rename_i h; exact ⟨h, idxFilter_lt recs _⟩
    · split
      · rename_i h; exact ⟨h, idxFilter_lt recs _⟩
      · split
        · rename_i h
          obtain ⟨h1, h2⟩ := selectBestInconsistent_spec recs _ h (idxFilter_lt recs _)
          exact ⟨h1, fun i hi => idxFilter_lt recs _ i (h2 i hi)⟩
        · split
          · rename_i h
            obtain ⟨h1, h2⟩ := selectBestInconsistent_spec recs _ h (idxFilter_lt recs _)
            exact ⟨h1, fun i hi => idxFilter_lt recs _ i (h2 i hi)⟩
          · split
            · rename_i h
              obtain ⟨h1, h2⟩ := noninformativeCands_spec recs _ h (idxFilter_lt recs _)
              exact ⟨h1, fun i hi => idxFilter_lt recs _ i (h2 i hi)⟩
            · exact ⟨by simp, fun i hi => by simp at hi; omega⟩
  constructor
  · unfold ResolveKept
    split
    · exact ⟨_, rfl⟩
    · rename_i hl
      have := hsel (by omega)
      split
      · exact ⟨_, rfl⟩
      · rename_i cands hc
        rw [hc] at this
        match cands, this.1 with
        | b :: _, _ => exact ⟨[b], b, by simp, rfl⟩
  · intro kept h
    unfold ResolveKept at h
    split at h
    · rename_i hl
      subst h
      match recs, hne, hl with
      | [r], _, _ => simp [List.range, List.range.loop]
      | _ :: _ :: _, _, hl => simp at hl
    · rename_i hl
      have hs := hsel (by omega)
      split at h
      · rename_i idxs hc
        rw [hc] at hs
        subst h
        obtain ⟨hsub, _, _, hne'⟩ := findDuplicates_spec (recEqAt recs) idxs
        exact ⟨hne' hs.1, fun i hi => hs.2 i (hsub.subset hi)⟩
      · rename_i cands hc
        rw [hc] at hs
        obtain ⟨b, hb, rfl⟩ := h
        exact ⟨by simp, fun i hi => by simp at hi; rw [hi]; exact hs.2 b hb⟩

/-- records exist exactly for the reads that pass the filters: with region-independent remaining filters `keepA`,
    a read id has at least one record (in either memory mode) iff one of its input alignments passes the documented
    filters and `keepA` – region splitting neither drops nor invents a read -/
theorem reads_with_records (m : Mode) (all : List Aln) (h : ValidInput all) (p : Params) (keepA : Aln → Bool) :
    ∃ out, collect m all = some out ∧
      ∀ rid, (∃ rec, rec ∈ recordsOf p (fun _ a => keepA a) out ∧ rec.2.rid = rid) ↔
             (∃ a, a ∈ all ∧ a.rid = rid ∧ passes p a = true ∧ keepA a = true) := by
  obtain ⟨out, hout, hfw⟩ := every_alignment_forwarded m all h
  refine ⟨out, hout, ?_⟩
  intro rid
  constructor
  · rintro ⟨rec, hrec, hrid⟩
    unfold recordsOf at hrec
    obtain ⟨pr, hpr, hrec'⟩ := List.mem_flatMap.1 hrec
    obtain ⟨a, ha, rfl⟩ := List.mem_map.1 hrec'
    obtain ⟨ha1, ha2⟩ := List.mem_filter.1 ha
    obtain ⟨c, hc, hsub⟩ := forwarded_sublist m all h out hout pr hpr
    have hall : a ∈ all := by
      rw [← (clusters_partition all h).1]
      exact List.mem_flatten.2 ⟨c, hc, hsub.subset ha1⟩
    simp only [Bool.and_eq_true] at ha2
    exact ⟨a, hall, hrid, ha2.1, ha2.2⟩
  · rintro ⟨a, ha, hrid, hp, hk⟩
    obtain ⟨pr, hpr, hapr, _⟩ := hfw a ha
    refine ⟨(pr.1, a), ?_, hrid⟩
    unfold recordsOf
    exact List.mem_flatMap.2 ⟨pr, hpr, List.mem_map.2 ⟨a, List.mem_filter.2 ⟨hapr, by simp [hp, hk]⟩, rfl⟩⟩

/-! ### the tree before the fixes: witnesses (replayed on the real code by the oracle as regression inputs) -/

/-- 270 bins, valleys at bin 130 and at the final bin 269 -/
def valleyDict : CovDict :=
  (List.range 270).map (fun (i : Nat) => (Int.ofNat i, if i = 130 ∨ i = 269 then 1 else 200))

/-- **split_last_bin_witness**: before the fix the loop closed the last sub-region at `269·256` and emitted nothing
    for the final bin (a valley): a read at `68884..68923` overlaps no sub-region and was lost in both memory modes;
    also position 0 (the region start on a bin boundary) was in no sub-region. -/
theorem split_last_bin_witness :
    splitCoverageRegionsBuggy (0, 68964) 2000 valleyDict = some [(1, 33280), (33281, 68864)] ∧
    splitCoverageRegions (0, 68964) 2000 valleyDict = some [(0, 33280), (33281, 68964)] := by
  decide +kernel

/-- **split_single_bin_witness**: before the fix a pile-up of ≥ 1024 reads inside one 256-bp bin produced NO
    sub-region at all, so none of its reads was processed -/
theorem split_single_bin_witness :
    splitCoverageRegionsBuggy (1030, 1105) 1100 [(4, 1100)] = some [] ∧
    splitCoverageRegions (1030, 1105) 1100 [(4, 1100)] = some [(1030, 1105)] := by
  decide

/-- **split_first_base_witness**: when the region starts on a multiple of 256 the first sub-region used to start one
    base later: a 1-bp alignment on that base overlapped no sub-region (reachable from a BAM: lost end-to-end
    when the cluster has ≥ 2 sub-regions) -/
theorem split_first_base_witness :
    (splitCoverageRegionsBuggy (1024, 1105) 1100 [(4, 1100), (5, 3)]).map (fun regs => regs.map (·.1)) = some [1025] ∧
    (splitCoverageRegions (1024, 1105) 1100 [(4, 1100), (5, 3)]).map (fun regs => regs.map (·.1)) = some [1024] := by
  decide

def tailCluster : List Aln :=
  [⟨0, 300, false, false, true, 60, 0⟩, ⟨10, 600, false, false, true, 60, 1⟩, ⟨520, 560, false, false, true, 60, 2⟩]

/-- **memory_tail_witness**: with `alignment_start_index[end_bin]` (before the fix) the alignment starting in the
    last bin of a sub-region (`520..559`, region `300..599`) was not returned by the in-memory storage -/
theorem memory_tail_witness :
    ((buildStore tailCluster).memGetBuggy (some (300, 599))).map (fun l => l.map (·.rid)) = some [1] ∧
    ((buildStore tailCluster).memGet (some (300, 599))).map (fun l => l.map (·.rid)) = some [1, 2] ∧
    (tailCluster.filter (fun a => overlaps (300, 599) a.iv)).map (·.rid) = [1, 2] := by
  decide

/-! ### non-vacuity -/

example : ValidInput tailCluster ∧ (buildStore tailCluster).region = some (0, 599) ∧ clusters tailCluster = [tailCluster] := by
  refine ⟨⟨by unfold SortedByStart tailCluster; decide, by unfold WFA tailCluster; decide⟩, by decide, by decide⟩

-- hypotheses of `bam_mode_no_loss`: a record before and a record after the cluster `tailCluster`, separated from it
example : (buildStore tailCluster).region = some (0, 599) ∧
    (∀ x, x ∈ ([] : List Aln) → ∀ b, b ∈ tailCluster → x.stop - 1 < b.start) ∧
    (∀ x, x ∈ tailCluster → ∀ b, b ∈ [(⟨600, 700, false, false, true, 60, 3⟩ : Aln)] → x.stop - 1 < b.start) ∧
    (bamGet ([] ++ tailCluster ++ [⟨600, 700, false, false, true, 60, 3⟩]) (300, 599)).map (·.rid) = [1, 2] := by
  refine ⟨by decide, by simp, ?_, by decide⟩
  intro x hx b hb
  simp at hb; subst hb
  simp [tailCluster] at hx
  rcases hx with rfl | rfl | rfl <;> decide

-- two clusters; statistics of a mixed input
example : clusters [⟨0, 10, false, false, true, 60, 0⟩, ⟨10, 20, true, false, true, 0, 1⟩] =
    [[⟨0, 10, false, false, true, 60, 0⟩], [⟨10, 20, true, false, true, 0, 1⟩]] ∧
    processStats [⟨0, 10, false, false, true, 60, 0⟩, ⟨10, 20, true, false, true, 0, 1⟩] AlignmentType.secondary = 1 := by
  decide

-- a read seen in two sub-regions with the same isoform set: one record survives
example : ResolveKept
    [⟨7, 0, 100, 200, [1], (1, 150), .unique, false, 0⟩, ⟨7, 0, 100, 200, [1], (151, 300), .unique, false, 0⟩] [0] := by
  have hs : selectBest [⟨7, 0, 100, 200, [1], (1, 150), .unique, false, 0⟩, ⟨7, 0, 100, 200, [1], (151, 300), .unique, false, 0⟩]
      = .exact [0, 1] := by decide
  unfold ResolveKept
  rw [if_neg (by decide), hs]
  decide

end IsoVerif.Props.C05
