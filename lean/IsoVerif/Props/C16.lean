/-
C16 (part 1) — alignment records become exon blocks exactly as SAM semantics dictate.
Property theorems about `get_read_blocks` (model: IsoVerif/Model/Cigar.lean; helper lemmas: Lemmas/Cigar.lean).
Reading rule (DESIGN §6 "C16"): an exon is a maximal run of `{M,=,X,I,D}` (and the transparent `H`,`P`) between
`N`/`S` boundaries that contains at least one aligned base; a run without an aligned base yields no exon.
-/
import IsoVerif.Model.Cigar
import IsoVerif.Lemmas.Cigar

namespace IsoVerif.Props.C16
open IsoVerif.Gen IsoVerif.Model IsoVerif.Model.C16 IsoVerif.Lemmas.C16

/-- **read_blocks_spec** — for every CIGAR (any operations over `{M,I,D,N,S,H,P,=,X}`, any length, any
    non-negative operation lengths) and every `reference_start ≥ 0`, the exons returned by `get_read_blocks`
    are exactly the SAM-semantics exons of the specification (no bound on the CIGAR). -/
theorem read_blocks_spec (s : Int) (ops : List CigarOp) (hs : 0 ≤ s) (hn : NonNeg ops) :
    (getReadBlocks s ops).refBlocks = exonsSpec s ops := by
  have h := (fold_abs s hs ops [] [] [] [] [] (by intro o hm; cases hm) (by simpa using hn)).1
  rw [← rbInit_abs] at h
  simpa [getReadBlocks, exonsSpec, cuts] using h

/-- the accompanying read-coordinate blocks are the query intervals of the same segments -/
theorem read_blocks_query_spec (s : Int) (ops : List CigarOp) (hs : 0 ≤ s) (hn : NonNeg ops) :
    (getReadBlocks s ops).readBlocks = queryBlocksSpec ops := by
  have h := (fold_abs s hs ops [] [] [] [] [] (by intro o hm; cases hm) (by simpa using hn)).2.1
  rw [← rbInit_abs] at h
  simpa [getReadBlocks, queryBlocksSpec, cuts] using h

/-- the CIGAR-index blocks run from the first `M/=/X/I/D` operation of the segment to its last operation -/
theorem cigar_blocks_spec (s : Int) (ops : List CigarOp) (hs : 0 ≤ s) (hn : NonNeg ops) :
    (getReadBlocks s ops).cigarBlocks = cigarBlocksSpec ops := by
  have h := (fold_abs s hs ops [] [] [] [] [] (by intro o hm; cases hm) (by simpa using hn)).2.2
  rw [← rbInit_abs] at h
  simpa [getReadBlocks, cigarBlocksSpec, cuts] using h

/-- non-vacuity: a CIGAR with clips, indels next to `N`, an indel-only segment and consecutive `N` -/
example : (0 : Int) ≤ 99 ∧ NonNeg [(.hard_clipping, 3), (.soft_clipping, 2), (.deletion, 1), (.«match», 5),
    (.insertion, 2), (.skipped, 10), (.skipped, 4), (.insertion, 1), (.deletion, 2), (.skipped, 7),
    (.seq_match, 3), (.padding, 1), (.seq_mismatch, 1), (.deletion, 2), (.soft_clipping, 4)] := by
  refine ⟨by decide, ?_⟩
  intro o ho; simp at ho; rcases ho with h | h | h | h | h | h | h | h | h | h | h | h | h | h | h <;> subst h <;> decide

example : (getReadBlocks 99 [(.hard_clipping, 3), (.soft_clipping, 2), (.deletion, 1), (.«match», 5),
    (.insertion, 2), (.skipped, 10), (.skipped, 4), (.insertion, 1), (.deletion, 2), (.skipped, 7),
    (.seq_match, 3), (.padding, 1), (.seq_mismatch, 1), (.deletion, 2), (.soft_clipping, 4)]).refBlocks
    = [(100, 105), (129, 134)] := by decide

/-! ### the specification's segments are exactly the maximal `N`/`S`-free runs -/

/-- **cuts_are_maximal_runs** — `(pre, seg)` is listed by `cuts ops` iff `seg` is a separator-free run of the
    CIGAR that is preceded by `pre` and cannot be extended on either side (it is delimited by an `N`/`S` or by the
    end of the CIGAR).  This grounds `exonsSpec` in a statement without any recursion. -/
theorem cuts_are_maximal_runs (ops pre seg : List CigarOp) :
    (pre, seg) ∈ cuts ops ↔
      ∃ post, ops = pre ++ seg ++ post ∧ SepFree seg ∧ EndsWithSep pre ∧ StartsWithSep post := by
  constructor
  · intro h
    obtain ⟨post, h1, h2, h3, h4⟩ := cutsAux_sound ops [] [] (by intro o hm; cases hm) (by intro o ho; cases ho) pre seg h
    exact ⟨post, by simpa using h1, h2, h3, h4⟩
  · rintro ⟨post, h1, h2, h3, h4⟩
    apply cutsAux_complete ops [] [] (by intro o hm; cases hm) pre seg post (by simpa using h1) h2 h3 h4
    simp only [List.length_nil]
    omega

/-- **exon_iff** — an interval is reported as an exon iff it is the reference span of a maximal `N`/`S`-free run
    that contains an aligned base, placed right after the reference bases consumed by everything before the run -/
theorem exon_iff (s : Int) (ops : List CigarOp) (hs : 0 ≤ s) (hn : NonNeg ops) (e : Iv) :
    e ∈ (getReadBlocks s ops).refBlocks ↔
      ∃ pre seg post, ops = pre ++ seg ++ post ∧ SepFree seg ∧ EndsWithSep pre ∧ StartsWithSep post ∧
        hasAligned seg = true ∧ e = (s + 1 + refLen pre, s + refLen pre + refLen seg) := by
  rw [read_blocks_spec s ops hs hn, exonsSpec, List.mem_filterMap]
  constructor
  · rintro ⟨⟨pre, seg⟩, hm, he⟩
    obtain ⟨post, h1, h2, h3, h4⟩ := (cuts_are_maximal_runs ops pre seg).1 hm
    simp only [exonOf] at he
    split at he
    · rename_i ha
      exact ⟨pre, seg, post, h1, h2, h3, h4, ha, (Option.some.inj he).symm⟩
    · cases he
  · rintro ⟨pre, seg, post, h1, h2, h3, h4, ha, he⟩
    exact ⟨(pre, seg), (cuts_are_maximal_runs ops pre seg).2 ⟨post, h1, h2, h3, h4⟩, by simp [exonOf, ha, he]⟩

/-- non-vacuity of `exon_iff`: the second exon of `2S 5M 10N 1I 3M 4S` -/
example : ∃ pre seg post, [(CigarEvent.soft_clipping, (2 : Int)), (.«match», 5), (.skipped, 10), (.insertion, 1),
      (.«match», 3), (.soft_clipping, 4)] = pre ++ seg ++ post ∧ SepFree seg ∧ EndsWithSep pre ∧
      StartsWithSep post ∧ hasAligned seg = true :=
  ⟨[(.soft_clipping, 2), (.«match», 5), (.skipped, 10)], [(.insertion, 1), (.«match», 3)], [(.soft_clipping, 4)],
    rfl, by intro o ho; simp at ho; rcases ho with h | h <;> subst h <;> rfl,
    by intro o ho; simp at ho; subst ho; rfl, by intro o ho; simp at ho; subst ho; rfl, rfl⟩

/-! ### corollaries -/

/-- **exons_sorted_wf** — with SAM-valid operation lengths (≥ 1) the exons are non-empty intervals, lie after
    `reference_start`, and are strictly increasing and disjoint (`a.2 < b.1` for `a` before `b`) -/
theorem exons_sorted_wf (s : Int) (ops : List CigarOp) (hs : 0 ≤ s) (hp : Pos ops) :
    (∀ e ∈ (getReadBlocks s ops).refBlocks, s + 1 ≤ e.1 ∧ e.1 ≤ e.2) ∧
    (getReadBlocks s ops).refBlocks.Pairwise (fun a b => a.2 < b.1) := by
  rw [read_blocks_spec s ops hs hp.nonneg]
  have h := exons_chain s ops [] [] (by intro o hm; cases hm) hp
  simp only [refLen_nil, Int.add_zero] at h
  exact ⟨h.all_ge, h.pairwise⟩

/-- every exon ends at or before the last reference base the alignment consumes (`reference_end`) -/
theorem exons_within_reference_end (s : Int) (ops : List CigarOp) (hs : 0 ≤ s) (hn : NonNeg ops) :
    ∀ e ∈ (getReadBlocks s ops).refBlocks, e.2 ≤ s + refLen ops := by
  intro e he
  obtain ⟨pre, seg, post, h1, _, _, _, _, h6⟩ := (exon_iff s ops hs hn e).1 he
  have hpost : NonNeg post := fun o ho => hn o (by rw [h1]; simp [ho])
  have := refLen_nonneg hpost
  rw [h6, h1]
  simp only [refLen_append]
  omega

example : Pos [(CigarEvent.«match», (5 : Int)), (.skipped, 10), (.«match», 3)] := by
  intro o ho; simp at ho; rcases ho with h | h | h <;> subst h <;> decide

/-- **intron_is_skipped_length** — two runs with read support separated by one `N` of length `n` give two exons
    whose gap is exactly the `n` skipped reference bases -/
theorem intron_is_skipped_length (s n : Int) (a b : List CigarOp) (hs : 0 ≤ s) (hn : 0 ≤ n)
    (ha : SepFree a) (hb : SepFree b) (hna : NonNeg a) (hnb : NonNeg b)
    (haa : hasAligned a = true) (hab : hasAligned b = true) :
    (getReadBlocks s (a ++ (CigarEvent.skipped, n) :: b)).refBlocks =
      [(s + 1, s + refLen a), (s + refLen a + n + 1, s + refLen a + n + refLen b)] := by
  have hnn : NonNeg (a ++ (CigarEvent.skipped, n) :: b) := by
    intro o ho
    rcases List.mem_append.1 ho with h | h
    · exact hna o h
    · rcases List.mem_cons.1 h with h | h
      · subst h; exact hn
      · exact hnb o h
  rw [read_blocks_spec s _ hs hnn, exonsSpec, cuts, cutsAux_append_sepfree a [] [] _ ha]
  simp only [List.nil_append, cutsAux, isSep, beq_self_eq_true, Bool.true_or, if_true]
  have h2 := cutsAux_append_sepfree b (a ++ [(CigarEvent.skipped, n)]) [] [] hb
  simp only [List.append_nil] at h2
  rw [h2]
  simp [cutsAux, exonOf, haa, hab, refLen_append, refLen_cons, refLen_nil, consumesRef]
  omega

example : SepFree [(CigarEvent.deletion, (2 : Int)), (.«match», 5)] ∧ hasAligned [(CigarEvent.deletion, (2 : Int)), (.«match», 5)] = true :=
  ⟨by intro o ho; simp at ho; rcases ho with h | h <;> subst h <;> rfl, rfl⟩

/-- **adjacent_runs_gap** — anywhere inside any CIGAR: two maximal runs with read support that are separated by a
    single `N` of length `n` are both reported, and the second exon starts exactly `n` bases after the first ends
    (exons are separated by the skipped length) -/
theorem adjacent_runs_gap (s n : Int) (pre a b post : List CigarOp) (hs : 0 ≤ s)
    (hn : NonNeg (pre ++ a ++ (CigarEvent.skipped, n) :: b ++ post))
    (hpre : EndsWithSep pre) (ha : SepFree a) (hb : SepFree b) (hpost : StartsWithSep post)
    (haa : hasAligned a = true) (hab : hasAligned b = true) :
    let ops := pre ++ a ++ (CigarEvent.skipped, n) :: b ++ post
    let e1 : Iv := (s + 1 + refLen pre, s + refLen pre + refLen a)
    let e2 : Iv := (e1.2 + n + 1, e1.2 + n + refLen b)
    e1 ∈ (getReadBlocks s ops).refBlocks ∧ e2 ∈ (getReadBlocks s ops).refBlocks := by
  intro ops e1 e2
  constructor
  · refine (exon_iff s ops hs hn e1).2 ⟨pre, a, (CigarEvent.skipped, n) :: b ++ post, ?_, ha, hpre, ?_, haa, rfl⟩
    · simp [ops]
    · intro o ho; simp at ho; subst ho; rfl
  · refine (exon_iff s ops hs hn e2).2 ⟨pre ++ a ++ [(CigarEvent.skipped, n)], b, post, ?_, hb, ?_, hpost, hab, ?_⟩
    · simp [ops]
    · intro o ho; simp at ho; subst ho; rfl
    · simp only [e2, e1, refLen_append, refLen_cons, refLen_nil, consumesRef]
      simp
      constructor <;> omega

example : EndsWithSep [(CigarEvent.soft_clipping, (3 : Int))] ∧ StartsWithSep ([] : List CigarOp) :=
  ⟨by intro o ho; simp at ho; subst ho; rfl, by intro o ho; cases ho⟩

/-- **insertions_and_clips_do_not_move_reference** — removing every `I`, `H` and `P` operation from a CIGAR leaves
    the exons unchanged (they never advance the reference and never start or end an exon by themselves) -/
theorem insertions_and_clips_do_not_move_reference (s : Int) (ops : List CigarOp) (hs : 0 ≤ s) (hn : NonNeg ops) :
    (getReadBlocks s (dropTransparent ops)).refBlocks = (getReadBlocks s ops).refBlocks := by
  have hn' : NonNeg (dropTransparent ops) := fun o ho => hn o (List.mem_filter.1 ho).1
  rw [read_blocks_spec s _ hs hn', read_blocks_spec s _ hs hn, exonsSpec, exonsSpec, cuts, cuts]
  exact exons_dropTransparent s ops [] []

/-- **deletion_at_segment_ends_included** — a deletion at the start or at the end of a run (next to a clip, an `N`
    or the end of the CIGAR) belongs to the exon (reading rule: the run is `{M,=,X,I,D}`-maximal) -/
theorem deletion_at_segment_ends_included (s d m d' : Int) (hs : 0 ≤ s) (hd : 0 ≤ d) (hm : 0 ≤ m) (hd' : 0 ≤ d') :
    (getReadBlocks s [(.deletion, d), (.«match», m), (.deletion, d')]).refBlocks = [(s + 1, s + d + m + d')] := by
  rw [read_blocks_spec s _ hs (by intro o ho; simp at ho; rcases ho with h | h | h <;> subst h <;> assumption)]
  simp [exonsSpec, cuts, cutsAux, isSep, exonOf, hasAligned, isAligned, refLen_cons, refLen_nil, consumesRef]
  omega

/-- **indel_only_segment_no_exon** — a run between two `N` that holds only insertions/deletions has no read
    support and yields no exon; the neighbouring exons are as if it were part of the intron -/
theorem indel_only_segment_no_exon (s m1 n1 i d n2 m2 : Int) (hs : 0 ≤ s) (h1 : 0 ≤ m1) (h2 : 0 ≤ n1) (h3 : 0 ≤ i)
    (h4 : 0 ≤ d) (h5 : 0 ≤ n2) (h6 : 0 ≤ m2) :
    (getReadBlocks s [(.«match», m1), (.skipped, n1), (.insertion, i), (.deletion, d), (.skipped, n2),
        (.«match», m2)]).refBlocks = [(s + 1, s + m1), (s + m1 + n1 + d + n2 + 1, s + m1 + n1 + d + n2 + m2)] := by
  rw [read_blocks_spec s _ hs (by
    intro o ho; simp at ho; rcases ho with h | h | h | h | h | h <;> subst h <;> assumption)]
  simp [exonsSpec, cuts, cutsAux, isSep, exonOf, hasAligned, isAligned, refLen_cons, refLen_nil, consumesRef]
  omega

/-- **read_blocks_query_consistent** — the read-coordinate blocks are consistent with the query sequence: block
    `i` is the query interval consumed by the same run that gives exon `i` (`read_blocks_query_spec`), the blocks
    are non-empty, ordered and disjoint, and all lie inside `[0, query length)` (soft clips count, hard clips do
    not) -/
theorem read_blocks_query_consistent (s : Int) (ops : List CigarOp) (hs : 0 ≤ s) (hp : Pos ops) :
    (getReadBlocks s ops).readBlocks.length = (getReadBlocks s ops).refBlocks.length ∧
    (∀ b ∈ (getReadBlocks s ops).readBlocks, 0 ≤ b.1 ∧ b.1 ≤ b.2 ∧ b.2 < queryLen ops) ∧
    (getReadBlocks s ops).readBlocks.Pairwise (fun a b => a.2 < b.1) := by
  rw [read_blocks_query_spec s ops hs hp.nonneg, read_blocks_spec s ops hs hp.nonneg]
  have h := query_chain ops [] [] (by intro o hm; cases hm) hp
  simp only [queryLen_nil, List.nil_append] at h
  refine ⟨?_, ?_, h.1.pairwise⟩
  · simp only [queryBlocksSpec, exonsSpec]
    generalize cuts ops = l
    induction l with
    | nil => rfl
    | cons c cs ih =>
      cases hc : hasAligned c.2 <;> simp [queryBlockOf, exonOf, hc, ih]
  · intro b hb
    have h1 := h.1.all_ge b hb
    have h2 := h.2 b hb
    exact ⟨h1.1, h1.2, h2⟩

/-- **truthiness_corner_witness** — the hypothesis `0 ≤ reference_start` of `read_blocks_spec` is needed:
    `if current_ref_block_start:` is a truthiness test, so for `reference_start = -1` (an unmapped record; the
    pipeline skips those) a block that starts at coordinate 0 is neither closed by `N` nor flushed at the end and
    the read gets no exon at all (the real code returns `([], [], [])` too) -/
theorem truthiness_corner_witness :
    (getReadBlocks (-1) [(.«match», 5), (.skipped, 3), (.«match», 2)]).refBlocks = [] ∧
    exonsSpec (-1) [(.«match», 5), (.skipped, 3), (.«match», 2)] = [(0, 4), (8, 9)] := by decide

end IsoVerif.Props.C16
