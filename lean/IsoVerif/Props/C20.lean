/-
C20 — concurrent runs under one HOME do not interfere (per-user JSON cache protocol).
Property theorems only; model in IsoVerif/Model/Cache.lean, lemmas in IsoVerif/Lemmas/Cache.lean.

Reading of the statement over the model (docs/C20.md):
  "never observed half-written"       every `load` of every process, in every interleaving, sees either no file or a
                                      complete buffer handed to a store (or the content the file had at the start)
  "each finish successfully"          no process is ever crashed and every process reaches the end of its program
  "never makes a run use a conversion that does not correspond to its own input"
                                      every artefact a run goes on to use (cache hit or own production) is the output of a
                                      production for the run's own key and tag, recorded for the source mtimes it sees now
Quantification: `∀ sched : List Nat` = every merge of the step lists of any number of processes.
-/
import IsoVerif.Model.Cache
import IsoVerif.Lemmas.Cache

namespace IsoVerif.Props.C20
open IsoVerif.Model.C20 IsoVerif.Lemmas.C20

set_option linter.unusedSimpArgs false

variable {β : Type}

/-! ### positive part, holds for the fixed *and* the original protocol (any programs over the primitives) -/

/-- Whenever a lookup succeeds, in any interleaving of any number of processes running any programs, the returned
    artefact was stored for the same key (absolute GTF path) by a production with the same tag (`complete_db` flag /
    k-mer size) whose recorded source / target / dependency mtimes equal the mtimes the files have now. -/
theorem no_foreign_conversion (cd : Codec β) (hl : cd.Lawful) (s0 : Sys β) (h0 : SInv cd s0)
    (sched : List Nat) (pid : Nat) (p : Proc) (c : Client) (k : Nat) (rest : List Instr) (e : Entry)
    (hp : (run cd s0 sched).procs[pid]? = some p) (_hnext : p.todo = .lookup c k :: rest)
    (hhit : lookupHit (run cd s0 sched).world (p.dict c.file) c = some e) :
    ∃ cv ∈ (run cd s0 sched).world.convs,
      cv.client.file = c.file ∧ cv.client.key = c.key ∧ cv.client.tag = c.tag ∧ cv.client.target = e.target ∧
      (run cd s0 sched).world.mtime c.src = some cv.srcM ∧
      (run cd s0 sched).world.mtime e.target = some cv.tgtM ∧
      c.aux.map (run cd s0 sched).world.mtime = cv.auxM.map some := by
  have hinv := run_inv cd hl sched s0 h0
  obtain ⟨hm, hk0, h1, h2, h3, h4⟩ := lookupHit_spec hhit
  obtain ⟨cv, hcv, hk, hce⟩ := (hinv.2 p (List.mem_of_getElem? hp)).1 c.file _ hm
  subst hce
  exact ⟨cv, hcv, hk0, hk, h3, rfl, h1, h2, h4⟩

/-- Every artefact any run goes on to use – taken from the cache or produced by itself – is the output of a production
    for the run's own key and tag, recorded for exactly the source mtime the run saw: what the run would have used alone. -/
theorem results_correspond_to_own_input (cd : Codec β) (hl : cd.Lawful) (s0 : Sys β) (h0 : SInv cd s0)
    (sched : List Nat) :
    ∀ p ∈ (run cd s0 sched).procs, ∀ r ∈ p.results,
      ∃ cv ∈ (run cd s0 sched).world.convs, cv.client.key = r.client.key ∧ cv.client.tag = r.client.tag ∧
        cv.client.target = r.target ∧ cv.srcM = r.srcM ∧ cv.tgtM = r.tgtM ∧ cv.auxM = r.auxM :=
  fun p hp r hr => ((run_inv cd hl sched s0 h0).2 p hp).2.2 r hr

/-- A path together with its mtime identifies one production: the conversion found by `no_foreign_conversion` /
    `results_correspond_to_own_input` is *the* production that wrote the file version the run goes on to use; and the
    source mtime an entry records is the mtime of the source that was actually converted (unless a production
    overwrites its own source file). Holds in every interleaving, for any programs. -/
theorem conversion_identity (cd : Codec β) (s0 : Sys β) (h0 : ConvInv s0.world) (sched : List Nat) :
    (∀ c1 ∈ (run cd s0 sched).world.convs, ∀ c2 ∈ (run cd s0 sched).world.convs,
        c1.client.target = c2.client.target → c1.tgtM = c2.tgtM → c1 = c2) ∧
    (∀ c ∈ (run cd s0 sched).world.convs, c.client.target ≠ c.client.src → c.srcM0 = c.srcM) :=
  ⟨(run_convInv cd sched s0 h0).2.1, (run_convInv cd sched s0 h0).2.2⟩

/-- `ConvInv` holds at every start without history -/
theorem start_fresh_convInv (mt : Path → Option Nat) (clock : Nat) (progs : List (List Instr)) :
    ConvInv (Sys.start (World.fresh (β := β) mt clock) progs).world := by
  refine ⟨?_, ?_, ?_⟩ <;> intro c hc <;> simp [Sys.start, World.fresh] at hc

/-- the hypothesis `SInv` is met by every start from an empty cache directory, for any programs -/
theorem start_fresh_ok (cd : Codec β) (hl : cd.Lawful) (mt : Path → Option Nat) (clock : Nat)
    (progs : List (List Instr)) : SInv cd (Sys.start (World.fresh mt clock) progs) :=
  start_inv cd _ (fresh_winv cd hl mt clock) progs

/-! ### the fixed protocol (`load_config` / `store_config`): only complete states, every run completes -/

/-- "never observed half-written": if no program truncates or writes a shared file in place (true of `progFixed`), then
    in every interleaving every `load` observes either an absent file or a complete buffer some store handed over
    (or the content a file had at the start). -/
theorem no_partial_observed (cd : Codec β) (s0 : Sys β)
    (hnames : ∀ f i, s0.world.names f = some i → i < s0.world.nextInode)
    (hobs : s0.world.obs = []) (hst : s0.world.stored = [])
    (hat : ∀ p ∈ s0.procs, ∀ i ∈ p.todo, i.atomic = true) (sched : List Nat) :
    ∀ f c, (f, some c) ∈ (run cd s0 sched).world.obs →
      (c ∈ (run cd s0 sched).world.stored ∧ ∃ d, c = cd.ser d) ∨ ∃ f', s0.world.content f' = some c := by
  have h0 : FInv s0.world s0 := by
    refine ⟨⟨hnames, ?_, ?_⟩, hat⟩
    · intro f c hc; exact Or.inr ⟨f, hc⟩
    · intro f c hc; rw [hobs] at hc; cases hc
  have hs : StoredSer cd (run cd s0 sched).world :=
    run_storedSer cd sched s0 (by intro b hb; rw [hst] at hb; cases hb)
  intro f c hc
  rcases (run_finv cd s0.world sched s0 h0).1.2.2 f c hc with h | h
  · exact Or.inl ⟨h, hs c h⟩
  · exact Or.inr h

/-- the same for what the name points to at any moment -/
theorem file_always_complete (cd : Codec β) (s0 : Sys β)
    (hnames : ∀ f i, s0.world.names f = some i → i < s0.world.nextInode) (hobs : s0.world.obs = [])
    (hat : ∀ p ∈ s0.procs, ∀ i ∈ p.todo, i.atomic = true) (sched : List Nat) :
    ∀ f c, (run cd s0 sched).world.content f = some c →
      c ∈ (run cd s0 sched).world.stored ∨ ∃ f', s0.world.content f' = some c := by
  have h0 : FInv s0.world s0 := by
    refine ⟨⟨hnames, ?_, ?_⟩, hat⟩
    · intro f c hc; exact Or.inr ⟨f, hc⟩
    · intro f c hc; rw [hobs] at hc; cases hc
  intro f c hc
  exact (run_finv cd s0.world sched s0 h0).1.2.1 f c hc

/-- "each finish successfully": if every program consists of instructions that cannot fail (atomic stores, tolerant
    loads, productions whose input files exist – true of `progFixed`), then in every interleaving no process is ever
    crashed, and letting the processes run on after the interleaving brings every one of them to the end of its program. -/
theorem fixed_runs_complete (cd : Codec β) (s0 : Sys β)
    (hsafe : ∀ p ∈ s0.procs, p.crashed = false ∧ ∀ i ∈ p.todo, SafeI s0.world i) (sched : List Nat) :
    (∀ p ∈ (run cd s0 sched).procs, p.crashed = false) ∧
    (∀ p ∈ (drain cd (run cd s0 sched)).procs, p.crashed = false ∧ p.todo = []) := by
  have h0 : CInv s0.world s0 := ⟨fun _ h => h, hsafe⟩
  have h1 := run_cinv cd s0.world sched s0 h0
  refine ⟨fun p hp => (h1.2 p hp).1, ?_⟩
  obtain ⟨d1, _, d3⟩ := drainFrom_done cd s0.world (run cd s0 sched).procs.length (run cd s0 sched) 0 h1
    (fun q hq => absurd hq (Nat.not_lt_zero q))
  intro p hp
  refine ⟨(d1.2 p hp).1, ?_⟩
  obtain ⟨q, hq, hqp⟩ := List.mem_iff_getElem.1 hp
  have hq' : q < (run cd s0 sched).procs.length := by
    have : (drainFrom cd (run cd s0 sched) 0 (run cd s0 sched).procs.length).procs.length =
        (run cd s0 sched).procs.length := by assumption
    unfold drain at hq; omega
  exact d3 q (by omega) p (by unfold drain at hq; rw [List.getElem?_eq_getElem hq]; exact congrArg some hqp)

/-- the inputs of every client of the run exist -/
def InputsPresent (w : World β) (r : RunCfg) : Prop :=
  (∀ x, r.db = some x → (w.mtime x.1.src).isSome ∧ ∀ a ∈ x.1.aux, (w.mtime a).isSome) ∧
  (∀ x ∈ r.stores, (w.mtime x.1.src).isSome ∧ ∀ a ∈ x.1.aux, (w.mtime a).isSome)

/-- the program of the code base (after the fix) has no in-place write … -/
theorem progFixed_atomic (r : RunCfg) : ∀ i ∈ progFixed r, i.atomic = true := by
  unfold progFixed
  refine forall_mem_append' (forall_mem_append' (by decide) ?_) (forall_mem_flatMap' ?_)
  · cases r.db with
    | none => simp
    | some x => cases h : x.2 <;> simp [dbFixed, h, Instr.atomic]
  · intro x _
    cases h : x.2 <;> simp [storeFixed, h, Instr.atomic]

/-- … and every instruction of it is safe when the run's input files exist -/
theorem progFixed_safe (w : World β) (r : RunCfg) (h : InputsPresent w r) : ∀ i ∈ progFixed r, SafeI w i := by
  unfold progFixed
  refine forall_mem_append' (forall_mem_append' ?_ ?_) (forall_mem_flatMap' ?_)
  · simp [setupFixed, configFiles, SafeI]
  · cases hdb : r.db with
    | none => simp
    | some x =>
      have hx := h.1 x hdb
      cases h : x.2 <;> simp [dbFixed, h, SafeI] <;> exact hx
  · intro x hx
    have hx' := h.2 x hx
    cases h : x.2 <;> simp [storeFixed, h, SafeI] <;> exact hx'

/-- C20 for the code base after the fix: n runs (any n, any configurations with existing inputs, equal or different
    annotations, shared or separate targets) started on any cache directory whose files are complete, under any
    interleaving: nobody crashes, everybody finishes, nobody ever reads a partial file. -/
theorem fixed_protocol_sound (cd : Codec β) (w : World β) (cfgs : List RunCfg)
    (hnames : ∀ f i, w.names f = some i → i < w.nextInode) (hobs : w.obs = []) (hst : w.stored = [])
    (hin : ∀ r ∈ cfgs, InputsPresent w r) (sched : List Nat) :
    let s0 := Sys.start w (cfgs.map progFixed)
    (∀ p ∈ (run cd s0 sched).procs, p.crashed = false) ∧
    (∀ p ∈ (drain cd (run cd s0 sched)).procs, p.crashed = false ∧ p.todo = []) ∧
    (∀ f c, (f, some c) ∈ (run cd s0 sched).world.obs →
      (c ∈ (run cd s0 sched).world.stored ∧ ∃ d, c = cd.ser d) ∨ ∃ f', w.content f' = some c) := by
  intro s0
  have hprocs : ∀ p ∈ s0.procs, ∃ r ∈ cfgs, p = Proc.init (progFixed r) := by
    intro p hp
    simp only [s0, Sys.start, List.mem_map] at hp
    obtain ⟨prog, ⟨r, hr, rfl⟩, rfl⟩ := hp
    exact ⟨r, hr, rfl⟩
  have hsafe : ∀ p ∈ s0.procs, p.crashed = false ∧ ∀ i ∈ p.todo, SafeI s0.world i := by
    intro p hp
    obtain ⟨r, hr, rfl⟩ := hprocs p hp
    exact ⟨rfl, progFixed_safe w r (hin r hr)⟩
  have hat : ∀ p ∈ s0.procs, ∀ i ∈ p.todo, i.atomic = true := by
    intro p hp
    obtain ⟨r, _, rfl⟩ := hprocs p hp
    exact progFixed_atomic r
  obtain ⟨c1, c2⟩ := fixed_runs_complete cd s0 hsafe sched
  exact ⟨c1, c2, no_partial_observed cd s0 hnames hobs hst hat sched⟩

/-! ### the protocol before the fix (`open(..,'w')`; `json.dump`): the property is false -/

/-- Mechanics of the lost tail, for every lawful format: a shorter buffer written over a longer one leaves
    `short ++ tail(long)`, which is not a document – for every later reader. -/
theorem lost_tail_unparsable (cd : Codec β) (hl : cd.Lawful) (d1 d2 : Cache)
    (hlen : (cd.ser d1).length < (cd.ser d2).length) :
    overlay (cd.ser d1) (cd.ser d2) = cd.ser d1 ++ (cd.ser d2).drop (cd.ser d1).length ∧
    cd.parse (overlay (cd.ser d1) (cd.ser d2)) = none := by
  refine ⟨rfl, ?_⟩
  unfold overlay
  apply hl.parse_tail d1 d2
  · intro h
    have := congrArg List.length h
    simp at this; omega
  · exact List.drop_suffix _ _

/-- Mechanics of the half-written read, for every lawful format: between another process's `open(..,'w')` and its
    `close`, a non-tolerant `load` of an existing config file fails. -/
theorem truncated_load_crashes (cd : Codec β) (hl : cd.Lawful) (w : World β) (f i : Nat) (writer reader : Proc)
    (hn : w.names f = some i) (hw : writer.crashed = false) (rest : List Instr) (hwt : writer.todo = .openW f :: rest)
    (hr : reader.crashed = false) (ap : Bool) (rest' : List Instr) (hrt : reader.todo = .load f false ap :: rest') :
    (stepProc cd (stepProc cd w writer).1 reader).2.crashed = true := by
  have h1 : (stepProc cd w writer).1 = { w with inodes := upd w.inodes i [] } := by
    unfold stepProc; simp [hw, hwt, hn]
  rw [h1]
  unfold stepProc
  simp [hr, hrt, loadDict, World.content, hn, upd, hl.parse_nil]

/-- a run of the original program that uses the annotation cache cannot write db_config.json before it reads it -/
theorem progOrig_doomed (r : RunCfg) (c : Client) (cs : Bool) (hdb : r.db = some (c, cs)) (hf : c.file = 0) :
    Doomed (progOrig r) := by
  have h3 : (3 : Nat) ≠ 0 := by decide
  have h2 : (2 : Nat) ≠ 0 := by decide
  have h1 : (1 : Nat) ≠ 0 := by decide
  simp only [progOrig, setupOrig, configFiles, hdb, dbOrig, hf, List.flatMap_cons, List.flatMap_nil, List.cons_append,
    List.nil_append, List.append_nil, List.append_assoc]
  have hload : ∀ rest, Doomed (Instr.load 0 false false :: rest) := fun rest => Doomed.load _ _
  have e3 : ∀ rest, Doomed rest → Doomed (.existsQ 3 2 :: .openW 3 :: .writeBuf 3 true :: rest) := fun rest h =>
    Doomed.existsOther 3 2 _ h3 (Doomed.openW 3 _ h3 (Doomed.writeBuf 3 true _ h3 h)) h
  have e2 : ∀ rest, Doomed rest → Doomed (.existsQ 2 2 :: .openW 2 :: .writeBuf 2 true :: rest) := fun rest h =>
    Doomed.existsOther 2 2 _ h2 (Doomed.openW 2 _ h2 (Doomed.writeBuf 2 true _ h2 h)) h
  have e1 : ∀ rest, Doomed rest → Doomed (.existsQ 1 2 :: .openW 1 :: .writeBuf 1 true :: rest) := fun rest h =>
    Doomed.existsOther 1 2 _ h1 (Doomed.openW 1 _ h1 (Doomed.writeBuf 1 true _ h1 h)) h
  exact Doomed.exists0 2 _ (e1 _ (e2 _ (e3 _ (hload _))))

/-- "unparsable for every later run", for the original protocol and all interleavings: once db_config.json exists and
    is not a document, any number of runs of the original program that use the annotation cache all crash, in every
    interleaving, and the file keeps exactly its corrupted content (nobody ever repairs it). -/
theorem orig_corruption_permanent (cd : Codec β) (w : World β) (i0 : Nat)
    (hn0 : w.names 0 = some i0) (hbad : cd.parse (w.inodes i0) = none) (hlt : i0 < w.nextInode)
    (hinj : ∀ f, f ≠ 0 → w.names f ≠ some i0)
    (cfgs : List RunCfg) (hdb : ∀ r ∈ cfgs, ∃ c cs, r.db = some (c, cs) ∧ c.file = 0) (sched : List Nat) :
    (∀ p ∈ (drain cd (run cd (Sys.start w (cfgs.map progOrig)) sched)).procs, p.crashed = true) ∧
    (drain cd (run cd (Sys.start w (cfgs.map progOrig)) sched)).world.content 0 = w.content 0 := by
  have h0 : KInv i0 (w.inodes i0) (Sys.start w (cfgs.map progOrig)) := by
    refine ⟨⟨hn0, rfl, hlt, hinj⟩, ?_⟩
    intro p hp
    simp only [Sys.start, List.mem_map] at hp
    obtain ⟨prog, ⟨r, hr, rfl⟩, rfl⟩ := hp
    obtain ⟨c, cs, h1, h2⟩ := hdb r hr
    exact ⟨Or.inr (progOrig_doomed r c cs h1 h2), fun f => by simp [Proc.init]⟩
  obtain ⟨sch, hsch⟩ := drain_eq_run cd (run cd (Sys.start w (cfgs.map progOrig)) sched)
  have hk : KInv i0 (w.inodes i0) (drain cd (run cd (Sys.start w (cfgs.map progOrig)) sched)) := by
    rw [hsch, ← run_append]
    exact run_kinv cd i0 _ hbad _ _ h0
  refine ⟨?_, ?_⟩
  · intro p hp
    rcases drain_stuck cd _ p hp with h | h
    · exact h
    · rcases (hk.2 p hp).1 with h' | h'
      · exact h'
      · exact absurd h h'.ne_nil
  · obtain ⟨k1, k2, _, _⟩ := hk.1
    unfold World.content
    rw [k1, hn0]
    simp [k2]

/-- two runs of the original program with different annotations on an empty cache directory -/
def origPair : Sys Nat :=
  Sys.start (World.fresh (fun p => if p = 10 then some 5 else if p = 11 then some 6 else none) 100)
    [progOrig { db := some ({ file := 0, key := 10, src := 10, aux := [], target := 20, tag := 1 }, false), stores := [] },
     progOrig { db := some ({ file := 0, key := 11, src := 11, aux := [], target := 21, tag := 1 }, false), stores := [] }]

/-- process 0 runs up to and including its `open(db_config,'w')`; process 1 then reaches its `json.load` -/
def halfWrittenSched : List Nat := List.replicate 16 0 ++ List.replicate 5 1

/-- The property is false of the original protocol: in this interleaving run 1 reads the truncated file (a content no
    store ever handed over) and crashes, although alone (and in the sequential order) it completes. -/
theorem half_written_observable_witness :
    (((run toyCodec origPair halfWrittenSched).procs.map (·.crashed)) = [false, true]) ∧
    (0, some []) ∈ (run toyCodec origPair halfWrittenSched).world.obs ∧
    [] ∉ (run toyCodec origPair halfWrittenSched).world.stored ∧
    ((drain toyCodec origPair).procs.map (fun p => (p.crashed, p.todo.length))) = [(false, 0), (false, 0)] := by
  decide

/-- two runs of the original program using the alignment cache: run 1 has a junction annotation (one more stored
    mtime), so its serialised dict is longer -/
def origAlignPair : Sys Nat :=
  Sys.start (World.fresh (fun p => if p = 10 then some 5 else if p = 11 then some 6 else if p = 12 then some 7
                                   else if p = 13 then some 8 else none) 100)
    [progOrig { db := none, stores := [({ file := 3, key := 30, src := 10, aux := [12], target := 20, tag := 0 }, true)] },
     progOrig { db := none, stores := [({ file := 3, key := 31, src := 11, aux := [12, 13], target := 21, tag := 0 }, true)] },
     progOrig { db := none, stores := [({ file := 3, key := 30, src := 10, aux := [12], target := 22, tag := 0 }, true)] }]

/-- both reach `open(..,'w')` (T0 T1), the longer buffer is written first (W1), the shorter second (W0);
    afterwards a third run starts -/
def lostTailSched : List Nat :=
  List.replicate 16 0 ++ List.replicate 8 1 ++ [0, 1, 1, 0] ++ List.replicate 5 2

/-- The property is false of the original protocol: overlapping writers leave `short ++ tail(long)`; both writers
    finish "successfully", the file is unparsable, and a run started afterwards crashes at its first load. -/
theorem lost_tail_corruption_witness :
    let s := run toyCodec origAlignPair lostTailSched
    (s.procs.map (fun p => (p.crashed, p.todo.length))) = [(false, 0), (false, 0), (true, 6)] ∧
    s.world.content 3 = some (toySer [(30, ⟨3, 20, 5, 100, 0, [7]⟩)] ++
                              (toySer [(31, ⟨3, 21, 6, 101, 0, [7, 8]⟩)]).drop 9) ∧
    loadDict toyCodec s.world 3 = none ∧
    (drain toyCodec s).world.content 3 = s.world.content 3 := by
  decide

/-! ### non-vacuity -/

/-- the laws are satisfiable -/
theorem lawful_codec_exists : toyCodec.Lawful := toyCodec_lawful

/-- three runs of the fixed program, two with the same annotation -/
def fixedTriple : Sys Nat :=
  Sys.start (World.fresh (fun p => if p = 10 then some 5 else if p = 11 then some 6 else none) 100)
    [progFixed { db := some ({ file := 0, key := 10, src := 10, aux := [], target := 20, tag := 1 }, false), stores := [] },
     progFixed { db := some ({ file := 0, key := 11, src := 11, aux := [], target := 21, tag := 1 }, false), stores := [] },
     progFixed { db := some ({ file := 0, key := 10, src := 10, aux := [], target := 22, tag := 1 }, false), stores := [] }]

/-- the cache is not trivially empty: after run 0 has finished, run 2 (same annotation, other output folder) gets a hit
    and uses run 0's database; run 1 (other annotation) converts itself; loads observed real contents -/
example :
    let s := drain toyCodec (run toyCodec fixedTriple (List.replicate 12 0 ++ [1, 2, 1, 2]))
    (s.procs.map (fun p => (p.crashed, p.todo.length, p.results.map (fun r => (r.target, r.hit))))) =
      [(false, 0, [(20, false)]), (false, 0, [(21, false)]), (false, 0, [(20, true)])] ∧
    s.world.obs.length = 3 := by
  decide

/-- the hypotheses of `no_foreign_conversion` are met in a reachable state: run 2 stands before its lookup and the
    lookup succeeds (it finds run 0's database) -/
example :
    let s := run toyCodec fixedTriple (List.replicate 12 0 ++ List.replicate 5 2)
    (match s.procs[2]? with
     | some p => (match p.todo with
        | .lookup c _ :: _ => (lookupHit s.world (p.dict c.file) c).isSome
        | _ => false)
     | none => false) = true := by
  decide

/-- the hypotheses of `orig_corruption_permanent` are met by the state the lost-tail mechanics leave behind
    (`short ++ tail(long)` in db_config.json) -/
example :
    let bad := overlay (toySer [(10, ⟨0, 20, 5, 100, 1, []⟩)]) (toySer [(11, ⟨0, 21, 6, 101, 1, [7]⟩)])
    let w : World Nat := { World.fresh (fun _ => none) 100 with
      names := fun f => if f = 0 then some 0 else none, inodes := fun i => if i = 0 then bad else [], nextInode := 1 }
    w.names 0 = some 0 ∧ toyCodec.parse (w.inodes 0) = none ∧ 0 < w.nextInode ∧ ∀ f, f ≠ 0 → w.names f ≠ some 0 := by
  refine ⟨rfl, by decide, by decide, ?_⟩
  intro f hf
  simp [hf]

/-- the hypotheses of `fixed_protocol_sound` / `no_foreign_conversion` are met by this system -/
example : (∀ r ∈ [({ db := some ({ file := 0, key := 10, src := 10, aux := [], target := 20, tag := 1 }, false),
                      stores := [] } : RunCfg)],
            InputsPresent (World.fresh (β := Nat) (fun p => if p = 10 then some 5 else none) 100) r) ∧
          SInv toyCodec fixedTriple := by
  refine ⟨?_, start_fresh_ok toyCodec toyCodec_lawful _ _ _⟩
  intro r hr
  simp at hr
  subst hr
  simp [InputsPresent, World.fresh]

end IsoVerif.Props.C20
