/-
C15, reuse clause — "a run restarted from saved assignments (`--read_assignments`) reproduces the outputs of the run
that saved them", for the modelled downstream (Model/Reuse.lean over Model/BamPipeline.lean `downstream`).

Which stage is what
  MODEL      printer, full and abridged loader, multimapper files, `_info` file (C15, Model/Serial.lean); per-read lists
             of both memory modes, `MultimapResolver.resolve` (take_best), verdict files, `ReadAssignmentLoader.get_next`
             (C08, Model/Resolver.lean); ungrouped gene / transcript counters, `dump`, `merge_counts`,
             `convert_counts_to_tpm` (C02, Model/Counter.lean); the glue of `collect_reads`, `process_sample`,
             `construct_models_in_parallel`, `merge_assignments` (Model/Reuse.lean, Model/BamPipeline.lean)
  PARAMETER  `Env.intern / name` (strings as numbers), `Env.derive` (what `GeneInfo.deserialize` re-derives from the gene
             database for a header: HYPOTHESIS = the restart is given the database of the saving run, i.e. the same
             `derive`), `Env.code` (the rest of a record), `Config` (counting strategies, order of ids, complete
             feature lists, merge order), the reference (chromosome names in `get_chr_list` order)
  OUTSIDE    printers, transcript model construction, grouped and exon/intron counters (pipeline triple in the oracle)

Memory modes of the SAVING run (read off src/dataset_processor.py, checked on the real code by the harness):
  * second half (`process_assigned_reads`): reads the dumps in BOTH modes – it always works from the quantised records;
  * first half, resolver input: default = abridged re-read of the dumps (quantised); `--high_memory` = the
    `BasicReadAssignment(ra)` objects kept in memory (unquantised), whose `penalty_score` is `min(0.0, first penalty)`,
    i.e. 0.0 for every penalty that is not negative: the two inputs are EQUAL objects (`memory_modes_same_lists`);
    they differ only for a negative first penalty in (−2^-20, 0) (`memory_mode_negative_penalty_witness`), which
    the assigner never produces (penalties are sums of non-negative event costs).
-/
import IsoVerif.Lemmas.Reuse

namespace IsoVerif.Props.C15Reuse
open IsoVerif.Gen IsoVerif.Model IsoVerif.Model.Serial IsoVerif.Model.Resolver IsoVerif.Model.C12 IsoVerif.Model.C15
open IsoVerif.Model.C02
open IsoVerif.Lemmas.Serial IsoVerif.Lemmas.Resolver IsoVerif.Lemmas.C12 IsoVerif.Lemmas.C15
open IsoVerif.Props.C15Objects IsoVerif.Props.C15Stream

/-! ## 1. the restart is the second half of the saving run -/

/-- the tables with the `__not_aligned` line blanked -/
def forgetNotAligned (o : Output) : Output :=
  { o with geneCounts := { o.geneCounts with notAligned := 0 },
           transcriptCounts := { o.transcriptCounts with notAligned := 0 } }

/-- `merge_assignments` looks at the unaligned reads only through their total, and only for `__not_aligned` -/
theorem assemble_unaligned (cfg : Config) (u u' : List Nat) (outs : List ChrOut) :
    forgetNotAligned (assemble cfg u outs) = forgetNotAligned (assemble cfg u' outs) ∧
    (countUnaligned u = countUnaligned u' → assemble cfg u outs = assemble cfg u' outs) := by
  refine ⟨by simp [forgetNotAligned, assemble, mergeCounts], ?_⟩
  intro h
  simp [assemble, h]

/-- the second half looks at the unaligned reads only through their total -/
theorem processSaved_unaligned (E : Env) (cfg : Config) (u u' : List Nat) (names : List String) (files : Saved)
    (h : countUnaligned u = countUnaligned u') :
    processSaved E cfg u names files = processSaved E cfg u' names files := by
  unfold processSaved
  cases readSaveInfo.run files.info with
  | none => rfl
  | some ir =>
    cases (names.zip files.chrs).zipIdx.mapM (fun x => constructChr E cfg x.2 x.1.1 x.1.2) with
    | none => rfl
    | some outs => simp only [(assemble_unaligned cfg u u' outs).2 h]

/-- on the `_info` file written by the modelled `collect_reads` the restart finds the number of unaligned reads the
    saving run had counted (fix cc73ffc), so it is the second half run with that number -/
theorem restartRun_on_saved (E : Env) (cfg : Config) (hm : Bool) (readGroups : List String) (ua : Nat)
    (chroms : List ChrIn) (files : Saved) (names : List String)
    (hsave : collectReads E hm readGroups ua chroms = some files) (u : List Nat) (hu : countUnaligned u = ua) :
    restartRun E cfg names files = processSaved E cfg u names files := by
  obtain ⟨saves, d, resolved, mms, info, _, _, _, _, _, hi, rfl⟩ := collectReads_unpack hsave
  unfold restartRun
  simp only
  rw [info_file_unaligned _ _ info hi]
  simp only [Int.toNat_natCast]
  exact processSaved_unaligned E cfg [ua] u names _ (by rw [hu]; simp [countUnaligned])

/-- **restart_is_second_half_files** (the set-up aside: Props/C15Setup.lean `restart_is_second_half` adds it; after fix cc73ffc): whatever the saving run computed from the files it
    wrote (in both memory modes it computes its outputs from them), a run restarted from these files computes again –
    the loaded `_info`, the per-chromosome records and tables, the merged tables, TPM and the `__not_aligned` line. -/
theorem restart_is_second_half_files (E : Env) (cfg : Config) (readGroups : List String) (unmapped : List Nat)
    (chroms : List ChrIn) (files : Saved) (o : RunOut)
    (h : savingRun E cfg readGroups unmapped chroms = some (files, o)) :
    restartRun E cfg (chroms.map (·.name)) files = some o := by
  unfold savingRun at h
  cases hc : collectReads E cfg.highMemory readGroups (countUnaligned unmapped) chroms with
  | none => rw [hc] at h; cases h
  | some files' =>
    rw [hc] at h
    simp only [Option.map_eq_some_iff, Prod.mk.injEq] at h
    obtain ⟨o0, ho0, rfl, rfl⟩ := h
    rw [restartRun_on_saved E cfg cfg.highMemory readGroups _ chroms files' _ hc unmapped rfl]
    exact ho0

/-- the restart BEFORE fix cc73ffc (`restartRunOrig`) knew nothing about unaligned reads: same loaded `_info`, same
    per-chromosome records and tables, same merged tables and TPM up to the `__not_aligned` line; everything equal only
    when the saving run saw no unaligned read (`restart_not_aligned_witness`) -/
theorem restart_orig_is_second_half (E : Env) (cfg : Config) (readGroups : List String) (unmapped : List Nat)
    (chroms : List ChrIn) (files : Saved) (o : RunOut)
    (h : savingRun E cfg readGroups unmapped chroms = some (files, o)) :
    ∃ o', restartRunOrig E cfg (chroms.map (·.name)) files = some o' ∧ o'.info = o.info ∧ o'.out.chrs = o.out.chrs ∧
      forgetNotAligned o'.out = forgetNotAligned o.out ∧ (countUnaligned unmapped = 0 → o' = o) := by
  unfold savingRun at h
  cases hc : collectReads E cfg.highMemory readGroups (countUnaligned unmapped) chroms with
  | none => rw [hc] at h; cases h
  | some files' =>
    rw [hc] at h
    simp only [Option.map_eq_some_iff, Prod.mk.injEq] at h
    obtain ⟨o0, ho0, rfl, rfl⟩ := h
    unfold restartRunOrig
    unfold processSaved at ho0 ⊢
    cases hi : readSaveInfo.run files'.info with
    | none => rw [hi] at ho0; cases ho0
    | some ir =>
      cases hm : ((chroms.map (·.name)).zip files'.chrs).zipIdx.mapM
          (fun x => constructChr E cfg x.2 x.1.1 x.1.2) with
      | none => rw [hi, hm] at ho0; cases ho0
      | some outs =>
        rw [hi, hm] at ho0
        simp only [Option.some.injEq] at ho0
        subst ho0
        refine ⟨_, rfl, rfl, rfl, (assemble_unaligned cfg [] unmapped outs).1, ?_⟩
        intro hz
        have := (assemble_unaligned cfg [] unmapped outs).2 (by rw [hz]; rfl)
        simp only [this]

/-- a save folder written before fix cc73ffc (`_info` = the three fields only) is still accepted: the restart reads 0
    unaligned reads at the end of the file and behaves as it did before the fix -/
theorem restart_on_old_info_file (E : Env) (cfg : Config) (names : List String) (files : Saved) (i : SaveInfo)
    (hold : writeSaveInfo i = some files.info) :
    restartRun E cfg names files = restartRunOrig E cfg names files := by
  unfold restartRun restartRunOrig
  rw [old_info_file_unaligned i files.info hold]
  exact processSaved_unaligned E cfg _ _ names files rfl

/-! ## 2. `downstream` of C12 on records that carry their own ids -/

theorem downstream_eq_keyed (cfg : Config) (ids : Nat → Nat → Nat) (u : List Nat) (X : List (List PRec)) :
    downstream cfg ids u X = downstreamKeyed cfg u ((stampedOf ids X).map (fun x => (x.2, x.2, x.1))) := by
  unfold downstream downstreamKeyed
  simp only [List.map_map, Function.comp_def, mapM_map_opt]
  rfl

/-- the assignment ids the records carry, as the numbering `downstream` is given -/
def aidTable (X : List (List PRec)) : Nat → Nat → Nat :=
  fun c i => (((X[c]?).getD [])[i]?.map (·.basic.aid)).getD 0

/-! ## 3. the files of the saving run, read back -/

/-- per chromosome: position, interned name, the records as the dump holds them (penalties truncated) under the gene
    info the restart re-derives for their header -/
def keyedOf (E : Env) (chroms : List ChrIn) : List (Nat × Nat × List PRec) :=
  chroms.zipIdx.map (fun x => (x.2, E.intern x.1.name, chrPRecs E (quantGroups x.1.groups)))

/-- the representable domain: what the round-trip theorems of Props/C15Objects.lean need of every record -/
def InDomain (chroms : List ChrIn) : Prop := ∀ c ∈ chroms, ∀ g ∈ c.groups, ∀ r ∈ g.2, RADom r ∧ r.exons ≠ []

/-- `name` undoes `intern` on every string of the experiment (chromosome names, read ids, gene and transcript ids):
    a table-based interning meets it -/
def InternOk (E : Env) (chroms : List ChrIn) : Prop := ∀ s ∈ allStrings chroms, E.name (E.intern s) = s

/-- with `--high_memory` the resolver sees the objects in memory: their first penalty is not negative -/
def MemoryModeOk (highMemory : Bool) (chroms : List ChrIn) : Prop :=
  highMemory = true → ∀ c ∈ chroms, ∀ g ∈ c.groups, ∀ r ∈ g.2, NonNegFirst r

theorem keyedOf_stream (E : Env) (chroms : List ChrIn) :
    ((keyedOf E chroms).map (·.2.2)).flatten.map (·.basic) = streamOf E chroms := by
  have : (keyedOf E chroms).map (·.2.2) = chroms.map (fun c => chrPRecs E (quantGroups c.groups)) := by
    unfold keyedOf
    rw [List.map_map]
    have : chroms.map (fun c => chrPRecs E (quantGroups c.groups)) =
        (chroms.zipIdx.map Prod.fst).map (fun c => chrPRecs E (quantGroups c.groups)) := by simp
    rw [this, List.map_map]
    rfl
  rw [this]
  simp only [streamOf, List.flatMap_def, List.map_flatten, List.map_map]
  rfl

/-- the second half on the files of the first, stage by stage: the resolver of the saving run ran on the compact
    records as the dumps hold them (`streamOf`, both memory modes); the restart loads the `_info` record the saving run
    computed; every chromosome's verdict file gives back `verdictsFor`, every dump the truncated records -/
theorem processSaved_spec (E : Env) (cfg : Config) (readGroups : List String) (chroms : List ChrIn)
    (files : Saved) (u : List Nat) (ua : Nat) (hE : InternOk E chroms)
    (hsave : collectReads E cfg.highMemory readGroups ua chroms = some files)
    (hdom : InDomain chroms) (hpen : MemoryModeOk cfg.highMemory chroms)
    (hlen : (streamOf E chroms).length < ser_TERMINATION_INT) :
    ∃ resolved, resolveStream cfg.highMemory (streamOf E chroms) = some resolved ∧
      processSaved E cfg u (chroms.map (·.name)) files =
        ((keyedOf E chroms).mapM (fun x => processChrKeyed cfg resolved x.1 x.2.1 x.2.2)).map (fun outs =>
          { info := infoOf readGroups (listsOf cfg.highMemory (streamOf E chroms)) resolved,
            out := assemble cfg u outs }) := by
  obtain ⟨saves, d, resolved, mms, info, hs, hd, hr, _, hm, hi, rfl⟩ := collectReads_unpack hsave
  -- the resolver ran on the records as the dumps hold them
  have hd1 := perReadLists_spec E cfg.highMemory chroms saves d hs hdom hpen hd
  have hres : resolveStream cfg.highMemory (streamOf E chroms) = some resolved := by
    unfold resolveStream
    simp only
    rw [← listsOf_fst, ← hd1]
    exact hr
  refine ⟨resolved, hres, ?_⟩
  have hclosed := streamOf_closed E chroms hE
  obtain ⟨hnd, hfacts⟩ := resolved_facts E _ _ _ hres hclosed
  have hrec : ∀ kv ∈ resolved, kv.2.length < ser_TERMINATION_INT ∧ ∀ r ∈ kv.2, r.readId = kv.1 ∧ IdsClosed E r :=
    fun kv hkv => ⟨Nat.lt_of_le_of_lt (hfacts kv hkv).1 hlen, (hfacts kv hkv).2⟩
  -- `_info`
  obtain ⟨_, ub, _, _, _, hinfo⟩ := info_file_head _ _ info [] hi
  rw [List.append_nil] at hinfo
  -- chromosome by chromosome
  obtain ⟨hsaves, hsall⟩ := mapM_eq_some_map _ ([] : Bytes) chroms saves hs
  obtain ⟨hmms, hmall⟩ := mapM_eq_some_map _ ([] : Bytes) chroms mms hm
  have hmapM : ((chroms.map (·.name)).zip ((saves.zip mms).map (fun x => (⟨x.1, x.2⟩ : ChrFiles)))).zipIdx.mapM
        (fun x => constructChr E cfg x.2 x.1.1 x.1.2) =
      (keyedOf E chroms).mapM (fun x => processChrKeyed cfg resolved x.1 x.2.1 x.2.2) := by
    rw [hsaves, hmms, zip_map_same, List.map_map, zip_map_same, zipIdx_map', mapM_map_opt]
    unfold keyedOf
    rw [mapM_map_opt]
    apply mapM_congr_mem
    intro x hx
    have hc : x.1 ∈ chroms := mem_of_mem_zipIdx' hx
    simp only [Function.comp]
    unfold constructChr processChrKeyed
    rw [loadVerdicts_written E x.1.name (hE _ (mem_allStrings_name hc)) resolved _ (hmall x.1 hc) hnd hrec,
      (dump_decodes x.1.groups _ (hsall x.1 hc) (hdom x.1 hc)).1]
    simp only
    cases loadChr (verdictsFor (E.intern x.1.name) resolved) (chrPRecs E (quantGroups x.1.groups)) <;> rfl
  unfold processSaved
  rw [hinfo, hmapM, hd1]
  cases (keyedOf E chroms).mapM (fun x => processChrKeyed cfg resolved x.1 x.2.1 x.2.2) <;> rfl

/-- **files_reproduce_records** (the core of the reuse clause): on the files written by the modelled `collect_reads`
    (either memory mode), the second half – `_info`, multimapper files, FULL loader, loader verdicts, counters, merge,
    TPM – computes exactly what `downstream` computes from the records the saving run holds after its own write
    (`quantGroups`: penalties truncated), for every number of unaligned reads it is told. -/
theorem files_reproduce_records (E : Env) (cfg : Config) (readGroups : List String) (chroms : List ChrIn)
    (files : Saved) (u : List Nat) (ua : Nat) (hE : InternOk E chroms)
    (hsave : collectReads E cfg.highMemory readGroups ua chroms = some files)
    (hdom : InDomain chroms) (hpen : MemoryModeOk cfg.highMemory chroms)
    (hlen : (streamOf E chroms).length < ser_TERMINATION_INT) :
    (processSaved E cfg u (chroms.map (·.name)) files).map (·.out) = downstreamKeyed cfg u (keyedOf E chroms) := by
  obtain ⟨resolved, hres, hp⟩ := processSaved_spec E cfg readGroups chroms files u ua hE hsave hdom hpen hlen
  unfold downstreamKeyed
  rw [keyedOf_stream, hres, hp]
  simp only
  cases (keyedOf E chroms).mapM (fun x => processChrKeyed cfg resolved x.1 x.2.1 x.2.2) <;> rfl

/-- **restart_reads_saved_info**: the `total_assignments / polya_found / all_read_groups` a restart loads are the ones
    the saving run computed from its resolver's output (they decide the polyA requirements of model construction and
    the columns of the grouped tables – both outside `downstream`) -/
theorem restart_reads_saved_info (E : Env) (cfg : Config) (readGroups : List String) (chroms : List ChrIn)
    (files : Saved) (ua : Nat) (hE : InternOk E chroms)
    (hsave : collectReads E cfg.highMemory readGroups ua chroms = some files)
    (hdom : InDomain chroms) (hpen : MemoryModeOk cfg.highMemory chroms)
    (hlen : (streamOf E chroms).length < ser_TERMINATION_INT) (o : RunOut)
    (ho : restartRun E cfg (chroms.map (·.name)) files = some o) :
    ∃ resolved, resolveStream cfg.highMemory (streamOf E chroms) = some resolved ∧
      o.info = infoOf readGroups (listsOf cfg.highMemory (streamOf E chroms)) resolved ∧
      o.info.readGroups = readGroups := by
  obtain ⟨resolved, hres, hp⟩ := processSaved_spec E cfg readGroups chroms files [ua] ua hE hsave hdom hpen hlen
  rw [restartRun_on_saved E cfg cfg.highMemory readGroups ua chroms files _ hsave [ua] (by simp [countUnaligned])] at ho
  rw [hp] at ho
  simp only [Option.map_eq_some_iff] at ho
  obtain ⟨outs, _, rfl⟩ := ho
  exact ⟨resolved, hres, rfl, rfl⟩

/-! ## 4. in terms of `C12.downstream` -/

/-- the records the saving run holds after its own write, per chromosome, in file order -/
def heldRecords (E : Env) (chroms : List ChrIn) : List (List PRec) :=
  chroms.map (fun c => chrPRecs E (quantGroups c.groups))

/-- `downstream` identifies a chromosome with its position: the interned chromosome names are the positions in
    `get_chr_list` order, and every record carries the `chr_id` of the chromosome it was collected on
    (`read_assignment.chr_id = self.chr_id`) -/
def ChrStamped (E : Env) (chroms : List ChrIn) : Prop :=
  ∀ i c, chroms[i]? = some c → E.intern c.name = i ∧ ∀ g ∈ c.groups, ∀ r ∈ g.2, r.chrId = c.name

theorem keyedOf_eq_stamped (E : Env) (chroms : List ChrIn) (h : ChrStamped E chroms) :
    keyedOf E chroms =
      (stampedOf (aidTable (heldRecords E chroms)) (heldRecords E chroms)).map (fun x => (x.2, x.2, x.1)) := by
  unfold keyedOf stampedOf heldRecords
  rw [zipIdx_map', List.map_map, List.map_map]
  apply List.map_congr_left
  intro x hx
  have hget : chroms[x.2]? = some x.1 := List.mem_zipIdx_iff_getElem?.mp hx
  obtain ⟨hk, hchr⟩ := h x.2 x.1 hget
  simp only [Function.comp]
  rw [stampChr_self, hk]
  intro i p hp
  obtain ⟨g, hg, r, hr, rfl⟩ := mem_chrPRecs_quant (List.mem_of_getElem? hp)
  refine ⟨?_, ?_⟩
  · show E.intern r.chrId = x.2
    rw [hchr g hg r hr, hk]
  · simp only [aidTable, List.getElem?_map, hget, Option.map_some, Option.getD_some, hp]

/-- **reuse_reproduces_outputs**.  For every list of per-chromosome record streams (gene regions with their read
    assignments) in the representable domain, written by the modelled printer in either memory mode: the loaded-record
    lists and the gene / transcript count and TPM tables that a run RESTARTED from the files computes – full loader for
    the model-construction stage, verdicts of the saving run's resolver (which read the dumps with the abridged loader,
    or, with `--high_memory`, used the objects in memory) – are those `C12.downstream` computes from the records the
    saving run held in memory after its own write (`quantRA` of the originals: penalties truncated to 2^-20), with no
    unaligned reads; and the SAVING run's own outputs are `downstream` of the same records with its unaligned reads.
    So the restart reproduces the saving run's `downstream` outputs exactly, except for the `__not_aligned` line
    (`restart_is_second_half`, `restart_not_aligned_witness`).
    Hypotheses: the writers accepted the data (`hsave`); `InDomain` (ids not colliding with the None marker, dict keys
    distinct, `corrected_introns` = junctions of `corrected_exons`, at least one exon); `MemoryModeOk` (with
    `--high_memory`: first penalties not negative); fewer than 2^32 − 1 records; `InternOk`; `ChrStamped`;
    the restart is given the same `Env.derive` (gene database), `Config` and reference (chromosome names). -/
theorem reuse_reproduces_outputs (E : Env) (cfg : Config) (readGroups : List String) (unmapped : List Nat)
    (chroms : List ChrIn) (files : Saved) (hE : InternOk E chroms)
    (hsave : collectReads E cfg.highMemory readGroups (countUnaligned unmapped) chroms = some files)
    (hdom : InDomain chroms) (hpen : MemoryModeOk cfg.highMemory chroms)
    (hlen : (streamOf E chroms).length < ser_TERMINATION_INT) (hst : ChrStamped E chroms) :
    (restartRun E cfg (chroms.map (·.name)) files).map (·.out) =
      downstream cfg (aidTable (heldRecords E chroms)) unmapped (heldRecords E chroms) ∧
    (savingRun E cfg readGroups unmapped chroms).map (fun x => x.2.out) =
      downstream cfg (aidTable (heldRecords E chroms)) unmapped (heldRecords E chroms) := by
  constructor
  · rw [restartRun_on_saved E cfg cfg.highMemory readGroups _ chroms files _ hsave unmapped rfl,
      files_reproduce_records E cfg readGroups chroms files unmapped _ hE hsave hdom hpen hlen, downstream_eq_keyed,
      keyedOf_eq_stamped E chroms hst]
  · unfold savingRun
    rw [hsave]
    simp only [Option.map_map, Function.comp_def]
    rw [files_reproduce_records E cfg readGroups chroms files unmapped _ hE hsave hdom hpen hlen, downstream_eq_keyed,
      keyedOf_eq_stamped E chroms hst]

/-! ## 5. the memory modes of the saving run -/

/-- **memory_modes_same_files**: on the representable domain with non-negative first penalties, the saving run writes
    the same dumps and the same multimapper files with and without `--high_memory` – although one resolver works from
    the unquantised objects in memory and the other from the abridged re-read of the dumps -/
theorem memory_modes_same_files (E : Env) (readGroups : List String) (ua : Nat) (chroms : List ChrIn)
    (filesT filesF : Saved)
    (hT : collectReads E true readGroups ua chroms = some filesT)
    (hF : collectReads E false readGroups ua chroms = some filesF)
    (hdom : InDomain chroms) (hpen : MemoryModeOk true chroms) : filesT.chrs = filesF.chrs := by
  obtain ⟨savesT, dT, resT, mmsT, infoT, hsT, hdT, hrT, _, hmT, _, rfl⟩ := collectReads_unpack hT
  obtain ⟨savesF, dF, resF, mmsF, infoF, hsF, hdF, hrF, _, hmF, _, rfl⟩ := collectReads_unpack hF
  have e1 : savesT = savesF := by rw [hsT] at hsF; exact Option.some.inj hsF
  have hd1 := perReadLists_spec E true chroms savesT dT hsT hdom hpen hdT
  have hd2 := perReadLists_spec E false chroms savesF dF hsF hdom (fun h => by cases h) hdF
  have e2 : resT = resF := by
    rw [hd1] at hrT
    rw [hd2] at hrF
    rw [listsOf_fst] at hrT hrF
    simp only [resolveDict, if_true, Bool.false_eq_true, if_false] at hrT hrF
    rw [IsoVerif.Props.C08Flow.memory_paths_agree .take_best (streamOf E chroms), hrT] at hrF
    exact Option.some.inj hrF
  have e3 : mmsT = mmsF := by rw [e2, hmF] at hmT; exact (Option.some.inj hmT).symm
  simp only [e1, e3]

/-- no record enters resolution as `suspended` (the assigner never produces the type; only the resolver does) -/
def NoSuspendedInput (chroms : List ChrIn) : Prop :=
  ∀ c ∈ chroms, ∀ g ∈ c.groups, ∀ r ∈ g.2, r.assignmentType ≠ .suspended

/-- **memory_modes_same_saved_files**: if moreover no input record is `suspended`, ALL saved files are equal in the two
    memory modes, the `_info` totals included (`--high_memory` counts the reads seen once inside
    `resolve_multimappers`, the default mode in `prepare_multimapper_dict`): a restart cannot tell which mode saved -/
theorem memory_modes_same_saved_files (E : Env) (readGroups : List String) (ua : Nat) (chroms : List ChrIn)
    (filesT filesF : Saved)
    (hT : collectReads E true readGroups ua chroms = some filesT)
    (hF : collectReads E false readGroups ua chroms = some filesF)
    (hdom : InDomain chroms) (hpen : MemoryModeOk true chroms) (hNS : NoSuspendedInput chroms) :
    filesT = filesF := by
  have hchrs := memory_modes_same_files E readGroups ua chroms filesT filesF hT hF hdom hpen
  obtain ⟨savesT, dT, resT, mmsT, infoT, hsT, hdT, hrT, _, _, hiT, rfl⟩ := collectReads_unpack hT
  obtain ⟨savesF, dF, resF, mmsF, infoF, hsF, hdF, hrF, _, _, hiF, rfl⟩ := collectReads_unpack hF
  have hd1 := perReadLists_spec E true chroms savesT dT hsT hdom hpen hdT
  have hd2 := perReadLists_spec E false chroms savesF dF hsF hdom (fun h => by cases h) hdF
  have e2 : resT = resF := by
    rw [hd1] at hrT
    rw [hd2] at hrF
    rw [listsOf_fst] at hrT hrF
    simp only [resolveDict, if_true, Bool.false_eq_true, if_false] at hrT hrF
    rw [IsoVerif.Props.C08Flow.memory_paths_agree .take_best (streamOf E chroms), hrT] at hrF
    exact Option.some.inj hrF
  have hs : ∀ r ∈ streamOf E chroms, r.atype ≠ .suspended := by
    intro r hr
    obtain ⟨c, hc, hrc⟩ := List.mem_flatMap.mp hr
    rw [streamOf_chr] at hrc
    obtain ⟨x, hx, rfl⟩ := List.mem_map.mp hrc
    obtain ⟨g, hg, hxg⟩ := List.mem_flatMap.mp hx
    exact hNS c hc g hg x hxg
  have e3 : infoT = infoF := by
    rw [hd1, e2, infoOf_memory_modes readGroups (streamOf E chroms) resF hs, ← hd2, hiF] at hiT
    exact (Option.some.inj hiT).symm
  simp only at hchrs
  rw [e3, hchrs]

/-- outside that domain the two inputs of the resolver DO differ: a first penalty in (−2^-20, 0) is accepted by the
    writer (it is stored as 0), the object in memory keeps the negative value, the abridged reader returns 0.
    (The assigner never produces a negative penalty; kept visible as the edge of `MemoryModeOk`.) -/
def exNegRA : ReadAssignment :=
  { exRA with isoformMatches := [{ exMatch with penaltyScore := mkRat (-1) 2097152 }] }

theorem memory_mode_negative_penalty_witness :
    (writeReadAssignment exNegRA).isSome = true ∧ exNegRA.exons ≠ [] ∧ ¬ NonNegFirst exNegRA ∧
    (basicOf exNegRA).penaltyScore = mkRat (-1) 2097152 ∧ (basicOf (quantRA exNegRA)).penaltyScore = 0 ∧
    basicOf (quantRA exNegRA) ≠ basicOf exNegRA := by
  refine ⟨by decide +kernel, by decide, ?_, by decide +kernel, by decide +kernel, by decide +kernel⟩
  intro h
  have := h _ rfl
  exact absurd this (by decide +kernel)

/-! ## 6. a concrete experiment: non-vacuity, and the `__not_aligned` line -/

/-- interning by a table (what the harness does): position in the table, and back -/
def tableEnv (tbl : List String) (derive : GeneHeader → List (Nat × Nat)) : Env :=
  { intern := fun s => tbl.idxOf s, name := fun n => tbl[n]?.getD "", code := fun r => r.assignmentId.toNat,
    derive := derive }

def exTable : List String := ["c1", "c2", "ra", "rb", "G1", "G2", "T1", "T2"]

/-- T1 has one intron, T2 none (what the gene database says about the genes of the header) -/
def exEnv : Env := tableEnv exTable (fun _ => [(6, 1), (7, 0)])

def mkRA (aid : Int) (rid chr g t : String) (mm : Bool) (pen : Rat) : ReadAssignment :=
  { exRA with assignmentId := aid, readId := rid, chrId := chr, multimapper := mm, assignmentType := .«unique»,
              geneAssignmentType := .«unique»,
              isoformMatches := [{ exMatch with assignedGene := some g, assignedTranscript := some t,
                                                penaltyScore := pen }] }

/-- two chromosomes; read `ra` has its primary alignment on c1 (T1 of G1, penalty 0.1 – not a multiple of 2^-20) and a
    secondary one on c2; read `rb` has one alignment on c2 -/
def exChroms : List ChrIn :=
  [{ name := "c1", groups := [({ exHeader with chrId := "c1", geneIds := ["G1"] }, [mkRA 1 "ra" "c1" "G1" "T1" false (mkRat 1 10)])] },
   { name := "c2", groups := [({ exHeader with chrId := "c2", geneIds := ["G2"] },
                                [mkRA 2 "ra" "c2" "G2" "T2" true 0, mkRA 3 "rb" "c2" "G2" "T2" false (mkRat 7 10)]),
                               ({ exHeader with chrId := "c2", geneIds := [] }, [])] }]

def exCfg (hm : Bool) : Config :=
  { highMemory := hm, geneStrategy := .unique_only, transcriptStrategy := .unique_only, le := fun a b => decide (a ≤ b),
    norm := .simple, isStatLike := fun _ => false,
    completeGenes := fun c => if c = 0 then [4] else [5], completeTranscripts := fun c => if c = 0 then [6] else [7],
    mergeOrder := [0, 1] }

theorem mkRA_dom (aid : Int) (rid chr g t : String) (mm : Bool) (pen : Rat)
    (hg : g.utf8ByteSize ≠ ser_NONE_STR_LEN) (ht : t.utf8ByteSize ≠ ser_NONE_STR_LEN) :
    RADom (mkRA aid rid chr g t mm pen) ∧ (mkRA aid rid chr g t mm pen).exons ≠ [] := by
  have h1 : (exRA.additionalInfo.map (·.1)).Nodup := by decide +kernel
  have h2 : (exRA.additionalAttributes.map (·.1)).Nodup := by decide +kernel
  have h3 : exRA.correctedIntrons = junctionsFromBlocks exRA.correctedExons := by decide +kernel
  have h4 : exRA.exons ≠ [] := by decide
  refine ⟨⟨?_, h1, h2, h3⟩, h4⟩
  intro m hm
  simp only [mkRA, List.mem_cons, List.not_mem_nil, or_false] at hm
  subst hm
  exact ⟨fun s hs => by cases hs; exact hg, fun s hs => by cases hs; exact ht⟩

-- the hypotheses of `reuse_reproduces_outputs` are met by the concrete experiment, in both memory modes ...
-- (named: Props/C15Printers.lean uses it for the non-vacuity of `files_reproduce_printed`)
theorem exChroms_hyps : InternOk exEnv exChroms ∧ InDomain exChroms ∧ MemoryModeOk true exChroms ∧ MemoryModeOk false exChroms ∧
    (streamOf exEnv exChroms).length < ser_TERMINATION_INT ∧ ChrStamped exEnv exChroms ∧
    (collectReads exEnv true ["NA"] 0 exChroms).isSome = true ∧
    (collectReads exEnv false ["NA"] 0 exChroms).isSome = true := by
  have hI : InternOk exEnv exChroms := by
    show ∀ s ∈ allStrings exChroms, exEnv.name (exEnv.intern s) = s
    decide +kernel
  refine ⟨hI, ?_, ?_, (fun h => by cases h), by decide +kernel, ?_, by decide +kernel, by decide +kernel⟩
  · intro c hc g hg r hr
    simp only [exChroms, List.mem_cons, List.not_mem_nil, or_false] at hc
    rcases hc with rfl | rfl
    · simp only [List.mem_cons, List.not_mem_nil, or_false] at hg
      subst hg
      simp only [List.mem_cons, List.not_mem_nil, or_false] at hr
      subst hr
      exact mkRA_dom _ _ _ _ _ _ _ (by decide +kernel) (by decide +kernel)
    · simp only [List.mem_cons, List.not_mem_nil, or_false] at hg
      rcases hg with rfl | rfl
      · simp only [List.mem_cons, List.not_mem_nil, or_false] at hr
        rcases hr with rfl | rfl <;> exact mkRA_dom _ _ _ _ _ _ _ (by decide +kernel) (by decide +kernel)
      · cases hr
  · intro _ c hc g hg r hr m hm
    simp only [exChroms, List.mem_cons, List.not_mem_nil, or_false] at hc
    rcases hc with rfl | rfl
    · simp only [List.mem_cons, List.not_mem_nil, or_false] at hg
      subst hg
      simp only [List.mem_cons, List.not_mem_nil, or_false] at hr
      subst hr
      cases hm
      decide +kernel
    · simp only [List.mem_cons, List.not_mem_nil, or_false] at hg
      rcases hg with rfl | rfl
      · simp only [List.mem_cons, List.not_mem_nil, or_false] at hr
        rcases hr with rfl | rfl <;> (cases hm; decide +kernel)
      · cases hr
  · intro i c hi
    match i, hi with
    | 0, hi => cases hi; refine ⟨by decide +kernel, ?_⟩; intro g hg r hr
               simp only [List.mem_cons, List.not_mem_nil, or_false] at hg; subst hg
               simp only [List.mem_cons, List.not_mem_nil, or_false] at hr; subst hr; rfl
    | 1, hi => cases hi; refine ⟨by decide +kernel, ?_⟩; intro g hg r hr
               simp only [List.mem_cons, List.not_mem_nil, or_false] at hg
               rcases hg with rfl | rfl
               · simp only [List.mem_cons, List.not_mem_nil, or_false] at hr
                 rcases hr with rfl | rfl <;> rfl
               · cases hr
    | n + 2, hi => cases hi

-- ... also `NoSuspendedInput` (hypothesis of `memory_modes_same_saved_files`)
example : NoSuspendedInput exChroms := by
  intro c hc g hg r hr
  simp only [exChroms, List.mem_cons, List.not_mem_nil, or_false] at hc
  rcases hc with rfl | rfl
  · simp only [List.mem_cons, List.not_mem_nil, or_false] at hg
    subst hg
    simp only [List.mem_cons, List.not_mem_nil, or_false] at hr
    subst hr
    decide
  · simp only [List.mem_cons, List.not_mem_nil, or_false] at hg
    rcases hg with rfl | rfl
    · simp only [List.mem_cons, List.not_mem_nil, or_false] at hr
      rcases hr with rfl | rfl <;> decide
    · cases hr

/-- ... and everything computes on it: the verdict file of c2 holds the suspended secondary alignment of `ra`, the
    restart drops it, both memory modes write the same files, T1 and T2 count one read each, and the loaded `_info`
    says 2 assignments -/
example :
    ((collectReads exEnv false ["NA"] 0 exChroms).bind (restartRun exEnv (exCfg false) ["c1", "c2"])).map (fun o =>
        (o.info.totalAssignments, o.info.polyaAssignments, o.info.readGroups)) = some (2, 0, ["NA"]) ∧
    ((collectReads exEnv false ["NA"] 0 exChroms).bind (restartRun exEnv (exCfg false) ["c1", "c2"])).map (fun o =>
        o.out.chrs.map (fun c => c.records.map (fun p => (p.basic.readId, p.basic.aid)))) = some [[(2, 1)], [(3, 3)]] ∧
    ((collectReads exEnv false ["NA"] 0 exChroms).bind (restartRun exEnv (exCfg false) ["c1", "c2"])).map (fun o =>
        (o.out.transcriptCounts.rows, o.out.geneCounts.rows, o.out.geneCounts.notAligned)) =
      some ([(6, 100), (7, 100)], [(4, 100), (5, 100)], 0) ∧
    collectReads exEnv true ["NA"] 0 exChroms = collectReads exEnv false ["NA"] 0 exChroms ∧
    ((collectReads exEnv false ["NA"] 0 exChroms).bind (fun f => f.chrs[1]?.bind (fun c =>
        (loadVerdicts exEnv "c2" c.multimappers).map (fun d => d.map (fun kv => (kv.1, kv.2.map (fun r => (r.aid, r.atype)))))))) =
      some [(2, [(2, .suspended)])] := by
  refine ⟨by decide +kernel, by decide +kernel, by decide +kernel, by decide +kernel, by decide +kernel⟩

/-- the concrete experiment with 5 unaligned reads (2 + 3 in two BAM files): the saving run prints `__not_aligned 5`
    and so does the run restarted from its files (fix cc73ffc) -/
example :
    (savingRun exEnv (exCfg false) ["NA"] [2, 3] exChroms).map (fun x =>
        (x.2.out.geneCounts.notAligned, x.2.out.transcriptCounts.notAligned)) = some (5, 5) ∧
    ((savingRun exEnv (exCfg false) ["NA"] [2, 3] exChroms).bind (fun x =>
        (restartRun exEnv (exCfg false) ["c1", "c2"] x.1).map (fun o =>
          (o.out.geneCounts.notAligned, o.out.transcriptCounts.notAligned)))) = some (5, 5) := by
  refine ⟨by decide +kernel, by decide +kernel⟩

/-- **restart_not_aligned_witness** (the defect repaired by fix cc73ffc, replayed on the real pipeline by the oracle,
    which now expects the repaired answer): the saving run saw 5 unaligned reads and prints `__not_aligned 5`; the
    restart as it was BEFORE the fix (`restartRunOrig`) prints `__not_aligned 0` – the number was not in the saved files,
    and a restart has no BAM file to count it from.  Every other modelled output agreed
    (`restart_orig_is_second_half`). -/
theorem restart_not_aligned_witness :
    (savingRun exEnv (exCfg false) ["NA"] [2, 3] exChroms).map (fun x =>
        (x.2.out.geneCounts.notAligned, x.2.out.transcriptCounts.notAligned)) = some (5, 5) ∧
    ((savingRun exEnv (exCfg false) ["NA"] [2, 3] exChroms).bind (fun x =>
        (restartRunOrig exEnv (exCfg false) ["c1", "c2"] x.1).map (fun o =>
          (o.out.geneCounts.notAligned, o.out.transcriptCounts.notAligned)))) = some (0, 0) := by
  refine ⟨by decide +kernel, by decide +kernel⟩

end IsoVerif.Props.C15Reuse
