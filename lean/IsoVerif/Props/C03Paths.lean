/-
C03 — the assumption interface "intron paths handed to the exon constructor are strictly increasing" is discharged:
every novel spliced model that the modelled `construct_fl_isoforms` emits from a path enumerated on the modelled intron
graph (any operation history, the code's own `thread_ends` / `thread_starts`) has a sorted, pairwise disjoint,
well-formed exon list — WITHOUT a monotone-path hypothesis.  Composition of C04's `paths_monotone` (graph vertices are read
introns; the length guard of `construct_fl_isoforms`) with C03's `fl_guard_gives_wellformed` /
`novel_spliced_model_wellformed`.  Property theorems only.
-/
import IsoVerif.Props.C03Build
import IsoVerif.Props.C04Paths
import IsoVerif.Props.C04Terminals

namespace IsoVerif.Props.C03Paths
open IsoVerif.Gen IsoVerif.Model IsoVerif.Lemmas
open IsoVerif.Model.C04 (Read Op Graph FLEnv FLState Decision Strand runOps obsIntrons constructFL fillGraphPaths
  isIntronVertex)
open IsoVerif.Props.C04Graph (Observed)
open IsoVerif.Props.C04 (pathInsOf)
open IsoVerif.Props.C04Paths (paths_monotone)

/-- **graph_paths_give_wellformed_models.** Reads with non-empty introns (`hwf`, the interface to C14) → collector →
    `construct()` → ANY history of graph operations → the code's enumeration of full-length paths → `construct_fl_isoforms`
    (any assigner verdicts, canonical-site table, id source): for every novel model emitted there are a starting and a
    terminal vertex `s`, `e` of the graph such that the two modelled statements of C03 (`get_exons` + length guard,
    `flNovelExons`) produce exactly the model's exon list from its intron chain, the chain is sorted, disjoint and strictly
    inside `[s.pos, e.pos]`, and the exons are sorted, pairwise disjoint, well-formed, one more than the introns, start at
    `s.pos`, end at `e.pos`, and have exactly the chain as junctions.  No monotonicity of paths or edges is assumed (the
    edges are in fact not monotone: `C04Paths.edge_order_witness`). -/
theorem graph_paths_give_wellformed_models (known : List Iv) (δ minCount : Int) (reads : List Read) (ops : List Op)
    (g0 g : Graph) (hwf : ∀ r ∈ reads, ∀ i ∈ r.introns, i.1 ≤ i.2)
    (h0 : Graph.constructed known δ reads minCount = some g0)
    (h : runOps (obsIntrons reads) g0 ops = some g)
    (delta apa : Int) (req : Bool) (verdict : List Iv → Bool × String)
    (env : FLEnv) (sd : Iv → Strand) (next : Nat → Nat) (st st' : FLState) (ds : List Decision)
    (hrun : constructFL env sd next st (pathInsOf (fillGraphPaths g delta apa req reads) verdict) = some (st', ds)) :
    ∀ d ∈ ds, ∀ m, d = Decision.novelAdded m →
      ∃ s e : Iv, (∃ k, (k, s) ∈ g.inc) ∧ (∃ k, (k, e) ∈ g.out) ∧ isIntronVertex s = false ∧ isIntronVertex e = false ∧
        C03.flNovelExons (s.2, e.2) m.intronPath = some m.exons ∧
        SD m.intronPath ∧ WFl m.intronPath ∧ (∀ c ∈ m.intronPath, s.2 < c.1 ∧ c.2 < e.2) ∧
        SD m.exons ∧ WFl m.exons ∧ m.exons.length = m.intronPath.length + 1 ∧
        (∀ x ∈ m.exons, x.1 = s.2 ∨ ∃ c ∈ m.intronPath, x.1 = c.2 + 1) ∧
        (∀ x ∈ m.exons, x.2 = e.2 ∨ ∃ c ∈ m.intronPath, x.2 = c.1 - 1) := by
  intro d hd m hm
  obtain ⟨s, e, hs, he, ⟨first, _, hsin⟩, ⟨last, _, hein⟩, hex, hcnt, hmono, _⟩ :=
    paths_monotone known δ minCount reads ops g0 g hwf h0 h delta apa req verdict env sd next st st' ds hrun d hd m hm
  have hw : WFl m.intronPath := fun c hc => (hmono.1 c hc).1
  -- the guard passed: C04's loop body computed `get_exons` and found one exon more than introns
  have hlen : (getExons (s.2, e.2) m.intronPath).length = m.intronPath.length + 1 := by rw [← hex]; exact hcnt
  have hfl : C03.flNovelExons (s.2, e.2) m.intronPath = some m.exons := by
    unfold C03.flNovelExons
    simp only [hlen, ne_eq, not_true_eq_false, if_false, hex]
  obtain ⟨p1, p2, p3, p4, p5, p6, p7⟩ := C03Build.fl_guard_gives_wellformed (s.2, e.2) m.intronPath m.exons hfl hw
  refine ⟨s, e, ⟨first, hsin⟩, ⟨last, hein⟩, ?_, ?_, hfl, p1, hw, p5, p2, p3, p4, p6, p7⟩
  · simp only [starting_vertex_codes, VERTEX_polyt, VERTEX_read_start, List.mem_cons, List.not_mem_nil, or_false] at hs
    simp only [isIntronVertex, decide_eq_false_iff_not]; omega
  · simp only [terminal_vertex_codes, VERTEX_polya, VERTEX_read_end, List.mem_cons, List.not_mem_nil, or_false] at he
    simp only [isIntronVertex, decide_eq_false_iff_not]; omega

/-- **novel_models_from_graph_wellformed.** The clause "exons sorted, non-overlapping, `1 <= start <= end <= chromosome
    length`" for novel spliced transcripts, from the reads to the printed exon list: if the terminal vertices attached to the
    graph carry positions inside the chromosome `[1, L]` (they are read ends or annotated transcript ends), then for every
    novel model emitted, end correction with ANY assigned reads succeeds and yields exons that are sorted, pairwise
    disjoint, well-formed, inside `[1, L]`, pass `validate_exons`, and still have the model's intron chain.  This discharges
    the `exons_ok` field of C03's `GoodHistory` for novel spliced models; the monotone-path assumption of
    `novel_spliced_model_wellformed` is gone (what remains assumed: `hwf`, C14, and the terminal positions, `hterm`). -/
theorem novel_models_from_graph_wellformed (known : List Iv) (δ minCount : Int) (reads : List Read) (ops : List Op)
    (g0 g : Graph) (hwf : ∀ r ∈ reads, ∀ i ∈ r.introns, i.1 ≤ i.2)
    (h0 : Graph.constructed known δ reads minCount = some g0)
    (h : runOps (obsIntrons reads) g0 ops = some g)
    (L : Int) (hterm : ∀ k t, ((k, t) ∈ g.out ∨ (k, t) ∈ g.inc) → isIntronVertex t = false → 1 ≤ t.2 ∧ t.2 ≤ L)
    (delta apa : Int) (req : Bool) (verdict : List Iv → Bool × String)
    (env : FLEnv) (sd : Iv → Strand) (next : Nat → Nat) (st st' : FLState) (ds : List Decision)
    (hrun : constructFL env sd next st (pathInsOf (fillGraphPaths g delta apa req reads) verdict) = some (st', ds))
    (assigned : List Iv) (apaCorr : Int) :
    ∀ d ∈ ds, ∀ m, d = Decision.novelAdded m →
      ∃ l, C03.correctEnds m.exons assigned apaCorr = some l ∧ SD l ∧ WFl l ∧ C03.validateExons l = true ∧
        (∀ x ∈ l, 1 ≤ x.1 ∧ x.2 ≤ L) ∧ junctionsFromBlocks l = m.intronPath := by
  intro d hd m hm
  obtain ⟨s, e, ⟨k1, hs⟩, ⟨k2, he⟩, hsi, hei, hfl, hsd, hw, hin, _, _, hlen, _, _⟩ :=
    graph_paths_give_wellformed_models known δ minCount reads ops g0 g hwf h0 h delta apa req verdict env sd next st st' ds
      hrun d hd m hm
  have hs' := hterm k1 s (Or.inr hs) hsi
  have he' := hterm k2 e (Or.inl he) hei
  have hex : m.exons = getExons (s.2, e.2) m.intronPath := by
    unfold C03.flNovelExons at hfl
    simp only at hfl
    split at hfl
    · cases hfl
    · simpa using hfl.symm
  have hne : getExons (s.2, e.2) m.intronPath ≠ [] := by
    rw [← hex]; intro hnil; rw [hnil] at hlen; simp at hlen
  obtain ⟨l, hl, a1, a2, a3, a4, a5⟩ := C03Build.novel_spliced_model_wellformed (s.2, e.2) m.intronPath assigned apaCorr L
    (IsoVerif.Lemmas.C03.SD_startsMono _ hsd hw) hw hs'.1 he'.2
    (fun c hc => by have := hin c hc; have := hw c hc; omega) hne
  refine ⟨l, by rw [hex]; exact hl, a1, a2, a3, a4, ?_⟩
  rw [a5]
  -- junctions of the uncorrected exon list are the chain (C04: `novel_model_chain`)
  have hg : IsoVerif.Lemmas.C04.PathGapped s.2 m.intronPath e.2 :=
    IsoVerif.Lemmas.C04.pathGapped_of_getExons_length _ _ _ (fun i hi => hw i hi) (by rw [← hex]; exact hlen)
  exact IsoVerif.Lemmas.C04.junctions_getExons _ _ _ hg

/-- **novel_models_wellformed_end_to_end.** The same with the terminal vertices inside the model: reads whose introns
    are non-empty with non-negative coordinates and whose exons are well-formed inside the chromosome `[1, L]`, annotated
    transcript ends inside `[1, L]`; `IntronGraph.__init__` = `process`, `construct()`, ANY non-attaching history (`simplify()`),
    the modelled `attach_terminal_positions`; the code's path enumeration; `construct_fl_isoforms` with any verdicts; end
    correction with any assigned reads.  Every novel spliced model has exons that are sorted, pairwise disjoint,
    well-formed, inside `[1, L]`, pass `validate_exons` and have the model's intron chain.  No hypothesis on paths, edges or
    terminal positions is left: the clause "exons sorted, non-overlapping, `1 <= start <= end <= chromosome length`" for novel
    spliced transcripts rests on the input interface alone (read coordinates: C14 / C16; annotation inside the chromosome). -/
theorem novel_models_wellformed_end_to_end (known : List Iv) (δ minCount : Int) (reads : List Read) (ops : List Op)
    (g0 g1 g' : Graph) (p : IsoVerif.Model.C04.TermParams) (L : Int)
    (hwf : ∀ r ∈ reads, ∀ i ∈ r.introns, i.1 ≤ i.2) (hpos : ∀ v, Observed reads v → 0 ≤ v.1)
    (hreads : ∀ r ∈ reads, ∀ e ∈ r.exons, 1 ≤ e.1 ∧ e.1 ≤ e.2 ∧ e.2 ≤ L)
    (hke : ∀ e ∈ p.knownEnds, ∀ x ∈ e.2, 1 ≤ x ∧ x ≤ L) (hks : ∀ e ∈ p.knownStarts, ∀ x ∈ e.2, 1 ≤ x ∧ x ≤ L)
    (h0 : Graph.constructed known δ reads minCount = some g0)
    (hna : ∀ op ∈ ops, IsoVerif.Lemmas.C04.notAttach op = true) (h1 : runOps (obsIntrons reads) g0 ops = some g1)
    (h2 : g1.attachTerminals p reads = some g')
    (delta apa : Int) (req : Bool) (verdict : List Iv → Bool × String)
    (env : FLEnv) (sd : Iv → Strand) (next : Nat → Nat) (st st' : FLState) (ds : List Decision)
    (hrun : constructFL env sd next st (pathInsOf (fillGraphPaths g' delta apa req reads) verdict) = some (st', ds))
    (assigned : List Iv) (apaCorr : Int) :
    ∀ d ∈ ds, ∀ m, d = Decision.novelAdded m →
      ∃ l, C03.correctEnds m.exons assigned apaCorr = some l ∧ SD l ∧ WFl l ∧ C03.validateExons l = true ∧
        (∀ x ∈ l, 1 ≤ x.1 ∧ x.2 ≤ L) ∧ junctionsFromBlocks l = m.intronPath := by
  obtain ⟨to, ti, hn1⟩ := IsoVerif.Props.C04Terminals.terminal_vertices_spec known δ minCount reads ops g0 g1 g' p L hpos hreads
    hke hks h0 hna h1 h2
  obtain ⟨aops, _, hrun2⟩ := IsoVerif.Props.C04Terminals.attach_is_history (obsIntrons reads) g1 g' p reads hn1 h2
  have hall : runOps (obsIntrons reads) g0 (ops ++ aops) = some g' := by
    rw [IsoVerif.Lemmas.C04.runOps_append, h1]; exact hrun2
  have hterm : ∀ k t, ((k, t) ∈ g'.out ∨ (k, t) ∈ g'.inc) → isIntronVertex t = false → 1 ≤ t.2 ∧ t.2 ≤ L := by
    intro k t hkt hti
    rcases hkt with hkt | hkt
    · exact (to k t hkt hti).2.2
    · exact (ti k t hkt hti).2.2
  exact novel_models_from_graph_wellformed known δ minCount reads (ops ++ aops) g0 g' hwf h0 hall L hterm delta apa req verdict
    env sd next st st' ds hrun assigned apaCorr

/-- non-vacuity: the read set `e2eReads` of C04 meets `hwf`; its graph (two attached terminal vertices, positions inside
    `[1, 1000]`: `hterm`) yields through the code's path enumeration one novel model, whose exons end correction (assigned
    read spans as C03 models them) keeps sorted, disjoint and with the reads' intron chain -/
example : (∀ r ∈ IsoVerif.Props.C04.e2eReads, ∀ i ∈ r.introns, i.1 ≤ i.2) ∧
    ((Graph.constructed [] 0 IsoVerif.Props.C04.e2eReads 1).bind (fun g0 =>
      (runOps (obsIntrons IsoVerif.Props.C04.e2eReads) g0 [.attachOut (100, 200) (VERTEX_polya, 400),
          .attachInc (50, 90) (VERTEX_read_start, 10)]).bind (fun g =>
        (constructFL (IsoVerif.Props.C04.exEnv .only_stranded) IsoVerif.Props.C04.exSd (· + 1) ⟨[], 0, IsoVerif.Model.C04.Store.empty⟩
          (pathInsOf (fillGraphPaths g 0 10 true IsoVerif.Props.C04.e2eReads) (fun _ => (false, "")))).map (fun r =>
            ((g.out ++ g.inc).all (fun p => isIntronVertex p.2 || (decide (1 ≤ p.2.2) && decide (p.2.2 ≤ 1000))),
             r.2.map (fun d => match d with
               | .novelAdded m => C03.flNovelExons (10, 400) m.intronPath == some m.exons
               | _ => false),
             r.2.map (fun d => match d with
               | .novelAdded m => (C03.correctEnds m.exons [(12, 400), (12, 400), (14, 398)] 1).getD []
               | _ => []))))))
    = some (true, [true], [[(12, 49), (91, 99), (201, 400)]]) := by
  constructor
  · decide
  · decide +kernel

/-- non-vacuity of the end-to-end theorem: hypotheses met by `e2eReads'` (`L = 1000`), and the chain with the MODELLED
    attachment of terminal vertices emits the novel model and corrects its ends -/
example : (∀ r ∈ IsoVerif.Props.C04Terminals.e2eReads', (∀ i ∈ r.introns, i.1 ≤ i.2 ∧ 0 ≤ i.1) ∧
      ∀ e ∈ r.exons, 1 ≤ e.1 ∧ e.1 ≤ e.2 ∧ e.2 ≤ 1000) ∧
    ((Graph.constructed [] 0 IsoVerif.Props.C04Terminals.e2eReads' 1).bind (fun g0 =>
      (g0.attachTerminals IsoVerif.Props.C04Terminals.exTermParams IsoVerif.Props.C04Terminals.e2eReads').bind (fun g =>
        (constructFL (IsoVerif.Props.C04.exEnv .only_stranded) IsoVerif.Props.C04.exSd (· + 1) ⟨[], 0, IsoVerif.Model.C04.Store.empty⟩
          (pathInsOf (fillGraphPaths g 0 10 true IsoVerif.Props.C04Terminals.e2eReads') (fun _ => (false, "")))).map (fun r =>
            r.2.map (fun d => match d with
               | .novelAdded m => (C03.correctEnds m.exons [(12, 400), (12, 400), (14, 398)] 1).getD []
               | _ => [])))))
    = some [[(12, 49), (91, 99), (201, 400)]] := by
  constructor
  · decide
  · decide +kernel

end IsoVerif.Props.C03Paths
