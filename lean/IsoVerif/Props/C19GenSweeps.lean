/-
C19 — the two-pointer sweeps `read_coverage_fraction`, `jaccard_similarity`, `merge_ranges` as REGENERATED FROM THE SOURCE on every run (`Gen/Loops.lean`, written by `harness/translate.py`).
Part 1: refinement `Gen.f args = Model.f args` for ALL inputs (no sortedness / well-formedness; error cases included; the
emitted fuel bounds suffice).  Part 2: the C19 theorems about the hand model restated over the generated definitions.
An edit of the Python loop re-generates `Gen.f` and re-opens these proofs.  Overview: Props/C19Gen.lean.
-/
import IsoVerif.Props.C19Lists
import IsoVerif.Lemmas.GenSweeps
import IsoVerif.Props.C19GenSums

namespace IsoVerif.Props.C19Gen
open IsoVerif.Gen IsoVerif.Model IsoVerif.Lemmas

/-! ## Part 1 — refinement: generated definition = hand model, for all inputs -/

/-- `read_coverage_fraction`: two-pointer `while` with fuel `len₁ + len₂ + 1` = the model's sweep; the result is the
    exact fraction, `none` = ZeroDivisionError -/
theorem read_coverage_fraction_refines (read iso : List Iv) :
    Gen.read_coverage_fraction read iso = readCoverageFraction read iso :=
  GenLoops.read_coverage_fraction_eq read iso

/-- `jaccard_similarity`: main loop + the two tail loops, with the Python lists `included1/2` (set by index) shown to
    carry exactly the model's two Boolean flags (`GenLoops.IncInv`); `none` = either `assert` fails -/
theorem jaccard_similarity_refines (l1 l2 : List Iv) :
    Gen.jaccard_similarity l1 l2 = jaccardSweep l1 l2 :=
  GenLoops.jaccard_similarity_eq l1 l2

/-- `merge_ranges`: as above, and the Python list `union` (`append`, `union[-1]` read and overwritten) is the model's
    accumulator reversed; `none` = an `assert` fails or `union[-1]` hits an empty list -/
theorem merge_ranges_refines (l1 l2 : List Iv) :
    Gen.merge_ranges l1 l2 = mergeRanges l1 l2 :=
  GenLoops.merge_ranges_eq l1 l2

/-- the emitted fuel bounds (shown sufficient by the refinement theorems above) -/
theorem fuel_bounds_sweeps (l1 l2 : List Iv) :
    read_coverage_fraction.fuel1 l1 l2 = l1.length + l2.length + 1 ∧
    jaccard_similarity.fuel1 l1 l2 = l1.length + l2.length + 1 ∧ jaccard_similarity.fuel2 l1 l2 = l1.length + 1 ∧
    jaccard_similarity.fuel3 l1 l2 = l2.length + 1 ∧
    merge_ranges.fuel1 l1 l2 = l1.length + l2.length + 1 ∧ merge_ranges.fuel2 l1 l2 = l1.length + 1 ∧
    merge_ranges.fuel3 l1 l2 = l2.length + 1 := ⟨rfl, rfl, rfl, rfl, rfl, rfl, rfl⟩

/-! ## Part 2 — theorems over the generated definitions -/

/-- `read_coverage_fraction` = |read ∩ isoform| / |read|; raises exactly when the read has total length 0 -/
theorem coverage_sweep_eq (read iso : List Iv) (h1 : SD read) (h2 : SD iso) (w1 : WFl read) (w2 : WFl iso) :
    Gen.read_coverage_fraction read iso =
      if Gen.intervals_total_length read = 0 then none else some (inter read iso, Gen.intervals_total_length read) := by
  rw [read_coverage_fraction_refines, intervals_total_length_refines]
  exact C19Lists.coverage_fraction_spec read iso h1 h2 w1 w2

example : SD [(1, 5), (10, 12)] ∧ SD [(4, 11)] ∧ WFl [(1, 5), (10, 12)] ∧ WFl [(4, 11)] ∧
    Gen.read_coverage_fraction [(1, 5), (10, 12)] [(4, 11)] = some (4, 8) := by
  refine ⟨by decide, by decide, by decide, by decide, by decide +kernel⟩

/-- `jaccard_similarity` = |A ∩ B| / (|A| + |B| − |A ∩ B|); no inner assertion failure on sorted disjoint lists -/
theorem jaccard_sweep_eq (l1 l2 : List Iv) (h1 : SD l1) (h2 : SD l2) (w1 : WFl l1) (w2 : WFl l2) :
    Gen.jaccard_similarity l1 l2 =
      if Gen.intervals_total_length l1 + Gen.intervals_total_length l2 - inter l1 l2 = 0 then none
      else some (inter l1 l2, Gen.intervals_total_length l1 + Gen.intervals_total_length l2 - inter l1 l2) := by
  rw [jaccard_similarity_refines, intervals_total_length_refines, intervals_total_length_refines]
  exact C19Lists.jaccard_sweep_eq l1 l2 h1 h2 w1 w2

example : SD [(1, 5), (10, 12)] ∧ SD [(4, 11)] ∧ WFl [(1, 5), (10, 12)] ∧ WFl [(4, 11)] ∧
    Gen.jaccard_similarity [(1, 5), (10, 12)] [(4, 11)] = some (4, 12) := by
  refine ⟨by decide, by decide, by decide, by decide, by decide +kernel⟩

/-- `merge_ranges` succeeds on sorted disjoint lists (not both empty) and covers exactly the union of positions -/
theorem merge_cov (l1 l2 : List Iv) (h1 : SD l1) (h2 : SD l2) (w1 : WFl l1) (w2 : WFl l2)
    (hne : l1 ≠ [] ∨ l2 ≠ []) :
    ∃ res, Gen.merge_ranges l1 l2 = some res ∧ ∀ p, cov res p ↔ cov l1 p ∨ cov l2 p := by
  rw [merge_ranges_refines]; exact C19Lists.merge_cov l1 l2 h1 h2 w1 w2 hne

/-- … and its result is again sorted, pairwise disjoint, well formed, without nested blocks -/
theorem merge_sorted (l1 l2 : List Iv) (h1 : SD l1) (h2 : SD l2) (w1 : WFl l1) (w2 : WFl l2)
    (res : List Iv) (hres : Gen.merge_ranges l1 l2 = some res) :
    SD res ∧ WFl res ∧
      res.Pairwise (fun x y => x.1 < y.1 ∧ x.2 < y.1 ∧ contains x y = false ∧ contains y x = false ∧
        overlaps x y = false) := by
  rw [merge_ranges_refines] at hres; exact C19Lists.merge_sorted l1 l2 h1 h2 w1 w2 res hres

example : SD [(1, 5), (10, 12)] ∧ SD [(4, 11), (20, 21)] ∧ WFl [(1, 5), (10, 12)] ∧ WFl [(4, 11), (20, 21)] ∧
    Gen.merge_ranges [(1, 5), (10, 12)] [(4, 11), (20, 21)] = some [(1, 12), (20, 21)] := by
  refine ⟨by decide, by decide, by decide, by decide, by decide +kernel⟩

theorem merge_empty : Gen.merge_ranges [] [] = none := by decide +kernel

end IsoVerif.Props.C19Gen
