/-
C06 — ordered merge of the per-chromosome part files (`merge_files` of src/file_utils.py).
Property theorems only; lemmas in IsoVerif/Lemmas/C06Merge.lean.
-/
import IsoVerif.Model.Schedule
import IsoVerif.Lemmas.Schedule
import IsoVerif.Lemmas.C06Merge
import IsoVerif.Props.C06

namespace IsoVerif.Props.C06
open IsoVerif.Model.C06 IsoVerif.Lemmas.C06

/-- `re.split('(\d+)', s)` always yields text, number, text, …, text -/
theorem natural_key_alternates (s : String) : AltS (naturalKey s) := naturalKey_alt s

/-- the key lists of two file names are compared position by position between tokens of the same type:
    Python's list comparison never raises `TypeError` inside `file_names.sort(key=…)` -/
theorem natural_key_no_type_error (a b : String) : cmpKey (naturalKey a) (naturalKey b) ≠ none := by
  rw [cmpKey_eq_of_alt (naturalKey_alt a) (naturalKey_alt b)]; simp

/-- the order used by the merge is a total preorder on file names … -/
theorem natural_merge_order_total (a b : String) : keyLe a b = true ∨ keyLe b a = true := by
  rw [keyLe_iff, keyLe_iff]; exact cmpKeyT_lin.le_total _ _

theorem natural_merge_order_trans (a b c : String) (h1 : keyLe a b = true) (h2 : keyLe b c = true) :
    keyLe a c = true := by
  rw [keyLe_iff] at *; exact cmpKeyT_lin.le_trans _ _ _ h1 h2

/-- … the visiting order is sorted by it and contains every part file exactly once -/
theorem merge_order_sorted (names : List String) : (mergeOrder names).Pairwise (fun a b => keyLe a b = true) :=
  isort_pairwise keyLe natural_merge_order_trans natural_merge_order_total names

theorem merge_order_perm (names : List String) : (mergeOrder names).Perm names := isort_perm keyLe names

/-- when no two part-file names have equal keys (names that differ by more than letter case / leading zeros),
    the visiting order does not depend on the order in which the chromosomes were listed -/
theorem merge_order_of_perm {names names' : List String} (h : names.Perm names')
    (distinct : ∀ a b, a ∈ names → b ∈ names → keyLe a b = true → keyLe b a = true → a = b) :
    mergeOrder names = mergeOrder names' := by
  apply List.Perm.eq_of_pairwise (le := fun a b => keyLe a b = true)
  · intro a b ha hb
    exact distinct a b ((merge_order_perm names).mem_iff.1 ha)
      (h.mem_iff.2 ((merge_order_perm names').mem_iff.1 hb))
  · exact merge_order_sorted names
  · exact merge_order_sorted names'
  · exact (merge_order_perm names).trans (h.trans (merge_order_perm names').symm)

/-- non-vacuity / regression examples: numeric runs compare as numbers, case is ignored and ties keep the
    submission order (stable sort) -/
example : mergeOrder ["Q_chr10.gtf", "Q_chrX.gtf", "Q_chr2.gtf", "Q_chr1.gtf"]
    = ["Q_chr1.gtf", "Q_chr2.gtf", "Q_chr10.gtf", "Q_chrX.gtf"] := by decide
example : mergeOrder ["Q_chr1.gtf", "Q_Chr1.gtf", "Q_chr01.gtf"] = ["Q_chr1.gtf", "Q_Chr1.gtf", "Q_chr01.gtf"]
    ∧ mergeOrder ["Q_chr01.gtf", "Q_Chr1.gtf", "Q_chr1.gtf"] = ["Q_chr01.gtf", "Q_Chr1.gtf", "Q_chr1.gtf"] := by decide
/-- …which is why the hypothesis of `merge_order_of_perm` is needed -/
theorem merge_order_tie_witness :
    ["Q_chr1.gtf", "Q_Chr1.gtf"].Perm ["Q_Chr1.gtf", "Q_chr1.gtf"] ∧
    mergeOrder ["Q_chr1.gtf", "Q_Chr1.gtf"] ≠ mergeOrder ["Q_Chr1.gtf", "Q_chr1.gtf"] := by
  refine ⟨List.Perm.swap _ _ _, by decide⟩

/-- the part files after a pool run, as a function from file name to content -/
def fsOf (names : List String) (results : List (Option (List String))) : String → Option (List String) :=
  fun n => ((names.zip results).lookup n).join

/-- **merged (run s) = merged (run s')**: tasks whose output lines do not depend on the worker state give the same
    merged file under every schedule, every number of workers and every initial worker state -/
theorem merged_schedule_independent {σ χ : Type} (f : σ → χ → List String × σ) (chrs : List χ)
    (names : List String) (copyHeader : Bool) (headerLines : Nat)
    (H : ∀ σ₁ σ₂ c, (f σ₁ c).1 = (f σ₂ c).1)
    (st st' : Nat → σ) (s s' : List Event)
    (hs : ValidSchedule chrs.length s) (hs' : ValidSchedule chrs.length s') :
    mergeFiles (fsOf names (poolMap f chrs st s)) names copyHeader headerLines
      = mergeFiles (fsOf names (poolMap f chrs st' s')) names copyHeader headerLines := by
  rw [schedule_independent f chrs H st st' s s' hs hs']

/-! ### header lines are the lines the WRITER put there (repair `fix_merge_header`)

A part file is `header ++ records`; the caller of `merge_files` passes `header.length`.  No hypothesis on the records:
a record may start with `#` (a read id, a gene / transcript id, a contig name). -/

/-- the records of the part file `n` (nothing for a missing file) -/
def recordsOf (parts : String → Option (List String × List String)) (n : String) : List String :=
  match parts n with
  | none => []
  | some p => p.2

/-- the text of the part file `n`: header lines, then records -/
def textOf (parts : String → Option (List String × List String)) : String → Option (List String) :=
  fun n => (parts n).map (fun p => p.1 ++ p.2)

theorem mergeFiles_go_records (parts : String → Option (List String × List String)) (k : Nat)
    (hk : ∀ n p, parts n = some p → p.1.length = k) :
    ∀ (ns : List String) (i : Nat), mergeFiles.go (textOf parts) false k ns i = ns.flatMap (recordsOf parts) := by
  intro ns
  induction ns with
  | nil => intro i; simp [mergeFiles.go]
  | cons n ns ih =>
    intro i
    simp only [mergeFiles.go, textOf, recordsOf, List.flatMap_cons]
    cases hp : parts n with
    | none => simpa [textOf, recordsOf] using ih (i + 1)
    | some p =>
      have hl := hk n p hp
      have hd : (p.1 ++ p.2).drop k = p.2 := by rw [← hl, List.drop_left]
      simp only [Option.map_some, Bool.false_and, Bool.false_eq_true, if_false, hd]
      rw [ih (i + 1)]

/-- **merge_keeps_every_record** (all merges with `copy_header=False`: read_assignments.tsv, corrected_reads.bed, both
    GTFs, transcript_model_reads.tsv, the SQANTI-like table): whatever the records are, the merged lines are exactly the
    records of the parts, part by part in the visiting order - no record is taken for a header line -/
theorem merge_keeps_every_record (parts : String → Option (List String × List String)) (names : List String) (k : Nat)
    (hk : ∀ n p, parts n = some p → p.1.length = k) :
    mergeFiles (textOf parts) names false k = (mergeOrder names).flatMap (recordsOf parts) := by
  unfold mergeFiles
  exact mergeFiles_go_records parts k hk _ 0

/-- with `copy_header=True` (the counts files): the first file of the visiting order is copied whole, of every other
    file exactly the records -/
theorem merge_keeps_every_record_with_header (parts : String → Option (List String × List String))
    (names : List String) (k : Nat) (hk : ∀ n p, parts n = some p → p.1.length = k)
    (n₀ : String) (rest : List String) (h₀ : mergeOrder names = n₀ :: rest) :
    mergeFiles (textOf parts) names true k
      = (match parts n₀ with | none => [] | some p => p.1) ++ (mergeOrder names).flatMap (recordsOf parts) := by
  unfold mergeFiles
  rw [h₀]
  have tail : ∀ (ns : List String) (i : Nat), mergeFiles.go (textOf parts) true k ns (i + 1)
      = ns.flatMap (recordsOf parts) := by
    intro ns
    induction ns with
    | nil => intro i; simp [mergeFiles.go]
    | cons n ns ih =>
      intro i
      simp only [mergeFiles.go, textOf, recordsOf, List.flatMap_cons]
      cases hp : parts n with
      | none => simpa [textOf, recordsOf] using ih (i + 1)
      | some p =>
        have hl := hk n p hp
        have hd : (p.1 ++ p.2).drop k = p.2 := by rw [← hl, List.drop_left]
        have hi : (i + 1 == 0) = false := by simp
        simp only [Option.map_some, hi, Bool.and_false, Bool.false_eq_true, if_false, hd]
        rw [ih (i + 1)]
  simp only [mergeFiles.go, List.flatMap_cons]
  cases hp : parts n₀ with
  | none => simp [textOf, recordsOf, hp, tail]
  | some p => simp [textOf, recordsOf, hp, tail, List.append_assoc]

/-- non-vacuity of both statements and the failing input of the unrepaired tree in one example: the contig `#c1`
    (3 GTF-like records) and `c2`; part files without a header (`k = 0`) -/
def exHashParts : String → Option (List String × List String) := fun n =>
  if n = "S_#c1.gtf" then some ([], ["#c1\tgene", "#c1\ttranscript", "#c1\texon"])
  else if n = "S_c2.gtf" then some ([], ["c2\tgene"]) else none

example : (∀ n p, exHashParts n = some p → p.1.length = 0) ∧
    mergeFiles (textOf exHashParts) ["S_#c1.gtf", "S_c2.gtf"] false 0
      = ["#c1\tgene", "#c1\ttranscript", "#c1\texon", "c2\tgene"] := by
  refine ⟨?_, by decide⟩
  intro n p h
  unfold exHashParts at h
  split at h
  · cases h; rfl
  · split at h
    · cases h; rfl
    · cases h

/-- **merge_hash_witness**: under the header test by content of the unrepaired tree (`mergeFilesOrig`) all records of
    the contig `#c1` vanish from the merged file (replayed on the real code: harness/props/C03.py, C06.py) -/
theorem merge_hash_witness :
    mergeFilesOrig (textOf exHashParts) ["S_#c1.gtf", "S_c2.gtf"] false = ["c2\tgene"] ∧
    mergeFiles (textOf exHashParts) ["S_#c1.gtf", "S_c2.gtf"] false 0
      = ["#c1\tgene", "#c1\ttranscript", "#c1\texon", "c2\tgene"] := by
  decide +kernel

end IsoVerif.Props.C06
