/-
C06 — ordered merge of the per-chromosome part files (`merge_files` of src/file_utils.py).
Property theorems only; lemmas in IsoVerif/Lemmas/C06Merge.lean.
-/
import IsoVerif.Model.Schedule
import IsoVerif.Lemmas.Schedule
import IsoVerif.Lemmas.C06Merge
import IsoVerif.Props.C06

namespace IsoVerif.Props.C06
open IsoVerif.Model.C06 IsoVerif.Lemmas.C06

/-- `re.split('(\d+)', s)` always yields text, number, text, …, text -/
theorem natural_key_alternates (s : String) : AltS (naturalKey s) := naturalKey_alt s

/-- the key lists of two file names are compared position by position between tokens of the same type:
    Python's list comparison never raises `TypeError` inside `file_names.sort(key=…)` -/
theorem natural_key_no_type_error (a b : String) : cmpKey (naturalKey a) (naturalKey b) ≠ none := by
  rw [cmpKey_eq_of_alt (naturalKey_alt a) (naturalKey_alt b)]; simp

/-- the order used by the merge is a total preorder on file names … -/
theorem natural_merge_order_total (a b : String) : keyLe a b = true ∨ keyLe b a = true := by
  rw [keyLe_iff, keyLe_iff]; exact cmpKeyT_lin.le_total _ _

theorem natural_merge_order_trans (a b c : String) (h1 : keyLe a b = true) (h2 : keyLe b c = true) :
    keyLe a c = true := by
  rw [keyLe_iff] at *; exact cmpKeyT_lin.le_trans _ _ _ h1 h2

/-- … the visiting order is sorted by it and contains every part file exactly once -/
theorem merge_order_sorted (names : List String) : (mergeOrder names).Pairwise (fun a b => keyLe a b = true) :=
  isort_pairwise keyLe natural_merge_order_trans natural_merge_order_total names

theorem merge_order_perm (names : List String) : (mergeOrder names).Perm names := isort_perm keyLe names

/-- when no two part-file names have equal keys (names that differ by more than letter case / leading zeros),
    the visiting order does not depend on the order in which the chromosomes were listed -/
theorem merge_order_of_perm {names names' : List String} (h : names.Perm names')
    (distinct : ∀ a b, a ∈ names → b ∈ names → keyLe a b = true → keyLe b a = true → a = b) :
    mergeOrder names = mergeOrder names' := by
  apply List.Perm.eq_of_pairwise (le := fun a b => keyLe a b = true)
  · intro a b ha hb
    exact distinct a b ((merge_order_perm names).mem_iff.1 ha)
      (h.mem_iff.2 ((merge_order_perm names').mem_iff.1 hb))
  · exact merge_order_sorted names
  · exact merge_order_sorted names'
  · exact (merge_order_perm names).trans (h.trans (merge_order_perm names').symm)

/-- non-vacuity / regression examples: numeric runs compare as numbers, case is ignored and ties keep the
    submission order (stable sort) -/
example : mergeOrder ["Q_chr10.gtf", "Q_chrX.gtf", "Q_chr2.gtf", "Q_chr1.gtf"]
    = ["Q_chr1.gtf", "Q_chr2.gtf", "Q_chr10.gtf", "Q_chrX.gtf"] := by decide
example : mergeOrder ["Q_chr1.gtf", "Q_Chr1.gtf", "Q_chr01.gtf"] = ["Q_chr1.gtf", "Q_Chr1.gtf", "Q_chr01.gtf"]
    ∧ mergeOrder ["Q_chr01.gtf", "Q_Chr1.gtf", "Q_chr1.gtf"] = ["Q_chr01.gtf", "Q_Chr1.gtf", "Q_chr1.gtf"] := by decide
/-- …which is why the hypothesis of `merge_order_of_perm` is needed -/
theorem merge_order_tie_witness :
    ["Q_chr1.gtf", "Q_Chr1.gtf"].Perm ["Q_Chr1.gtf", "Q_chr1.gtf"] ∧
    mergeOrder ["Q_chr1.gtf", "Q_Chr1.gtf"] ≠ mergeOrder ["Q_Chr1.gtf", "Q_chr1.gtf"] := by
  refine ⟨List.Perm.swap _ _ _, by decide⟩

/-- the part files after a pool run, as a function from file name to content -/
def fsOf (names : List String) (results : List (Option (List String))) : String → Option (List String) :=
  fun n => ((names.zip results).lookup n).join

/-- **merged (run s) = merged (run s')**: tasks whose output lines do not depend on the worker state give the same
    merged file under every schedule, every number of workers and every initial worker state -/
theorem merged_schedule_independent {σ χ : Type} (f : σ → χ → List String × σ) (chrs : List χ)
    (names : List String) (copyHeader : Bool)
    (H : ∀ σ₁ σ₂ c, (f σ₁ c).1 = (f σ₂ c).1)
    (st st' : Nat → σ) (s s' : List Event)
    (hs : ValidSchedule chrs.length s) (hs' : ValidSchedule chrs.length s') :
    mergeFiles (fsOf names (poolMap f chrs st s)) names copyHeader
      = mergeFiles (fsOf names (poolMap f chrs st' s')) names copyHeader := by
  rw [schedule_independent f chrs H st st' s s' hs hs']

end IsoVerif.Props.C06
