/-
C09 — `--read_group file:TABLE`: the table is split into one file per chromosome (`split_read_group_table`), and the
collector of chromosome `c` groups its reads with `ReadTableGrouper(<file of c>, 0, 1, '\t', internal=True)`, i.e. with the
dictionary `load_split_table` reads from that file (repaired code, candidate patch fix_D1; Model/C09Files.lean).

`alns` is the sequence of BAM records the function iterates over: the records of the first BAM file of the sample in file
order, then those of the second, … (one `processed_reads[chr]` set per chromosome is shared by all files), each as
(read id, reference name or none).

A read with BAM records on several chromosomes (supplementary / secondary alignments, or the same read id in several
files) keeps its table group on EVERY chromosome it has a record on.  The variant that de-duplicates with one set for all
chromosomes (an earlier seeded change, `splitTableLinesGlobal`) loses the group on all but the first chromosome.
-/
import IsoVerif.Model.C09Labels
import IsoVerif.Props.C09Tables
import IsoVerif.Props.C09Files

namespace IsoVerif.Props.C09TablesChrom
open IsoVerif.Model.C09 IsoVerif.Lemmas.C09 IsoVerif.Lemmas.C09Split IsoVerif.Props.C09Tables IsoVerif.Props.C09Files

/-- the group the table assigns to a read (`NA` without a row) -/
def tableGroup (m : List (String × String)) (rid : String) : String :=
  match m.lookup rid with
  | some g => g
  | none => NA

/-- **read_keeps_group_on_every_chromosome**: for every chromosome `chr` and every read that has a BAM record on `chr`,
    the grouper built from the per-chromosome file of `chr` returns exactly the group of the whole table (`NA` when the
    table has no row for the read) — whatever other chromosomes the read also has records on, before or after, in the
    same or another BAM file of the sample.  Domain as in `table_roundtrip`: read ids without tab / newline, groups without
    newline (no cleanliness condition: `#` ids, empty and blank-padded groups included) -/
theorem read_keeps_group_on_every_chromosome (m : List (String × String)) (alns : List (String × Option String))
    (hids : ∀ rid c, (rid, c) ∈ alns → '\t' ∉ rid.toList ∧ '\n' ∉ rid.toList)
    (hgrp : ∀ rid g, m.lookup rid = some g → '\n' ∉ g.toList)
    (chr : String) (a : Aln) (h : (a.name, some chr) ∈ alns) :
    ∃ m', loadSplitTable (splitFileText m chr alns) = .ok m' ∧
      getGroupId (.table m') a = .ok (GRes.both (tableGroup m a.name)) := by
  obtain ⟨m', hm', hl⟩ := table_roundtrip m chr alns hids hgrp
  refine ⟨m', hm', ?_⟩
  simp only [getGroupId, hl a.name h, tableGroup]
  cases m.lookup a.name <;> rfl

/-- **multi_chromosome_read_same_group**: a read with records on two chromosomes is counted under the same group by the
    collectors of both -/
theorem multi_chromosome_read_same_group (m : List (String × String)) (alns : List (String × Option String))
    (hids : ∀ rid c, (rid, c) ∈ alns → '\t' ∉ rid.toList ∧ '\n' ∉ rid.toList)
    (hgrp : ∀ rid g, m.lookup rid = some g → '\n' ∉ g.toList)
    (c₁ c₂ : String) (a : Aln) (h₁ : (a.name, some c₁) ∈ alns) (h₂ : (a.name, some c₂) ∈ alns) :
    ∃ m₁ m₂, loadSplitTable (splitFileText m c₁ alns) = .ok m₁ ∧
      loadSplitTable (splitFileText m c₂ alns) = .ok m₂ ∧
      getGroupId (.table m₁) a = getGroupId (.table m₂) a := by
  obtain ⟨m₁, h1, g1⟩ := read_keeps_group_on_every_chromosome m alns hids hgrp c₁ a h₁
  obtain ⟨m₂, h2, g2⟩ := read_keeps_group_on_every_chromosome m alns hids hgrp c₂ a h₂
  exact ⟨m₁, m₂, h1, h2, by rw [g1, g2]⟩

/-- regression example for the seeded change that shared one `processed_reads` set between the chromosomes: the read
    `r` (group `g`) with records on chr1 and chr2 is written to the chr1 file only; on chr2 it falls back to `NA` -/
theorem global_dedup_loses_group_witness :
    splitTableLinesGlobal [("r", "g")] "chr2" [("r", some "chr1"), ("r", some "chr2")] [] = [] ∧
    splitTableLines [("r", "g")] "chr2" [("r", some "chr1"), ("r", some "chr2")] [] = ["r\tg".toList] ∧
    getGroupId (.table []) ⟨"r", [], none⟩ = .ok (GRes.both NA) := by decide +kernel

-- non-vacuity: a table with a `#` read id and a blank-padded group, a read on two chromosomes of two BAM files, an
-- unmapped record
example : (("#r1", some "chr2") ∈ [("#r1", some "chr1"), ("x", none), ("r2", some "chr2"), ("#r1", some "chr2")]) ∧
    loadSplitTable (splitFileText [("#r1", "cell A "), ("r2", "g2")] "chr2"
      [("#r1", some "chr1"), ("x", none), ("r2", some "chr2"), ("#r1", some "chr2")]) =
      .ok [("r2", "g2"), ("#r1", "cell A ")] := by decide +kernel

end IsoVerif.Props.C09TablesChrom
