/-
C13 — exon / intron inclusion and exclusion counts equal a recount from the alignments.
Part 2: what a +1 / −1 of the gene profile means (src/long_read_profiles.py construct_exon_profile /
construct_intron_profile / construct_profile_for_features), i.e. the link between the counted values and the
declarative reading of the property (DESIGN.md §6, C13/C19).  Helper lemmas: IsoVerif/Lemmas/C13ProfileSound.lean.
-/
import IsoVerif.Model.FeatureCounts
import IsoVerif.Lemmas.C13ProfileSound
import IsoVerif.Lemmas.C13ProfileComplete
import IsoVerif.Gen.Strategies

namespace IsoVerif.Props.C13Profiles
open IsoVerif.Gen IsoVerif.Model IsoVerif.Model.C13 IsoVerif.Lemmas.C13

/-! ### soundness, for all inputs -/

/-- INCLUDE, soundness (no hypothesis on the inputs): a known feature is marked present (+1) only if some read
    feature satisfies the comparator with it — and it is not masked by a polyA / polyT position -/
theorem include_sound (K : List Iv) (gr : Iv) (cmp absent : Iv → Iv → Bool) (δ : Int) (R : List Iv) (M : Iv)
    (pa pt : Int) (i : Nat)
    (h : (constructOverlapping K gr cmp absent δ R M pa pt).gene[i]? = some 1) :
    ∃ (j : Nat) (r k : Iv), R[j]? = some r ∧ K[i]? = some k ∧ cmp r k = true ∧
      ¬ (pa ≠ -1 ∧ k.1 > pa + δ) ∧ ¬ (pt ≠ -1 ∧ k.2 < pt - δ) := by
  obtain ⟨h1, k, hk, hpa, hpt⟩ := constructOverlapping_gene K gr cmp absent δ R M pa pt i 1 (by decide) h
  have hs := sweepState_incl K gr cmp absent R M
  have h2 : (sweepState K gr cmp absent R M).gene[i]? = some 1 := by
    rcases ovEliminate_spec K R (sweepState K gr cmp absent R M).matched (sweepState K gr cmp absent R M).gene i with he | ⟨he, _⟩
    · rw [← he]; exact h1
    · rw [h1] at he; simp at he
  obtain ⟨j, hj⟩ := hs.one i h2
  obtain ⟨r, k', hr, hk', hc⟩ := hs.mat _ hj
  simp only at hr hk'
  rw [hk] at hk'; cases hk'
  exact ⟨j, r, k, hr, hk, hc, hpa, hpt⟩

/-- EXCLUDE, soundness (known features ordered by start, as the code's sorted feature lists are): a known feature is
    marked absent (−1) only if the absence test holds for the mapped region, or it lies strictly inside a gap
    between two consecutive read features, or it loses a tie (a read feature matches it and a strictly closer
    known feature) -/
theorem exclude_sound (K : List Iv) (gr : Iv) (cmp absent : Iv → Iv → Bool) (δ : Int) (R : List Iv) (M : Iv)
    (pa pt : Int) (hK : SortedStarts K) (i : Nat)
    (h : (constructOverlapping K gr cmp absent δ R M pa pt).gene[i]? = some (-1)) :
    ∃ k, K[i]? = some k ∧ (absent M k = true ∨ InGap R k ∨ TieLoser cmp K R k) ∧
      ¬ (pa ≠ -1 ∧ k.1 > pa + δ) ∧ ¬ (pt ≠ -1 ∧ k.2 < pt - δ) := by
  obtain ⟨h1, k, hk, hpa, hpt⟩ := constructOverlapping_gene K gr cmp absent δ R M pa pt i (-1) (by decide) h
  refine ⟨k, hk, ?_, hpa, hpt⟩
  have hs := sweepState_incl K gr cmp absent R M
  rcases ovEliminate_spec K R (sweepState K gr cmp absent R M).matched (sweepState K gr cmp absent R M).gene i with he | ⟨_, ri, i', hm, hm', hlt⟩
  · rw [he] at h1
    obtain ⟨k', hk', hor⟩ := (sweepState_excl K gr cmp absent R M hK).neg i h1
    rw [hk] at hk'; cases hk'
    rcases hor with h' | h'
    · exact Or.inl h'
    · exact Or.inr (Or.inl h')
  · obtain ⟨r, k1, hr, hk1, hc⟩ := hs.mat _ hm
    obtain ⟨r', k2, hr', hk2, hc'⟩ := hs.mat _ hm'
    simp only at hr hk1 hr' hk2
    rw [hk] at hk1; cases hk1
    rw [hr] at hr'; cases hr'
    refine Or.inr (Or.inr ⟨ri, r, i', k2, hr, hk2, hc, hc', ?_⟩)
    have e1 : R.getD ri (0, 0) = r := by simp [List.getD, hr]
    have e2 : K.getD i' (0, 0) = k2 := by simp [List.getD, hk2]
    have e3 : K.getD i (0, 0) = k := by simp [List.getD, hk]
    rw [e1, e2, e3] at hlt
    exact hlt

example : SortedStarts [(10, 20), (12, 20), (30, 40), (50, 60)] ∧
    (constructOverlapping [(10, 20), (12, 20), (30, 40), (50, 60)] (10, 60) (fun a b => equal_ranges a b 4)
      (fun a b => contains a b) 4 [(10, 20), (50, 60)] (24, 46) (-1) (-1)).gene = [1, -1, -1, 1] := by
  refine ⟨by simp [SortedStarts], by decide +kernel⟩

/-! ### the two wrappers the counters are fed from -/

/-- exon profile: an annotated exon is counted as included for a read only if one of the read's exon blocks equals it
    within δ at both ends -/
theorem exon_include_sound (known : List Iv) (gr : Iv) (δ : Int) (blocks : List Iv) (pa pt : Int) (p : ProfileResult)
    (hp : constructExonProfile known gr δ blocks pa pt = some p) (i : Nat) (h : p.gene[i]? = some 1) :
    ∃ (j : Nat) (r k : Iv), blocks[j]? = some r ∧ known[i]? = some k ∧ equal_ranges r k δ = true := by
  unfold constructExonProfile at hp
  split at hp
  · simp at hp; subst hp
    obtain ⟨j, r, k, h1, h2, h3, _⟩ := include_sound _ _ _ _ _ _ _ _ _ i h
    exact ⟨j, r, k, h1, h2, h3⟩
  · simp at hp

/-- exon profile: an annotated exon is counted as excluded only if it lies inside the inner region
    `[first block end + δ, last block start − δ]` of the read, or strictly inside one of the read's introns, or a
    read exon matches it within δ but matches another annotated exon more closely -/
theorem exon_exclude_sound (known : List Iv) (gr : Iv) (δ : Int) (blocks : List Iv) (pa pt : Int) (p : ProfileResult)
    (hK : SortedStarts known)
    (hp : constructExonProfile known gr δ blocks pa pt = some p) (i : Nat) (h : p.gene[i]? = some (-1)) :
    ∃ (f l k : Iv), blocks.head? = some f ∧ blocks.getLast? = some l ∧ known[i]? = some k ∧
      ((f.2 + δ ≤ k.1 ∧ k.2 ≤ l.1 - δ) ∨ InGap blocks k ∨ TieLoser (fun a b => equal_ranges a b δ) known blocks k) := by
  unfold constructExonProfile at hp
  split at hp
  · rename_i f l hf hl
    simp at hp; subst hp
    obtain ⟨k, h1, h2, _⟩ := exclude_sound _ _ _ _ _ _ _ _ _ hK i h
    refine ⟨f, l, k, hf, hl, h1, ?_⟩
    rcases h2 with h2 | h2 | h2
    · left; simp [contains] at h2; omega
    · exact Or.inr (Or.inl h2)
    · exact Or.inr (Or.inr h2)
  · simp at hp

/-- intron profile: an annotated intron is counted as included only if one of the read's introns (gaps between
    consecutive blocks) equals it within δ at both ends -/
theorem intron_include_sound (known : List Iv) (gr : Iv) (δ absδ : Int) (blocks : List Iv) (pa pt : Int) (p : ProfileResult)
    (hp : constructIntronProfile known gr δ absδ blocks pa pt = some p) (i : Nat) (h : p.gene[i]? = some 1) :
    ∃ (j : Nat) (r k : Iv), (junctionsFromBlocks blocks)[j]? = some r ∧ known[i]? = some k ∧ equal_ranges r k δ = true := by
  unfold constructIntronProfile at hp
  split at hp
  · simp at hp; subst hp
    obtain ⟨j, r, k, h1, h2, h3, _⟩ := include_sound _ _ _ _ _ _ _ _ _ i h
    exact ⟨j, r, k, h1, h2, h3⟩
  · simp at hp

/-- intron profile: an annotated intron is counted as excluded only if the read's span `(first start, last end)`
    overlaps it per `overlaps_at_least` (characterised position-wise by `C19.overlaps_at_least_spec`), or it lies
    strictly between two consecutive read introns, or it loses a tie -/
theorem intron_exclude_sound (known : List Iv) (gr : Iv) (δ absδ : Int) (blocks : List Iv) (pa pt : Int) (p : ProfileResult)
    (hK : SortedStarts known)
    (hp : constructIntronProfile known gr δ absδ blocks pa pt = some p) (i : Nat) (h : p.gene[i]? = some (-1)) :
    ∃ (f l k : Iv), blocks.head? = some f ∧ blocks.getLast? = some l ∧ known[i]? = some k ∧
      (overlaps_at_least (f.1, l.2) k absδ = true ∨ InGap (junctionsFromBlocks blocks) k ∨
        TieLoser (fun a b => equal_ranges a b δ) known (junctionsFromBlocks blocks) k) := by
  unfold constructIntronProfile at hp
  split at hp
  · rename_i f l hf hl
    simp at hp; subst hp
    obtain ⟨k, h1, h2, _⟩ := exclude_sound _ _ _ _ _ _ _ _ _ hK i h
    exact ⟨f, l, k, hf, hl, h1, h2⟩
  · simp at hp

/-- on an empty block list the real code raises IndexError (`sorted_blocks[0]`); so does the model -/
theorem profile_empty_blocks (known : List Iv) (gr : Iv) (δ a pa pt : Int) :
    constructExonProfile known gr δ [] pa pt = none ∧ constructIntronProfile known gr δ a [] pa pt = none := by
  simp [constructExonProfile, constructIntronProfile]


/-! ### completeness under explicit decidable hypotheses -/

/-- the hypotheses under which the profile equals its declarative meaning: known features ordered by start and longer
    than δ, read features well formed and more than δ apart (DESIGN.md §7 C19 `read_profile_spec`; for δ = 0 this is
    "features well formed, read features sorted and disjoint").  Outside them `sweep_skip_witness` applies. -/
structure Hyp (δ : Int) (K R : List Iv) : Prop where
  sorted : SortedStarts K
  long : LongerThan δ K
  sep : SepBy δ R
  wf : WFR R

/-- `k` is a best match: a read feature equals it within δ and no known feature is strictly closer to that read
    feature (sum of the two site distances) -/
def Best (δ : Int) (K R : List Iv) (k : Iv) : Prop :=
  ∃ (j : Nat) (r : Iv), R[j]? = some r ∧ equal_ranges r k δ = true ∧
    ∀ (i' : Nat) (k' : Iv), K[i']? = some k' → equal_ranges r k' δ = true → matchDelta r k ≤ matchDelta r k'

/-- the full-strength statement ("a feature is counted as included iff a read feature matches it within δ, best
    match") is FALSE without hypotheses (`sweep_skip_witness`); this is the proved part -/
theorem include_iff_best_partial (K : List Iv) (gr : Iv) (absent : Iv → Iv → Bool) (δ : Int) (R : List Iv) (M : Iv)
    (pa pt : Int) (hyp : Hyp δ K R) (i : Nat) (k : Iv) (hk : K[i]? = some k) :
    (constructOverlapping K gr (fun a b => equal_ranges a b δ) absent δ R M pa pt).gene[i]? = some 1 ↔
      (Best δ K R k ∧ ¬ (pa ≠ -1 ∧ k.1 > pa + δ) ∧ ¬ (pt ≠ -1 ∧ k.2 < pt - δ)) := by
  have hs := sweepState_incl K gr (fun a b => equal_ranges a b δ) absent R M
  have hrange : ∀ p ∈ (sweepState K gr (fun a b => equal_ranges a b δ) absent R M).matched, p.1 < R.length := by
    intro p hp
    obtain ⟨r, _, hr, _⟩ := hs.mat p hp
    exact (List.getElem?_eq_some_iff.mp hr).1
  have hglen : (sweepState K gr (fun a b => equal_ranges a b δ) absent R M).gene.length = K.length := by
    unfold sweepState; rw [ovSweep_gene_length]; simp
  have hi : i < K.length := (List.getElem?_eq_some_iff.mp hk).1
  constructor
  · intro h
    obtain ⟨h1, k', hk', hpa, hpt⟩ := constructOverlapping_gene K gr _ absent δ R M pa pt i 1 (by decide) h
    rw [hk] at hk'; cases hk'
    refine ⟨?_, hpa, hpt⟩
    -- not a loser, else the elimination would have written −1
    have hnl : ¬ LoserIdx K R (sweepState K gr (fun a b => equal_ranges a b δ) absent R M).matched i := by
      intro hl
      have := ovEliminate_hit K R _ (sweepState K gr (fun a b => equal_ranges a b δ) absent R M).gene i (by omega) hrange hl
      rw [h1] at this; simp at this
    have h2 : (sweepState K gr (fun a b => equal_ranges a b δ) absent R M).gene[i]? = some 1 := by
      rcases ovEliminate_spec K R _ (sweepState K gr (fun a b => equal_ranges a b δ) absent R M).gene i with he | ⟨he, _⟩
      · rw [← he]; exact h1
      · rw [h1] at he; simp at he
    obtain ⟨j, hj⟩ := hs.one i h2
    obtain ⟨r, k', hr, hk', hc⟩ := hs.mat _ hj
    simp only at hr hk'
    rw [hk] at hk'; cases hk'
    refine ⟨j, r, hr, hc, ?_⟩
    intro i' k' hk' hc'
    apply Int.not_lt.mp
    intro hlt
    apply hnl
    have hj' := (sweepState_complete K gr absent δ R M hyp.sorted hyp.long hyp.sep hyp.wf j i' r k' hr hk' hc').1
    refine ⟨j, i', hj, hj', ?_⟩
    have e1 : R.getD j (0, 0) = r := by simp [List.getD, hr]
    have e2 : K.getD i' (0, 0) = k' := by simp [List.getD, hk']
    have e3 : K.getD i (0, 0) = k := by simp [List.getD, hk]
    rw [e1, e2, e3]; exact hlt
  · rintro ⟨⟨j, r, hr, hc, hbest⟩, hpa, hpt⟩
    obtain ⟨hj, hg⟩ := sweepState_complete K gr absent δ R M hyp.sorted hyp.long hyp.sep hyp.wf j i r k hr hk hc
    apply constructOverlapping_gene_fwd K gr _ absent δ R M pa pt i k 1 hk ?_ hpa hpt
    rcases ovEliminate_spec K R _ (sweepState K gr (fun a b => equal_ranges a b δ) absent R M).gene i with he | ⟨_, ri, i', hm, hm', hlt⟩
    · rw [he]; exact hg
    · exfalso
      obtain ⟨r1, k1, hr1, hk1, hc1⟩ := hs.mat _ hm
      obtain ⟨r2, k2, hr2, hk2, hc2⟩ := hs.mat _ hm'
      simp only at hr1 hk1 hr2 hk2
      rw [hk] at hk1; cases hk1
      rw [hr1] at hr2; cases hr2
      have : j = ri := sep_unique δ R hyp.sep k (hyp.long k (List.mem_of_getElem? hk)) j ri r r1 hr hr1 hc hc1
      subst this
      rw [hr] at hr1; cases hr1
      have e1 : R.getD j (0, 0) = r := by simp [List.getD, hr]
      have e2 : K.getD i' (0, 0) = k2 := by simp [List.getD, hk2]
      have e3 : K.getD i (0, 0) = k := by simp [List.getD, hk]
      rw [e1, e2, e3] at hlt
      have := hbest i' k2 hk2 hc2
      omega

/-- corollary in the form used for the counts: under the hypotheses, a feature that some read feature matches within δ
    and that is the unique candidate of that read feature is included -/
theorem include_complete_partial (K : List Iv) (gr : Iv) (absent : Iv → Iv → Bool) (δ : Int) (R : List Iv) (M : Iv)
    (hyp : Hyp δ K R) (i : Nat) (k : Iv) (hk : K[i]? = some k) (hb : Best δ K R k) :
    (constructOverlapping K gr (fun a b => equal_ranges a b δ) absent δ R M (-1) (-1)).gene[i]? = some 1 :=
  (include_iff_best_partial K gr absent δ R M (-1) (-1) hyp i k hk).mpr ⟨hb, by simp, by simp⟩

/-- under the hypotheses a feature counted as excluded is never a best match ("without containing the feature itself") -/
theorem exclude_not_best_partial (K : List Iv) (gr : Iv) (absent : Iv → Iv → Bool) (δ : Int) (R : List Iv) (M : Iv)
    (pa pt : Int) (hyp : Hyp δ K R) (i : Nat) (k : Iv) (hk : K[i]? = some k)
    (h : (constructOverlapping K gr (fun a b => equal_ranges a b δ) absent δ R M pa pt).gene[i]? = some (-1)) :
    ¬ Best δ K R k := by
  intro hb
  obtain ⟨_, k', hk', hpa, hpt⟩ := constructOverlapping_gene K gr _ absent δ R M pa pt i (-1) (by decide) h
  rw [hk] at hk'; cases hk'
  have := (include_iff_best_partial K gr absent δ R M pa pt hyp i k hk).mpr ⟨hb, hpa, hpt⟩
  rw [h] at this; simp at this


/-- EXCLUDE under the hypotheses (and δ ≥ 0, true of every preset: `delta_presets_nonneg`): a known feature is counted
    as excluded iff it is not a best match and it loses a tie, or the absence test holds for the mapped region, or
    it lies strictly inside a gap between consecutive read features — and it is not masked by a polyA/polyT position.
    Together with `include_iff_best_partial` this is the declarative meaning of the two counted values. -/
theorem exclude_iff_partial (K : List Iv) (gr : Iv) (absent : Iv → Iv → Bool) (δ : Int) (R : List Iv) (M : Iv)
    (pa pt : Int) (hδ : 0 ≤ δ) (hyp : Hyp δ K R) (i : Nat) (k : Iv) (hk : K[i]? = some k) :
    (constructOverlapping K gr (fun a b => equal_ranges a b δ) absent δ R M pa pt).gene[i]? = some (-1) ↔
      (¬ Best δ K R k ∧ (TieLoser (fun a b => equal_ranges a b δ) K R k ∨ absent M k = true ∨ InGap R k) ∧
        ¬ (pa ≠ -1 ∧ k.1 > pa + δ) ∧ ¬ (pt ≠ -1 ∧ k.2 < pt - δ)) := by
  constructor
  · intro h
    obtain ⟨k', hk', hor, hpa, hpt⟩ := exclude_sound K gr _ absent δ R M pa pt hyp.sorted i h
    rw [hk] at hk'; cases hk'
    refine ⟨exclude_not_best_partial K gr absent δ R M pa pt hyp i k hk h, ?_, hpa, hpt⟩
    rcases hor with h' | h' | h'
    · exact Or.inr (Or.inl h')
    · exact Or.inr (Or.inr h')
    · exact Or.inl h'
  · rintro ⟨hnb, hor, hpa, hpt⟩
    have hs := sweepState_incl K gr (fun a b => equal_ranges a b δ) absent R M
    have hrange : ∀ p ∈ (sweepState K gr (fun a b => equal_ranges a b δ) absent R M).matched, p.1 < R.length := by
      intro p hp
      obtain ⟨r, _, hr, _⟩ := hs.mat p hp
      exact (List.getElem?_eq_some_iff.mp hr).1
    have hglen : (sweepState K gr (fun a b => equal_ranges a b δ) absent R M).gene.length = K.length := by
      unfold sweepState; rw [ovSweep_gene_length]; simp
    have hi : i < K.length := (List.getElem?_eq_some_iff.mp hk).1
    apply constructOverlapping_gene_fwd K gr _ absent δ R M pa pt i k (-1) hk ?_ hpa hpt
    by_cases hmatch : ∃ (j : Nat) (r : Iv), R[j]? = some r ∧ equal_ranges r k δ = true
    · -- some read feature matches k; k is not best, so a strictly closer variant exists: the elimination marks k
      obtain ⟨j, r, hr, hc⟩ := hmatch
      have hex : ∃ (i' : Nat) (k' : Iv), K[i']? = some k' ∧ equal_ranges r k' δ = true ∧ matchDelta r k' < matchDelta r k := by
        apply Classical.byContradiction
        intro hne
        apply hnb
        refine ⟨j, r, hr, hc, ?_⟩
        intro i' k' hk' hc'
        apply Int.not_lt.mp
        intro hlt
        exact hne ⟨i', k', hk', hc', hlt⟩
      obtain ⟨i', k', hk', hc', hlt⟩ := hex
      have hj := (sweepState_complete K gr absent δ R M hyp.sorted hyp.long hyp.sep hyp.wf j i r k hr hk hc).1
      have hj' := (sweepState_complete K gr absent δ R M hyp.sorted hyp.long hyp.sep hyp.wf j i' r k' hr hk' hc').1
      apply ovEliminate_hit K R _ _ i (by omega) hrange
      refine ⟨j, i', hj, hj', ?_⟩
      have e1 : R.getD j (0, 0) = r := by simp [List.getD, hr]
      have e2 : K.getD i' (0, 0) = k' := by simp [List.getD, hk']
      have e3 : K.getD i (0, 0) = k := by simp [List.getD, hk]
      rw [e1, e2, e3]; exact hlt
    · -- no read feature matches k: the sweep leaves −1 there and the elimination does not touch a −1
      have hsweep : (sweepState K gr (fun a b => equal_ranges a b δ) absent R M).gene[i]? = some (-1) := by
        have hnot1 : (sweepState K gr (fun a b => equal_ranges a b δ) absent R M).gene[i]? ≠ some 1 := by
          intro h1
          obtain ⟨j, hj⟩ := hs.one i h1
          obtain ⟨r, k', hr, hk', hc⟩ := hs.mat _ hj
          simp only at hr hk'
          rw [hk] at hk'; cases hk'
          exact hmatch ⟨j, r, hr, hc⟩
        rcases hor with ht | ha | hg
        · obtain ⟨j, r, _, _, hr, _, hc, _⟩ := ht
          exact absurd ⟨j, r, hr, hc⟩ hmatch
        · have hinit : (K.map (fun k => if absent M k then (-1 : Int) else 0))[i]? = some (-1) := by
            simp [List.getElem?_map, hk, ha]
          rcases ovSweep_gene_tri (fun a b => equal_ranges a b δ) absent M K 0 R 0
            { gene := K.map (fun k => if absent M k then -1 else 0), read := R.map (fun r => if absent gr r then -1 else 0), matched := [] } i with h | h | h
          · exact h.trans hinit
          · exact h
          · exact absurd h hnot1
        · obtain ⟨j, r, r', hr, hr', hlt1, hlt2⟩ := hg
          have hWk : ∀ x ∈ K, x.1 ≤ x.2 := fun x hx => by have := hyp.long x hx; omega
          have := ovSweep_gap (fun a b => equal_ranges a b δ) absent M K 0 R 0
            { gene := K.map (fun k => if absent M k then -1 else 0), read := R.map (fun r => if absent gr r then -1 else 0), matched := [] }
            hyp.sorted hWk hyp.wf (j + 1) i k r' hk hr' hlt2 (by omega) ?_ (by simp; exact hi)
          · simp only [Nat.zero_add] at this; exact this
          · intro c' r'' hc' hr''
            by_cases hcj : c' = j
            · subst hcj; rw [hr] at hr''; cases hr''; exact hlt1
            · obtain ⟨h1, e1⟩ := List.getElem?_eq_some_iff.mp hr''
              obtain ⟨h2, e2⟩ := List.getElem?_eq_some_iff.mp hr
              have := (List.pairwise_iff_getElem.mp hyp.sep) c' j h1 h2 (by omega)
              rw [e1, e2] at this
              have := hyp.wf r (List.mem_of_getElem? hr)
              omega
      rcases ovEliminate_spec K R _ (sweepState K gr (fun a b => equal_ranges a b δ) absent R M).gene i with he | ⟨he, _⟩
      · rw [he]; exact hsweep
      · exact he

example : Hyp 4 [(100, 200), (250, 280), (300, 400), (500, 600)] [(100, 200), (500, 600)] ∧
    (constructOverlapping [(100, 200), (250, 280), (300, 400), (500, 600)] (100, 600) (fun a b => equal_ranges a b 4)
      (fun a b => contains a b) 4 [(100, 200), (500, 600)] (204, 496) (-1) (-1)).gene = [1, -1, -1, 1] := by
  refine ⟨⟨by simp [SortedStarts], by simp [LongerThan], by simp [SepBy], by simp [WFR]⟩, by decide +kernel⟩

/-- the two counted values of the EXON table, declaratively (hypotheses on annotated exons and read blocks):
    +1 ⇔ best match within δ; −1 ⇔ not a best match and (tie loser ∨ inside the inner region
    `[first block end + δ, last block start − δ]` ∨ strictly inside a read intron); both only when not masked -/
theorem exon_profile_meaning_partial (known : List Iv) (gr : Iv) (δ : Int) (blocks : List Iv) (pa pt : Int) (p : ProfileResult)
    (hδ : 0 ≤ δ) (hyp : Hyp δ known blocks) (hp : constructExonProfile known gr δ blocks pa pt = some p)
    (i : Nat) (k : Iv) (hk : known[i]? = some k) :
    ∃ (f l : Iv), blocks.head? = some f ∧ blocks.getLast? = some l ∧
      (p.gene[i]? = some 1 ↔ (Best δ known blocks k ∧ ¬ (pa ≠ -1 ∧ k.1 > pa + δ) ∧ ¬ (pt ≠ -1 ∧ k.2 < pt - δ))) ∧
      (p.gene[i]? = some (-1) ↔
        (¬ Best δ known blocks k ∧
          (TieLoser (fun a b => equal_ranges a b δ) known blocks k ∨ (f.2 + δ ≤ k.1 ∧ k.2 ≤ l.1 - δ) ∨ InGap blocks k) ∧
          ¬ (pa ≠ -1 ∧ k.1 > pa + δ) ∧ ¬ (pt ≠ -1 ∧ k.2 < pt - δ))) := by
  unfold constructExonProfile at hp
  split at hp
  · rename_i f l hf hl
    simp at hp; subst hp
    refine ⟨f, l, hf, hl, include_iff_best_partial known gr _ δ blocks _ pa pt hyp i k hk, ?_⟩
    rw [exclude_iff_partial known gr _ δ blocks _ pa pt hδ hyp i k hk]
    have : (contains (f.2 + δ, l.1 - δ) k = true) ↔ (f.2 + δ ≤ k.1 ∧ k.2 ≤ l.1 - δ) := by
      simp [contains]; omega
    rw [this]
  · simp at hp

/-- the same for the INTRON table (read features = the junctions of the blocks; absence test = `overlaps_at_least`
    of the read span, characterised position-wise by `C19.overlaps_at_least_spec`) -/
theorem intron_profile_meaning_partial (known : List Iv) (gr : Iv) (δ absδ : Int) (blocks : List Iv) (pa pt : Int)
    (p : ProfileResult) (hδ : 0 ≤ δ) (hyp : Hyp δ known (junctionsFromBlocks blocks))
    (hp : constructIntronProfile known gr δ absδ blocks pa pt = some p) (i : Nat) (k : Iv) (hk : known[i]? = some k) :
    ∃ (f l : Iv), blocks.head? = some f ∧ blocks.getLast? = some l ∧
      (p.gene[i]? = some 1 ↔
        (Best δ known (junctionsFromBlocks blocks) k ∧ ¬ (pa ≠ -1 ∧ k.1 > pa + δ) ∧ ¬ (pt ≠ -1 ∧ k.2 < pt - δ))) ∧
      (p.gene[i]? = some (-1) ↔
        (¬ Best δ known (junctionsFromBlocks blocks) k ∧
          (TieLoser (fun a b => equal_ranges a b δ) known (junctionsFromBlocks blocks) k ∨
            overlaps_at_least (f.1, l.2) k absδ = true ∨ InGap (junctionsFromBlocks blocks) k) ∧
          ¬ (pa ≠ -1 ∧ k.1 > pa + δ) ∧ ¬ (pt ≠ -1 ∧ k.2 < pt - δ))) := by
  unfold constructIntronProfile at hp
  split at hp
  · rename_i f l hf hl
    simp at hp; subst hp
    exact ⟨f, l, hf, hl, include_iff_best_partial known gr _ δ _ _ pa pt hyp i k hk,
      exclude_iff_partial known gr _ δ _ _ pa pt hδ hyp i k hk⟩
  · simp at hp

-- non-vacuity: genome-like input meeting the hypotheses for δ = 4, with a tie (two variants of the first exon)
example : Hyp 4 [(100, 200), (102, 200), (300, 400), (500, 600)] [(101, 200), (500, 603)] ∧
    Best 4 [(100, 200), (102, 200), (300, 400), (500, 600)] [(101, 200), (500, 603)] (100, 200) := by
  refine ⟨⟨by simp [SortedStarts], by simp [LongerThan], by simp [SepBy], by simp [WFR]⟩, 0, (101, 200), rfl, by decide, ?_⟩
  intro i' k' hk' _
  match i', hk' with
  | 0, h => simp at h; subst h; decide
  | 1, h => simp at h; subst h; decide
  | 2, h => simp at h; subst h; decide
  | 3, h => simp at h; subst h; decide
  | n + 4, h => simp at h

/-- every delta preset of `set_matching_options` (regenerated from isoquant.py) is non-negative, so δ = 0 reduces the
    hypotheses to well-formed, sorted, disjoint features -/
theorem delta_presets_nonneg : ∀ p ∈ matching_presets, 0 ≤ p.2.delta := by decide

theorem hyp_delta_zero (K R : List Iv) (hS : SortedStarts K) (hK : ∀ k ∈ K, k.1 ≤ k.2)
    (hR : R.Pairwise (fun a b => a.2 < b.1)) (hW : ∀ r ∈ R, r.1 ≤ r.2) : Hyp 0 K R :=
  ⟨hS, fun k hk => by have := hK k hk; omega, hR.imp (fun h => by omega), hW⟩

/-! ### corners that are real (proved on the model, replayed on the real code by the harness) -/

/-- the sweep can skip a matching pair when a known feature is not longer than δ / read features are δ or less
    apart: `(3,4)` equals `(2,4)` within δ = 1 but the feature stays 0 -/
theorem sweep_skip_witness :
    (constructOverlapping [(2, 4)] (1, 10) (fun a b => equal_ranges a b 1) (fun a b => contains a b) 1
      [(1, 2), (3, 4)] (0, 0) (-1) (-1)).gene = [0] ∧ equal_ranges (3, 4) (2, 4) 1 = true := by decide +kernel

/-- with a spanning mapped region the skipped feature is even counted as excluded although a read feature matches
    it within δ -/
theorem exclude_while_matching_witness :
    (constructExonProfile [(2, 4)] (0, 9) 1 [(0, 0), (1, 2), (3, 4), (9, 9)] (-1) (-1)).map (·.gene) = some [-1] ∧
    equal_ranges (3, 4) (2, 4) 1 = true := by decide +kernel

/-! ### class `micro_feature_sweep_skip` (known finding, audit G2) -/

/-- the class predicate of the known finding, for one (known feature, read feature) pair: the read feature equals the
    known feature within δ, and the known feature is shorter than δ + 1 or the read feature starts at most δ after the
    end of an earlier read feature.  (The oracle's `micro_class` asks this of the feature itself or of a competitor for the
    same read feature.) -/
def MicroPair (δ : Int) (R : List Iv) (k r : Iv) : Prop :=
  equal_ranges r k δ = true ∧ (k.2 - k.1 < δ ∨ ∃ p, [p, r].Sublist R ∧ r.1 - p.2 ≤ δ)

/-- the class lies outside `Hyp`: under the hypotheses of the `…_partial` theorems no pair is in it -/
theorem micro_pair_outside_hyp (δ : Int) (K R : List Iv) (hyp : Hyp δ K R) (k r : Iv) (hk : k ∈ K) :
    ¬ MicroPair δ R k r := by
  rintro ⟨_, h | ⟨p, hs, hd⟩⟩
  · have := hyp.long k hk; omega
  · have := (List.pairwise_cons.mp (List.Pairwise.sublist hs hyp.sep)).1 r (by simp)
    omega

/-- the audit's exon example: annotated exon 1302-1304 (3 bp, δ = 6), read exon 1299-1301 equals it within δ at both
    ends without overlapping it; the sweep never compares the pair and the mapped-region test marks the exon −1 -/
theorem micro_exon_witness :
    (constructExonProfile [(1100, 1200), (1302, 1304), (1366, 1466)] (1100, 1466) 6 [(1100, 1197), (1299, 1301), (1368, 1466)]
      (-1) (-1)).map (·.gene) = some [1, -1, 1] ∧
    MicroPair 6 [(1100, 1197), (1299, 1301), (1368, 1466)] (1302, 1304) (1299, 1301) := by
  refine ⟨by decide +kernel, by decide +kernel, Or.inl (by decide)⟩

/-- the audit's intron example: read blocks 100-199, 305-306, 369-467 (a 2-bp read exon: read introns 200-304 and 307-368,
    2 bp apart); annotated intron 304-366 equals read intron 307-368 within δ = 6 but is marked −1 -/
theorem micro_intron_witness :
    (constructIntronProfile [(201, 301), (304, 366)] (100, 467) 6 20 [(100, 199), (305, 306), (369, 467)] (-1) (-1)).map (·.gene) =
      some [1, -1] ∧
    junctionsFromBlocks [(100, 199), (305, 306), (369, 467)] = [(200, 304), (307, 368)] ∧
    MicroPair 6 [(200, 304), (307, 368)] (304, 366) (307, 368) := by
  refine ⟨by decide +kernel, by decide +kernel, by decide +kernel, Or.inr ⟨(200, 304), List.Sublist.refl _, by decide⟩⟩

/-- class `tie_loser_exon` (known finding): the annotated exon (102,200) equals the read's FIRST exon (100,200) within
    δ = 4, loses the tie against (100,200), and is marked −1 (counted as excluded) although it does not lie
    between the read's first and last exon -/
theorem tie_loser_exon_witness :
    (constructExonProfile [(100, 200), (102, 200)] (100, 400) 4 [(100, 200), (300, 400)] (-1) (-1)).map (·.gene)
      = some [1, -1] ∧
    ¬ ((200 : Int) + 4 ≤ 102 ∧ (200 : Int) ≤ 300 - 4) ∧ ¬ ((200 : Int) < 102) := by decide +kernel

end IsoVerif.Props.C13Profiles
