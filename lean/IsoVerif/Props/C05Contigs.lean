/-
C05 — contig sets (`Model/ContigSets.lean`): which alignments a run visits when the contig sets of BAM header and reference
FASTA differ.  Clause of the statement: "every primary alignment that passes the documented filters is reported … and the
alignment statistics in the log equal the per-category record counts of the input".
-/
import IsoVerif.Model.ContigSets

namespace IsoVerif.Props.C05Contigs
open IsoVerif.Model.C05C

/-- the records lie on contigs of the header (what a BAM file is) -/
def WellFormed (r : Run) : Prop := ∀ a ∈ r.alns, a.contig ∈ r.header

/-- **collected_iff** (repaired run, ∀ runs): a record is visited iff its contig is a key of the FASTA (and of the header) -/
theorem collected_iff (r : Run) (a : Aln) : a ∈ collectRun r ↔ a ∈ r.alns ∧ a.contig ∈ r.fastaKeys ∧ a.contig ∈ r.header := by
  simp only [collectRun, List.mem_flatMap, task, fetchContig]
  constructor
  · rintro ⟨c, hc, ha⟩
    by_cases hh : c ∈ r.header
    · simp only [hh, if_true, List.mem_filter, beq_iff_eq] at ha
      obtain ⟨h1, h2⟩ := ha
      subst h2
      exact ⟨h1, hc, hh⟩
    · simp [hh] at ha
  · rintro ⟨h1, h2, h3⟩
    exact ⟨a.contig, h2, by simp [h3, h1]⟩

/-- the clause at full strength: every mapped record of the input is visited -/
def EveryAlignmentVisited (r : Run) : Prop := ∀ a ∈ r.alns, a ∈ collectRun r

/-- **every_alignment_visited_iff**: on a well-formed BAM the clause holds exactly when every contig that carries an alignment
    is a key of the FASTA -/
theorem every_alignment_visited_iff (r : Run) (hw : WellFormed r) :
    EveryAlignmentVisited r ↔ ∀ a ∈ r.alns, a.contig ∈ r.fastaKeys := by
  unfold EveryAlignmentVisited
  constructor
  · intro h a ha; exact ((collected_iff r a).mp (h a ha)).2.1
  · intro h a ha; exact (collected_iff r a).mpr ⟨ha, h a ha, hw a ha⟩

/-- **every_alignment_visited_partial**: … in particular when the header's contigs are keys of the FASTA -/
theorem every_alignment_visited_partial (r : Run) (hw : WellFormed r) (hsub : ∀ c ∈ r.header, c ∈ r.fastaKeys) :
    EveryAlignmentVisited r :=
  (every_alignment_visited_iff r hw).mpr (fun a ha => hsub _ (hw a ha))

/-- the run of the pipeline witness `bam_only_contig`: contigs 1 and 2 in the BAM, only 1 in the FASTA -/
def bamOnlyRun : Run :=
  { fastaKeys := [1], header := [1, 2], alns := [⟨10, 1, 0⟩, ⟨11, 1, 0⟩, ⟨20, 2, 0⟩] }

/-- **every_alignment_visited_witness**: the record on the contig the FASTA lacks is not visited; the log statistic says 2, the
    input has 3 primary records; the pinned code behaves the same (no exception) -/
theorem every_alignment_visited_witness :
    ¬ EveryAlignmentVisited bamOnlyRun ∧ statOf (collectRun bamOnlyRun) 0 = 2 ∧ statOf bamOnlyRun.alns 0 = 3 ∧
    collectRunOrig bamOnlyRun = some (collectRun bamOnlyRun) ∧ skipped bamOnlyRun = [⟨20, 2, 0⟩] := by
  refine ⟨?_, by decide, by decide, by decide, by decide⟩
  intro h
  have := h ⟨20, 2, 0⟩ (by decide)
  revert this
  decide

-- non-vacuity of the partial theorem
example : WellFormed ⟨[2, 1, 3], [1, 2], [⟨10, 1, 0⟩, ⟨20, 2, 1⟩]⟩ ∧ (∀ c ∈ [1, 2], c ∈ [2, 1, 3]) := by
  constructor
  · intro a ha; revert a; decide
  · decide

theorem countP_split (p q : Aln → Bool) (l : List Aln) :
    l.countP p = l.countP (fun a => p a && q a) + l.countP (fun a => p a && !q a) := by
  induction l with
  | nil => simp
  | cons a t ih =>
    simp only [List.countP_cons]
    by_cases hp : p a = true <;> by_cases hq : q a = true <;> simp [hp, hq] <;> omega

theorem count_key_split (hdr cs : List Id) (c : Id) (cat : Nat) (hc : c ∉ cs) (l : List Aln) (hl : ∀ a ∈ l, a.contig ∈ hdr) :
    l.countP (fun a => a.cat == cat && (c :: cs).contains a.contig) =
      (if c ∈ hdr then l.countP (fun a => a.cat == cat && a.contig == c) else 0) +
      l.countP (fun a => a.cat == cat && cs.contains a.contig) := by
  induction l with
  | nil => by_cases h : c ∈ hdr <;> simp [h]
  | cons a t ih =>
    have iht := ih (fun b hb => hl b (List.mem_cons_of_mem _ hb))
    have hah : a.contig ∈ hdr := hl a (by simp)
    simp only [List.countP_cons]
    generalize List.countP (fun a => a.cat == cat && (c :: cs).contains a.contig) t = X at iht ⊢
    generalize List.countP (fun a => a.cat == cat && a.contig == c) t = Y at iht ⊢
    generalize List.countP (fun a => a.cat == cat && cs.contains a.contig) t = Z at iht ⊢
    by_cases hac : a.contig = c
    · have hch : c ∈ hdr := hac ▸ hah
      have h1 : (a.cat == cat && (c :: cs).contains a.contig) = (a.cat == cat) := by simp [hac]
      have h2 : (a.cat == cat && a.contig == c) = (a.cat == cat) := by simp [hac]
      have h3 : (a.cat == cat && cs.contains a.contig) = false := by simp [hac, hc]
      rw [h1, h2, h3]
      simp only [hch, if_true] at iht ⊢
      by_cases hcat : (a.cat == cat) = true <;> simp [hcat] <;> omega
    · have h1 : (a.cat == cat && (c :: cs).contains a.contig) = (a.cat == cat && cs.contains a.contig) := by
        simp [hac]
      have h2 : (a.cat == cat && a.contig == c) = false := by simp [hac]
      rw [h1, h2]
      by_cases hch : c ∈ hdr
      · simp only [hch, if_true] at iht ⊢
        by_cases hx : (a.cat == cat && cs.contains a.contig) = true <;> simp [hx] <;> omega
      · simp only [hch, if_false] at iht ⊢
        by_cases hx : (a.cat == cat && cs.contains a.contig) = true <;> simp [hx] <;> omega

theorem count_flatMap_task (r : Run) (hw : WellFormed r) (cat : Nat) (keys : List Id) (hnd : keys.Nodup) :
    statOf (keys.flatMap (task r)) cat = r.alns.countP (fun a => a.cat == cat && keys.contains a.contig) := by
  induction keys with
  | nil => simp [statOf]
  | cons c cs ih =>
    simp only [List.nodup_cons] at hnd
    have h1 : statOf (task r c) cat = if c ∈ r.header then r.alns.countP (fun a => a.cat == cat && a.contig == c) else 0 := by
      unfold task fetchContig statOf
      by_cases hc : c ∈ r.header
      · simp only [hc, if_true, List.countP_filter]
      · simp [hc]
    have happ : statOf (task r c ++ cs.flatMap (task r)) cat = statOf (task r c) cat + statOf (cs.flatMap (task r)) cat := by
      simp [statOf, List.countP_append]
    rw [List.flatMap_cons, happ, h1, ih hnd.2, count_key_split r.header cs c cat hnd.1 r.alns hw]

/-- **statistics_split**: per category, the records of the input = the records the log counts + the records the warning
    announces (FASTA keys pairwise distinct, BAM well-formed) -/
theorem statistics_split (r : Run) (hw : WellFormed r) (hnd : r.fastaKeys.Nodup) (cat : Nat) :
    statOf r.alns cat = statOf (collectRun r) cat + statOf (skipped r) cat := by
  have h1 := count_flatMap_task r hw cat r.fastaKeys hnd
  have h2 : statOf (skipped r) cat = r.alns.countP (fun a => a.cat == cat && !(r.fastaKeys.contains a.contig)) := by
    unfold skipped statOf
    rw [List.countP_filter]
  rw [show collectRun r = r.fastaKeys.flatMap (task r) from rfl, h1, h2]
  exact countP_split (fun a => a.cat == cat) (fun a => r.fastaKeys.contains a.contig) r.alns

-- non-vacuity: 3 = 2 + 1 on the witness run
example : WellFormed bamOnlyRun ∧ bamOnlyRun.fastaKeys.Nodup ∧ statOf (skipped bamOnlyRun) 0 = 1 := by
  refine ⟨?_, by decide, by decide⟩
  intro a ha; revert a; decide

/-- **collect_orig_none_iff**: the pinned run aborts iff a key of the FASTA is missing from the BAM header -/
theorem collect_orig_none_iff (r : Run) : collectRunOrig r = none ↔ ∃ c ∈ r.fastaKeys, c ∉ r.header := by
  unfold collectRunOrig
  generalize r.fastaKeys = keys
  induction keys with
  | nil => simp [collectRunOrigAux]
  | cons c cs ih =>
    simp only [collectRunOrigAux, taskOrig, List.mem_cons, exists_eq_or_imp]
    by_cases hc : c ∈ r.header
    · simp only [hc, if_true, not_true_eq_false, false_or]
      cases h : collectRunOrigAux r cs with
      | none => simp only [true_iff]; exact ih.mp h
      | some rest =>
        simp only [reduceCtorEq, false_iff]
        intro hex
        have := ih.mpr hex
        rw [h] at this
        cases this
    · simp [hc]

/-- **collect_repair_conservative**: wherever the pinned run reached its end, the repaired run visits the same records in the
    same order -/
theorem collect_repair_conservative (r : Run) (l : List Aln) (h : collectRunOrig r = some l) : collectRun r = l := by
  unfold collectRunOrig at h
  unfold collectRun
  generalize r.fastaKeys = keys at h
  induction keys generalizing l with
  | nil => simpa [collectRunOrigAux] using h
  | cons c cs ih =>
    simp only [collectRunOrigAux, taskOrig] at h
    by_cases hc : c ∈ r.header
    · simp only [hc, if_true] at h
      cases h2 : collectRunOrigAux r cs with
      | none => simp [h2] at h
      | some rest =>
        simp only [h2, Option.some.injEq] at h
        subst h
        simp only [List.flatMap_cons, task, hc, if_true, ih rest h2]
    · simp [hc] at h

/-- the run of the pipeline witness `fasta_only_chrom`: contig 3 is a key of the FASTA, the BAM header lists 1 and 2 -/
def fastaOnlyRun : Run :=
  { fastaKeys := [1, 2, 3], header := [1, 2], alns := [⟨10, 1, 0⟩, ⟨20, 2, 0⟩] }

/-- **collect_orig_witness**: the pinned run aborts although every record of the input could be visited; the repaired run
    visits all of them -/
theorem collect_orig_witness :
    collectRunOrig fastaOnlyRun = none ∧ collectRun fastaOnlyRun = fastaOnlyRun.alns ∧ skipped fastaOnlyRun = [] := by decide

end IsoVerif.Props.C05Contigs
