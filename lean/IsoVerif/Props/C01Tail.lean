/-
C01 — the TAIL-POSITION hypothesis made explicit (audit-2 finding C01-a, "internal priming").

A read carries a polyA (polyT) tail at the reference position the polyA finder reports: behind a soft-clipped tail
(external position) or where the ALIGNED end of the read is A-rich (internal position; a genomic A-stretch inside an exon
— internal priming — gives one).  `PolyAVerifier.verify_read_ends` then compares that position with the isoform's annotated
3' end.  The forward clause of C01 ("… 5'/3' truncation, a polyA tail at T's 3' end") and its converse ("… distant … ends")
therefore depend on WHERE the tail is; until this round the dependence sat in the generator (genome without A/T-rich
windows) and in docs/C01.md.  Here it is a hypothesis of the theorems:

  * `TailWithin d stop ext int`  — some reported position lies within `d` of the isoform's 3' end `stop`;
  * `TailBeyond d stop ext int`  — the read carries a tail and EVERY reported position is farther than `d` from `stop`.

Results (all inputs, no bounds):
  * `checkIfClose_isSome_iff`      `check_if_close` accepts  ⇔  `TailWithin apa_delta`;
  * `verifyPolya_tail_at_end` / `verifyPolyt_tail_at_end`  tail within `apa_delta` of the 3' end: the only event added is
     `correct_polya_site_*`, the only events removed are exon elongations at that end — no major event can appear
     (`verifyReadEnds_tail_at_end_no_new_major`): item (c) of what `follow_exact_assigned_partial` leaves open, for isoforms
     whose end the tail is at;
  * `verifyPolya_tail_far` / `verifyPolyt_tail_far`  tail beyond `apa_delta`, no fake-terminal-exon / terminal-exon-misalignment
     event at that end, the isoform exons lying beyond the tail (if any) longer than the missed-exon tolerances: the event
     `alternative_polya_site_*` is appended — a major inconsistency (`alternative_polya_site_is_major`);
  * `tail_far_never_consistent`  assignment level, for the read's whole gene and EVERY path of `assign_to_isoform`: the type
     is not unique / unique_minor_difference / ambiguous and the answer never comes from the consistent path
     (`tail_far_not_consistent_path`: `match_consistent` → `check_read_ends` → `verify_read_ends_for_assignment` gives an
     inconsistent type, so `match_consistent` returns None; `tail_far_never_consistent_partial`: the paths that end in
     `match_inconsistent`).  This is the converse clause for "distant ends" that `C01FakeTerminal.far_never_consistent`
     excluded ("reads carrying a polyA / polyT position are not covered").
  * `tail_far_never_consistent_geom` / `_b`  the same with the comparator MODELLED and its hypothesis ("no fake terminal exon /
     terminal exon misalignment at the 3' end") derived from the position-only predicate `EndGeom`
     (`cjModel_no_end_artifact`, on top of Lemmas/C01CmpEnd.lean `compareJunctions_art`: every end-artifact event of
     `compare_junctions` is explained by the positions, for all inputs).  `incomplete_intron_retention_*` needs no
     exclusion (`verifyReadEnds_tail_far_major_w`: it is a major inconsistency that polyA verification keeps).
-/
import IsoVerif.Props.C01FakeTerminal
import IsoVerif.Lemmas.C01CmpEnd

namespace IsoVerif.Props.C01Tail
open IsoVerif.Gen IsoVerif.Model IsoVerif.Model.C01 IsoVerif.Lemmas IsoVerif.Lemmas.C01 IsoVerif.Lemmas.C01Cmp
open IsoVerif.Props.C01

/-! ### the tail-position hypotheses -/

/-- some reported tail position (`-1` = absent) lies within `d` of the isoform's 3' end `stop` -/
def TailWithin (d stop ext int : Int) : Prop :=
  (ext ≠ -1 ∧ iabs (stop - ext) ≤ d) ∨ (int ≠ -1 ∧ iabs (stop - int) ≤ d)

/-- the read carries a tail and every reported position is farther than `d` from `stop` -/
def TailBeyond (d stop ext int : Int) : Prop :=
  (ext ≠ -1 ∨ int ≠ -1) ∧ (ext = -1 ∨ d < iabs (stop - ext)) ∧ (int = -1 ∨ d < iabs (stop - int))

instance (d stop ext int : Int) : Decidable (TailWithin d stop ext int) := by unfold TailWithin; infer_instance
instance (d stop ext int : Int) : Decidable (TailBeyond d stop ext int) := by unfold TailBeyond; infer_instance

theorem tailBeyond_not_within {d stop ext int : Int} (h : TailBeyond d stop ext int) : ¬ TailWithin d stop ext int := by
  obtain ⟨_, h2, h3⟩ := h
  rintro (⟨a, b⟩ | ⟨a, b⟩)
  · rcases h2 with h2 | h2
    · exact a h2
    · omega
  · rcases h3 with h3 | h3
    · exact a h3
    · omega

/-- `check_if_close` accepts exactly when some reported position is within `apa_delta` of the isoform end -/
theorem checkIfClose_isSome_iff (p : Params) (stop ext int : Int) (evs : List Event) (ty : MatchEventSubtype) :
    (checkIfClose p stop ext int evs ty).isSome = true ↔ TailWithin p.apa_delta stop ext int := by
  unfold checkIfClose TailWithin distOrInf
  by_cases he : ext = -1 <;> by_cases hi : int = -1 <;> simp [he, hi, leInf] <;> (try split) <;> simp_all <;> omega

/-- what `check_if_close` returns when it accepts: the old events plus ONE event of the given type carrying a reported
    position within `apa_delta` -/
theorem checkIfClose_some (p : Params) (stop ext int : Int) (evs r : List Event) (ty : MatchEventSubtype)
    (h : checkIfClose p stop ext int evs ty = some r) :
    ∃ pos, (pos = ext ∨ pos = int) ∧ pos ≠ -1 ∧ iabs (stop - pos) ≤ p.apa_delta ∧ r = evs ++ [{ ty := ty, info := pos }] := by
  unfold checkIfClose distOrInf at h
  by_cases he : ext = -1 <;> by_cases hi : int = -1 <;> simp [he, hi, leInf] at h
  · obtain ⟨h1, h2⟩ := h
    exact ⟨int, Or.inr rfl, hi, h1, h2.symm⟩
  · obtain ⟨h1, h2⟩ := h
    exact ⟨ext, Or.inl rfl, he, h1, h2.symm⟩
  · split at h
    · rename_i hc
      simp at h
      exact ⟨int, Or.inr rfl, hi, hc.1, h.symm⟩
    · split at h
      · rename_i hc
        simp at h
        exact ⟨ext, Or.inl rfl, he, hc.1, h.symm⟩
      · simp at h

theorem checkIfClose_none_of_beyond (p : Params) (stop ext int : Int) (evs : List Event) (ty : MatchEventSubtype)
    (h : TailBeyond p.apa_delta stop ext int) : checkIfClose p stop ext int evs ty = none := by
  cases hc : checkIfClose p stop ext int evs ty with
  | none => rfl
  | some r =>
    exact absurd ((checkIfClose_isSome_iff p stop ext int evs ty).mp (by rw [hc]; rfl)) (tailBeyond_not_within h)

theorem mem_of_mem_eraseLastOf {evs : List Event} {t1 t2 : MatchEventSubtype} {e : Event}
    (h : e ∈ eraseLastOf evs t1 t2) : e ∈ evs := by
  unfold eraseLastOf at h
  split at h
  · exact h
  · exact List.mem_of_mem_eraseIdx h

/-! ### tail at the isoform's 3' end (forward clause) -/

/-- **tail at T's 3' end, '+' isoform**: `verify_polya` removes at most one exon-elongation event of the right end and adds
    exactly one `correct_polya_site_right` event carrying a reported position within `apa_delta` -/
theorem verifyPolya_tail_at_end (p : Params) (iso read : List Iv) (pa : PolyA) (evs0 : List Event) (lastE : Iv)
    (hl : iso.getLast? = some lastE) (h : TailWithin p.apa_delta lastE.2 pa.extA pa.intA) :
    ∃ pos, (pos = pa.extA ∨ pos = pa.intA) ∧ pos ≠ -1 ∧ iabs (lastE.2 - pos) ≤ p.apa_delta ∧
      verifyPolya p iso read pa evs0 =
        some (eraseLastOf evs0 .major_exon_elongation_right .exon_elongation_right ++
              [{ ty := .correct_polya_site_right, info := pos }]) := by
  have hs := (checkIfClose_isSome_iff p lastE.2 pa.extA pa.intA
    (eraseLastOf evs0 .major_exon_elongation_right .exon_elongation_right) .correct_polya_site_right).mpr h
  cases hc : checkIfClose p lastE.2 pa.extA pa.intA
      (eraseLastOf evs0 .major_exon_elongation_right .exon_elongation_right) .correct_polya_site_right with
  | none => rw [hc] at hs; simp at hs
  | some r =>
    obtain ⟨pos, h1, h2, h3, h4⟩ := checkIfClose_some _ _ _ _ _ _ _ hc
    refine ⟨pos, h1, h2, h3, ?_⟩
    unfold verifyPolya
    simp only [hl, hc, h4]

/-- the mirror image for a '−' isoform (polyT at the low-coordinate end) -/
theorem verifyPolyt_tail_at_end (p : Params) (iso read : List Iv) (pa : PolyA) (evs0 : List Event) (firstE : Iv)
    (hl : iso.head? = some firstE) (h : TailWithin p.apa_delta firstE.1 pa.extT pa.intT) :
    ∃ pos, (pos = pa.extT ∨ pos = pa.intT) ∧ pos ≠ -1 ∧ iabs (firstE.1 - pos) ≤ p.apa_delta ∧
      verifyPolyt p iso read pa evs0 =
        some (eraseLastOf evs0 .major_exon_elongation_left .exon_elongation_left ++
              [{ ty := .correct_polya_site_left, info := pos }]) := by
  have hs := (checkIfClose_isSome_iff p firstE.1 pa.extT pa.intT
    (eraseLastOf evs0 .major_exon_elongation_left .exon_elongation_left) .correct_polya_site_left).mpr h
  cases hc : checkIfClose p firstE.1 pa.extT pa.intT
      (eraseLastOf evs0 .major_exon_elongation_left .exon_elongation_left) .correct_polya_site_left with
  | none => rw [hc] at hs; simp at hs
  | some r =>
    obtain ⟨pos, h1, h2, h3, h4⟩ := checkIfClose_some _ _ _ _ _ _ _ hc
    refine ⟨pos, h1, h2, h3, ?_⟩
    unfold verifyPolyt
    simp only [hl, hc, h4]

/-- the 3' end of an isoform and the two tail positions on its 3' side -/
def end3 (I : IsoInfo) : Option Int :=
  match I.strand with
  | .plus => I.exons.getLast?.map (·.2)
  | .minus => I.exons.head?.map (·.1)
  | .other => none

def tail3 (I : IsoInfo) (pa : PolyA) : Int × Int :=
  match I.strand with
  | .plus => (pa.extA, pa.intA)
  | .minus => (pa.extT, pa.intT)
  | .other => (-1, -1)

/-- `check_internal_polya / polyt` adds an event only next to an `incomplete_intron_retention_*` event, which is itself a
    major inconsistency: a list free of major events stays as it is -/
theorem checkInternal_no_major (pos : Int) (evs : List Event) (inc int : MatchEventSubtype)
    (hinc : inc.is_major_inconsistency = true) (hno : ∀ e ∈ evs, e.ty.is_major_inconsistency = false) :
    (checkInternal pos evs inc int).1 = evs := by
  unfold checkInternal
  split
  · rfl
  · split
    · rename_i e0 hf
      have hm := List.mem_of_find?_eq_some hf
      have ht := List.find?_some hf
      simp only [decide_eq_true_eq] at ht
      have := hno e0 hm
      rw [ht, hinc] at this
      cases this
    · rfl

/-- **forward clause, tail-position hypothesis explicit**: if the tail the read carries on I's 3' side lies within `apa_delta`
    of I's annotated 3' end, polyA verification adds NO major-inconsistency event for I: an event list free of major events
    (comparator + elongation events of a read that follows I) stays free of them — the only event added is
    `correct_polya_site_*`, the only events removed are exon elongations at that end -/
theorem verifyReadEnds_tail_at_end_no_new_major (p : Params) (rp : ReadProf) (I : IsoInfo) (evs r : List Event) (stop : Int)
    (hend : end3 I = some stop) (h : TailWithin p.apa_delta stop (tail3 I rp.polya).1 (tail3 I rp.polya).2)
    (hno : ∀ e ∈ evs, e.ty.is_major_inconsistency = false)
    (hr : verifyReadEnds p rp I evs = some r) :
    ∀ e ∈ r, e.ty.is_major_inconsistency = false := by
  intro e he
  unfold verifyReadEnds at hr
  simp only [Option.map_eq_some_iff] at hr
  obtain ⟨r0, hr0, rfl⟩ := hr
  have key : ∀ e ∈ r0, e.ty.is_major_inconsistency = false := by
    intro e he
    cases hs : I.strand with
    | other => simp [hs] at hr0; subst hr0; exact hno e he
    | plus =>
      simp only [end3, hs, Option.map_eq_some_iff] at hend
      obtain ⟨lastE, hl, rfl⟩ := hend
      simp only [tail3, hs] at h
      simp only [hs] at hr0
      rw [show checkInternal rp.polya.intA evs .incomplete_intron_retention_right .internal_polya_right =
          ((checkInternal rp.polya.intA evs .incomplete_intron_retention_right .internal_polya_right).1,
           (checkInternal rp.polya.intA evs .incomplete_intron_retention_right .internal_polya_right).2) from rfl,
        checkInternal_no_major _ _ _ _ (by decide) hno] at hr0
      simp only at hr0
      split at hr0
      · obtain ⟨pos, -, -, -, hv⟩ := verifyPolya_tail_at_end p I.exons rp.blocks rp.polya evs lastE hl h
        rw [hv] at hr0
        simp only [Option.some.injEq] at hr0
        subst hr0
        simp only [List.mem_append, List.mem_singleton] at he
        rcases he with he | he
        · exact hno e (mem_of_mem_eraseLastOf he)
        · subst he; simp only; decide
      · simp only [Option.some.injEq] at hr0
        subst hr0
        exact hno e he
    | minus =>
      simp only [end3, hs, Option.map_eq_some_iff] at hend
      obtain ⟨firstE, hl, rfl⟩ := hend
      simp only [tail3, hs] at h
      simp only [hs] at hr0
      rw [show checkInternal rp.polya.intT evs .incomplete_intron_retention_left .internal_polya_left =
          ((checkInternal rp.polya.intT evs .incomplete_intron_retention_left .internal_polya_left).1,
           (checkInternal rp.polya.intT evs .incomplete_intron_retention_left .internal_polya_left).2) from rfl,
        checkInternal_no_major _ _ _ _ (by decide) hno] at hr0
      simp only at hr0
      split at hr0
      · obtain ⟨pos, -, -, -, hv⟩ := verifyPolyt_tail_at_end p I.exons rp.blocks rp.polya evs firstE hl h
        rw [hv] at hr0
        simp only [Option.some.injEq] at hr0
        subst hr0
        simp only [List.mem_append, List.mem_singleton] at he
        rcases he with he | he
        · exact hno e (mem_of_mem_eraseLastOf he)
        · subst he; simp only; decide
      · simp only [Option.some.injEq] at hr0
        subst hr0
        exact hno e he
  split at he
  · simp only [List.mem_singleton] at he
    subst he
    simp only; decide
  · exact key e he

/-! ### tail far from the isoform's 3' end (converse clause: "distant ends") -/

/-- the isoform exons that lie beyond the tail are never a tolerated "missed terminal exon": every proper non-empty suffix
    of the exon list is longer than `max_fake_terminal_exon_len` and `max_missed_exon_len` (for well-formed exons: the last
    exon alone is).  `front = false`: suffixes (polyA, '+'); `front = true`: prefixes (polyT, '−'). -/
def LongTerminal (p : Params) (iso : List Iv) (front : Bool) : Prop :=
  ∀ c : Nat, 0 < c → c < iso.length →
    let t := intervalsTotalLength (if front then iso.take c else iso.drop (iso.length - c))
    p.max_fake_terminal_exon_len < t ∧ p.max_missed_exon_len < t

theorem missedTerminalOk_false (p : Params) (t : Int) (d : Option Int)
    (h : p.max_fake_terminal_exon_len < t ∧ p.max_missed_exon_len < t) : missedTerminalOk p t d = false := by
  cases d with
  | none => rfl
  | some d => simp only [missedTerminalOk, decide_eq_false_iff_not]; omega

theorem countBeyond_le (pos : Int) : ∀ l : List Iv, countBeyond pos l ≤ l.length := by
  intro l
  induction l with
  | nil => simp [countBeyond]
  | cons e es ih => unfold countBeyond; split <;> simp <;> omega

theorem countBefore_le (pos : Int) : ∀ l : List Iv, countBefore pos l ≤ l.length := by
  intro l
  induction l with
  | nil => simp [countBefore]
  | cons e es ih => unfold countBefore; split <;> simp <;> omega

theorem detectBeyondPolya_id (p : Params) (iso : List Iv) (ext int : Int) (evs : List Event)
    (hne : iso ≠ []) (hlong : LongTerminal p iso false) :
    detectBeyondPolya p iso ext int evs = some (evs, ext, int) := by
  unfold detectBeyondPolya
  extract_lets pos c
  split
  · rfl
  · rename_i hc
    have hc1 : 0 < c := by omega
    have hc2 : c < iso.length := by
      have := countBeyond_le pos iso.reverse
      simp only [List.length_reverse] at this
      omega
    have hlast : ∃ l, iso.getLast? = some l := by
      cases hh : iso.getLast? with
      | none => simp at hh; exact absurd hh hne
      | some l => exact ⟨l, rfl⟩
    obtain ⟨l, hl⟩ := hlast
    have hget : ∃ b, pyGet? iso (-(c : Int) - 1) = some b := by
      unfold pyGet?
      have h1 : ¬ (0 ≤ -(c : Int) - 1) := by omega
      have h2 : -(iso.length : Int) ≤ -(c : Int) - 1 := by omega
      simp only [h1, h2, if_true, if_false]
      have : ((iso.length : Int) + (-(c : Int) - 1)).toNat < iso.length := by omega
      exact ⟨iso[((iso.length : Int) + (-(c : Int) - 1)).toNat], by simp [this]⟩
    obtain ⟨b, hb⟩ := hget
    have ht := hlong c hc1 hc2
    simp only [Bool.false_eq_true, if_false] at ht
    have hf := missedTerminalOk_false p _ (minInf (distOrInf b.2 ext) (distOrInf b.2 int)) ht
    simp +zetaDelta only [hb, hl, hf, Bool.false_eq_true, if_false]

theorem detectBeforePolyt_id (p : Params) (iso : List Iv) (ext int : Int) (evs : List Event)
    (hne : iso ≠ []) (hlong : LongTerminal p iso true) :
    detectBeforePolyt p iso ext int evs = some (evs, ext, int) := by
  unfold detectBeforePolyt
  extract_lets pos c
  split
  · rfl
  · rename_i hc
    have hc1 : 0 < c := by omega
    have hc2 : c < iso.length := by
      have := countBefore_le pos iso
      omega
    have hhead : ∃ l, iso.head? = some l := by
      cases iso with
      | nil => exact absurd rfl hne
      | cons a _ => exact ⟨a, rfl⟩
    obtain ⟨l, hl⟩ := hhead
    have hb : iso[c]? = some iso[c] := by simp [hc2]
    have ht := hlong c hc1 hc2
    simp only [if_true] at ht
    have hf := missedTerminalOk_false p _ (minInf (distOrInf iso[c].1 ext) (distOrInf iso[c].1 int)) ht
    simp +zetaDelta only [hb, hl, hf, Bool.false_eq_true, if_false]

theorem iabs_sub_comm (a b : Int) : iabs (a - b) = iabs (b - a) := by
  unfold iabs; split <;> split <;> omega

theorem shiftPolya_zero (read : List Iv) (pos : Int) : shiftPolya read 0 pos = some pos := by
  simp [shiftPolya]

theorem shiftPolyt_zero (read : List Iv) (pos : Int) : shiftPolyt read 0 pos = some pos := by
  simp [shiftPolyt]

/-- **tail far from T's 3' end, '+' isoform** (3'-truncated read whose aligned end is A-rich — internal priming —, or an
    alternative polyA site): when no event of the right end re-interprets the tail (no `fake_terminal_exon_right`, no
    `terminal_exon_misalignment_right`) and the exons of T beyond the tail are no "missed terminal exons", `verify_polya`
    appends `alternative_polya_site_right` with the position it judged -/
theorem verifyPolya_tail_far (p : Params) (iso read : List Iv) (pa : PolyA) (evs0 : List Event) (lastE : Iv)
    (hl : iso.getLast? = some lastE) (hread : read ≠ [])
    (hfar : TailBeyond p.apa_delta lastE.2 pa.extA pa.intA)
    (hfake : countTy evs0 .fake_terminal_exon_right = 0) (hmis : countTy evs0 .terminal_exon_misalignment_right = 0)
    (hlong : LongTerminal p iso false) :
    verifyPolya p iso read pa evs0 =
      some (eraseLastOf evs0 .major_exon_elongation_right .exon_elongation_right ++
            [{ ty := .alternative_polya_site_right, info := if pa.intA = -1 then pa.extA else pa.intA }]) := by
  have hne : iso ≠ [] := by intro c; rw [c] at hl; simp at hl
  have hlen : ¬ (0 ≥ read.length) := by
    have : 0 < read.length := List.length_pos_iff.mpr hread
    omega
  unfold verifyPolya
  simp only [hl, hfake, hmis, checkIfClose_none_of_beyond p lastE.2 pa.extA pa.intA _ _ hfar, hlen, if_false,
    shiftPolya_zero, Nat.lt_irrefl, gt_iff_lt, detectBeyondPolya_id p iso pa.extA pa.intA _ hne hlong]
  obtain ⟨h1, h2, h3⟩ := hfar
  have : p.apa_delta < iabs ((if pa.intA = -1 then pa.extA else pa.intA) - lastE.2) := by
    rw [iabs_sub_comm]
    split
    · rename_i hi
      rcases h2 with h2 | h2
      · rcases h1 with h1 | h1
        · exact absurd h2 h1
        · exact absurd hi h1
      · exact h2
    · rename_i hi
      rcases h3 with h3 | h3
      · exact absurd h3 hi
      · exact h3
  simp only [this, if_true]

/-- mirror image: polyT head far from the 3' end (low-coordinate end) of a '−' isoform -/
theorem verifyPolyt_tail_far (p : Params) (iso read : List Iv) (pa : PolyA) (evs0 : List Event) (firstE : Iv)
    (hl : iso.head? = some firstE) (hread : read ≠ [])
    (hfar : TailBeyond p.apa_delta firstE.1 pa.extT pa.intT)
    (hfake : countTy evs0 .fake_terminal_exon_left = 0) (hmis : countTy evs0 .terminal_exon_misalignment_left = 0)
    (hlong : LongTerminal p iso true) :
    verifyPolyt p iso read pa evs0 =
      some (eraseLastOf evs0 .major_exon_elongation_left .exon_elongation_left ++
            [{ ty := .alternative_polya_site_left, info := if pa.intT = -1 then pa.extT else pa.intT }]) := by
  have hne : iso ≠ [] := by intro c; rw [c] at hl; simp at hl
  have hlen : ¬ (0 ≥ read.length) := by
    have : 0 < read.length := List.length_pos_iff.mpr hread
    omega
  unfold verifyPolyt
  simp only [hl, hfake, hmis, checkIfClose_none_of_beyond p firstE.1 pa.extT pa.intT _ _ hfar, hlen, if_false,
    shiftPolyt_zero, Nat.lt_irrefl, gt_iff_lt, detectBeforePolyt_id p iso pa.extT pa.intT _ hne hlong]
  obtain ⟨h1, h2, h3⟩ := hfar
  have : p.apa_delta < iabs ((if pa.intT = -1 then pa.extT else pa.intT) - firstE.1) := by
    rw [iabs_sub_comm]
    split
    · rename_i hi
      rcases h2 with h2 | h2
      · rcases h1 with h1 | h1
        · exact absurd h2 h1
        · exact absurd hi h1
      · exact h2
    · rename_i hi
      rcases h3 with h3 | h3
      · exact absurd h3 hi
      · exact h3
  simp only [this, if_true]

theorem alternative_polya_site_is_major :
    MatchEventSubtype.alternative_polya_site_right.is_major_inconsistency = true ∧
    MatchEventSubtype.alternative_polya_site_left.is_major_inconsistency = true := by decide

/-- the tail the read carries lies far from the 3' end of isoform `I` and nothing at that end re-interprets it:
    strand known, `TailBeyond apa_delta`, the exons of `I` beyond the tail are no missed terminal exons (`LongTerminal`) -/
def TailFar (p : Params) (rp : ReadProf) (I : IsoInfo) : Prop :=
  match I.strand with
  | .plus => ∃ lastE, I.exons.getLast? = some lastE ∧ TailBeyond p.apa_delta lastE.2 rp.polya.extA rp.polya.intA ∧
      LongTerminal p I.exons false
  | .minus => ∃ firstE, I.exons.head? = some firstE ∧ TailBeyond p.apa_delta firstE.1 rp.polya.extT rp.polya.intT ∧
      LongTerminal p I.exons true
  | .other => False

/-- no event of the list lets polyA verification re-interpret the tail at I's 3' end: no fake terminal exon, no terminal
    exon misalignment, no incomplete intron retention on that side (the comparator emits these only for reads that do NOT
    follow the isoform there) -/
def NoEndArtifact (I : IsoInfo) (evs : List Event) : Prop :=
  match I.strand with
  | .plus => ∀ e ∈ evs, e.ty ≠ .fake_terminal_exon_right ∧ e.ty ≠ .terminal_exon_misalignment_right ∧
      e.ty ≠ .incomplete_intron_retention_right
  | .minus => ∀ e ∈ evs, e.ty ≠ .fake_terminal_exon_left ∧ e.ty ≠ .terminal_exon_misalignment_left ∧
      e.ty ≠ .incomplete_intron_retention_left
  | .other => True

theorem countTy_zero {evs : List Event} {t : MatchEventSubtype} (h : ∀ e ∈ evs, e.ty ≠ t) : countTy evs t = 0 := by
  unfold countTy
  simp only [List.length_eq_zero_iff, List.filter_eq_nil_iff, decide_eq_true_eq]
  exact h

/-- **converse clause at the level of one isoform**: a far tail makes polyA verification add a major-inconsistency event -/
theorem verifyReadEnds_tail_far_major (p : Params) (rp : ReadProf) (I : IsoInfo) (evs r : List Event)
    (hblocks : rp.blocks ≠ []) (hfar : TailFar p rp I) (hart : NoEndArtifact I evs)
    (hr : verifyReadEnds p rp I evs = some r) : ∃ e ∈ r, e.ty.is_major_inconsistency = true := by
  unfold verifyReadEnds at hr
  simp only [Option.map_eq_some_iff] at hr
  obtain ⟨r0, hr0, rfl⟩ := hr
  suffices hk : ∃ e ∈ r0, e.ty.is_major_inconsistency = true by
    obtain ⟨e, he, hm⟩ := hk
    have : r0.isEmpty = false := by cases r0 <;> simp_all
    simp only [this, Bool.false_eq_true, if_false]
    exact ⟨e, he, hm⟩
  cases hs : I.strand with
  | other => simp [TailFar, hs] at hfar
  | plus =>
    simp only [TailFar, hs] at hfar
    obtain ⟨lastE, hl, hb, hlong⟩ := hfar
    simp only [NoEndArtifact, hs] at hart
    simp only [hs] at hr0
    have hci : checkInternal rp.polya.intA evs .incomplete_intron_retention_right .internal_polya_right = (evs, false) := by
      unfold checkInternal
      split
      · rfl
      · have : evs.find? (fun e => decide (e.ty = .incomplete_intron_retention_right)) = none := by
          simp only [List.find?_eq_none, decide_eq_true_eq]
          exact fun e he => (hart e he).2.2
        simp only [this]
    have hpres : (rp.polya.extA ≠ -1 || rp.polya.intA ≠ -1) = true := by
      rcases hb.1 with h | h <;> simp [h]
    simp only [hci, Bool.not_false, Bool.true_and, hpres, if_true] at hr0
    rw [verifyPolya_tail_far p I.exons rp.blocks rp.polya evs lastE hl hblocks hb
      (countTy_zero fun e he => (hart e he).1) (countTy_zero fun e he => (hart e he).2.1) hlong] at hr0
    simp only [Option.some.injEq] at hr0
    subst hr0
    exact ⟨_, List.mem_append_right _ (List.mem_singleton.mpr rfl), alternative_polya_site_is_major.1⟩
  | minus =>
    simp only [TailFar, hs] at hfar
    obtain ⟨firstE, hl, hb, hlong⟩ := hfar
    simp only [NoEndArtifact, hs] at hart
    simp only [hs] at hr0
    have hci : checkInternal rp.polya.intT evs .incomplete_intron_retention_left .internal_polya_left = (evs, false) := by
      unfold checkInternal
      split
      · rfl
      · have : evs.find? (fun e => decide (e.ty = .incomplete_intron_retention_left)) = none := by
          simp only [List.find?_eq_none, decide_eq_true_eq]
          exact fun e he => (hart e he).2.2
        simp only [this]
    have hpres : (rp.polya.extT ≠ -1 || rp.polya.intT ≠ -1) = true := by
      rcases hb.1 with h | h <;> simp [h]
    simp only [hci, Bool.not_false, Bool.true_and, hpres, if_true] at hr0
    rw [verifyPolyt_tail_far p I.exons rp.blocks rp.polya evs firstE hl hblocks hb
      (countTy_zero fun e he => (hart e he).1) (countTy_zero fun e he => (hart e he).2.1) hlong] at hr0
    simp only [Option.some.injEq] at hr0
    subst hr0
    exact ⟨_, List.mem_append_right _ (List.mem_singleton.mpr rfl), alternative_polya_site_is_major.2⟩

/-- the two end artifacts that are NOT major inconsistencies (the ones that let polyA verification re-interpret a far tail:
    "we believe the isoform end is a true polyA site"): no fake terminal exon, no terminal exon misalignment at I's 3' end.
    `incomplete_intron_retention_*` needs no exclusion: it is itself a major inconsistency and survives polyA verification -/
def NoEndArtifactW (I : IsoInfo) (evs : List Event) : Prop :=
  match I.strand with
  | .plus => ∀ e ∈ evs, e.ty ≠ .fake_terminal_exon_right ∧ e.ty ≠ .terminal_exon_misalignment_right
  | .minus => ∀ e ∈ evs, e.ty ≠ .fake_terminal_exon_left ∧ e.ty ≠ .terminal_exon_misalignment_left
  | .other => True

theorem noEndArtifact_weaken {I : IsoInfo} {evs : List Event} (h : NoEndArtifact I evs) : NoEndArtifactW I evs := by
  unfold NoEndArtifact at h
  unfold NoEndArtifactW
  cases hs : I.strand <;> simp only [hs] at h ⊢
  · intro e he; exact ⟨(h e he).1, (h e he).2.1⟩
  · intro e he; exact ⟨(h e he).1, (h e he).2.1⟩

theorem noEndArtifactW_append {I : IsoInfo} {a b : List Event} (ha : NoEndArtifactW I a) (hb : NoEndArtifactW I b) :
    NoEndArtifactW I (a ++ b) := by
  unfold NoEndArtifactW at ha hb ⊢
  cases hs : I.strand <;> simp only [hs] at ha hb ⊢
  · intro e he; rcases List.mem_append.mp he with he | he
    · exact ha e he
    · exact hb e he
  · intro e he; rcases List.mem_append.mp he with he | he
    · exact ha e he
    · exact hb e he

/-- **converse clause at the level of one isoform, weakest artifact hypothesis**: a far tail leaves a major-inconsistency
    event in the verified list — `alternative_polya_site_*`, or an `incomplete_intron_retention_*` event that was there -/
theorem verifyReadEnds_tail_far_major_w (p : Params) (rp : ReadProf) (I : IsoInfo) (evs r : List Event)
    (hblocks : rp.blocks ≠ []) (hfar : TailFar p rp I) (hart : NoEndArtifactW I evs)
    (hr : verifyReadEnds p rp I evs = some r) : ∃ e ∈ r, e.ty.is_major_inconsistency = true := by
  by_cases hinc : ∃ e ∈ evs, e.ty = .incomplete_intron_retention_right ∨ e.ty = .incomplete_intron_retention_left
  · obtain ⟨e, he, ht⟩ := hinc
    have hne : NotElongation e.ty := by
      unfold NotElongation
      rcases ht with ht | ht <;> (rw [ht]; decide)
    refine ⟨e, verifyReadEnds_has he hne hr, ?_⟩
    rcases ht with ht | ht <;> (rw [ht]; decide)
  · have hno : ∀ e ∈ evs, e.ty ≠ .incomplete_intron_retention_right ∧ e.ty ≠ .incomplete_intron_retention_left := by
      intro e he
      exact ⟨fun h => hinc ⟨e, he, Or.inl h⟩, fun h => hinc ⟨e, he, Or.inr h⟩⟩
    apply verifyReadEnds_tail_far_major p rp I evs r hblocks hfar ?_ hr
    unfold NoEndArtifactW at hart
    unfold NoEndArtifact
    cases hs : I.strand <;> simp only [hs] at hart ⊢
    · intro e he; exact ⟨(hart e he).1, (hart e he).2, (hno e he).1⟩
    · intro e he; exact ⟨(hart e he).1, (hart e he).2, (hno e he).2⟩

/-- **tail_far_never_consistent_partial** (converse clause, "distant ends", assignment level; the paths that end in
    `match_inconsistent` only — `tail_far_never_consistent` below covers every path): let the tail the read carries be far
    (`TailFar`: beyond `apa_delta`, no missed terminal exons) from the 3' end of EVERY isoform of the gene, and let the
    comparator report no end artifact for any of them.  Then an assignment that comes from `match_inconsistent` — directly or
    as the fall-back of `match_consistent` — is never unique / unique_minor_difference / ambiguous.
    (The elongation events never are end artifacts: `elongation_no_artifact`.) -/
theorem tail_far_never_consistent_partial (g : Gene) (p : Params) (rp : ReadProf) (cj : Nat → Option (List Event))
    (a : Assignment) (path : Path) (hblocks : rp.blocks ≠ [])
    (hfar : ∀ I ∈ g.isos, TailFar p rp I)
    (hcj : ∀ I ∈ g.isos, ∀ ev, cj I.id = some ev → NoEndArtifactW I ev)
    (hel : ∀ I ∈ g.isos, ∀ el, elongationEvents g p rp I = some el → NoEndArtifactW I el)
    (h : assignToIsoform g p rp cj = some (a, path)) (hpath : path = .inconsistent ∨ path = .fallback) :
    a.ty.is_consistent = false := by
  have hmi : matchInconsistent g p rp cj = some a := by
    obtain ⟨h1, h2, h3, h4⟩ := IsoVerif.Props.C01Far.path_of_dispatch g p rp cj a path h
    cases hd : dispatch g rp with
    | intergenic => have := h1 hd; rcases hpath with hp | hp <;> (rw [hp] at this; cases this)
    | noninformative => have := h2 hd; rcases hpath with hp | hp <;> (rw [hp] at this; cases this)
    | inconsistent => exact (h3 hd).2
    | consistent =>
      rcases h4 hd with ⟨hp, _⟩ | ⟨_, _, hm⟩
      · rcases hpath with hp' | hp' <;> (rw [hp'] at hp; cases hp)
      · exact hm
    | fallback =>
      exfalso
      unfold dispatch at hd
      split at hd <;> (try split at hd) <;> (try split at hd) <;> (try split at hd) <;> cases hd
  rcases matchInconsistent_spec g p rp cj a hmi with hni | ⟨best, hne, hty, hsel⟩
  · rw [hni]; decide
  · cases hb : best with
    | nil => exact absurd hb hne
    | cons Ie rest =>
      have hIe : Ie ∈ best := by rw [hb]; exact List.mem_cons_self
      obtain ⟨hI, ev0, el, hc, _, hee, hv⟩ := hsel Ie hIe
      have hart : NoEndArtifactW Ie.1 (ev0 ++ el) := noEndArtifactW_append (hcj Ie.1 hI ev0 hc) (hel Ie.1 hI el hee)
      obtain ⟨e, he, hm⟩ := verifyReadEnds_tail_far_major_w p rp Ie.1 (ev0 ++ el) Ie.2 hblocks (hfar Ie.1 hI) hart hv
      cases hcons : a.ty.is_consistent with
      | false => rfl
      | true =>
        exfalso
        rw [hty] at hcons
        unfold classifyAssignment at hcons
        have hno := ((classify_consistent_iff _ _).mp hcons).1
        have : e.ty.is_major_inconsistency = false := by
          apply hno
          simp only [List.mem_flatMap, List.mem_map]
          exact ⟨Ie.2, ⟨Ie, hIe, rfl⟩, e, he, rfl⟩
        rw [this] at hm; cases hm

/-- the elongation test emits terminal-site matches and exon elongations only -/
theorem elongation_types (g : Gene) (p : Params) (rp : ReadProf) (I : IsoInfo) (el : List Event)
    (h : elongationEvents g p rp I = some el) :
    ∀ e ∈ el, e.ty = .terminal_site_match_left_precise ∨ e.ty = .terminal_site_match_left ∨
      e.ty = .major_exon_elongation_left ∨ e.ty = .exon_elongation_left ∨ e.ty = .terminal_site_match_right_precise ∨
      e.ty = .terminal_site_match_right ∨ e.ty = .major_exon_elongation_right ∨ e.ty = .exon_elongation_right := by
  have hend : ∀ (t : Bool) (x : Int) (a b c d : MatchEventSubtype), ∀ e ∈ endEvents p t x a b c d,
      e.ty = a ∨ e.ty = b ∨ e.ty = c ∨ e.ty = d := by
    intro t x a b c d e he
    unfold endEvents at he
    split at he
    · simp only [List.mem_append] at he
      rcases he with he | he
      · split at he
        · simp only [List.mem_singleton] at he; subst he
          simp only; split <;> simp
        · cases he
      · split at he
        · simp only [List.mem_singleton] at he; subst he; simp
        · split at he
          · simp only [List.mem_singleton] at he; subst he; simp
          · cases he
    · split at he
      · simp only [List.mem_singleton] at he; subst he; simp
      · cases he
  unfold elongationEvents at h
  simp only at h
  split at h
  · simp at h
  · split at h
    · simp at h
    · split at h
      · simp at h
      · split at h
        · simp at h
        · split at h
          · simp at h; subst h
            intro e he
            rcases List.mem_append.mp he with he | he
            · split at he
              · rcases hend _ _ _ _ _ _ e he with h | h | h | h <;> simp [h]
              · cases he
            · split at he
              · rcases hend _ _ _ _ _ _ e he with h | h | h | h <;> simp [h]
              · cases he
          · simp at h

/-- none of the six end-artifact types (whatever the strand) -/
def NoArt (evs : List Event) : Prop :=
  ∀ e ∈ evs, e.ty ≠ .fake_terminal_exon_right ∧ e.ty ≠ .terminal_exon_misalignment_right ∧
    e.ty ≠ .incomplete_intron_retention_right ∧ e.ty ≠ .fake_terminal_exon_left ∧
    e.ty ≠ .terminal_exon_misalignment_left ∧ e.ty ≠ .incomplete_intron_retention_left

theorem noArt_noEndArtifact (I : IsoInfo) {evs : List Event} (h : NoArt evs) : NoEndArtifact I evs := by
  unfold NoEndArtifact
  cases hs : I.strand <;> simp only
  · intro e he; obtain ⟨a, b, c, _, _, _⟩ := h e he; exact ⟨a, b, c⟩
  · intro e he; obtain ⟨_, _, _, a, b, c⟩ := h e he; exact ⟨a, b, c⟩

theorem elongation_noArt (g : Gene) (p : Params) (rp : ReadProf) (I : IsoInfo) (el : List Event)
    (h : elongationEvents g p rp I = some el) : NoArt el := by
  intro e he
  rcases elongation_types g p rp I el h e he with h | h | h | h | h | h | h | h <;> simp [h]

/-- the elongation test never emits an end artifact (discharges `hel` of `tail_far_never_consistent_partial`) -/
theorem elongation_no_artifact (g : Gene) (p : Params) (rp : ReadProf) (I : IsoInfo) (el : List Event)
    (h : elongationEvents g p rp I = some el) : NoEndArtifact I el :=
  noArt_noEndArtifact I (elongation_noArt g p rp I el h)

/-! ### the consistent path: `match_consistent` → `check_read_ends` → `verify_read_ends_for_assignment`

Item 1 of what `tail_far_never_consistent_partial` left open: the event lists `match_consistent` hands to polyA
verification are ONE categorisation event (fsm / ism_* / mono_exon_match / mono_exonic / none) plus the elongation events
(`add_subclassification`, model `addSub`): no end artifact.  With a far tail every selected isoform therefore gets
`alternative_polya_site_*`, `classify_assignment` answers an inconsistent type, and `match_consistent` returns None. -/

theorem noArt_single (e : Event) (h : e.ty ≠ .fake_terminal_exon_right ∧ e.ty ≠ .terminal_exon_misalignment_right ∧
    e.ty ≠ .incomplete_intron_retention_right ∧ e.ty ≠ .fake_terminal_exon_left ∧
    e.ty ≠ .terminal_exon_misalignment_left ∧ e.ty ≠ .incomplete_intron_retention_left) : NoArt [e] := by
  intro x hx; simp only [List.mem_singleton] at hx; subst hx; exact h

theorem noArt_append {a b : List Event} (ha : NoArt a) (hb : NoArt b) : NoArt (a ++ b) := by
  intro e he
  rcases List.mem_append.mp he with h | h
  · exact ha e h
  · exact hb e h

theorem noArt_addSub {evs : List Event} {e : Event} (h1 : NoArt evs) (h2 : NoArt [e]) : NoArt (addSub evs e) := by
  unfold addSub
  split
  · split
    · exact h2
    · intro x hx
      simp only [List.mem_cons, List.not_mem_nil, or_false] at hx
      rcases hx with hx | hx
      · subst hx; exact h1 _ (by simp)
      · subst hx; exact h2 _ (by simp)
  · exact noArt_append h1 h2

theorem noArt_foldl_addSub (el : List Event) : ∀ (evs : List Event), NoArt evs → NoArt el →
    NoArt (el.foldl addSub evs) := by
  induction el with
  | nil => intro evs h _; exact h
  | cons e t ih =>
    intro evs h1 h2
    simp only [List.foldl_cons]
    apply ih
    · exact noArt_addSub h1 (fun x hx => by simp only [List.mem_singleton] at hx; subst hx; exact h2 x (by simp))
    · intro x hx; exact h2 x (List.mem_cons_of_mem _ hx)

/-- the categorisation event of `match_consistent_spliced` is no end artifact -/
theorem spliceMatch_noArt (rp : ReadProf) (I : IsoInfo) (m : IsoMatch) (h : spliceMatch rp I = some m) :
    NoArt m.events := by
  unfold spliceMatch at h
  cases hc : categorizeSplice rp I with
  | none => simp [hc] at h
  | some ce =>
    simp [hc] at h; subst h
    simp only [mkMatchOne]
    apply noArt_single
    unfold categorizeSplice at hc
    split at hc
    · simp at hc; subst hc; decide
    · split at hc
      · simp at hc
      · simp at hc; subst hc; decide
      · cases hd : detectIsmSubtype rp I with
        | none => simp [hd] at hc
        | some t =>
          simp [hd] at hc; subst hc
          unfold detectIsmSubtype at hd
          cases hr : regionOf I.introns with
          | none => simp [hr] at hd
          | some r =>
            simp [hr] at hd
            subst hd
            simp only
            split
            · decide
            · split
              · decide
              · split <;> decide

/-- … nor the one of `match_consistent_unspliced` -/
theorem unsplicedMatch_noArt (I : IsoInfo) (m : IsoMatch) (h : unsplicedMatch I = some m) : NoArt m.events := by
  unfold unsplicedMatch at h
  simp only at h
  cases hc : monoExonClassification
      (if I.exons.length = 1 then [({ ty := MatchEventSubtype.mono_exon_match } : Event)]
       else [{ ty := MatchEventSubtype.mono_exonic }]) with
  | none => simp [hc] at h
  | some c =>
    simp [hc] at h; subst h
    simp only [mkMatchList]
    intro e he
    have he' := (List.mem_filter.mp he).1
    split at he'
    · simp only [List.mem_singleton] at he'; subst he'; decide
    · simp only [List.mem_singleton] at he'; subst he'; decide

/-- `check_read_ends` keeps the isoforms and adds elongation events only -/
theorem checkReadEnds_noArt (g : Gene) (p : Params) (rp : ReadProf) (S : List IsoInfo) :
    ∀ (ms : List (IsoInfo × IsoMatch)) (ty : ReadAssignmentType) (r : List (IsoInfo × IsoMatch)) (ty' : ReadAssignmentType),
      checkReadEnds g p rp ms ty = some (r, ty') → (∀ q ∈ ms, q.1 ∈ S ∧ NoArt q.2.events) →
      (∀ q ∈ r, q.1 ∈ S ∧ NoArt q.2.events) ∧ r.length = ms.length := by
  intro ms
  induction ms with
  | nil => intro ty r ty' h _; simp [checkReadEnds] at h; obtain ⟨h1, _⟩ := h; subst h1; simp
  | cons q t ih =>
    intro ty r ty' h hok
    obtain ⟨I, m⟩ := q
    simp only [checkReadEnds] at h
    cases hel : elongationEvents g p rp I with
    | none => simp [hel] at h
    | some el =>
      simp only [hel] at h
      split at h
      · simp at h
      · rename_i r' t' hrec
        simp at h
        obtain ⟨hr, _⟩ := h
        subst hr
        obtain ⟨ih1, ih2⟩ := ih _ r' t' hrec (fun q hq => hok q (List.mem_cons_of_mem _ hq))
        obtain ⟨hS, hna⟩ := hok (I, m) (by simp)
        refine ⟨?_, by simp [ih2]⟩
        intro q hq
        rcases List.mem_cons.mp hq with hq | hq
        · subst hq
          exact ⟨hS, noArt_foldl_addSub el m.events hna (elongation_noArt g p rp I el hel)⟩
        · exact ih1 q hq

/-- `verify_read_ends_for_assignment` with a far tail for every match: the new type is inconsistent -/
theorem verifyEnds_tail_far (p : Params) (rp : ReadProf) (ms r : List (IsoInfo × IsoMatch)) (ty : ReadAssignmentType)
    (hblocks : rp.blocks ≠ []) (h : verifyEndsForAssignment p rp ms = some (r, ty)) (hne : ms ≠ [])
    (hok : ∀ q ∈ ms, TailFar p rp q.1 ∧ NoArt q.2.events) : ty.is_inconsistent = true := by
  unfold verifyEndsForAssignment at h
  split at h
  · simp at h
  · rename_i ms' hms
    simp at h
    obtain ⟨h1, h2⟩ := h
    subst h1
    have hz := mapOpt_spec _ _ _ hms
    have hlen := forall₂_length hz
    cases hq : ms' with
    | nil =>
      rw [hq] at hlen
      simp only [List.length_nil] at hlen
      exact absurd (List.length_eq_zero_iff.mp hlen) hne
    | cons q' rest =>
      have hq'm : q' ∈ ms' := by rw [hq]; exact List.mem_cons_self
      obtain ⟨q0, hq0, hq0q⟩ := forall₂_mem_right hz q' hq'm
      cases hv : verifyReadEnds p rp q0.1 q0.2.events with
      | none => simp [hv] at hq0q
      | some e =>
        simp [hv] at hq0q
        obtain ⟨hfar, hna⟩ := hok q0 hq0
        obtain ⟨x, hx, hm⟩ := verifyReadEnds_tail_far_major p rp q0.1 q0.2.events e hblocks hfar
          (noArt_noEndArtifact q0.1 hna) hv
        rw [← h2]
        unfold classifyAssignment
        apply (classify_sound _ _).mpr
        refine ⟨x.ty, ?_, hm⟩
        simp only [List.mem_flatMap, List.mem_map]
        refine ⟨e, ⟨q', hq'm, ?_⟩, x, hx, rfl⟩
        rw [← hq0q]

/-- **the consistent path cannot produce an assignment for a read whose tail is far from every isoform's 3' end**:
    `match_consistent` returns None (or raises) — whatever the candidates, the resolution and the elongation events are -/
theorem tail_far_not_consistent_path (g : Gene) (p : Params) (rp : ReadProf) (a : Assignment) (hblocks : rp.blocks ≠ [])
    (hfar : ∀ I ∈ g.isos, TailFar p rp I) : matchConsistent g p rp ≠ some (some a) := by
  intro h
  unfold matchConsistent at h
  split at h
  · simp at h
  · simp at h
  · rename_i cons hcons
    simp only at h
    split at h
    · simp at h
    · rename_i matched hsel
      split at h
      · simp at h
      · rename_i hne
        split at h
        · simp at h
        · rename_i ms hms
          split at h
          · simp at h
          · rename_i ms1 ty1 hcre
            split at h
            · simp at h
            · rename_i ms2 ty2 hver
              split at h
              · simp at h
              · rename_i hninc
                have hsub : ∀ I ∈ matched, I ∈ g.isos := by
                  intro I hI
                  have hIc : I ∈ cons := by
                    split at hsel
                    · exact selectSpliced_sub p rp cons matched hsel I hI
                    · exact selectUnspliced_sub p rp cons matched hsel I hI
                  exact (consistentIsoforms_mem g p rp cons hcons I hIc).1
                have hz := mapOpt_spec _ _ _ hms
                have hok0 : ∀ q ∈ ms, q.1 ∈ matched ∧ NoArt q.2.events := by
                  intro q hq
                  obtain ⟨I, hI, hIq⟩ := forall₂_mem_right hz q hq
                  split at hIq
                  · cases hsm : spliceMatch rp I with
                    | none => simp [hsm] at hIq
                    | some m =>
                      simp [hsm] at hIq; subst hIq
                      exact ⟨hI, spliceMatch_noArt rp I m hsm⟩
                  · cases hsm : unsplicedMatch I with
                    | none => simp [hsm] at hIq
                    | some m =>
                      simp [hsm] at hIq; subst hIq
                      exact ⟨hI, unsplicedMatch_noArt I m hsm⟩
                obtain ⟨hok1, hl1⟩ := checkReadEnds_noArt g p rp matched ms _ ms1 ty1 hcre hok0
                have hl0 := forall₂_length hz
                have hms1 : ms1 ≠ [] := by
                  intro e
                  rw [e] at hl1
                  simp only [List.length_nil] at hl1
                  have : matched.length = 0 := by omega
                  apply hne
                  simp [List.length_eq_zero_iff.mp this]
                have := verifyEnds_tail_far p rp ms1 ms2 ty2 hblocks hver hms1
                  (fun q hq => ⟨hfar q.1 (hsub q.1 (hok1 q hq).1), (hok1 q hq).2⟩)
                exact hninc this

/-- the two paths that never call a matcher: the type is the path's own -/
theorem assign_trivial_ty (g : Gene) (p : Params) (rp : ReadProf) (cj : Nat → Option (List Event)) (a : Assignment)
    (path : Path) (h : assignToIsoform g p rp cj = some (a, path)) :
    (path = .intergenic → a.ty = .intergenic) ∧ (path = .noninformative → a.ty = .noninformative) := by
  unfold assignToIsoform at h
  split at h
  · simp only [Option.some.injEq, Prod.mk.injEq] at h
    obtain ⟨rfl, rfl⟩ := h
    exact ⟨fun _ => rfl, nofun⟩
  · cases hn : noninformativeAssignment g rp with
    | none => simp [hn] at h
    | some a' =>
      simp only [hn, Option.map_some, Option.some.injEq, Prod.mk.injEq] at h
      obtain ⟨rfl, rfl⟩ := h
      refine ⟨nofun, fun _ => ?_⟩
      unfold noninformativeAssignment at hn
      split at hn
      · cases hn
      · simp only [Option.some.injEq] at hn; subst hn; rfl
  · simp only [Option.map_eq_some_iff, Prod.mk.injEq] at h
    obtain ⟨_, _, _, rfl⟩ := h
    exact ⟨nofun, nofun⟩
  · split at h
    · cases h
    · simp only [Option.some.injEq, Prod.mk.injEq] at h
      obtain ⟨_, rfl⟩ := h
      exact ⟨nofun, nofun⟩
    · simp only [Option.map_eq_some_iff, Prod.mk.injEq] at h
      obtain ⟨_, _, _, rfl⟩ := h
      exact ⟨nofun, nofun⟩

/-- **tail_far_never_consistent** (converse clause, "distant ends", assignment level, EVERY path of `assign_to_isoform`):
    let the tail the read carries be far (`TailFar`: beyond `apa_delta`, no missed terminal exons) from the 3' end of EVERY
    isoform of the gene, and let the comparator report no fake terminal exon / terminal exon misalignment at that end for
    any of them (`NoEndArtifactW`; derived from the read's geometry in `tail_far_never_consistent_geom`).  Then the assignment is never
    unique / unique_minor_difference / ambiguous, and it never comes from the consistent path: `match_consistent` itself
    gives the read up (`tail_far_not_consistent_path`), `match_inconsistent` reports `alternative_polya_site_*`
    (`tail_far_never_consistent_partial`), the two remaining paths are intergenic / noninformative. -/
theorem tail_far_never_consistent (g : Gene) (p : Params) (rp : ReadProf) (cj : Nat → Option (List Event))
    (a : Assignment) (path : Path) (hblocks : rp.blocks ≠ [])
    (hfar : ∀ I ∈ g.isos, TailFar p rp I)
    (hcj : ∀ I ∈ g.isos, ∀ ev, cj I.id = some ev → NoEndArtifactW I ev)
    (h : assignToIsoform g p rp cj = some (a, path)) :
    a.ty.is_consistent = false ∧ path ≠ .consistent := by
  have hnc : path ≠ .consistent := by
    intro hp
    obtain ⟨h1, h2, h3, h4⟩ := IsoVerif.Props.C01Far.path_of_dispatch g p rp cj a path h
    cases hd : dispatch g rp with
    | intergenic => have := h1 hd; rw [hp] at this; cases this
    | noninformative => have := h2 hd; rw [hp] at this; cases this
    | inconsistent => have := (h3 hd).1; rw [hp] at this; cases this
    | consistent =>
      rcases h4 hd with ⟨_, hm⟩ | ⟨hp', _⟩
      · exact tail_far_not_consistent_path g p rp a hblocks hfar hm
      · rw [hp] at hp'; cases hp'
    | fallback =>
      unfold dispatch at hd
      split at hd <;> (try split at hd) <;> (try split at hd) <;> (try split at hd) <;> cases hd
  refine ⟨?_, hnc⟩
  obtain ⟨t1, t2⟩ := assign_trivial_ty g p rp cj a path h
  cases path with
  | intergenic => rw [t1 rfl]; decide
  | noninformative => rw [t2 rfl]; decide
  | consistent => exact absurd rfl hnc
  | inconsistent =>
    exact tail_far_never_consistent_partial g p rp cj a _ hblocks hfar hcj
      (fun I _ el hel => noEndArtifact_weaken (elongation_no_artifact g p rp I el hel)) h (Or.inl rfl)
  | fallback =>
    exact tail_far_never_consistent_partial g p rp cj a _ hblocks hfar hcj
      (fun I _ el hel => noEndArtifact_weaken (elongation_no_artifact g p rp I el hel)) h (Or.inr rfl)

/-! ### item 2: the comparator hypothesis derived from the GEOMETRY of the read -/

/-- position-only form of "nothing at the read's 3' end (w.r.t. isoform `I`) can be taken for a fake terminal exon or a
    misaligned terminal exon": the read's outermost exon on I's 3' side is longer than `max_fake_terminal_exon_len`
    (spliced reads) and, for reads with at least two introns, differs from I's outermost exon on that side by at least 2δ in
    length (`endCleanRight` / `endCleanLeft`, Model/JunctionSpec.lean) -/
def EndGeom (p : Params) (rp : ReadProf) (I : IsoInfo) : Prop :=
  match I.strand with
  | .plus => endCleanRight p rp.introns rp.region I.introns I.region = true
  | .minus => endCleanLeft p rp.introns rp.region I.introns I.region = true
  | .other => True

instance (p : Params) (rp : ReadProf) (I : IsoInfo) : Decidable (EndGeom p rp I) := by
  unfold EndGeom; cases I.strand <;> infer_instance

/-- **`hcj` from the geometry**: under `EndGeom` the MODELLED comparator reports no end artifact that could re-interpret
    the tail (all inputs: no well-formedness of the chains is assumed) -/
theorem cjModel_no_end_artifact (ms : List Isoform) (g : Gene) (p : Params) (q : CParams) (rp : ReadProf)
    (hg : Gene.fromModels ms = some g) (I : IsoInfo) (hI : I ∈ g.isos) (hgeo : EndGeom p rp I) (ev : List Event)
    (h : cjModel g p q rp I.id = some ev) : NoEndArtifactW I ev := by
  unfold cjModel at h
  split at h
  · cases h
  · rename_i I' hfind
    have hI' : I' ∈ g.isos := List.mem_of_find?_eq_some hfind
    have hid : I'.id = I.id := by
      have := List.find?_some hfind
      simpa using this
    have heq : I' = I := pairwise_id_inj g.isos (isos_pairwise ms g hg) I' hI' I hI hid
    subst heq
    unfold EndGeom at hgeo
    unfold NoEndArtifactW
    cases hs : I'.strand <;> simp only [hs] at hgeo ⊢
    · exact compareJunctions_clean_right (cmpCtxOf g p q) _ _ _ _ ev h hgeo
    · exact compareJunctions_clean_left (cmpCtxOf g p q) _ _ _ _ ev h hgeo

/-- **tail_far_never_consistent_geom** (converse clause, "distant ends", every path, comparator modelled, hypotheses on
    POSITIONS only): if the tail the read carries is far (`TailFar`: every reported position farther than `apa_delta` from
    the annotated 3' end, no missed terminal exons) from EVERY isoform of the gene and the read's end is `EndGeom`-clean for
    every isoform, `assign_to_isoform` never reports unique / unique_minor_difference / ambiguous and never answers from
    the consistent path.  No hypothesis on the comparator's output, the profiles, the candidates or the scores. -/
theorem tail_far_never_consistent_geom (ms : List Isoform) (g : Gene) (p : Params) (q : CParams) (rp : ReadProf)
    (a : Assignment) (path : Path) (hg : Gene.fromModels ms = some g) (hblocks : rp.blocks ≠ [])
    (hfar : ∀ I ∈ g.isos, TailFar p rp I) (hgeo : ∀ I ∈ g.isos, EndGeom p rp I)
    (h : assignToIsoformM g p q rp = some (a, path)) :
    a.ty.is_consistent = false ∧ path ≠ .consistent :=
  tail_far_never_consistent g p rp (cjModel g p q rp) a path hblocks hfar
    (fun I hI ev hev => cjModel_no_end_artifact ms g p q rp hg I hI (hgeo I hI) ev hev) h

/-! ### Boolean form (what the driver evaluates for the oracle) -/

theorem tailBeyondB_iff (d stop ext int : Int) : tailBeyondB d stop ext int = true ↔ TailBeyond d stop ext int := by
  simp only [tailBeyondB, TailBeyond, Bool.and_eq_true, Bool.or_eq_true, decide_eq_true_eq, and_assoc]

theorem longTerminalB_iff (p : Params) (iso : List Iv) (front : Bool) :
    longTerminalB p iso front = true ↔ LongTerminal p iso front := by
  unfold LongTerminal
  simp only [longTerminalB, List.all_eq_true, List.mem_range, Bool.or_eq_true, beq_iff_eq, Bool.and_eq_true,
    decide_eq_true_eq]
  constructor
  · intro h c hc0 hcl
    rcases h c hcl with h0 | h
    · omega
    · exact h
  · intro h c hcl
    by_cases hc : c = 0
    · exact Or.inl hc
    · exact Or.inr (h c (by omega) hcl)

theorem tailFarB_iff (p : Params) (rp : ReadProf) (I : IsoInfo) : tailFarB p rp I = true ↔ TailFar p rp I := by
  unfold tailFarB TailFar
  cases hs : I.strand <;> simp only
  · cases hl : I.exons.getLast? with
    | none => simp
    | some l => simp [tailBeyondB_iff, longTerminalB_iff]
  · cases hl : I.exons.head? with
    | none => simp
    | some f => simp [tailBeyondB_iff, longTerminalB_iff]
  · simp

theorem endGeomB_iff (p : Params) (rp : ReadProf) (I : IsoInfo) : endGeomB p rp I = true ↔ EndGeom p rp I := by
  unfold endGeomB EndGeom
  cases hs : I.strand <;> simp

/-- `tail_far_never_consistent_geom` with the hypotheses in the Boolean form the driver evaluates (`C01.tail_clause_hyp`) -/
theorem tail_far_never_consistent_b (ms : List Isoform) (g : Gene) (p : Params) (q : CParams) (rp : ReadProf)
    (a : Assignment) (path : Path) (hg : Gene.fromModels ms = some g) (hyp : tailClauseHyp g p rp = true)
    (h : assignToIsoformM g p q rp = some (a, path)) : a.ty.is_consistent = false ∧ path ≠ .consistent := by
  simp only [tailClauseHyp, Bool.and_eq_true, Bool.not_eq_true', List.isEmpty_eq_false_iff, List.all_eq_true] at hyp
  obtain ⟨hb, hall⟩ := hyp
  exact tail_far_never_consistent_geom ms g p q rp a path hg hb
    (fun I hI => (tailFarB_iff p rp I).mp (hall I hI).1) (fun I hI => (endGeomB_iff p rp I).mp (hall I hI).2) h

/-! ### non-vacuity: the audit's probe (`/tmp/audit2-A/probes/C01/p1_internal_priming.py`) in the model -/

def exP : Params := IsoVerif.Props.C01Converse.exP
def exQ : CParams := IsoVerif.Props.C01Converse.exQ

/-- T = 4 exons, U skips exon 3 -/
def primIso : List Isoform :=
  [⟨[(5001, 5300), (5801, 6100), (6701, 7200), (7901, 8300)], .plus⟩, ⟨[(5001, 5300), (5801, 6100), (7901, 8300)], .plus⟩]

def viewA (r : Option (Assignment × Path)) : Option (ReadAssignmentType × List (Option Nat) × Path) :=
  r.map (fun (a, path) => (a.ty, a.isoMatches.map (·.iso), path))

/-- read of T truncated inside exon 3 where the genome has an A-stretch (6901..6925): the finder reports an internal polyA
    position there, 1375 bp from T's end: `inconsistent_non_intronic` (alternative_polya_site_right) — what the real
    pipeline reports for the audit's 15 probe reads -/
example : viewA (assignReadM primIso exP exQ [(5001, 5300), (5801, 6100), (6701, 6925)] ⟨-1, -1, 6901, -1⟩)
    = some (.inconsistent_non_intronic, [some 0], .fallback) := by decide +kernel

/-- the same read without the A-stretch (no tail): unique to T -/
example : viewA (assignReadM primIso exP exQ [(5001, 5300), (5801, 6100), (6701, 6925)] ⟨-1, -1, -1, -1⟩)
    = some (.unique, [some 0], .consistent) := by decide +kernel

/-- tail at T's annotated end: unique -/
example : viewA (assignReadM primIso exP exQ [(5001, 5300), (5801, 6100), (6701, 7200), (7901, 8300)] ⟨8300, -1, -1, -1⟩)
    = some (.unique, [some 0], .consistent) := by decide +kernel

/-- the hypotheses of `verifyPolya_tail_far` are met by the probe: T's last exon (400 bp) is longer than both tolerances,
    the internal position 6901 is 1399 > apa_delta from 8300 -/
example : TailBeyond exP.apa_delta 8300 (-1) 6901 ∧ ¬ TailWithin exP.apa_delta 8300 (-1) 6901 ∧
    TailWithin exP.apa_delta 8300 8300 (-1) := by decide

example : LongTerminal exP [(5001, 5300), (5801, 6100), (6701, 7200), (7901, 8300)] false := by
  intro c h1 h2
  simp only [List.length_cons, List.length_nil] at h2
  have : c = 1 ∨ c = 2 ∨ c = 3 := by omega
  rcases this with rfl | rfl | rfl <;> decide

/-- the hypotheses of `tail_far_never_consistent_geom` / `_b` hold for the probe — for BOTH isoforms of the gene (the read
    ends deep inside the intron of U that skips exon 3: `incomplete_intron_retention_right` is emitted for U and needs no
    exclusion) — and the model answers inconsistent_non_intronic on the fall-back path -/
def hypOf (ms : List Isoform) (p : Params) (blocks : List Iv) (pa : PolyA) : Option Bool :=
  match Gene.fromModels ms with
  | none => none
  | some g => (constructProfiles g p blocks pa).map (fun rp => tailClauseHyp g p rp)

example : hypOf primIso exP [(5001, 5300), (5801, 6100), (6701, 6925)] ⟨-1, -1, 6901, -1⟩ = some true := by decide +kernel

/-- the zone `apa_delta < distance < 200`: a read of T truncated 120 bp before T's end with an A-rich aligned end
    (internal position 8180): the hypotheses hold and the model answers inconsistent_non_intronic -/
example : hypOf primIso exP [(5001, 5300), (5801, 6100), (6701, 7200), (7901, 8200)] ⟨-1, -1, 8180, -1⟩ = some true ∧
    viewA (assignReadM primIso exP exQ [(5001, 5300), (5801, 6100), (6701, 7200), (7901, 8200)] ⟨-1, -1, 8180, -1⟩)
      = some (.inconsistent_non_intronic, [some 0], .fallback) := by decide +kernel

/-- the hypotheses fail when the tail is at T's end, when the last read exon is short, and when the terminal exons have
    similar lengths (the class of the known finding `terminal_exon_misalignment_far`) -/
example : hypOf primIso exP [(5001, 5300), (5801, 6100), (6701, 7200), (7901, 8300)] ⟨8300, -1, -1, -1⟩ = some false ∧
    hypOf primIso exP [(5001, 5300), (5801, 6100), (6701, 6730)] ⟨-1, -1, 6720, -1⟩ = some false ∧
    hypOf primIso exP [(5001, 5300), (5801, 6100), (6701, 7105)] ⟨-1, -1, 7100, -1⟩ = some false := by decide +kernel

end IsoVerif.Props.C01Tail
