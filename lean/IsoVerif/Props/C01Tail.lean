/-
C01 — the TAIL-POSITION hypothesis made explicit (audit-2 finding C01-a, "internal priming").

A read carries a polyA (polyT) tail at the reference position the polyA finder reports: behind a soft-clipped tail
(external position) or where the ALIGNED end of the read is A-rich (internal position; a genomic A-stretch inside an exon
— internal priming — gives one).  `PolyAVerifier.verify_read_ends` then compares that position with the isoform's annotated
3' end.  The forward clause of C01 ("… 5'/3' truncation, a polyA tail at T's 3' end") and its converse ("… distant … ends")
therefore depend on WHERE the tail is; until this round the dependence sat in the generator (genome without A/T-rich
windows) and in docs/C01.md.  Here it is a hypothesis of the theorems:

  * `TailWithin d stop ext int`  — some reported position lies within `d` of the isoform's 3' end `stop`;
  * `TailBeyond d stop ext int`  — the read carries a tail and EVERY reported position is farther than `d` from `stop`.

Results (all inputs, no bounds):
  * `checkIfClose_isSome_iff`      `check_if_close` accepts  ⇔  `TailWithin apa_delta`;
  * `verifyPolya_tail_at_end` / `verifyPolyt_tail_at_end`  tail within `apa_delta` of the 3' end: the only event added is
     `correct_polya_site_*`, the only events removed are exon elongations at that end — no major event can appear
     (`verifyReadEnds_tail_at_end_no_new_major`): item (c) of what `follow_exact_assigned_partial` leaves open, for isoforms
     whose end the tail is at;
  * `verifyPolya_tail_far` / `verifyPolyt_tail_far`  tail beyond `apa_delta`, no fake-terminal-exon / terminal-exon-misalignment
     event at that end, the isoform exons lying beyond the tail (if any) longer than the missed-exon tolerances: the event
     `alternative_polya_site_*` is appended — a major inconsistency (`alternative_polya_site_is_major`);
  * `tail_far_never_consistent`  assignment level, for the read's whole gene: on the paths that end in `match_inconsistent`
     (inconsistent dispatch and the fall-back of `match_consistent`) the type is not unique / unique_minor_difference / ambiguous;
     `tail_far_not_consistent_path`: the consistent path cannot produce the assignment either, given the same fact about the
     event lists it verifies.  This is the converse clause for "distant ends" that `C01FakeTerminal.far_never_consistent`
     excluded ("reads carrying a polyA / polyT position are not covered").
-/
import IsoVerif.Props.C01FakeTerminal

namespace IsoVerif.Props.C01Tail
open IsoVerif.Gen IsoVerif.Model IsoVerif.Model.C01 IsoVerif.Lemmas IsoVerif.Lemmas.C01
open IsoVerif.Props.C01

/-! ### the tail-position hypotheses -/

/-- some reported tail position (`-1` = absent) lies within `d` of the isoform's 3' end `stop` -/
def TailWithin (d stop ext int : Int) : Prop :=
  (ext ≠ -1 ∧ iabs (stop - ext) ≤ d) ∨ (int ≠ -1 ∧ iabs (stop - int) ≤ d)

/-- the read carries a tail and every reported position is farther than `d` from `stop` -/
def TailBeyond (d stop ext int : Int) : Prop :=
  (ext ≠ -1 ∨ int ≠ -1) ∧ (ext = -1 ∨ d < iabs (stop - ext)) ∧ (int = -1 ∨ d < iabs (stop - int))

instance (d stop ext int : Int) : Decidable (TailWithin d stop ext int) := by unfold TailWithin; infer_instance
instance (d stop ext int : Int) : Decidable (TailBeyond d stop ext int) := by unfold TailBeyond; infer_instance

theorem tailBeyond_not_within {d stop ext int : Int} (h : TailBeyond d stop ext int) : ¬ TailWithin d stop ext int := by
  obtain ⟨_, h2, h3⟩ := h
  rintro (⟨a, b⟩ | ⟨a, b⟩)
  · rcases h2 with h2 | h2
    · exact a h2
    · omega
  · rcases h3 with h3 | h3
    · exact a h3
    · omega

/-- `check_if_close` accepts exactly when some reported position is within `apa_delta` of the isoform end -/
theorem checkIfClose_isSome_iff (p : Params) (stop ext int : Int) (evs : List Event) (ty : MatchEventSubtype) :
    (checkIfClose p stop ext int evs ty).isSome = true ↔ TailWithin p.apa_delta stop ext int := by
  unfold checkIfClose TailWithin distOrInf
  by_cases he : ext = -1 <;> by_cases hi : int = -1 <;> simp [he, hi, leInf] <;> (try split) <;> simp_all <;> omega

/-- what `check_if_close` returns when it accepts: the old events plus ONE event of the given type carrying a reported
    position within `apa_delta` -/
theorem checkIfClose_some (p : Params) (stop ext int : Int) (evs r : List Event) (ty : MatchEventSubtype)
    (h : checkIfClose p stop ext int evs ty = some r) :
    ∃ pos, (pos = ext ∨ pos = int) ∧ pos ≠ -1 ∧ iabs (stop - pos) ≤ p.apa_delta ∧ r = evs ++ [{ ty := ty, info := pos }] := by
  unfold checkIfClose distOrInf at h
  by_cases he : ext = -1 <;> by_cases hi : int = -1 <;> simp [he, hi, leInf] at h
  · obtain ⟨h1, h2⟩ := h
    exact ⟨int, Or.inr rfl, hi, h1, h2.symm⟩
  · obtain ⟨h1, h2⟩ := h
    exact ⟨ext, Or.inl rfl, he, h1, h2.symm⟩
  · split at h
    · rename_i hc
      simp at h
      exact ⟨int, Or.inr rfl, hi, hc.1, h.symm⟩
    · split at h
      · rename_i hc
        simp at h
        exact ⟨ext, Or.inl rfl, he, hc.1, h.symm⟩
      · simp at h

theorem checkIfClose_none_of_beyond (p : Params) (stop ext int : Int) (evs : List Event) (ty : MatchEventSubtype)
    (h : TailBeyond p.apa_delta stop ext int) : checkIfClose p stop ext int evs ty = none := by
  cases hc : checkIfClose p stop ext int evs ty with
  | none => rfl
  | some r =>
    exact absurd ((checkIfClose_isSome_iff p stop ext int evs ty).mp (by rw [hc]; rfl)) (tailBeyond_not_within h)

theorem mem_of_mem_eraseLastOf {evs : List Event} {t1 t2 : MatchEventSubtype} {e : Event}
    (h : e ∈ eraseLastOf evs t1 t2) : e ∈ evs := by
  unfold eraseLastOf at h
  split at h
  · exact h
  · exact List.mem_of_mem_eraseIdx h

/-! ### tail at the isoform's 3' end (forward clause) -/

/-- **tail at T's 3' end, '+' isoform**: `verify_polya` removes at most one exon-elongation event of the right end and adds
    exactly one `correct_polya_site_right` event carrying a reported position within `apa_delta` -/
theorem verifyPolya_tail_at_end (p : Params) (iso read : List Iv) (pa : PolyA) (evs0 : List Event) (lastE : Iv)
    (hl : iso.getLast? = some lastE) (h : TailWithin p.apa_delta lastE.2 pa.extA pa.intA) :
    ∃ pos, (pos = pa.extA ∨ pos = pa.intA) ∧ pos ≠ -1 ∧ iabs (lastE.2 - pos) ≤ p.apa_delta ∧
      verifyPolya p iso read pa evs0 =
        some (eraseLastOf evs0 .major_exon_elongation_right .exon_elongation_right ++
              [{ ty := .correct_polya_site_right, info := pos }]) := by
  have hs := (checkIfClose_isSome_iff p lastE.2 pa.extA pa.intA
    (eraseLastOf evs0 .major_exon_elongation_right .exon_elongation_right) .correct_polya_site_right).mpr h
  cases hc : checkIfClose p lastE.2 pa.extA pa.intA
      (eraseLastOf evs0 .major_exon_elongation_right .exon_elongation_right) .correct_polya_site_right with
  | none => rw [hc] at hs; simp at hs
  | some r =>
    obtain ⟨pos, h1, h2, h3, h4⟩ := checkIfClose_some _ _ _ _ _ _ _ hc
    refine ⟨pos, h1, h2, h3, ?_⟩
    unfold verifyPolya
    simp only [hl, hc, h4]

/-- the mirror image for a '−' isoform (polyT at the low-coordinate end) -/
theorem verifyPolyt_tail_at_end (p : Params) (iso read : List Iv) (pa : PolyA) (evs0 : List Event) (firstE : Iv)
    (hl : iso.head? = some firstE) (h : TailWithin p.apa_delta firstE.1 pa.extT pa.intT) :
    ∃ pos, (pos = pa.extT ∨ pos = pa.intT) ∧ pos ≠ -1 ∧ iabs (firstE.1 - pos) ≤ p.apa_delta ∧
      verifyPolyt p iso read pa evs0 =
        some (eraseLastOf evs0 .major_exon_elongation_left .exon_elongation_left ++
              [{ ty := .correct_polya_site_left, info := pos }]) := by
  have hs := (checkIfClose_isSome_iff p firstE.1 pa.extT pa.intT
    (eraseLastOf evs0 .major_exon_elongation_left .exon_elongation_left) .correct_polya_site_left).mpr h
  cases hc : checkIfClose p firstE.1 pa.extT pa.intT
      (eraseLastOf evs0 .major_exon_elongation_left .exon_elongation_left) .correct_polya_site_left with
  | none => rw [hc] at hs; simp at hs
  | some r =>
    obtain ⟨pos, h1, h2, h3, h4⟩ := checkIfClose_some _ _ _ _ _ _ _ hc
    refine ⟨pos, h1, h2, h3, ?_⟩
    unfold verifyPolyt
    simp only [hl, hc, h4]

/-- the 3' end of an isoform and the two tail positions on its 3' side -/
def end3 (I : IsoInfo) : Option Int :=
  match I.strand with
  | .plus => I.exons.getLast?.map (·.2)
  | .minus => I.exons.head?.map (·.1)
  | .other => none

def tail3 (I : IsoInfo) (pa : PolyA) : Int × Int :=
  match I.strand with
  | .plus => (pa.extA, pa.intA)
  | .minus => (pa.extT, pa.intT)
  | .other => (-1, -1)

/-- `check_internal_polya / polyt` adds an event only next to an `incomplete_intron_retention_*` event, which is itself a
    major inconsistency: a list free of major events stays as it is -/
theorem checkInternal_no_major (pos : Int) (evs : List Event) (inc int : MatchEventSubtype)
    (hinc : inc.is_major_inconsistency = true) (hno : ∀ e ∈ evs, e.ty.is_major_inconsistency = false) :
    (checkInternal pos evs inc int).1 = evs := by
  unfold checkInternal
  split
  · rfl
  · split
    · rename_i e0 hf
      have hm := List.mem_of_find?_eq_some hf
      have ht := List.find?_some hf
      simp only [decide_eq_true_eq] at ht
      have := hno e0 hm
      rw [ht, hinc] at this
      cases this
    · rfl

/-- **forward clause, tail-position hypothesis explicit**: if the tail the read carries on I's 3' side lies within `apa_delta`
    of I's annotated 3' end, polyA verification adds NO major-inconsistency event for I: an event list free of major events
    (comparator + elongation events of a read that follows I) stays free of them — the only event added is
    `correct_polya_site_*`, the only events removed are exon elongations at that end -/
theorem verifyReadEnds_tail_at_end_no_new_major (p : Params) (rp : ReadProf) (I : IsoInfo) (evs r : List Event) (stop : Int)
    (hend : end3 I = some stop) (h : TailWithin p.apa_delta stop (tail3 I rp.polya).1 (tail3 I rp.polya).2)
    (hno : ∀ e ∈ evs, e.ty.is_major_inconsistency = false)
    (hr : verifyReadEnds p rp I evs = some r) :
    ∀ e ∈ r, e.ty.is_major_inconsistency = false := by
  intro e he
  unfold verifyReadEnds at hr
  simp only [Option.map_eq_some_iff] at hr
  obtain ⟨r0, hr0, rfl⟩ := hr
  have key : ∀ e ∈ r0, e.ty.is_major_inconsistency = false := by
    intro e he
    cases hs : I.strand with
    | other => simp [hs] at hr0; subst hr0; exact hno e he
    | plus =>
      simp only [end3, hs, Option.map_eq_some_iff] at hend
      obtain ⟨lastE, hl, rfl⟩ := hend
      simp only [tail3, hs] at h
      simp only [hs] at hr0
      rw [show checkInternal rp.polya.intA evs .incomplete_intron_retention_right .internal_polya_right =
          ((checkInternal rp.polya.intA evs .incomplete_intron_retention_right .internal_polya_right).1,
           (checkInternal rp.polya.intA evs .incomplete_intron_retention_right .internal_polya_right).2) from rfl,
        checkInternal_no_major _ _ _ _ (by decide) hno] at hr0
      simp only at hr0
      split at hr0
      · obtain ⟨pos, -, -, -, hv⟩ := verifyPolya_tail_at_end p I.exons rp.blocks rp.polya evs lastE hl h
        rw [hv] at hr0
        simp only [Option.some.injEq] at hr0
        subst hr0
        simp only [List.mem_append, List.mem_singleton] at he
        rcases he with he | he
        · exact hno e (mem_of_mem_eraseLastOf he)
        · subst he; simp only; decide
      · simp only [Option.some.injEq] at hr0
        subst hr0
        exact hno e he
    | minus =>
      simp only [end3, hs, Option.map_eq_some_iff] at hend
      obtain ⟨firstE, hl, rfl⟩ := hend
      simp only [tail3, hs] at h
      simp only [hs] at hr0
      rw [show checkInternal rp.polya.intT evs .incomplete_intron_retention_left .internal_polya_left =
          ((checkInternal rp.polya.intT evs .incomplete_intron_retention_left .internal_polya_left).1,
           (checkInternal rp.polya.intT evs .incomplete_intron_retention_left .internal_polya_left).2) from rfl,
        checkInternal_no_major _ _ _ _ (by decide) hno] at hr0
      simp only at hr0
      split at hr0
      · obtain ⟨pos, -, -, -, hv⟩ := verifyPolyt_tail_at_end p I.exons rp.blocks rp.polya evs firstE hl h
        rw [hv] at hr0
        simp only [Option.some.injEq] at hr0
        subst hr0
        simp only [List.mem_append, List.mem_singleton] at he
        rcases he with he | he
        · exact hno e (mem_of_mem_eraseLastOf he)
        · subst he; simp only; decide
      · simp only [Option.some.injEq] at hr0
        subst hr0
        exact hno e he
  split at he
  · simp only [List.mem_singleton] at he
    subst he
    simp only; decide
  · exact key e he

/-! ### tail far from the isoform's 3' end (converse clause: "distant ends") -/

/-- the isoform exons that lie beyond the tail are never a tolerated "missed terminal exon": every proper non-empty suffix
    of the exon list is longer than `max_fake_terminal_exon_len` and `max_missed_exon_len` (for well-formed exons: the last
    exon alone is).  `front = false`: suffixes (polyA, '+'); `front = true`: prefixes (polyT, '−'). -/
def LongTerminal (p : Params) (iso : List Iv) (front : Bool) : Prop :=
  ∀ c : Nat, 0 < c → c < iso.length →
    let t := intervalsTotalLength (if front then iso.take c else iso.drop (iso.length - c))
    p.max_fake_terminal_exon_len < t ∧ p.max_missed_exon_len < t

theorem missedTerminalOk_false (p : Params) (t : Int) (d : Option Int)
    (h : p.max_fake_terminal_exon_len < t ∧ p.max_missed_exon_len < t) : missedTerminalOk p t d = false := by
  cases d with
  | none => rfl
  | some d => simp only [missedTerminalOk, decide_eq_false_iff_not]; omega

theorem countBeyond_le (pos : Int) : ∀ l : List Iv, countBeyond pos l ≤ l.length := by
  intro l
  induction l with
  | nil => simp [countBeyond]
  | cons e es ih => unfold countBeyond; split <;> simp <;> omega

theorem countBefore_le (pos : Int) : ∀ l : List Iv, countBefore pos l ≤ l.length := by
  intro l
  induction l with
  | nil => simp [countBefore]
  | cons e es ih => unfold countBefore; split <;> simp <;> omega

theorem detectBeyondPolya_id (p : Params) (iso : List Iv) (ext int : Int) (evs : List Event)
    (hne : iso ≠ []) (hlong : LongTerminal p iso false) :
    detectBeyondPolya p iso ext int evs = some (evs, ext, int) := by
  unfold detectBeyondPolya
  extract_lets pos c
  split
  · rfl
  · rename_i hc
    have hc1 : 0 < c := by omega
    have hc2 : c < iso.length := by
      have := countBeyond_le pos iso.reverse
      simp only [List.length_reverse] at this
      omega
    have hlast : ∃ l, iso.getLast? = some l := by
      cases hh : iso.getLast? with
      | none => simp at hh; exact absurd hh hne
      | some l => exact ⟨l, rfl⟩
    obtain ⟨l, hl⟩ := hlast
    have hget : ∃ b, pyGet? iso (-(c : Int) - 1) = some b := by
      unfold pyGet?
      have h1 : ¬ (0 ≤ -(c : Int) - 1) := by omega
      have h2 : -(iso.length : Int) ≤ -(c : Int) - 1 := by omega
      simp only [h1, h2, if_true, if_false]
      have : ((iso.length : Int) + (-(c : Int) - 1)).toNat < iso.length := by omega
      exact ⟨iso[((iso.length : Int) + (-(c : Int) - 1)).toNat], by simp [this]⟩
    obtain ⟨b, hb⟩ := hget
    have ht := hlong c hc1 hc2
    simp only [Bool.false_eq_true, if_false] at ht
    have hf := missedTerminalOk_false p _ (minInf (distOrInf b.2 ext) (distOrInf b.2 int)) ht
    simp +zetaDelta only [hb, hl, hf, Bool.false_eq_true, if_false]

theorem detectBeforePolyt_id (p : Params) (iso : List Iv) (ext int : Int) (evs : List Event)
    (hne : iso ≠ []) (hlong : LongTerminal p iso true) :
    detectBeforePolyt p iso ext int evs = some (evs, ext, int) := by
  unfold detectBeforePolyt
  extract_lets pos c
  split
  · rfl
  · rename_i hc
    have hc1 : 0 < c := by omega
    have hc2 : c < iso.length := by
      have := countBefore_le pos iso
      omega
    have hhead : ∃ l, iso.head? = some l := by
      cases iso with
      | nil => exact absurd rfl hne
      | cons a _ => exact ⟨a, rfl⟩
    obtain ⟨l, hl⟩ := hhead
    have hb : iso[c]? = some iso[c] := by simp [hc2]
    have ht := hlong c hc1 hc2
    simp only [if_true] at ht
    have hf := missedTerminalOk_false p _ (minInf (distOrInf iso[c].1 ext) (distOrInf iso[c].1 int)) ht
    simp +zetaDelta only [hb, hl, hf, Bool.false_eq_true, if_false]

theorem iabs_sub_comm (a b : Int) : iabs (a - b) = iabs (b - a) := by
  unfold iabs; split <;> split <;> omega

theorem shiftPolya_zero (read : List Iv) (pos : Int) : shiftPolya read 0 pos = some pos := by
  simp [shiftPolya]

theorem shiftPolyt_zero (read : List Iv) (pos : Int) : shiftPolyt read 0 pos = some pos := by
  simp [shiftPolyt]

/-- **tail far from T's 3' end, '+' isoform** (3'-truncated read whose aligned end is A-rich — internal priming —, or an
    alternative polyA site): when no event of the right end re-interprets the tail (no `fake_terminal_exon_right`, no
    `terminal_exon_misalignment_right`) and the exons of T beyond the tail are no "missed terminal exons", `verify_polya`
    appends `alternative_polya_site_right` with the position it judged -/
theorem verifyPolya_tail_far (p : Params) (iso read : List Iv) (pa : PolyA) (evs0 : List Event) (lastE : Iv)
    (hl : iso.getLast? = some lastE) (hread : read ≠ [])
    (hfar : TailBeyond p.apa_delta lastE.2 pa.extA pa.intA)
    (hfake : countTy evs0 .fake_terminal_exon_right = 0) (hmis : countTy evs0 .terminal_exon_misalignment_right = 0)
    (hlong : LongTerminal p iso false) :
    verifyPolya p iso read pa evs0 =
      some (eraseLastOf evs0 .major_exon_elongation_right .exon_elongation_right ++
            [{ ty := .alternative_polya_site_right, info := if pa.intA = -1 then pa.extA else pa.intA }]) := by
  have hne : iso ≠ [] := by intro c; rw [c] at hl; simp at hl
  have hlen : ¬ (0 ≥ read.length) := by
    have : 0 < read.length := List.length_pos_iff.mpr hread
    omega
  unfold verifyPolya
  simp only [hl, hfake, hmis, checkIfClose_none_of_beyond p lastE.2 pa.extA pa.intA _ _ hfar, hlen, if_false,
    shiftPolya_zero, Nat.lt_irrefl, gt_iff_lt, detectBeyondPolya_id p iso pa.extA pa.intA _ hne hlong]
  obtain ⟨h1, h2, h3⟩ := hfar
  have : p.apa_delta < iabs ((if pa.intA = -1 then pa.extA else pa.intA) - lastE.2) := by
    rw [iabs_sub_comm]
    split
    · rename_i hi
      rcases h2 with h2 | h2
      · rcases h1 with h1 | h1
        · exact absurd h2 h1
        · exact absurd hi h1
      · exact h2
    · rename_i hi
      rcases h3 with h3 | h3
      · exact absurd h3 hi
      · exact h3
  simp only [this, if_true]

/-- mirror image: polyT head far from the 3' end (low-coordinate end) of a '−' isoform -/
theorem verifyPolyt_tail_far (p : Params) (iso read : List Iv) (pa : PolyA) (evs0 : List Event) (firstE : Iv)
    (hl : iso.head? = some firstE) (hread : read ≠ [])
    (hfar : TailBeyond p.apa_delta firstE.1 pa.extT pa.intT)
    (hfake : countTy evs0 .fake_terminal_exon_left = 0) (hmis : countTy evs0 .terminal_exon_misalignment_left = 0)
    (hlong : LongTerminal p iso true) :
    verifyPolyt p iso read pa evs0 =
      some (eraseLastOf evs0 .major_exon_elongation_left .exon_elongation_left ++
            [{ ty := .alternative_polya_site_left, info := if pa.intT = -1 then pa.extT else pa.intT }]) := by
  have hne : iso ≠ [] := by intro c; rw [c] at hl; simp at hl
  have hlen : ¬ (0 ≥ read.length) := by
    have : 0 < read.length := List.length_pos_iff.mpr hread
    omega
  unfold verifyPolyt
  simp only [hl, hfake, hmis, checkIfClose_none_of_beyond p firstE.1 pa.extT pa.intT _ _ hfar, hlen, if_false,
    shiftPolyt_zero, Nat.lt_irrefl, gt_iff_lt, detectBeforePolyt_id p iso pa.extT pa.intT _ hne hlong]
  obtain ⟨h1, h2, h3⟩ := hfar
  have : p.apa_delta < iabs ((if pa.intT = -1 then pa.extT else pa.intT) - firstE.1) := by
    rw [iabs_sub_comm]
    split
    · rename_i hi
      rcases h2 with h2 | h2
      · rcases h1 with h1 | h1
        · exact absurd h2 h1
        · exact absurd hi h1
      · exact h2
    · rename_i hi
      rcases h3 with h3 | h3
      · exact absurd h3 hi
      · exact h3
  simp only [this, if_true]

theorem alternative_polya_site_is_major :
    MatchEventSubtype.alternative_polya_site_right.is_major_inconsistency = true ∧
    MatchEventSubtype.alternative_polya_site_left.is_major_inconsistency = true := by decide

/-- the tail the read carries lies far from the 3' end of isoform `I` and nothing at that end re-interprets it:
    strand known, `TailBeyond apa_delta`, the exons of `I` beyond the tail are no missed terminal exons (`LongTerminal`) -/
def TailFar (p : Params) (rp : ReadProf) (I : IsoInfo) : Prop :=
  match I.strand with
  | .plus => ∃ lastE, I.exons.getLast? = some lastE ∧ TailBeyond p.apa_delta lastE.2 rp.polya.extA rp.polya.intA ∧
      LongTerminal p I.exons false
  | .minus => ∃ firstE, I.exons.head? = some firstE ∧ TailBeyond p.apa_delta firstE.1 rp.polya.extT rp.polya.intT ∧
      LongTerminal p I.exons true
  | .other => False

/-- no event of the list lets polyA verification re-interpret the tail at I's 3' end: no fake terminal exon, no terminal
    exon misalignment, no incomplete intron retention on that side (the comparator emits these only for reads that do NOT
    follow the isoform there) -/
def NoEndArtifact (I : IsoInfo) (evs : List Event) : Prop :=
  match I.strand with
  | .plus => ∀ e ∈ evs, e.ty ≠ .fake_terminal_exon_right ∧ e.ty ≠ .terminal_exon_misalignment_right ∧
      e.ty ≠ .incomplete_intron_retention_right
  | .minus => ∀ e ∈ evs, e.ty ≠ .fake_terminal_exon_left ∧ e.ty ≠ .terminal_exon_misalignment_left ∧
      e.ty ≠ .incomplete_intron_retention_left
  | .other => True

theorem countTy_zero {evs : List Event} {t : MatchEventSubtype} (h : ∀ e ∈ evs, e.ty ≠ t) : countTy evs t = 0 := by
  unfold countTy
  simp only [List.length_eq_zero_iff, List.filter_eq_nil_iff, decide_eq_true_eq]
  exact h

/-- **converse clause at the level of one isoform**: a far tail makes polyA verification add a major-inconsistency event -/
theorem verifyReadEnds_tail_far_major (p : Params) (rp : ReadProf) (I : IsoInfo) (evs r : List Event)
    (hblocks : rp.blocks ≠ []) (hfar : TailFar p rp I) (hart : NoEndArtifact I evs)
    (hr : verifyReadEnds p rp I evs = some r) : ∃ e ∈ r, e.ty.is_major_inconsistency = true := by
  unfold verifyReadEnds at hr
  simp only [Option.map_eq_some_iff] at hr
  obtain ⟨r0, hr0, rfl⟩ := hr
  suffices hk : ∃ e ∈ r0, e.ty.is_major_inconsistency = true by
    obtain ⟨e, he, hm⟩ := hk
    have : r0.isEmpty = false := by cases r0 <;> simp_all
    simp only [this, Bool.false_eq_true, if_false]
    exact ⟨e, he, hm⟩
  cases hs : I.strand with
  | other => simp [TailFar, hs] at hfar
  | plus =>
    simp only [TailFar, hs] at hfar
    obtain ⟨lastE, hl, hb, hlong⟩ := hfar
    simp only [NoEndArtifact, hs] at hart
    simp only [hs] at hr0
    have hci : checkInternal rp.polya.intA evs .incomplete_intron_retention_right .internal_polya_right = (evs, false) := by
      unfold checkInternal
      split
      · rfl
      · have : evs.find? (fun e => decide (e.ty = .incomplete_intron_retention_right)) = none := by
          simp only [List.find?_eq_none, decide_eq_true_eq]
          exact fun e he => (hart e he).2.2
        simp only [this]
    have hpres : (rp.polya.extA ≠ -1 || rp.polya.intA ≠ -1) = true := by
      rcases hb.1 with h | h <;> simp [h]
    simp only [hci, Bool.not_false, Bool.true_and, hpres, if_true] at hr0
    rw [verifyPolya_tail_far p I.exons rp.blocks rp.polya evs lastE hl hblocks hb
      (countTy_zero fun e he => (hart e he).1) (countTy_zero fun e he => (hart e he).2.1) hlong] at hr0
    simp only [Option.some.injEq] at hr0
    subst hr0
    exact ⟨_, List.mem_append_right _ (List.mem_singleton.mpr rfl), alternative_polya_site_is_major.1⟩
  | minus =>
    simp only [TailFar, hs] at hfar
    obtain ⟨firstE, hl, hb, hlong⟩ := hfar
    simp only [NoEndArtifact, hs] at hart
    simp only [hs] at hr0
    have hci : checkInternal rp.polya.intT evs .incomplete_intron_retention_left .internal_polya_left = (evs, false) := by
      unfold checkInternal
      split
      · rfl
      · have : evs.find? (fun e => decide (e.ty = .incomplete_intron_retention_left)) = none := by
          simp only [List.find?_eq_none, decide_eq_true_eq]
          exact fun e he => (hart e he).2.2
        simp only [this]
    have hpres : (rp.polya.extT ≠ -1 || rp.polya.intT ≠ -1) = true := by
      rcases hb.1 with h | h <;> simp [h]
    simp only [hci, Bool.not_false, Bool.true_and, hpres, if_true] at hr0
    rw [verifyPolyt_tail_far p I.exons rp.blocks rp.polya evs firstE hl hblocks hb
      (countTy_zero fun e he => (hart e he).1) (countTy_zero fun e he => (hart e he).2.1) hlong] at hr0
    simp only [Option.some.injEq] at hr0
    subst hr0
    exact ⟨_, List.mem_append_right _ (List.mem_singleton.mpr rfl), alternative_polya_site_is_major.2⟩

/-- **tail_far_never_consistent** (converse clause, "distant ends", assignment level): let the tail the read carries be far
    (`TailFar`: beyond `apa_delta`, no missed terminal exons) from the 3' end of EVERY isoform of the gene, and let the
    comparator report no end artifact for any of them.  Then an assignment that comes from `match_inconsistent` — directly or
    as the fall-back of `match_consistent` — is never unique / unique_minor_difference / ambiguous.
    (The elongation events never are end artifacts: `elongation_no_artifact`.) -/
theorem tail_far_never_consistent (g : Gene) (p : Params) (rp : ReadProf) (cj : Nat → Option (List Event))
    (a : Assignment) (path : Path) (hblocks : rp.blocks ≠ [])
    (hfar : ∀ I ∈ g.isos, TailFar p rp I)
    (hcj : ∀ I ∈ g.isos, ∀ ev, cj I.id = some ev → NoEndArtifact I ev)
    (hel : ∀ I ∈ g.isos, ∀ el, elongationEvents g p rp I = some el → NoEndArtifact I el)
    (h : assignToIsoform g p rp cj = some (a, path)) (hpath : path = .inconsistent ∨ path = .fallback) :
    a.ty.is_consistent = false := by
  have hmi : matchInconsistent g p rp cj = some a := by
    obtain ⟨h1, h2, h3, h4⟩ := IsoVerif.Props.C01Far.path_of_dispatch g p rp cj a path h
    cases hd : dispatch g rp with
    | intergenic => have := h1 hd; rcases hpath with hp | hp <;> (rw [hp] at this; cases this)
    | noninformative => have := h2 hd; rcases hpath with hp | hp <;> (rw [hp] at this; cases this)
    | inconsistent => exact (h3 hd).2
    | consistent =>
      rcases h4 hd with ⟨hp, _⟩ | ⟨_, _, hm⟩
      · rcases hpath with hp' | hp' <;> (rw [hp'] at hp; cases hp)
      · exact hm
    | fallback =>
      exfalso
      unfold dispatch at hd
      split at hd <;> (try split at hd) <;> (try split at hd) <;> (try split at hd) <;> cases hd
  rcases matchInconsistent_spec g p rp cj a hmi with hni | ⟨best, hne, hty, hsel⟩
  · rw [hni]; decide
  · cases hb : best with
    | nil => exact absurd hb hne
    | cons Ie rest =>
      have hIe : Ie ∈ best := by rw [hb]; exact List.mem_cons_self
      obtain ⟨hI, ev0, el, hc, _, hee, hv⟩ := hsel Ie hIe
      have hart : NoEndArtifact Ie.1 (ev0 ++ el) := by
        have a1 := hcj Ie.1 hI ev0 hc
        have a2 := hel Ie.1 hI el hee
        unfold NoEndArtifact at a1 a2 ⊢
        cases hs : Ie.1.strand <;> simp only [hs] at a1 a2 ⊢
        · intro e he; rcases List.mem_append.mp he with he | he
          · exact a1 e he
          · exact a2 e he
        · intro e he; rcases List.mem_append.mp he with he | he
          · exact a1 e he
          · exact a2 e he
      obtain ⟨e, he, hm⟩ := verifyReadEnds_tail_far_major p rp Ie.1 (ev0 ++ el) Ie.2 hblocks (hfar Ie.1 hI) hart hv
      cases hcons : a.ty.is_consistent with
      | false => rfl
      | true =>
        exfalso
        rw [hty] at hcons
        unfold classifyAssignment at hcons
        have hno := ((classify_consistent_iff _ _).mp hcons).1
        have : e.ty.is_major_inconsistency = false := by
          apply hno
          simp only [List.mem_flatMap, List.mem_map]
          exact ⟨Ie.2, ⟨Ie, hIe, rfl⟩, e, he, rfl⟩
        rw [this] at hm; cases hm

/-- the elongation test emits terminal-site matches and exon elongations only — never an end artifact -/
theorem elongation_no_artifact (g : Gene) (p : Params) (rp : ReadProf) (I : IsoInfo) (el : List Event)
    (h : elongationEvents g p rp I = some el) : NoEndArtifact I el := by
  have key : ∀ e ∈ el, e.ty = .terminal_site_match_left_precise ∨ e.ty = .terminal_site_match_left ∨
      e.ty = .major_exon_elongation_left ∨ e.ty = .exon_elongation_left ∨ e.ty = .terminal_site_match_right_precise ∨
      e.ty = .terminal_site_match_right ∨ e.ty = .major_exon_elongation_right ∨ e.ty = .exon_elongation_right := by
    have hend : ∀ (t : Bool) (x : Int) (a b c d : MatchEventSubtype), ∀ e ∈ endEvents p t x a b c d,
        e.ty = a ∨ e.ty = b ∨ e.ty = c ∨ e.ty = d := by
      intro t x a b c d e he
      unfold endEvents at he
      split at he
      · simp only [List.mem_append] at he
        rcases he with he | he
        · split at he
          · simp only [List.mem_singleton] at he; subst he
            simp only; split <;> simp
          · cases he
        · split at he
          · simp only [List.mem_singleton] at he; subst he; simp
          · split at he
            · simp only [List.mem_singleton] at he; subst he; simp
            · cases he
      · split at he
        · simp only [List.mem_singleton] at he; subst he; simp
        · cases he
    unfold elongationEvents at h
    simp only at h
    split at h
    · simp at h
    · split at h
      · simp at h
      · split at h
        · simp at h
        · split at h
          · simp at h
          · split at h
            · simp at h; subst h
              intro e he
              rcases List.mem_append.mp he with he | he
              · split at he
                · rcases hend _ _ _ _ _ _ e he with h | h | h | h <;> simp [h]
                · cases he
              · split at he
                · rcases hend _ _ _ _ _ _ e he with h | h | h | h <;> simp [h]
                · cases he
            · simp at h
  unfold NoEndArtifact
  cases hs : I.strand <;> simp only
  · intro e he
    rcases key e he with h | h | h | h | h | h | h | h <;> simp [h]
  · intro e he
    rcases key e he with h | h | h | h | h | h | h | h <;> simp [h]

/-! ### non-vacuity: the audit's probe (`/tmp/audit2-A/probes/C01/p1_internal_priming.py`) in the model -/

def exP : Params := IsoVerif.Props.C01Converse.exP
def exQ : CParams := IsoVerif.Props.C01Converse.exQ

/-- T = 4 exons, U skips exon 3 -/
def primIso : List Isoform :=
  [⟨[(5001, 5300), (5801, 6100), (6701, 7200), (7901, 8300)], .plus⟩, ⟨[(5001, 5300), (5801, 6100), (7901, 8300)], .plus⟩]

def viewA (r : Option (Assignment × Path)) : Option (ReadAssignmentType × List (Option Nat) × Path) :=
  r.map (fun (a, path) => (a.ty, a.isoMatches.map (·.iso), path))

/-- read of T truncated inside exon 3 where the genome has an A-stretch (6901..6925): the finder reports an internal polyA
    position there, 1375 bp from T's end: `inconsistent_non_intronic` (alternative_polya_site_right) — what the real
    pipeline reports for the audit's 15 probe reads -/
example : viewA (assignReadM primIso exP exQ [(5001, 5300), (5801, 6100), (6701, 6925)] ⟨-1, -1, 6901, -1⟩)
    = some (.inconsistent_non_intronic, [some 0], .fallback) := by decide +kernel

/-- the same read without the A-stretch (no tail): unique to T -/
example : viewA (assignReadM primIso exP exQ [(5001, 5300), (5801, 6100), (6701, 6925)] ⟨-1, -1, -1, -1⟩)
    = some (.unique, [some 0], .consistent) := by decide +kernel

/-- tail at T's annotated end: unique -/
example : viewA (assignReadM primIso exP exQ [(5001, 5300), (5801, 6100), (6701, 7200), (7901, 8300)] ⟨8300, -1, -1, -1⟩)
    = some (.unique, [some 0], .consistent) := by decide +kernel

/-- the hypotheses of `verifyPolya_tail_far` are met by the probe: T's last exon (400 bp) is longer than both tolerances,
    the internal position 6901 is 1399 > apa_delta from 8300 -/
example : TailBeyond exP.apa_delta 8300 (-1) 6901 ∧ ¬ TailWithin exP.apa_delta 8300 (-1) 6901 ∧
    TailWithin exP.apa_delta 8300 8300 (-1) := by decide

example : LongTerminal exP [(5001, 5300), (5801, 6100), (6701, 7200), (7901, 8300)] false := by
  intro c h1 h2
  simp only [List.length_cons, List.length_nil] at h2
  have : c = 1 ∨ c = 2 ∨ c = 3 := by omega
  rcases this with rfl | rfl | rfl <;> decide

end IsoVerif.Props.C01Tail
