/-
C16 (part 7) — end to end for one alignment record: the tail positions come from the *modelled finder*
(`detect_polya`), the exons from the CIGAR walk, and `add_polya_info` trims; where does the recorded tail position
end up?  Composition of Props/C16FinderSpec.lean (range of the finder's positions), Props/C16.lean (exons of the
record) and Props/C16PolyA.lean (`tail_moved_onto_retained`, `internal_tail_within_first_removed`).
-/
import IsoVerif.Props.C16
import IsoVerif.Props.C16PolyA
import IsoVerif.Props.C16FinderSpec
import IsoVerif.Lemmas.TailRecord

namespace IsoVerif.Props.C16TailRecord
open IsoVerif.Gen IsoVerif.Model IsoVerif.Model.C16 IsoVerif.Lemmas.C16
open IsoVerif.Props.C16FinderSpec

/-- **detected_positions_in_range** — every position `detect_polya` reports for a record (CIGAR lengths ≥ 0) is −1 or
    lies next to the alignment: polyA in `[reference_start + 1, reference_end + max 1 clip₃]`, polyT in
    `[max 1 (reference_start − max 1 clip₅), max 1 (reference_end − 1)]` -/
theorem detected_positions_in_range (w num den : Nat) (hw : 1 ≤ w) (s : Int) (cigar : List CigarOp)
    (seq : List Char) (hnn : NonNeg cigar) (info : PolyAInfo) (h : detectPolya w num den s cigar seq = some info) :
    (∀ x, (x = info.internalPolyA ∨ x = info.externalPolyA) → x ≠ -1 →
      s + 1 ≤ x ∧ x ≤ referenceEnd s cigar + max 1 (softClipTail cigar)) ∧
    (∀ x, (x = info.internalPolyT ∨ x = info.externalPolyT) → x ≠ -1 →
      max 1 (s - max 1 (softClipHead cigar)) ≤ x ∧ x ≤ max 1 (referenceEnd s cigar - 1)) := by
  unfold detectPolya at h
  simp only [Option.bind_eq_bind, Option.bind_eq_some_iff, Option.some.injEq] at h
  obtain ⟨ea, hea, et, het, ia, hia, it, hit, rfl⟩ := h
  have keyA : ∀ fromPos toPos chk x, findPolyaTail w num den s cigar seq fromPos toPos chk = some x → x ≠ -1 →
      s + 1 ≤ x ∧ x ≤ referenceEnd s cigar + max 1 (softClipTail cigar) := by
    intro fromPos toPos chk x hx hne
    obtain ⟨h1, h2, h3, p, hp⟩ := polya_found w num den s cigar seq fromPos toPos chk x hx hne
    have := polya_position_in_range w num den hw s cigar seq fromPos toPos chk h1 h2 h3 hnn p hp x hx
    exact ⟨this.1, this.2.1⟩
  have keyT : ∀ fromPos toPos chk x, findPolytHead w num den s cigar seq fromPos toPos chk = some x → x ≠ -1 →
      max 1 (s - max 1 (softClipHead cigar)) ≤ x ∧ x ≤ max 1 (referenceEnd s cigar - 1) := by
    intro fromPos toPos chk x hx hne
    obtain ⟨h1, h2, h3, p, hp⟩ := polyt_found w num den s cigar seq fromPos toPos chk x hx hne
    have := polyt_position_in_range w num den hw s cigar seq fromPos toPos chk h1 h2 h3 hnn p hp x hx
    exact ⟨this.1, this.2.1⟩
  constructor
  · rintro x (rfl | rfl) hx
    · exact keyA _ _ _ _ hia hx
    · exact keyA _ _ _ _ hea hx
  · rintro x (rfl | rfl) hx
    · exact keyT _ _ _ _ hit hx
    · exact keyT _ _ _ _ het hx

/-- **record_tail_on_retained_exon** — for every record (`reference_start ≥ 0`, SAM-valid CIGAR over all nine kinds,
    any sequence) with at least one exon, whose four tail positions are those the modelled finder reports
    (`detect_polya`, any window ≥ 1), and every `max_fake_terminal_exon_len`: `add_polya_info` does not raise and

    3' side
    * exons removed (`a > 0`): the internal polyA position found inside the alignment is recorded on/adjacent to the
      last retained exon — at its end plus at most the length of the first removed exon minus one (the non-A bases at
      the start of that exon); the external position is recorded between that end and the recorded internal position
      (repaired code; `tail_on_retained_exon`); an absent position stays absent;
    * no terminal exon looks like a tail (`count_polya_exons = 0`): nothing is removed on this side and the recorded
      internal position is the finder's, which lies on the last exon or after it, at most `max 1 clip` past `reference_end`.
    5' side: mirror image, around the start of the first retained exon.

    (The remaining case — both sides claim so many exons that the counts are cut down — leaves the positions where
    the finder put them; `tail_moved_onto_retained` covers it.) -/
theorem record_tail_on_retained_exon_of_ranges (s : Int) (ops : List CigarOp)
    (mf : Int) (info : PolyAInfo) (hs : 0 ≤ s) (hp : Pos ops)
    (hrA : ∀ x, (x = info.internalPolyA ∨ x = info.externalPolyA) → x ≠ -1 →
      s + 1 ≤ x ∧ x ≤ referenceEnd s ops + max 1 (softClipTail ops))
    (hrT : ∀ x, (x = info.internalPolyT ∨ x = info.externalPolyT) → x ≠ -1 →
      max 1 (s - max 1 (softClipHead ops)) ≤ x ∧ x ≤ max 1 (referenceEnd s ops - 1))
    (hne : (getReadBlocks s ops).refBlocks ≠ []) :
    ∃ (r : AInfo) (a t : Int),
      addPolyaInfo mf (getReadBlocks s ops).refBlocks (getReadBlocks s ops).readBlocks
        (getReadBlocks s ops).cigarBlocks info = some r ∧
      correctReadInfo mf (getReadBlocks s ops).refBlocks info = some (a, t) ∧
      (0 < a → ∃ lastKept firstRemoved : Iv, r.exons.getLast? = some lastKept ∧
        (getReadBlocks s ops).refBlocks[(getReadBlocks s ops).refBlocks.length - a.toNat]? = some firstRemoved ∧
        lastKept.2 < firstRemoved.1 ∧ firstRemoved.2 ≤ referenceEnd s ops ∧
        (info.internalPolyA = -1 → r.info.internalPolyA = -1) ∧
        (info.internalPolyA ≠ -1 → lastKept.2 ≤ r.info.internalPolyA ∧
          r.info.internalPolyA ≤ lastKept.2 + max 0 (firstRemoved.2 - firstRemoved.1 - 1)) ∧
        (info.externalPolyA = -1 → r.info.externalPolyA = -1) ∧
        (info.externalPolyA ≠ -1 → lastKept.2 ≤ r.info.externalPolyA ∧
          r.info.externalPolyA ≤ r.info.internalPolyA)) ∧
      (countPolyaExons mf (getReadBlocks s ops).refBlocks info.internalPolyA = 0 → info.internalPolyA ≠ -1 →
        ∃ last : Iv, (getReadBlocks s ops).refBlocks.getLast? = some last ∧
          r.info.internalPolyA = info.internalPolyA ∧ last.1 ≤ r.info.internalPolyA ∧
          r.info.internalPolyA ≤ referenceEnd s ops + max 1 (softClipTail ops)) ∧
      (0 < t → ∃ firstKept lastRemoved : Iv, r.exons.head? = some firstKept ∧
        (getReadBlocks s ops).refBlocks[t.toNat - 1]? = some lastRemoved ∧
        lastRemoved.2 < firstKept.1 ∧ s + 1 ≤ lastRemoved.1 ∧
        (∀ old new, (old = info.internalPolyT ∧ new = r.info.internalPolyT) ∨
            (old = info.externalPolyT ∧ new = r.info.externalPolyT) →
          (old = -1 → new = -1) ∧
          (old ≠ -1 → new ≤ firstKept.1 ∧
            firstKept.1 - (lastRemoved.2 - max 1 (s - max 1 (softClipHead ops))) ≤ new)) ∧
        (info.externalPolyT ≠ -1 → r.info.internalPolyT ≤ r.info.externalPolyT)) ∧
      (countPolytExons mf (getReadBlocks s ops).refBlocks info.internalPolyT = 0 → info.internalPolyT ≠ -1 →
        ∃ first : Iv, (getReadBlocks s ops).refBlocks.head? = some first ∧
          r.info.internalPolyT = info.internalPolyT ∧ r.info.internalPolyT ≤ first.2 ∧
          max 1 (s - max 1 (softClipHead ops)) ≤ r.info.internalPolyT) := by
  have hnn := hp.nonneg
  have hsw := C16.exons_sorted_wf s ops hs hp
  have hsd : SD (getReadBlocks s ops).refBlocks := ⟨fun e he => (hsw.1 e he).2, hsw.2⟩
  have hwithin := C16.exons_within_reference_end s ops hs hnn
  obtain ⟨g1, g2⟩ := referenceEnd_ge s ops hnn
  generalize hex : (getReadBlocks s ops).refBlocks = exons at *
  generalize (getReadBlocks s ops).readBlocks = rb
  generalize (getReadBlocks s ops).cigarBlocks = cb
  obtain ⟨r, a, t, hr, hcri, hA0, hA, hT0, hT⟩ := C16PolyA.tail_moved_onto_retained mf exons rb cb info hsd hne
  obtain ⟨r', a', t', hr', hcri', hAsharp⟩ := C16PolyA.internal_tail_within_first_removed mf exons rb cb info hsd hne
  rw [hr] at hr'
  rw [hcri] at hcri'
  obtain rfl := Option.some.inj hr'
  obtain ⟨rfl, rfl⟩ := Prod.mk.inj (Option.some.inj hcri')
  obtain ⟨a'', t'', hcri'', _, hale, htle, _⟩ := correctReadInfo_spec mf exons info hne
  rw [hcri] at hcri''
  obtain ⟨rfl, rfl⟩ := Prod.mk.inj (Option.some.inj hcri'')
  obtain ⟨r5, a5, t5, hr5, hcri5, hA5, hT5⟩ := C16PolyA.tail_on_retained_exon mf exons rb cb info hsd hne
  rw [hr] at hr5
  rw [hcri] at hcri5
  obtain rfl := Option.some.inj hr5
  obtain ⟨rfl, rfl⟩ := Prod.mk.inj (Option.some.inj hcri5)
  have hxA : 0 < a → info.externalPolyA ≠ -1 → r.info.externalPolyA ≤ r.info.internalPolyA := by
    intro ha hea
    obtain ⟨_, _, _, _, _, _, _, _, hx⟩ := hA5 ha
    exact (hx hea).2
  have hxT : 0 < t → info.externalPolyT ≠ -1 → r.info.internalPolyT ≤ r.info.externalPolyT := by
    intro ht het
    obtain ⟨_, _, _, _, _, _, _, _, hx⟩ := hT5 ht
    exact (hx het).1
  clear hA5 hT5
  -- the result's exons are a contiguous part of the input: ordering facts between kept and removed exons
  obtain ⟨a2, t2, st0, st1, st2, r2, hcri2, hlt, _, _, _, _, _, _, hr2, _, hre, _⟩ :=
    addPolyaInfo_spec mf exons rb cb info hne
  rw [hcri] at hcri2
  obtain ⟨rfl, rfl⟩ := Prod.mk.inj (Option.some.inj hcri2)
  rw [hr] at hr2
  obtain rfl := Option.some.inj hr2
  have hpair := hsd.2
  have hord : ∀ (i j : Nat) (x y : Iv), i < j → exons[i]? = some x → exons[j]? = some y → x.2 < y.1 := by
    intro i j x y hij hx hy
    have hi : i < exons.length := by
      by_cases hi : i < exons.length
      · exact hi
      · rw [List.getElem?_eq_none (by omega)] at hx; cases hx
    have hj : j < exons.length := by
      by_cases hj : j < exons.length
      · exact hj
      · rw [List.getElem?_eq_none (by omega)] at hy; cases hy
    rw [List.getElem?_eq_getElem hi] at hx
    rw [List.getElem?_eq_getElem hj] at hy
    have := List.pairwise_iff_getElem.1 hpair i j hi hj hij
    rw [Option.some.inj hx, Option.some.inj hy] at this
    exact this
  have hmem : ∀ (i : Nat) (x : Iv), exons[i]? = some x → x ∈ exons := fun i x hx => List.mem_of_getElem? hx
  refine ⟨r, a, t, hr, hcri, ?_, ?_, ?_, ?_⟩
  · intro ha
    obtain ⟨lastKept, firstRemoved, hlk, hfr, hmi, hme⟩ := hA ha
    have hlast : r.exons.getLast? = exons[exons.length - a.toNat - 1]? := by
      rw [hre, List.getLast?_drop, List.length_take]
      have : ¬ (min (exons.length - a.toNat) exons.length ≤ t.toNat) := by omega
      rw [if_neg this, List.getLast?_take]
      have h0 : ¬ (exons.length - a.toNat = 0) := by omega
      rw [if_neg h0]
      have hlt' : exons.length - a.toNat - 1 < exons.length := by omega
      simp [hlt']
    rw [hlast] at hlk
    have hgap := hord _ _ _ _ (by omega) hlk hfr
    have hfrm := hmem _ _ hfr
    have hfrwf := hsd.1 _ hfrm
    have hfre := hwithin _ hfrm
    refine ⟨lastKept, firstRemoved, by rw [hlast]; exact hlk, hfr, hgap, by omega, hmi.1, ?_, hme.1, ?_⟩
    · intro hia
      obtain ⟨lk, fr, hlk', hfr', hlt1, hval⟩ := hAsharp ha hia
      rw [hlast, hlk] at hlk'
      rw [hfr] at hfr'
      have e1 : lastKept = lk := Option.some.inj hlk'
      have e2 : firstRemoved = fr := Option.some.inj hfr'
      subst e1 e2
      rw [hval]
      omega
    · intro hea
      exact ⟨(hme.2 hea).1, hxA ha hea⟩
  · intro hc hia
    have ha0 : a ≤ 0 := by omega
    obtain ⟨l, hl⟩ : ∃ l, exons.getLast? = some l := by
      cases h : exons.getLast? with
      | none => rw [List.getLast?_eq_none_iff] at h; exact absurd h hne
      | some l => exact ⟨l, rfl⟩
    have hon := count_zero_on_last mf exons _ l hc hia hl
    have hlm : l ∈ exons := List.mem_of_getLast? hl
    have hlwf := hsd.1 _ hlm
    obtain ⟨_, h3⟩ := hrA _ (Or.inl rfl) hia
    refine ⟨l, hl, (hA0 ha0).1, ?_, ?_⟩
    · rw [(hA0 ha0).1]; omega
    · rw [(hA0 ha0).1]; exact h3
  · intro ht
    obtain ⟨firstKept, lastRemoved, hfk, hlr, hmi, hme⟩ := hT ht
    have hhead : r.exons.head? = exons[t.toNat]? := by
      rw [hre, List.head?_drop, List.getElem?_take]
      have : t.toNat < exons.length - a.toNat := by omega
      simp [this]
    rw [hhead] at hfk
    have hgap := hord _ _ _ _ (by omega) hlr hfk
    have hlrm := hmem _ _ hlr
    have hlr1 := (hsw.1 _ hlrm).1
    have hlrwf := hsd.1 _ hlrm
    refine ⟨firstKept, lastRemoved, by rw [hhead]; exact hfk, hlr, hgap, hlr1, ?_, ?_⟩
    rotate_left
    · exact hxT ht
    rintro old new (⟨rfl, rfl⟩ | ⟨rfl, rfl⟩)
    · refine ⟨hmi.1, fun hne1 => ?_⟩
      obtain ⟨h1, h2⟩ := hmi.2 hne1
      obtain ⟨h3, _⟩ := hrT _ (Or.inl rfl) hne1
      omega
    · refine ⟨hme.1, fun hne1 => ?_⟩
      obtain ⟨h1, h2⟩ := hme.2 hne1
      obtain ⟨h3, _⟩ := hrT _ (Or.inr rfl) hne1
      omega
  · intro hc hit
    have ht0 : t ≤ 0 := by omega
    obtain ⟨f, hf⟩ : ∃ f, exons.head? = some f := by
      cases exons with
      | nil => exact absurd rfl hne
      | cons x xs => exact ⟨x, rfl⟩
    have hon := count_zero_on_first mf exons _ f hc hit hf
    have hfm : f ∈ exons := List.mem_of_head? hf
    have hfwf := hsd.1 _ hfm
    obtain ⟨h3, _⟩ := hrT _ (Or.inl rfl) hit
    refine ⟨f, hf, (hT0 ht0).1, ?_, ?_⟩
    · rw [(hT0 ht0).1]; omega
    · rw [(hT0 ht0).1]; exact h3

/-- `record_tail_on_retained_exon` for the positions of the modelled finder (`detect_polya`; head window before the
    c16x repair – the statement for the repaired window is `record_tail_on_retained_exon_win`,
    Props/C16FinderMirror.lean: same conclusion, the ranges of the positions do not depend on the window) -/
theorem record_tail_on_retained_exon (w num den : Nat) (hw : 1 ≤ w) (s : Int) (ops : List CigarOp)
    (seq : List Char) (mf : Int) (info : PolyAInfo) (hs : 0 ≤ s) (hp : Pos ops)
    (hdet : detectPolya w num den s ops seq = some info)
    (hne : (getReadBlocks s ops).refBlocks ≠ []) :
    ∃ (r : AInfo) (a t : Int),
      addPolyaInfo mf (getReadBlocks s ops).refBlocks (getReadBlocks s ops).readBlocks
        (getReadBlocks s ops).cigarBlocks info = some r ∧
      correctReadInfo mf (getReadBlocks s ops).refBlocks info = some (a, t) ∧
      (0 < a → ∃ lastKept firstRemoved : Iv, r.exons.getLast? = some lastKept ∧
        (getReadBlocks s ops).refBlocks[(getReadBlocks s ops).refBlocks.length - a.toNat]? = some firstRemoved ∧
        lastKept.2 < firstRemoved.1 ∧ firstRemoved.2 ≤ referenceEnd s ops ∧
        (info.internalPolyA = -1 → r.info.internalPolyA = -1) ∧
        (info.internalPolyA ≠ -1 → lastKept.2 ≤ r.info.internalPolyA ∧
          r.info.internalPolyA ≤ lastKept.2 + max 0 (firstRemoved.2 - firstRemoved.1 - 1)) ∧
        (info.externalPolyA = -1 → r.info.externalPolyA = -1) ∧
        (info.externalPolyA ≠ -1 → lastKept.2 ≤ r.info.externalPolyA ∧
          r.info.externalPolyA ≤ r.info.internalPolyA)) ∧
      (countPolyaExons mf (getReadBlocks s ops).refBlocks info.internalPolyA = 0 → info.internalPolyA ≠ -1 →
        ∃ last : Iv, (getReadBlocks s ops).refBlocks.getLast? = some last ∧
          r.info.internalPolyA = info.internalPolyA ∧ last.1 ≤ r.info.internalPolyA ∧
          r.info.internalPolyA ≤ referenceEnd s ops + max 1 (softClipTail ops)) ∧
      (0 < t → ∃ firstKept lastRemoved : Iv, r.exons.head? = some firstKept ∧
        (getReadBlocks s ops).refBlocks[t.toNat - 1]? = some lastRemoved ∧
        lastRemoved.2 < firstKept.1 ∧ s + 1 ≤ lastRemoved.1 ∧
        (∀ old new, (old = info.internalPolyT ∧ new = r.info.internalPolyT) ∨
            (old = info.externalPolyT ∧ new = r.info.externalPolyT) →
          (old = -1 → new = -1) ∧
          (old ≠ -1 → new ≤ firstKept.1 ∧
            firstKept.1 - (lastRemoved.2 - max 1 (s - max 1 (softClipHead ops))) ≤ new)) ∧
        (info.externalPolyT ≠ -1 → r.info.internalPolyT ≤ r.info.externalPolyT)) ∧
      (countPolytExons mf (getReadBlocks s ops).refBlocks info.internalPolyT = 0 → info.internalPolyT ≠ -1 →
        ∃ first : Iv, (getReadBlocks s ops).refBlocks.head? = some first ∧
          r.info.internalPolyT = info.internalPolyT ∧ r.info.internalPolyT ≤ first.2 ∧
          max 1 (s - max 1 (softClipHead ops)) ≤ r.info.internalPolyT) := by
  obtain ⟨hrA, hrT⟩ := detected_positions_in_range w num den hw s ops seq hp.nonneg info hdet
  exact record_tail_on_retained_exon_of_ranges s ops mf info hs hp hrA hrT hne

/-- non-vacuity: `60M 100N 20M 20S` at 1000, read = 62 C + 38 A (18 aligned A's form most of the second exon, 20 are
    soft-clipped): the finder reports internal 1162 / external 1178, the second exon is removed (`a = 1`), the
    internal position is recorded at 1061 = end of the retained exon + 1 (the one non-A base 1161 of the removed
    exon), the external one at 1061 as well (repaired code: cut down to the internal position; before: 1077) -/
example :
    let ops : List CigarOp := [(.«match», 60), (.skipped, 100), (.«match», 20), (.soft_clipping, 20)]
    let seq : List Char := List.replicate 62 'C' ++ List.replicate 38 'A'
    Pos ops ∧ detectPolya 16 3 4 1000 ops seq = some ⟨1178, -1, 1162, -1⟩ ∧
    (getReadBlocks 1000 ops).refBlocks = [(1001, 1060), (1161, 1180)] ∧
    correctReadInfo 40 (getReadBlocks 1000 ops).refBlocks ⟨1178, -1, 1162, -1⟩ = some (1, 0) ∧
    (addPolyaInfo 40 (getReadBlocks 1000 ops).refBlocks (getReadBlocks 1000 ops).readBlocks
      (getReadBlocks 1000 ops).cigarBlocks ⟨1178, -1, 1162, -1⟩).map (fun r => (r.exons, r.info))
      = some ([(1001, 1060)], ⟨1061, -1, 1061, -1⟩) := by
  refine ⟨?_, by decide, by decide, by decide, by decide⟩
  intro o ho; simp at ho; rcases ho with h | h | h | h <;> subst h <;> decide

end IsoVerif.Props.C16TailRecord
