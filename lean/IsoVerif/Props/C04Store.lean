/-
C04 (part 3) — bookkeeping behind `transcript_model_reads.tsv`: every surviving novel model keeps a read, and the
file names only stored models.
Property theorems only (helper lemmas: IsoVerif/Lemmas/ModelConstruction.lean).
Model: `Store`, `filterLoopG`, `preFilterDec`, `filterDec1/2`, `assignReads`, `dumpR2T` in
IsoVerif/Model/ModelConstruction.lean.  `detect_similar_isoforms`, component coverage, per-read mapq and the
assigner's answers are universally quantified inputs.
-/
import IsoVerif.Gen.Strategies
import IsoVerif.Model.ModelConstruction
import IsoVerif.Lemmas.ModelConstruction

namespace IsoVerif.Props.C04Store
open IsoVerif.Gen IsoVerif.Model IsoVerif.Model.C04 IsoVerif.Lemmas.C04

/-- **min_novel_count_pos.** Every construction preset demands at least one read for a novel model
    (closed by evaluation over the whole regenerated table). -/
theorem min_novel_count_pos : ∀ p ∈ construction_presets, 1 ≤ p.2.min_novel_count := by decide

/-- every storage reachable from the empty one by the steps of `process` keeps `internal_counter[t] ≤ |reads[t]|` -/
theorem counter_le_reads (ops : List SOp) (s s' : Store) (hs : CounterLe s) (h : RunSOps s ops s') : CounterLe s' := by
  induction h with
  | nil s => exact hs
  | @cons s0 s1 s2 op t hsc happ hrun ih =>
    apply ih
    cases op with
    | addModel m reads => simp [applySOp] at happ; subst happ; exact addModel_counterLe hs m reads
    | assign ins => simp [applySOp] at happ; subst happ; exact (assignReads_grow s0 ins).counterLe hs
    | preFilter p mapq =>
      obtain ⟨D, _, _, hsh⟩ := preFilter_spec happ
      exact hsh.counterLe hs
    | filter p mapq similar covTerm =>
      obtain ⟨D, _, _, hsh, _⟩ := filterTranscripts_spec happ
      exact hsh.counterLe hs

/-- **has_supporting_read.** After `filter_transcripts` — whatever `detect_similar_isoforms`, the coverage functions
    and the mapping qualities say — and after the final `assign_reads_to_models`, every model of the storage that is
    not `known` has at least one line in `transcript_model_reads`.  Hypotheses: `min_novel_count ≥ 1`
    (`min_novel_count_pos`: true of every preset), the counter invariant (`counter_le_reads`: true of every reachable
    storage) and pairwise distinct transcript ids in the storage (id allocation, property C17). -/
theorem has_supporting_read (s s' : Store) (p : FilterParams) (mapq : String → Int)
    (similar : List TModel → List String) (covTerm : TModel → Int) (ins : List AssignIn)
    (hpos : 1 ≤ p.minNovelCount) (hnd : (ids s.models).Nodup) (hle : CounterLe s)
    (h : s.filterTranscripts p mapq similar covTerm = some s') :
    ∀ m ∈ (s'.assignReads ins).models, m.ttype ≠ .known → ∃ r, (r, m.tid) ∈ (s'.assignReads ins).dumpR2T := by
  obtain ⟨D, _, _, hsh, hB⟩ := filterTranscripts_spec h
  have hg := assignReads_grow s' ins
  intro m hm hnovel
  rw [hg.models] at hm
  obtain ⟨hmD, hq⟩ := hB hnd m hm
  have hc : p.minNovelCount ≤ cnt s'.counter m.tid := by
    rw [hsh.counter, if_neg hmD]; exact hq hnovel
  have hle2 : CounterLe s' := hsh.counterLe hle
  have hlen : 1 ≤ ((readsIn s'.readIds m.tid).length : Int) := by have := hle2 m.tid; omega
  have hlen' : 1 ≤ (readsIn (s'.assignReads ins).readIds m.tid).length := by
    have := (hg.reads m.tid).length_le
    omega
  cases hr : readsIn (s'.assignReads ins).readIds m.tid with
  | nil => rw [hr] at hlen'; simp at hlen'
  | cons r t => exact ⟨r, mem_dump_of_reads (by rw [hr]; simp)⟩

/-- non-vacuity: a storage with a 3-read novel model and a 1-read novel model under `min_novel_count = 2`:
    the first survives with its reads listed, the second is deleted together with its lines -/
def exModel (tid : String) : TModel :=
  ⟨"chr1", .plus, tid, "novel_gene_chr1_9", [(1, 10), (20, 30), (40, 50)], .novel_not_in_catalog, [(11, 19), (31, 39)]⟩

def exStore : Store :=
  (Store.empty.addModel (exModel "transcript1.chr1.nnic") ["r1", "r2", "r3"]).addModel (exModel "transcript2.chr1.nnic") ["r4"]

example : (exStore.filterTranscripts ⟨2, 30⟩ (fun _ => 60) (fun _ => []) (fun _ => 0)).map
    (fun s => (ids s.models, s.dumpR2T))
    = some (["transcript1.chr1.nnic"],
            [("r1", "transcript1.chr1.nnic"), ("r2", "transcript1.chr1.nnic"), ("r3", "transcript1.chr1.nnic"), ("r4", "*")]) := by
  decide +kernel

example : (ids exStore.models).Nodup ∧ CounterLe exStore :=
  ⟨by decide +kernel, addModel_counterLe (addModel_counterLe counterLe_empty _ _) _ _⟩

/-- **r2t_refers_to_storage.** For every history of the storage-changing steps of `process` (models added with their
    reads, `pre_filter_transcripts`, `assign_reads_to_models` naming stored models, `filter_transcripts`; any number, any
    order, any heuristic answers), every line of `transcript_model_reads` names a transcript that is in
    `transcript_model_storage` at that moment, or `*`. -/
theorem r2t_refers_to_storage (ops : List SOp) (s' : Store) (h : RunSOps Store.empty ops s') :
    ∀ l ∈ s'.dumpR2T, l.2 = "*" ∨ l.2 ∈ ids s'.models := by
  have hinv : R2TInv s' := by
    have h0 : R2TInv Store.empty := by intro p hp; simp [Store.empty] at hp
    generalize Store.empty = s0 at h h0
    induction h with
    | nil s => exact h0
    | @cons s0 s1 s2 op t hsc happ hrun ih =>
      apply ih
      cases op with
      | addModel m reads =>
        simp [applySOp] at happ; subst happ
        unfold Store.addModel
        apply r2tInv_foldl_saveRead
        · intro p hp hne
          have := h0 p hp hne
          simp only [ids, List.map_append, List.mem_append] at this ⊢
          exact Or.inl this
        · simp [ids]
      | assign ins =>
        simp [applySOp] at happ; subst happ
        unfold Store.assignReads
        split
        · have : ∀ (l : List AssignIn) (sx : Store), R2TInv sx →
              R2TInv (l.foldl (fun s a => { s with rcount := amSet s.rcount a.read 0 }) sx) := by
            intro l
            induction l with
            | nil => intro sx hx; simpa using hx
            | cons a t ih' => intro sx hx; simp only [List.foldl_cons]; exact ih' _ hx
          exact this _ _ h0
        · have : ∀ (l : List AssignIn) (sx : Store), R2TInv sx → (∀ a ∈ l, ∀ t ∈ a.matched, t ∈ ids sx.models) →
              R2TInv (l.foldl assignOne sx) := by
            intro l
            induction l with
            | nil => intro sx hx _; simpa using hx
            | cons a t ih' =>
              intro sx hx hl
              simp only [List.foldl_cons]
              apply ih' _ (r2tInv_assignOne hx (hl a (by simp)))
              intro b hb y hy
              rw [(assignOne_grow sx a).models]
              exact hl b (by simp [hb]) y hy
          exact this _ _ h0 hsc
      | preFilter p mapq =>
        obtain ⟨D, _, hcov, hsh⟩ := preFilter_spec happ
        intro q hq hne
        rcases hsh.entries q hq with h1 | ⟨h1, h2⟩
        · exact absurd h1 hne
        · have := h0 q h1 hne
          simp only [ids, List.mem_map] at this ⊢
          obtain ⟨m, hm, hmt⟩ := this
          rcases hcov m hm with h3 | h3
          · exact ⟨m, h3, hmt⟩
          · rw [hmt] at h3; exact absurd h3 h2
      | filter p mapq similar covTerm =>
        obtain ⟨D, _, hcov, hsh, _⟩ := filterTranscripts_spec happ
        intro q hq hne
        rcases hsh.entries q hq with h1 | ⟨h1, h2⟩
        · exact absurd h1 hne
        · have := h0 q h1 hne
          simp only [ids, List.mem_map] at this ⊢
          obtain ⟨m, hm, hmt⟩ := this
          rcases hcov m hm with h3 | h3
          · exact ⟨m, h3, hmt⟩
          · rw [hmt] at h3; exact absurd h3 h2
  intro l hl
  unfold Store.dumpR2T at hl
  simp only [List.mem_append, List.mem_flatMap, List.mem_map, List.mem_filter] at hl
  rcases hl with ⟨p, hp, r, hr, rfl⟩ | ⟨p, _, rfl⟩
  · refine Or.inr (hinv p hp ?_)
    intro hc; rw [hc] at hr; simp at hr
  · exact Or.inl rfl

/-- non-vacuity: a history with an add, an assignment and a filter runs and produces lines -/
example : RunSOps Store.empty
    [.addModel (exModel "t1") ["r1", "r2"], .assign [⟨"r9", true, ["t1"]⟩]]
    ((Store.empty.addModel (exModel "t1") ["r1", "r2"]).assignReads [⟨"r9", true, ["t1"]⟩]) :=
  .cons trivial rfl (.cons (by intro a ha t ht; simp at ha; subst ha; simp at ht; subst ht; decide +kernel) rfl (.nil _))

end IsoVerif.Props.C04Store
