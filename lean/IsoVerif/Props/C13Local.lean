/-
C13 (closure `p13local`) — the interface hypothesis `Local` of Props/C13Chromosome.lean DISCHARGED, and the chromosome-level
count clause stated on the BAM records.

  1. `constructOverlapping_local`: the ±1 entries of `construct_profile_for_features` depend on the known features only
     through those the read touches (under `Hyp`, from the `…_partial` meaning theorems); instances `exonProc_local`,
     `intronProc_local` for the real exon / intron profile construction over the genes a (sub-)region loads
     (`GeneInfo(gene_list)`: `Model.C13.mkGene` of the loaded genes, `construct_exon_profile` / `construct_intron_profile`,
     `set_feature_properties`).  No residual hypothesis: the gene query is 1-based since fix `fix_gene_query_last_base`
     (`loadGenes`); `last_base_gene_witness` shows what the query before it (`loadGenesOrig`: the 0-based region compared with the
     1-based gene records as it is) did to a read whose last aligned base is a gene's first base.
  2. `collector_interface`: C05's `every_alignment_forwarded` / `forwarded_sublist` / `clusters_partition` give `hin`, `hcov`;
     `chromosome_row_counts_bam`, `chromosome_exon_rows`, `chromosome_intron_rows` take the BAM records of the chromosome; the
     records that are never assigned (`Regions.passes`) get no record and do not stretch the gene region (`procOut`; fix
     48f2521-stretch-only-over-processed; `stretch_over_unassigned_witness`: what stretching over them did to OTHER reads).
  3. `tableProc_local`: the table-driven processing the driver runs is `Local` when its answers name only genes the alignment
     overlaps (`AnswersLocal`).
Helper lemmas and the hypothesis structures `ExonHyp` / `IntronHyp`: IsoVerif/Lemmas/C13Local.lean, C13LocalInst.lean.
Property theorems only.
-/
import IsoVerif.Props.C13Chromosome
import IsoVerif.Lemmas.C13Local
import IsoVerif.Lemmas.C13LocalInst
import IsoVerif.Props.C05

namespace IsoVerif.Props.C13Local
open IsoVerif.Gen IsoVerif.Model IsoVerif.Model.Resolver IsoVerif.Model.C13 IsoVerif.Model.C13Chr
open IsoVerif.Lemmas.C13 IsoVerif.Lemmas.C13Chr IsoVerif.Lemmas.C13Local IsoVerif.Lemmas.C13LocalInst
open IsoVerif.Props.C13Chromosome IsoVerif.Props.C13Profiles
open IsoVerif.Model.Regions (Aln)

/-- the abstract theorem of item 1 (proved in Lemmas/C13Local.lean), restated here so that `vcheck` audits its axioms -/
theorem constructOverlapping_local (K1 K2 : List Iv) (gr1 gr2 : Iv) (absent : Iv → Iv → Bool) (δ : Int) (R : List Iv) (M : Iv)
    (pa pt : Int) (hδ : 0 ≤ δ) (h1 : Hyp δ K1 R) (h2 : Hyp δ K2 R) (hsub : ∀ x ∈ K1, x ∈ K2)
    (hvis : ∀ x ∈ K2, Touches δ absent R M x → x ∈ K1) (v : Int) (hv : v = 1 ∨ v = -1) (x : Iv) :
    (∃ i : Nat, K1[i]? = some x ∧ (constructOverlapping K1 gr1 (fun a b => equal_ranges a b δ) absent δ R M pa pt).gene[i]? = some v) ↔
    (∃ i : Nat, K2[i]? = some x ∧ (constructOverlapping K2 gr2 (fun a b => equal_ranges a b δ) absent δ R M pa pt).gene[i]? = some v) :=
  IsoVerif.Lemmas.C13Local.constructOverlapping_local K1 K2 gr1 gr2 absent δ R M pa pt hδ h1 h2 hsub hvis v hv x

-- non-vacuity: a second gene far right of the read changes neither verdict of the first gene's exons
example : Hyp 4 [(100, 200), (300, 400), (500, 600)] [(100, 200), (500, 600)] ∧
    Hyp 4 [(100, 200), (300, 400), (500, 600), (5000, 5100)] [(100, 200), (500, 600)] ∧
    (∀ x ∈ [(100, 200), (300, 400), (500, 600), (5000, 5100)],
      Touches 4 (fun a b => contains a b) [(100, 200), (500, 600)] (204, 496) x → x ∈ [(100, 200), (300, 400), (500, 600)]) := by
  refine ⟨⟨by simp [SortedStarts], by simp [LongerThan], by simp [SepBy], by simp [WFR]⟩,
    ⟨by simp [SortedStarts], by simp [LongerThan], by simp [SepBy], by simp [WFR]⟩, ?_⟩
  intro x hx ht
  simp only [List.mem_cons, List.not_mem_nil, or_false] at hx
  rcases hx with rfl | rfl | rfl | rfl
  · simp
  · simp
  · simp
  · exfalso
    rcases ht with ⟨r, hr, he⟩ | he | ⟨j, r, r', hr, hr', h1, h2⟩
    · simp only [List.mem_cons, List.not_mem_nil, or_false] at hr
      rcases hr with rfl | rfl <;> simp [equal_ranges, iabs] at he
    · simp [contains] at he
    · have := List.mem_of_getElem? hr'
      simp only [List.mem_cons, List.not_mem_nil, or_false] at this
      rcases this with rfl | rfl <;> simp at h2 <;> omega

/-! ### item 3: the table-driven processing is `Local` -/

/-- **tableProc_local** (item 3): the processing the driver op `chromosome` runs meets the interface, whenever its tables name,
    for every alignment, only genes the alignment overlaps (what the case generator builds; the real assigner / profile
    constructors name only isoforms and features of loaded genes). -/
theorem tableProc_local (chr : String) (genes : List GeneRec) (all : List Aln) (ans : Answers) (h : AnswersLocal genes all ans) :
    Local (tableProc chr ans) genes all := by
  have hhits : ∀ R, ∀ a ∈ all, view a (loadGenes genes R) = view a genes →
      (ans.hits a.rid).filter (fun m => (loadGenes genes R).any (fun x => x.gid == m.2)) = ans.hits a.rid ∧
      (ans.hits a.rid).filter (fun m => genes.any (fun x => x.gid == m.2)) = ans.hits a.rid := by
    intro R a ha hv
    constructor
    · apply filter_vis_self _ (fun m : Nat × Nat => m.2)
      intro m hm
      obtain ⟨g, hg, e, ho⟩ := (h a ha).1 m hm
      exact ⟨g, mem_load_of_view genes R a hv g hg ho, e⟩
    · apply filter_vis_self _ (fun m : Nat × Nat => m.2)
      intro m hm
      obtain ⟨g, hg, e, _⟩ := (h a ha).1 m hm
      exact ⟨g, hg, e⟩
  have hmarks : ∀ R, ∀ a ∈ all, view a (loadGenes genes R) = view a genes →
      (ans.marks a.rid).filter (fun m => (loadGenes genes R).any (fun x => x.gid == m.1)) = ans.marks a.rid ∧
      (ans.marks a.rid).filter (fun m => genes.any (fun x => x.gid == m.1)) = ans.marks a.rid := by
    intro R a ha hv
    constructor
    · apply filter_vis_self _ (fun m : Nat × Iv × Int => m.1)
      intro m hm
      obtain ⟨g, hg, e, ho⟩ := (h a ha).2 m hm
      exact ⟨g, mem_load_of_view genes R a hv g hg ho, e⟩
    · apply filter_vis_self _ (fun m : Nat × Iv × Int => m.1)
      intro m hm
      obtain ⟨g, hg, e, _⟩ := (h a ha).2 m hm
      exact ⟨g, hg, e⟩
  refine ⟨?_, ?_, ?_⟩
  · intro R a ha hv
    simp only [tableProc]
    rw [(hhits R a ha hv).1, (hhits R a ha hv).2]
  · intro R a ha hv ignore dflt v k g _
    simp only [tableProc]
    rw [(hmarks R a ha hv).1, (hmarks R a ha hv).2]
    by_cases h1 : (loadGenes genes R).isEmpty = true
    · -- nothing loaded: the alignment has no mark at all
      have hnil : ans.marks a.rid = [] := by
        cases hm : ans.marks a.rid with
        | nil => rfl
        | cons m ms =>
          exfalso
          obtain ⟨g, hg, _, ho⟩ := (h a ha).2 m (by rw [hm]; simp)
          have := mem_load_of_view genes R a hv g hg ho
          rw [List.isEmpty_iff.mp h1] at this
          simp at this
      simp only [h1, ↓reduceIte, Option.any_none, hnil]
      by_cases h2 : genes.isEmpty = true
      · simp [h2]
      · simp [h2, evSays, marks]
    · have h2 : ¬ genes.isEmpty = true := by
        intro h2
        apply h1
        rw [List.isEmpty_iff] at h2 ⊢
        simp [loadGenes, h2]
      simp only [h1, h2]
  · intro G a
    simp only [tableProc]
    split
    · split <;> simp
    · simp
    · simp

-- non-vacuity: the witness tables of Props/C13Chromosome.lean name only overlapped genes
example : AnswersLocal wGenes wAll wLost := by
  intro a ha
  simp only [wAll, List.mem_cons, List.not_mem_nil, or_false] at ha
  rcases ha with rfl | rfl | rfl <;> decide

/-! ### item 1: the real exon profile construction is `Local` -/

/-- **exonProc_local** (item 1, exon table): the real exon profile construction against the GeneInfo of the loaded genes meets
    the interface `Local` - a region that gives an alignment its full gene view gives every annotated exon the ±1 verdict of the
    whole annotation.  (The assigner fields are the table-driven ones of `tableProc`.) -/
theorem exonProc_local (A : Ann) (genes : List GeneRec) (all : List Aln) (ans : Answers) (hans : AnswersLocal genes all ans)
    (H : ExonHyp A genes all) : Local (exonProc A ans) genes all := by
  have hT := tableProc_local A.chr genes all ans hans
  refine ⟨hT.isoforms, ?_, hT.alive⟩
  intro R a ha hv ignore dflt v k g hv1
  show (exonEv A (loadGenes genes R) a).any (evSays ignore dflt v k g) = (exonEv A genes a).any (evSays ignore dflt v k g)
  rw [Bool.eq_iff_iff, exonEv_says_iff, exonEv_says_iff]
  have key : ∀ f l, (A.reads a.rid).blocks.head? = some f → (A.reads a.rid).blocks.getLast? = some l →
      ((∃ i : Nat, (exonsOf A (loadGenes genes R))[i]? = some (k.2.1, k.2.2) ∧
        (constructOverlapping (exonsOf A (loadGenes genes R)) (hull (loadGenes genes R)) (fun x y => equal_ranges x y A.delta)
          (fun x y => contains x y) A.delta (A.reads a.rid).blocks (f.2 + A.delta, l.1 - A.delta) (A.reads a.rid).polya
          (A.reads a.rid).polyt).gene[i]? = some v) ↔
       (∃ i : Nat, (exonsOf A genes)[i]? = some (k.2.1, k.2.2) ∧
        (constructOverlapping (exonsOf A genes) (hull genes) (fun x y => equal_ranges x y A.delta)
          (fun x y => contains x y) A.delta (A.reads a.rid).blocks (f.2 + A.delta, l.1 - A.delta) (A.reads a.rid).polya
          (A.reads a.rid).polyt).gene[i]? = some v)) := by
    intro f l hf hl
    apply IsoVerif.Lemmas.C13Local.constructOverlapping_local _ _ _ _ _ _ _ _ _ _ H.delta_nonneg
      (exon_hyp A genes all H _ (loadGenes_sub genes R) a ha) (exon_hyp A genes all H genes (fun _ h => h) a ha) ?_ ?_ v hv1
    · intro x hx
      obtain ⟨g', hg', t, ht, hxt⟩ := (mem_exonsOf A _ x).mp hx
      exact (mem_exonsOf A genes x).mpr ⟨g', loadGenes_sub genes R g' hg', t, ht, hxt⟩
    · intro x hx htouch
      obtain ⟨g', hg', t, ht, hxt⟩ := (mem_exonsOf A genes x).mp hx
      have ho := exon_touch_overlaps A genes all H a ha f l hf hl g' hg' t ht x hxt htouch
      exact (mem_exonsOf A _ x).mpr ⟨g', mem_load_of_view genes R a hv g' hg' ho, t, ht, hxt⟩
  constructor
  · rintro ⟨f, l, hf, hl, hg, hc, hi⟩
    exact ⟨f, l, hf, hl, hg, hc, (key f l hf hl).mp hi⟩
  · rintro ⟨f, l, hf, hl, hg, hc, hi⟩
    exact ⟨f, l, hf, hl, hg, hc, (key f l hf hl).mpr hi⟩

/-! ### item 2: the collector output of C05 meets `hin` / `hcov`; the count clause on the BAM records -/

/-- **collector_interface**: on the coordinate-sorted records of a chromosome (`C05.ValidInput`) the collector answers; the lists
    the sub-regions work on (`procOut`: the forwarded lists without the records that are never assigned) hold only processed
    input records (`forwarded_sublist` + `clusters_partition`) and every processed input record (`every_alignment_forwarded`),
    in either memory mode -/
theorem collector_interface (m : Regions.Mode) (p : Regions.Params) (all : List Aln) (h : IsoVerif.Props.C05.ValidInput all) :
    ∃ out, Regions.collect m all = some out ∧
      (∀ q ∈ procOut p out, ∀ a ∈ q.2, a ∈ all.filter (Regions.passes p)) ∧
      (∀ a ∈ all.filter (Regions.passes p), ∃ q ∈ procOut p out, a ∈ q.2) := by
  obtain ⟨out, hout, hcov⟩ := IsoVerif.Props.C05.every_alignment_forwarded m all h
  refine ⟨out, hout, ?_, ?_⟩
  · intro q hq a ha
    obtain ⟨ra, hra, rfl⟩ := List.mem_map.mp hq
    obtain ⟨ha1, ha2⟩ := List.mem_filter.mp ha
    obtain ⟨c, hc, hsub⟩ := IsoVerif.Props.C05.forwarded_sublist m all h out hout ra hra
    refine List.mem_filter.mpr ⟨?_, ha2⟩
    rw [← (IsoVerif.Props.C05.clusters_partition all h).1]
    exact List.mem_flatten.mpr ⟨c, hc, hsub.subset ha1⟩
  · intro a ha
    obtain ⟨ha1, ha2⟩ := List.mem_filter.mp ha
    obtain ⟨ra, hra, hap, _⟩ := hcov a ha1
    exact ⟨(ra.1, ra.2.filter (Regions.passes p)), List.mem_map.mpr ⟨ra, hra, rfl⟩, List.mem_filter.mpr ⟨hap, ha2⟩⟩

/-- **chromosome_row_counts_bam** (THE COUNT CLAUSE PER CHROMOSOME ON THE BAM RECORDS): `all` = the records of the chromosome
    as the coordinate-sorted BAM yields them (ordered by start, each with a reference base); the processed ones (`passes p`:
    mapped, not supplementary, `--no_secondary`, `--min_mapq`) one per read id; the collector (either memory mode) cuts ALL
    records into clusters and sub-regions; every sub-region loads its genes for the extent of its PROCESSED alignments (1-based
    query) and processes them with a `Local` processing; the resolver keeps one record per alignment; the counter is fed in any
    order.  Then the run is defined and every row is the number of processed alignments that include / exclude the feature
    against the WHOLE annotation: records that are never assigned contribute nothing and change nothing. -/
theorem chromosome_row_counts_bam (genes : List GeneRec) (P : Proc) (all : List Aln) (p : Regions.Params)
    (hP : Local P genes (all.filter (Regions.passes p)))
    (m : Regions.Mode) (hvalid : IsoVerif.Props.C05.ValidInput all) (hrid : ((all.filter (Regions.passes p)).map (·.rid)).Nodup) :
    ∃ out evs, Regions.collect m all = some out ∧
      chromosomeEvents true genes P (procOut p out) ((all.filter (Regions.passes p)).map (·.rid)) = some evs ∧
      ∀ feed : List ReadEv, feed.Perm evs → (∀ ev ∈ feed, (ev.pmap.map coordKey).Nodup) →
        ∀ (ignore : Bool) (dflt : String) (st : PCounter CoordKey),
          countAll coordKey FeatureInfo.merge ignore dflt feed = some st → ∀ (k : CoordKey) (g : String),
            st.inclOf k g = (all.filter (Regions.passes p)).countP (alnSays P genes ignore dflt 1 k g) ∧
            st.exclOf k g = (all.filter (Regions.passes p)).countP (alnSays P genes ignore dflt (-1) k g) := by
  obtain ⟨out, hout, hin, hcov⟩ := collector_interface m p all hvalid
  obtain ⟨evs, hevs⟩ := chromosome_events_defined genes P _ hP (procOut p out) hrid hin hcov
  refine ⟨out, evs, hout, hevs, ?_⟩
  intro feed hperm hnd ignore dflt st hst k g
  exact chromosome_row_counts genes P _ hP (procOut p out) hrid hin hcov evs feed hevs hperm hnd ignore dflt st hst k g

/-! ### the read-level meaning of the right-hand side for the exon instance -/

/-- what "alignment `a` includes (v = 1) / excludes (v = -1) the exon `k` against the whole annotation" means, declaratively:
    the alignment has blocks, its group is `g`, `k` is an annotated exon of the chromosome, and
    +1: some block equals it within δ and no annotated exon is strictly closer to that block (`Best`);
    -1: it is not a best match and it loses a tie, or lies in the inner region `[first block end + δ, last block start - δ]`, or
        strictly inside a read intron; both only when not masked by a polyA / polyT position. -/
theorem exon_alnSays_meaning (A : Ann) (genes : List GeneRec) (all : List Aln) (ans : Answers) (H : ExonHyp A genes all)
    (a : Aln) (ha : a ∈ all) (ignore : Bool) (dflt : String) (k : CoordKey) (g : String) :
    let rd := A.reads a.rid
    let K := exonsOf A genes
    let x : Iv := (k.2.1, k.2.2)
    let unmasked := ¬ (rd.polya ≠ -1 ∧ x.1 > rd.polya + A.delta) ∧ ¬ (rd.polyt ≠ -1 ∧ x.2 < rd.polyt - A.delta)
    (alnSays (exonProc A ans) genes ignore dflt 1 k g a = true ↔
      ∃ f l, rd.blocks.head? = some f ∧ rd.blocks.getLast? = some l ∧ (if ignore then dflt else rd.group) = g ∧ k.1 = A.chr ∧
        x ∈ K ∧ Best A.delta K rd.blocks x ∧ unmasked) ∧
    (alnSays (exonProc A ans) genes ignore dflt (-1) k g a = true ↔
      ∃ f l, rd.blocks.head? = some f ∧ rd.blocks.getLast? = some l ∧ (if ignore then dflt else rd.group) = g ∧ k.1 = A.chr ∧
        x ∈ K ∧ ¬ Best A.delta K rd.blocks x ∧
        (TieLoser (fun p q => equal_ranges p q A.delta) K rd.blocks x ∨ (f.2 + A.delta ≤ x.1 ∧ x.2 ≤ l.1 - A.delta) ∨ InGap rd.blocks x) ∧
        unmasked) := by
  intro rd K x unmasked
  have hyp := exon_hyp A genes all H genes (fun _ h => h) a ha
  have hsays : ∀ v, alnSays (exonProc A ans) genes ignore dflt v k g a = (exonEv A genes a).any (evSays ignore dflt v k g) := fun _ => rfl
  have hmean : ∀ f l, rd.blocks.head? = some f → rd.blocks.getLast? = some l → ∀ i : Nat, K[i]? = some x →
      ((constructOverlapping K (hull genes) (fun p q => equal_ranges p q A.delta) (fun p q => contains p q) A.delta rd.blocks
          (f.2 + A.delta, l.1 - A.delta) rd.polya rd.polyt).gene[i]? = some 1 ↔ (Best A.delta K rd.blocks x ∧ unmasked)) ∧
      ((constructOverlapping K (hull genes) (fun p q => equal_ranges p q A.delta) (fun p q => contains p q) A.delta rd.blocks
          (f.2 + A.delta, l.1 - A.delta) rd.polya rd.polyt).gene[i]? = some (-1) ↔
        (¬ Best A.delta K rd.blocks x ∧
          (TieLoser (fun p q => equal_ranges p q A.delta) K rd.blocks x ∨ (f.2 + A.delta ≤ x.1 ∧ x.2 ≤ l.1 - A.delta) ∨ InGap rd.blocks x) ∧
          unmasked)) := by
    intro f l hf hl i hk
    have hp : constructExonProfile K (hull genes) A.delta rd.blocks rd.polya rd.polyt = some
        (constructOverlapping K (hull genes) (fun p q => equal_ranges p q A.delta) (fun p q => contains p q) A.delta rd.blocks
          (f.2 + A.delta, l.1 - A.delta) rd.polya rd.polyt) := by
      simp only [constructExonProfile, hf, hl]
    obtain ⟨f', l', hf', hl', h1, h2⟩ := exon_profile_meaning_partial K (hull genes) A.delta rd.blocks rd.polya rd.polyt _
      H.delta_nonneg hyp hp i x hk
    rw [hf] at hf'; cases hf'
    rw [hl] at hl'; cases hl'
    exact ⟨h1, h2⟩
  constructor
  · rw [hsays, exonEv_says_iff]
    constructor
    · rintro ⟨f, l, hf, hl, hg, hc, i, hk, hv⟩
      exact ⟨f, l, hf, hl, hg, hc, List.mem_of_getElem? hk, ((hmean f l hf hl i hk).1).mp hv⟩
    · rintro ⟨f, l, hf, hl, hg, hc, hx, hb⟩
      obtain ⟨i, hk⟩ := idx_of_mem hx
      exact ⟨f, l, hf, hl, hg, hc, i, hk, ((hmean f l hf hl i hk).1).mpr hb⟩
  · rw [hsays, exonEv_says_iff]
    constructor
    · rintro ⟨f, l, hf, hl, hg, hc, i, hk, hv⟩
      obtain ⟨h1, h2, h3⟩ := ((hmean f l hf hl i hk).2).mp hv
      exact ⟨f, l, hf, hl, hg, hc, List.mem_of_getElem? hk, h1, h2, h3⟩
    · rintro ⟨f, l, hf, hl, hg, hc, hx, h1, h2, h3⟩
      obtain ⟨i, hk⟩ := idx_of_mem hx
      exact ⟨f, l, hf, hl, hg, hc, i, hk, ((hmean f l hf hl i hk).2).mpr ⟨h1, h2, h3⟩⟩

/-- **chromosome_exon_rows** (everything composed for the EXON table): BAM records of a chromosome, collector, repaired gene
    loading, REAL exon profile construction against the GeneInfo of the loaded genes, resolver, counter in any feed order: the
    run is defined and every row of the table is the number of alignments that include / exclude the exon judged against the
    whole annotation (what that means per alignment: `exon_alnSays_meaning`).  No `Local`, `hin`, `hcov`, `hnd` hypothesis is
    left; what is assumed: `ExonHyp` (the `Hyp` of the meaning theorems, coordinate conventions), the assigner answers naming
    only overlapped genes, one processed record per read id. -/
theorem chromosome_exon_rows (A : Ann) (genes : List GeneRec) (all : List Aln) (ans : Answers) (p : Regions.Params)
    (hans : AnswersLocal genes (all.filter (Regions.passes p)) ans) (H : ExonHyp A genes (all.filter (Regions.passes p)))
    (m : Regions.Mode) (hvalid : IsoVerif.Props.C05.ValidInput all) (hrid : ((all.filter (Regions.passes p)).map (·.rid)).Nodup) :
    ∃ out evs, Regions.collect m all = some out ∧
      chromosomeEvents true genes (exonProc A ans) (procOut p out) ((all.filter (Regions.passes p)).map (·.rid)) = some evs ∧
      ∀ feed : List ReadEv, feed.Perm evs → ∀ (ignore : Bool) (dflt : String) (st : PCounter CoordKey),
        countAll coordKey FeatureInfo.merge ignore dflt feed = some st → ∀ (k : CoordKey) (g : String),
          st.inclOf k g = (all.filter (Regions.passes p)).countP (alnSays (exonProc A ans) genes ignore dflt 1 k g) ∧
          st.exclOf k g = (all.filter (Regions.passes p)).countP (alnSays (exonProc A ans) genes ignore dflt (-1) k g) := by
  obtain ⟨out, evs, hout, hevs, hrows⟩ := chromosome_row_counts_bam genes (exonProc A ans) all p
    (exonProc_local A genes _ ans hans H) m hvalid hrid
  refine ⟨out, evs, hout, hevs, ?_⟩
  intro feed hperm ignore dflt st hst k g
  refine hrows feed hperm ?_ ignore dflt st hst k g
  intro ev hev
  obtain ⟨G, a, he⟩ := chromosomeEvents_origin true genes (exonProc A ans) (procOut p out) _ evs hevs ev (hperm.subset hev)
  exact exonEv_keys_nodup A G a ev he

/-! ### the gene query before fix `fix_gene_query_last_base`: a gene that starts at the last aligned base -/

/-- gA = gene 0 (1001-1900), gB = gene 1 starts at 2000 = the 1-based last base of the alignment (0-based 1000..2000) -/
def lbGenes : List GeneRec := [⟨0, (1001, 1900)⟩, ⟨1, (2000, 3000)⟩]
def lbAln : Aln := { start := 1000, stop := 2000, secondary := false, supplementary := false, mapped := true, mapq := 60, rid := 0 }
def lbAnn : Ann :=
  { chr := "chr1", delta := 4, absDelta := 20,
    isoforms := fun g => if g = 0 then [⟨"A.t1", "+", "gA", [(1001, 1200), (1801, 1900)]⟩]
                         else [⟨"B.t1", "+", "gB", [(2000, 2004), (2500, 3000)]⟩],
    reads := fun _ => { blocks := [(1001, 1200), (1801, 1900), (1996, 2000)], polya := -1, polyt := -1, group := "NA" } }
def lbAns : Answers := { hits := fun _ => [(7, 0)], marks := fun _ => [] }

/-- **last_base_gene_witness** (the query BEFORE the fix, `loadGenesOrig`): the extent of the alignment,
    `(reference_start, reference_end - 1)` = (1000, 1999), is what a cluster of this one read (or a stretched sub-region) asks
    the annotation for; compared as it is with the 1-based gene records it misses gB, which starts at base 2000 - the read's LAST
    aligned base: the read's gene view is incomplete, and although its last block 1996-2000 equals gB's first exon 2000-2004
    within δ = 4 (against the whole annotation the exon is counted as included) the row 2000-2004 does not get the read - unless
    a neighbour in the cluster reaches further right.  The 1-based query `loadGenes` loads gB and the read says what it says
    against the whole annotation. -/
theorem last_base_gene_witness :
    loadGenesOrig lbGenes (1000, 1999) = [⟨0, (1001, 1900)⟩] ∧
    loadGenes lbGenes (1000, 1999) = lbGenes ∧
    view lbAln (loadGenesOrig lbGenes (1000, 1999)) ≠ view lbAln lbGenes ∧
    (exonEv lbAnn (loadGenesOrig lbGenes (1000, 1999)) lbAln).any (evSays true "NA" 1 ("chr1", 2000, 2004) "NA") = false ∧
    (exonEv lbAnn lbGenes lbAln).any (evSays true "NA" 1 ("chr1", 2000, 2004) "NA") = true ∧
    (exonEv lbAnn (loadGenes lbGenes (1000, 1999)) lbAln).any (evSays true "NA" 1 ("chr1", 2000, 2004) "NA") = true := by
  refine ⟨by decide +kernel, by decide +kernel, by decide +kernel, by decide +kernel, by decide +kernel, by decide +kernel⟩

-- non-vacuity of `exonProc_local` / `chromosome_exon_rows`: the last-base chromosome itself meets every hypothesis now
example : ExonHyp lbAnn lbGenes ([lbAln].filter (Regions.passes ⟨false, 0⟩)) ∧
    AnswersLocal lbGenes ([lbAln].filter (Regions.passes ⟨false, 0⟩)) lbAns ∧
    IsoVerif.Props.C05.ValidInput [lbAln] ∧ ((([lbAln] : List Aln).filter (Regions.passes ⟨false, 0⟩)).map (·.rid)).Nodup := by
  have hf : ([lbAln] : List Aln).filter (Regions.passes ⟨false, 0⟩) = [lbAln] := by decide
  rw [hf]
  refine ⟨⟨by decide, by decide, by decide, ?_, ?_, ?_⟩, ?_, ⟨by simp [IsoVerif.Lemmas.Regions.SortedByStart], ?_⟩, by simp⟩
  · intro a ha; simp at ha; subst ha; simp [SepBy, lbAnn]
  · intro a ha; simp at ha; subst ha; simp [WFR, lbAnn]
  · intro a ha; simp at ha; subst ha; decide
  · intro a ha; simp at ha; subst ha; decide
  · intro x hx; simp at hx; subst hx; simp [IsoVerif.Lemmas.Regions.WFA, lbAln]

/-! ### the stretch loop before fix 48f2521-stretch-only-over-processed: an unassigned record changes what OTHER reads get -/

/-- a sub-region (1000, 5000) with a processed read 1200..1800 that matches nothing, and a supplementary record of another read
    1500..2400000; g0 lies 2 Mb further right -/
def suGenes : List GeneRec := [⟨0, (2000000, 2001000)⟩]
def suRead : Aln := { start := 1200, stop := 1800, secondary := false, supplementary := false, mapped := true, mapq := 60, rid := 0 }
def suSupp : Aln := { start := 1500, stop := 2400000, secondary := false, supplementary := true, mapped := true, mapq := 60, rid := 1 }
def suRa : Iv × List Aln := ((1000, 5000), [suRead, suSupp])
def suAns : Answers := { hits := fun _ => [], marks := fun _ => [] }

/-- **stretch_over_unassigned_witness**: the supplementary record is never assigned (`passes` = false: it gets no record, no
    row), yet the loop of fix 48f2521 stretched the gene region of the sub-region over it (`loadRegionAll`): the sub-region
    loads a gene 2 Mb away and the OTHER read, which overlaps no gene, is labelled `noninformative` instead of `intergenic`
    (and every sub-region below such a record loads every gene below it).  Stretching over the processed alignments only
    (`loadRegion true` of `procOut`) loads nothing here.  The row counts are the same under both (a larger region keeps
    every gene view complete), which is why no count oracle saw it. -/
theorem stretch_over_unassigned_witness :
    Regions.passes ⟨false, 0⟩ suSupp = false ∧
    loadGenes suGenes (loadRegionAll suRa) = suGenes ∧
    (procOut ⟨false, 0⟩ [suRa]).map (fun ra => loadGenes suGenes (loadRegion true ra)) = [[]] ∧
    (tableProc "chr1" suAns).atype (loadGenes suGenes (loadRegionAll suRa)) suRead = .noninformative ∧
    (tableProc "chr1" suAns).atype [] suRead = .intergenic := by
  refine ⟨by decide +kernel, by decide +kernel, by decide +kernel, by decide +kernel, by decide +kernel⟩

/-! ### item 1, intron table: the real intron profile construction is `Local` (no residual hypothesis) -/

/-- **intronProc_local** (item 1, intron table): the real intron profile construction against the GeneInfo of the loaded genes
    meets the interface `Local`; no residual hypothesis (an intron lies strictly inside its gene, so a touched intron's gene
    always overlaps the 0-based extent of the alignment). -/
theorem intronProc_local (A : Ann) (genes : List GeneRec) (all : List Aln) (ans : Answers) (hans : AnswersLocal genes all ans)
    (H : IntronHyp A genes all) : Local (intronProc A ans) genes all := by
  have hT := tableProc_local A.chr genes all ans hans
  refine ⟨hT.isoforms, ?_, hT.alive⟩
  intro R a ha hv ignore dflt v k g hv1
  show (intronEv A (loadGenes genes R) a).any (evSays ignore dflt v k g) = (intronEv A genes a).any (evSays ignore dflt v k g)
  rw [Bool.eq_iff_iff, intronEv_says_iff, intronEv_says_iff]
  have key : ∀ f l, (A.reads a.rid).blocks.head? = some f → (A.reads a.rid).blocks.getLast? = some l →
      ((∃ i : Nat, (intronsOf A (loadGenes genes R))[i]? = some (k.2.1, k.2.2) ∧
        (constructOverlapping (intronsOf A (loadGenes genes R)) (hull (loadGenes genes R)) (fun x y => equal_ranges x y A.delta)
          (fun x y => overlaps_at_least x y A.absDelta) A.delta (junctionsFromBlocks (A.reads a.rid).blocks) (f.1, l.2)
          (A.reads a.rid).polya (A.reads a.rid).polyt).gene[i]? = some v) ↔
       (∃ i : Nat, (intronsOf A genes)[i]? = some (k.2.1, k.2.2) ∧
        (constructOverlapping (intronsOf A genes) (hull genes) (fun x y => equal_ranges x y A.delta)
          (fun x y => overlaps_at_least x y A.absDelta) A.delta (junctionsFromBlocks (A.reads a.rid).blocks) (f.1, l.2)
          (A.reads a.rid).polya (A.reads a.rid).polyt).gene[i]? = some v)) := by
    intro f l hf hl
    apply IsoVerif.Lemmas.C13Local.constructOverlapping_local _ _ _ _ _ _ _ _ _ _ H.delta_nonneg
      (intron_hyp A genes all H _ (loadGenes_sub genes R) a ha) (intron_hyp A genes all H genes (fun _ h => h) a ha) ?_ ?_ v hv1
    · intro x hx
      obtain ⟨g', hg', t, ht, hxt⟩ := (mem_intronsOf A _ x).mp hx
      exact (mem_intronsOf A genes x).mpr ⟨g', loadGenes_sub genes R g' hg', t, ht, hxt⟩
    · intro x hx htouch
      obtain ⟨g', hg', t, ht, hxt⟩ := (mem_intronsOf A genes x).mp hx
      have ho := intron_touch_overlaps A genes all H a ha f l hf hl g' hg' t ht x hxt htouch
      exact (mem_intronsOf A _ x).mpr ⟨g', mem_load_of_view genes R a hv g' hg' ho, t, ht, hxt⟩
  constructor
  · rintro ⟨f, l, hf, hl, hg, hc, hi⟩
    exact ⟨f, l, hf, hl, hg, hc, (key f l hf hl).mp hi⟩
  · rintro ⟨f, l, hf, hl, hg, hc, hi⟩
    exact ⟨f, l, hf, hl, hg, hc, (key f l hf hl).mpr hi⟩

/-- **chromosome_intron_rows**: the same composition for the INTRON table -/
theorem chromosome_intron_rows (A : Ann) (genes : List GeneRec) (all : List Aln) (ans : Answers) (p : Regions.Params)
    (hans : AnswersLocal genes (all.filter (Regions.passes p)) ans) (H : IntronHyp A genes (all.filter (Regions.passes p)))
    (m : Regions.Mode) (hvalid : IsoVerif.Props.C05.ValidInput all) (hrid : ((all.filter (Regions.passes p)).map (·.rid)).Nodup) :
    ∃ out evs, Regions.collect m all = some out ∧
      chromosomeEvents true genes (intronProc A ans) (procOut p out) ((all.filter (Regions.passes p)).map (·.rid)) = some evs ∧
      ∀ feed : List ReadEv, feed.Perm evs → ∀ (ignore : Bool) (dflt : String) (st : PCounter CoordKey),
        countAll coordKey FeatureInfo.merge ignore dflt feed = some st → ∀ (k : CoordKey) (g : String),
          st.inclOf k g = (all.filter (Regions.passes p)).countP (alnSays (intronProc A ans) genes ignore dflt 1 k g) ∧
          st.exclOf k g = (all.filter (Regions.passes p)).countP (alnSays (intronProc A ans) genes ignore dflt (-1) k g) := by
  obtain ⟨out, evs, hout, hevs, hrows⟩ := chromosome_row_counts_bam genes (intronProc A ans) all p
    (intronProc_local A genes _ ans hans H) m hvalid hrid
  refine ⟨out, evs, hout, hevs, ?_⟩
  intro feed hperm ignore dflt st hst k g
  refine hrows feed hperm ?_ ignore dflt st hst k g
  intro ev hev
  obtain ⟨G, a, he⟩ := chromosomeEvents_origin true genes (intronProc A ans) (procOut p out) _ evs hevs ev (hperm.subset hev)
  exact intronEv_keys_nodup A G a ev he

-- non-vacuity of `intronProc_local` / `chromosome_intron_rows`
example : IntronHyp lbAnn lbGenes [lbAln] ∧ AnswersLocal lbGenes [lbAln] lbAns := by
  refine ⟨⟨by decide, by decide, by decide, ?_, ?_, ?_⟩, ?_⟩
  · intro a ha; simp at ha; subst ha; simp [SepBy, lbAnn, junctionsFromBlocks]
  · intro a ha; simp at ha; subst ha; simp [WFR, lbAnn]
  · intro a ha; simp at ha; subst ha; decide
  · intro a ha; simp at ha; subst ha; decide

end IsoVerif.Props.C13Local
