/-
C19 — `junctions_from_blocks`, `get_exons`, `get_exon`, `get_preceding/following_exon_from_junctions` as REGENERATED FROM THE SOURCE on every run (`Gen/Loops.lean`, written by `harness/translate.py`).
Part 1: refinement `Gen.f args = Model.f args` for ALL inputs (no sortedness / well-formedness; error cases included; the
emitted fuel bounds suffice).  Part 2: the C19 theorems about the hand model restated over the generated definitions.
An edit of the Python loop re-generates `Gen.f` and re-opens these proofs.  Overview: Props/C19Gen.lean.
-/
import IsoVerif.Props.C19Lists
import IsoVerif.Lemmas.GenJunctions

namespace IsoVerif.Props.C19Gen
open IsoVerif.Gen IsoVerif.Model IsoVerif.Lemmas

/-! ## Part 1 — refinement: generated definition = hand model, for all inputs -/

/-- `junctions_from_blocks`: the loop over `range(0, len-1)` indexing `l[i]`, `l[i+1]` never raises and equals the model -/
theorem junctions_from_blocks_refines (l : List Iv) :
    Gen.junctions_from_blocks l = some (junctionsFromBlocks l) :=
  GenLoops.junctions_from_blocks_eq l

/-- `get_exons`: `math.inf` is translated as an ARBITRARY integer `inf`; the equality for every `inf` says the two
    sentinels are never read (the hand model had put 0 there with a comment) -/
theorem get_exons_refines (inf : Int) (region : Iv) (introns : List Iv) :
    Gen.get_exons inf region introns = some (getExons region introns) :=
  GenLoops.get_exons_eq inf region introns

/-- straight-line functions with list indexing (`IndexError` / `assert` = `none`, negative indices wrap) -/
theorem get_following_exon_refines (region : Iv) (introns : List Iv) (i : Int) :
    Gen.get_following_exon_from_junctions region introns i = getFollowingExon region introns i :=
  GenLoops.get_following_exon_eq region introns i

theorem get_preceding_exon_refines (region : Iv) (introns : List Iv) (i : Int) :
    Gen.get_preceding_exon_from_junctions region introns i = getPrecedingExon region introns i :=
  GenLoops.get_preceding_exon_eq region introns i

theorem get_exon_refines (region : Iv) (junctions : List Iv) (i : Int) :
    Gen.get_exon region junctions i = getExon region junctions i :=
  GenLoops.get_exon_eq region junctions i

/-! ## Part 2 — theorems over the generated definitions -/

/-- `get_exons ∘ junctions_from_blocks = id` on gapped exon lists — both functions generated, any sentinel value -/
theorem junctions_exons_inverse (inf : Int) (ex : List Iv) (f t : Iv) (h : Gapped ex)
    (hf : ex.head? = some f) (ht : ex.getLast? = some t) :
    (Gen.junctions_from_blocks ex).bind (Gen.get_exons inf (f.1, t.2)) = some ex := by
  rw [junctions_from_blocks_refines, Option.bind_some, get_exons_refines,
    C19Lists.junctions_exons_inverse ex f t h hf ht]

example : Gapped [(1, 5), (10, 12), (20, 30)] ∧
    Gen.junctions_from_blocks [(1, 5), (10, 12), (20, 30)] = some [(6, 9), (13, 19)] ∧
    Gen.get_exons 1000000 (1, 30) [(6, 9), (13, 19)] = some [(1, 5), (10, 12), (20, 30)] := by
  refine ⟨by simp [Gapped], by decide +kernel, by decide +kernel⟩

/-- single exons from the junction list of a gapped exon list (generated `junctions_from_blocks`, `get_exon`,
    `get_preceding/following_exon_from_junctions`) -/
theorem get_exon_spec (ex : List Iv) (f t : Iv) (h : Gapped ex) (hf : ex.head? = some f) (ht : ex.getLast? = some t)
    (h2 : 2 ≤ ex.length) (i : Nat) (hi : i < ex.length) :
    (Gen.junctions_from_blocks ex).bind (fun j => Gen.get_exon (f.1, t.2) j (i : Int)) = ex[i]? := by
  rw [junctions_from_blocks_refines, Option.bind_some, get_exon_refines]
  exact C19Lists.get_exon_spec ex f t h hf ht h2 i hi

theorem get_preceding_exon_spec (ex : List Iv) (f t : Iv) (h : Gapped ex) (hf : ex.head? = some f)
    (ht : ex.getLast? = some t) (i : Nat) (hi : i < ex.length) :
    (Gen.junctions_from_blocks ex).bind (fun j => Gen.get_preceding_exon_from_junctions (f.1, t.2) j (i : Int)) = ex[i]? := by
  rw [junctions_from_blocks_refines, Option.bind_some, get_preceding_exon_refines]
  exact C19Lists.get_preceding_exon_spec ex f t h hf ht i hi

theorem get_following_exon_spec (ex : List Iv) (f t : Iv) (h : Gapped ex) (hf : ex.head? = some f)
    (ht : ex.getLast? = some t) (i : Nat) (hi : i + 1 < ex.length) :
    (Gen.junctions_from_blocks ex).bind (fun j => Gen.get_following_exon_from_junctions (f.1, t.2) j (i : Int)) = ex[i + 1]? := by
  rw [junctions_from_blocks_refines, Option.bind_some, get_following_exon_refines]
  exact C19Lists.get_following_exon_spec ex f t h hf ht i hi

example : Gapped [(1, 5), (10, 12), (20, 30)] ∧
    Gen.get_exon (1, 30) [(6, 9), (13, 19)] 1 = some (10, 12) ∧
    Gen.get_exon (1, 30) [(6, 9), (13, 19)] (-1) = some (20, 30) ∧
    Gen.get_preceding_exon_from_junctions (1, 30) [(6, 9), (13, 19)] 2 = some (20, 30) ∧
    Gen.get_following_exon_from_junctions (1, 30) [(6, 9), (13, 19)] 0 = some (10, 12) := by
  refine ⟨by simp [Gapped], by decide +kernel, by decide +kernel, by decide +kernel, by decide +kernel⟩

end IsoVerif.Props.C19Gen
