/-
C19, composition of interface hypotheses (hypothesis audit C19-G1).

`bin_search_spec` / `bin_search_rev_spec` (Props/C19Lists.lean) assume about the searched list: non-empty, intervals
well formed, starts strictly increasing (forward search) / ends strictly increasing (mirror search).  The ONLY caller of
`interval_bin_search(_rev)` is `NonOverlappingFeaturesProfileConstructor.construct_profile`, which searches
`self.known_exons` = `gene_info.split_exon_profiles.features` = `GeneInfo.split_exons(exons)`
(src/long_read_profiles.py:227,232).  `split_exons_spec` (Props/C19Split.lean) proves that list sorted, pairwise
disjoint and well formed; nothing said that this gives the hypotheses of the searches.  This file says it:

* `sd_starts_strictInc`, `sd_ends_strictInc`: `SD ∧ WFl` ⇒ both `StrictInc` hypotheses (any list);
* `split_exons_searchable`: what `split_exons` returns satisfies every hypothesis of the two searches, and is non-empty
  when the exon list is;
* `bin_search_on_split_exons`, `bin_search_rev_on_split_exons`: the two search theorems with their list hypotheses
  discharged for the caller's argument;
* `bin_search_on_split_exons_total`: on the split exons of a non-empty exon list the forward search never raises and never
  runs out of fuel: for EVERY position it returns an index; `exists_end_gap`, `bin_search_rev_on_split_exons_total`: the same
  for the mirror search;
* `bin_search_empty`, `bin_search_rev_empty`: on `[]` both searches raise (`ordered_intervals[-1]`, IndexError) — the case
  the audit found unreachable today only because of a dead test in `construct_fl_isoforms`;
* `sorted_overlapping_not_searchable`: a list that is merely sorted by start (what `exon_profiles.features` is) does NOT
  satisfy the hypotheses — the composition really uses `split_exons`.
Run-time side: harness/mon_wrap.py `binsearch` checks the same four hypotheses on every real call in the pipeline runs
of the C19 oracle.
-/
import IsoVerif.Props.C19Lists
import IsoVerif.Props.C19Split

namespace IsoVerif.Props.C19Compose
open IsoVerif.Gen IsoVerif.Model IsoVerif.Lemmas IsoVerif.Props.C19Lists IsoVerif.Props.C19Split

/-- **sd_starts_strictInc**: sorted, pairwise disjoint, well-formed ⇒ starts strictly increasing -/
theorem sd_starts_strictInc : ∀ (l : List Iv), SD l → WFl l → StrictInc (l.map (·.1))
  | [], _, _ => trivial
  | [_], _, _ => trivial
  | a :: b :: t, hsd, hw => by
    have ha := hw a (by simp)
    have h1 := hsd.1
    refine ⟨?_, ?_⟩
    · show a.1 < b.1; omega
    exact sd_starts_strictInc (b :: t) hsd.2 (fun r hr => hw r (List.mem_cons_of_mem _ hr))

/-- **sd_ends_strictInc**: sorted, pairwise disjoint, well-formed ⇒ ends (+1, the form `bin_search_rev_spec` uses)
    strictly increasing -/
theorem sd_ends_strictInc : ∀ (l : List Iv), SD l → WFl l → StrictInc (l.map (fun r => r.2 + 1))
  | [], _, _ => trivial
  | [_], _, _ => trivial
  | a :: b :: t, hsd, hw => by
    have hb := hw b (by simp)
    have h1 := hsd.1
    refine ⟨?_, ?_⟩
    · show a.2 + 1 < b.2 + 1; omega
    exact sd_ends_strictInc (b :: t) hsd.2 (fun r hr => hw r (List.mem_cons_of_mem _ hr))

example : SD [(1, 5), (6, 6), (10, 12)] ∧ WFl [(1, 5), (6, 6), (10, 12)] ∧
    StrictInc ([(1, 5), (6, 6), (10, 12)].map (·.1)) ∧ StrictInc ([(1, 5), (6, 6), (10, 12)].map (fun r => r.2 + 1)) := by
  refine ⟨by decide, by decide, by simp [StrictInc], by simp [StrictInc]⟩

/-- **split_exons_searchable**: the list `GeneInfo.split_exons` returns — the only argument the pipeline passes to
    the two binary searches — satisfies all their list hypotheses; it is non-empty when the exon list is -/
theorem split_exons_searchable (exons : List Iv) (w : WFl exons) (hpos : ∀ e ∈ exons, 0 ≤ e.1) :
    ∃ blocks, splitExons exons = some blocks ∧ WFl blocks ∧
      StrictInc (blocks.map (·.1)) ∧ StrictInc (blocks.map (fun r => r.2 + 1)) ∧ (exons ≠ [] → blocks ≠ []) := by
  obtain ⟨blocks, hb, hsd, hw, hcov, _, _⟩ := split_exons_spec exons w hpos
  refine ⟨blocks, hb, hw, sd_starts_strictInc blocks hsd hw, sd_ends_strictInc blocks hsd hw, ?_⟩
  intro hne hnil
  cases exons with
  | nil => exact hne rfl
  | cons e t =>
    have hc : cov (e :: t) e.1 := ⟨e, by simp, Int.le_refl _, w e (by simp)⟩
    obtain ⟨r, hr, _⟩ := (hcov e.1).mpr hc
    rw [hnil] at hr; cases hr

-- non-vacuity: overlapping annotated exons (two isoforms sharing a 3' part) are split into searchable atoms
example : splitExons [(100, 200), (150, 300), (400, 500)] = some [(100, 149), (150, 200), (201, 300), (400, 500)] := by
  decide +kernel

/-- **bin_search_on_split_exons**: `bin_search_spec` for what the caller passes: no hypothesis on the searched list
    is left, only the exon list's own well-formedness (GTF coordinates) -/
theorem bin_search_on_split_exons (exons blocks : List Iv) (w : WFl exons) (hpos : ∀ e ∈ exons, 0 ≤ e.1)
    (hb : splitExons exons = some blocks) (pos : Int)
    (f tl : Iv) (hf : blocks.head? = some f) (ht : blocks.getLast? = some tl)
    (t : Nat) (a b : Iv) (hta : blocks[t]? = some a) (htb : blocks[t + 1]? = some b)
    (hpa : a.1 ≤ pos) (hpb : pos < b.1) (hin : pos ≤ tl.2) :
    intervalBinSearch blocks pos = some (t : Int) := by
  obtain ⟨bl, hbl, hw, hs, _, _⟩ := split_exons_searchable exons w hpos
  rw [hb] at hbl; cases hbl
  exact bin_search_spec blocks pos hs hw f tl hf ht t a b hta htb hpa hpb hin

/-- **bin_search_rev_on_split_exons**: the mirror search, likewise -/
theorem bin_search_rev_on_split_exons (exons blocks : List Iv) (w : WFl exons) (hpos : ∀ e ∈ exons, 0 ≤ e.1)
    (hb : splitExons exons = some blocks) (pos : Int)
    (f tl : Iv) (hf : blocks.head? = some f) (ht : blocks.getLast? = some tl)
    (t : Nat) (a b : Iv) (hta : blocks[t]? = some a) (htb : blocks[t + 1]? = some b)
    (hpa : a.2 < pos) (hpb : pos ≤ b.2) (hin : f.1 ≤ pos) :
    intervalBinSearchRev blocks pos = some ((t : Int) + 1) := by
  obtain ⟨bl, hbl, _, _, he, _⟩ := split_exons_searchable exons w hpos
  rw [hb] at hbl; cases hbl
  exact bin_search_rev_spec blocks pos he f tl hf ht t a b hta htb hpa hpb hin

-- non-vacuity: the polyA position 250 (+ delta) of a read is looked up in the split exons of the example above
example : intervalBinSearch [(100, 149), (150, 200), (201, 300), (400, 500)] 250 = some 2 ∧
    intervalBinSearchRev [(100, 149), (150, 200), (201, 300), (400, 500)] 350 = some 3 := by decide

/-- a position at or after the first start and before the last start lies in exactly one gap between consecutive
    starts of a list with strictly increasing starts -/
theorem exists_start_gap : ∀ (l : List Iv) (f tl : Iv), l.head? = some f → l.getLast? = some tl →
    ∀ pos, f.1 ≤ pos → pos < tl.1 → ∃ (t : Nat) (a b : Iv), l[t]? = some a ∧ l[t + 1]? = some b ∧ a.1 ≤ pos ∧ pos < b.1
  | [], _, _, hf, _, _, _, _ => by simp at hf
  | [x], f, tl, hf, ht, pos, h1, h2 => by
    simp at hf ht; subst hf; subst ht; omega
  | x :: y :: t, f, tl, hf, ht, pos, h1, h2 => by
    simp at hf; subst hf
    by_cases hy : pos < y.1
    · exact ⟨0, x, y, by simp, by simp, h1, hy⟩
    · have ht' : (y :: t).getLast? = some tl := by simpa [List.getLast?_cons_cons] using ht
      obtain ⟨k, a, b, ha, hb, h3, h4⟩ := exists_start_gap (y :: t) y tl (by simp) ht' pos (by omega) h2
      exact ⟨k + 1, a, b, by simpa using ha, by simpa using hb, h3, h4⟩

/-- **bin_search_on_split_exons_total**: on the split exons of a non-empty, well-formed exon list the forward search
    returns an index for every position — it never raises (`IndexError` on `[]`), never wraps a negative index and
    never runs out of fuel -/
theorem bin_search_on_split_exons_total (exons : List Iv) (hne : exons ≠ []) (w : WFl exons) (hpos : ∀ e ∈ exons, 0 ≤ e.1)
    (pos : Int) : ∃ blocks i, splitExons exons = some blocks ∧ intervalBinSearch blocks pos = some i := by
  obtain ⟨blocks, hb, hw, hs, _, hnb⟩ := split_exons_searchable exons w hpos
  have hbn := hnb hne
  obtain ⟨f, hf⟩ : ∃ f, blocks.head? = some f := by
    cases blocks with
    | nil => exact absurd rfl hbn
    | cons x _ => exact ⟨x, rfl⟩
  obtain ⟨tl, ht⟩ : ∃ tl, blocks.getLast? = some tl := by
    cases h : blocks.getLast? with
    | none => simp [List.getLast?_eq_none_iff] at h; exact absurd h hbn
    | some x => exact ⟨x, rfl⟩
  refine ⟨blocks, ?_⟩
  by_cases hout : pos > tl.2 ∨ pos < f.1
  · exact ⟨-1, hb, bin_search_outside blocks pos f tl hf ht hout⟩
  · by_cases hl : tl.1 ≤ pos
    · exact ⟨(blocks.length : Int) - 1, hb, bin_search_last blocks pos f tl hf ht (by omega) hl (by omega)⟩
    · obtain ⟨t, a, b, hta, htb, hpa, hpb⟩ := exists_start_gap blocks f tl hf ht pos (by omega) (by omega)
      exact ⟨(t : Int), hb, bin_search_spec blocks pos hs hw f tl hf ht t a b hta htb hpa hpb (by omega)⟩

example : ([(100, 200), (150, 300), (400, 500)] : List Iv) ≠ [] ∧ WFl [(100, 200), (150, 300), (400, 500)] ∧
    (∀ e ∈ ([(100, 200), (150, 300), (400, 500)] : List Iv), 0 ≤ e.1) := by
  refine ⟨by decide, by decide, by decide⟩

/-- **bin_search_empty**: on the empty list the code raises `IndexError` (`ordered_intervals[-1]`); the model says
    `none`.  Unreachable from the pipeline today: every `GeneInfo` whose profiles are searched has at least one exon -/
theorem bin_search_empty (pos : Int) : intervalBinSearch [] pos = none := rfl

theorem bin_search_rev_empty (pos : Int) : intervalBinSearchRev [] pos = none := rfl

/-- **sorted_overlapping_not_searchable** (witness): a list sorted by start whose exons overlap — what
    `exon_profiles.features` looks like — has neither strictly increasing starts nor strictly increasing ends: had the
    caller passed it instead of the split exons, `bin_search_spec` would not apply -/
theorem sorted_overlapping_not_searchable :
    ¬ StrictInc ([(100, 300), (100, 200), (150, 250)].map (·.1)) ∧
    ¬ StrictInc ([(100, 300), (100, 200), (150, 250)].map (fun r => r.2 + 1)) := by simp [StrictInc]

/-- a position behind the first end and not behind the last end lies in exactly one gap `(l[t].2, l[t+1].2]` between
    consecutive ends (any list: no ordering hypothesis is needed for existence) -/
theorem exists_end_gap : ∀ (l : List Iv) (f tl : Iv), l.head? = some f → l.getLast? = some tl →
    ∀ pos, f.2 < pos → pos ≤ tl.2 → ∃ (t : Nat) (a b : Iv), l[t]? = some a ∧ l[t + 1]? = some b ∧ a.2 < pos ∧ pos ≤ b.2
  | [], _, _, hf, _, _, _, _ => by simp at hf
  | [x], f, tl, hf, ht, pos, h1, h2 => by
    simp at hf ht; subst hf; subst ht; omega
  | x :: y :: t, f, tl, hf, ht, pos, h1, h2 => by
    simp at hf; subst hf
    by_cases hy : pos ≤ y.2
    · exact ⟨0, x, y, by simp, by simp, h1, hy⟩
    · have ht' : (y :: t).getLast? = some tl := by simpa [List.getLast?_cons_cons] using ht
      obtain ⟨k, a, b, ha, hb, h3, h4⟩ := exists_end_gap (y :: t) y tl (by simp) ht' pos (by omega) h2
      exact ⟨k + 1, a, b, by simpa using ha, by simpa using hb, h3, h4⟩

/-- **bin_search_rev_on_split_exons_total**: the mirror search on the split exons of a non-empty, well-formed exon list
    returns an index for EVERY position as well — it never raises, its `l[ind-1]` never leaves the list unnoticed and the
    halving loop never runs out of fuel (closes the item left partial after the hypothesis audit) -/
theorem bin_search_rev_on_split_exons_total (exons : List Iv) (hne : exons ≠ []) (w : WFl exons)
    (hpos : ∀ e ∈ exons, 0 ≤ e.1) (pos : Int) :
    ∃ blocks i, splitExons exons = some blocks ∧ intervalBinSearchRev blocks pos = some i := by
  obtain ⟨blocks, hb, _, _, he, hnb⟩ := split_exons_searchable exons w hpos
  have hbn := hnb hne
  obtain ⟨f, hf⟩ : ∃ f, blocks.head? = some f := by
    cases blocks with
    | nil => exact absurd rfl hbn
    | cons x _ => exact ⟨x, rfl⟩
  obtain ⟨tl, ht⟩ : ∃ tl, blocks.getLast? = some tl := by
    cases h : blocks.getLast? with
    | none => simp [List.getLast?_eq_none_iff] at h; exact absurd h hbn
    | some x => exact ⟨x, rfl⟩
  refine ⟨blocks, ?_⟩
  by_cases hout : pos > tl.2 ∨ pos < f.1
  · exact ⟨-1, hb, bin_search_rev_outside blocks pos f tl hf ht hout⟩
  · by_cases hl : pos ≤ f.2
    · exact ⟨0, hb, bin_search_rev_first blocks pos f tl hf ht (by omega) hl (by omega)⟩
    · obtain ⟨t, a, b, hta, htb, hpa, hpb⟩ := exists_end_gap blocks f tl hf ht pos (by omega) (by omega)
      exact ⟨(t : Int) + 1, hb, bin_search_rev_spec blocks pos he f tl hf ht t a b hta htb hpa hpb (by omega)⟩

-- the value at a position inside an intron of the split exons (350 lies between the ends 300 and 500)
example : ∃ blocks, splitExons [(100, 200), (150, 300), (400, 500)] = some blocks ∧
    intervalBinSearchRev blocks 350 = some 3 :=
  ⟨[(100, 149), (150, 200), (201, 300), (400, 500)], by decide +kernel, by decide⟩

end IsoVerif.Props.C19Compose
