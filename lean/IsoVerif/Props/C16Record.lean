/-
C16 (part 4) — the two halves composed: what `AlignmentInfo(alignment)` followed by `add_polya_info` leaves in
`read_exons` (the list printed in the `exons` column of `*.read_assignments.tsv`) for one alignment record.
-/
import IsoVerif.Props.C16
import IsoVerif.Props.C16PolyA

namespace IsoVerif.Props.C16Record
open IsoVerif.Gen IsoVerif.Model IsoVerif.Model.C16 IsoVerif.Lemmas.C16

/-- **record_exons_after_trimming** — for every SAM-valid CIGAR (operation lengths ≥ 1), every
    `reference_start ≥ 0`, every polyA/polyT position quadruple and every `max_fake_terminal_exon_len`: if the
    record has at least one exon then `add_polya_info` does not raise and the exon list it leaves is a non-empty,
    sorted, disjoint, contiguous part of the SAM exons of the record (only terminal exons are removed), with the
    read blocks still in step -/
theorem record_exons_after_trimming (s : Int) (ops : List CigarOp) (mf : Int) (info : PolyAInfo)
    (hs : 0 ≤ s) (hp : Pos ops) (hne : (getReadBlocks s ops).refBlocks ≠ []) :
    ∃ r, addPolyaInfo mf (getReadBlocks s ops).refBlocks (getReadBlocks s ops).readBlocks
          (getReadBlocks s ops).cigarBlocks info = some r ∧
      r.exons ≠ [] ∧ r.exons <:+: exonsSpec s ops ∧ SD r.exons ∧ r.readBlocks.length = r.exons.length := by
  obtain ⟨r, hr, hne', hinf, hsd, hrb, _⟩ :=
    C16PolyA.trim_nonempty_sorted mf (getReadBlocks s ops).refBlocks (getReadBlocks s ops).readBlocks
      (getReadBlocks s ops).cigarBlocks info hne
  have hsw := C16.exons_sorted_wf s ops hs hp
  have hq := C16.read_blocks_query_consistent s ops hs hp
  refine ⟨r, hr, hne', ?_, hsd ⟨fun e he => (hsw.1 e he).2, hsw.2⟩, hrb hq.1⟩
  rw [← C16.read_blocks_spec s ops hs hp.nonneg]
  exact hinf

/-- non-vacuity: the record that crashed the pinned tree (`32M100N28M100N36M` at position 1000) -/
example : (0 : Int) ≤ 1000 ∧
    (getReadBlocks 1000 [(.«match», 32), (.skipped, 100), (.«match», 28), (.skipped, 100), (.«match», 36)]).refBlocks
      = [(1001, 1032), (1133, 1160), (1261, 1296)] := by decide

end IsoVerif.Props.C16Record
