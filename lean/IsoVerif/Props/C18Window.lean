/-
C18 — "the Canonical flag ... is True exactly when every intron has a canonical dinucleotide pair on the reported strand
IN THE REFERENCE FASTA": the window of the chromosome a gene region loads in the second pass must contain every intron
it is asked about.  `flag_independent_of_region` (Props/C18.lean) needs exactly that as a hypothesis (`hin`); this file
discharges it for the window the loader computes (`loadRegion`, Model/Canonical.lean) and keeps the original behaviour
(header window = gene span) as a witness: a read that reaches beyond the annotated gene span got the flag of bases taken
from wrapped-around positions (found on the pinned toy data: read ONT.785827.1_… of tests/simple_data, Canonical=False for
two GT-AG introns).
-/
import IsoVerif.Props.C18
import IsoVerif.Lemmas.Interval

namespace IsoVerif.Props.C18Window
open IsoVerif.Gen IsoVerif.Model IsoVerif.Model.C18 IsoVerif.Lemmas.C18 IsoVerif.Props.C18
open IsoVerif.Lemmas

/-! ### the widened window covers every read -/

theorem widenBy_mono (w : Iv) (ex : List Iv) : (widenBy w ex).1 ≤ w.1 ∧ w.2 ≤ (widenBy w ex).2 := by
  unfold widenBy
  split
  · simp only; omega
  · omega

theorem widenBy_covers (w : Iv) (ex : List Iv) (f l : Iv) (hf : ex.head? = some f) (hl : ex.getLast? = some l) :
    (widenBy w ex).1 ≤ f.1 ∧ l.2 ≤ (widenBy w ex).2 := by
  unfold widenBy
  rw [hf, hl]
  simp only; omega

theorem extendedWindow_mono (reads : List ReadSpan) : ∀ w : Iv,
    (extendedWindow w reads).1 ≤ w.1 ∧ w.2 ≤ (extendedWindow w reads).2 := by
  induction reads with
  | nil => intro w; simp [extendedWindow]
  | cons r t ih =>
    intro w
    have h1 := widenBy_mono w r.exons
    have h2 := widenBy_mono (widenBy w r.exons) r.correctedExons
    have h3 := ih (widenBy (widenBy w r.exons) r.correctedExons)
    simp only [extendedWindow, List.foldl_cons] at h3 ⊢
    omega

/-- **extended_window_covers**: the window computed by `extend_reference_region` contains the first start and the
    last end of the exon list and of the corrected exon list of every read of the storage -/
theorem extended_window_covers (reads : List ReadSpan) : ∀ (w : Iv) (r : ReadSpan), r ∈ reads →
    ∀ ex, (ex = r.exons ∨ ex = r.correctedExons) → ∀ f l, ex.head? = some f → ex.getLast? = some l →
      (extendedWindow w reads).1 ≤ f.1 ∧ l.2 ≤ (extendedWindow w reads).2 := by
  induction reads with
  | nil => intro w r hr; cases hr
  | cons r0 t ih =>
    intro w r hr ex hex f l hf hl
    rcases List.mem_cons.mp hr with rfl | hr
    · have hm := extendedWindow_mono t (widenBy (widenBy w r.exons) r.correctedExons)
      simp only [extendedWindow, List.foldl_cons] at hm ⊢
      rcases hex with rfl | rfl
      · have h1 := widenBy_covers w r.exons f l hf hl
        have h2 := widenBy_mono (widenBy w r.exons) r.correctedExons
        omega
      · have h2 := widenBy_covers (widenBy w r.exons) r.correctedExons f l hf hl
        omega
    · have := ih (widenBy (widenBy w r0.exons) r0.correctedExons) r hr ex hex f l hf hl
      simpa [extendedWindow] using this

/-! ### introns lie strictly inside the span of their exon list -/

theorem junctions_inside : ∀ (ex : List Iv), SD ex → WFl ex → ∀ f l, ex.head? = some f → ex.getLast? = some l →
    ∀ it ∈ junctionsFromBlocks ex, f.1 < it.1 ∧ it.1 ≤ it.2 ∧ it.2 < l.2 := by
  intro ex
  induction ex with
  | nil => intro _ _ f l hf; cases hf
  | cons a t ih =>
    cases t with
    | nil => intro _ _ f l _ _ it hit; simp [junctionsFromBlocks] at hit
    | cons b t' =>
      intro hsd hwf f l hf hl it hit
      simp only [List.head?_cons, Option.some.injEq] at hf
      subst hf
      have hwa : a.1 ≤ a.2 := hwf a (by simp)
      have hwb : b.1 ≤ b.2 := hwf b (by simp)
      have hsd' : SD (b :: t') := hsd.2
      have hab : a.2 < b.1 := hsd.1
      have hl' : (b :: t').getLast? = some l := by
        simpa [List.getLast?_cons_cons] using hl
      have hwf' : WFl (b :: t') := fun r hr => hwf r (List.mem_cons_of_mem _ hr)
      have hbl : b.2 ≤ l.2 := by
        -- the last element of an SD, WF list ends at or after every element's end
        have : ∀ (l0 : List Iv) (x : Iv), SD (x :: l0) → WFl (x :: l0) → ∀ z, (x :: l0).getLast? = some z → x.2 ≤ z.2 := by
          intro l0
          induction l0 with
          | nil => intro x _ _ z hz; simp at hz; subst hz; omega
          | cons y l1 ih2 =>
            intro x hs hw z hz
            have hxy : x.2 < y.1 := hs.1
            have hwy : y.1 ≤ y.2 := hw y (by simp)
            have := ih2 y hs.2 (fun r hr => hw r (List.mem_cons_of_mem _ hr)) z (by simpa [List.getLast?_cons_cons] using hz)
            omega
        exact this t' b hsd' hwf' l hl'
      simp only [junctionsFromBlocks] at hit
      split at hit
      · rename_i hgap
        rcases List.mem_cons.mp hit with rfl | hit
        · simp only; omega
        · have := ih hsd' hwf' b l rfl hl' it hit
          omega
      · have := ih hsd' hwf' b l rfl hl' it hit
        omega

/-! ### the loaded window answers like the whole chromosome -/

/-- a read as the loader sees it, with the hypotheses the pipeline guarantees: both exon lists sorted, disjoint, well
    formed (C16 / C14) and starting at a base ≥ 1.  (Nothing about the END of the chromosome: a window or a read reaching
    beyond the last base is clamped by the slice; the run-time monitor of the C18 pipeline oracle nevertheless checks
    `end ≤ chromosome length` too.) -/
def ReadOk (r : ReadSpan) : Prop :=
  SD r.exons ∧ WFl r.exons ∧ SD r.correctedExons ∧ WFl r.correctedExons ∧
  (∀ e ∈ r.exons, 1 ≤ e.1) ∧ (∀ e ∈ r.correctedExons, 1 ≤ e.1)

theorem extendedWindow_bounds (reads : List ReadSpan) : ∀ (w : Iv), 1 ≤ w.1 →
    (∀ r ∈ reads, ReadOk r) → 1 ≤ (extendedWindow w reads).1 := by
  induction reads with
  | nil => intro w h1 _; simpa [extendedWindow] using h1
  | cons r t ih =>
    intro w h1 hok
    have hr := hok r (by simp)
    have step : ∀ (w : Iv) (ex : List Iv), 1 ≤ w.1 → (∀ e ∈ ex, 1 ≤ e.1) → 1 ≤ (widenBy w ex).1 := by
      intro w ex h1 hb
      unfold widenBy
      split
      · rename_i f l hf hl
        have := hb f (List.mem_of_mem_head? hf)
        simp only; omega
      · exact h1
    have a1 := step w r.exons h1 hr.2.2.2.2.1
    have b1 := step _ r.correctedExons a1 hr.2.2.2.2.2
    have := ih _ b1 (fun r' hr' => hok r' (List.mem_cons_of_mem _ hr'))
    simpa [extendedWindow] using this

/-- **loaded_flag_for_observed_introns** (after the fix, full strength): for EVERY header window (also one that ends
    beyond the contig: a GTF gene end larger than the FASTA record), every storage of well-formed reads and every list of
    introns each of which occurs in the raw or corrected alignment of SOME kept read — the intron chain of one read, or
    the chain of a novel transcript model, whose introns are corrected introns of the region's reads (C04
    `novel_introns_observed`: `Observed reads i`) possibly taken from different reads — the gene info the loader hands on
    answers the canonical test exactly as a look-up on the whole chromosome does, on either strand. -/
theorem loaded_flag_for_observed_introns (chr : Seq) (hdr : Iv) (reads : List ReadSpan) (st : Strand)
    (hok : ∀ r ∈ reads, ReadOk r) (introns : List Iv)
    (hobs : ∀ it ∈ introns, ∃ r ∈ reads, ∃ ex, (ex = r.exons ∨ ex = r.correctedExons) ∧ it ∈ junctionsFromBlocks ex)
    (flank : Int := 0) (hfl : 0 ≤ flank := by decide) :
    pureAnswer (loadRegion chr hdr reads flank).1 introns st = pureAnswer ⟨chr, 1⟩ introns st := by
  have hw0 : (1 : Int) ≤ (max 1 hdr.1, hdr.2).1 := by simp only; omega
  have hmono := extendedWindow_mono reads (max 1 hdr.1, hdr.2)
  have hbnd := extendedWindow_bounds reads (max 1 hdr.1, hdr.2) hw0 hok
  -- every observed intron is inside the extended window
  have hin : ∀ it ∈ introns,
      (extendedWindow (max 1 hdr.1, hdr.2) reads).1 ≤ it.1 ∧ it.1 + 1 ≤ (extendedWindow (max 1 hdr.1, hdr.2) reads).2 ∧
      (extendedWindow (max 1 hdr.1, hdr.2) reads).1 < it.2 ∧ it.2 ≤ (extendedWindow (max 1 hdr.1, hdr.2) reads).2 := by
    intro it hit0
    obtain ⟨r, hr, ex, hex, hit⟩ := hobs it hit0
    have hrok := hok r hr
    have hsdwf : SD ex ∧ WFl ex := by
      rcases hex with rfl | rfl
      · exact ⟨hrok.1, hrok.2.1⟩
      · exact ⟨hrok.2.2.1, hrok.2.2.2.1⟩
    cases hne : ex with
    | nil => rw [hne] at hit; simp [junctionsFromBlocks] at hit
    | cons a t =>
      have hf : ex.head? = some a := by rw [hne]; rfl
      obtain ⟨l, hl⟩ : ∃ l, ex.getLast? = some l := by
        rw [hne]; exact ⟨(a :: t).getLast (by simp), List.getLast?_eq_some_getLast (by simp)⟩
      have hcov := extended_window_covers reads (max 1 hdr.1, hdr.2) r hr ex hex a l hf hl
      have hj := junctions_inside ex hsdwf.1 hsdwf.2 a l hf hl it hit
      omega
  -- the header window, when it is kept: nothing reaches beyond it, it is the extended window
  have hdrCase : (extendedWindow (max 1 hdr.1, hdr.2) reads).1 = max 1 hdr.1 →
      (extendedWindow (max 1 hdr.1, hdr.2) reads).2 = hdr.2 →
      pureAnswer (setReferenceSequence chr hdr.1 hdr.2).1 introns st = pureAnswer ⟨chr, 1⟩ introns st := by
    intro e1 e2
    by_cases hs : hdr.1 ≤ 1
    · rw [region_start_clamped chr hdr.1 hdr.2 hs]
      refine (flag_independent_of_region chr 1 hdr.2 introns st (by omega) ?_).1
      intro it hit
      have := hin it hit
      rw [e1, e2] at this
      omega
    · refine (flag_independent_of_region chr hdr.1 hdr.2 introns st (by omega) ?_).1
      intro it hit
      have := hin it hit
      rw [e1, e2] at this
      omega
  unfold loadRegion
  simp only
  split
  · -- a region without kept reads: no intron is observed
    rename_i hemp
    have hnil : reads = [] := by simpa using hemp
    have hin0 : introns = [] := by
      apply List.eq_nil_iff_forall_not_mem.mpr
      intro it hit
      obtain ⟨r, hr, _⟩ := hobs it hit
      rw [hnil] at hr; cases hr
    subst hin0
    simp [pureAnswer, pureAll]
  · split
    · -- reloaded: the extended window widened by `flank` on either side (start clamped at 1 by the slice)
      by_cases hs : (extendedWindow (max 1 hdr.1, hdr.2) reads).1 - flank ≤ 1
      · rw [region_start_clamped chr _ _ hs]
        refine (flag_independent_of_region chr 1 _ introns st (by omega) ?_).1
        intro it hit
        have := hin it hit
        omega
      · refine (flag_independent_of_region chr _ _ introns st (by omega) ?_).1
        intro it hit
        have := hin it hit
        omega
    · rename_i hnot
      exact hdrCase (by simp only at hmono; omega) (by simp only at hmono; omega)

/-- **loaded_flag_is_chromosome_flag**: the case "the introns of one kept read" (raw or corrected alignment) — the
    `Canonical=` field of every read line of the second pass; no hypothesis on the header window -/
theorem loaded_flag_is_chromosome_flag (chr : Seq) (hdr : Iv) (reads : List ReadSpan) (st : Strand)
    (hok : ∀ r ∈ reads, ReadOk r) (flank : Int := 0) (hfl : 0 ≤ flank := by decide) :
    ∀ r ∈ reads, ∀ ex, (ex = r.exons ∨ ex = r.correctedExons) →
      pureAnswer (loadRegion chr hdr reads flank).1 (junctionsFromBlocks ex) st =
        pureAnswer ⟨chr, 1⟩ (junctionsFromBlocks ex) st :=
  fun r hr ex hex => loaded_flag_for_observed_introns chr hdr reads st hok _ (fun _ hit => ⟨r, hr, ex, hex, hit⟩) flank hfl

/-! ### the original behaviour: header window = gene span -/

/-- the witness chromosome of Props/C18.lean (`AAAAGTCCCCCCAGTTTT`, intron (5,14) is GT..AG), a "gene" annotated at
    12..18 and a read 1-4,15-18 that starts before it -/
def exRead : ReadSpan := { exons := [(1, 4), (15, 18)], correctedExons := [(1, 4), (15, 18)] }

/-- **gene_span_window_witness** (the defect repaired by the `fix:` commit; replayed on the real loader by the oracle):
    with the header window the intron (5,14) starts before the window, `intron[0] - all_read_region_start` is negative,
    Python counts it from the END of the region and the GT-AG intron is reported non-canonical; the widened window gives
    the chromosome's answer -/
theorem gene_span_window_witness :
    pureAnswer (loadRegionOrig witnessSeq (12, 18) [exRead]).1 (junctionsFromBlocks exRead.exons) .plus = false ∧
    pureAnswer (loadRegion witnessSeq (12, 18) [exRead]).1 (junctionsFromBlocks exRead.exons) .plus = true ∧
    pureAnswer ⟨witnessSeq, 1⟩ (junctionsFromBlocks exRead.exons) .plus = true := by
  decide

-- non-vacuity of `loaded_flag_is_chromosome_flag`: the concrete read meets `ReadOk`
example : ReadOk exRead := by
  refine ⟨?_, ?_, ?_, ?_, ?_, ?_⟩
  · exact ⟨by decide, trivial⟩
  · intro r hr; simp [exRead] at hr; rcases hr with rfl | rfl <;> decide
  · exact ⟨by decide, trivial⟩
  · intro r hr; simp [exRead] at hr; rcases hr with rfl | rfl <;> decide
  · intro r hr; simp [exRead] at hr; rcases hr with rfl | rfl <;> decide
  · intro r hr; simp [exRead] at hr; rcases hr with rfl | rfl <;> decide

-- `loaded_flag_for_observed_introns`: a chain whose introns come from two different reads of the region
example : ∀ it ∈ [((5, 14) : Iv)], ∃ r ∈ [exRead, { exons := [(16, 18)], correctedExons := [(16, 18)] }],
    ∃ ex, (ex = r.exons ∨ ex = r.correctedExons) ∧ it ∈ junctionsFromBlocks ex := by
  intro it hit
  simp only [List.mem_singleton] at hit
  subst hit
  exact ⟨exRead, by simp, exRead.exons, Or.inl rfl, by decide⟩

-- a header window that ends far beyond the 18-base contig (the case the former hypothesis `hdr.2 ≤ chr.length` excluded)
example : ((12, 1000) : Iv).2 > witnessSeq.length ∧
    pureAnswer (loadRegion witnessSeq (12, 1000) [exRead]).1 (junctionsFromBlocks exRead.exons) .plus = true ∧
    (loadRegion witnessSeq (12, 1000) [exRead]).1.refRegion = witnessSeq := by decide

-- with `--sqanti_output` (flank 20) the same region is reloaded 20 bases wider on either side (start clamped at base 1)
example : (loadRegion witnessSeq (12, 18) [exRead] 20).1.start = 1 ∧
    (loadRegion witnessSeq (12, 18) [exRead] 20).1.refRegion = witnessSeq ∧
    pureAnswer (loadRegion witnessSeq (12, 18) [exRead] 20).1 (junctionsFromBlocks exRead.exons) .plus = true := by decide

-- a region whose reads stay inside the header window keeps that window (no reload)
example : (loadRegion witnessSeq (3, 16) [{ exons := [(4, 4), (15, 16)], correctedExons := [] }]).1.start = 3 := by decide

end IsoVerif.Props.C18Window
