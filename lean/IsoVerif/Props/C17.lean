/-
C17 — identifiers in the outputs are unique, collision-free and functional.

Property theorems only (helper lemmas: IsoVerif/Lemmas/Ids.lean).  The model (IsoVerif/Model/Ids.lean) is the
code of src/id_policy.py after the two `fix:` commits and the repair of audit finding C17-G1 (`FeatureIdStorage.__init__`
reserves the `exon_id` values of the reference records of every feature type), plus the id formatting of
src/graph_based_model_construction.py over the regenerated `TranscriptNaming` constants.

Every statement quantifies over *all* reference id lists, all event / call histories, all chromosome names
(arbitrary strings, dots and underscores included) – no bounds.
-/
import IsoVerif.Model.Ids
import IsoVerif.Lemmas.Ids

namespace IsoVerif.Props.C17
open IsoVerif.Gen IsoVerif.Model.C17 IsoVerif.Lemmas.C17

/-! ## 1. number allocation (`SimpleIDDistributor`, `ExcludingIdDistributor`) -/

/-- `increment()` always returns: the `while value in forbidden_ids` loop ends within `|forbidden| + 1` steps -/
theorem increment_terminates (d : IdDistributor) : ∃ v d', d.increment = some (v, d') :=
  increment_total d

/-- `increment()` returns the least number above the current value that is not forbidden; the state moves
    to that number and the forbidden set is untouched -/
theorem increment_fresh (d d' : IdDistributor) (v : Nat) (h : d.increment = some (v, d')) :
    d.value < v ∧ Int.ofNat v ∉ d.forbidden ∧ (∀ u, d.value < u → u < v → Int.ofNat u ∈ d.forbidden) ∧
    d'.value = v ∧ d'.forbidden = d.forbidden := by
  obtain ⟨a, b, c, e, f⟩ := increment_spec h
  exact ⟨c, e, f, a, b⟩

example : (IdDistributor.mk 0 [1, 2, 5, -3]).increment = some (3, ⟨3, [1, 2, 5, -3]⟩) := by decide

/-- the forbidden-number parser recovers the number from every id the formatter can produce with it, for
    every chromosome name: the parse is conservative (`int(id.split(".")[0][len(prefix):])`,
    `int(id.split("_")[-1])`) -/
theorem parse_recovers_number (n : Nat) (chr : Str) (nic : Bool) :
    transcriptNumber (novelTranscriptId n chr nic) = some (Int.ofNat n) ∧
    geneNumber (novelGeneId chr n) = some (Int.ofNat n) :=
  ⟨transcriptNumber_novel n chr nic, geneNumber_novel chr n⟩

/-- the three id formats are injective in (number, chromosome, suffix), whatever characters the
    chromosome name contains -/
theorem id_formats_injective :
    (∀ n n' c c' s s', novelTranscriptId n c s = novelTranscriptId n' c' s' → n = n' ∧ c = c' ∧ s = s') ∧
    (∀ n n' c c', novelGeneId c n = novelGeneId c' n' → c = c' ∧ n = n') ∧
    (∀ n n' c c', exonIdStr c n = exonIdStr c' n' → c = c' ∧ n = n') :=
  ⟨fun _ _ _ _ _ _ h => novelTranscriptId_injective h, fun _ _ _ _ h => novelGeneId_injective h,
   fun _ _ _ _ h => exonIdStr_injective h⟩

example : String.ofList (novelTranscriptId 12 "chr1.a".toList true) = "transcript12.chr1.a.nic" := by decide
example : String.ofList (novelGeneId "chr_1".toList 7) = "novel_gene_chr_1_7" := by decide
example : String.ofList (exonIdStr "chr9".toList 3) = "chr9.3" := by decide

/-! ## 2. novel transcript / gene ids of one chromosome, over any history of construction events -/

def transcriptIds (chr : Str) (ms : List NovelModel) : List Str := ms.map (·.transcriptId chr)

/-- ids of the genes created for novel transcripts outside every reference gene -/
def novelGeneIds (chr : Str) (ms : List NovelModel) : List Str :=
  ms.filterMap (fun m => match m.gene with | .novel g => some (novelGeneId chr g) | .ref _ => none)

/-- **unique per chromosome**: whatever the construction heuristics do (any event sequence, any starting
    state of the chromosome's distributor) the run never aborts, the transcript ids of the novel models
    are pairwise distinct and so are the ids of the newly created genes -/
theorem novel_ids_unique_per_chr (chr : Str) (d : IdDistributor) (evs : List IdEvent) :
    ∃ ms d', runEvents d evs = some (ms, d') ∧
      (transcriptIds chr ms).Nodup ∧ (novelGeneIds chr ms).Nodup := by
  obtain ⟨ms, d', h⟩ := runEvents_total evs d
  have ok := runEvents_spec evs d d' ms h
  refine ⟨ms, d', h, ?_, ?_⟩
  · unfold transcriptIds
    rw [List.Nodup, List.pairwise_map]
    refine (tnums_pairwise ok.sorted).imp ?_
    intro a b hab e
    exact hab (novelTranscriptId_injective e).1
  · unfold novelGeneIds List.Nodup
    rw [List.pairwise_filterMap]
    refine (gnums_pairwise ok.sorted).imp ?_
    intro a b hab x hx y hy e
    cases ha : a.gene with
    | ref _ => simp [ha] at hx
    | novel g =>
      cases hb : b.gene with
      | ref _ => simp [hb] at hy
      | novel g' =>
        simp only [ha, Option.some.injEq] at hx
        simp only [hb, Option.some.injEq] at hy
        rw [← hx, ← hy] at e
        exact hab g g' ha hb (novelGeneId_injective e).2

-- non-vacuity: a history with all event kinds against a distributor that must skip reference numbers
example : (runEvents ⟨0, [1, 3]⟩ [.flNovel none true, .flDiscard, .monoexon true, .flNovel (some ['G']) false]).map
      (fun r => (transcriptIds ['c'] r.1).map String.ofList ++ (novelGeneIds ['c'] r.1).map String.ofList)
    = some ["transcript2.c.nic", "transcript6.c.nnic", "transcript8.c.nnic", "novel_gene_c_4", "novel_gene_c_7"] := by
  decide

/-- **unique across chromosomes**: every chromosome has its own distributor (all start at 0), the
    chromosome name inside the id keeps the ids apart – for arbitrary models of two different chromosomes -/
theorem novel_ids_unique_across_chr (c c' : Str) (hc : c ≠ c') (ms ms' : List NovelModel) :
    (∀ x ∈ transcriptIds c ms, x ∉ transcriptIds c' ms') ∧
    (∀ x ∈ novelGeneIds c ms, x ∉ novelGeneIds c' ms') := by
  constructor
  · intro x hx hx'
    simp only [transcriptIds, List.mem_map] at hx hx'
    obtain ⟨m, _, rfl⟩ := hx
    obtain ⟨m', _, e⟩ := hx'
    exact hc (novelTranscriptId_injective e).2.1.symm
  · intro x hx hx'
    simp only [novelGeneIds, List.mem_filterMap] at hx hx'
    obtain ⟨m, _, e1⟩ := hx
    obtain ⟨m', _, e2⟩ := hx'
    cases h1 : m.gene with
    | ref _ => simp [h1] at e1
    | novel g =>
      cases h2 : m'.gene with
      | ref _ => simp [h2] at e2
      | novel g' =>
        simp only [h1, Option.some.injEq] at e1
        simp only [h2, Option.some.injEq] at e2
        rw [← e1] at e2
        exact hc (novelGeneId_injective e2).1.symm

/-- every novel id carries the name of the chromosome it was created on (used by the reading rule for
    references generated by an earlier IsoQuant run) -/
theorem novel_id_embeds_chr (c c' : Str) (n n' : Nat) (s s' : Bool) :
    (novelTranscriptId n c s = novelTranscriptId n' c' s' → c = c') ∧
    (novelGeneId c n = novelGeneId c' n' → c = c') :=
  ⟨fun h => (novelTranscriptId_injective h).2.1, fun h => (novelGeneId_injective h).1⟩

/-! ## 3. no collision with the reference annotation of the chromosome -/

/-- **no reference collision**: the distributor of a chromosome is initialised from *arbitrary* lists of
    reference gene ids and transcript ids of that chromosome; then over any event history no novel
    transcript id equals a reference transcript id and no new gene id equals a reference gene id -/
theorem no_reference_collision (chr : Str) (genes transcripts : List Str) (evs : List IdEvent)
    (ms : List NovelModel) (d' : IdDistributor)
    (h : runEvents (ExcludingIdDistributor.init (some (genes, transcripts))) evs = some (ms, d')) :
    (∀ x ∈ transcriptIds chr ms, x ∉ transcripts) ∧ (∀ x ∈ novelGeneIds chr ms, x ∉ genes) := by
  have ok := runEvents_spec evs _ d' ms h
  constructor
  · intro x hx hmem
    simp only [transcriptIds, List.mem_map] at hx
    obtain ⟨m, hm, rfl⟩ := hx
    have hr := (ok.range m.tnum (tnum_mem_allNums hm)).2.2
    apply hr
    simp only [ExcludingIdDistributor.init, List.mem_append, List.mem_filterMap]
    exact Or.inr ⟨_, hmem, transcriptNumber_novel m.tnum chr m.nic⟩
  · intro x hx hmem
    simp only [novelGeneIds, List.mem_filterMap] at hx
    obtain ⟨m, hm, e⟩ := hx
    cases hg : m.gene with
    | ref _ => simp [hg] at e
    | novel g =>
      simp only [hg, Option.some.injEq] at e
      subst e
      have hr := (ok.range g (gnum_mem_allNums hm hg)).2.2
      apply hr
      simp only [ExcludingIdDistributor.init, List.mem_append, List.mem_filterMap]
      exact Or.inl ⟨_, hmem, geneNumber_novel chr g⟩

-- non-vacuity: a reference that already holds IsoQuant-style ids (numbers 1, 2 and 4 are taken)
example : (runEvents (ExcludingIdDistributor.init (some (["novel_gene_c_2".toList, "G1".toList],
        ["transcript1.c.nnic".toList, "transcript4.c.nic".toList, "ENST01".toList])))
      [.flNovel none false, .flNovel none true]).map
      (fun r => (transcriptIds ['c'] r.1).map String.ofList ++ (novelGeneIds ['c'] r.1).map String.ofList)
    = some ["transcript3.c.nnic", "transcript6.c.nic", "novel_gene_c_5", "novel_gene_c_7"] := by
  decide

/-- **… including a reference previously generated by IsoQuant**: if the reference contains the ids of
    the models `prev` of an earlier run on this chromosome (any numbers), the new ids avoid all of them -/
theorem no_collision_with_previous_run (chr : Str) (genes transcripts : List Str) (prev : List NovelModel)
    (hT : ∀ x ∈ transcriptIds chr prev, x ∈ transcripts) (hG : ∀ x ∈ novelGeneIds chr prev, x ∈ genes)
    (evs : List IdEvent) (ms : List NovelModel) (d' : IdDistributor)
    (h : runEvents (ExcludingIdDistributor.init (some (genes, transcripts))) evs = some (ms, d')) :
    (∀ x ∈ transcriptIds chr ms, x ∉ transcriptIds chr prev) ∧
    (∀ x ∈ novelGeneIds chr ms, x ∉ novelGeneIds chr prev) := by
  obtain ⟨a, b⟩ := no_reference_collision chr genes transcripts evs ms d' h
  exact ⟨fun x hx hp => a x hx (hT x hp), fun x hx hp => b x hx (hG x hp)⟩

-- non-vacuity: the reference of the second run contains what the first run produced on this chromosome
example : ∃ prev : List NovelModel, prev ≠ [] ∧
    (∀ x ∈ transcriptIds ['c'] prev, x ∈ ["transcript1.c.nnic".toList, "T9".toList]) ∧
    (∀ x ∈ novelGeneIds ['c'] prev, x ∈ ["novel_gene_c_2".toList]) :=
  ⟨[⟨1, false, .novel 2⟩], by simp, by decide, by decide⟩

/-- the transcript ids of one chromosome of `extended_annotation.gtf` – all reference transcripts followed by
    the novel models – are pairwise distinct as soon as the reference ids are -/
theorem extended_annotation_transcript_ids_nodup (chr : Str) (genes transcripts : List Str)
    (href : transcripts.Nodup) (evs : List IdEvent) :
    ∃ ms d', runEvents (ExcludingIdDistributor.init (some (genes, transcripts))) evs = some (ms, d') ∧
      (transcripts ++ transcriptIds chr ms).Nodup ∧ (∀ x ∈ novelGeneIds chr ms, x ∉ genes) := by
  obtain ⟨ms, d', h, n1, _⟩ := novel_ids_unique_per_chr chr (ExcludingIdDistributor.init (some (genes, transcripts))) evs
  obtain ⟨a, b⟩ := no_reference_collision chr genes transcripts evs ms d' h
  refine ⟨ms, d', h, ?_, b⟩
  rw [List.nodup_append]
  exact ⟨href, n1, fun x hx y hy e => a y hy (e ▸ hx)⟩

/-! ### reference ids located on *another* chromosome (known finding `reference_id_on_other_chromosome`)

Full-strength statement (FALSE of model and code): for every reference, a novel id of chromosome `c` equals
no reference id of any chromosome.  `ExcludingIdDistributor` only reads the features of its own
chromosome, so a reference that carries the id `transcript1.chrA.nnic` on chromosome `chrB` is not seen
by the distributor of `chrA`. -/

/-- a reference id located on chromosome `loc` is *honest* when, if it has the shape of a novel id at all,
    the chromosome embedded in it is `loc` (true of everything IsoQuant itself writes: `novel_id_embeds_chr`) -/
def HonestTranscriptId (loc : Str) (t : Str) : Prop := ∀ n c s, t = novelTranscriptId n c s → c = loc
def HonestGeneId (loc : Str) (t : Str) : Prop := ∀ n c, t = novelGeneId c n → c = loc

theorem no_reference_collision_other_chr_partial (c loc : Str) (hne : c ≠ loc) (ms : List NovelModel)
    (otherTranscripts otherGenes : List Str)
    (hT : ∀ t ∈ otherTranscripts, HonestTranscriptId loc t) (hG : ∀ t ∈ otherGenes, HonestGeneId loc t) :
    (∀ x ∈ transcriptIds c ms, x ∉ otherTranscripts) ∧ (∀ x ∈ novelGeneIds c ms, x ∉ otherGenes) := by
  constructor
  · intro x hx hmem
    simp only [transcriptIds, List.mem_map] at hx
    obtain ⟨m, _, rfl⟩ := hx
    exact hne (hT _ hmem m.tnum c m.nic rfl)
  · intro x hx hmem
    simp only [novelGeneIds, List.mem_filterMap] at hx
    obtain ⟨m, _, e⟩ := hx
    cases hg : m.gene with
    | ref _ => simp [hg] at e
    | novel g =>
      simp only [hg, Option.some.injEq] at e
      exact hne (hG _ hmem g c e.symm)

example : HonestTranscriptId "chrB".toList "transcript1.chrB.nnic".toList := by
  intro n c s h
  have : "transcript1.chrB.nnic".toList = novelTranscriptId 1 "chrB".toList false := by decide
  rw [this] at h
  exact (novelTranscriptId_injective h).2.1.symm

/-- witness: chromosome `chrA` has no reference features, chromosome `chrB` carries a transcript named
    `transcript1.chrA.nnic`; the first novel model of `chrA` gets exactly that id -/
theorem reference_id_on_other_chromosome_witness :
    ∃ ms d', runEvents (ExcludingIdDistributor.init (some ([], []))) [.flNovel (some ['G']) false] = some (ms, d') ∧
      "transcript1.chrA.nnic".toList ∈ transcriptIds "chrA".toList ms :=
  ⟨_, _, rfl, by decide⟩

/-! ## 4. `exon_id` is a function of (chromosome, start, end, strand)

The reference is the list of the chromosome's records of **every** feature type (`RefRecord`): GENCODE and every
`extended_annotation.gtf` written by IsoQuant carry `exon_id` on CDS / start_codon / stop_codon / UTR lines too.
`FeatureIdStorage.initRecords` is the repaired `__init__` (all values into `used_ids`, the `exon` records into
`id_dict`); `FeatureIdStorage.initOrig` is the code before the repair (only `exon` records are read).

Reading rule (docs/C17.md §3): `exon_id` names the *exon*; "reference exon ids are preserved" and "distinct exons
carry distinct ids" are statements about the `exon` records.  An `exon_id` value on a record of another type is an id
*present in the reference*: it must never be issued to a new interval (`no_reference_exon_id_collision`). -/

/-- the reference is *injective* on its `exon` records: an `exon_id` value names one exon (otherwise "preserve the
    reference ids" and "distinct exons carry distinct ids" contradict each other).  Records of other types are free
    to repeat the id of the exon they lie in (GENCODE does). -/
def RecInjective (chr : Str) (recs : List RefRecord) : Prop :=
  ∀ f ∈ recs, ∀ g ∈ recs, f.ofType = true → g.ofType = true →
    ∀ id, recId f = some id → recId g = some id → recKey chr f = recKey chr g

/-- the reference is *functional* at the exon record `f`: all `exon` records of that exon carry the same `exon_id` -/
def RecFunctionalAt (chr : Str) (recs : List RefRecord) (f : RefRecord) : Prop :=
  ∀ g ∈ recs, g.ofType = true → recKey chr g = recKey chr f → (recId g).isSome → recId g = recId f

/-- every `exon_id` value of the reference, whatever the type of the record that carries it -/
def allRefIds (recs : List RefRecord) : List Str := recs.filterMap recId

/-- the keys that own a reference id: the `exon` records that carry an `exon_id` -/
def refExonKeys (chr : Str) (recs : List RefRecord) : List ExonKey :=
  (recs.filter (fun r => r.ofType && (recId r).isSome)).map (recKey chr)

theorem init_inv (dist : IdDistributor) (genedb : Option (List RefRecord)) (chr : Str)
    (hinj : ∀ recs, genedb = some recs → RecInjective chr recs) :
    StInv (FeatureIdStorage.initRecords dist genedb chr) := by
  unfold FeatureIdStorage.initRecords
  cases genedb with
  | none => exact ⟨by simp [dictGet], by simp [dictGet]⟩
  | some recs =>
    by_cases hc : chr.isEmpty
    · simp only [hc, if_true]; exact ⟨by simp [dictGet], by simp [dictGet]⟩
    · simp only [hc]
      obtain ⟨_, s2, s3, _, _⟩ := foldl_loadRecord_spec chr recs ⟨dist, [], []⟩
      constructor
      · intro k id h
        rcases s2 k id h with x | ⟨f, f1, _, f2, _⟩
        · simp [dictGet] at x
        · exact Or.inl ((s3 id).mpr (Or.inr ⟨f, f1, f2⟩))
      · intro k1 k2 id h1 h2
        rcases s2 k1 id h1 with x | ⟨f, f1, ft, f2, f3⟩
        · simp [dictGet] at x
        rcases s2 k2 id h2 with x | ⟨g, g1, gt, g2, g3⟩
        · simp [dictGet] at x
        rw [f3, g3]
        exact hinj recs rfl f f1 g g1 ft gt id f2 g2

/-- `get_id` always returns (the `while feature_id in used_ids` loop ends within `|used_ids| + 1` draws),
    over whole histories -/
theorem get_id_terminates (st : FeatureIdStorage) (ks : List ExonKey) :
    ∃ ids st', st.getIds ks = some (ids, st') := getIds_total ks st

/-- **functional and injective over any call history** (general form: any storage satisfying the invariant,
    e.g. the state left by earlier histories – both GTF printers of a chromosome share one storage):
    two calls of the history return the same id **iff** they were made for the same
    (chromosome, start, end, strand) -/
theorem exon_id_functional_of_inv (st st' : FeatureIdStorage) (hinv : StInv st) (ks : List ExonKey)
    (ids : List Str) (h : st.getIds ks = some (ids, st')) :
    ids.length = ks.length ∧ StInv st' ∧
    ∀ p ∈ ks.zip ids, ∀ q ∈ ks.zip ids, (p.1 = q.1 ↔ p.2 = q.2) := by
  obtain ⟨a0, a1, _, _, a4⟩ := getIds_spec ks st st' ids h
  have inv' := a4 hinv
  refine ⟨a0, inv', fun p hp q hq => ⟨fun e => ?_, fun e => ?_⟩⟩
  · have h1 := a1 p hp
    have h2 := a1 q hq
    rw [e, h2] at h1
    exact (Option.some.inj h1).symm
  · have h1 := a1 p hp
    have h2 := a1 q hq
    rw [e] at h1
    exact inv'.inj _ _ _ h1 h2

/-- **exon_id_functional** for the storage the pipeline builds: any distributor, any reference record list (records
    of every type, with or without `exon_id` attributes, injective on its `exon` records), any call history – the
    calls made for CDS / codon / UTR intervals (`other_features` of the printer) included -/
theorem exon_id_functional (dist : IdDistributor) (genedb : Option (List RefRecord)) (chr : Str)
    (hinj : ∀ recs, genedb = some recs → RecInjective chr recs) (ks : List ExonKey) :
    ∃ ids st', (FeatureIdStorage.initRecords dist genedb chr).getIds ks = some (ids, st') ∧
      ids.length = ks.length ∧
      ∀ p ∈ ks.zip ids, ∀ q ∈ ks.zip ids, (p.1 = q.1 ↔ p.2 = q.2) := by
  obtain ⟨ids, st', h⟩ := getIds_total ks (FeatureIdStorage.initRecords dist genedb chr)
  obtain ⟨a, _, c⟩ := exon_id_functional_of_inv _ st' (init_inv dist genedb chr hinj) ks ids h
  exact ⟨ids, st', h, a, c⟩

-- non-vacuity: an annotation written by an earlier IsoQuant run on a GENCODE-like reference: exon 10–20 `c.1`, its CDS
-- 12–18 with an id of its own (`c.2`), a GENCODE-style CDS record repeating the id `E7` of its exon; the history asks
-- for reference exons, the CDS intervals and new exons
example :
    ((FeatureIdStorage.initRecords SimpleIDDistributor.init
        (some [⟨true, 10, 20, ['+'], some ["c.1".toList]⟩, ⟨false, 12, 18, ['+'], some ["c.2".toList]⟩,
               ⟨true, 30, 40, ['+'], none⟩, ⟨true, 50, 60, ['-'], some ["E7".toList]⟩,
               ⟨false, 50, 55, ['-'], some ["E7".toList]⟩]) ['c']).getIds
      [(['c'], 30, 40, ['+']), (['c'], 10, 20, ['+']), (['c'], 70, 80, ['+']), (['c'], 30, 40, ['+']),
       (['c'], 50, 60, ['-']), (['c'], 12, 18, ['+']), (['c'], 50, 55, ['-']), (['c'], 30, 40, ['-'])]).map
        (fun r => r.1.map String.ofList)
    = some ["c.3", "c.1", "c.4", "c.3", "E7", "c.5", "c.6", "c.7"] := by decide

example : RecInjective ['c'] [⟨true, 10, 20, ['+'], some ["c.1".toList]⟩, ⟨false, 12, 18, ['+'], some ["c.2".toList]⟩,
    ⟨true, 50, 60, ['-'], some ["E7".toList]⟩, ⟨false, 50, 55, ['-'], some ["E7".toList]⟩] := by
  intro f hf g hg ft gt id h1 h2
  simp only [List.mem_cons, List.not_mem_nil, or_false] at hf hg
  rcases hf with rfl | rfl | rfl | rfl <;> rcases hg with rfl | rfl | rfl | rfl <;>
    simp_all [recId, refId, recKey, refKey] <;> (subst h1; simp at h2)

/-- **reference exon ids are preserved**: an exon whose reference `exon` records all carry the id `id` gets `id`
    at every call of every history (whatever ids the records of other types carry) -/
theorem exon_id_reference_preserved (dist : IdDistributor) (recs : List RefRecord) (chr : Str)
    (hchr : chr.isEmpty = false) (f : RefRecord) (hf : f ∈ recs) (hft : f.ofType = true) (id : Str)
    (hid : recId f = some id) (hfun : RecFunctionalAt chr recs f) (ks : List ExonKey) (ids : List Str)
    (st' : FeatureIdStorage)
    (h : (FeatureIdStorage.initRecords dist (some recs) chr).getIds ks = some (ids, st')) :
    ∀ p ∈ ks.zip ids, p.1 = recKey chr f → p.2 = id := by
  obtain ⟨_, a1, a2, _, _⟩ := getIds_spec ks _ st' ids h
  -- the initial table binds the key to `id`
  have h0 : dictGet (recKey chr f) (FeatureIdStorage.initRecords dist (some recs) chr).dict = some id := by
    unfold FeatureIdStorage.initRecords
    simp only [hchr, Bool.false_eq_true, if_false]
    obtain ⟨_, s2, _, _, s5⟩ := foldl_loadRecord_spec chr recs ⟨dist, [], []⟩
    have hs := s5 f hf hft (by simp [hid])
    cases hg : dictGet (recKey chr f) (List.foldl (FeatureIdStorage.loadRecord chr) ⟨dist, [], []⟩ recs).dict with
    | none => simp [hg] at hs
    | some id' =>
      rcases s2 _ _ hg with x | ⟨g, g1, gt, g2, g3⟩
      · simp [dictGet] at x
      · have := hfun g g1 gt g3.symm (by simp [g2])
        rw [g2, hid] at this
        exact this
  intro p hp e
  have h1 := a1 p hp
  rw [e, a2 _ _ h0] at h1
  exact (Option.some.inj h1).symm

-- non-vacuity: two `exon` records of the same exon with the same id, a CDS record of the same interval with another one
example : RecFunctionalAt ['c'] [⟨true, 10, 20, ['+'], some ["E1".toList]⟩,
    ⟨true, 10, 20, ['+'], some ["E1".toList, "x".toList]⟩, ⟨false, 10, 20, ['+'], some ["c.9".toList]⟩,
    ⟨true, 30, 40, ['+'], none⟩] ⟨true, 10, 20, ['+'], some ["E1".toList]⟩ := by
  intro g hg gt hk hs
  simp only [List.mem_cons, List.not_mem_nil, or_false] at hg
  rcases hg with rfl | rfl | rfl | rfl <;> simp_all [recId, refId, recKey, refKey]

/-- **no collision with any `exon_id` of the reference** (the clause of C17 "novel IDs never collide with IDs present
    in the reference annotation, including one previously generated by IsoQuant" for exon ids): over any history on the
    storage of the repaired code, if a returned id is the `exon_id` value of ANY reference record `r` of the
    chromosome – an `exon`, CDS, start/stop codon, UTR or any other record – then the call was made for the interval
    of a reference `exon` record that carries exactly this id.  No hypothesis on the reference. -/
theorem no_reference_exon_id_collision (dist : IdDistributor) (recs : List RefRecord) (chr : Str)
    (hchr : chr.isEmpty = false) (ks : List ExonKey) (ids : List Str) (st' : FeatureIdStorage)
    (h : (FeatureIdStorage.initRecords dist (some recs) chr).getIds ks = some (ids, st')) :
    ∀ p ∈ ks.zip ids, ∀ r ∈ recs, recId r = some p.2 →
      ∃ f ∈ recs, f.ofType = true ∧ recId f = some p.2 ∧ p.1 = recKey chr f := by
  intro p hp r hr hrid
  obtain ⟨_, a1, _, _, _⟩ := getIds_spec ks _ st' ids h
  have hb := a1 p hp
  have h0 : FeatureIdStorage.initRecords dist (some recs) chr =
      recs.foldl (FeatureIdStorage.loadRecord chr) ⟨dist, [], []⟩ := by
    unfold FeatureIdStorage.initRecords
    simp only [hchr, Bool.false_eq_true, if_false]
  obtain ⟨_, s2, s3, _, _⟩ := foldl_loadRecord_spec chr recs ⟨dist, [], []⟩
  rcases getIds_origin ks _ st' ids h p.1 p.2 hb with x | ⟨y, _⟩
  · rw [h0] at x
    rcases s2 _ _ x with z | ⟨f, f1, ft, f2, f3⟩
    · simp [dictGet] at z
    · exact ⟨f, f1, ft, f2, f3⟩
  · rw [h0] at y
    exact absurd ((s3 p.2).mpr (Or.inr ⟨r, hr, hrid⟩)) y

/-- the same as a statement about new intervals: a call made for an interval that owns no reference id (no `exon`
    record with an `exon_id` at this key) returns an id that occurs nowhere in the reference -/
theorem fresh_exon_id_avoids_reference (dist : IdDistributor) (recs : List RefRecord) (chr : Str)
    (hchr : chr.isEmpty = false) (ks : List ExonKey) (ids : List Str) (st' : FeatureIdStorage)
    (h : (FeatureIdStorage.initRecords dist (some recs) chr).getIds ks = some (ids, st')) :
    ∀ p ∈ ks.zip ids, p.1 ∉ refExonKeys chr recs → p.2 ∉ allRefIds recs := by
  intro p hp hk hmem
  simp only [allRefIds, List.mem_filterMap] at hmem
  obtain ⟨r, hr, hrid⟩ := hmem
  obtain ⟨f, f1, ft, f2, f3⟩ := no_reference_exon_id_collision dist recs chr hchr ks ids st' h p hp r hr hrid
  apply hk
  simp only [refExonKeys, List.mem_map, List.mem_filter]
  exact ⟨f, ⟨f1, by simp [ft, f2]⟩, f3.symm⟩

-- non-vacuity (the minimal failing input of the unrepaired code): reference exon 100–200 `c.1`, CDS 120–180 `c.2`;
-- the new exon 300–400 gets `c.3`, the CDS interval is renumbered `c.4`
example :
    ((FeatureIdStorage.initRecords SimpleIDDistributor.init
        (some [⟨true, 100, 200, ['+'], some ["c.1".toList]⟩, ⟨false, 120, 180, ['+'], some ["c.2".toList]⟩]) ['c']).getIds
      [(['c'], 300, 400, ['+']), (['c'], 100, 200, ['+']), (['c'], 120, 180, ['+'])]).map
        (fun r => r.1.map String.ofList) = some ["c.3", "c.1", "c.4"] ∧
    (['c'], (300 : Int), (400 : Int), ['+']) ∉ refExonKeys ['c']
        [⟨true, 100, 200, ['+'], some ["c.1".toList]⟩, ⟨false, 120, 180, ['+'], some ["c.2".toList]⟩] ∧
    "c.2".toList ∈ allRefIds [⟨true, 100, 200, ['+'], some ["c.1".toList]⟩, ⟨false, 120, 180, ['+'], some ["c.2".toList]⟩] := by
  refine ⟨by decide, by decide, by decide⟩

/-! ### the code before the repair (`initOrig`: `region(..., featuretype="exon")`) -/

/-- **witness** (replayed on the real class through a real gffutils database by the oracle): the reference – an
    `extended_annotation.gtf` of an earlier run – carries `exon_id "c.1"` on the exon 100–200 and `exon_id "c.2"` on the
    CDS 120–180.  The unrepaired code gives the NEW exon 300–400 the id `c.2`: `fresh_exon_id_avoids_reference` is
    false of `initOrig`. -/
theorem exon_id_collision_orig_witness :
    let recs : List RefRecord := [⟨true, 100, 200, ['+'], some ["c.1".toList]⟩, ⟨false, 120, 180, ['+'], some ["c.2".toList]⟩]
    ((FeatureIdStorage.initOrig SimpleIDDistributor.init (some recs) ['c']).getIds [(['c'], 300, 400, ['+'])]).map
        (fun r => r.1.map String.ofList) = some ["c.2"] ∧
    (['c'], (300 : Int), (400 : Int), ['+']) ∉ refExonKeys ['c'] recs ∧ "c.2".toList ∈ allRefIds recs := by
  refine ⟨by decide, by decide, by decide⟩

/-- on a reference whose `exon_id` attributes sit on `exon` records only, the code before the repair built the same
    storage as the repaired code -/
theorem init_orig_eq_of_ids_on_exon_records (dist : IdDistributor) (genedb : Option (List RefRecord)) (chr : Str)
    (hex : ∀ recs, genedb = some recs → ∀ r ∈ recs, (recId r).isSome → r.ofType = true) :
    FeatureIdStorage.initOrig dist genedb chr = FeatureIdStorage.initRecords dist genedb chr := by
  cases genedb with
  | none => rfl
  | some recs =>
    simp only [FeatureIdStorage.initOrig, Option.map_some, FeatureIdStorage.init, FeatureIdStorage.initRecords]
    split
    · rfl
    · have aux : ∀ (l : List RefRecord) (st : FeatureIdStorage), (∀ r ∈ l, (recId r).isSome → r.ofType = true) →
          ((l.filter (·.ofType)).map (·.feat)).foldl (FeatureIdStorage.load chr) st =
            l.foldl (FeatureIdStorage.loadRecord chr) st := by
        intro l
        induction l with
        | nil => intro st _; rfl
        | cons r t ih =>
          intro st hl
          have ht := ih (st := FeatureIdStorage.loadRecord chr st r) (fun x hx => hl x (by simp [hx]))
          cases hty : r.ofType with
          | true =>
            have e : r = ⟨true, r.feat⟩ := by cases r; simp_all
            simp only [List.filter_cons, hty, if_true, List.map_cons, List.foldl_cons]
            rw [← loadRecord_ofType, ← e]
            exact ht
          | false =>
            have hn : recId r = none := by
              cases hr : recId r with
              | none => rfl
              | some id =>
                have := hl r (by simp) (by simp [hr])
                rw [hty] at this; cases this
            have e : FeatureIdStorage.loadRecord chr st r = st := by rw [loadRecord_eq, hn]
            simp only [List.filter_cons, hty, Bool.false_eq_true, if_false, List.foldl_cons]
            rw [e] at ht ⊢
            exact ht
      exact aux recs ⟨dist, [], []⟩ (hex recs rfl)

/-- **partial** statement for the code before the repair: it avoids every reference id on the class of references
    that `exon_id_collision_orig_witness` is not in – `exon_id` attributes on `exon` records only.  (Missing for the
    full statement: the `exon_id` values of the other record types; GENCODE and IsoQuant's own output have them.) -/
theorem no_reference_exon_id_collision_orig_partial (dist : IdDistributor) (recs : List RefRecord) (chr : Str)
    (hchr : chr.isEmpty = false) (hex : ∀ r ∈ recs, (recId r).isSome → r.ofType = true)
    (ks : List ExonKey) (ids : List Str) (st' : FeatureIdStorage)
    (h : (FeatureIdStorage.initOrig dist (some recs) chr).getIds ks = some (ids, st')) :
    ∀ p ∈ ks.zip ids, p.1 ∉ refExonKeys chr recs → p.2 ∉ allRefIds recs := by
  rw [init_orig_eq_of_ids_on_exon_records dist (some recs) chr
    (fun l hl => by cases hl; exact hex)] at h
  exact fresh_exon_id_avoids_reference dist recs chr hchr ks ids st' h

example : ∀ r ∈ ([⟨true, 10, 20, ['+'], some ["c.1".toList]⟩, ⟨false, 12, 18, ['+'], none⟩] : List RefRecord),
    (recId r).isSome → r.ofType = true := by decide

/-! ### across chromosomes

Every chromosome is processed with its own storage and its own `SimpleIDDistributor` (numbers restart at 1).
Full-strength statement (FALSE of model and code for an adversarial reference, same cause as
`reference_id_on_other_chromosome`): ids returned by the storages of two different chromosomes never coincide. -/

/-- ids returned by a history are reference ids of that chromosome or fresh `chr.N` of the key's chromosome -/
theorem history_id_origin (st st' : FeatureIdStorage) (hinv : StInv st) (ks : List ExonKey) (ids : List Str)
    (h : st.getIds ks = some (ids, st')) :
    ∀ p ∈ ks.zip ids, p.2 ∈ st.used ∨ ∃ n, p.2 = exonIdStr p.1.1 n := by
  obtain ⟨_, a1, _, a3, a4⟩ := getIds_spec ks st st' ids h
  intro p hp
  rcases (a4 hinv).origin _ _ (a1 p hp) with x | ⟨n, _, e, _⟩
  · exact Or.inl (a3 ▸ x)
  · exact Or.inr ⟨n, e⟩

/-- **distinct across chromosomes** under the reading-rule hypotheses on the reference: the reference
    `exon_id`s of the two chromosomes are disjoint (`hdisj`, reference injectivity across chromosomes) and no
    reference id located on one chromosome has the shape `<other chromosome>.N` (`hA`, `hB`, honesty) -/
theorem exon_ids_distinct_across_chr_partial (a b : Str) (hab : a ≠ b)
    (sa sa' sb sb' : FeatureIdStorage) (ia : StInv sa) (ib : StInv sb)
    (ka kb : List ExonKey) (idsA idsB : List Str)
    (hka : ∀ k ∈ ka, k.1 = a) (hkb : ∀ k ∈ kb, k.1 = b)
    (hA : sa.getIds ka = some (idsA, sa')) (hB : sb.getIds kb = some (idsB, sb'))
    (hdisj : ∀ x ∈ sa.used, x ∉ sb.used)
    (honA : ∀ x ∈ sa.used, ∀ n, x ≠ exonIdStr b n) (honB : ∀ x ∈ sb.used, ∀ n, x ≠ exonIdStr a n) :
    ∀ x ∈ idsA, x ∉ idsB := by
  intro x hxa hxb
  obtain ⟨la, _, _⟩ := exon_id_functional_of_inv sa sa' ia ka idsA hA
  obtain ⟨lb, _, _⟩ := exon_id_functional_of_inv sb sb' ib kb idsB hB
  -- locate x in both zipped histories
  obtain ⟨i, hi, rfl⟩ := List.getElem_of_mem hxa
  obtain ⟨j, hj, ej⟩ := List.getElem_of_mem hxb
  have pa : (ka[i]'(by omega), idsA[i]) ∈ ka.zip idsA := by
    have : (ka.zip idsA)[i]'(by simp; omega) = (ka[i]'(by omega), idsA[i]) := by simp
    rw [← this]; exact List.getElem_mem _
  have pb : (kb[j]'(by omega), idsB[j]) ∈ kb.zip idsB := by
    have : (kb.zip idsB)[j]'(by simp; omega) = (kb[j]'(by omega), idsB[j]) := by simp
    rw [← this]; exact List.getElem_mem _
  have oa := history_id_origin sa sa' ia ka idsA hA _ pa
  have ob := history_id_origin sb sb' ib kb idsB hB _ pb
  have cha : (ka[i]'(by omega)).1 = a := hka _ (List.getElem_mem _)
  have chb : (kb[j]'(by omega)).1 = b := hkb _ (List.getElem_mem _)
  simp only [cha] at oa
  simp only [chb, ej] at ob
  rcases oa with ua | ⟨n, en⟩ <;> rcases ob with ub | ⟨m, em⟩
  · exact hdisj _ ua ub
  · exact honA _ ua m em
  · exact honB _ ub n en
  · rw [en] at em; exact hab (exonIdStr_injective em).1

/-- the case of a reference without `exon_id` attributes (or no reference): unconditional -/
theorem exon_ids_distinct_across_chr_no_reference_ids (a b : Str) (hab : a ≠ b) (da db : IdDistributor)
    (ka kb : List ExonKey) (hka : ∀ k ∈ ka, k.1 = a) (hkb : ∀ k ∈ kb, k.1 = b) :
    ∃ idsA idsB sa' sb', (FeatureIdStorage.mk da [] []).getIds ka = some (idsA, sa') ∧
      (FeatureIdStorage.mk db [] []).getIds kb = some (idsB, sb') ∧ ∀ x ∈ idsA, x ∉ idsB := by
  obtain ⟨idsA, sa', hA⟩ := getIds_total ka ⟨da, [], []⟩
  obtain ⟨idsB, sb', hB⟩ := getIds_total kb ⟨db, [], []⟩
  have inv0 : ∀ d, StInv ⟨d, [], []⟩ := fun d => ⟨by simp [dictGet], by simp [dictGet]⟩
  exact ⟨idsA, idsB, sa', sb', hA, hB,
    exon_ids_distinct_across_chr_partial a b hab _ sa' _ sb' (inv0 da) (inv0 db) ka kb idsA idsB hka hkb hA hB
      (by simp) (by simp) (by simp)⟩

/-- witness for the missing hypothesis: chromosome `b` carries the reference `exon_id "a.1"`; the first new
    exon of chromosome `a` gets `a.1` as well -/
theorem exon_id_on_other_chromosome_witness :
    ((FeatureIdStorage.init SimpleIDDistributor.init (some []) ['a']).getIds [(['a'], 5, 9, ['+'])]).map (·.1)
      = some [['a', '.', '1']] ∧
    ((FeatureIdStorage.init SimpleIDDistributor.init (some [⟨1, 2, ['+'], some [['a', '.', '1']]⟩]) ['b']).getIds
      [(['b'], 1, 2, ['+'])]).map (·.1) = some [['a', '.', '1']] := by
  constructor <;> decide

/-! ## 5. the two defects of the pinned tree (repaired by `fix:` commits), kept as regression witnesses -/

/-- pinned `get_id`: the same exon got `"1"` at its first and `"chr9.1"` at its second occurrence -/
theorem get_id_buggy_not_functional_witness :
    (getIdsWith FeatureIdStorage.getIdBuggy ⟨SimpleIDDistributor.init, [], []⟩
      [("chr9".toList, 100, 200, ['+']), ("chr9".toList, 100, 200, ['+'])]).map (fun r => r.1.map String.ofList)
      = some ["1", "chr9.1"] := by decide

/-- pinned `get_id`, first sight: different chromosomes handed out the same bare number -/
theorem get_id_buggy_cross_chr_witness :
    (FeatureIdStorage.getIdBuggy ⟨SimpleIDDistributor.init, [], []⟩ ("chr1".toList, 1, 2, ['+'])).map (·.1)
      = (FeatureIdStorage.getIdBuggy ⟨SimpleIDDistributor.init, [], []⟩ ("chr2".toList, 7, 9, ['-'])).map (·.1) := by
  decide

/-- `get_id` without `used_ids`: with a reference produced by an earlier IsoQuant run (`exon_id "c.1"` on the
    exon 10–20) the first *new* exon 70–80 received `c.1` too -/
theorem get_id_no_exclude_collision_witness :
    (getIdsWith FeatureIdStorage.getIdNoExclude
      (FeatureIdStorage.init SimpleIDDistributor.init (some [⟨10, 20, ['+'], some ["c.1".toList]⟩]) ['c'])
      [(['c'], 10, 20, ['+']), (['c'], 70, 80, ['+'])]).map (fun r => r.1.map String.ofList)
      = some ["c.1", "c.1"] := by decide

end IsoVerif.Props.C17
