/-
C17 — identifiers in the outputs are unique, collision-free and functional.

Property theorems only (helper lemmas: IsoVerif/Lemmas/Ids.lean).  The model (IsoVerif/Model/Ids.lean) is the
code of src/id_policy.py after the two `fix:` commits, plus the id formatting of
src/graph_based_model_construction.py over the regenerated `TranscriptNaming` constants.

Every statement quantifies over *all* reference id lists, all event / call histories, all chromosome names
(arbitrary strings, dots and underscores included) – no bounds.
-/
import IsoVerif.Model.Ids
import IsoVerif.Lemmas.Ids

namespace IsoVerif.Props.C17
open IsoVerif.Gen IsoVerif.Model.C17 IsoVerif.Lemmas.C17

/-! ## 1. number allocation (`SimpleIDDistributor`, `ExcludingIdDistributor`) -/

/-- `increment()` always returns: the `while value in forbidden_ids` loop ends within `|forbidden| + 1` steps -/
theorem increment_terminates (d : IdDistributor) : ∃ v d', d.increment = some (v, d') :=
  increment_total d

/-- `increment()` returns the least number above the current value that is not forbidden; the state moves
    to that number and the forbidden set is untouched -/
theorem increment_fresh (d d' : IdDistributor) (v : Nat) (h : d.increment = some (v, d')) :
    d.value < v ∧ Int.ofNat v ∉ d.forbidden ∧ (∀ u, d.value < u → u < v → Int.ofNat u ∈ d.forbidden) ∧
    d'.value = v ∧ d'.forbidden = d.forbidden := by
  obtain ⟨a, b, c, e, f⟩ := increment_spec h
  exact ⟨c, e, f, a, b⟩

example : (IdDistributor.mk 0 [1, 2, 5, -3]).increment = some (3, ⟨3, [1, 2, 5, -3]⟩) := by decide

/-- the forbidden-number parser recovers the number from every id the formatter can produce with it, for
    every chromosome name: the parse is conservative (`int(id.split(".")[0][len(prefix):])`,
    `int(id.split("_")[-1])`) -/
theorem parse_recovers_number (n : Nat) (chr : Str) (nic : Bool) :
    transcriptNumber (novelTranscriptId n chr nic) = some (Int.ofNat n) ∧
    geneNumber (novelGeneId chr n) = some (Int.ofNat n) :=
  ⟨transcriptNumber_novel n chr nic, geneNumber_novel chr n⟩

/-- the three id formats are injective in (number, chromosome, suffix), whatever characters the
    chromosome name contains -/
theorem id_formats_injective :
    (∀ n n' c c' s s', novelTranscriptId n c s = novelTranscriptId n' c' s' → n = n' ∧ c = c' ∧ s = s') ∧
    (∀ n n' c c', novelGeneId c n = novelGeneId c' n' → c = c' ∧ n = n') ∧
    (∀ n n' c c', exonIdStr c n = exonIdStr c' n' → c = c' ∧ n = n') :=
  ⟨fun _ _ _ _ _ _ h => novelTranscriptId_injective h, fun _ _ _ _ h => novelGeneId_injective h,
   fun _ _ _ _ h => exonIdStr_injective h⟩

example : String.ofList (novelTranscriptId 12 "chr1.a".toList true) = "transcript12.chr1.a.nic" := by decide
example : String.ofList (novelGeneId "chr_1".toList 7) = "novel_gene_chr_1_7" := by decide
example : String.ofList (exonIdStr "chr9".toList 3) = "chr9.3" := by decide

/-! ## 2. novel transcript / gene ids of one chromosome, over any history of construction events -/

def transcriptIds (chr : Str) (ms : List NovelModel) : List Str := ms.map (·.transcriptId chr)

/-- ids of the genes created for novel transcripts outside every reference gene -/
def novelGeneIds (chr : Str) (ms : List NovelModel) : List Str :=
  ms.filterMap (fun m => match m.gene with | .novel g => some (novelGeneId chr g) | .ref _ => none)

/-- **unique per chromosome**: whatever the construction heuristics do (any event sequence, any starting
    state of the chromosome's distributor) the run never aborts, the transcript ids of the novel models
    are pairwise distinct and so are the ids of the newly created genes -/
theorem novel_ids_unique_per_chr (chr : Str) (d : IdDistributor) (evs : List IdEvent) :
    ∃ ms d', runEvents d evs = some (ms, d') ∧
      (transcriptIds chr ms).Nodup ∧ (novelGeneIds chr ms).Nodup := by
  obtain ⟨ms, d', h⟩ := runEvents_total evs d
  have ok := runEvents_spec evs d d' ms h
  refine ⟨ms, d', h, ?_, ?_⟩
  · unfold transcriptIds
    rw [List.Nodup, List.pairwise_map]
    refine (tnums_pairwise ok.sorted).imp ?_
    intro a b hab e
    exact hab (novelTranscriptId_injective e).1
  · unfold novelGeneIds List.Nodup
    rw [List.pairwise_filterMap]
    refine (gnums_pairwise ok.sorted).imp ?_
    intro a b hab x hx y hy e
    cases ha : a.gene with
    | ref _ => simp [ha] at hx
    | novel g =>
      cases hb : b.gene with
      | ref _ => simp [hb] at hy
      | novel g' =>
        simp only [ha, Option.some.injEq] at hx
        simp only [hb, Option.some.injEq] at hy
        rw [← hx, ← hy] at e
        exact hab g g' ha hb (novelGeneId_injective e).2

-- non-vacuity: a history with all event kinds against a distributor that must skip reference numbers
example : (runEvents ⟨0, [1, 3]⟩ [.flNovel none true, .flDiscard, .monoexon true, .flNovel (some ['G']) false]).map
      (fun r => (transcriptIds ['c'] r.1).map String.ofList ++ (novelGeneIds ['c'] r.1).map String.ofList)
    = some ["transcript2.c.nic", "transcript6.c.nnic", "transcript8.c.nnic", "novel_gene_c_4", "novel_gene_c_7"] := by
  decide

/-- **unique across chromosomes**: every chromosome has its own distributor (all start at 0), the
    chromosome name inside the id keeps the ids apart – for arbitrary models of two different chromosomes -/
theorem novel_ids_unique_across_chr (c c' : Str) (hc : c ≠ c') (ms ms' : List NovelModel) :
    (∀ x ∈ transcriptIds c ms, x ∉ transcriptIds c' ms') ∧
    (∀ x ∈ novelGeneIds c ms, x ∉ novelGeneIds c' ms') := by
  constructor
  · intro x hx hx'
    simp only [transcriptIds, List.mem_map] at hx hx'
    obtain ⟨m, _, rfl⟩ := hx
    obtain ⟨m', _, e⟩ := hx'
    exact hc (novelTranscriptId_injective e).2.1.symm
  · intro x hx hx'
    simp only [novelGeneIds, List.mem_filterMap] at hx hx'
    obtain ⟨m, _, e1⟩ := hx
    obtain ⟨m', _, e2⟩ := hx'
    cases h1 : m.gene with
    | ref _ => simp [h1] at e1
    | novel g =>
      cases h2 : m'.gene with
      | ref _ => simp [h2] at e2
      | novel g' =>
        simp only [h1, Option.some.injEq] at e1
        simp only [h2, Option.some.injEq] at e2
        rw [← e1] at e2
        exact hc (novelGeneId_injective e2).1.symm

/-- every novel id carries the name of the chromosome it was created on (used by the reading rule for
    references generated by an earlier IsoQuant run) -/
theorem novel_id_embeds_chr (c c' : Str) (n n' : Nat) (s s' : Bool) :
    (novelTranscriptId n c s = novelTranscriptId n' c' s' → c = c') ∧
    (novelGeneId c n = novelGeneId c' n' → c = c') :=
  ⟨fun h => (novelTranscriptId_injective h).2.1, fun h => (novelGeneId_injective h).1⟩

/-! ## 3. no collision with the reference annotation of the chromosome -/

/-- **no reference collision**: the distributor of a chromosome is initialised from *arbitrary* lists of
    reference gene ids and transcript ids of that chromosome; then over any event history no novel
    transcript id equals a reference transcript id and no new gene id equals a reference gene id -/
theorem no_reference_collision (chr : Str) (genes transcripts : List Str) (evs : List IdEvent)
    (ms : List NovelModel) (d' : IdDistributor)
    (h : runEvents (ExcludingIdDistributor.init (some (genes, transcripts))) evs = some (ms, d')) :
    (∀ x ∈ transcriptIds chr ms, x ∉ transcripts) ∧ (∀ x ∈ novelGeneIds chr ms, x ∉ genes) := by
  have ok := runEvents_spec evs _ d' ms h
  constructor
  · intro x hx hmem
    simp only [transcriptIds, List.mem_map] at hx
    obtain ⟨m, hm, rfl⟩ := hx
    have hr := (ok.range m.tnum (tnum_mem_allNums hm)).2.2
    apply hr
    simp only [ExcludingIdDistributor.init, List.mem_append, List.mem_filterMap]
    exact Or.inr ⟨_, hmem, transcriptNumber_novel m.tnum chr m.nic⟩
  · intro x hx hmem
    simp only [novelGeneIds, List.mem_filterMap] at hx
    obtain ⟨m, hm, e⟩ := hx
    cases hg : m.gene with
    | ref _ => simp [hg] at e
    | novel g =>
      simp only [hg, Option.some.injEq] at e
      subst e
      have hr := (ok.range g (gnum_mem_allNums hm hg)).2.2
      apply hr
      simp only [ExcludingIdDistributor.init, List.mem_append, List.mem_filterMap]
      exact Or.inl ⟨_, hmem, geneNumber_novel chr g⟩

-- non-vacuity: a reference that already holds IsoQuant-style ids (numbers 1, 2 and 4 are taken)
example : (runEvents (ExcludingIdDistributor.init (some (["novel_gene_c_2".toList, "G1".toList],
        ["transcript1.c.nnic".toList, "transcript4.c.nic".toList, "ENST01".toList])))
      [.flNovel none false, .flNovel none true]).map
      (fun r => (transcriptIds ['c'] r.1).map String.ofList ++ (novelGeneIds ['c'] r.1).map String.ofList)
    = some ["transcript3.c.nnic", "transcript6.c.nic", "novel_gene_c_5", "novel_gene_c_7"] := by
  decide

/-- **… including a reference previously generated by IsoQuant**: if the reference contains the ids of
    the models `prev` of an earlier run on this chromosome (any numbers), the new ids avoid all of them -/
theorem no_collision_with_previous_run (chr : Str) (genes transcripts : List Str) (prev : List NovelModel)
    (hT : ∀ x ∈ transcriptIds chr prev, x ∈ transcripts) (hG : ∀ x ∈ novelGeneIds chr prev, x ∈ genes)
    (evs : List IdEvent) (ms : List NovelModel) (d' : IdDistributor)
    (h : runEvents (ExcludingIdDistributor.init (some (genes, transcripts))) evs = some (ms, d')) :
    (∀ x ∈ transcriptIds chr ms, x ∉ transcriptIds chr prev) ∧
    (∀ x ∈ novelGeneIds chr ms, x ∉ novelGeneIds chr prev) := by
  obtain ⟨a, b⟩ := no_reference_collision chr genes transcripts evs ms d' h
  exact ⟨fun x hx hp => a x hx (hT x hp), fun x hx hp => b x hx (hG x hp)⟩

-- non-vacuity: the reference of the second run contains what the first run produced on this chromosome
example : ∃ prev : List NovelModel, prev ≠ [] ∧
    (∀ x ∈ transcriptIds ['c'] prev, x ∈ ["transcript1.c.nnic".toList, "T9".toList]) ∧
    (∀ x ∈ novelGeneIds ['c'] prev, x ∈ ["novel_gene_c_2".toList]) :=
  ⟨[⟨1, false, .novel 2⟩], by simp, by decide, by decide⟩

/-- the transcript ids of one chromosome of `extended_annotation.gtf` – all reference transcripts followed by
    the novel models – are pairwise distinct as soon as the reference ids are -/
theorem extended_annotation_transcript_ids_nodup (chr : Str) (genes transcripts : List Str)
    (href : transcripts.Nodup) (evs : List IdEvent) :
    ∃ ms d', runEvents (ExcludingIdDistributor.init (some (genes, transcripts))) evs = some (ms, d') ∧
      (transcripts ++ transcriptIds chr ms).Nodup ∧ (∀ x ∈ novelGeneIds chr ms, x ∉ genes) := by
  obtain ⟨ms, d', h, n1, _⟩ := novel_ids_unique_per_chr chr (ExcludingIdDistributor.init (some (genes, transcripts))) evs
  obtain ⟨a, b⟩ := no_reference_collision chr genes transcripts evs ms d' h
  refine ⟨ms, d', h, ?_, b⟩
  rw [List.nodup_append]
  exact ⟨href, n1, fun x hx y hy e => a y hy (e ▸ hx)⟩

/-! ### reference ids located on *another* chromosome (known finding `reference_id_on_other_chromosome`)

Full-strength statement (FALSE of model and code): for every reference, a novel id of chromosome `c` equals
no reference id of any chromosome.  `ExcludingIdDistributor` only reads the features of its own
chromosome, so a reference that carries the id `transcript1.chrA.nnic` on chromosome `chrB` is not seen
by the distributor of `chrA`. -/

/-- a reference id located on chromosome `loc` is *honest* when, if it has the shape of a novel id at all,
    the chromosome embedded in it is `loc` (true of everything IsoQuant itself writes: `novel_id_embeds_chr`) -/
def HonestTranscriptId (loc : Str) (t : Str) : Prop := ∀ n c s, t = novelTranscriptId n c s → c = loc
def HonestGeneId (loc : Str) (t : Str) : Prop := ∀ n c, t = novelGeneId c n → c = loc

theorem no_reference_collision_other_chr_partial (c loc : Str) (hne : c ≠ loc) (ms : List NovelModel)
    (otherTranscripts otherGenes : List Str)
    (hT : ∀ t ∈ otherTranscripts, HonestTranscriptId loc t) (hG : ∀ t ∈ otherGenes, HonestGeneId loc t) :
    (∀ x ∈ transcriptIds c ms, x ∉ otherTranscripts) ∧ (∀ x ∈ novelGeneIds c ms, x ∉ otherGenes) := by
  constructor
  · intro x hx hmem
    simp only [transcriptIds, List.mem_map] at hx
    obtain ⟨m, _, rfl⟩ := hx
    exact hne (hT _ hmem m.tnum c m.nic rfl)
  · intro x hx hmem
    simp only [novelGeneIds, List.mem_filterMap] at hx
    obtain ⟨m, _, e⟩ := hx
    cases hg : m.gene with
    | ref _ => simp [hg] at e
    | novel g =>
      simp only [hg, Option.some.injEq] at e
      exact hne (hG _ hmem g c e.symm)

example : HonestTranscriptId "chrB".toList "transcript1.chrB.nnic".toList := by
  intro n c s h
  have : "transcript1.chrB.nnic".toList = novelTranscriptId 1 "chrB".toList false := by decide
  rw [this] at h
  exact (novelTranscriptId_injective h).2.1.symm

/-- witness: chromosome `chrA` has no reference features, chromosome `chrB` carries a transcript named
    `transcript1.chrA.nnic`; the first novel model of `chrA` gets exactly that id -/
theorem reference_id_on_other_chromosome_witness :
    ∃ ms d', runEvents (ExcludingIdDistributor.init (some ([], []))) [.flNovel (some ['G']) false] = some (ms, d') ∧
      "transcript1.chrA.nnic".toList ∈ transcriptIds "chrA".toList ms :=
  ⟨_, _, rfl, by decide⟩

/-! ## 4. `exon_id` is a function of (chromosome, start, end, strand) -/

/-- the reference is *injective*: an `exon_id` value names one exon (otherwise "preserve the reference ids"
    and "distinct exons carry distinct ids" contradict each other) -/
def RefInjective (chr : Str) (feats : List RefFeature) : Prop :=
  ∀ f ∈ feats, ∀ g ∈ feats, ∀ id, refId f = some id → refId g = some id → refKey chr f = refKey chr g

/-- the reference is *functional* at `f`: all records of that exon carry the same `exon_id` -/
def RefFunctionalAt (chr : Str) (feats : List RefFeature) (f : RefFeature) : Prop :=
  ∀ g ∈ feats, refKey chr g = refKey chr f → (refId g).isSome → refId g = refId f

theorem init_inv (dist : IdDistributor) (genedb : Option (List RefFeature)) (chr : Str)
    (hinj : ∀ feats, genedb = some feats → RefInjective chr feats) :
    StInv (FeatureIdStorage.init dist genedb chr) := by
  unfold FeatureIdStorage.init
  cases genedb with
  | none => exact ⟨by simp [dictGet], by simp [dictGet]⟩
  | some feats =>
    by_cases hc : chr.isEmpty
    · simp only [hc, if_true]; exact ⟨by simp [dictGet], by simp [dictGet]⟩
    · simp only [hc]
      obtain ⟨_, s2, s3, _, _⟩ := foldl_load_spec chr feats ⟨dist, [], []⟩
      constructor
      · intro k id h
        rcases s2 k id h with x | ⟨f, f1, f2, _⟩
        · simp [dictGet] at x
        · exact Or.inl ((s3 id).mpr (Or.inr ⟨f, f1, f2⟩))
      · intro k1 k2 id h1 h2
        rcases s2 k1 id h1 with x | ⟨f, f1, f2, f3⟩
        · simp [dictGet] at x
        rcases s2 k2 id h2 with x | ⟨g, g1, g2, g3⟩
        · simp [dictGet] at x
        rw [f3, g3]
        exact hinj feats rfl f f1 g g1 id f2 g2

/-- `get_id` always returns (the `while feature_id in used_ids` loop ends within `|used_ids| + 1` draws),
    over whole histories -/
theorem get_id_terminates (st : FeatureIdStorage) (ks : List ExonKey) :
    ∃ ids st', st.getIds ks = some (ids, st') := getIds_total ks st

/-- **functional and injective over any call history** (general form: any storage satisfying the invariant,
    e.g. the state left by earlier histories – both GTF printers of a chromosome share one storage):
    two calls of the history return the same id **iff** they were made for the same
    (chromosome, start, end, strand) -/
theorem exon_id_functional_of_inv (st st' : FeatureIdStorage) (hinv : StInv st) (ks : List ExonKey)
    (ids : List Str) (h : st.getIds ks = some (ids, st')) :
    ids.length = ks.length ∧ StInv st' ∧
    ∀ p ∈ ks.zip ids, ∀ q ∈ ks.zip ids, (p.1 = q.1 ↔ p.2 = q.2) := by
  obtain ⟨a0, a1, _, _, a4⟩ := getIds_spec ks st st' ids h
  have inv' := a4 hinv
  refine ⟨a0, inv', fun p hp q hq => ⟨fun e => ?_, fun e => ?_⟩⟩
  · have h1 := a1 p hp
    have h2 := a1 q hq
    rw [e, h2] at h1
    exact (Option.some.inj h1).symm
  · have h1 := a1 p hp
    have h2 := a1 q hq
    rw [e] at h1
    exact inv'.inj _ _ _ h1 h2

/-- **exon_id_functional** for the storage the pipeline builds: any distributor, any reference feature list
    (with or without `exon_id` attributes, injective where it has them), any call history -/
theorem exon_id_functional (dist : IdDistributor) (genedb : Option (List RefFeature)) (chr : Str)
    (hinj : ∀ feats, genedb = some feats → RefInjective chr feats) (ks : List ExonKey) :
    ∃ ids st', (FeatureIdStorage.init dist genedb chr).getIds ks = some (ids, st') ∧
      ids.length = ks.length ∧
      ∀ p ∈ ks.zip ids, ∀ q ∈ ks.zip ids, (p.1 = q.1 ↔ p.2 = q.2) := by
  obtain ⟨ids, st', h⟩ := getIds_total ks (FeatureIdStorage.init dist genedb chr)
  obtain ⟨a, _, c⟩ := exon_id_functional_of_inv _ st' (init_inv dist genedb chr hinj) ks ids h
  exact ⟨ids, st', h, a, c⟩

-- non-vacuity: reference with ids (one of them IsoQuant-style `c.1`), history with repeats and new exons
example :
    ((FeatureIdStorage.init SimpleIDDistributor.init
        (some [⟨10, 20, ['+'], some ["c.1".toList]⟩, ⟨30, 40, ['+'], none⟩, ⟨50, 60, ['-'], some ["E7".toList]⟩]) ['c']).getIds
      [(['c'], 30, 40, ['+']), (['c'], 10, 20, ['+']), (['c'], 70, 80, ['+']), (['c'], 30, 40, ['+']),
       (['c'], 50, 60, ['-']), (['c'], 30, 40, ['-'])]).map (fun r => r.1.map String.ofList)
    = some ["c.2", "c.1", "c.3", "c.2", "E7", "c.4"] := by decide

example : RefInjective ['c'] [⟨10, 20, ['+'], some ["c.1".toList]⟩, ⟨30, 40, ['+'], none⟩,
    ⟨50, 60, ['-'], some ["E7".toList]⟩] := by
  intro f hf g hg id h1 h2
  simp only [List.mem_cons, List.not_mem_nil, or_false] at hf hg
  rcases hf with rfl | rfl | rfl <;> rcases hg with rfl | rfl | rfl <;>
    simp_all [refId, refKey] <;> (subst h1; simp at h2)

/-- **reference exon ids are preserved**: an exon whose reference records all carry the id `id` gets `id`
    at every call of every history -/
theorem exon_id_reference_preserved (dist : IdDistributor) (feats : List RefFeature) (chr : Str)
    (hchr : chr.isEmpty = false) (f : RefFeature) (hf : f ∈ feats) (id : Str) (hid : refId f = some id)
    (hfun : RefFunctionalAt chr feats f) (ks : List ExonKey) (ids : List Str) (st' : FeatureIdStorage)
    (h : (FeatureIdStorage.init dist (some feats) chr).getIds ks = some (ids, st')) :
    ∀ p ∈ ks.zip ids, p.1 = refKey chr f → p.2 = id := by
  obtain ⟨_, a1, a2, _, _⟩ := getIds_spec ks _ st' ids h
  -- the initial table binds the key to `id`
  have h0 : dictGet (refKey chr f) (FeatureIdStorage.init dist (some feats) chr).dict = some id := by
    unfold FeatureIdStorage.init
    simp only [hchr, Bool.false_eq_true, if_false]
    obtain ⟨_, s2, _, _, s5⟩ := foldl_load_spec chr feats ⟨dist, [], []⟩
    have hs := s5 f hf (by simp [hid])
    cases hg : dictGet (refKey chr f) (List.foldl (FeatureIdStorage.load chr) ⟨dist, [], []⟩ feats).dict with
    | none => simp [hg] at hs
    | some id' =>
      rcases s2 _ _ hg with x | ⟨g, g1, g2, g3⟩
      · simp [dictGet] at x
      · have := hfun g g1 g3.symm (by simp [g2])
        rw [g2, hid] at this
        exact this
  intro p hp e
  have h1 := a1 p hp
  rw [e, a2 _ _ h0] at h1
  exact (Option.some.inj h1).symm

-- non-vacuity: two records of the same exon with the same id
example : RefFunctionalAt ['c'] [⟨10, 20, ['+'], some ["E1".toList]⟩, ⟨10, 20, ['+'], some ["E1".toList, "x".toList]⟩,
    ⟨30, 40, ['+'], none⟩] ⟨10, 20, ['+'], some ["E1".toList]⟩ := by
  intro g hg hk hs
  simp only [List.mem_cons, List.not_mem_nil, or_false] at hg
  rcases hg with rfl | rfl | rfl <;> simp_all [refId, refKey]

/-! ### across chromosomes

Every chromosome is processed with its own storage and its own `SimpleIDDistributor` (numbers restart at 1).
Full-strength statement (FALSE of model and code for an adversarial reference, same cause as
`reference_id_on_other_chromosome`): ids returned by the storages of two different chromosomes never coincide. -/

/-- ids returned by a history are reference ids of that chromosome or fresh `chr.N` of the key's chromosome -/
theorem history_id_origin (st st' : FeatureIdStorage) (hinv : StInv st) (ks : List ExonKey) (ids : List Str)
    (h : st.getIds ks = some (ids, st')) :
    ∀ p ∈ ks.zip ids, p.2 ∈ st.used ∨ ∃ n, p.2 = exonIdStr p.1.1 n := by
  obtain ⟨_, a1, _, a3, a4⟩ := getIds_spec ks st st' ids h
  intro p hp
  rcases (a4 hinv).origin _ _ (a1 p hp) with x | ⟨n, _, e, _⟩
  · exact Or.inl (a3 ▸ x)
  · exact Or.inr ⟨n, e⟩

/-- **distinct across chromosomes** under the reading-rule hypotheses on the reference: the reference
    `exon_id`s of the two chromosomes are disjoint (`hdisj`, reference injectivity across chromosomes) and no
    reference id located on one chromosome has the shape `<other chromosome>.N` (`hA`, `hB`, honesty) -/
theorem exon_ids_distinct_across_chr_partial (a b : Str) (hab : a ≠ b)
    (sa sa' sb sb' : FeatureIdStorage) (ia : StInv sa) (ib : StInv sb)
    (ka kb : List ExonKey) (idsA idsB : List Str)
    (hka : ∀ k ∈ ka, k.1 = a) (hkb : ∀ k ∈ kb, k.1 = b)
    (hA : sa.getIds ka = some (idsA, sa')) (hB : sb.getIds kb = some (idsB, sb'))
    (hdisj : ∀ x ∈ sa.used, x ∉ sb.used)
    (honA : ∀ x ∈ sa.used, ∀ n, x ≠ exonIdStr b n) (honB : ∀ x ∈ sb.used, ∀ n, x ≠ exonIdStr a n) :
    ∀ x ∈ idsA, x ∉ idsB := by
  intro x hxa hxb
  obtain ⟨la, _, _⟩ := exon_id_functional_of_inv sa sa' ia ka idsA hA
  obtain ⟨lb, _, _⟩ := exon_id_functional_of_inv sb sb' ib kb idsB hB
  -- locate x in both zipped histories
  obtain ⟨i, hi, rfl⟩ := List.getElem_of_mem hxa
  obtain ⟨j, hj, ej⟩ := List.getElem_of_mem hxb
  have pa : (ka[i]'(by omega), idsA[i]) ∈ ka.zip idsA := by
    have : (ka.zip idsA)[i]'(by simp; omega) = (ka[i]'(by omega), idsA[i]) := by simp
    rw [← this]; exact List.getElem_mem _
  have pb : (kb[j]'(by omega), idsB[j]) ∈ kb.zip idsB := by
    have : (kb.zip idsB)[j]'(by simp; omega) = (kb[j]'(by omega), idsB[j]) := by simp
    rw [← this]; exact List.getElem_mem _
  have oa := history_id_origin sa sa' ia ka idsA hA _ pa
  have ob := history_id_origin sb sb' ib kb idsB hB _ pb
  have cha : (ka[i]'(by omega)).1 = a := hka _ (List.getElem_mem _)
  have chb : (kb[j]'(by omega)).1 = b := hkb _ (List.getElem_mem _)
  simp only [cha] at oa
  simp only [chb, ej] at ob
  rcases oa with ua | ⟨n, en⟩ <;> rcases ob with ub | ⟨m, em⟩
  · exact hdisj _ ua ub
  · exact honA _ ua m em
  · exact honB _ ub n en
  · rw [en] at em; exact hab (exonIdStr_injective em).1

/-- the case of a reference without `exon_id` attributes (or no reference): unconditional -/
theorem exon_ids_distinct_across_chr_no_reference_ids (a b : Str) (hab : a ≠ b) (da db : IdDistributor)
    (ka kb : List ExonKey) (hka : ∀ k ∈ ka, k.1 = a) (hkb : ∀ k ∈ kb, k.1 = b) :
    ∃ idsA idsB sa' sb', (FeatureIdStorage.mk da [] []).getIds ka = some (idsA, sa') ∧
      (FeatureIdStorage.mk db [] []).getIds kb = some (idsB, sb') ∧ ∀ x ∈ idsA, x ∉ idsB := by
  obtain ⟨idsA, sa', hA⟩ := getIds_total ka ⟨da, [], []⟩
  obtain ⟨idsB, sb', hB⟩ := getIds_total kb ⟨db, [], []⟩
  have inv0 : ∀ d, StInv ⟨d, [], []⟩ := fun d => ⟨by simp [dictGet], by simp [dictGet]⟩
  exact ⟨idsA, idsB, sa', sb', hA, hB,
    exon_ids_distinct_across_chr_partial a b hab _ sa' _ sb' (inv0 da) (inv0 db) ka kb idsA idsB hka hkb hA hB
      (by simp) (by simp) (by simp)⟩

/-- witness for the missing hypothesis: chromosome `b` carries the reference `exon_id "a.1"`; the first new
    exon of chromosome `a` gets `a.1` as well -/
theorem exon_id_on_other_chromosome_witness :
    ((FeatureIdStorage.init SimpleIDDistributor.init (some []) ['a']).getIds [(['a'], 5, 9, ['+'])]).map (·.1)
      = some [['a', '.', '1']] ∧
    ((FeatureIdStorage.init SimpleIDDistributor.init (some [⟨1, 2, ['+'], some [['a', '.', '1']]⟩]) ['b']).getIds
      [(['b'], 1, 2, ['+'])]).map (·.1) = some [['a', '.', '1']] := by
  constructor <;> decide

/-! ## 5. the two defects of the pinned tree (repaired by `fix:` commits), kept as regression witnesses -/

/-- pinned `get_id`: the same exon got `"1"` at its first and `"chr9.1"` at its second occurrence -/
theorem get_id_buggy_not_functional_witness :
    (getIdsWith FeatureIdStorage.getIdBuggy ⟨SimpleIDDistributor.init, [], []⟩
      [("chr9".toList, 100, 200, ['+']), ("chr9".toList, 100, 200, ['+'])]).map (fun r => r.1.map String.ofList)
      = some ["1", "chr9.1"] := by decide

/-- pinned `get_id`, first sight: different chromosomes handed out the same bare number -/
theorem get_id_buggy_cross_chr_witness :
    (FeatureIdStorage.getIdBuggy ⟨SimpleIDDistributor.init, [], []⟩ ("chr1".toList, 1, 2, ['+'])).map (·.1)
      = (FeatureIdStorage.getIdBuggy ⟨SimpleIDDistributor.init, [], []⟩ ("chr2".toList, 7, 9, ['-'])).map (·.1) := by
  decide

/-- `get_id` without `used_ids`: with a reference produced by an earlier IsoQuant run (`exon_id "c.1"` on the
    exon 10–20) the first *new* exon 70–80 received `c.1` too -/
theorem get_id_no_exclude_collision_witness :
    (getIdsWith FeatureIdStorage.getIdNoExclude
      (FeatureIdStorage.init SimpleIDDistributor.init (some [⟨10, 20, ['+'], some ["c.1".toList]⟩]) ['c'])
      [(['c'], 10, 20, ['+']), (['c'], 70, 80, ['+'])]).map (fun r => r.1.map String.ofList)
      = some ["c.1", "c.1"] := by decide

end IsoVerif.Props.C17
