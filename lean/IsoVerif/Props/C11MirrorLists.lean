/-
C11 — the reflection theorems of Model/Interval.lean + Model/Profiles.lean that Props/C11Mirror.lean and
Props/C11Profiles.lean left open (relations `M.merge_ranges`, `M.split_exons`, `M.truncate_read_to_polya`,
`M.isoform_profile`), for ALL chromosome lengths `L : Int`:

  merge_ranges             self-dual on sorted disjoint well-formed lists (`SD`, `WFl`); via a complete specification
                           (`cov` + `lnk`: which neighbouring positions share a block) that determines the result
  GeneInfo.split_exons     self-dual (`SplitExonsMirror` of Props/C11Profiles.lean, proved as stated: well-formed exons,
                           no border on the sentinel −1); via C19's atom specification read symmetrically
  truncate_read_to_polya   polyA ↔ polyT swap, for ALL well-formed lists (sorted or not), one or both tails, as long as
                           each scan finds an exon and the two tails are not crossed; three witnesses show that each
                           hypothesis is needed (the start loop is bounded by end_index, the end loop is not; index −1 wraps)
  FeatureProfiles.set_profiles   profile reversed, range (n − e, n − s), for the two comparators the pipeline passes, in
                           the domain in which it calls them; witnesses for a transcript feature that is not a known feature
-/
import IsoVerif.Gen.Prims
import IsoVerif.Model.Interval
import IsoVerif.Model.Profiles
import IsoVerif.Model.C11Symmetry
import IsoVerif.Lemmas.C11MirrorMerge
import IsoVerif.Lemmas.C11MirrorSplit
import IsoVerif.Lemmas.C11MirrorTruncate
import IsoVerif.Lemmas.C11MirrorProfiles
import IsoVerif.Props.C19Split
import IsoVerif.Props.C11Profiles

namespace IsoVerif.Props.C11MirrorLists
open IsoVerif.Gen IsoVerif.Model IsoVerif.Model.C11 IsoVerif.Lemmas IsoVerif.Lemmas.C11 IsoVerif.Lemmas.C11.Lists

/-! ## section: Model/Interval.lean — merge_ranges -/

/-- complete specification of `merge_ranges` (sharpens C19's `merge_cov` + `merge_sorted`): the result is sorted,
    disjoint, well formed, covers the union, and two neighbouring positions `p`, `p + 1` lie in one result block iff they
    lie in one input block — touching blocks are NOT fused, overlapping ones are -/
theorem merge_ranges_complete_spec (l1 l2 : List Iv) (h1 : SD l1) (h2 : SD l2) (w1 : WFl l1) (w2 : WFl l2)
    (hne : l1 ≠ [] ∨ l2 ≠ []) :
    ∃ res, mergeRanges l1 l2 = some res ∧ SD res ∧ WFl res ∧
      (∀ p, cov res p ↔ cov l1 p ∨ cov l2 p) ∧ (∀ p, lnk res p ↔ lnk l1 p ∨ lnk l2 p) :=
  mergeRanges_spec l1 l2 h1 h2 w1 w2 hne

/-- the specification determines the list: sorted disjoint well-formed lists with the same covered positions and the
    same linked neighbours are equal -/
theorem sorted_disjoint_ext (l1 l2 : List Iv) (h1 : SD l1) (h2 : SD l2) (w1 : WFl l1) (w2 : WFl l2)
    (hc : ∀ p, cov l1 p ↔ cov l2 p) (hl : ∀ p, lnk l1 p ↔ lnk l2 p) : l1 = l2 :=
  SD_ext l1 l2 h1 h2 w1 w2 hc hl

/-- covering the same positions is not enough: touching blocks are kept apart by `lnk` -/
example : (∀ p, cov [(1, 2), (3, 4)] p ↔ cov [(1, 4)] p) ∧ lnk [(1, 4)] 2 ∧ ¬ lnk [(1, 2), (3, 4)] 2 := by
  refine ⟨fun p => ?_, ?_, ?_⟩
  · simp only [cov, List.mem_cons, List.not_mem_nil, or_false, exists_eq_or_imp, exists_eq_left]; omega
  · simp only [lnk, List.mem_cons, List.not_mem_nil, or_false, exists_eq_left]; omega
  · simp only [lnk, List.mem_cons, List.not_mem_nil, or_false, exists_eq_or_imp, exists_eq_left]; omega

/-- the union of the mirrored block lists is the mirrored union (the assertion error on two empty lists included) -/
theorem mirror_dual_mergeRanges (L : Int) (l1 l2 : List Iv) (h1 : SD l1) (h2 : SD l2) (w1 : WFl l1) (w2 : WFl l2) :
    mergeRanges (mirrorL L l1) (mirrorL L l2) = (mergeRanges l1 l2).map (mirrorL L) :=
  mergeRanges_mirror L l1 l2 h1 h2 w1 w2

example : SD [(1, 5), (10, 12), (13, 14)] ∧ SD [(4, 11), (20, 21)] ∧ WFl [(1, 5), (10, 12), (13, 14)] ∧ WFl [(4, 11), (20, 21)] ∧
    ([((1 : Int), (5 : Int)), (10, 12), (13, 14)] ≠ [] ∨ [((4 : Int), (11 : Int)), (20, 21)] ≠ []) ∧
    mergeRanges (mirrorL 30 [(1, 5), (10, 12), (13, 14)]) (mirrorL 30 [(4, 11), (20, 21)])
      = some (mirrorL 30 [(1, 12), (13, 14), (20, 21)]) := by
  refine ⟨by decide, by decide, by decide, by decide, Or.inl (by simp), by decide +kernel⟩

/-- sortedness is needed: on an unsorted list the sweep meets the blocks in a different order from the other end -/
theorem merge_mirror_unsorted_witness :
    mergeRanges (mirrorL 20 [(5, 6), (1, 2)]) (mirrorL 20 [(3, 4)]) ≠ (mergeRanges [(5, 6), (1, 2)] [(3, 4)]).map (mirrorL 20) := by
  decide +kernel

/-- disjointness is needed: two overlapping blocks of ONE list are fused from one end only -/
theorem merge_mirror_overlapping_witness :
    mergeRanges (mirrorL 20 [(1, 5), (3, 8)]) (mirrorL 20 [(2, 4)]) ≠ (mergeRanges [(1, 5), (3, 8)] [(2, 4)]).map (mirrorL 20) := by
  decide +kernel

/-! ## section: Model/Profiles.lean — GeneInfo.split_exons -/

/-- reflection inside C19's domain (coordinates ≥ 0 on both sides) -/
theorem mirror_dual_splitExons_nonneg (L : Int) (exons : List Iv) (w : WFl exons)
    (hpos : ∀ e ∈ exons, 0 ≤ e.1) (hL : ∀ e ∈ exons, e.2 ≤ L + 1) :
    splitExons (mirrorL L exons) = (splitExons exons).map (mirrorL L) := by
  obtain ⟨blocks, hres, hsd, hwf, hc, hn, he⟩ := C19Split.split_exons_spec exons w hpos
  have hpos' : ∀ e ∈ mirrorL L exons, 0 ≤ e.1 := by
    intro e he'
    obtain ⟨x, hx, rfl⟩ := (mem_mirrorL' L exons e).mp he'
    have := hL x hx
    simp only [mirrorIv_fst]; omega
  obtain ⟨blocks', hres', hsd', hwf', hc', hn', he'⟩ :=
    C19Split.split_exons_spec (mirrorL L exons) (WFl_mirror L exons w) hpos'
  rw [hres, hres', Option.map_some,
    atoms_mirror_unique L exons blocks blocks' w hsd hwf hc hn he hsd' hwf' hc' hn' he']

/-- `SplitExonsMirror` (Props/C11Profiles.lean) holds as stated: the split exons of the mirrored exons are the
    mirrored split exons, for well-formed exons whose borders (and mirrored borders) avoid the sentinel −1; negative
    coordinates are reduced to C19's domain by the translation theorem -/
theorem mirror_dual_splitExons : C11Profiles.SplitExonsMirror := by
  intro L exons hw hs
  obtain ⟨k, hk0, hk⟩ := exists_shift_nonneg exons
  obtain ⟨j, hj0, hj⟩ := exists_shift_nonneg (mirrorL L exons)
  have hsE : ∀ e ∈ exons, e.1 ≠ -1 ∧ e.2 + 1 ≠ -1 := fun e he => hs e (List.mem_append_left _ he)
  have hsM : ∀ e ∈ mirrorL L exons, e.1 ≠ -1 ∧ e.2 + 1 ≠ -1 := fun e he => hs e (List.mem_append_right _ he)
  have hwM : ∀ e ∈ mirrorL L exons, e.1 ≤ e.2 := WFl_mirror L exons hw
  -- the non-negative instance
  have hwk : WFl (shiftL k exons) := by
    intro e he
    obtain ⟨x, hx, rfl⟩ := (mem_shiftL k exons e).mp he
    have := hw x hx
    simp only [shiftIv_fst, shiftIv_snd]; omega
  have hposk : ∀ e ∈ shiftL k exons, 0 ≤ e.1 := by
    intro e he
    obtain ⟨x, hx, rfl⟩ := (mem_shiftL k exons e).mp he
    exact hk x hx
  have hLk : ∀ e ∈ shiftL k exons, e.2 ≤ L + k + j + 1 := by
    intro e he
    obtain ⟨x, hx, rfl⟩ := (mem_shiftL k exons e).mp he
    have := hj (mirrorIv L x) ((mem_mirrorL L x exons).mpr hx)
    simp only [mirrorIv_fst] at this
    simp only [shiftIv_snd]; omega
  have key := mirror_dual_splitExons_nonneg (L + k + j) (shiftL k exons) hwk hposk hLk
  rw [mirrorL_shiftL,
    C11Profiles.shift_equivariant_splitExons j (mirrorL L exons) hwM
      (fun e he => ⟨(hsM e he).1, by have := hj e he; omega, (hsM e he).2, by have := hj e he; have := hwM e he; omega⟩),
    C11Profiles.shift_equivariant_splitExons k exons hw
      (fun e he => ⟨(hsE e he).1, by have := hk e he; omega, (hsE e he).2, by have := hk e he; have := hw e he; omega⟩),
    Option.map_map] at key
  -- cancel the translation by j
  have key2 := congrArg (Option.map (shiftL (-j))) key
  rw [Option.map_map, Option.map_map] at key2
  have c1 : (shiftL (-j) ∘ shiftL j) = id := by
    funext x; simp only [Function.comp, shiftL_shiftL]
    have : j + -j = 0 := by omega
    rw [this, shiftL_zero]; rfl
  have c2 : (shiftL (-j) ∘ (mirrorL (L + k + j) ∘ shiftL k)) = mirrorL L := by
    funext x; simp only [Function.comp, mirrorL_shiftL, shiftL_shiftL]
    have : j + -j = 0 := by omega
    rw [this, shiftL_zero]
  rw [c1, c2, Option.map_id] at key2
  exact key2

example : (∀ e ∈ [((1 : Int), (3 : Int)), (2, 5)], e.1 ≤ e.2) ∧
    (∀ e ∈ [((1 : Int), (3 : Int)), (2, 5)], 0 ≤ e.1) ∧ (∀ e ∈ [((1 : Int), (3 : Int)), (2, 5)], e.2 ≤ 9 + 1) ∧
    (∀ e ∈ [((1 : Int), (3 : Int)), (2, 5)] ++ mirrorL 9 [(1, 3), (2, 5)], e.1 ≠ -1 ∧ e.2 + 1 ≠ -1) ∧
    splitExons (mirrorL 9 [(1, 3), (2, 5)]) = some (mirrorL 9 [(1, 1), (2, 3), (4, 5)]) := by
  refine ⟨by decide, by decide, by decide, by decide, by decide +kernel⟩

/-- negative coordinates on both sides (outside C19's domain, inside `SplitExonsMirror`) -/
example : (∀ e ∈ [((-30 : Int), (-20 : Int)), (-25, -10)] ++ mirrorL (-50) [(-30, -20), (-25, -10)], e.1 ≠ -1 ∧ e.2 + 1 ≠ -1) ∧
    splitExons (mirrorL (-50) [(-30, -20), (-25, -10)]) = some (mirrorL (-50) [(-30, -26), (-25, -20), (-19, -10)]) := by
  refine ⟨by decide, by decide +kernel⟩

/-- the sentinel hypothesis is needed: a mirrored exon start on −1 is taken for "border unset" and the block (−1, 1)
    is lost (a chromosome shorter than an exon end + 2: not a genome) -/
theorem split_exons_mirror_sentinel_witness :
    splitExons (mirrorL 4 [(1, 3), (2, 6)]) ≠ (splitExons [(1, 3), (2, 6)]).map (mirrorL 4) := by
  decide +kernel

/-! ## section: Model/Interval.lean — truncate_read_to_polya (polyA ↔ polyT) -/

/-- cutting the mirrored read at the mirrored tails (polyA and polyT swapped) gives the mirrored cut read, for every
    well-formed exon list (sorted or not) when
      * a polyA position lies behind the start of some exon, a polyT position before the end of some exon
        (for a sorted list: `first start < polyA`, `polyT < last end` — the tail is not outside the read),
      * a tail position is not mirrored onto the sentinel −1,
      * with both tails, polyT lies before polyA -/
theorem mirror_dual_truncateReadToPolya (L : Int) (exons : List Iv) (pa pt : Int) (w : WFl exons)
    (hA : pa ≠ -1 → (∃ e ∈ exons, e.1 < pa) ∧ L + 1 - pa ≠ -1)
    (hT : pt ≠ -1 → (∃ e ∈ exons, pt < e.2) ∧ L + 1 - pt ≠ -1)
    (hX : pa ≠ -1 → pt ≠ -1 → pt < pa) :
    truncateReadToPolya (mirrorL L exons) (mirrorPos L pt) (mirrorPos L pa)
      = (truncateReadToPolya exons pa pt).map (mirrorL L) :=
  truncate_mirror_core L exons pa pt w hA hT hX

example : WFl [(1, 5), (10, 12), (20, 30)] ∧ (∃ e ∈ [((1 : Int), (5 : Int)), (10, 12), (20, 30)], e.1 < 25) ∧
    (∃ e ∈ [((1 : Int), (5 : Int)), (10, 12), (20, 30)], 3 < e.2) ∧
    truncateReadToPolya (mirrorL 40 [(1, 5), (10, 12), (20, 30)]) (mirrorPos 40 3) (mirrorPos 40 25)
      = some (mirrorL 40 [(3, 5), (10, 12), (20, 25)]) := by
  refine ⟨by decide, ⟨(1, 5), by simp, by decide⟩, ⟨(1, 5), by simp, by decide⟩, by decide⟩

/-- the empty read raises on both sides -/
example : truncateReadToPolya (mirrorL 40 []) (mirrorPos 40 3) (mirrorPos 40 25) = none ∧
    (truncateReadToPolya [] 25 3).map (mirrorL 40) = none := by decide

/-- a polyA position at or before the first base: the code reads `read_exons[-1]` through Python's negative index and
    returns an unsorted list, while the mirrored call (polyT behind the last base: start index = len) raises IndexError -/
theorem truncate_mirror_tail_outside_witness :
    truncateReadToPolya (mirrorL 40 [(1, 5), (10, 12), (20, 30)]) (mirrorPos 40 (-1)) (mirrorPos 40 1) = none ∧
    (truncateReadToPolya [(1, 5), (10, 12), (20, 30)] 1 (-1)).map (mirrorL 40) = some [(40, 21), (29, 31), (36, 40)] := by
  decide

/-- crossed tails (polyA before polyT): the start loop is bounded by `end_index`, the end loop is not bounded by
    `start_index`, so the two calls pick different exons -/
theorem truncate_mirror_crossed_tails_witness :
    truncateReadToPolya (mirrorL 40 [(1, 5), (10, 12), (20, 30)]) (mirrorPos 40 12) (mirrorPos 40 10)
      ≠ (truncateReadToPolya [(1, 5), (10, 12), (20, 30)] 10 12).map (mirrorL 40) := by
  decide

/-- a tail position mirrored ONTO the sentinel is read as "no tail" -/
theorem truncate_mirror_sentinel_witness :
    truncateReadToPolya (mirrorL 10 [(1, 5), (8, 20)]) (mirrorPos 10 (-1)) (mirrorPos 10 12)
      ≠ (truncateReadToPolya [(1, 5), (8, 20)] 12 (-1)).map (mirrorL 10) := by
  decide

/-- well-formedness is needed (only to keep the two scans from crossing): an exon with start > end between the tails -/
theorem truncate_mirror_malformed_witness :
    truncateReadToPolya (mirrorL 40 [(1, 2), (10, 5), (20, 30)]) (mirrorPos 40 6) (mirrorPos 40 8)
      ≠ (truncateReadToPolya [(1, 2), (10, 5), (20, 30)] 8 6).map (mirrorL 40) := by
  decide

/-! ## section: Model/Profiles.lean — FeatureProfiles.set_profiles -/

/-- declarative value of the sweep for the exact comparator: a known feature is marked iff it is a transcript feature
    (sharpens C19's `isoform_profile_sound` + `isoform_profile_complete`; needs only order compatibility) -/
theorem set_profiles_marks_equal (features tf : List Iv) (hsub : tf.Sublist features) (hnd : features.Nodup) :
    markLoop (fun a b => equal_ranges a b 0) tf features false = features.map (fun k => decide (k ∈ tf)) :=
  markLoop_eq_spec tf features false (by simpa using hsub) hnd (by simp)

/-- declarative value of the sweep for the containment comparator (split-exon profile): a block is marked iff some
    transcript exon contains it -/
theorem set_profiles_marks_contains (features tf : List Iv) (hK : SD features) (wK : WFl features) (hT : SD tf)
    (hM : ∀ g ∈ tf, ∃ k ∈ features, contains g k = true) :
    markLoop (fun a b => contains a b) tf features false = features.map (fun k => tf.any (fun f => contains f k)) := by
  have wT : WFl tf := by
    intro g hg
    obtain ⟨k, hk, hgk⟩ := hM g hg
    have := wK k hk
    simp only [contains, Bool.and_eq_true, decide_eq_true_eq] at hgk; omega
  exact markLoop_contains_spec tf features false hK wK hT wT (by simpa using hM) (by simp)

/-- intron / exon profiles (`equal_ranges · · 0`): the transcript's features are a sub-list (same order) of the
    duplicate-free known features — as `sorted(set(…))` of all transcripts' features yields them; nested known features
    are allowed.  The profile of the mirrored call is the reversed profile, the range `(s, e)` becomes `(n − e, n − s)` -/
theorem mirror_dual_setProfiles_equal (L : Int) (features tf : List Iv) (region : Iv)
    (hsub : tf.Sublist features) (hnd : features.Nodup) :
    setProfiles (mirrorL L features) (mirrorL L tf) (mirrorIv L region) (fun a b => equal_ranges a b 0) =
      let r := setProfiles features tf region (fun a b => equal_ranges a b 0)
      (r.1.reverse, ((r.1.length : Int) - r.2.2, (r.1.length : Int) - r.2.1)) := by
  apply setProfiles_mirror_of_marks
  have hsub' : (mirrorL L tf).Sublist (mirrorL L features) := by
    simp only [mirrorL]; exact (hsub.map _).reverse
  have hnd' : (mirrorL L features).Nodup := by
    simp only [mirrorL, List.Nodup, List.pairwise_reverse, List.pairwise_map]
    exact hnd.imp (fun {a b} hab e => hab (mirrorIv_injective L b a e).symm)
  rw [set_profiles_marks_equal _ _ hsub' hnd', set_profiles_marks_equal _ _ hsub hnd]
  simp only [mirrorL, List.map_reverse, List.map_map]
  congr 2; funext k
  simp only [Function.comp]
  have := mem_mirrorL L k tf
  simp only [mirrorL] at this
  exact decide_eq_decide.mpr this

/-- split-exon profile (`contains`): known features = sorted disjoint blocks, transcript exons sorted disjoint, every
    exon holds at least one block (true of `split_exons` blocks by C19's `split_exons_spec`) -/
theorem mirror_dual_setProfiles_contains (L : Int) (features tf : List Iv) (region : Iv)
    (hK : SD features) (wK : WFl features) (hT : SD tf) (hM : ∀ g ∈ tf, ∃ k ∈ features, contains g k = true) :
    setProfiles (mirrorL L features) (mirrorL L tf) (mirrorIv L region) (fun a b => contains a b) =
      let r := setProfiles features tf region (fun a b => contains a b)
      (r.1.reverse, ((r.1.length : Int) - r.2.2, (r.1.length : Int) - r.2.1)) := by
  apply setProfiles_mirror_of_marks
  have hc : ∀ a b : Iv, contains (mirrorIv L a) (mirrorIv L b) = contains a b := by
    intro a b; simp only [contains, mirrorIv]; grind
  have hM' : ∀ g ∈ mirrorL L tf, ∃ k ∈ mirrorL L features, contains g k = true := by
    intro g hg
    obtain ⟨x, hx, rfl⟩ := (mem_mirrorL' L tf g).mp hg
    obtain ⟨k, hk, hxk⟩ := hM x hx
    exact ⟨mirrorIv L k, (mem_mirrorL L k features).mpr hk, by rw [hc]; exact hxk⟩
  rw [set_profiles_marks_contains _ _ (SD_mirror L features hK) (WFl_mirror L features wK) (SD_mirror L tf hT) hM',
    set_profiles_marks_contains _ _ hK wK hT hM]
  simp only [mirrorL, List.map_reverse, List.map_map, List.any_reverse, List.any_map]
  congr 2; funext k
  have e : ((fun f => contains f (mirrorIv L k)) ∘ mirrorIv L) = fun f => contains f k := by
    funext f; simp only [Function.comp, hc]
  simp only [Function.comp, e]

/-- the three isoform profiles the pipeline builds (`GeneInfo.set_junction_profiles`): introns and exons by equality,
    split exons by containment -/
theorem mirror_dual_isoform_profiles (L : Int) (introns tIntrons exons tExons blocks : List Iv) (region : Iv)
    (hi : tIntrons.Sublist introns) (ni : introns.Nodup) (he : tExons.Sublist exons) (ne : exons.Nodup)
    (hK : SD blocks) (wK : WFl blocks) (hT : SD tExons) (hM : ∀ g ∈ tExons, ∃ k ∈ blocks, contains g k = true) :
    (setProfiles (mirrorL L introns) (mirrorL L tIntrons) (mirrorIv L region) (fun a b => equal_ranges a b 0) =
      let r := setProfiles introns tIntrons region (fun a b => equal_ranges a b 0)
      (r.1.reverse, ((r.1.length : Int) - r.2.2, (r.1.length : Int) - r.2.1))) ∧
    (setProfiles (mirrorL L exons) (mirrorL L tExons) (mirrorIv L region) (fun a b => equal_ranges a b 0) =
      let r := setProfiles exons tExons region (fun a b => equal_ranges a b 0)
      (r.1.reverse, ((r.1.length : Int) - r.2.2, (r.1.length : Int) - r.2.1))) ∧
    (setProfiles (mirrorL L blocks) (mirrorL L tExons) (mirrorIv L region) (fun a b => contains a b) =
      let r := setProfiles blocks tExons region (fun a b => contains a b)
      (r.1.reverse, ((r.1.length : Int) - r.2.2, (r.1.length : Int) - r.2.1))) :=
  ⟨mirror_dual_setProfiles_equal L introns tIntrons region hi ni,
   mirror_dual_setProfiles_equal L exons tExons region he ne,
   mirror_dual_setProfiles_contains L blocks tExons region hK wK hT hM⟩

-- non-vacuity: nested known exons, a transcript using two of them; blocks of two exons
example : [((1 : Int), (2 : Int)), (4, 5)].Sublist [(1, 2), (1, 5), (4, 5), (7, 9)] ∧
    [((1 : Int), (2 : Int)), (1, 5), (4, 5), (7, 9)].Nodup ∧
    setProfiles (mirrorL 12 [(1, 2), (1, 5), (4, 5), (7, 9)]) (mirrorL 12 [(1, 2), (4, 5)]) (mirrorIv 12 (1, 5))
      (fun a b => equal_ranges a b 0) = ([-2, 1, -1, 1], (1, 4)) ∧
    setProfiles [(1, 2), (1, 5), (4, 5), (7, 9)] [(1, 2), (4, 5)] (1, 5) (fun a b => equal_ranges a b 0)
      = ([1, -1, 1, -2], (0, 3)) := by
  refine ⟨by decide, by decide, by decide +kernel, by decide +kernel⟩

example : SD [(1, 1), (2, 3), (4, 5), (8, 9)] ∧ SD [(2, 5), (8, 9)] ∧
    (∀ g ∈ [((2 : Int), (5 : Int)), (8, 9)], ∃ k ∈ [((1 : Int), (1 : Int)), (2, 3), (4, 5), (8, 9)], contains g k = true) ∧
    setProfiles (mirrorL 12 [(1, 1), (2, 3), (4, 5), (8, 9)]) (mirrorL 12 [(2, 5), (8, 9)]) (mirrorIv 12 (2, 9))
      (fun a b => contains a b) = ([1, 1, 1, -2], (0, 3)) := by
  refine ⟨by decide, by decide, by decide, by decide +kernel⟩

/-- the sub-list hypothesis is needed: a transcript feature that is not a known feature makes the sweep run to the
    end of the list, which hides the features behind it in one direction and those before it in the other -/
theorem set_profiles_mirror_missing_feature_witness :
    setProfiles (mirrorL 10 [(5, 6)]) (mirrorL 10 [(1, 2), (5, 6)]) (mirrorIv 10 (1, 6)) (fun a b => equal_ranges a b 0) ≠
      (let r := setProfiles [(5, 6)] [(1, 2), (5, 6)] (1, 6) (fun a b => equal_ranges a b 0)
       (r.1.reverse, ((r.1.length : Int) - r.2.2, (r.1.length : Int) - r.2.1))) := by
  decide +kernel

/-- duplicate-freeness is needed (for an unsorted feature list): the sweep marks the first copy only -/
theorem set_profiles_mirror_duplicate_witness :
    setProfiles (mirrorL 10 [(1, 2), (3, 4), (1, 2)]) (mirrorL 10 [(1, 2)]) (mirrorIv 10 (1, 2)) (fun a b => equal_ranges a b 0) ≠
      (let r := setProfiles [(1, 2), (3, 4), (1, 2)] [(1, 2)] (1, 2) (fun a b => equal_ranges a b 0)
       (r.1.reverse, ((r.1.length : Int) - r.2.2, (r.1.length : Int) - r.2.1))) := by
  decide +kernel

/-- containment comparator: an exon that holds no block hides the blocks of the later exons -/
theorem set_profiles_mirror_empty_exon_witness :
    setProfiles (mirrorL 10 [(5, 6)]) (mirrorL 10 [(1, 2), (5, 6)]) (mirrorIv 10 (1, 6)) (fun a b => contains a b) ≠
      (let r := setProfiles [(5, 6)] [(1, 2), (5, 6)] (1, 6) (fun a b => contains a b)
       (r.1.reverse, ((r.1.length : Int) - r.2.2, (r.1.length : Int) - r.2.1))) := by
  decide +kernel

end IsoVerif.Props.C11MirrorLists
