/-
C01 (converse clause, with the comparator modelled) — a read with an intron that no isoform intron equals within δ and
that falls in none of the comparator's tolerance classes gets at least one event of `all_major_events` from
`compare_junctions`, for every isoform; hence (with `classify_sound`) the assigner with the modelled comparator never
reports such a read with a consistent assignment type.

The tolerance classes are stated as ONE decidable predicate `tolerated` (below).  Its last disjunct,
`terminalMisalignmentClass`, is the known finding `terminal_exon_misalignment_far` (a terminal exon hundreds of bp away
is excused because its LENGTH is similar): the statement is false on that class (`far_consistent_modelled_witness`).
-/
import IsoVerif.Props.C01Compare
import IsoVerif.Props.C01Far
import IsoVerif.Lemmas.C01CmpFar
import IsoVerif.Lemmas.C01Keeps

namespace IsoVerif.Props.C01Converse
open IsoVerif.Gen IsoVerif.Model IsoVerif.Model.C01 IsoVerif.Lemmas IsoVerif.Lemmas.C01 IsoVerif.Lemmas.C01Cmp
open IsoVerif.Props.C01 IsoVerif.Props.C01Compare

/-! The comparator's tolerances — `suspiciousShort`, `shiftTolerated`, `missedExonTolerated`, `fakeTerminalTolerated`,
`terminalMisalignmentClass`, their disjunction `tolerated` — and the Boolean form `chainsWFb` of `ChainsWF` are defined in
Model/JunctionSpec.lean (decidable predicates on the inputs; the driver evaluates them for the oracle). -/

/-! ### (3) a far intron yields a major event -/

/-- **far_intron_major_event**: for intron chains as the pipeline produces them, if read intron `i` equals no isoform
    intron within δ and is not `tolerated`, `compare_junctions` emits at least one event of `all_major_events` -/
theorem far_intron_major_event (c : CmpCtx) (rj : List Iv) (rr : Iv) (ij : List Iv) (ir : Iv)
    (hwf : ChainsWF c.p.delta rj rr ij ir) (i : Nat) (r : Iv) (hr : rj[i]? = some r)
    (hfar : ∀ k ∈ ij, equal_ranges k r c.p.delta = false) (htol : tolerated c rj rr ij ir i r = false)
    (evs : List Event) (h : compareJunctions c rj rr ij ir = some evs) :
    ∃ e ∈ evs, e.ty.is_major_inconsistency = true := by
  have hil : i < rj.length := (List.getElem?_eq_some_iff.mp hr).1
  have hne : rj ≠ [] := by intro e; simp [e] at hil
  simp only [tolerated, Bool.or_eq_false_iff] at htol
  obtain ⟨⟨⟨⟨ht1, ht2⟩, ht3⟩, ht4⟩, ht5⟩ := htol
  obtain ⟨hlen, _, hpairs⟩ := sweep_wellformed c rj rr ij ir
  obtain ⟨ev1, ev2, hdet, hext, hsub, hevs⟩ := compareJunctions_unfold hne h
  -- it suffices to find the event in ev2
  have fin : (∃ e ∈ ev2, e.ty.is_major_inconsistency = true) → ∃ e ∈ evs, e.ty.is_major_inconsistency = true := by
    rintro ⟨e, he, hm⟩
    have : ev2.isEmpty = false := by cases ev2 with | nil => cases he | cons _ _ => rfl
    rw [hevs, this]
    exact ⟨e, he, hm⟩
  apply fin
  -- the value of read intron i
  have hv : (sweepOf c rj rr ij ir).readProf[i]? = some (-1) ∨ (sweepOf c rj rr ij ir).readProf[i]? = some 0 := by
    cases ij with
    | nil =>
      cases rj with
      | nil => exact absurd rfl hne
      | cons r0 rs =>
        have e : (sweepOf c (r0 :: rs) rr [] ir).readProf = (trailRead ir 0 (r0 :: rs) 0 0).1 := by
          unfold sweepOf; rw [sweep]
        have hl : i < (sweepOf c (r0 :: rs) rr [] ir).readProf.length := by rw [hlen]; exact hil
        have hv := trailRead_vals ir 0 (r0 :: rs) 0 0 _ (by rw [← e]; exact List.getElem_mem hl)
        rw [List.getElem?_eq_getElem hl]
        rcases hv with h | h | h
        · left; rw [h]
        · right; rw [h]
        · right; rw [h]
    | cons k0 ks0 =>
      obtain ⟨e1, _⟩ := presence_spec c rj rr (k0 :: ks0) ir hwf hne (by simp)
      rw [e1, List.getElem?_map, hr]
      simp only [Option.map_some, Option.some.injEq]
      have hm : matchedBy c.p.delta (k0 :: ks0) r = false := matchedBy_false hfar
      unfold specR
      rw [hm]
      by_cases ho : overlaps ir r = true
      · left; simp [ho]
      · right; simp [ho]
  rcases hv with hv | hv
  · -- marked −1: covered by a contradictory region pair
    have hneg : (hasNeg (sweepOf c rj rr ij ir).readProf || hasNeg (sweepOf c rj rr ij ir).isoProf) = true := by
      have : hasNeg (sweepOf c rj rr ij ir).readProf = true := by
        simp only [hasNeg, List.any_eq_true, beq_iff_eq]
        exact ⟨-1, List.mem_of_getElem? hv, rfl⟩
      simp [this]
    have hd := hdet hneg
    obtain ⟨_, hB⟩ := sweep_cover c.p.delta rr ir rj 0 0 ij 0 0 none (by intro a b c d h; cases h)
    rcases hB i hv with ⟨pr, hpr, hcov⟩ | ⟨_, h0⟩
    · have hok := hpairs pr hpr
      simp only [Nat.zero_add] at hcov
      cases pr with
      | retention a b => exact absurd hcov id
      | extra rp ip =>
        simp only [CoversRead] at hcov; subst hcov
        obtain ⟨e, he⟩ := classifyExtra_some c rr rj rp ip hok.1
        have hmem : e ∈ ev1 := detect_mem _ _ _ e hd hpr (by simp [classifyPair, he])
        refine ⟨e, hsub e hmem, ?_⟩
        rcases classifyExtra_cases he hr with hm | hs | ⟨h0, ex, hex, hlen'⟩ | ⟨h0, ex, hex, hlen'⟩
        · exact hm
        · simp [suspiciousShort, hs] at ht1
        · rw [getExon_zero_len hex] at hlen'
          simp [fakeTerminalTolerated, h0, hlen'] at ht4
        · rw [getExon_last_len (-1) (Or.inl rfl) (by omega) hex] at hlen'
          have : rp + 1 = rj.length := by omega
          simp [fakeTerminalTolerated, this, hlen'] at ht4
      | both r0 r1 i0 i1 =>
        simp only [CoversRead] at hcov
        obtain ⟨t, ht⟩ := classifyBothTy_some c rr rj ir ij r0 r1 i0 i1 hok.1 hok.2.1 hok.2.2.1 hok.2.2.2
        have hmem : mkEvent t ((i0 : Int), (i1 : Int)) ((r0 : Int), (r1 : Int)) ∈ ev1 :=
          detect_mem _ _ _ _ hd hpr (by simp [classifyPair, ht])
        refine ⟨_, hsub _ hmem, ?_⟩
        rcases classifyBothTy_cases ht with hm | hbt
        · exact hm
        · exfalso
          unfold BothTolerated at hbt
          obtain ⟨e10, hcase⟩ := hbt
          obtain ⟨hc1, hc2⟩ := hcov
          have hi0 : i = r0 := by omega
          subst hi0
          have hm0 : 0 < ij.length := by have := hok.2.2.2; omega
          rcases hcase with ⟨_, r', k, hr', hk, hsh, hdf⟩ | ⟨_, hn1, hterm⟩ | ⟨hlt, total, htot, hle⟩
          · rw [hr] at hr'; simp only [Option.some.injEq] at hr'; subst hr'
            have : shiftTolerated c ij r = true := by
              simp only [shiftTolerated, List.any_eq_true, Bool.and_eq_true, decide_eq_true_eq]
              exact ⟨k, List.mem_of_getElem? hk, hsh, hdf⟩
            rw [this] at ht2; cases ht2
          · have : terminalMisalignmentClass c rj rr ij ir i = true := by
              simp only [terminalMisalignmentClass, Bool.and_eq_true, Bool.or_eq_true, decide_eq_true_eq]
              refine ⟨hn1, ?_⟩
              rcases hterm with ⟨h0, _, a, b, ha, hb, hl⟩ | ⟨h0, _, a, b, ha, hb, hl⟩
              · left
                rw [getPrecedingExon_zero_len (by omega) ha, getPrecedingExon_zero_len hm0 hb] at hl
                exact ⟨h0, hl⟩
              · right
                rw [getFollowingExon_neg1_len (by omega) ha, getFollowingExon_neg1_len hm0 hb] at hl
                exact ⟨by omega, hl⟩
            rw [this] at ht5; cases ht5
          · obtain ⟨_, hfirst⟩ := skippedExonLen_first hwf.ksd hwf.kwf (i1 - i0) i0 total htot
            obtain ⟨a, b, ha, hb, hab⟩ := hfirst (by omega)
            have : missedExonTolerated c ij = true := by
              simp only [missedExonTolerated, List.any_eq_true, decide_eq_true_eq]
              refine ⟨(a, b), ?_, by simp only; omega⟩
              apply List.mem_of_getElem? (i := i0)
              rw [List.getElem?_zip_eq_some]
              exact ⟨ha, by rw [List.getElem?_tail]; exact hb⟩
            rw [this] at ht3; cases ht3
    · exact absurd h0 (by decide)
  · -- marked 0: in the leading / trailing run handled by add_extra_out_exon_events
    have hz := sweep_zero_struct c.p.delta rr ir rj ij hwf hne i hv
    have hcond : (sweepOf c rj rr ij ir).readProf.head? = some 0 ∨ (sweepOf c rj rr ij ir).readProf.getLast? = some 0 := by
      rcases hz with hz | hz
      · left; rw [List.head?_eq_getElem?]; exact hz 0 (by omega)
      · right
        rw [List.getLast?_eq_getElem?]
        exact hz _ (by have := hlen; unfold sweepOf at this; omega) (by have := hlen; unfold sweepOf at this; omega)
    obtain ⟨x, hx, rfl⟩ := hext hcond
    obtain ⟨e, he, hf⟩ := addExtraOut_complete hx i hv hz
    refine ⟨e, List.mem_append_right _ he, ?_⟩
    rcases hf with hf | hf | ⟨_, h0, ex, hex, hl⟩ | ⟨_, h0, ex, hex, hl⟩
    · rw [hf]; decide
    · rw [hf]; decide
    · exfalso
      rw [getExon_zero_len hex] at hl
      simp [fakeTerminalTolerated, h0, hl] at ht4
    · exfalso
      rw [hlen] at h0 hex
      rw [getExon_last_len _ (Or.inr rfl) (by omega) hex] at hl
      simp [fakeTerminalTolerated, h0, hl] at ht4

/-! ### the converse clause of C01 with the comparator modelled -/

theorem equal_ranges_symm (a b : Iv) (δ : Int) : equal_ranges a b δ = equal_ranges b a δ := by
  have h : ∀ x y : Int, iabs (x - y) = iabs (y - x) := by
    intro x y; unfold iabs; split <;> split <;> omega
  simp only [equal_ranges, h a.1 b.1, h a.2 b.2]

theorem comparator_types_not_elongation : ∀ t ∈ comparator_event_types, NotElongation t := by
  unfold NotElongation; decide

/-- **far_never_consistent** (no `_partial`): the assigner with the MODELLED comparator never reports a consistent
    assignment type (unique / unique_minor_difference / ambiguous) for a read that has an intron `r` which
    * equals no annotated intron of the gene within δ, and
    * is not `tolerated` w.r.t. any isoform of the gene (none of: suspicious-short intron, intron shift, missed short
      exon, fake terminal exon, and the known finding class `terminalMisalignmentClass`),
    the read's and every isoform's intron chain being as the pipeline produces them (`ChainsWF`).
    The excluded class is exact in the sense that the statement is FALSE on it: `far_consistent_modelled_witness`. -/
theorem far_never_consistent (ms : List Isoform) (p : Params) (q : CParams) (blocks : List Iv) (pa : PolyA) (g : Gene)
    (rp : ReadProf) (a : Assignment) (path : Path)
    (hg : Gene.fromModels ms = some g) (hrp : constructProfiles g p blocks pa = some rp)
    (i : Nat) (r : Iv) (hr : (junctionsFromBlocks blocks)[i]? = some r)
    (hfar : ∀ k ∈ g.introns, equal_ranges r k p.delta = false)
    (hall : ∀ I ∈ g.isos, ChainsWF p.delta (junctionsFromBlocks blocks) rp.region I.introns I.region ∧
      tolerated (cmpCtxOf g p q) (junctionsFromBlocks blocks) rp.region I.introns I.region i r = false)
    (h : assignToIsoformM g p q rp = some (a, path)) : a.ty.is_consistent = false := by
  cases hcons : a.ty.is_consistent with
  | false => rfl
  | true =>
    exfalso
    obtain ⟨_, _, hintr, _, _⟩ := C01Path.constructProfiles_spec g p blocks pa rp hrp
    obtain ⟨_, best, hne, _, hsel, hnomaj⟩ :=
      C01Far.far_never_consistent_partial p blocks pa (cjModel g p q rp) g rp a path hrp r (List.mem_of_getElem? hr) hfar h hcons
    cases best with
    | nil => exact hne rfl
    | cons Ie rest =>
      obtain ⟨_, ev0, el, hcj, _, _, hver⟩ := hsel Ie (by simp)
      -- the comparator events of the isoform the id resolves to
      unfold cjModel at hcj
      split at hcj
      · cases hcj
      · rename_i I' hfind
        have hI' : I' ∈ g.isos := List.mem_of_find?_eq_some hfind
        obtain ⟨hwf, htol⟩ := hall I' hI'
        rw [hintr] at hcj
        have hfar' : ∀ k ∈ I'.introns, equal_ranges k r (cmpCtxOf g p q).p.delta = false := by
          intro k hk
          obtain ⟨j, hj⟩ := intron_mem_gene ms g hg I' hI' k hk
          rw [equal_ranges_symm]
          exact hfar k (List.mem_of_getElem? hj)
        obtain ⟨e, he, hmaj⟩ := far_intron_major_event (cmpCtxOf g p q) (junctionsFromBlocks blocks) rp.region I'.introns
          I'.region hwf i r hr hfar' htol ev0 hcj
        have hok := (compare_events_wellformed _ _ _ _ _ _ hcj).2 e he
        have hne' := comparator_types_not_elongation e.ty hok.1
        have hmem : e ∈ Ie.2 := verifyReadEnds_has (List.mem_append_left _ he) hne' hver
        have := hnomaj Ie (by simp) e hmem
        rw [hmaj] at this; cases this

/-! ### the same with hypotheses on the annotation and the alignment only -/

theorem junction_between : ∀ (l : List Iv), ∀ k ∈ junctionsFromBlocks l, ∃ a ∈ l, ∃ b ∈ l, a.2 < k.1 ∧ k.2 < b.1 := by
  intro l
  induction l with
  | nil => intro k hk; simp [junctionsFromBlocks] at hk
  | cons a t ih =>
    cases t with
    | nil => intro k hk; simp [junctionsFromBlocks] at hk
    | cons b t' =>
      intro k hk
      simp only [junctionsFromBlocks] at hk
      have hrec : k ∈ junctionsFromBlocks (b :: t') → ∃ a' ∈ a :: b :: t', ∃ b' ∈ a :: b :: t', a'.2 < k.1 ∧ k.2 < b'.1 := by
        intro h
        obtain ⟨x, hx, y, hy, h1, h2⟩ := ih k h
        exact ⟨x, List.mem_cons_of_mem _ hx, y, List.mem_cons_of_mem _ hy, h1, h2⟩
      split at hk
      · rcases List.mem_cons.mp hk with rfl | hk
        · exact ⟨a, by simp, b, by simp, by show a.2 < a.2 + 1; omega, by show b.1 - 1 < b.1; omega⟩
        · exact hrec hk
      · exact hrec hk

theorem blocks_inside_region (l : List Iv) (reg : Iv) (hsd : SD l) (hwf : WFl l) (hreg : regionOf l = some reg) :
    ∀ x ∈ l, reg.1 ≤ x.1 ∧ x.2 ≤ reg.2 := by
  unfold regionOf at hreg
  split at hreg
  · rename_i f t hf ht
    simp only [Option.some.injEq] at hreg; subst hreg
    intro x hx
    obtain ⟨j, hj⟩ := List.mem_iff_getElem?.mp hx
    have hjl : j < l.length := (List.getElem?_eq_some_iff.mp hj).1
    rw [List.head?_eq_getElem?] at hf
    rw [List.getLast?_eq_getElem?] at ht
    have hxw := hwf x hx
    constructor
    · by_cases e : j = 0
      · subst e; rw [hf] at hj; simp only [Option.some.injEq] at hj; subst hj; exact Int.le_refl _
      · have := SD_lt l hsd hwf 0 j f x (by omega) hf hj
        have := hwf f (List.mem_of_getElem? hf)
        show f.1 ≤ x.1
        omega
    · by_cases e : j = l.length - 1
      · subst e; rw [ht] at hj; simp only [Option.some.injEq] at hj; subst hj; exact Int.le_refl _
      · have := SD_lt l hsd hwf j (l.length - 1) x t (by omega) hj ht
        have := hwf t (List.mem_of_getElem? ht)
        show x.2 ≤ t.2
        omega
  · cases hreg

theorem junctions_chain (l : List Iv) (reg : Iv) (hsd : SD l) (hwf : WFl l) (hreg : regionOf l = some reg) :
    SD (junctionsFromBlocks l) ∧ ∀ k ∈ junctionsFromBlocks l, reg.1 ≤ k.1 ∧ k.2 ≤ reg.2 := by
  refine ⟨(junctions_SD_WFl l hsd hwf).1, ?_⟩
  intro k hk
  obtain ⟨a, ha, b, hb, h1, h2⟩ := junction_between l k hk
  have := blocks_inside_region l reg hsd hwf hreg a ha
  have := blocks_inside_region l reg hsd hwf hreg b hb
  have := hwf a ha
  have := hwf b hb
  omega

/-- **far_never_consistent_wf**: `far_never_consistent` with the well-formedness stated on the annotation and the alignment
    (sorted, disjoint, well-formed exon / block lists; δ ≥ 0; every read and annotated intron longer than 2δ): the read has
    an intron that equals no annotated intron within δ and is `tolerated` w.r.t. no isoform ⇒ the assignment type is not
    consistent. -/
theorem far_never_consistent_wf (ms : List Isoform) (p : Params) (q : CParams) (blocks : List Iv) (pa : PolyA) (g : Gene)
    (rp : ReadProf) (a : Assignment) (path : Path)
    (hg : Gene.fromModels ms = some g) (hrp : constructProfiles g p blocks pa = some rp)
    (hwf : WellFormed ms) (hsd : SD blocks) (hwfl : WFl blocks) (hδ : 0 ≤ p.delta)
    (hlongR : ∀ r ∈ junctionsFromBlocks blocks, 2 * p.delta ≤ r.2 - r.1)
    (hlongI : ∀ m ∈ ms, ∀ k ∈ junctionsFromBlocks m.exons, 2 * p.delta ≤ k.2 - k.1)
    (i : Nat) (r : Iv) (hr : (junctionsFromBlocks blocks)[i]? = some r)
    (hfar : ∀ k ∈ g.introns, equal_ranges r k p.delta = false)
    (htol : ∀ I ∈ g.isos, tolerated (cmpCtxOf g p q) (junctionsFromBlocks blocks) rp.region I.introns I.region i r = false)
    (h : assignToIsoformM g p q rp = some (a, path)) : a.ty.is_consistent = false := by
  obtain ⟨_, hreg, _, _, _⟩ := C01Path.constructProfiles_spec g p blocks pa rp hrp
  obtain ⟨hrsd, hrin⟩ := junctions_chain blocks rp.region hsd hwfl hreg
  obtain ⟨_, _, hisos⟩ := fromModels_spec ms g hg
  apply far_never_consistent ms p q blocks pa g rp a path hg hrp i r hr hfar _ h
  intro I hI
  refine ⟨?_, htol I hI⟩
  obtain ⟨m, hm, hio⟩ := hisos I hI
  obtain ⟨hmsd, hmwf⟩ := hwf m hm
  obtain ⟨hisd, hiin⟩ := junctions_chain m.exons I.region hmsd hmwf hio.region
  rw [hio.introns]
  exact ⟨hδ, hrsd, hisd, hlongR, hlongI m hm, hrin, hiin⟩

/-! ### `ChainsWF` is decidable; concrete instances (non-vacuity), witnesses -/

theorem chainsWFb_sound (δ : Int) (rj : List Iv) (rr : Iv) (ij : List Iv) (ir : Iv)
    (h : chainsWFb δ rj rr ij ir = true) : ChainsWF δ rj rr ij ir := by
  simp only [chainsWFb, Bool.and_eq_true, decide_eq_true_eq, List.all_eq_true] at h
  obtain ⟨⟨⟨⟨⟨⟨h1, h2⟩, h3⟩, h4⟩, h5⟩, h6⟩, h7⟩ := h
  exact ⟨h1, h2, h3, h4, h5, h6, h7⟩

def exP : Params :=
  { delta := 6, minor_exon_extension := 50, major_exon_extension := 300, min_abs_exon_overlap := 10, apa_delta := 50,
    minimal_exon_overlap := 5, minimal_intron_absence_overlap := 20, max_fake_terminal_exon_len := 40,
    max_missed_exon_len := 100, resolve_ambiguous := .monoexon_and_fsm }

/-- the comparator parameters of the `default` preset -/
def exQ : CParams :=
  { max_intron_shift := 60, micro_intron_length := 50, max_intron_abs_diff := 30, max_intron_rel_diff_num := 1,
    max_intron_rel_diff_den := 5, min_rel_exon_overlap_num := 1, min_rel_exon_overlap_den := 5,
    max_suspicious_intron_abs_len := 60, max_suspicious_intron_rel_len_num := 1, max_suspicious_intron_rel_len_den := 1 }

def exCtx : CmpCtx := { p := exP, q := exQ, known := [(201, 299), (201, 499), (401, 499)], geneRegion := (100, 600) }

def evView (r : Option (List Event)) : Option (List (MatchEventSubtype × (Int × Int) × (Int × Int))) :=
  r.map (fun l => l.map (fun e => (e.ty, e.isoRegion, e.readRegion)))

/-- a read that follows the isoform within δ: no contradiction -/
example : evView (compareJunctions exCtx [(203, 296), (401, 499)] (120, 580) [(201, 299), (401, 499)] (100, 600))
    = some [(.none, undefRegion, undefRegion)] := by decide +kernel
/-- a skipped exon: one major event over isoform introns 0..1 and read intron 0 -/
example : evView (compareJunctions exCtx [(201, 499)] (120, 580) [(201, 299), (401, 499)] (100, 600))
    = some [(.exon_skipping_known, (0, 1), (0, 0))] := by decide +kernel
/-- a retained intron -/
example : evView (compareJunctions exCtx [(201, 299)] (120, 580) [(201, 299), (401, 499)] (100, 600))
    = some [(.intron_retention, (1, 1), (absentPos, 1))] := by decide +kernel
/-- the hypotheses of `no_contradiction_iff` / `far_intron_major_event` are met by these inputs -/
example : ChainsWF exP.delta [(201, 499)] (120, 580) [(201, 299), (401, 499)] (100, 600) :=
  chainsWFb_sound _ _ _ _ _ (by decide +kernel)
/-- … and the read intron (201, 499) is far from both isoform introns and not tolerated: `far_intron_major_event` applies -/
example : (∀ k ∈ [((201 : Int), (299 : Int)), (401, 499)], equal_ranges k (201, 499) exP.delta = false) ∧
    tolerated exCtx [(201, 499)] (120, 580) [(201, 299), (401, 499)] (100, 600) 0 (201, 499) = false := by
  decide +kernel

def viewA (r : Option (Assignment × Path)) : Option (ReadAssignmentType × List (Option Nat) × Path) :=
  r.map (fun r => (r.1.ty, r.1.isoMatches.map (·.iso), r.2))

/-- end to end with the modelled comparator: the skipped-exon read is inconsistent; a read following isoform 0 is unique -/
example : viewA (assignReadM [⟨[(100, 200), (300, 400), (500, 600)], .plus⟩] exP exQ [(120, 200), (500, 580)]
    ⟨-1, -1, -1, -1⟩) = some (.inconsistent, [some 0], .inconsistent) := by decide +kernel
example : viewA (assignReadM [⟨[(100, 200), (300, 400), (500, 600)], .plus⟩, ⟨[(100, 200), (500, 600)], .plus⟩] exP exQ
    [(120, 203), (297, 400), (500, 580)] ⟨-1, -1, -1, -1⟩) = some (.unique, [some 0], .consistent) := by decide +kernel

/-- **far_consistent_modelled_witness** (known finding `terminal_exon_misalignment_far`, now WITHOUT feeding the comparator's
    answer): isoform (1000-1200, 2000-2200, 3000-3300), read (1000-1200, 2000-2200, 3900-4205).  The read's second intron
    (2201, 3899) equals no isoform intron within δ (it is 900 bp longer), the chains are well formed, none of the
    tolerances (a)–(d) applies — only `terminalMisalignmentClass` does — and the assigner with the modelled comparator
    reports `unique_minor_difference`: `far_never_consistent` is false without the exclusion of class (e). -/
theorem far_consistent_modelled_witness :
    viewA (assignReadM [⟨[(1000, 1200), (2000, 2200), (3000, 3300)], .plus⟩] exP exQ
      [(1000, 1200), (2000, 2200), (3900, 4205)] ⟨-1, -1, -1, -1⟩)
      = some (.unique_minor_difference, [some 0], .inconsistent) ∧
    chainsWFb exP.delta [(1201, 1999), (2201, 3899)] (1000, 4205) [(1201, 1999), (2201, 2999)] (1000, 3300) = true ∧
    (∀ k ∈ [((1201 : Int), (1999 : Int)), (2201, 2999)], equal_ranges k (2201, 3899) exP.delta = false) ∧
    suspiciousShort exCtx (2201, 3899) = false ∧ shiftTolerated exCtx [(1201, 1999), (2201, 2999)] (2201, 3899) = false ∧
    missedExonTolerated exCtx [(1201, 1999), (2201, 2999)] = false ∧
    fakeTerminalTolerated exCtx [(1201, 1999), (2201, 3899)] (1000, 4205) 1 = false ∧
    terminalMisalignmentClass exCtx [(1201, 1999), (2201, 3899)] (1000, 4205) [(1201, 1999), (2201, 2999)] (1000, 3300) 1
      = true := by
  decide +kernel

end IsoVerif.Props.C01Converse
