/-
C11 — translation equivariance of the splice-site reads (Model/Canonical.lean, property C18's model of
`get_intron_strand`, `common.get_strand`, the `Canonical` flag computation): the functions cut two dinucleotides out of a
reference string at `intron − region_start`.

  * region start shifted with the intron (`gene_info.all_read_region_start`, the reference region is re-cut from the shifted
    chromosome): nothing changes, for ALL inputs (`shift_equivariant_siteRaw` and its consequences);
  * the literal statement of C11 — k bases INSERTED at the start of the chromosome (`pad ++ chr`, start 1 kept): the sites
    of the shifted intron in the padded chromosome are the sites of the intron, for introns inside the chromosome
    (`insert_bases_siteRaw`); for an intron hanging over the start Python's negative slice indices wrap, and the
    statement is false (`insert_bases_wrap_witness`).
(The reflection of these functions is in Props/C11Canonical.lean.)
-/
import IsoVerif.Model.Canonical
import IsoVerif.Model.C11Symmetry

namespace IsoVerif.Props.C11Sites
open IsoVerif.Gen IsoVerif.Model IsoVerif.Model.C11 IsoVerif.Model.C18

theorem shift_equivariant_siteRaw (k : Int) (s : Seq) (start : Int) (it : Iv) :
    siteRaw s (start + k) (shiftIv k it) = siteRaw s start it := by
  simp only [siteRaw, shiftIv]
  have e1 : it.1 + k - (start + k) = it.1 - start := by omega
  have e2 : it.2 + k - (start + k) = it.2 - start := by omega
  rw [e1, e2]

theorem shift_equivariant_getIntronStrand (k : Int) (it : Iv) (s : Seq) (start : Int) :
    getIntronStrand (shiftIv k it) s (start + k) = getIntronStrand it s start := by
  simp only [getIntronStrand, shift_equivariant_siteRaw]

theorem shift_equivariant_commonGetStrand (k : Int) (introns : List Iv) (s : Seq) (start : Int) :
    commonGetStrand (shiftL k introns) s (start + k) = commonGetStrand introns s start := by
  have aux : ∀ (l : List Iv) (f r : Nat),
      commonCountLoop s (start + k) (shiftL k l) f r = commonCountLoop s start l f r := by
    intro l
    induction l with
    | nil => intro f r; rfl
    | cons it rest ih =>
      intro f r
      simp only [shiftL, List.map_cons, commonCountLoop, shift_equivariant_siteRaw] at ih ⊢
      exact ih _ _
  simp only [commonGetStrand, aux]
  simp [shiftL]

/-- the `Canonical` flag of an intron: the gene's reference region starts k later, the intron lies k later -/
theorem shift_equivariant_canonCompute (k : Int) (g : GeneRef) (it : Iv) (st : Strand) :
    canonCompute { g with start := g.start + k } (shiftIv k it) st = canonCompute g it st := by
  simp only [canonCompute, shift_equivariant_siteRaw]

/-- Python slice of a string with a prefix inserted, for non-negative bounds -/
theorem pySlice_pad {α} (pad s : List α) (a b : Int) (ha : 0 ≤ a) (hb : 0 ≤ b) :
    pySlice (pad ++ s) (a + pad.length) (b + pad.length) = pySlice s a b := by
  simp only [pySlice, List.length_append]
  have h1 : ¬ (a + (pad.length : Int) < 0) := by omega
  have h2 : ¬ (b + (pad.length : Int) < 0) := by omega
  have h3 : ¬ (a < 0) := by omega
  have h4 : ¬ (b < 0) := by omega
  simp only [h1, h2, h3, h4, if_false]
  have e1 : (min (a + (pad.length : Int)) ((pad.length + s.length : Nat) : Int)).toNat = pad.length + (min a (s.length : Int)).toNat := by
    omega
  have e2 : (min (b + (pad.length : Int)) ((pad.length + s.length : Nat) : Int)).toNat = pad.length + (min b (s.length : Int)).toNat := by
    omega
  rw [e1, e2]
  have e3 : pad.length + (min b (s.length : Int)).toNat - (pad.length + (min a (s.length : Int)).toNat) =
      (min b (s.length : Int)).toNat - (min a (s.length : Int)).toNat := by omega
  rw [e3, List.drop_append]
  have e4 : List.drop (pad.length + (min a (s.length : Int)).toNat) pad = [] := List.drop_of_length_le (by omega)
  rw [e4]
  simp

/-- **insert_bases_siteRaw** — k = |pad| bases inserted at the start of the chromosome, intron moved by k: the same two
    dinucleotides are read, for every intron that starts at or after `start` and whose end is beyond `start` -/
theorem insert_bases_siteRaw (pad s : Seq) (start : Int) (it : Iv) (h1 : start ≤ it.1) (h2 : start + 1 ≤ it.2) :
    siteRaw (pad ++ s) start (shiftIv (pad.length : Int) it) = siteRaw s start it := by
  simp only [siteRaw, shiftIv]
  have e1 : it.1 + (pad.length : Int) - start = (it.1 - start) + (pad.length : Int) := by omega
  have e2 : it.1 + (pad.length : Int) - start + 2 = (it.1 - start + 2) + (pad.length : Int) := by omega
  have e3 : it.2 + (pad.length : Int) - start - 1 = (it.2 - start - 1) + (pad.length : Int) := by omega
  have e4 : it.2 + (pad.length : Int) - start + 1 = (it.2 - start + 1) + (pad.length : Int) := by omega
  rw [e2, e1, e3, e4, pySlice_pad pad s _ _ (by omega) (by omega), pySlice_pad pad s _ _ (by omega) (by omega)]

theorem insert_bases_getIntronStrand (pad s : Seq) (it : Iv) (h1 : 1 ≤ it.1) (h2 : 2 ≤ it.2) :
    getIntronStrand (shiftIv (pad.length : Int) it) (pad ++ s) 1 = getIntronStrand it s 1 := by
  simp only [getIntronStrand, insert_bases_siteRaw pad s 1 it h1 (by omega)]

/-- non-vacuity: a GT–AG intron at 3..8 of `CCGTAAAGCC`, 3 bases inserted -/
example : getIntronStrand (3, 8) "CCGTAAAGCC".toList 1 = .plus ∧
    getIntronStrand (shiftIv 3 (3, 8)) ("NNN".toList ++ "CCGTAAAGCC".toList) 1 = .plus := by decide

/-- **insert_bases_wrap_witness** — the hypothesis is needed: an "intron" starting before position 1 makes the slice
    index negative, which Python wraps to the END of the string; after inserting bases the index is non-negative -/
theorem insert_bases_wrap_witness :
    siteRaw "CCCCAGCGTC".toList 1 (-2, 6) = ("GT".toList, "AG".toList) ∧
    siteRaw ("NNN".toList ++ "CCCCAGCGTC".toList) 1 (shiftIv 3 (-2, 6)) = ("NN".toList, "AG".toList) := by decide

end IsoVerif.Props.C11Sites
