/-
C11 — the mirrored code pairs of src/polya_verification.py (Model/C11Polya.lean):

  count_polya_exons ↔ count_polyt_exons   and   shift_polya ↔ shift_polyt   are each other's mirror image
  (exon list reversed and mirrored, position mirrored, result position mirrored), and each of the four is
  translation equivariant — for ALL exon lists (sorted or not), ALL counts, ALL `k`, `L : Int`.

The only hypothesis is about the sentinel −1 ("no polyA/polyT found"): a real position must not be mapped onto it.
-/
import IsoVerif.Model.C11Polya
import IsoVerif.Lemmas.C11Polya

namespace IsoVerif.Props.C11Polya
open IsoVerif.Gen IsoVerif.Model IsoVerif.Model.C11 IsoVerif.Lemmas IsoVerif.Lemmas.C11

/-! ## section: Model/C11Polya.lean -/

theorem mirror_dual_countPolyaExons (L mf : Int) (exons : List Iv) (pos : Int) (h : pos ≠ -1 → L + 1 - pos ≠ -1) :
    countPolytExons mf (mirrorL L exons) (mirrorPos L pos) = countPolyaExons mf exons pos := by
  simp only [countPolytExons, countPolyaExons, mirrorPos]
  by_cases c : pos = -1
  · simp [c]
  · simp only [c, if_false, h c, mirrorL_eq_map_reverse, countPolytLoop_mirror]

theorem mirror_dual_countPolytExons (L mf : Int) (exons : List Iv) (pos : Int) (h : pos ≠ -1 → L + 1 - pos ≠ -1) :
    countPolyaExons mf (mirrorL L exons) (mirrorPos L pos) = countPolytExons mf exons pos := by
  simp only [countPolytExons, countPolyaExons, mirrorPos]
  by_cases c : pos = -1
  · simp [c]
  · simp only [c, if_false, h c, mirrorL_reverse, countPolyaLoop_mirror]

theorem mirror_dual_shiftPolya (L : Int) (exons : List Iv) (cnt : Nat) (pos : Int) (hp : pos ≠ -1) (h : L + 1 - pos ≠ -1) :
    shiftPolyt (mirrorL L exons) cnt (L + 1 - pos) = (shiftPolya exons cnt pos).map (mirrorP L) := by
  simp only [shiftPolyt, shiftPolya, mirrorL_length, hp, h, or_false]
  by_cases c : cnt = 0 ∨ cnt = exons.length
  · simp [c, mirrorP]
  · simp only [c, if_false]
    rw [mirrorL_eq_map_reverse, ← List.map_take, shiftPolytLoop_mirror]
    simp only [List.getElem?_map]
    cases exons.reverse[cnt]? <;> simp [mirrorP, mirrorIv]; omega

theorem mirror_dual_shiftPolyt (L : Int) (exons : List Iv) (cnt : Nat) (pos : Int) (hp : pos ≠ -1) (h : L + 1 - pos ≠ -1) :
    shiftPolya (mirrorL L exons) cnt (L + 1 - pos) = (shiftPolyt exons cnt pos).map (mirrorP L) := by
  simp only [shiftPolyt, shiftPolya, mirrorL_length, hp, h, or_false]
  by_cases c : cnt = 0 ∨ cnt = exons.length
  · simp [c, mirrorP]
  · simp only [c, if_false]
    rw [mirrorL_reverse, ← List.map_take, shiftPolyaLoop_mirror]
    simp only [List.getElem?_map]
    cases exons[cnt]? <;> simp [mirrorP, mirrorIv]; omega

theorem shift_equivariant_countPolyExons (k mf : Int) (exons : List Iv) (pos : Int) (h : pos ≠ -1 → pos + k ≠ -1) :
    countPolyaExons mf (shiftL k exons) (shiftPos k pos) = countPolyaExons mf exons pos ∧
    countPolytExons mf (shiftL k exons) (shiftPos k pos) = countPolytExons mf exons pos := by
  simp only [countPolytExons, countPolyaExons, shiftPos]
  by_cases c : pos = -1
  · simp [c]
  · simp only [c, if_false, h c, ← shiftL_reverse, countPolyaLoop_shift, countPolytLoop_shift, and_self]

theorem shift_equivariant_shiftPolya (k : Int) (exons : List Iv) (cnt : Nat) (pos : Int) (hp : pos ≠ -1) (h : pos + k ≠ -1) :
    shiftPolya (shiftL k exons) cnt (pos + k) = (shiftPolya exons cnt pos).map (· + k) ∧
    shiftPolyt (shiftL k exons) cnt (pos + k) = (shiftPolyt exons cnt pos).map (· + k) := by
  simp only [shiftPolyt, shiftPolya, shiftL_length, hp, h, or_false]
  by_cases c : cnt = 0 ∨ cnt = exons.length
  · simp [c]
  · simp only [c, if_false, ← shiftL_reverse, ← shiftL_take, shiftPolyaLoop_shift, shiftPolytLoop_shift, shiftL_getElem?]
    constructor
    · cases exons.reverse[cnt]? <;> simp; omega
    · cases exons[cnt]? <;> simp; omega

/-- the sentinel is kept by both members of each pair (nothing to shift or mirror) -/
theorem polya_sentinel_fixed (mf : Int) (exons : List Iv) (cnt : Nat) :
    countPolyaExons mf exons (-1) = 0 ∧ countPolytExons mf exons (-1) = 0 ∧
    shiftPolya exons cnt (-1) = some (-1) ∧ shiftPolyt exons cnt (-1) = some (-1) := by
  simp [countPolyaExons, countPolytExons, shiftPolya, shiftPolyt]

-- non-vacuity: a read whose last exon is mostly polyA: one fake exon, the site moves to the previous exon
example : countPolyaExons 40 [(100, 200), (300, 330)] 305 = 1 ∧ shiftPolya [(100, 200), (300, 330)] 1 305 = some 205 ∧
    countPolytExons 40 (mirrorL 1000 [(100, 200), (300, 330)]) (mirrorPos 1000 305) = 1 ∧
    shiftPolyt (mirrorL 1000 [(100, 200), (300, 330)]) 1 (1000 + 1 - 305) = some (mirrorP 1000 205) := by decide

end IsoVerif.Props.C11Polya
