/-
C19 — the LOOP functions of src/common.py as *regenerated from the source on every run* (`Gen/Loops.lean`, written by
`harness/translate.py`: a syntax-directed translation of the Python loops — `for` = structural recursion, `while` =
recursion on an emitted fuel bound, `IndexError` / `assert` / `ZeroDivisionError` = `none`).

For every translated function: a REFINEMENT theorem `Gen.f args = Model.f args` for ALL inputs (no sortedness, no
well-formedness, empty lists and error cases included), so that every C19 theorem about the hand model
(`Model/Interval.lean`) transfers; then the headline theorems restated directly over `Gen.f`.  One file per group of
functions (a re-opened proof takes down only its group):

  Props/C19GenSums.lean       intervals_total_length, sum_intervals_to/from_point, extra_exon_percentage
  Props/C19GenJunctions.lean  junctions_from_blocks, get_exons (math.inf = arbitrary integer), get_exon, get_preceding/following_exon
  Props/C19GenSweeps.lean     read_coverage_fraction, jaccard_similarity, merge_ranges
  Props/C19GenBinSearch.lean  interval_bin_search, interval_bin_search_rev
  Props/C19GenTruncate.lean   truncate_read_to_polya
  (Props/C16Gen.lean          get_read_blocks, concat_gapless_blocks — property C16)
-/
import IsoVerif.Props.C19GenSums
import IsoVerif.Props.C19GenJunctions
import IsoVerif.Props.C19GenSweeps
import IsoVerif.Props.C19GenBinSearch
import IsoVerif.Props.C19GenTruncate
