/-
C16 (part 9) — characterisation of the polyA finder of /repo/src/polya_finder.py.

`PolyAFinder.find_polya` (window scan):
* `find_polya_char`: for EVERY window length `w` (0 included), count `c` and base list — the answer is `p` iff `p` is
  the start `i` of the LEAST window `[i, i+w)` that ends strictly before the end of the sequence and holds ≥ `c` 'A',
  advanced to the least position ≥ `i` where an "AA" starts (`p = i` when there is none); the answer is −1 iff no such
  window exists.  Soundness, minimality and completeness in one `↔`.
* `find_polya_eq_spec`: the same as one equation with the brute-force specification `findPolyaSpec` (every window
  start tested on its own) — the function the driver evaluates against the real code.
* `find_polya_short`, `find_polya_in_range`, `find_polya_inside_window`: the error-free corner cases made explicit
  (sequence not longer than the window ⇒ −1; the answer is an index of the sequence; when `c > (w+1)/2` — the
  defaults 12 of 16 — the reported "AA" lies inside the first dense window).
* `is_a_flag_iff` / `is_t_flag_iff`: the base test after `.upper()` accepts exactly `A a` (`T t`): lower case counts,
  `N` and everything else does not.

`find_polya_tail` / `find_polyt_head`:
* `region_a_spec` / `region_t_spec`: which read bases are scanned — the last `from_pos` bases before the soft-clipped
  tail plus the first `to_pos + 1` clipped bases (head: `to_pos` clipped bases plus the first `from_pos + 1` aligned
  ones, read backwards) — and which read base a scan index stands for;
* `tail_scan_char`: the query-level scan as a relation (`TailStart`), `↔`;
* `find_polya_tail_char` / `find_polyt_head_char`: the reported reference position, `↔`, errors included;
* `find_polya_tail_found_iff`, `find_polya_tail_raises_iff` (+ head): found ⇔ specification, raise ⇔ explicit causes;
* `find_polya_tail_eq_spec` / `find_polyt_head_eq_spec`: model = executable specification.
-/
import IsoVerif.Model.FinderChar
import IsoVerif.Lemmas.FinderChar
import IsoVerif.Props.C16FinderSpec

namespace IsoVerif.Props.C16FinderChar
open IsoVerif.Gen IsoVerif.Model IsoVerif.Model.C16 IsoVerif.Lemmas.C16

/-! ### `find_polya` -/

/-- **find_polya_eq_spec** — the modelled loop (running count, sliding by one base) returns what the brute-force
    specification returns, for every window length (0 included), every count and every sequence -/
theorem find_polya_eq_spec (w c : Nat) (seq : List Bool) : findPolya w c seq = findPolyaSpec w c seq :=
  findPolya_eq_spec w c seq

/-- **find_polya_char** — soundness, minimality and completeness of the window scan, no bound on anything:
    `find_polya` answers `p` ⇔ `PolyAStart w c seq p` (the first dense window that ends strictly before the end of the
    sequence, advanced to the first "AA" at or after its start); it answers −1 ⇔ no window that ends strictly before
    the end of the sequence holds `c` 'A'. -/
theorem find_polya_char (w c : Nat) (seq : List Bool) :
    (∀ p, findPolya w c seq = some p ↔ PolyAStart w c seq p) ∧
    (findPolya w c seq = none ↔ ∀ j, j + w < seq.length → winCount seq j w < c) := by
  have h := findPolyaSpec_sound w c seq
  rw [← findPolya_eq_spec] at h
  constructor
  · intro p
    constructor
    · intro hp; rw [hp] at h; exact h
    · intro hp
      cases hf : findPolya w c seq with
      | none =>
        rw [hf] at h
        obtain ⟨i, hi, _⟩ := hp
        have := h i hi.1
        have := hi.2.1
        omega
      | some p' =>
        rw [hf] at h
        rw [PolyAStart_unique hp h]
  · constructor
    · intro hn; rw [hn] at h; exact h
    · intro hall
      cases hf : findPolya w c seq with
      | none => rfl
      | some p' =>
        rw [hf] at h
        obtain ⟨i, hi, _⟩ := h
        have := hall i hi.1
        have := hi.2.1
        omega

/-- non-vacuity: `CCCC A^20`, window 16, count 12: first dense window at 0, first "AA" at 4 -/
example : PolyAStart 16 12 ([false, false, false, false] ++ List.replicate 20 true) 4 :=
  (find_polya_char 16 12 _).1 4 |>.1 (by decide)

/-- non-vacuity of the −1 clause, and the excluded last window: 16 A's alone are answered −1, one more base of any
    kind makes the window acceptable -/
example : findPolya 16 12 (List.replicate 16 true) = none ∧
    findPolya 16 12 (List.replicate 16 true ++ [false]) = some 0 := by decide

/-- **find_polya_short** — a sequence that is not longer than the window is answered −1 (shorter: the explicit test
    of the code; exactly as long: the only window ends at the end of the sequence) -/
theorem find_polya_short (w c : Nat) (seq : List Bool) (h : seq.length ≤ w) : findPolya w c seq = none :=
  (find_polya_char w c seq).2.2 (fun j hj => by omega)

/-- **find_polya_in_range** — an answer is an index of the sequence, and for `w ≥ 1` not its last index -/
theorem find_polya_in_range (w c : Nat) (seq : List Bool) (p : Nat) (h : findPolya w c seq = some p) :
    p < seq.length ∧ (1 ≤ w → p + 1 < seq.length) :=
  PolyAStart_lt ((find_polya_char w c seq).1 p |>.1 h)

/-- **find_polya_inside_window** — when the count threshold exceeds half of the window (`w + 2 ≤ 2c`; defaults
    16 and 12) the reported position lies inside the first dense window and an "AA" starts there: the advance to the
    first "AA" never leaves the window that triggered the detection -/
theorem find_polya_inside_window (w c : Nat) (seq : List Bool) (p : Nat) (hc : w + 2 ≤ 2 * c)
    (h : findPolya w c seq = some p) :
    ∃ i, FirstWindow seq w c i ∧ i ≤ p ∧ p + 2 ≤ i + w ∧ AAat seq p := by
  obtain ⟨i, hi, hp⟩ := (find_polya_char w c seq).1 p |>.1 h
  obtain ⟨k, k1, k2, k3⟩ := aa_in_window seq w c i hi hc
  rcases hp with ⟨a1, a2, a3⟩ | ⟨_, a2⟩
  · refine ⟨i, hi, a1, ?_, a2⟩
    by_cases hle : p ≤ k
    · omega
    · exact absurd k3 (a3 k k1 (by omega))
  · exact absurd k3 (a2 k k1)

example : (16 : Nat) + 2 ≤ 2 * 12 := by decide

/-- **default_finder_reports_inside_window** — the hypothesis of `find_polya_inside_window` for the constants GENERATED
    from /repo (`PolyAFinder` defaults = the values `isoquant.py` passes; Gen/CigarClasses.lean, re-extracted each
    run): with the shipped window and fraction every reported position lies inside the first dense window and starts
    an "AA".  A change of the defaults in the source re-opens this obligation. -/
theorem default_finder_reports_inside_window (seq : List Bool) (p : Nat)
    (h : findPolya polya_window (polya_window * polya_fraction_num / polya_fraction_den) seq = some p) :
    ∃ i, FirstWindow seq polya_window (polya_window * polya_fraction_num / polya_fraction_den) i ∧ i ≤ p ∧
      p + 2 ≤ i + polya_window ∧ AAat seq p :=
  find_polya_inside_window _ _ seq p (by decide) h

/-- the hypothesis is needed: with `c ≤ (w+1)/2` a dense window need not hold an "AA" and the answer may lie far
    behind it (`ACAC CCCC AA C`, window 4, count 2: window 0 is dense, the first "AA" starts at 8) -/
example : findPolya 4 2 [true, false, true, false, false, false, false, false, true, true, false] = some 8 := by decide

/-- **is_a_flag_iff** — after `.upper()` exactly `A` and `a` count as 'A' (`N`, `n` and every other character do not) -/
theorem is_a_flag_iff (ch : Char) : (upperChar ch == 'A') = true ↔ ch = 'A' ∨ ch = 'a' := by
  unfold upperChar
  constructor
  · intro h
    have h' : ch.toUpper = 'A' := by simpa using h
    unfold Char.toUpper at h'
    split at h'
    · rename_i hl
      right
      apply Char.ext
      have h2 := congrArg (fun x => x.val.toNat) h'
      obtain ⟨l1, l2⟩ := hl
      rw [UInt32.le_iff_toNat_le] at l1 l2
      apply UInt32.toNat_inj.1
      simp [UInt32.toNat_add] at h2 l1 l2 ⊢
      omega
    · left; exact h'
  · rintro (rfl | rfl) <;> decide

/-- **is_t_flag_iff** — the polyT head: exactly `T` and `t` (reverse complement maps them, and nothing else, to `A a`) -/
theorem is_t_flag_iff (ch : Char) : (upperChar ch == 'T') = true ↔ ch = 'T' ∨ ch = 't' := by
  unfold upperChar
  constructor
  · intro h
    have h' : ch.toUpper = 'T' := by simpa using h
    unfold Char.toUpper at h'
    split at h'
    · rename_i hl
      right
      apply Char.ext
      have h2 := congrArg (fun x => x.val.toNat) h'
      obtain ⟨l1, l2⟩ := hl
      rw [UInt32.le_iff_toNat_le] at l1 l2
      apply UInt32.toNat_inj.1
      simp [UInt32.toNat_add] at h2 l1 l2 ⊢
      omega
    · left; exact h'
  · rintro (rfl | rfl) <;> decide

/-! ### which read bases the two finders scan -/

/-- **region_a_spec** — `find_polya_tail` scans the read bases `[to_check_start, to_check_end)`: scan index `j` stands
    for the read base `to_check_start + j` (an 'A' iff that base is `A`/`a`); for a soft clip `0 ≤ clip ≤ len` and
    `from_pos, to_pos ≥ 0` these are the last `min(from_pos, len − clip)` bases before the soft-clipped tail (aligned
    or inserted) followed by its first `min(to_pos + 1, clip)` bases -/
theorem region_a_spec (cigar : List CigarOp) (seq : List Char) (fromPos toPos : Int) :
    (∀ j, (regionA cigar seq fromPos toPos)[j]? =
      if (startA cigar seq fromPos).toNat + j < (stopA cigar seq toPos).toNat
      then (seq[(startA cigar seq fromPos).toNat + j]?).map (fun ch => upperChar ch == 'A') else none) ∧
    (0 ≤ softClipTail cigar → softClipTail cigar ≤ seq.length → 0 ≤ fromPos → 0 ≤ toPos →
      ((regionA cigar seq fromPos toPos).length : Int) =
        min fromPos ((seq.length : Int) - softClipTail cigar) + min (toPos + 1) (softClipTail cigar)) := by
  constructor
  · intro j
    unfold regionA startA stopA
    rw [List.getElem?_map, slice_getElem?]
    split <;> simp
  · intro h1 h2 h3 h4
    unfold regionA
    rw [List.length_map, slice_length _ _ _ (by omega)]
    omega

/-- **region_t_spec** — `find_polyt_head` scans the read bases `[to_check_start, to_check_end)` backwards: scan index
    `j` stands for the read base `to_check_end − 1 − j` (set iff that base is `T`/`t`); these are the last
    `min(to_pos, clip)` bases of the soft-clipped head and the first `min(from_pos + 1, len − clip)` bases after it —
    one clipped base less and one aligned base more than the mirror image of `find_polya_tail`'s region -/
theorem region_t_spec (cigar : List CigarOp) (seq : List Char) (fromPos toPos : Int) :
    (∀ j, (regionT cigar seq fromPos toPos)[j]? =
      if j < (stopT cigar seq fromPos).toNat - (startT cigar toPos).toNat
      then (seq[(stopT cigar seq fromPos).toNat - 1 - j]?).map (fun ch => upperChar ch == 'T') else none) ∧
    (0 ≤ softClipHead cigar → softClipHead cigar ≤ seq.length → 0 ≤ fromPos → 0 ≤ toPos →
      ((regionT cigar seq fromPos toPos).length : Int) =
        min toPos (softClipHead cigar) + min (fromPos + 1) ((seq.length : Int) - softClipHead cigar)) := by
  have hlen : (slice seq (max 0 (softClipHead cigar - toPos))
      (min (seq.length : Int) (softClipHead cigar + fromPos + 1))).length =
      (min (seq.length : Int) (softClipHead cigar + fromPos + 1)).toNat - (max 0 (softClipHead cigar - toPos)).toNat :=
    slice_length _ _ _ (by omega)
  constructor
  · intro j
    unfold regionT stopT startT
    rw [List.getElem?_map]
    by_cases hj : j < (min (seq.length : Int) (softClipHead cigar + fromPos + 1)).toNat -
        (max 0 (softClipHead cigar - toPos)).toNat
    · rw [List.getElem?_reverse (by rw [hlen]; exact hj), hlen, slice_getElem?, if_pos hj]
      have h1 : (max 0 (softClipHead cigar - toPos)).toNat +
          ((min (seq.length : Int) (softClipHead cigar + fromPos + 1)).toNat -
            (max 0 (softClipHead cigar - toPos)).toNat - 1 - j) =
          (min (seq.length : Int) (softClipHead cigar + fromPos + 1)).toNat - 1 - j := by omega
      rw [h1, if_pos (by omega)]
    · rw [if_neg hj, List.getElem?_eq_none (by rw [List.length_reverse, hlen]; omega)]
      rfl
  · intro h1 h2 h3 h4
    unfold regionT
    rw [List.length_map, List.length_reverse, hlen]
    omega

/-- non-vacuity (defaults, external finder `from 2, to 32`; internal `from 64, to 2`) on a 100-base read with a
    20-base soft-clipped tail: 2 + 20 resp. 64 + 3 scanned bases; head (20-base clip): 20 + 3 resp. 2 + 65 -/
example :
    let cig : List CigarOp := [(.«match», 80), (.soft_clipping, 20)]
    let gic : List CigarOp := [(.soft_clipping, 20), (.«match», 80)]
    let seq := List.replicate 100 'C'
    (regionA cig seq 2 32).length = 22 ∧ (regionA cig seq 64 2).length = 67 ∧
    (regionT gic seq 2 32).length = 23 ∧ (regionT gic seq 64 2).length = 67 := by decide

/-! ### the query-level scan as a relation -/

/-- **tail_scan_char** — the scan shared by both finders answers `p` ⇔ `TailStart … p` (`find_polya`'s answer, and
    with `check_entire_tail` the rest of the checked sequence from `p` on holds the fraction `num/den` of 'A');
    it answers −1 ⇔ no position satisfies `TailStart` -/
theorem tail_scan_char (w num den : Nat) (chk : Bool) (region : List Bool) :
    (∀ p, tailScan w num den chk region = some p ↔ TailStart w num den chk region p) ∧
    (tailScan w num den chk region = none ↔ ∀ p, ¬ TailStart w num den chk region p) := by
  have h := tailScanSpec_sound w num den chk region
  rw [← tailScan_eq_spec] at h
  constructor
  · intro p
    constructor
    · intro hp; rw [hp] at h; exact h
    · intro hp
      cases hf : tailScan w num den chk region with
      | none => rw [hf] at h; exact absurd hp (h p)
      | some p' => rw [hf] at h; rw [TailStart_unique hp h]
  · constructor
    · intro hn; rw [hn] at h; exact h
    · intro hall
      cases hf : tailScan w num den chk region with
      | none => rfl
      | some p' => rw [hf] at h; exact absurd h (hall p')

/-- non-vacuity: the fraction test at the threshold — window 4, fraction 3/4, tail `AAAC AAAC C` from position 0:
    6 A's of 9 bases, 6·4 = 24 < 27 = 9·3 ⇒ rejected; one base shorter (6 of 8, 24 ≥ 24) ⇒ accepted -/
example :
    tailScan 4 3 4 true [true, true, true, false, true, true, true, false, false] = none ∧
    tailScan 4 3 4 true [true, true, true, false, true, true, true, false] = some 0 ∧
    tailScan 4 3 4 false [true, true, true, false, true, true, true, false, false] = some 0 := by decide

/-! ### model = executable specification -/

/-- **find_polya_tail_eq_spec** — on every record whose CIGAR lengths are ≥ 0 the modelled `find_polya_tail` equals
    the specification (brute-force scan + base-by-base projection); this is the function the driver evaluates against
    the real code under the op `find_polya_tail_spec` -/
theorem find_polya_tail_eq_spec (w num den : Nat) (s : Int) (cigar : List CigarOp) (seq : List Char)
    (fromPos toPos : Int) (chk : Bool) (hnn : NonNeg cigar) :
    findPolyaTail w num den s cigar seq fromPos toPos chk = findPolyaTailSpec w num den s cigar seq fromPos toPos chk := by
  by_cases hne : cigar = []
  · simp [findPolyaTail, findPolyaTailSpec, hne]
  by_cases hseq : seq = []
  · simp [findPolyaTail, findPolyaTailSpec, hne, hseq]
  by_cases hclip : softClipTail cigar < seq.length
  · rw [findPolyaTail_unfold w num den s cigar seq fromPos toPos chk hne hseq hclip, tailScan_eq_spec]
    unfold findPolyaTailSpec
    have hc' : ¬ ((seq.length : Int) ≤ softClipTail cigar) := by omega
    simp only [hne, hseq, hc', if_false]
    cases tailScanSpec w num den chk (regionA cigar seq fromPos toPos) with
    | none => rfl
    | some p =>
      simp only
      split
      · rfl
      · rw [IsoVerif.Props.C16MoveRef.move_ref_coord_eq_spec cigar _ hnn]
  · have hc' : (seq.length : Int) ≤ softClipTail cigar := by omega
    simp [findPolyaTail, findPolyaTailSpec, hne, hseq, hclip, hc']

/-- **find_polyt_head_eq_spec** -/
theorem find_polyt_head_eq_spec (w num den : Nat) (s : Int) (cigar : List CigarOp) (seq : List Char)
    (fromPos toPos : Int) (chk : Bool) (hnn : NonNeg cigar) :
    findPolytHead w num den s cigar seq fromPos toPos chk = findPolytHeadSpec w num den s cigar seq fromPos toPos chk := by
  by_cases hne : cigar = []
  · simp [findPolytHead, findPolytHeadSpec, hne]
  by_cases hseq : seq = []
  · simp [findPolytHead, findPolytHeadSpec, hne, hseq]
  by_cases hclip : softClipHead cigar < seq.length
  · rw [findPolytHead_unfold w num den s cigar seq fromPos toPos chk hne hseq hclip, tailScan_eq_spec]
    unfold findPolytHeadSpec
    have hc' : ¬ ((seq.length : Int) ≤ softClipHead cigar) := by omega
    simp only [hne, hseq, hc', if_false]
    cases tailScanSpec w num den chk (regionT cigar seq fromPos toPos) with
    | none => rfl
    | some p =>
      simp only
      split
      · rfl
      · rw [IsoVerif.Props.C16MoveRef.move_ref_coord_eq_spec cigar _ hnn]
  · have hc' : (seq.length : Int) ≤ softClipHead cigar := by omega
    simp [findPolytHead, findPolytHeadSpec, hne, hseq, hclip, hc']

example : NonNeg [(CigarEvent.«match», (30 : Int)), (.soft_clipping, 20)] := by
  intro o ho; simp at ho; rcases ho with h | h <;> subst h <;> decide

/-! ### the reported reference position, as a relation -/

/-- **find_polya_tail_char** — complete characterisation of `find_polya_tail` on a record that passes the guards
    (non-empty CIGAR with lengths ≥ 0, non-empty sequence longer than the soft-clipped tail), for every window, fraction,
    `from_pos`, `to_pos`, `check_entire_tail`: the call returns `r` ⇔
    * no position of the checked sequence satisfies `TailStart` and `r = −1`; or
    * `p` is the (unique) position with `TailStart`, `q = to_check_start + p` the read index of the first tail base, and
      - `q` lies in the soft clip: `r = reference_end + (q − mapped end)`;
      - `q` lies before it: no `P` operation is met on the way, and `r = reference_end − k` with `k` the base-by-base
        projection (backward walk) of the base `mapped end − q` bases inside the alignment.
    (So the call raises ⇔ the second case holds with a `P` on the way: `find_polya_tail_raises_iff`.) -/
theorem find_polya_tail_char (w num den : Nat) (s : Int) (cigar : List CigarOp) (seq : List Char)
    (fromPos toPos : Int) (chk : Bool) (hne : cigar ≠ []) (hseq : seq ≠ [])
    (hclip : softClipTail cigar < seq.length) (hnn : NonNeg cigar) (r : Int) :
    findPolyaTail w num den s cigar seq fromPos toPos chk = some r ↔
      ((∀ p, ¬ TailStart w num den chk (regionA cigar seq fromPos toPos) p) ∧ r = -1) ∨
      (∃ p, TailStart w num den chk (regionA cigar seq fromPos toPos) p ∧
        (((seq.length : Int) - softClipTail cigar ≤ startA cigar seq fromPos + p ∧
            r = referenceEnd s cigar + (startA cigar seq fromPos + p - ((seq.length : Int) - softClipTail cigar))) ∨
         (startA cigar seq fromPos + p < (seq.length : Int) - softClipTail cigar ∧
            padReached (walkCore cigar false)
              ((seq.length : Int) - softClipTail cigar - (startA cigar seq fromPos + p)).toNat = false ∧
            ∃ k, ProjectsTo (expand (walkCore cigar false))
                ((seq.length : Int) - softClipTail cigar - (startA cigar seq fromPos + p)).toNat k ∧
              r = referenceEnd s cigar - k))) := by
  rw [findPolyaTail_unfold w num den s cigar seq fromPos toPos chk hne hseq hclip]
  obtain ⟨hsome, hnone⟩ := tail_scan_char w num den chk (regionA cigar seq fromPos toPos)
  cases hts : tailScan w num den chk (regionA cigar seq fromPos toPos) with
  | none =>
    have hno := hnone.1 hts
    simp only [Option.some.injEq]
    constructor
    · intro h; exact Or.inl ⟨hno, h.symm⟩
    · rintro (⟨_, h⟩ | ⟨p, hp, _⟩)
      · exact h.symm
      · exact absurd hp (hno p)
  | some p =>
    have hp := (hsome p).1 hts
    simp only
    by_cases hge : (seq.length : Int) - softClipTail cigar ≤ startA cigar seq fromPos + p
    · rw [if_pos hge]
      simp only [Option.some.injEq]
      constructor
      · intro h; exact Or.inr ⟨p, hp, Or.inl ⟨hge, h.symm⟩⟩
      · rintro (⟨hno, _⟩ | ⟨p', hp', hcase⟩)
        · exact absurd hp (hno p)
        · have := TailStart_unique hp' hp
          subst this
          rcases hcase with ⟨_, h⟩ | ⟨hlt, _⟩
          · exact h.symm
          · omega
    · rw [if_neg hge]
      have hsh : startA cigar seq fromPos + p - ((seq.length : Int) - softClipTail cigar) ≠ 0 := by omega
      have hdec : decide (startA cigar seq fromPos + p - ((seq.length : Int) - softClipTail cigar) > 0) = false := by
        simp; omega
      have hnat : (startA cigar seq fromPos + p - ((seq.length : Int) - softClipTail cigar)).natAbs =
          ((seq.length : Int) - softClipTail cigar - (startA cigar seq fromPos + p)).toNat := by omega
      have key : ∀ k, moveRefCoord cigar (startA cigar seq fromPos + p - ((seq.length : Int) - softClipTail cigar)) = some k ↔
          padReached (walkCore cigar false)
            ((seq.length : Int) - softClipTail cigar - (startA cigar seq fromPos + p)).toNat = false ∧
          ProjectsTo (expand (walkCore cigar false))
            ((seq.length : Int) - softClipTail cigar - (startA cigar seq fromPos + p)).toNat k := by
        intro k
        have := moveRefCoord_some_iff cigar _ k hnn hsh hne
        rw [hdec, hnat] at this
        exact this
      constructor
      · intro h
        cases hm : moveRefCoord cigar (startA cigar seq fromPos + p - ((seq.length : Int) - softClipTail cigar)) with
        | none => rw [hm] at h; cases h
        | some k =>
          rw [hm] at h
          simp only [Option.map_some, Option.some.injEq] at h
          obtain ⟨k1, k2⟩ := (key k).1 hm
          exact Or.inr ⟨p, hp, Or.inr ⟨by omega, k1, k, k2, h.symm⟩⟩
      · rintro (⟨hno, _⟩ | ⟨p', hp', hcase⟩)
        · exact absurd hp (hno p)
        · have := TailStart_unique hp' hp
          subst this
          rcases hcase with ⟨h, _⟩ | ⟨_, k1, k, k2, hr⟩
          · omega
          · rw [(key k).2 ⟨k1, k2⟩, hr]; rfl

/-- **find_polyt_head_char** — mirror statement: the call returns `r` ⇔ nothing satisfies `TailStart` on the reversed
    region and `r = −1`; or `p` does, `q = to_check_end − 1 − p` is the read index of the last head base, and
    `r = max 1 (reference_start − (clip − q))` when `q` lies in the soft-clipped head or on the first base after it,
    `r = max 1 (reference_start + k)` with `k` the forward projection of the base `q − clip` bases inside otherwise -/
theorem find_polyt_head_char (w num den : Nat) (s : Int) (cigar : List CigarOp) (seq : List Char)
    (fromPos toPos : Int) (chk : Bool) (hne : cigar ≠ []) (hseq : seq ≠ [])
    (hclip : softClipHead cigar < seq.length) (hnn : NonNeg cigar) (r : Int) :
    findPolytHead w num den s cigar seq fromPos toPos chk = some r ↔
      ((∀ p, ¬ TailStart w num den chk (regionT cigar seq fromPos toPos) p) ∧ r = -1) ∨
      (∃ p, TailStart w num den chk (regionT cigar seq fromPos toPos) p ∧
        ((stopT cigar seq fromPos - p - 1 ≤ softClipHead cigar ∧
            r = max 1 (s - (softClipHead cigar - (stopT cigar seq fromPos - p - 1)))) ∨
         (softClipHead cigar < stopT cigar seq fromPos - p - 1 ∧
            padReached (walkCore cigar true) (stopT cigar seq fromPos - p - 1 - softClipHead cigar).toNat = false ∧
            ∃ k, ProjectsTo (expand (walkCore cigar true)) (stopT cigar seq fromPos - p - 1 - softClipHead cigar).toNat k ∧
              r = max 1 (s + k)))) := by
  rw [findPolytHead_unfold w num den s cigar seq fromPos toPos chk hne hseq hclip]
  obtain ⟨hsome, hnone⟩ := tail_scan_char w num den chk (regionT cigar seq fromPos toPos)
  cases hts : tailScan w num den chk (regionT cigar seq fromPos toPos) with
  | none =>
    have hno := hnone.1 hts
    simp only [Option.some.injEq]
    constructor
    · intro h; exact Or.inl ⟨hno, h.symm⟩
    · rintro (⟨_, h⟩ | ⟨p, hp, _⟩)
      · exact h.symm
      · exact absurd hp (hno p)
  | some p =>
    have hp := (hsome p).1 hts
    simp only
    by_cases hle : stopT cigar seq fromPos - p - 1 ≤ softClipHead cigar
    · rw [if_pos hle]
      simp only [Option.some.injEq]
      constructor
      · intro h; exact Or.inr ⟨p, hp, Or.inl ⟨hle, h.symm⟩⟩
      · rintro (⟨hno, _⟩ | ⟨p', hp', hcase⟩)
        · exact absurd hp (hno p)
        · have := TailStart_unique hp' hp
          subst this
          rcases hcase with ⟨_, h⟩ | ⟨hlt, _⟩
          · exact h.symm
          · omega
    · rw [if_neg hle]
      have hsh : stopT cigar seq fromPos - p - 1 - softClipHead cigar ≠ 0 := by omega
      have hdec : decide (stopT cigar seq fromPos - p - 1 - softClipHead cigar > 0) = true := by
        simp; omega
      have hnat : (stopT cigar seq fromPos - p - 1 - softClipHead cigar).natAbs =
          (stopT cigar seq fromPos - p - 1 - softClipHead cigar).toNat := by omega
      have key : ∀ k, moveRefCoord cigar (stopT cigar seq fromPos - p - 1 - softClipHead cigar) = some k ↔
          padReached (walkCore cigar true) (stopT cigar seq fromPos - p - 1 - softClipHead cigar).toNat = false ∧
          ProjectsTo (expand (walkCore cigar true)) (stopT cigar seq fromPos - p - 1 - softClipHead cigar).toNat k := by
        intro k
        have := moveRefCoord_some_iff cigar _ k hnn hsh hne
        rw [hdec, hnat] at this
        exact this
      constructor
      · intro h
        cases hm : moveRefCoord cigar (stopT cigar seq fromPos - p - 1 - softClipHead cigar) with
        | none => rw [hm] at h; cases h
        | some k =>
          rw [hm] at h
          simp only [Option.map_some, Option.some.injEq] at h
          obtain ⟨k1, k2⟩ := (key k).1 hm
          exact Or.inr ⟨p, hp, Or.inr ⟨by omega, k1, k, k2, h.symm⟩⟩
      · rintro (⟨hno, _⟩ | ⟨p', hp', hcase⟩)
        · exact absurd hp (hno p)
        · have := TailStart_unique hp' hp
          subst this
          rcases hcase with ⟨h, _⟩ | ⟨_, k1, k, k2, hr⟩
          · omega
          · rw [(key k).2 ⟨k1, k2⟩, hr]; rfl

/-- non-vacuity of both characterisations: the record passes the guards and a tail / head is found (defaults) -/
example :
    let cig : List CigarOp := [(.«match», 30), (.soft_clipping, 20)]
    let gic : List CigarOp := [(.soft_clipping, 20), (.«match», 30)]
    cig ≠ [] ∧ softClipTail cig < ((List.replicate 30 'C' ++ List.replicate 20 'A').length : Int) ∧
    tailScan 16 3 4 false (regionA cig (List.replicate 30 'C' ++ List.replicate 20 'A') 2 32) = some 2 ∧
    tailScan 16 3 4 false (regionT gic (List.replicate 24 'T' ++ List.replicate 26 'C') 2 32) = some 0 ∧
    findPolytHead 16 3 4 1000 gic (List.replicate 24 'T' ++ List.replicate 26 'C') 2 32 false = some 1002 := by decide

/-! ### found ⇔ specification; raise ⇔ explicit causes -/

/-- **find_polya_tail_found_iff** — on a record that passes the guards, with `reference_start ≥ 0`: the answer is −1
    exactly when the specification has no tail start; hence "a position was reported" ⇔ `∃ p, TailStart … p`
    (a reported position is ≥ `reference_start + 1 ≥ 1` and cannot be confused with −1) -/
theorem find_polya_tail_found_iff (w num den : Nat) (hw : 1 ≤ w) (s : Int) (cigar : List CigarOp) (seq : List Char)
    (fromPos toPos : Int) (chk : Bool) (hs : 0 ≤ s) (hne : cigar ≠ []) (hseq : seq ≠ [])
    (hclip : softClipTail cigar < seq.length) (hnn : NonNeg cigar) :
    findPolyaTail w num den s cigar seq fromPos toPos chk = some (-1) ↔
      ∀ p, ¬ TailStart w num den chk (regionA cigar seq fromPos toPos) p := by
  obtain ⟨hsome, hnone⟩ := tail_scan_char w num den chk (regionA cigar seq fromPos toPos)
  constructor
  · intro h
    cases hts : tailScan w num den chk (regionA cigar seq fromPos toPos) with
    | none => exact hnone.1 hts
    | some p =>
      have := C16FinderSpec.polya_position_in_range w num den hw s cigar seq fromPos toPos chk hne hseq hclip hnn p hts
        (-1) h
      omega
  · intro h
    rw [findPolyaTail_unfold w num den s cigar seq fromPos toPos chk hne hseq hclip, hnone.2 h]

/-- **find_polyt_head_found_iff** — the same for the head (no hypothesis on `reference_start`: the answer is clamped at 1) -/
theorem find_polyt_head_found_iff (w num den : Nat) (hw : 1 ≤ w) (s : Int) (cigar : List CigarOp) (seq : List Char)
    (fromPos toPos : Int) (chk : Bool) (hne : cigar ≠ []) (hseq : seq ≠ [])
    (hclip : softClipHead cigar < seq.length) (hnn : NonNeg cigar) :
    findPolytHead w num den s cigar seq fromPos toPos chk = some (-1) ↔
      ∀ p, ¬ TailStart w num den chk (regionT cigar seq fromPos toPos) p := by
  obtain ⟨hsome, hnone⟩ := tail_scan_char w num den chk (regionT cigar seq fromPos toPos)
  constructor
  · intro h
    cases hts : tailScan w num den chk (regionT cigar seq fromPos toPos) with
    | none => exact hnone.1 hts
    | some p =>
      have := C16FinderSpec.polyt_position_in_range w num den hw s cigar seq fromPos toPos chk hne hseq hclip hnn p hts
        (-1) h
      omega
  · intro h
    rw [findPolytHead_unfold w num den s cigar seq fromPos toPos chk hne hseq hclip, hnone.2 h]

/-- **find_polya_tail_raises_iff** — every way the call can raise, for every record with CIGAR lengths ≥ 0:
    the CIGAR is empty (`IndexError`/`TypeError` on `cigartuples`), or the sequence is non-empty but not longer than
    the soft-clipped tail (`AssertionError`), or the tail starts inside the aligned part and the backward walk meets a
    `P` operation before reaching its base (`TypeError` of the "Unexpected event" branch) -/
theorem find_polya_tail_raises_iff (w num den : Nat) (s : Int) (cigar : List CigarOp) (seq : List Char)
    (fromPos toPos : Int) (chk : Bool) (hnn : NonNeg cigar) :
    findPolyaTail w num den s cigar seq fromPos toPos chk = none ↔
      cigar = [] ∨ (seq ≠ [] ∧ (seq.length : Int) ≤ softClipTail cigar) ∨
      (cigar ≠ [] ∧ seq ≠ [] ∧ softClipTail cigar < seq.length ∧
        ∃ p, TailStart w num den chk (regionA cigar seq fromPos toPos) p ∧
          startA cigar seq fromPos + p < (seq.length : Int) - softClipTail cigar ∧
          padReached (walkCore cigar false)
            ((seq.length : Int) - softClipTail cigar - (startA cigar seq fromPos + p)).toNat = true) := by
  by_cases hne : cigar = []
  · simp [findPolyaTail, hne]
  by_cases hseq : seq = []
  · simp [findPolyaTail, hne, hseq]
  by_cases hclip : softClipTail cigar < seq.length
  · have hc' : ¬ ((seq.length : Int) ≤ softClipTail cigar) := by omega
    simp only [hne, hseq, hc', hclip, false_or, and_false, ne_eq, not_false_eq_true, true_and]
    rw [findPolyaTail_unfold w num den s cigar seq fromPos toPos chk hne hseq hclip]
    obtain ⟨hsome, hnone⟩ := tail_scan_char w num den chk (regionA cigar seq fromPos toPos)
    cases hts : tailScan w num den chk (regionA cigar seq fromPos toPos) with
    | none =>
      have hno := hnone.1 hts
      simp only [reduceCtorEq, false_iff]
      rintro ⟨p, hp, _⟩
      exact hno p hp
    | some p =>
      have hp := (hsome p).1 hts
      simp only
      by_cases hge : (seq.length : Int) - softClipTail cigar ≤ startA cigar seq fromPos + p
      · rw [if_pos hge]
        simp only [reduceCtorEq, false_iff]
        rintro ⟨p', hp', hlt, _⟩
        have := TailStart_unique hp' hp
        subst this
        omega
      · rw [if_neg hge]
        have hsh : startA cigar seq fromPos + p - ((seq.length : Int) - softClipTail cigar) ≠ 0 := by omega
        have hdec : decide (startA cigar seq fromPos + p - ((seq.length : Int) - softClipTail cigar) > 0) = false := by
          simp; omega
        have hnat : (startA cigar seq fromPos + p - ((seq.length : Int) - softClipTail cigar)).natAbs =
            ((seq.length : Int) - softClipTail cigar - (startA cigar seq fromPos + p)).toNat := by omega
        have key := moveRefCoord_none_iff cigar _ hnn hsh hne
        rw [hdec, hnat] at key
        rw [Option.map_eq_none_iff, key]
        constructor
        · intro h; exact ⟨p, hp, by omega, h⟩
        · rintro ⟨p', hp', _, h⟩
          have := TailStart_unique hp' hp
          subst this
          exact h
  · have hc' : (seq.length : Int) ≤ softClipTail cigar := by omega
    simp [findPolyaTail, hne, hseq, hclip, hc']

/-- non-vacuity of the third cause: 14 C + 36 A, 20 of them soft-clipped, internal finder: the tail starts 16 bases
    inside the alignment, the backward walk needs 17 query bases; with `20M` after the `P` it does not reach it
    (position 114 = 130 − 16), with only `10M` after the `P` it does and the call raises -/
example :
    findPolyaTail 16 3 4 100 [(.«match», 10), (.padding, 2), (.«match», 20), (.soft_clipping, 20)]
      (List.replicate 14 'C' ++ List.replicate 36 'A') 64 2 true = some 114 ∧
    findPolyaTail 16 3 4 100 [(.«match», 20), (.padding, 2), (.«match», 10), (.soft_clipping, 20)]
      (List.replicate 14 'C' ++ List.replicate 36 'A') 64 2 true = none := by decide

/-- **find_polyt_head_raises_iff** — the same for the head: empty CIGAR, sequence not longer than the soft-clipped head,
    or the head ends inside the aligned part and the forward walk meets a `P` before reaching its last base -/
theorem find_polyt_head_raises_iff (w num den : Nat) (s : Int) (cigar : List CigarOp) (seq : List Char)
    (fromPos toPos : Int) (chk : Bool) (hnn : NonNeg cigar) :
    findPolytHead w num den s cigar seq fromPos toPos chk = none ↔
      cigar = [] ∨ (seq ≠ [] ∧ (seq.length : Int) ≤ softClipHead cigar) ∨
      (cigar ≠ [] ∧ seq ≠ [] ∧ softClipHead cigar < seq.length ∧
        ∃ p, TailStart w num den chk (regionT cigar seq fromPos toPos) p ∧
          softClipHead cigar < stopT cigar seq fromPos - p - 1 ∧
          padReached (walkCore cigar true) (stopT cigar seq fromPos - p - 1 - softClipHead cigar).toNat = true) := by
  by_cases hne : cigar = []
  · simp [findPolytHead, hne]
  by_cases hseq : seq = []
  · simp [findPolytHead, hne, hseq]
  by_cases hclip : softClipHead cigar < seq.length
  · have hc' : ¬ ((seq.length : Int) ≤ softClipHead cigar) := by omega
    simp only [hne, hseq, hc', hclip, false_or, and_false, ne_eq, not_false_eq_true, true_and]
    rw [findPolytHead_unfold w num den s cigar seq fromPos toPos chk hne hseq hclip]
    obtain ⟨hsome, hnone⟩ := tail_scan_char w num den chk (regionT cigar seq fromPos toPos)
    cases hts : tailScan w num den chk (regionT cigar seq fromPos toPos) with
    | none =>
      have hno := hnone.1 hts
      simp only [reduceCtorEq, false_iff]
      rintro ⟨p, hp, _⟩
      exact hno p hp
    | some p =>
      have hp := (hsome p).1 hts
      simp only
      by_cases hle : stopT cigar seq fromPos - p - 1 ≤ softClipHead cigar
      · rw [if_pos hle]
        simp only [reduceCtorEq, false_iff]
        rintro ⟨p', hp', hlt, _⟩
        have := TailStart_unique hp' hp
        subst this
        omega
      · rw [if_neg hle]
        have hsh : stopT cigar seq fromPos - p - 1 - softClipHead cigar ≠ 0 := by omega
        have hdec : decide (stopT cigar seq fromPos - p - 1 - softClipHead cigar > 0) = true := by
          simp; omega
        have hnat : (stopT cigar seq fromPos - p - 1 - softClipHead cigar).natAbs =
            (stopT cigar seq fromPos - p - 1 - softClipHead cigar).toNat := by omega
        have key := moveRefCoord_none_iff cigar _ hnn hsh hne
        rw [hdec, hnat] at key
        rw [Option.map_eq_none_iff, key]
        constructor
        · intro h; exact ⟨p, hp, by omega, h⟩
        · rintro ⟨p', hp', _, h⟩
          have := TailStart_unique hp' hp
          subst this
          exact h
  · have hc' : (seq.length : Int) ≤ softClipHead cigar := by omega
    simp [findPolytHead, hne, hseq, hclip, hc']

end IsoVerif.Props.C16FinderChar
