/-
C04 (part 1) — the intron graph never invents an intron.
Property theorems only; helper lemmas live in IsoVerif/Lemmas/IntronGraph.lean.
Model: IsoVerif/Model/IntronGraph.lean (IntronCollector, IntronGraph as operations, thread_introns).
-/
import IsoVerif.Model.IntronGraph
import IsoVerif.Lemmas.IntronGraph

namespace IsoVerif.Props.C04Graph
open IsoVerif.Gen IsoVerif.Model IsoVerif.Model.C04 IsoVerif.Lemmas.C04

/-- `v` is an intron of the corrected alignment of some non-multimapper read -/
def Observed (reads : List Read) (v : Iv) : Prop := ∃ r ∈ reads, r.multimapper = false ∧ v ∈ r.introns

/-- `IntronGraph.construct()` never raises: every `add_edge` call has observed arguments -/
theorem construct_never_fails (known : List Iv) (δ minCount : Int) (reads : List Read) :
    ∃ g, Graph.constructed known δ reads minCount = some g := by
  unfold Graph.constructed
  exact runOps_addEdges_isSome _ _ (constructOps_scoped _ reads)

/-- **vertices_observed.** After `intron_collector.process`, `construct()` and ANY history of graph operations
    (collapse, deletions, discards, defaultdict reads, `simplify_correction_map`, attaching terminal vertices — in any
    order and number, as long as each takes its arguments from the graph itself), every intron vertex the graph
    mentions — keys of `clustered_introns`, keys and images of the correction map, discarded introns, endpoints of
    edges — is an intron of the corrected alignment of some non-multimapper read. -/
theorem vertices_observed (known : List Iv) (δ minCount : Int) (reads : List Read) (ops : List Op) (g0 g : Graph)
    (h0 : Graph.constructed known δ reads minCount = some g0)
    (h : runOps (obsIntrons reads) g0 ops = some g) :
    ∀ v ∈ g.verts, Observed reads v := by
  have hinit : GSub (Graph.init known δ reads minCount) (fun v => v ∈ obsIntrons reads) :=
    ⟨collectorProcess_csub known δ reads minCount, by simp [Graph.init, ESub], by simp [Graph.init, ESub]⟩
  have h1 := runOps_gsub _ hinit h0
  have h2 := runOps_gsub _ h1 h
  intro v hv
  exact mem_obsIntrons.1 ((gsub_iff g _).1 h2 v hv)

/-- the images of the correction map in particular -/
theorem correction_images_observed (known : List Iv) (δ minCount : Int) (reads : List Read) (ops : List Op) (g0 g : Graph)
    (h0 : Graph.constructed known δ reads minCount = some g0)
    (h : runOps (obsIntrons reads) g0 ops = some g) (k s : Iv) (hk : amGet? g.col.corr k = some s) :
    Observed reads s := by
  apply vertices_observed known δ minCount reads ops g0 g h0 h
  simp only [Graph.verts, Collector.verts, List.mem_append, amVals, List.mem_map]
  exact Or.inl (Or.inl (Or.inr ⟨(k, s), amGet?_mem hk, rfl⟩))

/-- non-vacuity: a concrete read set and a history with a collapse and a map simplification run to completion
    and leave a non-empty graph -/
def exReads : List Read :=
  [⟨"a", [(10, 20), (30, 40)], [(1, 9), (21, 29), (41, 50)], false, "+", true, false, "g"⟩,
   ⟨"b", [(10, 20), (30, 42)], [(1, 9), (21, 29), (43, 50)], false, "+", true, false, "g"⟩,
   ⟨"c", [(10, 20), (30, 40)], [(1, 9), (21, 29), (41, 50)], false, "+", true, false, "g"⟩,
   ⟨"m", [(11, 19)], [(1, 10), (20, 50)], true, "+", false, false, "g"⟩]

example : ((Graph.constructed [] 0 exReads 1).bind (fun g0 =>
      runOps (obsIntrons exReads) g0 [.collapse (30, 42) (30, 40), .delVertex (30, 42), .simplifyMap,
        .attachOut (30, 40) (VERTEX_polya, 50)])).map (fun g => (g.col.corr, g.out.length))
    = some ([((30, 42), (30, 40))], 2) := by
  decide +kernel

/-- the multimapper's intron never becomes a vertex -/
example : (Graph.constructed [] 0 exReads 1).map (fun g0 => decide ((11, 19) ∈ g0.verts)) = some false := by
  decide +kernel

/-- **thread_path_observed.** The intron path `thread_introns` produces for a non-multimapper read consists of
    observed introns (each is the read's own intron or an image of the correction map). -/
theorem thread_path_observed (known : List Iv) (δ minCount : Int) (reads : List Read) (ops : List Op) (g0 g : Graph)
    (h0 : Graph.constructed known δ reads minCount = some g0)
    (h : runOps (obsIntrons reads) g0 ops = some g)
    (r : Read) (hr : r ∈ reads) (hm : r.multimapper = false) (path : List Iv)
    (ht : threadIntrons g.col r.introns = some path) :
    ∀ p ∈ path, Observed reads p := by
  have hinit : GSub (Graph.init known δ reads minCount) (fun v => v ∈ obsIntrons reads) :=
    ⟨collectorProcess_csub known δ reads minCount, by simp [Graph.init, ESub], by simp [Graph.init, ESub]⟩
  have h2 := runOps_gsub _ (runOps_gsub _ hinit h0) h
  intro p hp
  exact mem_obsIntrons.1
    (threadIntrons_sub h2.col r.introns (fun i hi => mem_obsIntrons.2 ⟨r, hr, hm, hi⟩) ht p hp)

/-- operations that leave the correction map and the discarded set alone (what follows `simplify_correction_map`
    in `IntronGraph.__init__`: `attach_terminal_positions`) -/
def colNeutral : Op → Bool
  | .touch _ => true
  | .attachOut _ _ => true
  | .attachInc _ _ => true
  | .delOut _ => true
  | .delInc _ => true
  | .delVertex _ => true
  | _ => false

/-- **correction_map_clean.** Once `simplify_correction_map` has run (whatever happened before it), and only
    terminal-vertex attachments / defaultdict reads / key deletions follow, no image of the correction map is itself
    a key of the map or a discarded intron: `substitute` is idempotent and never yields a discarded intron. -/
theorem correction_map_clean (obs : List Iv) (g g1 g2 : Graph) (pre post : List Op)
    (h1 : runOps obs g (pre ++ [Op.simplifyMap]) = some g1)
    (hpost : ∀ op ∈ post, colNeutral op = true)
    (h2 : runOps obs g1 post = some g2) : MapClean g2.col := by
  have hc1 : MapClean g1.col := by
    rw [runOps_append] at h1
    cases hpre : runOps obs g pre with
    | none => simp [hpre] at h1
    | some gp =>
      simp only [hpre, Option.bind_some, runOps, opScoped, if_true, applyOp] at h1
      cases hs : gp.col.simplifyCorrectionMap with
      | none => simp [hs] at h1
      | some c' =>
        simp [hs] at h1
        subst h1
        exact simplifyCorrectionMap_clean hs
  clear h1
  induction post generalizing g1 with
  | nil => simp [runOps] at h2; subst h2; exact hc1
  | cons op t ih =>
    simp only [runOps] at h2
    split at h2
    · split at h2
      · simp at h2
      · rename_i g' hg'
        refine ih g' (fun o ho => hpost o (by simp [ho])) h2 ?_
        have hn := hpost op (by simp)
        cases op <;> simp [colNeutral] at hn <;> simp [applyOp] at hg' <;> subst hg' <;>
          first
          | exact hc1
          | (unfold MapClean at hc1 ⊢; unfold Collector.touch; split <;> exact hc1)
    · simp at h2

end IsoVerif.Props.C04Graph
