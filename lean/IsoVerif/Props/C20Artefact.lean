import IsoVerif.Model.Artefact

/-
C20 — "the per-user cache … is never observed half-written", for the ARTEFACTS the caches hand out and for the index next to
a shared reference (audit2 C20-G1, G2).  Model: IsoVerif/Model/Artefact.lean.

Full-strength statement (`NoPartialArtefact`): in every interleaving of any number of runs, whatever a run finds when it
opens an artefact path is the COMPLETE image of one of the builds of the system, or what the file held when the runs
started - never a proper part of an image, never an empty file that a build has just truncated / re-created.
  * true of the repaired code (every build writes a private temporary file and moves it into place):
    `no_partial_artefact_observed`, all programs, all interleavings, any number of processes, any chunking;
  * false of the code that builds in place (pyfaidx `open(fai,'w')`; `gffutils.create_db(db, force=True)`):
    `in_place_index_partial_witness`, `in_place_db_rebuild_partial_witness`.
-/
namespace IsoVerif.Props.C20Artefact
open IsoVerif.Model.C20A

/-- what a reader may find at an artefact path, given the start state `w0` and the programs `progs` of the runs:
    no file; the complete image of one of the builds; or the content some public path had at the start -/
def Whole (w0 : FS) (progs : List (List Instr)) (found : Option (List Rec)) : Prop :=
  ∀ c, found = some c → c ∈ imagesOf progs ∨ ∃ q i, w0.names q = some i ∧ w0.inodes i = c

/-- the property, for a start state and a set of programs: every observation made in any interleaving is `Whole` -/
def NoPartialArtefact (w0 : FS) (progs : List (List Instr)) : Prop :=
  ∀ sched : List Nat, ∀ o ∈ (run (Sys.start w0 progs) sched).fs.obs, o ∈ w0.obs ∨ Whole w0 progs o.2

/-- the directory is well formed: inode numbers in use are below the allocation counter -/
def WFdir (w : FS) : Prop := ∀ q i, w.names q = some i → i < w.next

/-! ### invariant -/

/-- per-instruction invariant (independent of the file system): builds are atomic and their image is one of `imgs`; a
    temporary file holds exactly the part of its image that is not still to come; nothing is being built in place -/
def OKI (imgs : List (List Rec)) : Instr → Prop
  | .build _ a ch => a = true ∧ ch.flatten ∈ imgs
  | .buildingTmp _ whole wr rest => wr ++ rest.flatten = whole ∧ whole ∈ imgs
  | .buildingInPlace .. => False
  | _ => True

structure FSInv (imgs : List (List Rec)) (w0 w : FS) : Prop where
  lt : ∀ q i, w.names q = some i → i < w.next
  good : ∀ q i, w.names q = some i → w.inodes i ∈ imgs ∨ ∃ q0 i0, w0.names q0 = some i0 ∧ w0.inodes i0 = w.inodes i
  obs : ∀ o ∈ w.obs, o ∈ w0.obs ∨ ∀ c, o.2 = some c → c ∈ imgs ∨ ∃ q0 i0, w0.names q0 = some i0 ∧ w0.inodes i0 = c

theorem stepProc_inv (imgs : List (List Rec)) (w0 w : FS) (p : Proc) (hw : FSInv imgs w0 w)
    (hp : ∀ ins ∈ p.todo, OKI imgs ins) :
    FSInv imgs w0 (stepProc w p).1 ∧ ∀ ins ∈ (stepProc w p).2.todo, OKI imgs ins := by
  unfold stepProc
  split
  · exact ⟨hw, hp⟩
  · -- ifMissing
    rename_i q k t ht
    refine ⟨hw, ?_⟩
    intro ins hins
    rw [ht] at hp
    split at hins
    · exact hp ins (List.mem_cons_of_mem _ (List.mem_of_mem_drop hins))
    · exact hp ins (List.mem_cons_of_mem _ hins)
  · -- build, atomic
    rename_i q ch t ht
    rw [ht] at hp
    refine ⟨hw, ?_⟩
    intro ins hins
    rcases List.mem_cons.mp hins with h | h
    · subst h
      have h0 := hp _ (List.mem_cons_self)
      exact ⟨by simp, h0.2⟩
    · exact hp ins (List.mem_cons_of_mem _ h)
  · -- build in place: excluded
    rename_i q ch t ht
    rw [ht] at hp
    have h0 := hp _ (List.mem_cons_self)
    exact absurd h0.1 (by simp)
  · -- buildingTmp, a further chunk
    rename_i q whole wr c rest t ht
    rw [ht] at hp
    refine ⟨hw, ?_⟩
    intro ins hins
    rcases List.mem_cons.mp hins with h | h
    · subst h
      have h0 := hp _ (List.mem_cons_self)
      refine ⟨?_, h0.2⟩
      have h1 := h0.1
      simp only [List.flatten_cons] at h1
      simpa [List.append_assoc] using h1
    · exact hp ins (List.mem_cons_of_mem _ h)
  · -- buildingTmp, os.replace
    rename_i q whole wr t ht
    rw [ht] at hp
    have h0 := hp _ (List.mem_cons_self)
    have hwr : wr = whole := by simpa using h0.1
    refine ⟨⟨?_, ?_, hw.obs⟩, fun ins hins => hp ins (List.mem_cons_of_mem _ hins)⟩
    · intro q' i hq
      simp only [upd] at hq
      dsimp only
      split at hq
      · cases hq; omega
      · have := hw.lt q' i hq; omega
    · intro q' i hq
      simp only [upd] at hq ⊢
      split at hq
      · cases hq
        simp only [if_true]
        left; rw [hwr]; exact h0.2
      · have hlt := hw.lt q' i hq
        have hne : i ≠ w.next := by omega
        simp only [hne, if_false]
        exact hw.good q' i hq
  · -- buildingInPlace: excluded
    rename_i q i c rest t ht
    rw [ht] at hp
    exact absurd (hp _ (List.mem_cons_self)) (by simp [OKI])
  · rename_i q i t ht
    rw [ht] at hp
    exact absurd (hp _ (List.mem_cons_self)) (by simp [OKI])
  · -- use
    rename_i q t ht
    rw [ht] at hp
    refine ⟨⟨hw.lt, hw.good, ?_⟩, fun ins hins => hp ins (List.mem_cons_of_mem _ hins)⟩
    intro o ho
    rcases List.mem_cons.mp ho with h | h
    · right
      intro c hc
      subst h
      simp only at hc
      cases hn : w.names q with
      | none => rw [hn] at hc; simp at hc
      | some i =>
        rw [hn] at hc
        simp only [Option.map_some, Option.some.injEq] at hc
        rcases hw.good q i hn with hg | ⟨q0, i0, h1, h2⟩
        · left; rw [← hc]; exact hg
        · right; exact ⟨q0, i0, h1, by rw [h2, hc]⟩
    · exact hw.obs o h

structure SysInv (imgs : List (List Rec)) (w0 : FS) (s : Sys) : Prop where
  fs : FSInv imgs w0 s.fs
  instrs : ∀ p ∈ s.procs, ∀ ins ∈ p.todo, OKI imgs ins

theorem stepSys_inv (imgs : List (List Rec)) (w0 : FS) (s : Sys) (pid : Nat) (h : SysInv imgs w0 s) :
    SysInv imgs w0 (stepSys s pid) := by
  unfold stepSys
  cases hp : s.procs[pid]? with
  | none => exact h
  | some p =>
    have hmem : p ∈ s.procs := List.mem_of_getElem? hp
    have hs := stepProc_inv imgs w0 s.fs p h.fs (h.instrs p hmem)
    refine ⟨hs.1, ?_⟩
    intro p' hp'
    rcases List.mem_or_eq_of_mem_set hp' with h1 | h1
    · exact h.instrs p' h1
    · subst h1; exact hs.2

theorem run_inv (imgs : List (List Rec)) (w0 : FS) (sched : List Nat) :
    ∀ s, SysInv imgs w0 s → SysInv imgs w0 (run s sched) := by
  induction sched with
  | nil => intro s h; exact h
  | cons a r ih => intro s h; exact ih _ (stepSys_inv imgs w0 s a h)

theorem image_mem_imagesOf (progs : List (List Instr)) (l : List Instr) (hl : l ∈ progs) (q : Path) (a : Bool)
    (ch : List (List Rec)) (h : Instr.build q a ch ∈ l) : ch.flatten ∈ imagesOf progs := by
  unfold imagesOf
  exact List.mem_flatMap.mpr ⟨l, hl, List.mem_filterMap.mpr ⟨_, h, rfl⟩⟩

/-- **C20, artefacts, repaired protocol.**  Any number of runs, any programs whose builds are atomic (temporary file +
    `os.replace`: `load_indexed_reference`, `gtf2db` after the repairs), any chunking of the images, any start directory,
    EVERY interleaving: whatever a run finds when it opens an artefact path is absent, the complete image of one of the
    builds, or a content the directory held at the start - "no reader observes a partial index / database". -/
theorem no_partial_artefact_observed (w0 : FS) (hw0 : WFdir w0) (progs : List (List Instr))
    (hat : ∀ l ∈ progs, ∀ ins ∈ l, ins.atomicFresh = true) : NoPartialArtefact w0 progs := by
  intro sched o ho
  have h0 : SysInv (imagesOf progs) w0 (Sys.start w0 progs) := by
    refine ⟨⟨hw0, fun q i hq => Or.inr ⟨q, i, hq, rfl⟩, fun o ho => Or.inl ho⟩, ?_⟩
    intro p hp ins hins
    simp only [Sys.start, List.mem_map] at hp
    obtain ⟨l, hl, rfl⟩ := hp
    have ha := hat l hl ins hins
    cases ins with
    | build q a ch =>
      simp only [Instr.atomicFresh] at ha
      exact ⟨ha, image_mem_imagesOf progs l hl q a ch hins⟩
    | buildingTmp q whole wr rest => simp [Instr.atomicFresh] at ha
    | buildingInPlace q i rest => simp [Instr.atomicFresh] at ha
    | ifMissing q k => trivial
    | use q => trivial
  have h := (run_inv (imagesOf progs) w0 sched _ h0).fs.obs o ho
  rcases h with h | h
  · exact Or.inl h
  · exact Or.inr (fun c hc => h c hc)

/-- the programs of the code base meet the hypothesis: `load_indexed_reference` + re-openings, a conversion + openings, a
    cache hit + openings (repaired variants) -/
theorem loadIndexed_atomicFresh (fai : Path) (ch : List (List Rec)) (n : Nat) :
    ∀ ins ∈ loadIndexed fai true ch n, ins.atomicFresh = true := by
  intro ins h
  simp only [loadIndexed, List.cons_append, List.nil_append, List.mem_cons, List.mem_replicate] at h
  rcases h with h | h | h
  · subst h; rfl
  · subst h; rfl
  · rw [h.2]; rfl

theorem convertThenUse_atomicFresh (db : Path) (ch : List (List Rec)) (n : Nat) :
    ∀ ins ∈ convertThenUse db true ch n, ins.atomicFresh = true := by
  intro ins h
  simp only [convertThenUse, List.cons_append, List.nil_append, List.mem_cons, List.mem_replicate] at h
  rcases h with h | h
  · subst h; rfl
  · rw [h.2]; rfl

theorem useOnly_atomicFresh (db : Path) (n : Nat) : ∀ ins ∈ useOnly db n, ins.atomicFresh = true := by
  intro ins h
  simp only [useOnly, List.mem_replicate] at h
  rw [h.2]; rfl

/-- **G1 for the repaired `load_indexed_reference`**: n runs (any n) that start on a reference whose index does not exist
    (or exists, complete: `w0` arbitrary), each with its own idea of the chunking and any number of re-openings by its
    workers: every opening of the index finds no file, the complete index, or what was there at the start. -/
theorem shared_index_never_partial (w0 : FS) (hw0 : WFdir w0) (fai : Path) (index : List (List Rec))
    (runs : List (List (List Rec) × Nat)) (hsame : ∀ r ∈ runs, r.1.flatten = index.flatten) :
    ∀ sched, ∀ o ∈ (run (Sys.start w0 (runs.map (fun r => loadIndexed fai true r.1 r.2))) sched).fs.obs,
      o ∈ w0.obs ∨ ∀ c, o.2 = some c → c = index.flatten ∨ ∃ q i, w0.names q = some i ∧ w0.inodes i = c := by
  intro sched o ho
  have hat : ∀ l ∈ runs.map (fun r => loadIndexed fai true r.1 r.2), ∀ ins ∈ l, ins.atomicFresh = true := by
    intro l hl
    obtain ⟨r, _, rfl⟩ := List.mem_map.mp hl
    exact loadIndexed_atomicFresh fai r.1 r.2
  rcases no_partial_artefact_observed w0 hw0 _ hat sched o ho with h | h
  · exact Or.inl h
  · right
    intro c hc
    rcases h c hc with h1 | h1
    · left
      unfold imagesOf at h1
      obtain ⟨l, hl, hc1⟩ := List.mem_flatMap.mp h1
      obtain ⟨r, hr, rfl⟩ := List.mem_map.mp hl
      obtain ⟨ins, hins, himg⟩ := List.mem_filterMap.mp hc1
      simp only [loadIndexed, List.cons_append, List.nil_append, List.mem_cons, List.mem_replicate] at hins
      rcases hins with h2 | h2 | h2
      · subst h2; simp [Instr.image] at himg
      · subst h2
        simp only [Instr.image, Option.some.injEq] at himg
        rw [← himg]; exact hsame r hr
      · rw [h2.2] at himg; simp [Instr.image] at himg
    · exact Or.inr h1

/-! ### non-vacuity -/

/-- three runs start on an un-indexed reference (index = records 1, 2, 3); an interleaving in which run 1 opens the path
    while run 0 is in the middle of its build, and run 2 after run 0's `os.replace`: the hypotheses hold, one observation is
    "no file", the others are the complete index -/
def triple : List (List Instr) :=
  [loadIndexed 7 true [[1], [2], [3]] 2, loadIndexed 7 true [[1, 2], [3]] 1, loadIndexed 7 true [[1], [2, 3]] 1]

example : WFdir FS.empty ∧ (∀ l ∈ triple, ∀ ins ∈ l, ins.atomicFresh = true) := by
  refine ⟨by intro q i h; simp [FS.empty] at h, ?_⟩
  intro l hl
  simp only [triple, List.mem_cons, List.not_mem_nil, or_false] at hl
  rcases hl with rfl | rfl | rfl <;> exact loadIndexed_atomicFresh _ _ _

example : ((run (Sys.start FS.empty triple) [0, 0, 0, 1, 1, 0, 0, 0, 2, 2, 0, 1, 1, 1, 1, 1]).fs.obs.map (·.2))
    = [some [1, 2, 3], some [1, 2, 3], some [1, 2, 3]] := by decide

example : ((run (Sys.start FS.empty [useOnly 7 1, loadIndexed 7 true [[1], [2]] 1]) [0, 1, 1, 1, 0]).fs.obs.map (·.2))
    = [none] := by decide

/-! ### the in-place protocol (before the repairs): witnesses -/

/-- **G1, before eab0ef3** (`Fasta(reference, indexname=fai)`: pyfaidx opens the index with `open(fai,'w')` and fills
    it): two first users of an un-indexed reference.  Run 0 finds no index and starts to build it in place (the file
    exists, one of two records written); run 1 finds the file, skips its build, opens the index: it reads `[1]`, which is
    neither the complete index `[1, 2]` nor anything that was there at the start - `NoPartialArtefact` fails; alone (and
    one after the other) both read the complete index. -/
theorem in_place_index_partial_witness :
    let progs := [loadIndexed 7 false [[1], [2]] 1, loadIndexed 7 false [[1], [2]] 1]
    let s := run (Sys.start FS.empty progs) [0, 0, 0, 1, 1]
    s.fs.obs = [(7, some [1])] ∧ ¬ Whole FS.empty progs (some [1]) ∧ ¬ NoPartialArtefact FS.empty progs ∧
    (run (Sys.start FS.empty progs) [0, 0, 0, 0, 0, 0, 1, 1]).fs.obs = [(7, some [1, 2]), (7, some [1, 2])] := by
  have hobs : (run (Sys.start FS.empty [loadIndexed 7 false [[1], [2]] 1, loadIndexed 7 false [[1], [2]] 1])
      [0, 0, 0, 1, 1]).fs.obs = [(7, some [1])] := by decide
  have hnw : ¬ Whole FS.empty [loadIndexed 7 false [[1], [2]] 1, loadIndexed 7 false [[1], [2]] 1] (some [1]) := by
    intro h
    rcases h [1] rfl with h1 | ⟨q, i, h1, _⟩
    · revert h1; decide
    · simp [FS.empty] at h1
  refine ⟨hobs, hnw, ?_, by decide⟩
  intro h
  have h1 := h [0, 0, 0, 1, 1] (7, some [1]) (by rw [hobs]; exact List.mem_singleton.mpr rfl)
  rcases h1 with h1 | h1
  · simp [FS.empty] at h1
  · exact hnw h1

/-- **G2, before the repair of `gtf2db`** (`gffutils.create_db(gtf, db, force=True)`): the database `[5, 6]` of a finished
    run is in the directory; run 0 holds it from the cache and opens it twice; run 1 (the owner of the folder, same input,
    `--clean_start`) rebuilds it in place.  Between run 1's first step (the file is removed / truncated) and its last
    write run 0 finds `[]`, then `[5]`: neither the old nor the new complete database, although both are `[5, 6]`. -/
theorem in_place_db_rebuild_partial_witness :
    let progs := [useOnly 3 2, convertThenUse 3 false [[5], [6]] 1]
    let s := run (Sys.start (FS.single 3 [5, 6]) progs) [1, 0, 1, 0, 1, 1, 1]
    s.fs.obs.map (·.2) = [some [5, 6], some [5], some []] ∧
    ¬ Whole (FS.single 3 [5, 6]) progs (some [5]) ∧ ¬ NoPartialArtefact (FS.single 3 [5, 6]) progs := by
  have hobs : ((run (Sys.start (FS.single 3 [5, 6]) [useOnly 3 2, convertThenUse 3 false [[5], [6]] 1])
      [1, 0, 1, 0, 1, 1, 1]).fs.obs) = [(3, some [5, 6]), (3, some [5]), (3, some [])] := by decide
  have hnw : ¬ Whole (FS.single 3 [5, 6]) [useOnly 3 2, convertThenUse 3 false [[5], [6]] 1] (some [5]) := by
    intro h
    rcases h [5] rfl with h1 | ⟨q, i, h1, h2⟩
    · revert h1; decide
    · simp only [FS.single] at h1 h2
      split at h1
      · cases h1; simp at h2
      · cases h1
  refine ⟨by rw [hobs]; rfl, hnw, ?_⟩
  intro h
  have h1 := h [1, 0, 1, 0, 1, 1, 1] (3, some [5]) (by rw [hobs]; simp)
  rcases h1 with h1 | h1
  · simp [FS.single] at h1
  · exact hnw h1

/-- the same history with the repaired (atomic) conversion: run 0 finds the complete database both times -/
example : ((run (Sys.start (FS.single 3 [5, 6]) [useOnly 3 2, convertThenUse 3 true [[5], [6]] 1])
    [1, 0, 1, 0, 1, 1, 1]).fs.obs.map (·.2)) = [some [5, 6], some [5, 6], some [5, 6]] := by decide

end IsoVerif.Props.C20Artefact
