/-
C02, part 6 — grouped tables (`--read_group`): every (feature, group) cell is the sum of the documented weights of
the records of that group.

The grouped counter is C09's model (`IsoVerif.Model.C09`: `initCounter`, `run`, `dump`) and the theorems used are
C09's `group_of_read`, `partition` (Props/C09.lean) and the dump lemmas of Lemmas/C09.lean – imported, not repeated.
The C02 side is the bridge `toCall` (Model/CounterGrouped.lean): which answers the C02 extractor model gives the
counter for a record, and `callVal_toCall`: the value C09 adds for a call is C02's documented `contribution`.
So `table_is_sum` (ungrouped) is lifted, cell by cell, to the grouped tables.
-/
import IsoVerif.Model.CounterGrouped
import IsoVerif.Lemmas.CounterGrouped
import IsoVerif.Props.C02
import IsoVerif.Props.C09

namespace IsoVerif.Props.C02Grouped
open IsoVerif.Gen IsoVerif.Model.C02 IsoVerif.Lemmas.C02
open IsoVerif.Model.C09 (Counter Call cell initCounter sortStr NA)
open IsoVerif.Lemmas.C09 (idOf sumOver callVal)

/-- **grouped_table_is_sum** (cells): for every iteration order `π` of the group universe, every strategy, level and
    history of tagged calls the grouped counter accepts, every feature `f` and every group `g` of the universe:
    the column of the table labelled `g` holds, for `f`, exactly the sum of the documented contributions
    (`contribution`: `docWeight` of the record's type and number of features) of the calls whose read group is `g`. -/
theorem grouped_table_is_sum {π : List String} (hne : π ≠ []) (hnd : π.Nodup) (s : CountingStrategy) (lvl : Level)
    (complete : List String) (oz : Bool) (fmt : GroupedOutputFormat) (tes : List Tagged) (c : Counter)
    (h : groupedRun π s lvl complete oz fmt tes = .ok c) (f g : String) (hg : g ∈ π) :
    c.ordered[idOf c.ids g]? = some g ∧ cell c.fc f (idOf c.ids g) = groupSum s lvl tes g f := by
  obtain ⟨h1, h2⟩ := IsoVerif.Props.C09.group_of_read hne hnd s complete oz fmt (toCalls lvl tes) c h f g hg
  refine ⟨h1, ?_⟩
  rw [h2, sumOver_toCalls]
  unfold groupSum
  congr 1
  apply List.map_congr_left
  intro te _
  cases hc : toCall lvl te with
  | none =>
    simp only
    rw [contribution_of_no_call s lvl te hc f]
    simp
  | some x =>
    simp only
    rcases toCall_group lvl te x hc with hgx | ⟨hgx, h0⟩
    · rw [hgx, callVal_toCall s lvl te x hc f]
      by_cases hq : te.2 = g <;> simp [hq]
    · rw [hgx, h0 s f]
      simp

/-- the grouped run implies the run of an ungrouped C09 counter on the same calls (it raises no more) -/
theorem ungrouped_accepts {π : List String} (hne : π ≠ []) (s : CountingStrategy) (complete : List String)
    (oz ozU : Bool) (fmt fmtU : GroupedOutputFormat) (calls : List Call) (cG : Counter)
    (hG : IsoVerif.Model.C09.run (initCounter false (some π) s complete oz fmt) calls = .ok cG) :
    ∃ cU, IsoVerif.Model.C09.run (initCounter false none s complete ozU fmtU) calls = .ok cU := by
  obtain ⟨_, _, _, _, hs, _⟩ := IsoVerif.Lemmas.C09.init_grouped hne s complete oz fmt
  obtain ⟨hig, _, hids, _, hsU, _⟩ := IsoVerif.Lemmas.C09.init_ungrouped s complete ozU fmtU
  apply (IsoVerif.Lemmas.C09.run_ok_iff _ calls).mpr
  intro x hx
  obtain ⟨e, he, _⟩ := (IsoVerif.Lemmas.C09.run_ok_iff _ calls).mp ⟨cG, hG⟩ x hx
  rw [hs] at he
  refine ⟨e, by rw [hsU]; exact he, ?_⟩
  intro _
  rw [hids]
  simp only [IsoVerif.Lemmas.C09.gnameOf, hig, if_true]
  exact ⟨0, by simp [List.lookup]⟩

/-- **grouped_partitions_table** (through C09's `partition`): for every feature the cells of all groups sum to the
    documented total over ALL calls – which is the value of the ungrouped C02 counter fed with the same calls
    (`table_is_sum`): the grouped table is a partition of the ungrouped one by read group. -/
theorem grouped_partitions_table {π : List String} (hne : π ≠ []) (hnd : π.Nodup) (s : CountingStrategy) (lvl : Level)
    (complete : List String) (oz : Bool) (fmt : GroupedOutputFormat) (tes : List Tagged) (c : Counter)
    (h : groupedRun π s lvl complete oz fmt tes = .ok c) (f : String) :
    sumOver c.ordered (fun g => cell c.fc f (idOf c.ids g))
      = ratSum (tes.map (fun te => contribution s lvl te.1 f)) ∧
    ∀ st, run s lvl (CState.init complete) (tes.map Prod.fst) = some st →
      sumOver c.ordered (fun g => cell c.fc f (idOf c.ids g)) = cget st.counts f := by
  obtain ⟨cU, hU⟩ := ungrouped_accepts hne s complete oz oz fmt fmt (toCalls lvl tes) c h
  have hp := IsoVerif.Props.C09.partition hne hnd s complete oz oz fmt fmt (toCalls lvl tes) c cU h hU f
  have hu := IsoVerif.Props.C09.ungrouped_cell s complete oz fmt (toCalls lvl tes) cU hU f
  have hsum : sumOver (toCalls lvl tes) (fun x => callVal s x f) = ratSum (tes.map (fun te => contribution s lvl te.1 f)) := by
    rw [sumOver_toCalls]
    congr 1
    apply List.map_congr_left
    intro te _
    cases hc : toCall lvl te with
    | none => simp only; rw [contribution_of_no_call s lvl te hc f]
    | some x => simp only; exact callVal_toCall s lvl te x hc f
  refine ⟨by rw [hp, hu, hsum], ?_⟩
  intro st hst
  rw [hp, hu, hsum]
  have := run_counts s lvl (tes.map Prod.fst) _ st hst f
  simp only [CState.init, cget, Rat.zero_add, List.map_map] at this
  rw [this]
  rfl

/-- **grouped_dump_is_sum** (the written matrix): `dump()` of the grouped counter succeeds; its header is the sorted
    group universe; every row `(f, values)` of the matrix has one value per group, and the value under group `g` is
    `groupSum … g f` – the documented contributions of the records of group `g` – when some call confirmed `f`
    (`confirmsFeature`, the same condition as for the ungrouped table), and 0 in every column otherwise. -/
theorem grouped_dump_is_sum {π : List String} (hne : π ≠ []) (hnd : π.Nodup) (s : CountingStrategy) (lvl : Level)
    (complete : List String) (oz : Bool) (fmt : GroupedOutputFormat) (tes : List Tagged) (c : Counter)
    (h : groupedRun π s lvl complete oz fmt tes = .ok c) :
    ∃ d, IsoVerif.Model.C09.dump c = .ok d ∧ d.header = sortStr π ∧
      ∀ rows, d.matrix = some rows → ∀ f row, (f, row) ∈ rows →
        ((∃ te ∈ tes, confirmsFeature lvl te.1 f) → row = (sortStr π).map (fun g => groupSum s lvl tes g f)) ∧
        ((¬ ∃ te ∈ tes, confirmsFeature lvl te.1 f) → row = (sortStr π).map (fun _ => (0 : Rat))) := by
  have hinv := IsoVerif.Lemmas.C09.Inv_run (IsoVerif.Lemmas.C09.inv_init_grouped hne hnd s complete oz fmt) h
  obtain ⟨hig, hord, _, _, hs, _, _, hc0⟩ := IsoVerif.Lemmas.C09.init_grouped hne s complete oz fmt
  have hcfg := (IsoVerif.Lemmas.C09.run_spec h).1
  have hig' : c.ignoreGroups = false := by rw [hcfg.2.2.1, hig]
  have hord' : c.ordered = sortStr π := by rw [hcfg.2.1, hord]
  -- the confirmed set of the C09 counter, in C02 terms
  have hconf : ∀ f, f ∈ c.confirmed ↔ ∃ te ∈ tes, confirmsFeature lvl te.1 f := by
    intro f
    rw [run_confirmed09 h f, hc0, hs]
    simp only [List.not_mem_nil, false_or]
    constructor
    · rintro ⟨x, hx, hcx⟩
      obtain ⟨te, hte, htc⟩ := List.mem_filterMap.mp hx
      exact ⟨te, hte, (callConfirms_toCall s lvl te x htc f).mp hcx⟩
    · rintro ⟨te, hte, hcf⟩
      cases htc : toCall lvl te with
      | none =>
        exfalso
        obtain ⟨e, g⟩ := te
        cases e with
        | unassigned n => exact hcf
        | unaligned n => exact hcf
        | confirm fs => simp [toCall] at htc
        | raw noId fs => simp [toCall] at htc
        | read ra => cases ra <;> simp [toCall] at htc
      | some x =>
        exact ⟨x, List.mem_filterMap.mpr ⟨te, hte, htc⟩, (callConfirms_toCall s lvl te x htc f).mpr hcf⟩
  -- the dump loop
  have hD : ∀ f, IsoVerif.Lemmas.C09.DInv c.ordered.length
      (IsoVerif.Model.C09.dataOf (IsoVerif.Model.C09.zeroUnconfirmed c.fc (sortStr c.allFeatures) c.confirmed) f) := by
    intro f
    rw [IsoVerif.Lemmas.C09.dataOf_zeroUnconfirmed]
    exact IsoVerif.Lemmas.C09.DInv_zeroIf _ (IsoVerif.Lemmas.C09.DInv_dataOf hinv.2.2 f)
  have hids : ∀ g ∈ c.ordered, ∃ i, c.ids.lookup g = some i := by
    intro g hg
    obtain ⟨i, hi, _⟩ := IsoVerif.Lemmas.C09.lookup_zipIdx_isSome hinv.1 hg
    exact ⟨i, by rw [hinv.2.1]; exact hi⟩
  obtain ⟨rows, lins, hr, _, hm⟩ := IsoVerif.Lemmas.C09.dumpGroupedRows_spec c
    (IsoVerif.Model.C09.zeroUnconfirmed c.fc (sortStr c.allFeatures) c.confirmed)
    (fun f kv hkv => ((hD f).2 kv hkv).1) hids (sortStr c.allFeatures)
  refine ⟨_, by simp only [IsoVerif.Model.C09.dump, hig', Bool.false_eq_true, if_false, hr]; rfl, hord', ?_⟩
  intro rows' hrows' f row hfr
  simp only at hrows'
  split at hrows'
  · injection hrows' with hrows'
    subst hrows'
    rw [hm] at hfr
    obtain ⟨hf, _, hrow⟩ := hfr
    have hfeat : (sortStr c.allFeatures).contains f = true := by simpa using hf
    have hval : ∀ g ∈ sortStr π,
        IsoVerif.Model.C09.getD (IsoVerif.Model.C09.dataOf
          (IsoVerif.Model.C09.zeroUnconfirmed c.fc (sortStr c.allFeatures) c.confirmed) f) (idOf c.ids g)
        = if f ∈ c.confirmed then groupSum s lvl tes g f else 0 := by
      intro g hg
      rw [IsoVerif.Lemmas.C09.dataOf_zeroUnconfirmed, IsoVerif.Lemmas.C09.getD_zeroIf, hfeat]
      by_cases hcf : f ∈ c.confirmed
      · have : c.confirmed.contains f = true := by simpa using hcf
        simp only [this, Bool.not_true, Bool.and_false, Bool.false_eq_true, if_false, hcf, if_true]
        exact (grouped_table_is_sum hne hnd s lvl complete oz fmt tes c h f g
          (IsoVerif.Lemmas.C09.mem_sortStr.mp hg)).2
      · simp [hcf]
    rw [hord'] at hrow
    constructor
    · intro hex
      have hcf := (hconf f).mpr hex
      rw [hrow]
      apply List.map_congr_left
      intro g hg
      rw [hval g hg, if_pos hcf]
    · intro hnex
      have hcf : f ∉ c.confirmed := fun hmem => hnex ((hconf f).mp hmem)
      rw [hrow]
      apply List.map_congr_left
      intro g hg
      rw [hval g hg, if_neg hcf]
  · cases hrows'

/-! ## non-vacuity: a grouped transcript table over three groups -/

def gA : Assignment String :=
  { atype := .unique, gtype := .unique, isoMatches := [⟨some "G1", some "T1"⟩], nCorrectedExons := 3,
    isoformIntrons := [("T1", 2), ("T2", 2)] }
def gB : Assignment String :=
  { atype := .ambiguous, gtype := .unique, isoMatches := [⟨some "G1", some "T1"⟩, ⟨some "G1", some "T2"⟩],
    nCorrectedExons := 2, isoformIntrons := [("T1", 2), ("T2", 2)] }
def demoTagged : List Tagged :=
  [(.read (some gA), "b"), (.read (some gB), "a"), (.read (some gB), "b"), (.read none, "NA"), (.unassigned 2, "NA"),
   (.read (some gA), "a")]

-- the hypothesis of the three theorems holds for this history, and the cells are what `groupSum` says
example : (match groupedRun ["b", "NA", "a"] .with_ambiguous .transcript ["T1", "T2", "T3"] true .both demoTagged with
    | .ok c => decide (c.ordered = ["NA", "a", "b"] ∧ cell c.fc "T1" (idOf c.ids "a") = 3 / 2 ∧
                       cell c.fc "T2" (idOf c.ids "b") = 1 / 2 ∧ cell c.fc "T1" (idOf c.ids "NA") = 0)
    | .error _ => false) = true := by decide +kernel

example : groupSum .with_ambiguous .transcript demoTagged "a" "T1" = 3 / 2 ∧
    groupSum .with_ambiguous .transcript demoTagged "b" "T2" = 1 / 2 := by decide +kernel

-- the written matrix: T1 confirmed (spliced unique reads), T2 not confirmed ⇒ zeroed in every column
example : (match groupedRun ["b", "NA", "a"] .with_ambiguous .transcript ["T1", "T2", "T3"] true .both demoTagged with
    | .ok c => (match IsoVerif.Model.C09.dump c with
                | .ok d => decide (d.header = ["NA", "a", "b"] ∧
                                   d.matrix = some [("T1", [0, 3 / 2, 3 / 2]), ("T2", [0, 0, 0]), ("T3", [0, 0, 0])])
                | .error _ => false)
    | .error _ => false) = true := by decide +kernel

end IsoVerif.Props.C02Grouped
