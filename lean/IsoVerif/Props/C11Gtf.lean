/-
C11 — translation / reflection equivariance of the GTF output path (Model/Gtf.lean = `validate_exons`,
`GFFPrinter.dump`, `from_reference_transcript`, the constructors of novel exon lists; property C03's model), for
ALL inputs and ALL shifts `k : Int`:

  * lines: `shiftLine k` adds `k` to the start and end columns; chromosome, strand, ids, the transcript count of a
    gene line and the exon number of a feature line are unchanged; the ORDER of the lines is unchanged (Python's
    stable `sorted` commutes with every comparison-preserving map: `shift_equivariant_sorted`);
  * `validate_exons` tests `0 < start`: the answer is shift invariant exactly when that test is (`PosStable`,
    witness `shift_validateExons_witness`); `dump` / a history of `dump` calls inherit this hypothesis;
  * `correct_novel_transcript_ends` tests the chosen coordinate for Python truthiness (`if new_start and …`): the
    hypothesis is that no read end is 0 before or after the shift (witness `shift_correctEnds_witness`);
  * strand flip of one transcript's feature lines: `mirror_dual_featLines` (exons only, sorted disjoint, stranded),
    with witnesses for unstranded transcripts and for `other_features` that share both ends with an exon.
-/
import IsoVerif.Gen.Prims
import IsoVerif.Model.Interval
import IsoVerif.Model.Gtf
import IsoVerif.Model.C11Symmetry
import IsoVerif.Model.C11SymBedCorr
import IsoVerif.Lemmas.Interval
import IsoVerif.Lemmas.C11Shift
import IsoVerif.Lemmas.C11Mirror
import IsoVerif.Lemmas.C11Gtf
import IsoVerif.Props.C11Lists

namespace IsoVerif.Props.C11Gtf
open IsoVerif.Gen IsoVerif.Model IsoVerif.Model.C03 IsoVerif.Model.C11 IsoVerif.Lemmas IsoVerif.Lemmas.C11

/-! ## translation -/

/-- Python's stable `sorted` (the model's `isortBy`) commutes with every map that preserves the comparison -/
theorem sorted_commutes_with_order_preserving_map {α β} (lt : α → α → Bool) (lt' : β → β → Bool) (f : α → β)
    (h : ∀ a b, lt' (f a) (f b) = lt a b) (l : List α) :
    isortBy lt' (l.map f) = (isortBy lt l).map f :=
  gtf_isortBy_map lt lt' f h l

theorem shift_equivariant_sorted (k : Int) (l : List Iv) : isortBy ivLt (shiftL k l) = shiftL k (isortBy ivLt l) :=
  gtf_isortBy_map ivLt ivLt (shiftIv k) (gtf_ivLt_shift k) l

/-- `validate_exons` of the shifted list, when the `0 < start` test is unaffected by the shift -/
theorem shift_equivariant_validateExons (k : Int) (l : List Iv) (h : PosStable k l) :
    validateExons (shiftL k l) = validateExons l :=
  validateExons_shift k l h

/-- the hypothesis is needed: a valid exon moved to position 0 becomes invalid -/
theorem shift_validateExons_witness : ¬ (∀ (k : Int) (l : List Iv), validateExons (shiftL k l) = validateExons l) := by
  intro h
  have := h (-1) [(1, 2)]
  revert this
  decide

/-- exon / other-feature lines of one model: same order, same exon numbers, coordinates + k -/
theorem shift_equivariant_featLines (k : Int) (m : TModel) :
    featLines (shiftTM k m) = (featLines m).map (shiftLine k) :=
  featLines_shift k m

theorem shift_equivariant_txBlock (k : Int) (m : TModel) (region : Iv) :
    txBlock (shiftTM k m, shiftIv k region) = (txBlock (m, region)).map (shiftLine k) :=
  txBlock_shift k (m, region)

/-- `TranscriptModel.from_reference_transcript` on the shifted annotation (`none` = KeyError is kept) -/
theorem shift_equivariant_fromReference (k : Int) (ctx : GeneCtx) (isoform : Id) :
    fromReference (shiftCtx k ctx) isoform = (fromReference ctx isoform).map (shiftTM k) := by
  simp only [fromReference, shiftCtx, List.find?_map]
  have : ((fun r : RefTx => r.tid == isoform) ∘ shiftRefTx k) = (fun r : RefTx => r.tid == isoform) := by
    funext r; rfl
  rw [this]
  cases ctx.isoforms.find? (fun r => r.tid == isoform) <;> rfl

/-- **`GFFPrinter.dump`**: gene lines, transcript lines, feature lines in the same order with coordinates + k, the
    same new `printed_gene_ids`; an exception (`none`) is kept -/
theorem shift_equivariant_dump (k : Int) (printed : List Id) (ctx : GeneCtx) (models : List TModel)
    (h : ∀ m ∈ models, PosStable k m.exons) :
    dump printed (shiftCtx k ctx) (models.map (shiftTM k))
      = (dump printed ctx models).map (fun r => (r.1, r.2.map (shiftLine k))) :=
  dump_shift k printed ctx models (fun m hm => validateExons_shift k m.exons (h m hm))

/-- a whole history of `dump` calls on one printer -/
theorem shift_equivariant_runCalls (k : Int) (printed : List Id) (calls : List Call)
    (h : ∀ c ∈ calls, ∀ m ∈ c.models, PosStable k m.exons) :
    runCalls printed (calls.map (shiftCall k))
      = (runCalls printed calls).map (fun r => (r.1, r.2.map (shiftLine k))) :=
  runCalls_shift k calls printed (fun c hc m hm => validateExons_shift k m.exons (h c hc m hm))

/-- the hypothesis of the two theorems above is needed: a model that is dropped as invalid after the shift -/
theorem shift_dump_witness :
    ¬ (∀ (k : Int) (printed : List Id) (ctx : GeneCtx) (models : List TModel),
        dump printed (shiftCtx k ctx) (models.map (shiftTM k))
          = (dump printed ctx models).map (fun r => (r.1, r.2.map (shiftLine k)))) := by
  intro h
  have := h (-1) [] { chr := 0 } [{ chr := 0, strand := 0, tid := 1, gid := 2, exons := [(1, 2)], known := false }]
  revert this
  decide

/-- `construct_fl_isoforms`: exons of a novel transcript from its range and intron path; a skipped path stays skipped -/
theorem shift_equivariant_flNovelExons (k : Int) (range : Iv) (path : List Iv) :
    flNovelExons (shiftIv k range) (shiftL k path) = (flNovelExons range path).map (shiftL k) := by
  simp only [flNovelExons, IsoVerif.Props.C11Lists.shift_equivariant_getExons, shiftL_length]
  split <;> rfl

/-- one cluster of `generate_monoexon_from_clustered` (`none` = ValueError of `min([])` is kept) -/
theorem shift_equivariant_monoExonFromCluster (k : Int) (cutoff : Nat) (forward : Bool) (reads : List Iv)
    (three : Int) :
    monoExonFromCluster cutoff forward (shiftL k reads) (three + k)
      = (monoExonFromCluster cutoff forward reads three).map (shiftL k) :=
  monoExonFromCluster_shift k cutoff forward reads three

/-- **`correct_novel_transcript_ends`**: shifted model and shifted reads give the shifted corrected exons, when no
    read start / end is 0 before or after the shift (the code tests the chosen coordinate for truthiness) -/
theorem shift_equivariant_correctEnds (k apa : Int) (exons reads : List Iv)
    (h : ∀ rd ∈ reads, (rd.1 = 0 ↔ rd.1 + k = 0) ∧ (rd.2 = 0 ↔ rd.2 + k = 0)) :
    correctEnds (shiftL k exons) (shiftL k reads) apa = (correctEnds exons reads apa).map (shiftL k) :=
  correctEnds_shift_aux k apa exons reads h

/-- the hypothesis is needed: a read starting at position 0 is not used as the new start (`0` is falsy), the same
    read shifted to position 10 is -/
theorem shift_correctEnds_witness :
    ¬ (∀ (k apa : Int) (exons reads : List Iv),
        correctEnds (shiftL k exons) (shiftL k reads) apa = (correctEnds exons reads apa).map (shiftL k)) := by
  intro h
  have := h 10 1 [(-5, 10)] [(0, 10)]
  revert this
  decide

/-! ## reflection (strand flip) of the feature lines of one transcript -/

/-- exons only, sorted disjoint well-formed exons, a stranded transcript: the feature lines of the mirrored
    transcript (on the flipped strand) are the mirrored lines in the same order with the same exon numbers (the
    minus strand reverses the sorted order, which undoes the reversal of the coordinates) -/
theorem mirror_dual_featLines (L : Int) (m : TModel) (ho : m.other = []) (hsd : SD m.exons) (hw : WFl m.exons)
    (hs : m.strand = 0 ∨ m.strand = 1) :
    featLines (mirrorTM L m) = (featLines m).map (mirrorLine L) :=
  featLines_mirror L m ho hsd hw hs

/-- the transcript line and the feature lines of one model (what `dump` writes for it) -/
theorem mirror_dual_txBlock (L : Int) (m : TModel) (region : Iv) (ho : m.other = []) (hsd : SD m.exons)
    (hw : WFl m.exons) (hs : m.strand = 0 ∨ m.strand = 1) :
    txBlock (mirrorTM L m, mirrorIv L region) = (txBlock (m, region)).map (mirrorLine L) := by
  simp only [txBlock, featLines_mirror L m ho hsd hw hs, List.map_cons]
  rfl

/-- needed: an unstranded ('.') transcript is printed in ascending order in both orientations, so the exon
    numbers are reversed -/
theorem mirror_dual_featLines_unstranded_witness :
    ¬ (∀ (L : Int) (m : TModel), m.other = [] → SD m.exons → WFl m.exons →
        featLines (mirrorTM L m) = (featLines m).map (mirrorLine L)) := by
  intro h
  have := h 10 { chr := 0, strand := 2, tid := 0, gid := 0, exons := [(1, 2), (4, 5)], known := true }
    rfl (by decide) (by decide)
  revert this
  decide

/-- needed: a CDS with the coordinates of its exon (a fully coding exon) is printed before the exon on '+' and
    after it on '−' (ties of the sort key `(start, end, kind)` are not reversed by the reflection) -/
theorem mirror_dual_featLines_other_witness :
    ¬ (∀ (L : Int) (m : TModel), SD m.exons → WFl m.exons → (m.strand = 0 ∨ m.strand = 1) →
        featLines (mirrorTM L m) = (featLines m).map (mirrorLine L)) := by
  intro h
  have := h 10 { chr := 0, strand := 0, tid := 0, gid := 0, exons := [(1, 10)], known := true, other := [(1, 10, -1)] }
    (by decide) (by decide) (by decide)
  revert this
  decide

-- non-vacuity: inputs that meet the hypotheses, and the values the model computes on them
example : PosStable 255 [(11, 20), (31, 40)] ∧ validateExons (shiftL 255 [(11, 20), (31, 40)]) = true := by
  refine ⟨?_, by decide⟩
  intro x hx; simp at hx; rcases hx with rfl | rfl <;> decide

example : let m : TModel := { chr := 0, strand := 1, tid := 7, gid := 3, exons := [(11, 20), (31, 40)], known := false }
    m.other = [] ∧ SD m.exons ∧ WFl m.exons ∧ (m.strand = 0 ∨ m.strand = 1) ∧
    featLines (mirrorTM 100 m) = [Line.feat 0 0 61 70 0 3 7 1, Line.feat 0 0 81 90 0 3 7 2] ∧
    featLines m = [Line.feat 0 0 31 40 1 3 7 1, Line.feat 0 0 11 20 1 3 7 2] ∧
    (dump [] (shiftCtx 7 { chr := 0 }) [shiftTM 7 m]).map (·.2.length) = some 4 := by
  refine ⟨rfl, by decide, by decide, by decide, by decide, by decide, by decide⟩

example : (∀ rd ∈ [((15 : Int), (38 : Int)), (13, 44)], (rd.1 = 0 ↔ rd.1 + 255 = 0) ∧ (rd.2 = 0 ↔ rd.2 + 255 = 0)) ∧
    correctEnds [(11, 20), (31, 40)] [(15, 38), (13, 44)] 1 = some [(13, 20), (31, 38)] ∧
    correctEnds (shiftL 255 [(11, 20), (31, 40)]) (shiftL 255 [(15, 38), (13, 44)]) 1
      = some (shiftL 255 [(13, 20), (31, 38)]) := by
  refine ⟨?_, by decide, by decide⟩
  intro rd hrd; simp at hrd; rcases hrd with rfl | rfl <;> decide

end IsoVerif.Props.C11Gtf
