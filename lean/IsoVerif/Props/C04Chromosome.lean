/-
C04 (growth `c04split`) — the non-redundancy clause PER CHROMOSOME.  Every other C04 theorem speaks about ONE
`GraphBasedModelConstructor` (one read cluster or one SUB-REGION of a cluster cut by `split_coverage_regions`); the statement
("the intron chain differs from that of every other reported novel transcript on the same strand") speaks about the chromosome.
Model: IsoVerif/Model/ChromosomeModels.lean (`runChromosome`: the constructors of one chromosome task in order, sharing
`detected_known_isoforms`, the id distributor and — since fix b2b4dd9 — `reported_novel_chains`; round `c04rep2`: a dict chain → the
model reported first; a copy of every earlier model that overlaps the reads of a constructor joins its second
`assign_reads_to_models`, so the reads of an isoform reported earlier are listed and counted under that model whether or not the
constructor built the chain itself; fix 0c8e711 (local copy renamed) and fix b2b4dd9 (local copy deleted) are kept as variants).
Property theorems only (helper lemmas: IsoVerif/Lemmas/ChromosomeModels.lean).
-/
import IsoVerif.Model.ChromosomeModels
import IsoVerif.Lemmas.ChromosomeModels
import IsoVerif.Props.C04

namespace IsoVerif.Props.C04Chromosome
open IsoVerif.Gen IsoVerif.Model IsoVerif.Model.C04 IsoVerif.Lemmas.C04 IsoVerif.Props.C04

/-- the clause of the statement at full strength: over the whole chromosome no (strand, intron chain) is reported twice -/
def ChainsDistinctPerChromosome (reps : List Store) : Prop := (chrKeys reps).Nodup

/-- the clause for ONE constructor (what `chains_distinct_among_novel_partial` / `C04Similar` are about) -/
def ChainsDistinctPerConstructor (s : Store) : Prop := (reportKeys s.models).Nodup

/-! ### the current code: non-redundancy -/

/-- **chains_distinct_per_chromosome.** The current chromosome task (both class-level containers cleared, any id source, any
    number of (sub-)regions, any heuristic answers inside every constructor): if no constructor reports a chain twice BY
    ITSELF (the per-constructor clause; its only known failing class is `monointron_apa_duplicates`), then no (strand, intron
    chain) is reported twice on the chromosome — whatever alignments were handed to several sub-regions. -/
theorem chains_distinct_per_chromosome (next : Nat → Nat) (regs : List RegionIn) (cs' : ChrState) (reps : List Store)
    (h : runChromosomeFixed next regs ChrState.init [] = some (cs', reps))
    (hper : ∀ s ∈ reps, ChainsDistinctPerConstructor s) : ChainsDistinctPerChromosome reps :=
  (runChromosome_fixed_inv next regs ChrState.init [] cs' reps h (by intro k; simp [ChrState.init, chrKeys, modelKeys])
      (by intro p hp; simp [ChrState.init] at hp)).2.2
    (by simp [chrKeys]) hper

/-- **chains_distinct_per_chromosome_iff.** … and conversely: the chromosome run adds NO duplicate of its own — the clause
    holds on the chromosome exactly when it holds inside every constructor. -/
theorem chains_distinct_per_chromosome_iff (next : Nat → Nat) (regs : List RegionIn) (cs' : ChrState) (reps : List Store)
    (h : runChromosomeFixed next regs ChrState.init [] = some (cs', reps)) :
    ChainsDistinctPerChromosome reps ↔ ∀ s ∈ reps, ChainsDistinctPerConstructor s := by
  refine ⟨fun hnd s hs => ?_, chains_distinct_per_chromosome next regs cs' reps h⟩
  unfold ChainsDistinctPerChromosome at hnd
  unfold ChainsDistinctPerConstructor
  obtain ⟨a, b, rfl⟩ := List.append_of_mem hs
  rw [chrKeys_append, List.nodup_append] at hnd
  have h2 := hnd.2.1
  have : chrKeys (s :: b) = reportKeys s.models ++ chrKeys b := by simp [chrKeys]
  rw [this, List.nodup_append] at h2
  exact h2.1

/-- **reported_set_is_reported_keys.** At every point of the chromosome task the keys of `reported_novel_chains` are exactly the
    (strand, chain) keys of the novel spliced models REPORTED so far: a model is only ever withheld in favour of a twin that
    is in the output (no chain is lost, see `no_chain_lost`), and nothing else enters the dict. -/
theorem reported_set_is_reported_keys (next : Nat → Nat) (regs : List RegionIn) (cs' : ChrState) (reps : List Store)
    (h : runChromosomeFixed next regs ChrState.init [] = some (cs', reps)) :
    ∀ k, k ∈ modelKeys cs'.reported ↔ k ∈ chrKeys reps :=
  (runChromosome_fixed_inv next regs ChrState.init [] cs' reps h (by intro k; simp [ChrState.init, chrKeys, modelKeys])
      (by intro p hp; simp [ChrState.init] at hp)).1

/-- **reported_ids_name_reported_models.** Every VALUE of the dict is a novel spliced model that IS in the output of the
    chromosome (same id, same exons, same strand; the joiner may have rewritten the gene id), stored under its own
    (strand, chain): the model a later constructor assigns its reads to — and lists and counts them under — is the model
    `transcript_models.gtf` shows for the chain. -/
theorem reported_ids_name_reported_models (next : Nat → Nat) (regs : List RegionIn) (cs' : ChrState) (reps : List Store)
    (h : runChromosomeFixed next regs ChrState.init [] = some (cs', reps)) :
    ∀ p ∈ cs'.reported, ∃ s ∈ reps, ∃ m ∈ s.models, isSplicedNovel m = true ∧ chainKey m = p.1 ∧ SameModel m p.2 :=
  (runChromosome_fixed_inv next regs ChrState.init [] cs' reps h (by intro k; simp [ChrState.init, chrKeys, modelKeys])
      (by intro p hp; simp [ChrState.init] at hp)).2.1

/-- **no_chain_lost.** A model is withheld only if its key is in the dict handed over by the earlier constructors;
    every other novel spliced model that passed `filter_transcripts` is reported by this constructor, with its chain. -/
theorem no_chain_lost (reported rep' : ModelMap) (r : RegionIn) (s5 s : Store)
    (h : regionTail .joinEarlier reported r s5 = some (s, rep')) :
    ∀ m ∈ s5.models, isSplicedNovel m = true → chainKey m ∈ modelKeys reported ∨ chainKey m ∈ reportKeys s.models := by
  intro m hm hsn
  obtain ⟨hk, _, _⟩ := regionTail_fixed_spec h
  by_cases hin : chainKey m ∈ modelKeys reported
  · exact Or.inl hin
  · refine Or.inr ?_
    rw [hk]
    exact mem_reportKeys.2 ⟨m, List.mem_filter.2 ⟨hm, by simp [keepModel, hsn, hin]⟩, hsn, rfl⟩

/-- **unsplit_region_unchanged.** Safety of the repairs: a constructor none of whose novel spliced models repeats a chain
    reported by an EARLIER constructor, and whose reads no earlier novel model overlaps, dumps exactly the storage the code
    before fix b2b4dd9 dumps (same models, same `transcript_model_reads` bookkeeping); only the class-level dict differs.
    Read clusters are disjoint intervals and every model lies inside its cluster, so this covers every cluster that is not cut. -/
theorem unsplit_region_unchanged (next : Nat → Nat) (cs : ChrState) (r : RegionIn) (st2 : FLState) (s5 : Store)
    (hh : regionHead next cs r = some (st2, s5))
    (hfresh : ∀ m ∈ s5.models, isSplicedNovel m = true → chainKey m ∉ modelKeys cs.reported)
    (hno : earlierModels cs.reported r.span = some []) :
    (processRegion .joinEarlier next cs r).map (·.2) = (processRegion .none next cs r).map (·.2) := by
  have hall : ∀ m ∈ s5.models, keepModel (modelKeys cs.reported) m = true := by
    intro m hm
    unfold keepModel
    cases hsn : isSplicedNovel m with
    | false => simp
    | true => simp [hfresh m hm hsn]
  have hd : s5.dropJoin cs.reported r.span = some (s5, s5.models, mapUpdateM cs.reported s5.models) := by
    unfold Store.dropJoin Store.dropReported
    rw [chainKeys_idMapOf, dropLoop_all_kept _ _ _ _ hall, hno]
    simp
  simp only [processRegion, hh, regionTail, hd, Option.map_some, assignReads_models]

/-- **first_region_unchanged.** In particular the first constructor of a chromosome (empty dict) is never affected. -/
theorem first_region_unchanged (next : Nat → Nat) (det : List String) (idv : Nat) (r : RegionIn) :
    (processRegion .joinEarlier next ⟨det, idv, []⟩ r).map (·.2) = (processRegion .none next ⟨det, idv, []⟩ r).map (·.2) := by
  cases hh : regionHead next ⟨det, idv, []⟩ r with
  | none => simp [processRegion, hh]
  | some p =>
    obtain ⟨st2, s5⟩ := p
    refine unsplit_region_unchanged next _ r st2 s5 hh (by intro m _ _; simp [modelKeys]) ?_
    cases r.span <;> rfl

/-- **same_models_as_b2b4dd9 / same_models_as_0c8e711.** The follow-up repairs change NO model and no dict entry: on every
    record on which they run through, the current code dumps the model list fix b2b4dd9 and fix 0c8e711 dump and hands on the
    same dict — what differs is `transcript_read_ids` / counters, i.e. `transcript_model_reads` and the counts. -/
theorem same_models_as_b2b4dd9 (next : Nat → Nat) (cs cs1 cs2 : ChrState) (r : RegionIn) (s1 s2 : Store)
    (h1 : processRegion .joinEarlier next cs r = some (cs1, s1)) (h2 : processRegion .dropOnly next cs r = some (cs2, s2)) :
    cs1 = cs2 ∧ s1.models = s2.models := by
  unfold processRegion at h1 h2
  cases hh : regionHead next cs r with
  | none => simp [hh] at h1
  | some p =>
    obtain ⟨st2, s5⟩ := p
    simp only [hh] at h1 h2
    split at h1
    · simp at h1
    · rename_i sa ra hta
      split at h2
      · simp at h2
      · rename_i sb rb htb
        simp only [Option.some.injEq, Prod.mk.injEq] at h1 h2
        obtain ⟨rfl, rfl⟩ := h1
        obtain ⟨rfl, rfl⟩ := h2
        obtain ⟨_, _, hm1, hr1⟩ := regionTail_fixed_spec hta
        obtain ⟨hm2, hr2⟩ := regionTail_b2b4_spec htb
        exact ⟨by rw [hr1, hr2], by rw [hm1, hm2]⟩

theorem same_models_as_0c8e711 (next : Nat → Nat) (cs cs1 cs2 : ChrState) (r : RegionIn) (s1 s2 : Store)
    (h1 : processRegion .joinEarlier next cs r = some (cs1, s1)) (h2 : processRegion .renameCopy next cs r = some (cs2, s2)) :
    cs1 = cs2 ∧ s1.models = s2.models := by
  unfold processRegion at h1 h2
  cases hh : regionHead next cs r with
  | none => simp [hh] at h1
  | some p =>
    obtain ⟨st2, s5⟩ := p
    simp only [hh] at h1 h2
    split at h1
    · simp at h1
    · rename_i sa ra hta
      split at h2
      · simp at h2
      · rename_i sb rb htb
        simp only [Option.some.injEq, Prod.mk.injEq] at h1 h2
        obtain ⟨rfl, rfl⟩ := h1
        obtain ⟨rfl, rfl⟩ := h2
        obtain ⟨_, _, hm1, hr1⟩ := regionTail_fixed_spec hta
        obtain ⟨hm2, hr2⟩ := regionTail_0c8e_spec htb
        exact ⟨by rw [hr1, hr2], by rw [hm1, hm2]⟩

/-! ### the current code: the reads of an isoform reported by an earlier constructor (round `c04rep2`) -/

/-- **repeated_chain_keeps_reads** (extended in round `c04rep2` to constructors that build NO local copy).  Let `fm` be a model an
    earlier constructor reported (a value of the dict) that overlaps the span of the reads this constructor processes.  Then —
    for ANY storage that passed `filter_transcripts`, in particular the EMPTY one of a sub-region that holds fewer reads of the
    isoform than the novel cut-off — `fm` is in the storage of the second `assign_reads_to_models`, and every read that is
    not assigned at that point (its local copy was deleted, or no copy was ever built) and that the assigner finds consistent
    with `fm` is printed in `transcript_model_reads` under `fm`'s id, whatever the other assigner answers are.  Which reads
    are consistent is the assigner's verdict against the geometry of the model that IS in the output — exactly the comparison
    a cluster that is not cut makes (`reported_ids_name_reported_models`: `fm` is that model). -/
theorem repeated_chain_keeps_reads (s5 s6 : Store) (reported rep' : ModelMap) (span : Int × Int) (final : List TModel)
    (h : s5.dropJoin reported (some span) = some (s6, final, rep'))
    (k : ChainKey) (fm : TModel) (hmem : (k, fm) ∈ reported) (a b : Int) (ha : fm.startPos = some a) (hb : fm.endPos = some b)
    (hov : a ≤ span.2 ∧ span.1 ≤ b)
    (pre post : List AssignIn) (x : AssignIn) (hpre : ∀ y ∈ pre, y.read ≠ x.read)
    (hun : ¬ cnt s6.rcount x.read > 0) (hc : x.consistent = true) (ht : fm.tid ∈ x.matched) :
    fm ∈ s6.models ∧ (x.read, fm.tid) ∈ (s6.assignReads (pre ++ x :: post)).dumpR2T := by
  obtain ⟨_, _, em, s', he, hms, _⟩ := dropJoin_spec h
  have hin : fm ∈ em := (mem_overlapping he).2 ⟨k, a, b, hmem, ha, hb, hov.1, hov.2⟩
  have hfm : fm ∈ s6.models := by rw [hms]; exact List.mem_append_right _ hin
  refine ⟨hfm, assignReads_lists s6 pre post x fm.tid ?_ hpre hun hc ht⟩
  intro hnil
  rw [hnil] at hfm
  simp at hfm

/-- **deleted_copy_frees_its_reads.** … and the reads of a local copy that is withheld ARE unassigned at that point when they
    were listed once: `delete_from_storage` decrements `read_assignment_counts` of each read of the deleted model (the
    deletion loop is the loop of fix b2b4dd9; the storage handed to the second assignment has its counters). -/
theorem deleted_copy_frees_its_reads (s5 s6 : Store) (reported rep' : ModelMap) (span : Option (Int × Int)) (final : List TModel)
    (h : s5.dropJoin reported span = some (s6, final, rep')) :
    ∃ s', s5.dropReported (modelKeys reported) = some (s', keyUnion (modelKeys reported) (reportKeys final)) ∧
      s6.rcount = s'.rcount ∧ s6.readIds = s'.readIds ∧ s6.counter = s'.counter := by
  obtain ⟨_, _, em, s', _, _, hd, _, h1, h2, h3⟩ := dropJoin_spec h
  exact ⟨s', hd, h3, h1, h2⟩

/-- **drop_keeps_bookkeeping.** The step deletes through `delete_from_storage`, so the invariants behind the
    `transcript_model_reads` clauses survive it: lines name models of the storage (`R2TInv`), counters stay below the read
    lists (`CounterLe`), the dumped models are a sub-list, and a dumped model keeps its counter and its reads. -/
theorem drop_keeps_bookkeeping (s5 s6 : Store) (reported rep' : ModelMap) (span : Option (Int × Int)) (final : List TModel)
    (h : s5.dropJoin reported span = some (s6, final, rep')) :
    final.Sublist s5.models ∧ (R2TInv s5 → R2TInv s6) ∧ (CounterLe s5 → CounterLe s6) ∧
    ((ids s5.models).Nodup → ∀ m ∈ final,
        cnt s6.counter m.tid = cnt s5.counter m.tid ∧ readsIn s6.readIds m.tid = readsIn s5.readIds m.tid) := by
  obtain ⟨hf, _, em, s', _, hms, hd, hsm, h1, h2, _⟩ := dropJoin_spec h
  obtain ⟨hm, _, D, hcov, hsh, hnD⟩ := dropReported_spec hd
  refine ⟨by rw [hf]; exact List.filter_sublist, ?_, ?_, ?_⟩
  · intro hinv q hq hne
    rw [h1] at hq
    rcases hsh.entries q hq with e1 | ⟨e1, e2⟩
    · exact absurd e1 hne
    · have := hinv q e1 hne
      simp only [ids, List.mem_map] at this ⊢
      obtain ⟨m, hmm, hmt⟩ := this
      rcases hcov m hmm with h3 | h3
      · exact ⟨m, by rw [hms, ← hsm]; exact List.mem_append_left _ h3, hmt⟩
      · rw [hmt] at h3; exact absurd h3 e2
  · intro hc t
    have := hsh.counterLe hc t
    rw [h1, h2]; exact this
  · intro hnd m hmem
    have := hnD hnd m (by rw [hsm]; exact hmem)
    rw [h1, h2, hsh.counter, hsh.reads]
    simp [this]

/-- **supporting_read_after_drop.** The clause "≥ 1 read in `transcript_model_reads`" through the current tail of `process()`:
    a non-known model that is dumped had at least `min_novel_count ≥ 1` reads counted when `filter_transcripts` kept it, and
    neither the step nor the second `assign_reads_to_models` takes a read away from a dumped model. -/
theorem supporting_read_after_drop (s5 s6 : Store) (reported rep' : ModelMap) (span : Option (Int × Int)) (final : List TModel)
    (ins : List AssignIn) (minCount : Int) (hpos : 1 ≤ minCount) (hnd : (ids s5.models).Nodup) (hle : CounterLe s5)
    (hcount : ∀ m ∈ s5.models, m.ttype ≠ .known → minCount ≤ cnt s5.counter m.tid)
    (h : s5.dropJoin reported span = some (s6, final, rep')) :
    ∀ m ∈ final, m.ttype ≠ .known → ∃ r, (r, m.tid) ∈ (s6.assignReads ins).dumpR2T := by
  obtain ⟨hsub, _, hc, hkeep⟩ := drop_keeps_bookkeeping s5 s6 reported rep' span final h
  have hg := assignReads_grow s6 ins
  intro m hm hnovel
  have h1 := (hkeep hnd m hm).1
  have h2 := hcount m (hsub.subset hm) hnovel
  have hle2 := hc hle m.tid
  have hlen' : 1 ≤ (readsIn (s6.assignReads ins).readIds m.tid).length := by
    have := (hg.reads m.tid).length_le
    omega
  cases hr : readsIn (s6.assignReads ins).readIds m.tid with
  | nil => rw [hr] at hlen'; simp at hlen'
  | cons r t => exact ⟨r, mem_dump_of_reads (by rw [hr]; simp)⟩

/-! ### the step of fix 0c8e711 (variant `.renameCopy`, `Store.dropKeep`): what it achieved for constructors that build a copy -/

/-- **repeated_chain_takes_first_id.** The renaming step itself: the whole read list and the counter of the local copy move to
    the id of the model reported first, and `read_assignment_counts` is not touched (`delete_from_storage`, the step of fix
    b2b4dd9, empties the list and decrements the count of each of its reads: `reads_lost_b2b4dd9_witness`). -/
theorem repeated_chain_takes_first_id (s s' : Store) (old first : String) (h : s.renameTid old first = some s') :
    readsIn s'.readIds first = readsIn s.readIds old ∧ cnt s'.counter first = cnt s.counter old ∧ s'.rcount = s.rcount := by
  obtain ⟨_, h0, h1, h2⟩ := renameTid_spec h
  refine ⟨?_, ?_, h0⟩
  · rw [h2]; simp
  · rw [h1]; simp

/-- **repeated_chain_keeps_reads_0c8e711** (round `c04rep`; the step of fix 0c8e711, one constructor, all inputs).  A novel spliced model
    `m` that passed `filter_transcripts` and whose (strand, chain) the dict maps to `first` — the id of the model an earlier
    constructor reported: after the step `first` carries exactly `m`'s counter and `m`'s read list, and after the second
    `assign_reads_to_models` (ANY assigner answers) every one of those reads is printed in `transcript_model_reads` under `first`.
    Hypotheses: the per-constructor clause (no chain twice in this storage) and what the shared, monotone id distributor gives
    (C17): distinct ids in the storage, the ids in the dict are not among them, different chains of the dict have different ids. -/
theorem repeated_chain_keeps_reads_0c8e711 (s5 s6 : Store) (reported rep' : ChainMap) (final : List TModel)
    (hper : ChainsDistinctPerConstructor s5) (hnd : (ids s5.models).Nodup)
    (hfirst : ∀ p ∈ reported, p.2 ∉ ids s5.models)
    (hinj : ∀ p ∈ reported, ∀ q ∈ reported, p.2 = q.2 → p.1 = q.1)
    (h : s5.dropKeep reported = some (s6, final, rep'))
    (m : TModel) (first : String) (hm : m ∈ s5.models) (hsn : isSplicedNovel m = true)
    (hg : amGet? reported (chainKey m) = some first) (ins : List AssignIn) :
    cnt s6.counter first = cnt s5.counter m.tid ∧ readsIn s6.readIds first = readsIn s5.readIds m.tid ∧
    ∀ r ∈ readsIn s5.readIds m.tid, (r, first) ∈ (s6.assignReads ins).dumpR2T := by
  unfold Store.dropKeep at h
  split at h
  · simp at h
  · rename_i s1 kept hl
    have hmv := dropLoopR_moves_reads reported hinj m first hsn hg s5.models s5 [] [] s1 kept hl hm hnd hper (by simp) hfirst
    simp only [Option.some.injEq, Prod.mk.injEq] at h
    obtain ⟨rfl, _, _⟩ := h
    refine ⟨hmv.1, hmv.2, ?_⟩
    intro r hr
    have hg' := (assignReads_grow { s1 with models := kept.map (·.2) } ins).reads first
    refine mem_dump_of_reads (hg'.subset ?_)
    show r ∈ readsIn s1.readIds first
    rw [hmv.2]; exact hr

/-- **drop_keeps_read_counts_0c8e711.** Under the per-constructor clause (the constructor holds no (strand, chain) twice) the current
    `drop_novel_chains_reported_elsewhere` leaves `read_assignment_counts` exactly as it found it — for ANY dict handed over:
    a read that was listed under a model that passed `filter_transcripts` is not turned into a `*` line
    (`dumpR2T` prints `*` for the reads whose count is 0) and is not offered to the assigner again. -/
theorem drop_keeps_read_counts_0c8e711 (s5 s6 : Store) (reported rep' : ChainMap) (final : List TModel)
    (hper : ChainsDistinctPerConstructor s5) (h : s5.dropKeep reported = some (s6, final, rep')) :
    s6.rcount = s5.rcount := by
  unfold Store.dropKeep at h
  split at h
  · simp at h
  · rename_i s1 kept hl
    simp only [Option.some.injEq, Prod.mk.injEq] at h
    have hrc := dropLoopR_rcount reported s5.models s5 [] [] s1 kept hl hper (by simp)
    obtain ⟨rfl, _, _⟩ := h
    exact hrc

/-! ### concrete inputs: the witness of the defect and the non-vacuity examples -/

/-- one (sub-)region with the given full-length paths; every heuristic answers "nothing to do" -/
def exRegion (paths : List PathIn) : RegionIn :=
  { env := exEnv .only_stranded, sd := exSd, paths := paths, aops := [], fp := ⟨1, 30⟩, mapq := fun _ => 60,
    similar := fun _ => some [], post := fun _ m => some m, covTerm := fun _ => 0, ins1 := [],
    ins2 := [⟨"r4", false, []⟩, ⟨"r5", false, []⟩, ⟨"r6", false, []⟩], newGene := fun m => m.gene }

/-- the reads of one novel isoform that bridge the cut, as the second sub-region sees them: the same two introns, another
    5' end, the reads the multimap resolver kept there -/
def exPathB : PathIn :=
  { exPath with path := [(VERTEX_read_start, 30), (50, 90), (100, 200), (VERTEX_polya, 400)],
                reads := [("r4", "g"), ("r5", "g"), ("r6", "g")] }

def splitRegions : List RegionIn := [exRegion [exPath], exRegion [exPathB]]

/-- **chains_distinct_per_chromosome_orig_witness.** The code before the fix (`runChromosomeOrig`): two sub-regions of one
    cluster, each holding three reads of the novel isoform `(50,90),(100,200)` — every constructor is fine by itself, the
    chromosome reports the chain twice, under two transcript ids and in two `novel_gene_*` genes.  Reproduced on the real
    pipeline (docs/C04.md, `witness_dataset("split_region")`). -/
theorem chains_distinct_per_chromosome_orig_witness :
    (runChromosomeOrig (· + 1) splitRegions ChrState.init []).map (fun r =>
        (chrKeys r.2, r.2.map (fun s => s.models.map (fun m => (m.tid, m.gene))),
         r.2.map (fun s => (reportKeys s.models).length)))
      = some ([(.plus, [(50, 90), (100, 200)]), (.plus, [(50, 90), (100, 200)])],
              [[("transcript1.chr1.nnic", "novel_gene_chr1_2")], [("transcript3.chr1.nnic", "novel_gene_chr1_4")]],
              [1, 1]) := by
  decide +kernel

/-- hence the full-strength clause is false of the old code although the per-constructor clause holds in every region -/
theorem chains_distinct_per_chromosome_orig_false :
    ¬ (∀ reps cs', runChromosomeOrig (· + 1) splitRegions ChrState.init [] = some (cs', reps) →
        (∀ s ∈ reps, ChainsDistinctPerConstructor s) → ChainsDistinctPerChromosome reps) := by
  intro hall
  cases hrun : runChromosomeOrig (· + 1) splitRegions ChrState.init [] with
  | none =>
    have := chains_distinct_per_chromosome_orig_witness
    rw [hrun] at this
    simp at this
  | some p =>
    obtain ⟨cs', reps⟩ := p
    have hw := chains_distinct_per_chromosome_orig_witness
    rw [hrun] at hw
    simp only [Option.map_some, Option.some.injEq, Prod.mk.injEq] at hw
    obtain ⟨hk, _, hmap⟩ := hw
    have hper : ∀ s ∈ reps, ChainsDistinctPerConstructor s := by
      intro s hs
      have : (reportKeys s.models).length ∈ reps.map (fun s => (reportKeys s.models).length) :=
        List.mem_map.2 ⟨s, hs, rfl⟩
      rw [hmap] at this
      unfold ChainsDistinctPerConstructor
      simp only [List.mem_cons, List.not_mem_nil, or_false, or_self] at this
      match hl : reportKeys s.models, this with
      | [_], _ => simp
    have := hall reps cs' hrun hper
    unfold ChainsDistinctPerChromosome at this
    rw [hk] at this
    simp at this

/-- the second sub-region as the CURRENT code sees it: its reads span 30..400, and the assigner — asked about the copy of the model
    reported first — finds `r4 r5 r6` consistent with it -/
def exRegionB : RegionIn :=
  { exRegion [exPathB] with
    ins2 := [⟨"r4", true, ["transcript1.chr1.nnic"]⟩, ⟨"r5", true, ["transcript1.chr1.nnic"]⟩, ⟨"r6", true, ["transcript1.chr1.nnic"]⟩],
    span := some (30, 400) }

def splitRegions2 : List RegionIn := [exRegion [exPath], exRegionB]

/-- a second sub-region that holds only TWO reads of the isoform: below `min_novel_count`, no full-length path becomes a model -/
def exRegionFew : RegionIn :=
  { exRegion [] with
    ins2 := [⟨"r4", true, ["transcript1.chr1.nnic"]⟩, ⟨"r5", true, ["transcript1.chr1.nnic"]⟩], span := some (30, 400) }

def fewRegions : List RegionIn := [exRegion [exPath], exRegionFew]

/-- non-vacuity of `chains_distinct_per_chromosome` and regression of the fixes: the current code reports the chain once, the
    dict holds the first model, the second sub-region dumps no model and hands the id counter on -/
example : (runChromosomeFixed (· + 1) splitRegions2 ChrState.init []).map (fun r =>
        (chrKeys r.2, r.1.idv, r.2.map (fun s => (reportKeys s.models).length)))
      = some ([(Strand.plus, [(50, 90), (100, 200)])], 4, [1, 0]) ∧
    (runChromosomeFixed (· + 1) splitRegions2 ChrState.init []).map (fun r => r.1.reported.map (fun p => p.1))
      = some [(Strand.plus, [(50, 90), (100, 200)])] ∧
    (runChromosomeFixed (· + 1) splitRegions2 ChrState.init []).map (fun r => r.1.reported.map (fun p => (p.2.tid, p.2.exons)))
      = some [("transcript1.chr1.nnic", [(10, 49), (91, 99), (201, 400)])] := by
  decide +kernel

/-- … and the three reads of the second sub-region are listed under the id of the model reported first -/
example : (runChromosomeFixed (· + 1) splitRegions2 ChrState.init []).map (fun r =>
        r.2.map (fun s => (s.models.map (·.tid), s.dumpR2T)))
      = some [(["transcript1.chr1.nnic"], [("r1", "transcript1.chr1.nnic"), ("r2", "transcript1.chr1.nnic"), ("r3", "transcript1.chr1.nnic"),
                                         ("r4", "*"), ("r5", "*"), ("r6", "*")]),
              ([], [("r4", "transcript1.chr1.nnic"), ("r5", "transcript1.chr1.nnic"), ("r6", "transcript1.chr1.nnic")])] := by
  decide +kernel

/-- when the assigner finds the reads of the later sub-region INCONSISTENT with the model reported first (another polyA end:
    the '-' locus of the audit) they are `*`, as in a cluster that is not cut — fix 0c8e711 counted them for the first model -/
example : ((runChromosomeFixed (· + 1) splitRegions ChrState.init []).map (fun r => r.2.map (fun s => s.dumpR2T)),
           (runChromosome0c8e (· + 1) splitRegions ChrState.init []).map (fun r => r.2.map (fun s => s.dumpR2T)))
      = (some [[("r1", "transcript1.chr1.nnic"), ("r2", "transcript1.chr1.nnic"), ("r3", "transcript1.chr1.nnic"),
                ("r4", "*"), ("r5", "*"), ("r6", "*")], [("r4", "*"), ("r5", "*"), ("r6", "*")]],
         some [[("r1", "transcript1.chr1.nnic"), ("r2", "transcript1.chr1.nnic"), ("r3", "transcript1.chr1.nnic"),
                ("r4", "*"), ("r5", "*"), ("r6", "*")],
               [("r4", "transcript1.chr1.nnic"), ("r5", "transcript1.chr1.nnic"), ("r6", "transcript1.chr1.nnic")]]) := by
  decide +kernel

/-- non-vacuity of `unsplit_region_unchanged`: a second region with ANOTHER chain is reported as before -/
example : (runChromosomeFixed (· + 1) [exRegion [exPath],
        exRegion [{ exPathB with path := [(VERTEX_read_start, 30), (50, 90), (VERTEX_polya, 400)] }]] ChrState.init []).map
      (fun r => chrKeys r.2)
    = (runChromosomeOrig (· + 1) [exRegion [exPath],
        exRegion [{ exPathB with path := [(VERTEX_read_start, 30), (50, 90), (VERTEX_polya, 400)] }]] ChrState.init []).map
      (fun r => chrKeys r.2) := by
  decide +kernel

/-! ### round `c04rep`: the reads of a chain reported by an earlier constructor -/

instance : DecidableEq (String × ChainKey) := inferInstance
instance : DecidableEq (List (String × ChainKey)) := inferInstance
instance : DecidableEq (List (String × String)) := inferInstance
instance : DecidableEq (List (List (String × String))) := inferInstance

/-- (read, (strand, chain)) for every line of `transcript_model_reads` of the chromosome that names a novel spliced model of
    `transcript_models.gtf` (ids resolved over the whole chromosome: a line may name a model dumped by an earlier constructor) -/
def chrReadChains (reps : List Store) : List (String × ChainKey) :=
  let table := reps.flatMap (fun s => (s.models.filter isSplicedNovel).map (fun m => (m.tid, chainKey m)))
  reps.flatMap (fun s => s.dumpR2T.filterMap (fun p => (amGet? table p.2).map (fun k => (p.1, k))))

/-- the clause at full strength for one input: cutting the cluster (several records instead of one) changes ids, not which
    (strand, chain) a read is listed under — compared with the code before both fixes, which listed every read under the copy
    of its own constructor -/
def ReadsKeepTheirChain (run : (Nat → Nat) → List RegionIn → ChrState → List Store → Option (ChrState × List Store))
    (next : Nat → Nat) (regs : List RegionIn) : Prop :=
  (run next regs ChrState.init []).map (fun r => chrReadChains r.2) =
    (runChromosomeOrig next regs ChrState.init []).map (fun r => chrReadChains r.2)

/-- **reads_lost_b2b4dd9_witness.** The code of fix b2b4dd9 on the two sub-regions of `splitRegions` (three reads of the
    isoform `(50,90),(100,200)` in each): the second constructor deletes its copy through `delete_from_storage`, the three reads
    `r4 r5 r6` that supported it are printed with `*` and reach no counter — although `transcript1.chr1.nnic`, reported by the
    first constructor, IS their isoform.  Reproduced on the real pipeline (`witness_dataset("split_region_reads")`: 3 + 12 reads,
    12 lines `*`, `__no_feature 12`). -/
theorem reads_lost_b2b4dd9_witness :
    (runChromosomeB2b4 (· + 1) splitRegions ChrState.init []).map (fun r => (r.2.map (fun s => s.dumpR2T), chrReadChains r.2))
      = some ([[("r1", "transcript1.chr1.nnic"), ("r2", "transcript1.chr1.nnic"), ("r3", "transcript1.chr1.nnic"),
                ("r4", "*"), ("r5", "*"), ("r6", "*")],
               [("r4", "*"), ("r5", "*"), ("r6", "*")]],
              [("r1", (Strand.plus, [(50, 90), (100, 200)])), ("r2", (Strand.plus, [(50, 90), (100, 200)])),
               ("r3", (Strand.plus, [(50, 90), (100, 200)]))]) := by
  decide +kernel

/-- hence the full-strength clause is FALSE of fix b2b4dd9 … -/
theorem reads_keep_their_chain_b2b4dd9_false : ¬ ReadsKeepTheirChain runChromosomeB2b4 (· + 1) splitRegions := by
  unfold ReadsKeepTheirChain
  decide +kernel

/-- … and holds of the current code when the assigner accepts the reads for the model reported first: all six reads are
    listed under the chain, as before the fixes, now under ONE id -/
theorem reads_keep_their_chain_witness_input :
    ReadsKeepTheirChain runChromosomeFixed (· + 1) splitRegions2 ∧
    (runChromosomeFixed (· + 1) splitRegions2 ChrState.init []).map (fun r => (chrReadChains r.2).map (·.1))
      = some ["r1", "r2", "r3", "r4", "r5", "r6"] := by
  unfold ReadsKeepTheirChain
  decide +kernel

/-- **reads_lost_0c8e711_witness** (round `c04rep2`).  Fix 0c8e711 on `fewRegions`: the second sub-region holds two reads of the
    isoform — fewer than the novel cut-off, so no local copy exists that could take the first model's id; its storage is EMPTY,
    `assign_reads_to_models` zeroes every read without consulting the assigner, and `r4 r5` are printed `*` although
    `transcript1.chr1.nnic` IS their isoform (real pipeline, `witness_dataset("split_region_few_reads")`: 10 + 2 reads, 2 lines
    `*`, `__no_feature 2`; the same 12 reads in a cluster that is not cut: 12.00). -/
theorem reads_lost_0c8e711_witness :
    (runChromosome0c8e (· + 1) fewRegions ChrState.init []).map (fun r => (r.2.map (fun s => s.dumpR2T), chrReadChains r.2))
      = some ([[("r1", "transcript1.chr1.nnic"), ("r2", "transcript1.chr1.nnic"), ("r3", "transcript1.chr1.nnic"),
                ("r4", "*"), ("r5", "*"), ("r6", "*")],
               [("r4", "*"), ("r5", "*")]],
              [("r1", (Strand.plus, [(50, 90), (100, 200)])), ("r2", (Strand.plus, [(50, 90), (100, 200)])),
               ("r3", (Strand.plus, [(50, 90), (100, 200)]))]) := by
  decide +kernel

/-- … the current code on the same input (non-vacuity of `repeated_chain_keeps_reads` for a constructor WITHOUT a local copy):
    the copy of the first model joins the empty storage, the assigner is consulted, both reads are listed under its id -/
theorem reads_kept_without_local_copy_witness :
    (runChromosomeFixed (· + 1) fewRegions ChrState.init []).map (fun r => (r.2.map (fun s => (s.models.map (·.tid), s.dumpR2T)), chrReadChains r.2))
      = some ([(["transcript1.chr1.nnic"], [("r1", "transcript1.chr1.nnic"), ("r2", "transcript1.chr1.nnic"), ("r3", "transcript1.chr1.nnic"),
                ("r4", "*"), ("r5", "*"), ("r6", "*")]),
               ([], [("r4", "transcript1.chr1.nnic"), ("r5", "transcript1.chr1.nnic")])],
              [("r1", (Strand.plus, [(50, 90), (100, 200)])), ("r2", (Strand.plus, [(50, 90), (100, 200)])),
               ("r3", (Strand.plus, [(50, 90), (100, 200)])), ("r4", (Strand.plus, [(50, 90), (100, 200)])),
               ("r5", (Strand.plus, [(50, 90), (100, 200)]))]) := by
  decide +kernel

/-- the hypotheses of `repeated_chain_keeps_reads` on that input: the dict entry, the overlap, an empty storage, an unassigned read -/
def exFirstModel : TModel :=
  ⟨"chr1", .plus, "transcript1.chr1.nnic", "novel_gene_chr1_2", [(10, 49), (91, 99), (201, 400)], .novel_not_in_catalog, [(50, 90), (100, 200)]⟩

example : (Store.empty.dropJoin [((Strand.plus, [(50, 90), (100, 200)]), exFirstModel)] (some (30, 400))).map
        (fun r => (r.1.models.map (·.tid), r.2.1.map (·.tid), cnt r.1.rcount "r4"))
      = some (["transcript1.chr1.nnic"], [], 0) ∧
    exFirstModel.startPos = some 10 ∧ exFirstModel.endPos = some 400 := by
  decide +kernel

/-- non-vacuity of `drop_keeps_read_counts_0c8e711` / `repeated_chain_keeps_reads_0c8e711` (the step of fix 0c8e711): a storage with the
    repeated chain (model `a`, reads r4 r5) and a fresh model (`b`, read r7); the dict names `transcript1.chr1.nnic` -/
def exModelA : TModel :=
  ⟨"chr1", .plus, "a", "g", [(1, 49), (91, 99), (201, 300)], .novel_not_in_catalog, [(50, 90), (100, 200)]⟩
def exModelB : TModel :=
  ⟨"chr1", .plus, "b", "g", [(1, 49), (91, 300)], .novel_not_in_catalog, [(50, 90)]⟩
def exStoreRep : Store := (Store.empty.addModel exModelA ["r4", "r5"]).addModel exModelB ["r7"]

example : ChainsDistinctPerConstructor exStoreRep := by
  unfold ChainsDistinctPerConstructor; decide +kernel

example : (ids exStoreRep.models).Nodup ∧ CounterLe exStoreRep ∧
    (∀ p ∈ [((Strand.plus, [(50, 90), (100, 200)]), "transcript1.chr1.nnic")], p.2 ∉ ids exStoreRep.models) := by
  exact ⟨by decide +kernel, addModel_counterLe (addModel_counterLe counterLe_empty _ _) _ _, by decide +kernel⟩

example : (exStoreRep.dropKeep [((Strand.plus, [(50, 90), (100, 200)]), "transcript1.chr1.nnic")]).map
        (fun r => (r.1.readIds, r.1.counter, r.1.rcount, r.2.1.map (·.tid)))
      = some ([("b", ["r7"]), ("transcript1.chr1.nnic", ["r4", "r5"])], [("b", 1), ("transcript1.chr1.nnic", 2)],
              [("r4", 1), ("r5", 1), ("r7", 1)], ["b"]) := by
  decide +kernel

example : (exStoreRep.dropKeep [((Strand.plus, [(50, 90), (100, 200)]), "transcript1.chr1.nnic")]).map (fun r => r.2.2)
      = some [((Strand.plus, [(50, 90), (100, 200)]), "transcript1.chr1.nnic"), ((Strand.plus, [(50, 90)]), "b")] := by
  decide +kernel

/-- non-vacuity of `repeated_chain_keeps_reads_0c8e711`: `exModelA` repeats the chain of `transcript1.chr1.nnic`; its reads r4 r5 are
    printed under that id -/
example : exModelA ∈ exStoreRep.models ∧ isSplicedNovel exModelA = true ∧
    amGet? [((Strand.plus, [(50, 90), (100, 200)]), "transcript1.chr1.nnic")] (chainKey exModelA) = some "transcript1.chr1.nnic" ∧
    readsIn exStoreRep.readIds exModelA.tid = ["r4", "r5"] := by
  decide +kernel

example : (exStoreRep.dropKeep [((Strand.plus, [(50, 90), (100, 200)]), "transcript1.chr1.nnic")]).map
        (fun r => (r.1.assignReads []).dumpR2T)
      = some [("r7", "b"), ("r4", "transcript1.chr1.nnic"), ("r5", "transcript1.chr1.nnic")] := by
  decide +kernel

/-- **chains_distinct_per_chromosome_full_witness.** Without the per-constructor hypothesis the clause is still false of the
    repaired code: the known finding `monointron_apa_duplicates` (two polyA clusters, one intron) lives INSIDE one
    constructor, and a constructor is never compared with itself. -/
theorem chains_distinct_per_chromosome_full_witness :
    (runChromosomeFixed (· + 1) [exRegion apaPaths] ChrState.init []).map (fun r => chrKeys r.2)
      = some [(.plus, [(50, 90)]), (.plus, [(50, 90)])] := by
  decide +kernel

end IsoVerif.Props.C04Chromosome
