/-
C04 (growth `c04split`) — the non-redundancy clause PER CHROMOSOME.  Every other C04 theorem speaks about ONE
`GraphBasedModelConstructor` (one read cluster or one SUB-REGION of a cluster cut by `split_coverage_regions`); the statement
("the intron chain differs from that of every other reported novel transcript on the same strand") speaks about the chromosome.
Model: IsoVerif/Model/ChromosomeModels.lean (`runChromosome`: the constructors of one chromosome task in order, sharing
`detected_known_isoforms`, the id distributor and — since the fix — `reported_novel_chains`).
Property theorems only (helper lemmas: IsoVerif/Lemmas/ChromosomeModels.lean).
-/
import IsoVerif.Model.ChromosomeModels
import IsoVerif.Lemmas.ChromosomeModels
import IsoVerif.Props.C04

namespace IsoVerif.Props.C04Chromosome
open IsoVerif.Gen IsoVerif.Model IsoVerif.Model.C04 IsoVerif.Lemmas.C04 IsoVerif.Props.C04

/-- the clause of the statement at full strength: over the whole chromosome no (strand, intron chain) is reported twice -/
def ChainsDistinctPerChromosome (reps : List Store) : Prop := (chrKeys reps).Nodup

/-- the clause for ONE constructor (what `chains_distinct_among_novel_partial` / `C04Similar` are about) -/
def ChainsDistinctPerConstructor (s : Store) : Prop := (reportKeys s.models).Nodup

/-! ### the repaired code -/

/-- **chains_distinct_per_chromosome.** The repaired chromosome task (both class-level sets cleared, any id source, any
    number of (sub-)regions, any heuristic answers inside every constructor): if no constructor reports a chain twice BY
    ITSELF (the per-constructor clause; its only known failing class is `monointron_apa_duplicates`), then no (strand, intron
    chain) is reported twice on the chromosome — whatever alignments were handed to several sub-regions. -/
theorem chains_distinct_per_chromosome (next : Nat → Nat) (regs : List RegionIn) (cs' : ChrState) (reps : List Store)
    (h : runChromosomeFixed next regs ChrState.init [] = some (cs', reps))
    (hper : ∀ s ∈ reps, ChainsDistinctPerConstructor s) : ChainsDistinctPerChromosome reps :=
  (runChromosome_fixed_inv next regs ChrState.init [] cs' reps h (by intro k; simp [ChrState.init, chrKeys])).2
    (by simp [chrKeys]) hper

/-- **chains_distinct_per_chromosome_iff.** … and conversely: the chromosome run adds NO duplicate of its own — the clause
    holds on the chromosome exactly when it holds inside every constructor. -/
theorem chains_distinct_per_chromosome_iff (next : Nat → Nat) (regs : List RegionIn) (cs' : ChrState) (reps : List Store)
    (h : runChromosomeFixed next regs ChrState.init [] = some (cs', reps)) :
    ChainsDistinctPerChromosome reps ↔ ∀ s ∈ reps, ChainsDistinctPerConstructor s := by
  refine ⟨fun hnd s hs => ?_, chains_distinct_per_chromosome next regs cs' reps h⟩
  unfold ChainsDistinctPerChromosome at hnd
  unfold ChainsDistinctPerConstructor
  obtain ⟨a, b, rfl⟩ := List.append_of_mem hs
  rw [chrKeys_append, List.nodup_append] at hnd
  have h2 := hnd.2.1
  have : chrKeys (s :: b) = reportKeys s.models ++ chrKeys b := by simp [chrKeys]
  rw [this, List.nodup_append] at h2
  exact h2.1

/-- **reported_set_is_reported_keys.** At every point of the repaired chromosome task `reported_novel_chains` holds exactly
    the (strand, chain) keys of the novel spliced models REPORTED so far: a model is only ever dropped in favour of a twin that
    is in the output (no chain is lost, see `no_chain_lost`), and nothing else enters the set. -/
theorem reported_set_is_reported_keys (next : Nat → Nat) (regs : List RegionIn) (cs' : ChrState) (reps : List Store)
    (h : runChromosomeFixed next regs ChrState.init [] = some (cs', reps)) :
    ∀ k, k ∈ cs'.reported ↔ k ∈ chrKeys reps :=
  (runChromosome_fixed_inv next regs ChrState.init [] cs' reps h (by intro k; simp [ChrState.init, chrKeys])).1

/-- **no_chain_lost.** The new step deletes a model only if its key is in the set handed over by the earlier constructors;
    every other novel spliced model that passed `filter_transcripts` is reported by this constructor, with its chain. -/
theorem no_chain_lost (reported rep' : List ChainKey) (r : RegionIn) (s5 s : Store)
    (h : regionTail true reported r s5 = some (s, rep')) :
    ∀ m ∈ s5.models, isSplicedNovel m = true → chainKey m ∈ reported ∨ chainKey m ∈ reportKeys s.models := by
  intro m hm hsn
  obtain ⟨hk, _, _⟩ := regionTail_fixed_spec h
  by_cases hin : chainKey m ∈ reported
  · exact Or.inl hin
  · refine Or.inr ?_
    rw [hk]
    exact mem_reportKeys.2 ⟨m, List.mem_filter.2 ⟨hm, by simp [keepModel, hsn, hin]⟩, hsn, rfl⟩

/-- **unsplit_region_unchanged.** Safety of the repair: a constructor none of whose novel spliced models repeats a chain
    reported by an EARLIER constructor dumps exactly the storage the code before the fix dumps (same models, same
    `transcript_model_reads` bookkeeping); only the class-level set differs.  Read clusters are disjoint intervals and every
    intron of a model lies inside its cluster, so this covers every cluster that is not cut. -/
theorem unsplit_region_unchanged (next : Nat → Nat) (cs : ChrState) (r : RegionIn) (st2 : FLState) (s5 : Store)
    (hh : regionHead next cs r = some (st2, s5))
    (hfresh : ∀ m ∈ s5.models, isSplicedNovel m = true → chainKey m ∉ cs.reported) :
    (processRegion true next cs r).map (·.2) = (processRegion false next cs r).map (·.2) := by
  have hall : ∀ m ∈ s5.models, keepModel cs.reported m = true := by
    intro m hm
    unfold keepModel
    cases hsn : isSplicedNovel m with
    | false => simp
    | true => simp [hfresh m hm hsn]
  have hd : s5.dropReported cs.reported = some (s5, keyUnion cs.reported (reportKeys s5.models)) := by
    unfold Store.dropReported
    rw [dropLoop_all_kept _ _ _ _ hall]
    simp
  simp only [processRegion, hh, regionTail, hd, if_true, Bool.false_eq_true, if_false, Option.map_some]

/-- **first_region_unchanged.** In particular the first constructor of a chromosome (empty set) is never affected. -/
theorem first_region_unchanged (next : Nat → Nat) (det : List String) (idv : Nat) (r : RegionIn) :
    (processRegion true next ⟨det, idv, []⟩ r).map (·.2) = (processRegion false next ⟨det, idv, []⟩ r).map (·.2) := by
  cases hh : regionHead next ⟨det, idv, []⟩ r with
  | none => simp [processRegion, hh]
  | some p =>
    obtain ⟨st2, s5⟩ := p
    exact unsplit_region_unchanged next _ r st2 s5 hh (by intro m _ _; simp)

/-- **drop_keeps_bookkeeping.** `drop_novel_chains_reported_elsewhere` deletes through `delete_from_storage`, so the
    invariants behind the `transcript_model_reads` clauses survive it: lines name stored models only (`R2TInv`), counters
    stay below the read lists (`CounterLe`), the kept models are a sub-list, and a kept model keeps its counter and its reads
    (so `has_supporting_read` carries over: the count that passed `filter_transcripts` is still there). -/
theorem drop_keeps_bookkeeping (s s' : Store) (reported rep' : List ChainKey)
    (h : s.dropReported reported = some (s', rep')) :
    s'.models.Sublist s.models ∧ (R2TInv s → R2TInv s') ∧ (CounterLe s → CounterLe s') ∧
    ((ids s.models).Nodup → ∀ m ∈ s'.models,
        cnt s'.counter m.tid = cnt s.counter m.tid ∧ readsIn s'.readIds m.tid = readsIn s.readIds m.tid) := by
  obtain ⟨hm, _, D, hcov, hsh, hnD⟩ := dropReported_spec h
  refine ⟨by rw [hm]; exact List.filter_sublist, ?_, fun hc => hsh.counterLe hc, ?_⟩
  · intro hinv q hq hne
    rcases hsh.entries q hq with h1 | ⟨h1, h2⟩
    · exact absurd h1 hne
    · have := hinv q h1 hne
      simp only [ids, List.mem_map] at this ⊢
      obtain ⟨m, hmm, hmt⟩ := this
      rcases hcov m hmm with h3 | h3
      · exact ⟨m, h3, hmt⟩
      · rw [hmt] at h3; exact absurd h3 h2
  · intro hnd m hmem
    have := hnD hnd m hmem
    rw [hsh.counter, hsh.reads]
    simp [this]

/-- **supporting_read_after_drop.** The clause "≥ 1 read in `transcript_model_reads`" through the repaired tail of `process()`:
    a non-known model that is dumped had at least `min_novel_count ≥ 1` reads counted when `filter_transcripts` kept it, and
    neither the drop nor the second `assign_reads_to_models` takes a read away from a kept model. -/
theorem supporting_read_after_drop (s5 s6 : Store) (reported rep' : List ChainKey) (ins : List AssignIn) (minCount : Int)
    (hpos : 1 ≤ minCount) (hnd : (ids s5.models).Nodup) (hle : CounterLe s5)
    (hcount : ∀ m ∈ s5.models, m.ttype ≠ .known → minCount ≤ cnt s5.counter m.tid)
    (h : s5.dropReported reported = some (s6, rep')) :
    ∀ m ∈ (s6.assignReads ins).models, m.ttype ≠ .known → ∃ r, (r, m.tid) ∈ (s6.assignReads ins).dumpR2T := by
  obtain ⟨hsub, _, hc, hkeep⟩ := drop_keeps_bookkeeping s5 s6 reported rep' h
  have hg := assignReads_grow s6 ins
  intro m hm hnovel
  rw [hg.models] at hm
  have h1 := (hkeep hnd m hm).1
  have h2 := hcount m (hsub.subset hm) hnovel
  have hle2 := hc hle m.tid
  have hlen' : 1 ≤ (readsIn (s6.assignReads ins).readIds m.tid).length := by
    have := (hg.reads m.tid).length_le
    omega
  cases hr : readsIn (s6.assignReads ins).readIds m.tid with
  | nil => rw [hr] at hlen'; simp at hlen'
  | cons r t => exact ⟨r, mem_dump_of_reads (by rw [hr]; simp)⟩

/-! ### concrete inputs: the witness of the defect and the non-vacuity examples -/

/-- one (sub-)region with the given full-length paths; every heuristic answers "nothing to do" -/
def exRegion (paths : List PathIn) : RegionIn :=
  { env := exEnv .only_stranded, sd := exSd, paths := paths, aops := [], fp := ⟨1, 30⟩, mapq := fun _ => 60,
    similar := fun _ => some [], post := fun _ m => some m, covTerm := fun _ => 0, ins1 := [],
    ins2 := [⟨"r4", false, []⟩, ⟨"r5", false, []⟩, ⟨"r6", false, []⟩], newGene := fun m => m.gene }

/-- the reads of one novel isoform that bridge the cut, as the second sub-region sees them: the same two introns, another
    5' end, the reads the multimap resolver kept there -/
def exPathB : PathIn :=
  { exPath with path := [(VERTEX_read_start, 30), (50, 90), (100, 200), (VERTEX_polya, 400)],
                reads := [("r4", "g"), ("r5", "g"), ("r6", "g")] }

def splitRegions : List RegionIn := [exRegion [exPath], exRegion [exPathB]]

/-- **chains_distinct_per_chromosome_orig_witness.** The code before the fix (`runChromosomeOrig`): two sub-regions of one
    cluster, each holding three reads of the novel isoform `(50,90),(100,200)` — every constructor is fine by itself, the
    chromosome reports the chain twice, under two transcript ids and in two `novel_gene_*` genes.  Reproduced on the real
    pipeline (docs/C04.md, `witness_dataset("split_region")`). -/
theorem chains_distinct_per_chromosome_orig_witness :
    (runChromosomeOrig (· + 1) splitRegions ChrState.init []).map (fun r =>
        (chrKeys r.2, r.2.map (fun s => s.models.map (fun m => (m.tid, m.gene))),
         r.2.map (fun s => (reportKeys s.models).length)))
      = some ([(.plus, [(50, 90), (100, 200)]), (.plus, [(50, 90), (100, 200)])],
              [[("transcript1.chr1.nnic", "novel_gene_chr1_2")], [("transcript3.chr1.nnic", "novel_gene_chr1_4")]],
              [1, 1]) := by
  decide +kernel

/-- hence the full-strength clause is false of the old code although the per-constructor clause holds in every region -/
theorem chains_distinct_per_chromosome_orig_false :
    ¬ (∀ reps cs', runChromosomeOrig (· + 1) splitRegions ChrState.init [] = some (cs', reps) →
        (∀ s ∈ reps, ChainsDistinctPerConstructor s) → ChainsDistinctPerChromosome reps) := by
  intro hall
  cases hrun : runChromosomeOrig (· + 1) splitRegions ChrState.init [] with
  | none =>
    have := chains_distinct_per_chromosome_orig_witness
    rw [hrun] at this
    simp at this
  | some p =>
    obtain ⟨cs', reps⟩ := p
    have hw := chains_distinct_per_chromosome_orig_witness
    rw [hrun] at hw
    simp only [Option.map_some, Option.some.injEq, Prod.mk.injEq] at hw
    obtain ⟨hk, _, hmap⟩ := hw
    have hper : ∀ s ∈ reps, ChainsDistinctPerConstructor s := by
      intro s hs
      have : (reportKeys s.models).length ∈ reps.map (fun s => (reportKeys s.models).length) :=
        List.mem_map.2 ⟨s, hs, rfl⟩
      rw [hmap] at this
      unfold ChainsDistinctPerConstructor
      simp only [List.mem_cons, List.not_mem_nil, or_false, or_self] at this
      match hl : reportKeys s.models, this with
      | [_], _ => simp
    have := hall reps cs' hrun hper
    unfold ChainsDistinctPerChromosome at this
    rw [hk] at this
    simp at this

/-- non-vacuity of `chains_distinct_per_chromosome` and regression of the fix: on the same input the repaired code reports
    the chain once; the second sub-region drops its copy, lists its three reads with `*` and hands the id counter on -/
example : (runChromosomeFixed (· + 1) splitRegions ChrState.init []).map (fun r =>
        (chrKeys r.2, r.1.reported, r.1.idv, r.2.map (fun s => (reportKeys s.models).length)))
      = some ([(.plus, [(50, 90), (100, 200)])], [(.plus, [(50, 90), (100, 200)])], 4, [1, 0]) := by
  decide +kernel

example : (runChromosomeFixed (· + 1) splitRegions ChrState.init []).map (fun r =>
        r.2.map (fun s => (s.models.map (·.tid), s.dumpR2T.map (·.2))))
      = some [(["transcript1.chr1.nnic"], ["transcript1.chr1.nnic", "transcript1.chr1.nnic", "transcript1.chr1.nnic", "*", "*", "*"]),
              ([], ["*", "*", "*"])] := by
  decide +kernel

/-- non-vacuity of `unsplit_region_unchanged`: a second region with ANOTHER chain is reported as before -/
example : (runChromosomeFixed (· + 1) [exRegion [exPath],
        exRegion [{ exPathB with path := [(VERTEX_read_start, 30), (50, 90), (VERTEX_polya, 400)] }]] ChrState.init []).map
      (fun r => chrKeys r.2)
    = (runChromosomeOrig (· + 1) [exRegion [exPath],
        exRegion [{ exPathB with path := [(VERTEX_read_start, 30), (50, 90), (VERTEX_polya, 400)] }]] ChrState.init []).map
      (fun r => chrKeys r.2) := by
  decide +kernel

/-- **chains_distinct_per_chromosome_full_witness.** Without the per-constructor hypothesis the clause is still false of the
    repaired code: the known finding `monointron_apa_duplicates` (two polyA clusters, one intron) lives INSIDE one
    constructor, and a constructor is never compared with itself. -/
theorem chains_distinct_per_chromosome_full_witness :
    (runChromosomeFixed (· + 1) [exRegion apaPaths] ChrState.init []).map (fun r => chrKeys r.2)
      = some [(.plus, [(50, 90)]), (.plus, [(50, 90)])] := by
  decide +kernel

end IsoVerif.Props.C04Chromosome
