/-
C16 (part 6) — what `PolyAFinder.find_polya_tail` / `find_polyt_head` (src/polya_finder.py) report.

* `tail_scan_spec`: the query-level scan (window scan + "entire tail" fraction test) in terms of the first window of
  the checked sequence (soft-clipped + aligned end of the read) that reaches the A fraction;
* `find_polya_tail_spec` / `find_polyt_head_spec`: the reported reference position in terms of that query position and
  the base-by-base projection of Props/C16MoveRef.lean, with its range;
* `polya_position_in_range` / `polyt_position_in_range`: the position lies inside
  `[reference_start + 1, reference_end + clip]` (resp. `[reference_start − clip, reference_end − 1]`, clamped at 1),
  with the one corner (alignment ending in an insertion and no soft clip) kept visible as a witness;
* `polyt_polya_mirror_law`: on a tail both scans agree on, polyT(mirrored read) = mirror(polyA) − 2.
-/
import IsoVerif.Model.TailSpec
import IsoVerif.Lemmas.FinderSpec
import IsoVerif.Props.C16MoveRef

namespace IsoVerif.Props.C16FinderSpec
open IsoVerif.Gen IsoVerif.Model IsoVerif.Model.C16 IsoVerif.Lemmas.C16

/-- **tail_scan_spec** — the query-level answer shared by both finders, for every checked sequence and every
    window `w ≥ 1`, threshold `c = ⌊w·num/den⌋`: a position `p` is reported iff there is a first window `[i, i+w)`
    ending strictly before the end of the checked sequence with at least `c` A's, `p` is `i` advanced to the first
    "AA" at or after `i`, and (internal finder, `check_entire_tail`) the whole rest of the checked sequence from `p`
    holds at least the fraction `num/den` of A's; otherwise nothing is reported. -/
theorem tail_scan_spec (w num den : Nat) (hw : 1 ≤ w) (chk : Bool) (region : List Bool) :
    match tailScan w num den chk region with
    | some p => ∃ i, FirstWindow region w (w * num / den) i ∧ p = i + (findAA (region.drop i)).getD 0 ∧
        p < region.length ∧
        (chk = true → (region.drop p).length * num ≤ countTrue (region.drop p) * den)
    | none => (∀ j, j + w < region.length → winCount region j w < w * num / den) ∨
        (chk = true ∧ ∃ i, FirstWindow region w (w * num / den) i ∧
          countTrue (region.drop (i + (findAA (region.drop i)).getD 0)) * den <
            (region.drop (i + (findAA (region.drop i)).getD 0)).length * num) :=
  tailScan_spec w num den hw chk region

/-- non-vacuity: 4 non-A bases, 20 A's: first window 0, advanced to the first "AA" at 4; the whole rest is A -/
example : tailScan 16 3 4 true ([false, false, false, false] ++ List.replicate 20 true) = some 4 := by decide
/-- the fraction test rejects a tail whose rest is A-poor: 14 A's followed by 20 non-A -/
example : tailScan 16 3 4 true (List.replicate 14 true ++ List.replicate 20 false) = none ∧
    tailScan 16 3 4 false (List.replicate 14 true ++ List.replicate 20 false) = some 0 := by decide

/-- **find_polya_tail_spec** — for every record (CIGAR over all nine kinds with lengths ≥ 0, non-empty sequence longer
    than the soft-clipped tail), every `from_pos`, `to_pos`, `check_entire_tail`:
    nothing found by the scan ⇒ −1; otherwise with `q` the query index of the first base of the tail:
    * `q` in the soft-clipped tail ⇒ `reference_end + (q − mapped end)` (extrapolated past the alignment);
    * `q` inside the aligned part ⇒ `reference_end − k` where `k` is the base-by-base projection, walking back from
      the alignment end, of the query base `mapped end − q` bases inside (that is the base just before the tail):
      the reported position is the 1-based reference coordinate of the base before the tail (of the nearest reference
      base to its right if that base is an insertion); it lies in `[reference_start + 1, reference_end + 1]`, and
      in `[reference_start + 1, reference_end]` unless the alignment ends (clips aside) with an insertion. -/
theorem find_polya_tail_spec (w num den : Nat) (hw : 1 ≤ w) (s : Int) (cigar : List CigarOp) (seq : List Char)
    (fromPos toPos : Int) (chk : Bool) (hne : cigar ≠ []) (hseq : seq ≠ [])
    (hclip : softClipTail cigar < seq.length) (hnn : NonNeg cigar) :
    match tailScan w num den chk (regionA cigar seq fromPos toPos) with
    | none => findPolyaTail w num den s cigar seq fromPos toPos chk = some (-1)
    | some p =>
      startA cigar seq fromPos + p < seq.length ∧
      ((seq.length : Int) - softClipTail cigar ≤ startA cigar seq fromPos + p →
        findPolyaTail w num den s cigar seq fromPos toPos chk =
          some (referenceEnd s cigar + (startA cigar seq fromPos + p - ((seq.length : Int) - softClipTail cigar)))) ∧
      (startA cigar seq fromPos + p < (seq.length : Int) - softClipTail cigar →
        findPolyaTail w num den s cigar seq fromPos toPos chk =
          (moveRefCoord cigar (startA cigar seq fromPos + p - ((seq.length : Int) - softClipTail cigar))).map
            (referenceEnd s cigar - ·) ∧
        ∀ r, findPolyaTail w num den s cigar seq fromPos toPos chk = some r →
          ∃ k, ProjectsTo (expand (walkCore cigar false))
                ((seq.length : Int) - softClipTail cigar - (startA cigar seq fromPos + p)).toNat k ∧
            r = referenceEnd s cigar - k ∧ s + 1 ≤ r ∧ r ≤ referenceEnd s cigar + 1 ∧
            (WalkOnRef cigar false → r ≤ referenceEnd s cigar)) := by
  have hunf : findPolyaTail w num den s cigar seq fromPos toPos chk =
      match tailScan w num den chk (regionA cigar seq fromPos toPos) with
      | none => some (-1)
      | some p =>
        if startA cigar seq fromPos + p ≥ (seq.length : Int) - softClipTail cigar then
          some (referenceEnd s cigar + (startA cigar seq fromPos + p - ((seq.length : Int) - softClipTail cigar)))
        else
          (moveRefCoord cigar (startA cigar seq fromPos + p - ((seq.length : Int) - softClipTail cigar))).map
            (referenceEnd s cigar - ·) := by
    unfold findPolyaTail regionA startA
    simp only [hne, hseq, if_false, hclip, not_true_eq_false]
    cases tailScan w num den chk _ with
    | none => rfl
    | some p =>
      simp only
      split
      · rfl
      · cases moveRefCoord cigar _ <;> rfl
  cases hts : tailScan w num den chk (regionA cigar seq fromPos toPos) with
  | none => rw [hunf, hts]
  | some p =>
    have hp := tailScan_lt w num den hw chk _ p hts
    have hlen : (regionA cigar seq fromPos toPos).length ≤
        (min (seq.length : Int) ((seq.length : Int) - softClipTail cigar + toPos + 1)).toNat -
          (startA cigar seq fromPos).toNat := by
      unfold regionA startA; rw [List.length_map]; exact slice_length_le _ _ _
    have hs0 : 0 ≤ startA cigar seq fromPos := by unfold startA; omega
    have hq : startA cigar seq fromPos + p < seq.length := by omega
    simp only
    refine ⟨hq, ?_, ?_⟩
    · intro hge
      rw [hunf, hts]; simp only [ge_iff_le, hge, if_true]
    · intro hlt
      have hnge : ¬ (startA cigar seq fromPos + p ≥ (seq.length : Int) - softClipTail cigar) := by omega
      have heq : findPolyaTail w num den s cigar seq fromPos toPos chk =
          (moveRefCoord cigar (startA cigar seq fromPos + p - ((seq.length : Int) - softClipTail cigar))).map
            (referenceEnd s cigar - ·) := by
        rw [hunf, hts]; simp only [hnge, if_false]
      refine ⟨heq, ?_⟩
      intro r hr
      rw [heq] at hr
      cases hm : moveRefCoord cigar (startA cigar seq fromPos + p - ((seq.length : Int) - softClipTail cigar)) with
      | none => rw [hm] at hr; cases hr
      | some k =>
        rw [hm] at hr
        simp only [Option.map_some, Option.some.injEq] at hr
        have hsh : startA cigar seq fromPos + p - ((seq.length : Int) - softClipTail cigar) ≠ 0 := by omega
        obtain ⟨h1, h2, h3, h4⟩ := moveRefCoord_some cigar _ k hnn hsh hm
        have hdec : decide (startA cigar seq fromPos + p - ((seq.length : Int) - softClipTail cigar) > 0) = false := by
          simp; omega
        rw [hdec] at h1 h4
        have hnat : (startA cigar seq fromPos + p - ((seq.length : Int) - softClipTail cigar)).natAbs =
            ((seq.length : Int) - softClipTail cigar - (startA cigar seq fromPos + p)).toNat := by omega
        rw [hnat] at h1
        obtain ⟨g1, g2⟩ := referenceEnd_ge s cigar hnn
        refine ⟨k, h1, hr.symm, by omega, by omega, ?_⟩
        intro hw'
        have := h4 hw'
        omega

/-- **find_polyt_head_spec** — mirror statement for the 5' side: nothing found ⇒ −1; otherwise with `q` the query
    index of the last base of the head (the scan runs on the reverse complement):
    * `q` in the soft-clipped head (or on the first aligned base) ⇒ `max 1 (reference_start − (mapped start − q))`;
    * `q` inside the aligned part ⇒ `max 1 (reference_start + k)` with `k` the base-by-base projection, walking from
      the alignment start, of the query base `q − mapped start` bases inside: the 0-based reference coordinate of the
      last base of the head (of the nearest reference base to its left if it is an insertion). -/
theorem find_polyt_head_spec (w num den : Nat) (hw : 1 ≤ w) (s : Int) (cigar : List CigarOp) (seq : List Char)
    (fromPos toPos : Int) (chk : Bool) (hne : cigar ≠ []) (hseq : seq ≠ [])
    (hclip : softClipHead cigar < seq.length) (hnn : NonNeg cigar) :
    match tailScan w num den chk (regionT cigar seq fromPos toPos) with
    | none => findPolytHead w num den s cigar seq fromPos toPos chk = some (-1)
    | some p =>
      0 ≤ stopT cigar seq fromPos - p - 1 ∧
      (stopT cigar seq fromPos - p - 1 ≤ softClipHead cigar →
        findPolytHead w num den s cigar seq fromPos toPos chk =
          some (max 1 (s - (softClipHead cigar - (stopT cigar seq fromPos - p - 1))))) ∧
      (softClipHead cigar < stopT cigar seq fromPos - p - 1 →
        findPolytHead w num den s cigar seq fromPos toPos chk =
          (moveRefCoord cigar (stopT cigar seq fromPos - p - 1 - softClipHead cigar)).map (fun k => max 1 (s + k)) ∧
        ∀ r, findPolytHead w num den s cigar seq fromPos toPos chk = some r →
          ∃ k, ProjectsTo (expand (walkCore cigar true))
                (stopT cigar seq fromPos - p - 1 - softClipHead cigar).toNat k ∧
            r = max 1 (s + k) ∧ s - 1 ≤ s + k ∧ s + k ≤ referenceEnd s cigar - 1 ∧
            (WalkOnRef cigar true → s ≤ s + k)) := by
  have hunf : findPolytHead w num den s cigar seq fromPos toPos chk =
      match tailScan w num den chk (regionT cigar seq fromPos toPos) with
      | none => some (-1)
      | some p =>
        if stopT cigar seq fromPos - p - 1 ≤ softClipHead cigar then
          some (max 1 (s - (softClipHead cigar - (stopT cigar seq fromPos - p - 1))))
        else
          (moveRefCoord cigar (stopT cigar seq fromPos - p - 1 - softClipHead cigar)).map (fun k => max 1 (s + k)) := by
    unfold findPolytHead regionT stopT
    simp only [hne, hseq, if_false, hclip, not_true_eq_false]
    cases tailScan w num den chk _ with
    | none => rfl
    | some p =>
      simp only
      split
      · rfl
      · cases moveRefCoord cigar _ <;> rfl
  cases hts : tailScan w num den chk (regionT cigar seq fromPos toPos) with
  | none => rw [hunf, hts]
  | some p =>
    have hp := tailScan_lt w num den hw chk _ p hts
    have hlen : (regionT cigar seq fromPos toPos).length ≤
        (stopT cigar seq fromPos).toNat - (max 0 (softClipHead cigar - toPos)).toNat := by
      unfold regionT stopT; rw [List.length_map, List.length_reverse]; exact slice_length_le _ _ _
    have hq : 0 ≤ stopT cigar seq fromPos - p - 1 := by omega
    simp only
    refine ⟨hq, ?_, ?_⟩
    · intro hle
      rw [hunf, hts]; simp only [hle, if_true]
    · intro hlt
      have hnle : ¬ (stopT cigar seq fromPos - p - 1 ≤ softClipHead cigar) := by omega
      have heq : findPolytHead w num den s cigar seq fromPos toPos chk =
          (moveRefCoord cigar (stopT cigar seq fromPos - p - 1 - softClipHead cigar)).map (fun k => max 1 (s + k)) := by
        rw [hunf, hts]; simp only [hnle, if_false]
      refine ⟨heq, ?_⟩
      intro r hr
      rw [heq] at hr
      cases hm : moveRefCoord cigar (stopT cigar seq fromPos - p - 1 - softClipHead cigar) with
      | none => rw [hm] at hr; cases hr
      | some k =>
        rw [hm] at hr
        simp only [Option.map_some, Option.some.injEq] at hr
        have hsh : stopT cigar seq fromPos - p - 1 - softClipHead cigar ≠ 0 := by omega
        obtain ⟨h1, h2, h3, h4⟩ := moveRefCoord_some cigar _ k hnn hsh hm
        have hdec : decide (stopT cigar seq fromPos - p - 1 - softClipHead cigar > 0) = true := by
          simp; omega
        rw [hdec] at h1 h4
        have hnat : (stopT cigar seq fromPos - p - 1 - softClipHead cigar).natAbs =
            (stopT cigar seq fromPos - p - 1 - softClipHead cigar).toNat := by omega
        rw [hnat] at h1
        obtain ⟨g1, g2⟩ := referenceEnd_ge s cigar hnn
        refine ⟨k, h1, hr.symm, by omega, by omega, ?_⟩
        intro hw'
        have := h4 hw'
        omega

/-- **polya_position_in_range** — whenever a tail is found, the reported reference position lies in
    `[reference_start + 1, reference_end + max 1 clip]`; in `[reference_start + 1, reference_end + clip]` as soon as
    the alignment does not end (clips aside) with an insertion (`clip` = length of the soft-clipped tail) -/
theorem polya_position_in_range (w num den : Nat) (hw : 1 ≤ w) (s : Int) (cigar : List CigarOp) (seq : List Char)
    (fromPos toPos : Int) (chk : Bool) (hne : cigar ≠ []) (hseq : seq ≠ [])
    (hclip : softClipTail cigar < seq.length) (hnn : NonNeg cigar) (p : Nat)
    (hts : tailScan w num den chk (regionA cigar seq fromPos toPos) = some p) (r : Int)
    (hr : findPolyaTail w num den s cigar seq fromPos toPos chk = some r) :
    s + 1 ≤ r ∧ r ≤ referenceEnd s cigar + max 1 (softClipTail cigar) ∧
    (WalkOnRef cigar false → r ≤ referenceEnd s cigar + softClipTail cigar) := by
  have h := find_polya_tail_spec w num den hw s cigar seq fromPos toPos chk hne hseq hclip hnn
  rw [hts] at h
  obtain ⟨hq, hext, hint⟩ := h
  have hc0 := softClipTail_nonneg hnn
  obtain ⟨g1, g2⟩ := referenceEnd_ge s cigar hnn
  by_cases hge : (seq.length : Int) - softClipTail cigar ≤ startA cigar seq fromPos + p
  · rw [hext hge] at hr
    have := Option.some.inj hr
    omega
  · obtain ⟨_, hall⟩ := hint (by omega)
    obtain ⟨k, _, _, h1, h2, h3⟩ := hall r hr
    refine ⟨h1, by omega, fun hw' => ?_⟩
    have := h3 hw'
    omega

/-- **polyt_position_in_range** — the polyT position lies in `[max 1 (reference_start − max 1 clip), max 1
    (reference_end − 1)]`; at or after `max 1 (reference_start − clip)` as soon as the alignment does not start (clips
    aside) with an insertion -/
theorem polyt_position_in_range (w num den : Nat) (hw : 1 ≤ w) (s : Int) (cigar : List CigarOp) (seq : List Char)
    (fromPos toPos : Int) (chk : Bool) (hne : cigar ≠ []) (hseq : seq ≠ [])
    (hclip : softClipHead cigar < seq.length) (hnn : NonNeg cigar) (p : Nat)
    (hts : tailScan w num den chk (regionT cigar seq fromPos toPos) = some p) (r : Int)
    (hr : findPolytHead w num den s cigar seq fromPos toPos chk = some r) :
    max 1 (s - max 1 (softClipHead cigar)) ≤ r ∧ r ≤ max 1 (referenceEnd s cigar - 1) ∧
    (WalkOnRef cigar true → max 1 (s - softClipHead cigar) ≤ r) := by
  have h := find_polyt_head_spec w num den hw s cigar seq fromPos toPos chk hne hseq hclip hnn
  rw [hts] at h
  obtain ⟨hq, hext, hint⟩ := h
  have hc0 := softClipHead_nonneg hnn
  obtain ⟨g1, g2⟩ := referenceEnd_ge s cigar hnn
  by_cases hle : stopT cigar seq fromPos - p - 1 ≤ softClipHead cigar
  · rw [hext hle] at hr
    have := Option.some.inj hr
    omega
  · obtain ⟨_, hall⟩ := hint (by omega)
    obtain ⟨k, _, hk, h1, h2, h3⟩ := hall r hr
    refine ⟨by omega, by omega, fun hw' => ?_⟩
    have := h3 hw'
    omega

/-- **polya_beyond_reference_end_witness** — the corner the range theorem excludes is real (model = code): an
    alignment `4M3I` without soft clip whose tail starts inside the trailing insertion is reported at
    `reference_end + 1`, i.e. beyond `reference_end + clip` (window 2, fraction 1/2; `CCCCCAA` at position 100) -/
theorem polya_beyond_reference_end_witness :
    findPolyaTail 2 1 2 100 [(.«match», 4), (.insertion, 3)] "CCCCCAA".toList 8 2 true = some 105 ∧
    referenceEnd 100 [(.«match», 4), (.insertion, 3)] = 104 ∧
    softClipTail [(.«match», 4), (.insertion, 3)] = 0 := by decide

/-- non-vacuity of the two range theorems (default window 16, fraction 3/4): 30 aligned bases ending in `…CCCC`,
    a 20-base soft-clipped A tail; 20-base soft-clipped T head -/
example :
    findPolyaTail 16 3 4 1000 [(.«match», 30), (.soft_clipping, 20)]
      (List.replicate 30 'C' ++ List.replicate 20 'A') 2 32 false = some 1030 ∧
    findPolytHead 16 3 4 1000 [(.soft_clipping, 20), (.«match», 30)]
      (List.replicate 20 'T' ++ List.replicate 30 'C') 2 32 false = some 999 := by decide

/-! ### polyT = mirror(polyA) − 2 -/

/-- **polyt_polya_mirror_law** — the read `(s, cigar, seq)` and its mirror image `(L − reference_end,
    reversed cigar, reverse complement)` (1-based coordinate `x ↦ L + 1 − x`).  If the polyA scan on the read and the
    polyT scan on the mirror image settle on the same base, and the tail starts in the soft clip or inside the last
    match operation (with at least one base of that operation before it), then
    `find_polyt_head(mirror) = max 1 (L − 1 − find_polya_tail(read))`: the mirror image of the polyA position minus 2
    (polyA is reported as the 1-based coordinate of the base before the tail, polyT as the 0-based coordinate of the
    last base of the head).  Reverse complement enters only through `hrc` (T/t ↦ A/a and nothing else ↦ A/a). -/
theorem polyt_polya_mirror_law (w num den : Nat) (hw : 1 ≤ w) (s L : Int) (cigar : List CigarOp)
    (seq seq' : List Char) (fromPos toPos : Int) (chk : Bool) (hne : cigar ≠ []) (hseq : seq ≠ [])
    (hclip : softClipTail cigar < seq.length) (hnn : NonNeg cigar)
    (hrc : seq'.map (fun c => upperChar c == 'T') = (seq.map (fun c => upperChar c == 'A')).reverse)
    (pA pT : Nat)
    (hA : tailScan w num den chk (regionA cigar seq fromPos toPos) = some pA)
    (hT : tailScan w num den chk (regionT cigar.reverse seq' fromPos toPos) = some pT)
    (hsame : stopT cigar.reverse seq' fromPos - pT - 1 = (seq.length : Int) - 1 - (startA cigar seq fromPos + pA))
    (hclean : (seq.length : Int) - softClipTail cigar ≤ startA cigar seq fromPos + pA ∨
      ∃ k0 l rest, walkCore cigar false = (k0, l) :: rest ∧ isAligned k0 = true ∧
        (seq.length : Int) - softClipTail cigar - (startA cigar seq fromPos + pA) < l) :
    ∃ ra, findPolyaTail w num den s cigar seq fromPos toPos chk = some ra ∧
      findPolytHead w num den (L - referenceEnd s cigar) cigar.reverse seq' fromPos toPos chk
        = some (max 1 (L - 1 - ra)) := by
  have hlen : seq'.length = seq.length := by
    have := congrArg List.length hrc
    simpa using this
  have hseq' : seq' ≠ [] := by
    intro h; rw [h] at hlen; exact hseq (List.length_eq_zero_iff.1 hlen.symm)
  have hne' : cigar.reverse ≠ [] := by simpa using hne
  have hclip' : softClipHead cigar.reverse < seq'.length := by rw [softClipHead_reverse, hlen]; exact hclip
  have hnn' : NonNeg cigar.reverse := NonNeg_reverse hnn
  have hPA := find_polya_tail_spec w num den hw s cigar seq fromPos toPos chk hne hseq hclip hnn
  have hPT := find_polyt_head_spec w num den hw (L - referenceEnd s cigar) cigar.reverse seq' fromPos toPos chk
    hne' hseq' hclip' hnn'
  rw [hA] at hPA
  rw [hT] at hPT
  obtain ⟨_, hAext, hAint⟩ := hPA
  obtain ⟨_, hText, hTint⟩ := hPT
  rw [softClipHead_reverse] at hText hTint
  rw [hsame] at hText hTint
  rcases hclean with hge | ⟨k0, l, rest, hc, hk, hlt⟩
  · refine ⟨_, hAext hge, ?_⟩
    rw [hText (by omega)]
    congr 2; omega
  · by_cases hge : (seq.length : Int) - softClipTail cigar ≤ startA cigar seq fromPos + pA
    · refine ⟨_, hAext hge, ?_⟩
      rw [hText (by omega)]
      congr 2; omega
    · have hpos : 0 < (seq.length : Int) - softClipTail cigar - (startA cigar seq fromPos + pA) := by omega
      have hmA := moveRefCoord_in_first_match cigar false k0 l rest hc hk _ hpos hlt
      simp only [Bool.false_eq_true, if_false] at hmA
      have hshift : -((seq.length : Int) - softClipTail cigar - (startA cigar seq fromPos + pA)) =
          startA cigar seq fromPos + pA - ((seq.length : Int) - softClipTail cigar) := by omega
      rw [hshift] at hmA
      obtain ⟨hAeq, _⟩ := hAint (by omega)
      rw [hmA] at hAeq
      simp only [Option.map_some] at hAeq
      refine ⟨_, hAeq, ?_⟩
      by_cases h1 : (seq.length : Int) - softClipTail cigar - (startA cigar seq fromPos + pA) = 1
      · rw [hText (by omega)]
        congr 2; omega
      · obtain ⟨hTeq, _⟩ := hTint (by omega)
        have hmT := moveRefCoord_in_first_match cigar.reverse true k0 l rest
          (by rw [walkCore_reverse]; exact hc) hk
          ((seq.length : Int) - softClipTail cigar - (startA cigar seq fromPos + pA) - 1) (by omega) (by omega)
        simp only [if_true] at hmT
        have hshiftT : (seq.length : Int) - 1 - (startA cigar seq fromPos + pA) - softClipTail cigar =
            (seq.length : Int) - softClipTail cigar - (startA cigar seq fromPos + pA) - 1 := by omega
        rw [hshiftT, hmT] at hTeq
        rw [hTeq]
        simp only [Option.map_some]
        congr 2; omega

/-- **clean_tail_mirror_law** — the law without hypotheses about the scans, for every *clean tail*: a read that ends in
    `k` soft-clipped A's preceded by (at least) three non-A bases, external finder (`from_pos = 2`, `to_pos = 2w`),
    threshold leaving room for three non-A bases in a window (`3 + ⌊w·num/den⌋ ≤ w`; defaults: 3 + 12 ≤ 16) and
    `k ≥ w − 1`: polyA is reported at `reference_end`, polyT of the mirror image at `max 1 (L − 1 − reference_end)`
    — two less than the mirror image `L + 1 − reference_end`. -/
theorem clean_tail_mirror_law (w num den : Nat) (s L : Int) (cigar : List CigarOp) (seq seq' : List Char)
    (body : List Bool) (k : Nat) (hne : cigar ≠ []) (hnn : NonNeg cigar) (hk : softClipTail cigar = k)
    (hflags : seq.map (fun c => upperChar c == 'A') = body ++ [false, false, false] ++ List.replicate k true)
    (hrc : seq'.map (fun c => upperChar c == 'T') = (seq.map (fun c => upperChar c == 'A')).reverse)
    (hc : 3 + w * num / den ≤ w) (hkw : w ≤ k + 1) :
    findPolyaTail w num den s cigar seq 2 (2 * w) false = some (referenceEnd s cigar) ∧
    findPolytHead w num den (L - referenceEnd s cigar) cigar.reverse seq' 2 (2 * w) false
      = some (max 1 (L - 1 - referenceEnd s cigar)) := by
  have h0 := Nat.zero_le (w * num / den)
  have hw : 1 ≤ w := by omega
  have hn : seq.length = body.length + 3 + k := by
    have := congrArg List.length hflags
    simp at this; omega
  have hn' : seq'.length = body.length + 3 + k := by
    have := congrArg List.length hrc
    simp at this; omega
  have hseq : seq ≠ [] := by intro h; rw [h] at hn; simp at hn; omega
  have hclip : softClipTail cigar < seq.length := by rw [hk, hn]; omega
  -- the two checked windows
  have hRA : regionA cigar seq 2 (2 * w) = List.replicate 2 false ++ List.replicate (min k (2 * w + 1)) true := by
    unfold regionA
    rw [slice_map, hflags, hk, hn]
    exact sliceA_clean body k w
  have hRT : regionT cigar.reverse seq' 2 (2 * w) =
      List.replicate 3 false ++ List.replicate (min k (2 * w)) true := by
    unfold regionT
    rw [List.map_reverse, slice_map, hrc, hflags, softClipHead_reverse, hk, hn']
    exact sliceT_clean body k w
  have hA : tailScan w num den false (regionA cigar seq 2 (2 * w)) = some 2 := by
    rw [hRA]
    unfold tailScan
    rw [findPolya_clean w (w * num / den) 2 (min k (2 * w + 1)) hw (by omega) (by omega) (by omega)]
    rfl
  have hT : tailScan w num den false (regionT cigar.reverse seq' 2 (2 * w)) = some 3 := by
    rw [hRT]
    unfold tailScan
    rw [findPolya_clean w (w * num / den) 3 (min k (2 * w)) hw (by omega) (by omega) (by omega)]
    rfl
  have hstart : startA cigar seq 2 = body.length + 1 := by unfold startA; rw [hk, hn]; omega
  have hstop : stopT cigar.reverse seq' 2 = k + 3 := by
    unfold stopT; rw [softClipHead_reverse, hk, hn']; omega
  have hge : (seq.length : Int) - softClipTail cigar ≤ startA cigar seq 2 + (2 : Nat) := by
    rw [hstart, hk, hn]; omega
  obtain ⟨ra, h1, h2⟩ := polyt_polya_mirror_law w num den hw s L cigar seq seq' 2 (2 * w) false hne hseq hclip hnn hrc
    2 3 hA hT (by rw [hstart, hstop, hn]; omega) (Or.inl hge)
  have hspec := find_polya_tail_spec w num den hw s cigar seq 2 (2 * w) false hne hseq hclip hnn
  rw [hA] at hspec
  have h3 := hspec.2.1 hge
  have hra : ra = referenceEnd s cigar := by
    rw [h3] at h1
    have := Option.some.inj h1
    rw [hstart, hk, hn] at this
    omega
  rw [hra] at h1 h2
  exact ⟨h1, h2⟩

/-- non-vacuity of `clean_tail_mirror_law`: its hypotheses on the read `C^30 A^20`, `30M 20S`, default constants -/
example : softClipTail [(.«match», 30), (.soft_clipping, 20)] = ((20 : Nat) : Int) ∧
    (List.replicate 30 'C' ++ List.replicate 20 'A').map (fun c => upperChar c == 'A')
      = List.replicate 27 false ++ [false, false, false] ++ List.replicate 20 true ∧
    (List.replicate 20 'T' ++ List.replicate 30 'G').map (fun c => upperChar c == 'T')
      = ((List.replicate 30 'C' ++ List.replicate 20 'A').map (fun c => upperChar c == 'A')).reverse ∧
    3 + 16 * 3 / 4 ≤ 16 ∧ 16 ≤ 20 + 1 := by decide

/-- non-vacuity (the clean tail of the C11 finding): `…CCCC` + 20 soft-clipped A's at 1000, `L = 5000`; mirror image:
    20 soft-clipped T's + `GGGG…` at `5000 − 1030`; polyA 1030, polyT 3969 = 5000 − 1 − 1030 (exact mirror: 3971) -/
example :
    findPolyaTail 16 3 4 1000 [(.«match», 30), (.soft_clipping, 20)]
      (List.replicate 30 'C' ++ List.replicate 20 'A') 2 32 false = some 1030 ∧
    referenceEnd 1000 [(.«match», 30), (.soft_clipping, 20)] = 1030 ∧
    findPolytHead 16 3 4 (5000 - 1030) [(.soft_clipping, 20), (.«match», 30)]
      (List.replicate 20 'T' ++ List.replicate 30 'G') 2 32 false = some (5000 - 1 - 1030) ∧
    tailScan 16 3 4 false (regionA [(.«match», 30), (.soft_clipping, 20)]
      (List.replicate 30 'C' ++ List.replicate 20 'A') 2 32) = some 2 ∧
    tailScan 16 3 4 false (regionT [(.soft_clipping, 20), (.«match», 30)]
      (List.replicate 20 'T' ++ List.replicate 30 'G') 2 32) = some 3 := by decide

/-- the hypothesis "both scans settle on the same base" is needed: the two checked windows are shifted by one base,
    so on an A-rich end (three aligned A's before 20 clipped A's) the polyA scan starts two bases before the mapped
    end and misses the first A while the polyT scan of the mirror image sees it: 1028 vs 3972 ≠ 5000 − 1 − 1028 -/
example :
    findPolyaTail 16 3 4 1000 [(.«match», 30), (.soft_clipping, 20)]
      (List.replicate 27 'C' ++ List.replicate 23 'A') 2 32 false = some 1028 ∧
    findPolytHead 16 3 4 (5000 - 1030) [(.soft_clipping, 20), (.«match», 30)]
      (List.replicate 23 'T' ++ List.replicate 27 'G') 2 32 false = some 3972 := by
  decide

end IsoVerif.Props.C16FinderSpec
