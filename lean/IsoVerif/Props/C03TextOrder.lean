/-
C03, text level — ORDER of the records of one `GFFPrinter.dump` call and consistency of the ids inside a block
(Model/GtfText.lean).  Property theorems only.

What the code does, proved here:
* gene blocks follow the stable sort of the genes by their range; the transcript blocks of a gene follow the ORDER OF THE
  STORAGE (no sort key at all); feature lines are sorted by `(start, end, type)`, descending exactly when the strand is `-`,
  and numbered 1, 2, … over exons AND other features;
* so the printing order is a function of the storage as a LIST, not as a set (`order_total_witness`,
  `order_gene_tie_witness`); what is a function of the set is stated in `order_total_partial`.
-/
import IsoVerif.Model.GtfText
import IsoVerif.Lemmas.C03Text
import IsoVerif.Props.C03Text

namespace IsoVerif.Props.C03TextOrder
open IsoVerif.Gen IsoVerif.Model.C17 IsoVerif.Model.C03T IsoVerif.Lemmas.C17 IsoVerif.Lemmas.C03T IsoVerif.Props.C03Text

/-! ### the first loop groups the valid models per gene, in storage order -/

/-- a model as the second loop sees it: `none` when the exon list is empty (the call aborts) -/
def placed? (m : AModel) : Option PlacedT :=
  match m.exons.head?, m.exons.getLast? with
  | some f, some l => some (m, (f.1, l.2))
  | _, _ => none

/-- the valid models attributed to gene `g`, IN STORAGE ORDER, each with its transcript region -/
def modelsOf (ms : List AModel) (g : Str) : List PlacedT :=
  (ms.filter (fun m => validateExons m.exons && decide (m.gid = g))).filterMap placed?

/-- **collect_groups_in_storage_order.**  After the first loop of a call that does not abort, the entry of gene `g`
    holds what it held before followed by exactly the valid models of the storage whose `gene_id` is `g`, in the order of
    the storage; a gene without a valid model has no entry. -/
theorem collect_groups_in_storage_order (gi : GInfo) : ∀ (ms : List AModel) (acc acc' : List (Str × GRecT)),
    collectT gi ms acc = some acc' → ∀ g,
      (assocGet g acc').map (·.models) =
        match assocGet g acc with
        | some r => some (r.models ++ modelsOf ms g)
        | none => if modelsOf ms g = [] then none else some (modelsOf ms g)
  | [], acc, acc', h, g => by
      simp only [collectT, Option.some.injEq] at h
      subst h
      cases assocGet g acc <;> simp [modelsOf]
  | m :: ms, acc, acc', h, g => by
      simp only [collectT] at h
      by_cases hv : validateExons m.exons = true
      · simp only [hv, if_true] at h
        split at h
        · next f l hf hl =>
          have hp : placed? m = some (m, (f.1, l.2)) := by simp [placed?, hf, hl]
          have hcons : modelsOf (m :: ms) g = if m.gid = g then (m, (f.1, l.2)) :: modelsOf ms g else modelsOf ms g := by
            by_cases e : m.gid = g <;> simp [modelsOf, hv, e, hp]
          split at h
          · next hnone =>
            split at h
            · have ih := collect_groups_in_storage_order gi ms _ acc' h g
              rw [ih, hcons]
              by_cases e : m.gid = g
              · subst e
                simp [assocGet_set_same, hnone]
              · have e' : g ≠ m.gid := fun x => e x.symm
                simp [assocGet_set_other _ _ _ e', e]
            · cases h
          · next rec hsome =>
            split at h
            · have ih := collect_groups_in_storage_order gi ms _ acc' h g
              rw [ih, hcons]
              by_cases e : m.gid = g
              · subst e
                simp [assocGet_set_same, hsome]
              · have e' : g ≠ m.gid := fun x => e x.symm
                simp [assocGet_set_other _ _ _ e', e]
            · cases h
        · cases h
      · have hv' : validateExons m.exons = false := by simpa using hv
        simp only [hv', Bool.false_eq_true, if_false] at h
        have hcons : modelsOf (m :: ms) g = modelsOf ms g := by simp [modelsOf, hv']
        rw [hcons]
        exact collect_groups_in_storage_order gi ms acc acc' h g

/-- non-vacuity: a storage whose two genes interleave -/
example : ∃ acc', collectT { chr := "c".toList }
    [ { chr := "c".toList, strand := "+".toList, tid := "T1".toList, gid := "G".toList, source := [], exons := [(1, 2)], other := [], additional := [] },
      { chr := "c".toList, strand := "+".toList, tid := "T2".toList, gid := "H".toList, source := [], exons := [(5, 6)], other := [], additional := [] },
      { chr := "c".toList, strand := "+".toList, tid := "T3".toList, gid := "G".toList, source := [], exons := [(1, 9)], other := [], additional := [] } ] []
    = some acc' ∧ ((assocGet "G".toList acc').map (fun r => r.models.map (·.1.tid))) = some ["T1".toList, "T3".toList] := by
  refine ⟨_, rfl, ?_⟩
  decide +kernel

/-! ### one block: the transcript line and its feature lines carry one gene_id / transcript_id -/

theorem mapM_some_mem {α β} (f : α → Option β) : ∀ (l : List α) (r : List β), l.mapM f = some r →
    ∀ y ∈ r, ∃ x ∈ l, f x = some y
  | [], r, h, y, hy => by
      simp only [List.mapM_nil, Option.pure_def, Option.some.injEq] at h
      subst h; cases hy
  | a :: l, r, h, y, hy => by
      simp only [List.mapM_cons, Option.pure_def, Option.bind_eq_bind] at h
      cases hf : f a with
      | none => simp [hf] at h
      | some b =>
        cases hl : l.mapM f with
        | none => simp [hf, hl] at h
        | some bs =>
          simp only [hf, hl, Option.bind_some, Option.some.injEq] at h
          subst h
          rcases List.mem_cons.mp hy with e | e
          · exact ⟨a, by simp, e ▸ hf⟩
          · obtain ⟨x, hx, hfx⟩ := mapM_some_mem f l bs hl y e
            exact ⟨x, by simp [hx], hfx⟩

/-- **gene_attr_consistent** (block level).  The lines of one transcript are its transcript line — seqname, source,
    strand, `gene_id`, `transcript_id` of the model, the transcript region, `additional_info` with the `exons` count —
    followed by feature lines that all carry the SAME seqname, source, strand, `gene_id` and `transcript_id`. -/
theorem gene_attr_consistent (gi : GInfo) (p : PlacedT) (ls : List SLine) (h : modelBlock gi p = some ls) :
    ∃ extra fl, ls = SLine.transcript p.1.chr p.1.source p.2.1 p.2.2 p.1.strand p.1.gid p.1.tid (withExons p.1) extra :: fl ∧
      ∀ l ∈ fl, SLine.chr l = p.1.chr ∧ SLine.source l = p.1.source ∧ SLine.strand l = p.1.strand ∧
        SLine.gid l = p.1.gid ∧ SLine.tid? l = some p.1.tid ∧ (SLine.key? l).isSome := by
  unfold modelBlock at h
  simp only at h
  split at h
  · cases h
  · next fl hfl =>
    simp only [Option.some.injEq] at h
    refine ⟨_, fl, h.symm, ?_⟩
    intro l hl
    obtain ⟨ie, _, hie⟩ := mapM_some_mem _ _ _ hfl l hl
    unfold featureLine at hie
    split at hie
    · cases hie
    · simp only [Option.some.injEq] at hie
      subst hie
      simp [SLine.chr, SLine.source, SLine.strand, SLine.gid, SLine.tid?, SLine.key?]

/-- the models stored under gene `g` by the first loop carry `gene_id = g` (the `assert model.gene_id == gene_id` of the
    second loop can never fail) -/
theorem group_gene_ids (ms : List AModel) (g : Str) : ∀ p ∈ modelsOf ms g, p.1.gid = g := by
  intro p hp
  simp only [modelsOf, List.mem_filterMap, List.mem_filter, Bool.and_eq_true, decide_eq_true_eq] at hp
  obtain ⟨m, ⟨_, _, hg⟩, hpm⟩ := hp
  unfold placed? at hpm
  split at hpm
  · simp only [Option.some.injEq] at hpm; subst hpm; exact hg
  · cases hpm

/-- **gene_attr_consistent** (gene level): in a call on a printer that has not written gene `g` yet, the part of the output
    that belongs to `g` is its gene line followed by the blocks of its models (storage order); by the two theorems above every
    transcript and feature line of these blocks carries `gene_id = g`. -/
theorem gene_block_shape (gi : GInfo) (g : Str) (rec : GRecT) (gs : List (Str × GRecT)) (printed : List Str)
    (out : List SLine) (printed' : List Str) (h : emitGenesT gi ((g, rec) :: gs) printed = some (out, printed')) :
    ∃ blocks rest, rec.models.mapM (modelBlock gi) = some blocks ∧
      out = (if g ∈ printed then [] else [geneLine gi g rec]) ++ blocks.flatten ++ rest ∧
      ∃ pr, emitGenesT gi gs (if g ∈ printed then printed else printed ++ [g]) = some (rest, pr) := by
  simp only [emitGenesT] at h
  cases hb : rec.models.mapM (modelBlock gi) with
  | none => simp [hb] at h
  | some blocks =>
    simp only [hb] at h
    by_cases hp : g ∈ printed
    · simp only [hp, if_true] at h ⊢
      cases hr : emitGenesT gi gs printed with
      | none => simp [hr] at h
      | some r =>
        simp only [hr, Option.some.injEq, Prod.mk.injEq] at h
        exact ⟨blocks, r.1, rfl, by simp [← h.1], r.2, rfl⟩
    · simp only [hp, if_false] at h ⊢
      cases hr : emitGenesT gi gs (printed ++ [g]) with
      | none => simp [hr] at h
      | some r =>
        simp only [hr, Option.some.injEq, Prod.mk.injEq] at h
        exact ⟨blocks, r.1, rfl, by simp [← h.1], r.2, rfl⟩

/-! ### feature lines: sorted, direction by strand, numbered consecutively -/

theorem numberFrom_fst {α} : ∀ (l : List α) (i : Nat), (numberFrom i l).map (·.1) = List.range' i l.length
  | [], _ => rfl
  | _ :: xs, i => by simp [numberFrom, numberFrom_fst xs (i + 1), List.range'_succ]

theorem numberFrom_snd {α} : ∀ (l : List α) (i : Nat), (numberFrom i l).map (·.2) = l
  | [], _ => rfl
  | _ :: xs, i => by simp [numberFrom, numberFrom_snd xs (i + 1)]

/-- **feature_lines_are_the_features.**  The features printed for a model are a permutation of its other features and its
    exons (tagged `exon`): nothing added, nothing dropped; `exon_number` runs 1, 2, …, n over ALL of them. -/
theorem feature_lines_are_the_features (m : AModel) :
    (featsToPrint m).Perm (m.other ++ m.exons.map (fun e => (e.1, e.2, gtf_exon_feature.toList))) ∧
    (numberFrom 1 (featsToPrint m)).map (·.1) = List.range' 1 (m.other.length + m.exons.length) := by
  have hp : (featsToPrint m).Perm (m.other ++ m.exons.map (fun e => (e.1, e.2, gtf_exon_feature.toList))) := by
    unfold featsToPrint
    simp only
    split <;> exact pySorted_perm _ _
  refine ⟨hp, ?_⟩
  rw [numberFrom_fst]
  congr 1
  simpa using hp.length_eq

/-- **order_exon_lines_witness**: the direction depends on the strand — ascending on `+` and on `.`, descending on `-`;
    other features are interleaved with the exons and take part in the numbering (`exon_number "2"` is a CDS). -/
theorem order_exon_lines_witness :
    let m (s : String) : AModel := { chr := "c".toList, strand := s.toList, tid := "T".toList, gid := "G".toList, source := [],
                                     exons := [(10, 20), (30, 40)], other := [(10, 20, "CDS".toList)], additional := [] }
    (numberFrom 1 (featsToPrint (m "+"))).map (fun p => (p.1, p.2.1, String.ofList p.2.2.2))
        = [(1, 10, "CDS"), (2, 10, "exon"), (3, 30, "exon")] ∧
    (numberFrom 1 (featsToPrint (m "."))).map (fun p => (p.1, p.2.1, String.ofList p.2.2.2))
        = [(1, 10, "CDS"), (2, 10, "exon"), (3, 30, "exon")] ∧
    (numberFrom 1 (featsToPrint (m "-"))).map (fun p => (p.1, p.2.1, String.ofList p.2.2.2))
        = [(1, 30, "exon"), (2, 10, "exon"), (3, 10, "CDS")] := by
  decide +kernel

/-! ### is the printing order a function of the storage as a set?  No. -/

def wModel (tid gid : String) (exons : List (Int × Int)) : AModel :=
  { chr := "c1".toList, strand := "+".toList, tid := tid.toList, gid := gid.toList, source := "IsoQuant".toList,
    exons := exons, other := [], additional := [] }

def wGi : GInfo := { chr := "c1".toList }
def wSt : FeatureIdStorage := FeatureIdStorage.init SimpleIDDistributor.init none "c1".toList

def textOf (ms : List AModel) : Option (List String) :=
  (dumpText wSt [] wGi ms).map (fun r => r.1.map String.ofList)

/-- **order_total_witness.**  `OrderTotal` (the text of a call is the same for any two storages that are permutations of
    one another) is FALSE: two transcripts of one gene are printed in the order of the storage.  (Here even the `exon_id`s
    differ: they are drawn in printing order.) -/
theorem order_total_witness :
    let a := wModel "T1" "G1" [(10, 20), (30, 40)]
    let b := wModel "T2" "G1" [(10, 20), (50, 60)]
    [a, b].Perm [b, a] ∧ textOf [a, b] ≠ textOf [b, a] ∧ (textOf [a, b]).isSome ∧
    ((dumpPlanT [] wGi [a, b]).map (fun r => r.1.filterMap (fun l => match l with | SLine.transcript _ _ _ _ _ _ t _ _ => some (String.ofList t) | _ => none)))
      = some ["T1", "T2"] ∧
    ((dumpPlanT [] wGi [b, a]).map (fun r => r.1.filterMap (fun l => match l with | SLine.transcript _ _ _ _ _ _ t _ _ => some (String.ofList t) | _ => none)))
      = some ["T2", "T1"] := by
  refine ⟨List.Perm.swap _ _ _, ?_, ?_, ?_, ?_⟩ <;> decide +kernel

/-- **order_gene_tie_witness.**  Two genes with the same range: the sort is stable, the block order is the order of first
    appearance in the storage. -/
theorem order_gene_tie_witness :
    let c := wModel "T3" "G2" [(100, 200)]
    let d := wModel "T4" "G3" [(100, 200)]
    ((dumpPlanT [] wGi [c, d]).map (fun r => r.1.filterMap (fun l => match l with | SLine.gene _ _ _ _ _ g _ _ => some (String.ofList g) | _ => none)))
      = some ["G2", "G3"] ∧
    ((dumpPlanT [] wGi [d, c]).map (fun r => r.1.filterMap (fun l => match l with | SLine.gene _ _ _ _ _ g _ _ => some (String.ofList g) | _ => none)))
      = some ["G3", "G2"] := by
  decide +kernel

/-- the full-strength statement (FALSE, see the two witnesses): the lines of a call do not depend on the order of the storage -/
def OrderTotal : Prop :=
  ∀ (st : FeatureIdStorage) (printed : List Str) (gi : GInfo) (ms ms' : List AModel), ms.Perm ms' →
    dumpText st printed gi ms = dumpText st printed gi ms'

theorem order_total_false : ¬ OrderTotal := by
  intro h
  have := h wSt [] wGi [wModel "T1" "G1" [(10, 20), (30, 40)], wModel "T2" "G1" [(10, 20), (50, 60)]]
    [wModel "T2" "G1" [(10, 20), (50, 60)], wModel "T1" "G1" [(10, 20), (30, 40)]] (List.Perm.swap _ _ _)
  revert this
  decide +kernel

/-- **order_total_partial.**  What IS independent of the storage order: if two storages list the valid models of every gene
    in the same relative order (any interleaving of different genes), the first loop of `dump` builds the same group for
    every gene.  Missing for full strength: (1) the order inside a gene is the storage order (`order_total_witness`) — the
    storage is filled by deterministic list appends, so this is C06's determinism of the construction, not a set iteration;
    (2) gene blocks with EQUAL ranges follow first appearance in the storage (`order_gene_tie_witness`); (3) fresh `exon_id`
    numbers are drawn in printing order. -/
theorem order_total_partial (gi : GInfo) (ms ms' : List AModel) (acc acc' : List (Str × GRecT))
    (h : collectT gi ms [] = some acc) (h' : collectT gi ms' [] = some acc')
    (hsame : ∀ g, modelsOf ms g = modelsOf ms' g) :
    ∀ g, (assocGet g acc).map (·.models) = (assocGet g acc').map (·.models) := by
  intro g
  rw [collect_groups_in_storage_order gi ms [] acc h g, collect_groups_in_storage_order gi ms' [] acc' h' g, hsame g]

def oA : AModel := ⟨['c'], ['+'], ['T', '1'], ['G', '1'], [], [(1, 2)], [], []⟩
def oB : AModel := ⟨['c'], ['+'], ['T', '2'], ['G', '2'], [], [(5, 6)], [], []⟩
def oC : AModel := ⟨['c'], ['+'], ['T', '3'], ['G', '1'], [], [(1, 9)], [], []⟩

/-- non-vacuity: two different storages (genes interleaved differently) meet the hypothesis -/
example : ∃ acc acc', collectT ⟨['c'], [], [], []⟩ [oA, oB, oC] [] = some acc ∧
    collectT ⟨['c'], [], [], []⟩ [oB, oA, oC] [] = some acc' ∧ [oA, oB, oC] ≠ [oB, oA, oC] ∧
    (∀ g, modelsOf [oA, oB, oC] g = modelsOf [oB, oA, oC] g) := by
  refine ⟨_, _, rfl, rfl, by decide +kernel, ?_⟩
  intro g
  by_cases h1 : g = ['G', '1']
  · subst h1; decide +kernel
  · by_cases h2 : g = ['G', '2']
    · subst h2; decide +kernel
    · have e1 : ¬ (['G', '1'] = g) := fun e => h1 e.symm
      have e2 : ¬ (['G', '2'] = g) := fun e => h2 e.symm
      simp [modelsOf, oA, oB, oC, e1, e2]

end IsoVerif.Props.C03TextOrder
