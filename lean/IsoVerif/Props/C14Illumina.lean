/-
C14 (part 3) — the short-read based corrector `IlluminaExonCorrector.correct_exons` (`--illumina_bam`, reads without
an assigned isoform): for ALL reads and ALL short-read junction lists (in every enumeration order of the Python set)
the corrected block list is a valid block list with the read's own ends, and every block boundary is the read's own
or a site of a short-read junction that one of the two rules accepts for the read intron it overlaps.
Property theorems only.
-/
import IsoVerif.Gen.Prims
import IsoVerif.Gen.Illumina
import IsoVerif.Model.Bed
import IsoVerif.Model.Illumina
import IsoVerif.Lemmas.Interval
import IsoVerif.Lemmas.Corrector
import IsoVerif.Lemmas.Illumina
import IsoVerif.Props.C14

namespace IsoVerif.Props.C14
open IsoVerif.Gen IsoVerif.Model IsoVerif.Model.C14.Illumina IsoVerif.Lemmas IsoVerif.Lemmas.C14
open IsoVerif.Lemmas.C14.Illumina

/-- where an intron that shapes the corrected alignment may come from: the read itself; a short-read junction
    accepted by the 4-bp rule for a read intron it overlaps; one member of a pair of short-read junctions accepted by
    the skipped-exon rule for a read intron both overlap — in the last two cases strictly inside the read -/
def IntronSource (short readIntrons : List Iv) (s e : Int) (c : Iv) : Prop :=
  c ∈ readIntrons ∨
  (c ∈ short ∧ ∃ i ∈ readIntrons, overlaps i c = true ∧ SingleTol i c ∧ s < c.1 ∧ c.2 < e) ∨
  (c ∈ short ∧ ∃ i ∈ readIntrons, ∃ p ∈ short,
    (PairTol i c p ∧ s < c.1 ∧ p.2 < e) ∨ (PairTol i p c ∧ s < p.1 ∧ c.2 < e))

/-- the constants the rules are stated with are the ones of the class (`decide` over the generated values) -/
theorem illumina_constants_as_modelled :
    ill_MAX_SCORE = 1000000000000 ∧ ill_ABSENT_INTRON = (0, 0) ∧ ill_EXON_LENGTH = 50 ∧ ill_SIDE_DIFF = 25 := by
  decide

/-- the only exception of `correct_exons` is the empty block list -/
theorem illumina_raises_iff (short exons : List Iv) : correctExons short exons = none ↔ exons = [] := by
  cases exons with
  | nil => simp [correctExons]
  | cons a t =>
    obtain ⟨l, hl⟩ := getLast?_cons_some a t
    simp [correctExons_of_ends (short := short) (List.head?_cons) hl]

/-- one iteration of the loop over the read's introns (every junction list, every order): the read intron is kept,
    or replaced by ONE short-read junction that overlaps it, shares one end with it and is 4 bp longer at the other,
    or replaced by TWO short-read junctions that overlap it, lie in order, leave at most 50 bp between them and end
    within 25 bp of the read intron's ends (not both ends equal); a replacement is strictly inside the read -/
theorem illumina_intron_cases (short : List Iv) (s e : Int) (i : Iv) (hi : i.1 ≤ i.2) :
    correctIntron short s e i = [i] ∨
    (∃ c, correctIntron short s e i = [c] ∧ c ∈ short ∧ overlaps i c = true ∧ SingleTol i c ∧ s < c.1 ∧ c.2 < e) ∨
    (∃ l r, correctIntron short s e i = [l, r] ∧ l ∈ short ∧ r ∈ short ∧ PairTol i l r ∧ s < l.1 ∧ r.2 < e) :=
  correctIntron_cases short s e i hi

/-- the junction the 4-bp rule is tried on is the closest overlapping one (sum of the two site distances), the
    first such in enumeration order; there is none only if no overlapping junction is closer than `MAX_SCORE` -/
theorem illumina_best_match_closest (short : List Iv) (i : Iv) :
    let sh := bestMatch i (overlappingOf short i) ill_MAX_SCORE ill_ABSENT_INTRON
    (sh = ill_ABSENT_INTRON ∧ ∀ s ∈ short, overlaps i s = true → ill_MAX_SCORE ≤ ill_site_distance i s) ∨
    (sh ∈ short ∧ overlaps i sh = true ∧
      ∀ s ∈ short, overlaps i s = true → ill_site_distance i sh ≤ ill_site_distance i s) := by
  intro sh
  rcases bestMatch_minimal i (overlappingOf short i) ill_MAX_SCORE ill_ABSENT_INTRON with ⟨h, hall⟩ | ⟨hm, _, hall⟩
  · left
    exact ⟨h, fun s hs ho => hall s (mem_overlappingOf.mpr ⟨hs, ho⟩)⟩
  · right
    obtain ⟨h1, h2⟩ := mem_overlappingOf.mp hm
    exact ⟨h1, h2, fun s hs ho => hall s (mem_overlappingOf.mpr ⟨hs, ho⟩)⟩

/-- **illumina_bed_valid**: for every read with sorted, disjoint, well-formed blocks and every list of well-formed
    short-read junctions, the corrected block list is sorted, disjoint and well formed (corrected introns that touch
    or overlap their neighbours are merged by `get_exons`, never emitted as empty or reversed blocks) -/
theorem illumina_bed_valid (short exons out : List Iv) (hsd : SD exons) (hw : WFl exons) (hws : WFl short)
    (h : correctExons short exons = some out) : SD out ∧ WFl out := by
  obtain ⟨f, l, _, _, rfl⟩ := correctExons_some h
  have hsp := gapped_junctions hsd hw
  obtain ⟨h1, h2⟩ := corrected_list_ok short f.1 l.2 (junctionsFromBlocks exons) (Spaced_SD hsp) (Spaced_WFl hsp) hws
  exact getExons_valid f.1 l.2 _ h1 h2

/-- **illumina_ends_preserved**: the first start and the last end of the read are unchanged — for every list of
    short-read junctions whatsoever (true since fix a250903, see `illumina_ends_buggy_witness`) -/
theorem illumina_ends_preserved (short exons out : List Iv) (hsd : SD exons) (hw : WFl exons)
    (h : correctExons short exons = some out) :
    out.head?.map (·.1) = exons.head?.map (·.1) ∧ out.getLast?.map (·.2) = exons.getLast?.map (·.2) := by
  obtain ⟨f, l, hf, hl, rfl⟩ := correctExons_some h
  rw [hf, hl]
  have hin := read_introns_inside hsd hw hf hl
  have hwf := junctions_wf exons
  cases hri : junctionsFromBlocks exons with
  | nil =>
    have hfl : f.1 ≤ l.2 := first_le_last hsd hw hf hl
    simp [correctedIntronList, getExons_nil f.1 l.2 hfl]
  | cons i rest =>
    rw [hri] at hin hwf
    constructor
    · obtain ⟨c, t, hc, hlt⟩ := corrected_list_head short f.1 l.2 i rest (hwf i (by simp)) (hin i (by simp)).1
      rw [hc, getExons_head f.1 l.2 c t hlt]
      rfl
    · obtain ⟨init, j, hij⟩ : ∃ init j, i :: rest = init ++ [j] := by
        rcases List.eq_nil_or_concat (i :: rest) with h0 | ⟨l', b, h0⟩
        · cases h0
        · exact ⟨l', b, by simpa using h0⟩
      have hj : j ∈ i :: rest := by rw [hij]; simp
      obtain ⟨c, hc, hlt⟩ := corrected_list_last short f.1 l.2 init j (hwf j hj) (hin j hj).2
      rw [hij, getExons_last f.1 l.2 _ c hc hlt]
      rfl

/-- **illumina_site_provenance**: every block of the corrected alignment starts at the read's start or right after
    an intron with an `IntronSource`, and ends at the read's end or right before such an intron — for every read and
    every junction list, no hypothesis at all -/
theorem illumina_site_provenance (short exons out : List Iv) (f l : Iv) (hf : exons.head? = some f)
    (hl : exons.getLast? = some l) (h : correctExons short exons = some out) :
    ∀ x ∈ out,
      (x.1 = f.1 ∨ ∃ c, IntronSource short (junctionsFromBlocks exons) f.1 l.2 c ∧ x.1 = c.2 + 1) ∧
      (x.2 = l.2 ∨ ∃ c, IntronSource short (junctionsFromBlocks exons) f.1 l.2 c ∧ x.2 = c.1 - 1) := by
  rw [correctExons_of_ends hf hl] at h
  simp only [Option.some.injEq] at h
  subst h
  have hsrc : ∀ c ∈ correctedIntronList short f.1 l.2 (junctionsFromBlocks exons),
      IntronSource short (junctionsFromBlocks exons) f.1 l.2 c := by
    intro c hc
    simp only [correctedIntronList, List.mem_flatMap] at hc
    obtain ⟨i, hi, hc⟩ := hc
    rcases correctIntron_cases short f.1 l.2 i (junctions_wf exons i hi) with
      h | ⟨c', h, hm, ho, ht, h1, h2⟩ | ⟨a, b, h, ha, hb, ht, h1, h2⟩
    · rw [h] at hc; simp at hc; subst hc; exact Or.inl hi
    · rw [h] at hc; simp at hc; subst hc
      exact Or.inr (Or.inl ⟨hm, i, hi, ho, ht, h1, h2⟩)
    · rw [h] at hc; simp at hc
      rcases hc with hc | hc
      · subst hc; exact Or.inr (Or.inr ⟨ha, i, hi, b, hb, Or.inl ⟨ht, h1, h2⟩⟩)
      · subst hc; exact Or.inr (Or.inr ⟨hb, i, hi, a, ha, Or.inr ⟨ht, h1, h2⟩⟩)
  intro x hx
  obtain ⟨h1, h2⟩ := getExons_sites f.1 l.2 _ x hx
  constructor
  · rcases h1 with h1 | ⟨c, hc, h1⟩
    · exact Or.inl h1
    · exact Or.inr ⟨c, hsrc c hc, h1⟩
  · rcases h2 with h2 | ⟨c, hc, h2⟩
    · exact Or.inl h2
    · exact Or.inr ⟨c, hsrc c hc, h2⟩

/-- **illumina_site_provenance**, intron form: every intron of the corrected alignment (the gap between two consecutive
    corrected blocks) starts at the left site of an intron with an `IntronSource` and ends at the right site of one -/
theorem illumina_intron_sites (short exons out : List Iv) (f l : Iv) (hf : exons.head? = some f)
    (hl : exons.getLast? = some l) (hsd : SD exons) (hw : WFl exons) (hws : WFl short)
    (h : correctExons short exons = some out) (k : Nat) (e e' : Iv) (hk : out[k]? = some e)
    (hk' : out[k + 1]? = some e') :
    (∃ c, IntronSource short (junctionsFromBlocks exons) f.1 l.2 c ∧ e.2 + 1 = c.1) ∧
    (∃ c, IntronSource short (junctionsFromBlocks exons) f.1 l.2 c ∧ e'.1 - 1 = c.2) := by
  obtain ⟨osd, ow⟩ := illumina_bed_valid short exons out hsd hw hws h
  obtain ⟨eh, el⟩ := illumina_ends_preserved short exons out hsd hw h
  rw [hf] at eh
  rw [hl] at el
  have hprov := illumina_site_provenance short exons out f l hf hl h
  have he : e ∈ out := List.mem_of_getElem? hk
  have he' : e' ∈ out := List.mem_of_getElem? hk'
  have hadj := SD_adjacent out k e e' osd hk hk'
  cases hoh : out.head? with
  | none => rw [hoh] at eh; simp at eh
  | some a =>
    cases hol : out.getLast? with
    | none => rw [hol] at el; simp at el
    | some b =>
      rw [hoh] at eh
      rw [hol] at el
      simp at eh el
      have hb := SD_bounds osd ow hoh hol
      have h1 := hb e he
      have h2 := hb e' he'
      have := ow e he
      have := ow e' he'
      constructor
      · rcases (hprov e he).2 with h3 | ⟨c, hc, h3⟩
        · omega
        · exact ⟨c, hc, by omega⟩
      · rcases (hprov e' he').1 with h3 | ⟨c, hc, h3⟩
        · omega
        · exact ⟨c, hc, by omega⟩

/-- identity as soon as no short-read junction overlaps an intron of the read (gapped read blocks: C16's output) -/
theorem illumina_identity_no_overlap (short exons : List Iv) (hne : exons ≠ []) (hg : Spaced exons)
    (hno : ∀ i ∈ junctionsFromBlocks exons, ∀ s ∈ short, overlaps i s = false) :
    correctExons short exons = some exons := by
  cases exons with
  | nil => exact absurd rfl hne
  | cons a t =>
    obtain ⟨l, hl⟩ := getLast?_cons_some a t
    rw [correctExons_of_ends (List.head?_cons) hl]
    have hid : correctedIntronList short a.1 l.2 (junctionsFromBlocks (a :: t)) = junctionsFromBlocks (a :: t) := by
      apply flatMap_singleton_of
      intro i hi
      apply correctIntron_no_overlap short a.1 l.2 i (junctions_wf _ i hi)
      simp only [overlappingOf, List.filter_eq_nil_iff]
      intro s hs
      simp [hno i hi s hs]
    rw [hid, junctions_exons_inverse_aux (a :: t) a l (spaced_gapped _ hg) (List.head?_cons) hl]

/-- **illumina_identity_without_junctions**: without short-read junctions the read comes back unchanged -/
theorem illumina_identity_without_junctions (exons : List Iv) (hne : exons ≠ []) (hg : Spaced exons) :
    correctExons [] exons = some exons :=
  illumina_identity_no_overlap [] exons hne hg (fun _ _ s hs => by cases hs)

/-- the BED12 record of the corrected read is valid and decodes to the corrected blocks: composition with
    `bed_valid_iff` (read inside the chromosome, well-formed junctions; nothing else is assumed) -/
theorem illumina_record_valid (chrom name strand : String) (short exons out : List Iv) (chromLen : Int)
    (hfit : ExonsFit exons chromLen) (hws : WFl short) (h : correctExons short exons = some out) :
    ∃ r, C14.bedRecord chrom name strand out = some r ∧ ValidBed r chromLen ∧ r.blocks = out := by
  obtain ⟨hsd, hw, h1, h2⟩ := hfit
  obtain ⟨osd, ow⟩ := illumina_bed_valid short exons out hsd hw hws h
  obtain ⟨eh, el⟩ := illumina_ends_preserved short exons out hsd hw h
  obtain ⟨f, l, hf, hl, _⟩ := correctExons_some h
  rw [hf] at eh
  rw [hl] at el
  have hne : out ≠ [] := by
    intro h0; subst h0; simp at eh
  have hfit' : ExonsFit out chromLen := by
    refine ⟨osd, ow, ?_, ?_⟩
    · intro a ha
      rw [ha] at eh
      simp at eh
      have := h1 f hf
      omega
    · intro b hb
      rw [hb] at el
      simp at el
      have := h2 l hl
      omega
  obtain ⟨r, hr, hv⟩ := bed_valid chrom name strand out chromLen hne hfit'
  exact ⟨r, hr, hv, bed_blocks_roundtrip chrom name strand out r hr⟩

/-! ### the junction container built by `get_introns` -/

/-- `short_introns` holds exactly the junctions of the files, shifted from pysam's 0-based start to the 1-based
    closed convention of the read blocks -/
theorem illumina_short_introns_spec (files : List (List (Iv × Int))) (s : Iv) :
    s ∈ shortIntronsOf (mergeFiles files) ↔ ∃ f ∈ files, ∃ q ∈ f, s = (q.1.1 + 1, q.1.2) := by
  simp only [shortIntronsOf, mergeFiles, List.mem_map]
  constructor
  · rintro ⟨q, hq, rfl⟩
    have hk : q.1 ∈ (files.foldl mergeCounts []).map (·.1) := List.mem_map.mpr ⟨q, hq, rfl⟩
    rcases (mergeFiles_keys files [] q.1).mp hk with h0 | ⟨f, hf, hk'⟩
    · simp at h0
    · obtain ⟨q', hq', e⟩ := List.mem_map.mp hk'
      exact ⟨f, hf, q', hq', by rw [e]⟩
  · rintro ⟨f, hf, q, hq, rfl⟩
    have hk : q.1 ∈ (files.foldl mergeCounts []).map (·.1) :=
      (mergeFiles_keys files [] q.1).mpr (Or.inr ⟨f, hf, List.mem_map.mpr ⟨q, hq, rfl⟩⟩)
    obtain ⟨q', hq', e⟩ := List.mem_map.mp hk
    exact ⟨q', hq', by rw [e]⟩

/-- pysam reports an intron as `(start, end)` with `start < end` (0-based, half open): the container is then a list
    of well-formed junctions — the hypothesis `WFl short` of `illumina_bed_valid` -/
theorem illumina_short_introns_wf (files : List (List (Iv × Int)))
    (hp : ∀ f ∈ files, ∀ q ∈ f, q.1.1 < q.1.2) : WFl (shortIntronsOf (mergeFiles files)) := by
  intro s hs
  obtain ⟨f, hf, q, hq, rfl⟩ := (illumina_short_introns_spec files s).mp hs
  have := hp f hf q hq
  simp; omega

/-! ### regression witness and non-vacuity -/

/-- before fix a250903 a terminal exon shorter than the shift vanished and the read's start moved: read
    `10-12, 20-30` with the short-read junction `9-19` (4-bp rule at the left end of intron `13-19`).  The unguarded
    code returns the single block `20-30`; the fixed code keeps the read. -/
theorem illumina_ends_buggy_witness :
    correctExonsBuggy [(9, 19)] [(10, 12), (20, 30)] = some [(20, 30)] ∧
    correctExons [(9, 19)] [(10, 12), (20, 30)] = some [(10, 12), (20, 30)] := by
  decide

/-- the same for the skipped-exon rule: pair `8-14`, `18-22` around read intron `13-24` of read `10-12, 25-40` -/
theorem illumina_pair_buggy_witness :
    correctExonsBuggy [(8, 14), (18, 22)] [(10, 12), (25, 40)] = some [(15, 17), (23, 40)] ∧
    correctExons [(8, 14), (18, 22)] [(10, 12), (25, 40)] = some [(10, 12), (25, 40)] := by
  decide

/-- identity needs gapped blocks: two adjacent blocks are merged even without any short-read junction (outside the
    domain of the property: C16 never produces adjacent blocks) -/
theorem illumina_identity_adjacent_witness : correctExons [] [(1, 5), (6, 9)] = some [(1, 9)] := by decide

-- non-vacuity: the 4-bp rule fires (right end +4), the skipped-exon rule fires, a micro-exon between two corrected
-- introns is swallowed and the result is still a valid block list
example : correctExons [(101, 204)] [(1, 100), (201, 300)] = some [(1, 100), (205, 300)] := by decide
example : correctExons [(97, 200)] [(1, 100), (201, 300)] = some [(1, 96), (201, 300)] := by decide
example : correctExons [(101, 130), (151, 205)] [(1, 100), (201, 300)] = some [(1, 100), (131, 150), (206, 300)] := by
  decide
example : correctExons [(11, 24)] [(1, 10), (21, 23), (31, 40)] = some [(1, 10), (31, 40)] := by decide
example : SD [(1, 100), (201, 300)] ∧ WFl [(1, 100), (201, 300)] ∧ WFl [(101, 130), (151, 205)] ∧
    Spaced [(1, 100), (201, 300)] := by decide
example : PairTol (101, 200) (101, 130) (151, 205) := by
  unfold PairTol; decide
example : SingleTol (101, 200) (101, 204) := by unfold SingleTol; decide

end IsoVerif.Props.C14
