/-
C16 (part 10) — `cutsN` (Model/TailSpec.lean: the CIGAR cut at `N` only, the skeleton of the specification of
`concat_gapless_blocks`) without recursion: it lists exactly the maximal `N`-free runs of the CIGAR, each once, in
CIGAR order; with it `concat_gapless_spec` becomes a membership statement free of any recursive definition
(`concat_gapless_iff`), the counterpart of `exon_iff` for `get_read_blocks`.
-/
import IsoVerif.Model.TailSpec
import IsoVerif.Lemmas.CutsN
import IsoVerif.Props.C16Concat

namespace IsoVerif.Props.C16CutsN
open IsoVerif.Gen IsoVerif.Model IsoVerif.Model.C16 IsoVerif.Lemmas.C16

/-- **cutsN_are_maximal_runs** — `(pre, run)` is listed by `cutsN ops` iff `run` is an `N`-free run of the CIGAR that is
    preceded by `pre` and cannot be extended on either side (delimited by an `N` or by an end of the CIGAR) -/
theorem cutsN_are_maximal_runs (ops pre run : List CigarOp) :
    (pre, run) ∈ cutsN ops ↔
      ∃ post, ops = pre ++ run ++ post ∧ FreeOf isN run ∧ EndsWith isN pre ∧ StartsWith isN post := by
  unfold cutsN
  rw [cutsNAux_eq]
  constructor
  · intro h
    obtain ⟨post, h1, h2, h3, h4⟩ := cutsAuxP_sound isN ops [] [] (by intro o hm; cases hm) (by intro o ho; cases ho)
      pre run h
    exact ⟨post, by simpa using h1, h2, h3, h4⟩
  · rintro ⟨post, h1, h2, h3, h4⟩
    apply cutsAuxP_complete isN ops [] [] (by intro o hm; cases hm) pre run post (by simpa using h1) h2 h3 h4
    simp only [List.length_nil]
    omega

/-- **cutsN_listed_once_in_order** — one run per `N` operation plus one, and the runs appear in CIGAR order (the
    prefixes grow strictly, so no run is listed twice): together with `cutsN_are_maximal_runs` this determines the list -/
theorem cutsN_listed_once_in_order (ops : List CigarOp) :
    (cutsN ops).length = ops.countP (fun o => isN o.1) + 1 ∧
    (cutsN ops).Pairwise (fun a b => a.1.length < b.1.length) := by
  unfold cutsN
  rw [cutsNAux_eq]
  exact ⟨cutsAuxP_length isN ops [] [], cutsAuxP_ordered isN ops [] []⟩

/-- non-vacuity: the middle run of `2S 5M 10N 1I 3M 4S 7N 2M` — soft clips do not end a run here -/
example : ∃ post, ([(CigarEvent.soft_clipping, 2), (.«match», 5), (.skipped, 10), (.insertion, 1), (.«match», 3),
      (.soft_clipping, 4), (.skipped, 7), (.«match», 2)] : List CigarOp) =
      [(.soft_clipping, 2), (.«match», 5), (.skipped, 10)] ++ [(.insertion, 1), (.«match», 3), (.soft_clipping, 4)] ++ post ∧
      FreeOf isN [(CigarEvent.insertion, (1 : Int)), (.«match», 3), (.soft_clipping, 4)] ∧
      EndsWith isN [(CigarEvent.soft_clipping, (2 : Int)), (.«match», 5), (.skipped, 10)] ∧ StartsWith isN post :=
  ⟨[(.skipped, 7), (.«match», 2)], rfl,
    by intro o ho; simp at ho; rcases ho with h | h | h <;> subst h <;> rfl,
    by intro o ho; simp at ho; subst ho; rfl, by intro o ho; simp at ho; subst ho; rfl⟩

example : (cutsN [(CigarEvent.soft_clipping, (2 : Int)), (.«match», 5), (.skipped, 10), (.insertion, 1), (.«match», 3),
      (.soft_clipping, 4), (.skipped, 7), (.«match», 2)]).map (fun c => (c.1.length, c.2.length)) = [(0, 2), (3, 3), (7, 1)] := by
  decide

/-- **concat_gapless_iff** — `concat_gapless_blocks(get_blocks(), cigartuples)` without any recursive definition on the
    right-hand side: an interval is returned iff it belongs to a maximal `N`-free run, holding an aligned operation, of
    the CIGAR cut after its last aligned operation; it starts at the first aligned base of the run minus the pending
    deletion and ends after the last reference base of the run (0-based, half-open) -/
theorem concat_gapless_iff (s : Int) (ops : List CigarOp) (b : Iv) :
    b ∈ concatGaplessBlocks (alignedBlocks s ops) ops ↔
      ∃ pre run post, truncAligned ops = pre ++ run ++ post ∧ FreeOf isN run ∧ EndsWith isN pre ∧
        StartsWith isN post ∧ hasAligned run = true ∧
        b = (s + refLen pre + refLen (leadOf run) - pendingDel (pre ++ leadOf run), s + refLen pre + refLen run) := by
  rw [C16Concat.concat_gapless_spec, concatGaplessSpec, List.mem_filterMap]
  constructor
  · rintro ⟨⟨pre, run⟩, hm, hb⟩
    obtain ⟨post, h1, h2, h3, h4⟩ := (cutsN_are_maximal_runs _ pre run).1 hm
    simp only [gaplessOf] at hb
    split at hb
    · rename_i ha
      exact ⟨pre, run, post, h1, h2, h3, h4, ha, (Option.some.inj hb).symm⟩
    · cases hb
  · rintro ⟨pre, run, post, h1, h2, h3, h4, ha, hb⟩
    exact ⟨(pre, run), (cutsN_are_maximal_runs _ pre run).2 ⟨post, h1, h2, h3, h4⟩, by simp [gaplessOf, ha, hb]⟩

/-- non-vacuity: `50M 2D 30M 100N 40M 3D` at 1000 — the trailing `D` is cut off, two blocks -/
example : concatGaplessBlocks (alignedBlocks 1000 [(.«match», 50), (.deletion, 2), (.«match», 30), (.skipped, 100),
      (.«match», 40), (.deletion, 3)]) [(.«match», 50), (.deletion, 2), (.«match», 30), (.skipped, 100),
      (.«match», 40), (.deletion, 3)] = [(1000, 1082), (1182, 1222)] := by decide

end IsoVerif.Props.C16CutsN
