/-
C16 (growth c05edge, audit C16-G5) — which records have no exon at all: exactly those whose CIGAR holds no aligned
operation (`M`, `=`, `X`).  `process_genic / process_intergenic` skip such a record with the warning "Read … has no
aligned exons" (the guard `if not alignment_info.read_exons`); the pipeline oracle holds the records `20I`, `30S`,
`5S3D4I` and expects the run to finish without a row for them.
-/
import IsoVerif.Props.C16
import IsoVerif.Lemmas.NoExon

namespace IsoVerif.Props.C16NoExon
open IsoVerif.Gen IsoVerif.Model IsoVerif.Model.C16 IsoVerif.Lemmas.C16 IsoVerif.Props.C16

/-- **no_exon_iff**: for every CIGAR (all nine operation kinds, lengths ≥ 0) on a record with `reference_start ≥ 0`,
    `get_read_blocks` returns no exon ⇔ the CIGAR contains no aligned operation (`M`, `=`, `X`) – exactly the records
    the collector drops with "has no aligned exons"; every other record has at least one exon -/
theorem no_exon_iff (s : Int) (ops : List CigarOp) (hs : 0 ≤ s) (hn : NonNeg ops) :
    (getReadBlocks s ops).refBlocks = [] ↔ ∀ o, o ∈ ops → isAligned o.1 = false := by
  rw [read_blocks_spec s ops hs hn, exonsSpec, List.filterMap_eq_nil_iff]
  constructor
  · intro h o ho
    cases ha : isAligned o.1 with
    | false => rfl
    | true =>
      have hsep : isSep o.1 = false := by
        obtain ⟨k, n⟩ := o
        cases k <;> simp [isAligned] at ha <;> rfl
      obtain ⟨c, hc, hoc⟩ := cutsAux_covers ops [] [] o (by simpa using ho) hsep
      have hcn := h c hc
      simp only [exonOf] at hcn
      split at hcn
      · cases hcn
      · rename_i hna
        exfalso; apply hna
        simp only [hasAligned, List.any_eq_true]
        exact ⟨o, hoc, ha⟩
  · intro h c hc
    simp only [exonOf]
    split
    · rename_i ha
      simp only [hasAligned, List.any_eq_true] at ha
      obtain ⟨o, hoc, hoa⟩ := ha
      have := cutsAux_sub ops [] [] c hc o hoc
      rw [h o (by simpa using this)] at hoa
      cases hoa
    · rfl

example : (getReadBlocks 1100 [(.soft_clipping, 5), (.deletion, 3), (.insertion, 4)]).refBlocks = [] ∧
    (getReadBlocks 1100 [(.«match», 0), (.skipped, 300), (.«match», 90)]).refBlocks = [(1101, 1100), (1401, 1490)] := by
  decide

end IsoVerif.Props.C16NoExon
