/-
C06 — the components of the generated shared-state inventory: per-chromosome outputs do not depend on them.
Property theorems only; lemmas in IsoVerif/Lemmas/C06Ids.lean.
-/
import IsoVerif.Model.Schedule
import IsoVerif.Lemmas.Schedule
import IsoVerif.Lemmas.C06Ids
import IsoVerif.Lemmas.C06Pipeline
import IsoVerif.Props.C06

namespace IsoVerif.Props.C06
open IsoVerif.Model.C06 IsoVerif.Lemmas.C06

/-! ### `ReadAssignment.assignment_id_generator` -/

/-- the loader compares assignment ids for equality only (with ids of the same chromosome): replacing every id
    `i` by `g i` for an injective `g`, in the save file and in the multimapper table alike, keeps and drops
    exactly the same reads with the same verdicts -/
theorem assignment_id_renumbering_invariant (g : Nat → Nat) (hg : ∀ a b, g a = g b → a = b)
    (chr : String) (mm : List MMRec) (ids : List (Nat × ReadRec)) :
    loadBlock chr (mm.map (renumMM g)) (renumIds g ids) = loadBlock chr mm ids :=
  loadBlock_renumber g hg chr mm ids

/-- non-vacuity: a table in which the id decides (two alignments of one read on the chromosome, one suspended) -/
example : loadBlock "c" [⟨"r", "c", 4, none⟩, ⟨"r", "c", 5, some 9⟩] [(4, ⟨"r", 1⟩), (5, ⟨"r", 2⟩), (6, ⟨"u", 3⟩)]
    = [⟨"r", 9⟩, ⟨"u", 3⟩] := by decide

/-- the ids do matter when the renumbering is not injective -/
theorem assignment_id_collision_witness :
    loadBlock "c" ([⟨"r", "c", 4, none⟩, ⟨"r", "c", 5, some 9⟩].map (renumMM (fun _ => 0)))
        (renumIds (fun _ => 0) [(4, ⟨"r", 1⟩), (5, ⟨"r", 2⟩)])
      ≠ loadBlock "c" [⟨"r", "c", 4, none⟩, ⟨"r", "c", 5, some 9⟩] [(4, ⟨"r", 1⟩), (5, ⟨"r", 2⟩)] := by decide

/-- a worker whose counter stands at `σ.assignCtr` writes the save file of a fresh worker with every id shifted by
    that amount: an injective renumbering, and nothing else of the worker state shows -/
theorem collect_ids_shift (σ : WState) (c : Chr) :
    (collectTask σ c).1 = shiftSave σ.assignCtr (collectTask {} c).1 := by
  unfold collectTask
  have h := collectBlocks_shift σ.assignCtr c.blocks { σ with assignCtr := 0 }
  simp only [Nat.zero_add] at h
  rw [← collectBlocks_ctr_only c.blocks { σ with assignCtr := 0 } {} rfl, ← h]

/-- ids handed out inside one task are pairwise different (the counter only grows) -/
theorem collect_ids_increasing (ctr : Nat) (rs : List ReadRec) :
    (numberReads ctr rs).map Prod.fst = (List.range rs.length).map (fun i => ctr + 1 + i) := by
  induction rs generalizing ctr with
  | nil => rfl
  | cons r rs ih =>
    simp only [numberReads, List.map_cons, List.length_cons, List.range_succ_eq_map, List.map_map, ih]
    simp only [List.cons.injEq, Nat.add_zero, true_and]
    apply List.map_congr_left
    intro i _
    simp only [Function.comp]
    omega

/-! ### `FeatureInfo.feature_id_counter`, `MultimapResolver.duplicate_counter` -/

/-- no task reads the FeatureInfo counter or the duplicate counter, and no task changes the latter (it lives in
    the parent: only the log depends on it) -/
theorem feature_id_counter_unread (σ : WState) (n : Nat) (c : Chr) (t : Task2) :
    (collectTask { σ with featCtr := n } c).1 = (collectTask σ c).1 ∧
    (constructTask { σ with featCtr := n } t).1 = (constructTask σ t).1 :=
  ⟨collectBlocks_ctr_only _ _ _ rfl, constructBlocks_detected_only _ _ _ _ _ rfl⟩

theorem duplicate_counter_log_only (σ : WState) (n : Nat) (c : Chr) (t : Task2) :
    (collectTask { σ with dupCtr := n } c).1 = (collectTask σ c).1 ∧
    (constructTask { σ with dupCtr := n } t).1 = (constructTask σ t).1 :=
  ⟨collectBlocks_ctr_only _ _ _ rfl, constructBlocks_detected_only _ _ _ _ _ rfl⟩

/-! ### `GraphBasedModelConstructor.detected_known_isoforms` -/

/-- after /repo 42b6bc8 (set cleared at task start) the output of `construct_models_in_parallel` for a chromosome
    is the same in every worker state -/
theorem construct_state_independent (σ σ' : WState) (t : Task2) :
    (constructTask σ t).1 = (constructTask σ' t).1 :=
  constructBlocks_detected_only _ _ _ _ _ rfl

/-- hence the second pool returns the same list under every schedule -/
theorem construct_schedule_independent (tasks : List Task2) (st st' : Nat → WState) (s s' : List Event)
    (hs : ValidSchedule tasks.length s) (hs' : ValidSchedule tasks.length s') :
    poolMap constructTask tasks st s = poolMap constructTask tasks st' s' :=
  schedule_independent constructTask tasks (fun σ₁ σ₂ c => construct_state_independent σ₁ σ₂ c) st st' s s' hs hs'

/-- full statement for the code *without* the reset: `∀ σ σ' t, (constructTaskNoReset σ t).1 = (constructTaskNoReset σ' t).1`.
    It is false (witness below).  What holds: ids a worker has already reported do not matter as long as none of them
    is a candidate of this chromosome (a reference transcript id lives on one chromosome) -/
theorem detected_known_independent_partial (σ : WState) (t : Task2)
    (disjoint : ∀ p, p ∈ t.save → ∀ x, x ∈ p.1.known → x ∉ σ.detected) :
    (constructTaskNoReset σ t).1 = (constructTaskNoReset { σ with detected := [] } t).1 := by
  unfold constructTaskNoReset
  have := constructBlocks_append t.name t.mm σ.detected t.save { σ with detected := [] } disjoint
  simpa using this

example : ∀ p, p ∈ ([(⟨0, [], ["T1"], 0⟩, [])] : SaveFile) → ∀ x, x ∈ p.1.known → x ∉ ({ detected := ["T2"] } : WState).detected := by
  decide

/-- without the reset, two chromosomes that both carry a candidate `T1` are reported differently when one worker
    handles both than when two workers share them -/
theorem detected_known_witness :
    let t : Task2 := { name := "c", save := [(⟨0, [], ["T1"], 0⟩, [])], mm := [] }
    poolMap constructTaskNoReset [t, t] (fun _ => {}) [(0, 0), (0, 1)]
      ≠ poolMap constructTaskNoReset [t, t] (fun _ => {}) [(0, 0), (1, 1)] := by
  simp [poolMap, runEvents, setW, List.lookup, List.range, List.range.loop, constructTaskNoReset, constructBlocks,
        reportKnown, loadBlock]

/-! ### the whole sample: both pools, the parent glue in between, the ordered merge -/

/-- **reference semantics.**  For every pair of valid schedules, every number of workers and every initial worker
    state (forked from any parent state; `--threads 1` = one worker that carries its state from the first pool
    into the second), the outputs of `pipeline` are those of the sequential run in which *every* task is executed by
    a fresh worker: assignment ids are shifted per chromosome by the schedule-dependent counter value, the shift
    passes through the multimapper table of the parent and cancels in the loader's equality test; the other
    components of the worker state are reset or never read. -/
theorem pipeline_eq_reference (resolve : List (String × Nat) → List (Option Nat)) (chrs : List Chr)
    (hn : (chrs.map (·.name)).Nodup)
    (st1 st2 : Nat → WState) (s1 s2 : List Event)
    (h1 : ValidSchedule chrs.length s1) (h2 : ValidSchedule chrs.length s2) (order : List Nat) :
    pipeline resolve chrs st1 s1 st2 s2 order
      = order.mapM (fun i => (outsOf resolve chrs (chrs.map (fun c => (collectTask {} c).1)))[i]?) := by
  obtain ⟨K, hK⟩ := pool1_shape chrs hn st1 s1 h1
  unfold pipeline
  rw [hK, mapM_id_map_some]
  simp only []
  have hlen : (((chrs.map (·.name)).zip (chrs.map (fun c => (collectTask {} c).1))).map
      (fun p => shiftSave (K p.1) p.2)).length = chrs.length := by simp
  have h2' : ValidSchedule (tasks2 resolve chrs (((chrs.map (·.name)).zip (chrs.map (fun c => (collectTask {} c).1))).map
      (fun p => shiftSave (K p.1) p.2))).length s2 := by
    rw [tasks2_length resolve chrs _ hlen]; exact h2
  rw [poolMap_eq_map constructTask _ {} (fun σ₁ σ₂ c => construct_state_independent σ₁ σ₂ c) st2 s2 h2',
      mapM_id_map_some]
  simp only []
  have := outsOf_shift resolve chrs (chrs.map (fun c => (collectTask {} c).1)) K
  unfold outsOf at this
  rw [this]
  rfl

/-- **C06 for the model**: the merged per-chromosome outputs of a sample are the same for all schedules of both
    pools, all worker counts and all initial worker states -/
theorem pipeline_schedule_independent (resolve : List (String × Nat) → List (Option Nat)) (chrs : List Chr)
    (hn : (chrs.map (·.name)).Nodup)
    (st1 st1' st2 st2' : Nat → WState) (s1 s1' s2 s2' : List Event)
    (h1 : ValidSchedule chrs.length s1) (h1' : ValidSchedule chrs.length s1')
    (h2 : ValidSchedule chrs.length s2) (h2' : ValidSchedule chrs.length s2') (order : List Nat) :
    pipeline resolve chrs st1 s1 st2 s2 order = pipeline resolve chrs st1' s1' st2' s2' order := by
  rw [pipeline_eq_reference resolve chrs hn st1 st2 s1 s2 h1 h2,
      pipeline_eq_reference resolve chrs hn st1' st2' s1' s2' h1' h2']

/-- non-vacuity: two chromosomes sharing a multimapped read, two schedule pairs (sequential with carried state;
    two workers with reversed completion), outputs present and equal -/
example :
    let chrs : List Chr := [{ name := "chr1", blocks := [⟨2, [⟨"r", 1⟩, ⟨"u", 2⟩], ["T1"], 1⟩] },
                            { name := "chr2", blocks := [⟨3, [⟨"r", 4⟩], ["T2"], 0⟩] }]
    let res : List (String × Nat) → List (Option Nat) := fun l => l.map (fun x => if x.2 == 4 then none else some 7)
    (chrs.map (·.name)).Nodup ∧
    pipeline res chrs (fun _ => {}) [(0, 0), (0, 1)] (fun _ => { assignCtr := 3, featCtr := 5 }) [(0, 0), (0, 1)] [0, 1]
      = some [⟨[⟨"r", 7⟩, ⟨"u", 2⟩], ["T1"]⟩, ⟨[], ["T2"]⟩] ∧
    pipeline res chrs (fun _ => {}) [(1, 1), (0, 0)] (fun _ => {}) [(0, 1), (1, 0)] [0, 1]
      = some [⟨[⟨"r", 7⟩, ⟨"u", 2⟩], ["T1"]⟩, ⟨[], ["T2"]⟩] := by
  decide

end IsoVerif.Props.C06
