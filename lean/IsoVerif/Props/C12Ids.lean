/-
C12 — "the same annotation … gives identical outputs": a GTF whose transcript records are typed `mRNA` is the same annotation
as the one typed `transcript` (the input check counts both as transcript records, GeneInfo reads both).  With the gffutils
default key specification only `transcript` records are keyed by transcript_id, so the mRNA spelling lost every isoform under
`--complete_genedb` (audit2-C C12 GAP-1).  Property theorems only.
-/
import IsoVerif.Model.GtfIds

namespace IsoVerif.Props.C12Ids
open IsoVerif.Gen IsoVerif.Model.C12Ids

/-- **transcript_types_agree** (over the tables GENERATED from /repo, closed by `decide`): the input check (GTF and GFF3
    branch) and GeneInfo name the same record types as transcript records, and the key specification handed to gffutils keys
    every one of them by `transcript_id` (and `gene` by `gene_id`).  An edit of any of the three places re-opens this. -/
theorem transcript_types_agree :
    (∀ t ∈ CHECK_TRANSCRIPT_TYPES, t ∈ GENEINFO_TRANSCRIPT_TYPES) ∧ (∀ t ∈ GENEINFO_TRANSCRIPT_TYPES, t ∈ CHECK_TRANSCRIPT_TYPES) ∧
    (∀ t ∈ CHECK_GFF3_TRANSCRIPT_TYPES, t ∈ GENEINFO_TRANSCRIPT_TYPES) ∧ (∀ t ∈ GENEINFO_TRANSCRIPT_TYPES, t ∈ CHECK_GFF3_TRANSCRIPT_TYPES) ∧
    (∀ t ∈ GENEINFO_TRANSCRIPT_TYPES, (effectiveSpec DB_ID_SPEC).lookup t = some "transcript_id") ∧
    (effectiveSpec DB_ID_SPEC).lookup "gene" = some "gene_id" := by
  decide

/-- **keyed_record_id** (∀ specifications, ∀ files): a record whose type the specification keys by `transcript_id` and which
    carries the attribute gets that value as its id — wherever it stands in the file, whatever else is auto-numbered — and its
    exon children are exactly the exon records with that transcript_id. -/
theorem keyed_record_id (spec : List (String × String)) (recs : List GRec) (cnt : String → Nat) (p : FId × GRec)
    (hp : p ∈ assignIdsFrom spec cnt recs) (t : String) (hk : spec.lookup p.2.ftype = some "transcript_id") (ht : p.2.tid = some t) :
    p.1 = .named t ∧
    exonsOf recs p.1 = (recs.filter (fun r => r.ftype == "exon" && r.tid == some t)).map (·.span) := by
  have hid : p.1 = .named t := by
    induction recs generalizing cnt with
    | nil => simp [assignIdsFrom] at hp
    | cons r rs ih =>
      unfold assignIdsFrom at hp
      cases hkey : keyOf spec r with
      | some v =>
        simp only [hkey, List.mem_cons] at hp
        rcases hp with heq | hp
        · have h1 : p.1 = .named v := by rw [heq]
          have h2 : p.2 = r := by rw [heq]
          rw [h2] at hk ht
          simp only [keyOf, hk, Option.bind_some, attrOf] at hkey
          simp only [show ("transcript_id" = "gene_id") = False from by decide, if_false, if_true] at hkey
          rw [ht] at hkey
          cases hkey
          exact h1
        · exact ih cnt hp
      | none =>
        simp only [hkey, List.mem_cons] at hp
        rcases hp with heq | hp
        · have h2 : p.2 = r := by rw [heq]
          rw [h2] at hk ht
          simp only [keyOf, hk, Option.bind_some, attrOf] at hkey
          simp only [show ("transcript_id" = "gene_id") = False from by decide, if_false, if_true] at hkey
          rw [ht] at hkey
          cases hkey
        · exact ih _ hp
  exact ⟨hid, by rw [hid]; rfl⟩

-- non-vacuity: an mRNA record after an auto-numbered CDS record, keyed by the generated specification
example : ((.named "T1", ⟨"mRNA", "G1", some "T1", (1000, 2300)⟩) : FId × GRec) ∈
      assignIdsFrom (effectiveSpec DB_ID_SPEC) (fun _ => 0)
        [⟨"CDS", "G1", some "T0", (5, 9)⟩, ⟨"mRNA", "G1", some "T1", (1000, 2300)⟩] ∧
    (effectiveSpec DB_ID_SPEC).lookup "mRNA" = some "transcript_id" := by decide

/-- one record re-typed -/
def rt (txTypes : List String) (f : GRec → String) (r : GRec) : GRec :=
  if txTypes.contains r.ftype then { r with ftype := f r } else r

/-- re-typing keyed records does not move any id (the counters of the auto-numbered types are untouched): the database of
    the re-typed file is the database of the file with the records re-typed -/
theorem assignIdsFrom_retype (spec : List (String × String)) (txTypes : List String) (f : GRec → String)
    (hkeyed : ∀ t ∈ txTypes, spec.lookup t = some "transcript_id")
    (hf : ∀ r, f r ∈ txTypes) (recs : List GRec)
    (htid : ∀ r ∈ recs, txTypes.contains r.ftype = true → r.tid.isSome = true) :
    ∀ cnt, assignIdsFrom spec cnt (retype txTypes f recs) =
      (assignIdsFrom spec cnt recs).map (fun p => (p.1, rt txTypes f p.2)) := by
  induction recs with
  | nil => intro cnt; rfl
  | cons r rs ih =>
    intro cnt
    have ih' := ih (fun x hx => htid x (List.mem_cons_of_mem _ hx))
    unfold retype at ih' ⊢
    simp only [List.map_cons]
    by_cases hc : txTypes.contains r.ftype = true
    · obtain ⟨t, ht⟩ := Option.isSome_iff_exists.mp (htid r (List.mem_cons_self ..) hc)
      have hmem : r.ftype ∈ txTypes := by simpa using hc
      have k1 : keyOf spec r = some t := by
        simp only [keyOf, hkeyed _ hmem, Option.bind_some, attrOf, ht]
        simp
      have k2 : keyOf spec { r with ftype := f r } = some t := by
        simp only [keyOf, hkeyed _ (hf r), Option.bind_some, attrOf, ht]
        simp
      simp only [hc, if_true]
      unfold assignIdsFrom
      simp only [k1, k2, List.map_cons, ih' cnt, rt, hc, if_true]
    · simp only [hc, Bool.false_eq_true, if_false]
      unfold assignIdsFrom
      cases hk : keyOf spec r with
      | some v => simp only [List.map_cons, ih' cnt, rt, hc, Bool.false_eq_true, if_false]
      | none => simp only [List.map_cons, ih' _, rt, hc, Bool.false_eq_true, if_false]

/-- **retype_invariant** (∀ key specifications that key every transcript type by transcript_id, ∀ files whose transcript
    records carry a transcript_id, ∀ re-typings among the transcript types): the database of the re-typed file has the same
    ids in the same order, and GeneInfo reads the same isoforms — ids and exon coordinates — for every gene. -/
theorem retype_invariant (spec : List (String × String)) (txTypes : List String) (f : GRec → String)
    (hkeyed : ∀ t ∈ txTypes, (effectiveSpec spec).lookup t = some "transcript_id")
    (hexon : "exon" ∉ txTypes)
    (hf : ∀ r, f r ∈ txTypes) (recs : List GRec)
    (htid : ∀ r ∈ recs, txTypes.contains r.ftype = true → r.tid.isSome = true) (g : String) :
    (assignIds spec (retype txTypes f recs)).map (·.1) = (assignIds spec recs).map (·.1) ∧
    isoformsOf spec txTypes (retype txTypes f recs) g = isoformsOf spec txTypes recs g := by
  have hall := assignIdsFrom_retype (effectiveSpec spec) txTypes f hkeyed hf recs htid (fun _ => 0)
  have hids : (assignIds spec (retype txTypes f recs)).map (·.1) = (assignIds spec recs).map (·.1) := by
    unfold assignIds
    rw [hall, List.map_map]
    rfl
  refine ⟨hids, ?_⟩
  -- exon records are not re-typed, so `exonsOf` reads the same exon lines
  have hex : ∀ i, exonsOf (retype txTypes f recs) i = exonsOf recs i := by
    intro i
    cases i with
    | auto _ _ => rfl
    | named s =>
      simp only [exonsOf]
      unfold retype
      rw [List.filter_map, List.map_map]
      have hfun : ∀ r : GRec, ((fun r : GRec => r.ftype == "exon" && r.tid == some s) ∘
          (fun r => if txTypes.contains r.ftype then { r with ftype := f r } else r)) r =
          (r.ftype == "exon" && r.tid == some s) := by
        intro r
        simp only [Function.comp]
        by_cases hc : txTypes.contains r.ftype = true
        · have hmem : r.ftype ∈ txTypes := by simpa using hc
          have h1 : (r.ftype == "exon") = false := by
            simp only [beq_eq_false_iff_ne, ne_eq]; intro he; exact hexon (he ▸ hmem)
          have h2 : (f r == "exon") = false := by
            simp only [beq_eq_false_iff_ne, ne_eq]; intro he; exact hexon (he ▸ hf r)
          simp only [hc, if_true, h1, h2, Bool.false_and]
        · simp only [hc, Bool.false_eq_true, if_false]
      rw [List.filter_congr (fun r _ => hfun r)]
      apply List.map_congr_left
      intro r _
      simp only [Function.comp]
      split <;> rfl
  unfold isoformsOf assignIds
  rw [hall, List.filter_map, List.map_map]
  have hP : ∀ p : FId × GRec, ((fun p : FId × GRec => txTypes.contains p.2.ftype && p.2.gid == g) ∘
      (fun p => (p.1, rt txTypes f p.2))) p = (txTypes.contains p.2.ftype && p.2.gid == g) := by
    intro p
    simp only [Function.comp, rt]
    by_cases hc : txTypes.contains p.2.ftype = true
    · have : txTypes.contains (f p.2) = true := by simpa using hf p.2
      simp only [hc, if_true, this]
    · simp only [hc, Bool.false_eq_true, if_false]
  rw [List.filter_congr (fun p _ => hP p)]
  apply List.map_congr_left
  intro p _
  simp only [Function.comp, hex]

-- non-vacuity of `retype_invariant`: the generated specification and type list meet the hypotheses
example : (∀ t ∈ GENEINFO_TRANSCRIPT_TYPES, (effectiveSpec DB_ID_SPEC).lookup t = some "transcript_id") ∧
    "exon" ∉ GENEINFO_TRANSCRIPT_TYPES := by decide

/-- the annotation of the audit probe (gene G1, isoforms T1 / T2), transcript records typed `ty` -/
def probeFile (ty : String) : List GRec :=
  [⟨"gene", "G1", none, (1000, 2300)⟩,
   ⟨ty, "G1", some "T1", (1000, 2300)⟩,
   ⟨"exon", "G1", some "T1", (1000, 1200)⟩, ⟨"exon", "G1", some "T1", (1500, 1700)⟩, ⟨"exon", "G1", some "T1", (2000, 2300)⟩,
   ⟨ty, "G1", some "T2", (1000, 2300)⟩,
   ⟨"exon", "G1", some "T2", (1000, 1200)⟩, ⟨"exon", "G1", some "T2", (2000, 2300)⟩]

/-- **default_spec_mrna_witness**: with the gffutils default key specification (`DB_ID_SPEC = []`, the pinned tree) the
    `mRNA` spelling of the probe annotation gives GeneInfo the isoforms `mRNA_1`, `mRNA_2` WITHOUT exons, the `transcript`
    spelling gives T1, T2 with their exons: the representations differ.  With the key specification of the repaired tree
    (generated) both spellings give T1, T2 with their exons. -/
theorem default_spec_mrna_witness :
    isoformsOf [] ["transcript", "mRNA"] (probeFile "mRNA") "G1" = [(.auto "mRNA" 1, []), (.auto "mRNA" 2, [])] ∧
    isoformsOf [] ["transcript", "mRNA"] (probeFile "transcript") "G1" =
      [(.named "T1", [(1000, 1200), (1500, 1700), (2000, 2300)]), (.named "T2", [(1000, 1200), (2000, 2300)])] ∧
    isoformsOf DB_ID_SPEC GENEINFO_TRANSCRIPT_TYPES (probeFile "mRNA") "G1" =
      isoformsOf DB_ID_SPEC GENEINFO_TRANSCRIPT_TYPES (probeFile "transcript") "G1" ∧
    isoformsOf DB_ID_SPEC GENEINFO_TRANSCRIPT_TYPES (probeFile "mRNA") "G1" =
      [(.named "T1", [(1000, 1200), (1500, 1700), (2000, 2300)]), (.named "T2", [(1000, 1200), (2000, 2300)])] := by
  refine ⟨by decide, by decide, by decide, by decide⟩

/-- **generated_spec_retype_invariant**: the clause for the tree as it is — with the key specification and the transcript
    type list GENERATED from /repo, every re-typing of the transcript records of any annotation (each carrying a
    transcript_id) among the transcript types leaves the database ids and the isoforms GeneInfo reads unchanged. -/
theorem generated_spec_retype_invariant (f : GRec → String) (hf : ∀ r, f r ∈ GENEINFO_TRANSCRIPT_TYPES) (recs : List GRec)
    (htid : ∀ r ∈ recs, GENEINFO_TRANSCRIPT_TYPES.contains r.ftype = true → r.tid.isSome = true) (g : String) :
    isoformsOf DB_ID_SPEC GENEINFO_TRANSCRIPT_TYPES (retype GENEINFO_TRANSCRIPT_TYPES f recs) g =
      isoformsOf DB_ID_SPEC GENEINFO_TRANSCRIPT_TYPES recs g :=
  (retype_invariant DB_ID_SPEC GENEINFO_TRANSCRIPT_TYPES f (by decide) (by decide) hf recs htid g).2

end IsoVerif.Props.C12Ids
