import IsoVerif.Model.CacheReuse
import IsoVerif.Props.C20

/-
C20 — "… never makes a run use a conversion that does not correspond to its own input", audit2 C20-G3.
`results_correspond_to_own_input` (Props/C20.lean) proves the clause for the programs of Model/Cache.lean, where
`index_reference` is `produce`: the index is always built.  The code before the repair returned any file it found under
the index's NAME and `store_index` then published it in index_config.json for another reference: the clause is false of
that code, sequentially.
-/
namespace IsoVerif.Props.C20Reuse
open IsoVerif.Model.C20

set_option maxRecDepth 8192

/-- 30 = d1/genome.fa (mtime 7), 31 = d2/genome.fa (mtime 8): two references with the same file name;
    40 = X/genome_k14_idx, 41 = Y/genome_k14_idx -/
def w0 : World Nat := World.fresh (fun p => if p = 30 then some 7 else if p = 31 then some 8 else none) 100
def cX30 : Client := { file := 1, key := 30, src := 30, aux := [], target := 40, tag := 14 }
def cX31 : Client := { file := 1, key := 31, src := 31, aux := [], target := 40, tag := 14 }
def cY31 : Client := { file := 1, key := 31, src := 31, aux := [], target := 41, tag := 14 }

/-- **audit2 C20-G3, old `index_reference`** (`toyCodec`, three runs one after the other, nothing concurrent):
    1. `-o X --reference d1/genome.fa` builds `X/genome_k14_idx` (version 100) from d1;
    2. `-o X --reference d2/genome.fa` finds a file under that name, builds nothing, and `store_index` records
       `d2/genome.fa → X/genome_k14_idx @ 100` in index_config.json;
    3. `-o Y --reference d2/genome.fa` gets a cache HIT on it.
    The only production ever performed has key 30 (d1): the index run 3 (and run 2) goes on to use was not converted from
    its own input - the conclusion of `results_correspond_to_own_input` fails for both. -/
theorem index_reused_by_name_witness :
    let r1 := runReuseAlone toyCodec w0 cX30
    let r2 := runReuseAlone toyCodec r1.1 cX31
    let r3 := runFixedAlone toyCodec r2.1 cY31
    (r1.2.crashed, r2.2.crashed, r3.2.crashed, r3.2.todo.length) = (false, false, false, 0) ∧
    r2.2.results.map (fun r => (r.client.key, r.target, r.tgtM, r.hit)) = [(31, 40, 100, false)] ∧
    r3.2.results.map (fun r => (r.client.key, r.target, r.tgtM, r.hit)) = [(31, 40, 100, true)] ∧
    r3.1.convs.map (fun cv => (cv.client.key, cv.client.target, cv.tgtM)) = [(30, 40, 100)] ∧
    (∀ r ∈ r3.2.results, ¬ ∃ cv ∈ r3.1.convs, cv.client.key = r.client.key ∧ cv.client.target = r.target ∧ cv.tgtM = r.tgtM) ∧
    (∀ r ∈ r2.2.results, ¬ ∃ cv ∈ r3.1.convs, cv.client.key = r.client.key ∧ cv.client.target = r.target ∧ cv.tgtM = r.tgtM) := by
  decide

/-- the same three commands with the repaired `index_reference` (= the programs of Model/Cache.lean, for which
    `results_correspond_to_own_input` is proved): run 2 builds its own index over the old one, run 3's hit is a conversion
    of d2 -/
example :
    let r1 := runFixedAlone toyCodec w0 cX30
    let r2 := runFixedAlone toyCodec r1.1 cX31
    let r3 := runFixedAlone toyCodec r2.1 cY31
    r3.2.results.map (fun r => (r.client.key, r.target, r.tgtM, r.hit)) = [(31, 40, 101, true)] ∧
    r3.1.convs.map (fun cv => (cv.client.key, cv.client.target, cv.tgtM)) = [(31, 40, 101), (30, 40, 100)] ∧
    (∀ r ∈ r3.2.results, ∃ cv ∈ r3.1.convs, cv.client.key = r.client.key ∧ cv.client.target = r.target ∧ cv.tgtM = r.tgtM) := by
  decide

end IsoVerif.Props.C20Reuse
