/-
C01 (polyA verification, sentinel distance) — `PolyAVerifier.detect_reference_exons_beyond_polya / before_polyt`
(src/polya_verification.py) computed `abs(exon_end - pos)` also for an ABSENT position (−1); near the chromosome start the
distance to coordinate −1 won the `min`, so the verdict ("terminal exons missed" ⇒ terminal_exon_misalignment_* events and a
corrected polyA position) depended on where the gene sits.  Found by the C11 equivariance proofs (hypotheses `FarOriginA/T`,
`SentinelInert*` were needed exactly there); fixed in /repo (an absent position is infinitely far, as in `check_if_close`).
The model (`Model/Assign.lean`) follows the fixed code; the old behaviour is kept as `detectBeyondPolyaBuggy` /
`detectBeforePolytBuggy`.
-/
import IsoVerif.Model.Assign
import IsoVerif.Lemmas.C11AssignShift4

namespace IsoVerif.Props.C01Polya
open IsoVerif.Gen IsoVerif.Model IsoVerif.Model.C01 IsoVerif.Model.C11 IsoVerif.Lemmas IsoVerif.Lemmas.C11
open IsoVerif.Lemmas.C11.AssignShift

def exP : Params :=
  { delta := 6, minor_exon_extension := 50, major_exon_extension := 300, min_abs_exon_overlap := 10, apa_delta := 50,
    minimal_exon_overlap := 5, minimal_intron_absence_overlap := 20, max_fake_terminal_exon_len := 40,
    max_missed_exon_len := 100, resolve_ambiguous := .monoexon_and_fsm }

def shiftOut (k : Int) (r : Option (List Event × Int × Int)) : Option (List MatchEventSubtype × Int × Int) :=
  r.map (fun r => (r.1.map (·.ty), (if r.2.1 = -1 then -1 else r.2.1 - k), (if r.2.2 = -1 then -1 else r.2.2 - k)))

/-- **detectBeyondPolyaBuggy_witness** (position dependence near the chromosome start, code before the fix): isoform
    (10-30, 200-210), external polyA at 80, no internal one.  `min(|30 − 80|, |30 − (−1)|) = 31 ≤ 40`: the last exon counts
    as "missed" and the polyA position is moved to 210; the same configuration 1000 bases downstream gives
    `min(50, 1031) = 50` and nothing.  The repaired function gives nothing in both places. -/
theorem detectBeyondPolyaBuggy_witness :
    shiftOut 0 (detectBeyondPolyaBuggy exP [(10, 30), (200, 210)] 80 (-1) [])
      = some ([.terminal_exon_misalignment_right], 210, 210) ∧
    shiftOut 1000 (detectBeyondPolyaBuggy exP [(1010, 1030), (1200, 1210)] 1080 (-1) []) = some ([], 80, -1) ∧
    shiftOut 0 (detectBeyondPolya exP [(10, 30), (200, 210)] 80 (-1) []) = some ([], 80, -1) ∧
    shiftOut 1000 (detectBeyondPolya exP [(1010, 1030), (1200, 1210)] 1080 (-1) []) = some ([], 80, -1) := by
  decide

/-- the polyT side: isoform (1-3, 5-100), external polyT at 50 (inside the second exon): `min(|5 − 50|, |5 − (−1)|) = 6` -/
theorem detectBeforePolytBuggy_witness :
    shiftOut 0 (detectBeforePolytBuggy exP [(1, 3), (5, 100)] 50 (-1) [])
      = some ([.terminal_exon_misalignment_left], 1, 1) ∧
    shiftOut 1000 (detectBeforePolytBuggy exP [(1001, 1003), (1005, 1100)] 1050 (-1) []) = some ([], 50, -1) ∧
    shiftOut 0 (detectBeforePolyt exP [(1, 3), (5, 100)] 50 (-1) []) = some ([], 50, -1) ∧
    shiftOut 1000 (detectBeforePolyt exP [(1001, 1003), (1005, 1100)] 1050 (-1) []) = some ([], 50, -1) := by
  decide

/-- the fix changes nothing when both positions are present -/
theorem detectBeyondPolya_eq_buggy_of_present (p : Params) (iso : List Iv) (ext int : Int) (evs : List Event)
    (he : ext ≠ -1) (hi : int ≠ -1) : detectBeyondPolya p iso ext int evs = detectBeyondPolyaBuggy p iso ext int evs := by
  simp [detectBeyondPolya, detectBeyondPolyaBuggy, distOrInf, minInf, missedTerminalOk, he, hi]

theorem detectBeforePolyt_eq_buggy_of_present (p : Params) (iso : List Iv) (ext int : Int) (evs : List Event)
    (he : ext ≠ -1) (hi : int ≠ -1) : detectBeforePolyt p iso ext int evs = detectBeforePolytBuggy p iso ext int evs := by
  simp [detectBeforePolyt, detectBeforePolytBuggy, distOrInf, minInf, missedTerminalOk, he, hi]

/-- the distance that decides (absent = infinitely far) is invariant under a shift that moves no real position onto −1 —
    with one position absent as well (the sentinel case) -/
theorem sentinel_distance_shift_invariant (k b ext int : Int) (hE : SafePos k ext) (hI : SafePos k int) :
    minInf (distOrInf (b + k) (shiftPos k ext)) (distOrInf (b + k) (shiftPos k int))
      = minInf (distOrInf b ext) (distOrInf b int) := by
  rw [distOrInf_shift k b ext hE, distOrInf_shift k b int hI]

/-- **the repaired `detect_reference_exons_beyond_polya` is translation equivariant, sentinel case included**: no
    `FarOriginA` hypothesis (the C11 lemma `detectBeyondPolya_shift` needed `(ext ≠ −1 ∧ int ≠ −1) ∨ FarOriginA`) -/
theorem detectBeyondPolya_shift_sentinel (k : Int) (p : Params) (iso : List Iv) (ext int : Int) (evs : List Event)
    (hE : SafePos k ext) (hI : SafePos k int) (hP : ext ≠ -1 ∨ int ≠ -1)
    (hEnd : ∀ e, iso.getLast? = some e → e.2 ≠ -1) :
    detectBeyondPolya p (shiftL k iso) (shiftPos k ext) (shiftPos k int) (shiftEvents k evs)
      = (detectBeyondPolya p iso ext int evs).map (outShift k) := by
  have hpos : (if shiftPos k int ≠ -1 then shiftPos k int else shiftPos k ext)
      = (if int ≠ -1 then int else ext) + k := by
    by_cases c : int = -1
    · have hx : ext ≠ -1 := by
        rcases hP with h | h
        · exact h
        · exact absurd c h
      simp [c, shiftPos_neg_one, shiftPos_of_ne k ext hx]
    · have := hI c
      simp [c, shiftPos_of_ne k int c, this]
  simp only [detectBeyondPolya, hpos, ← shiftL_reverse, countBeyond_shift, shiftL_length, pyGet?_shiftL, shiftL_getLast?,
    ← shiftL_drop, intervalsTotalLength_shift]
  generalize countBeyond ((if int ≠ -1 then int else ext)) iso.reverse = c
  split
  · rfl
  · cases hb : pyGet? iso (-(c : Int) - 1) with
    | none => rfl
    | some b =>
      cases hl : iso.getLast? with
      | none => rfl
      | some lastE =>
        simp only [Option.map_some, shiftIv_snd, distOrInf_shift k _ _ hE, distOrInf_shift k _ _ hI]
        split
        · simp only [Option.map_some, outShift, shiftEvents_append,
            shiftEvents_misalign k .terminal_exon_misalignment_right rfl, shiftPos_of_ne k lastE.2 (hEnd lastE hl)]
        · rfl

theorem detectBeforePolyt_shift_sentinel (k : Int) (p : Params) (iso : List Iv) (ext int : Int) (evs : List Event)
    (hE : SafePos k ext) (hI : SafePos k int) (hP : ext ≠ -1 ∨ int ≠ -1)
    (hEnd : ∀ e, iso.head? = some e → e.1 ≠ -1) :
    detectBeforePolyt p (shiftL k iso) (shiftPos k ext) (shiftPos k int) (shiftEvents k evs)
      = (detectBeforePolyt p iso ext int evs).map (outShift k) := by
  have hpos : (if shiftPos k int ≠ -1 then shiftPos k int else shiftPos k ext)
      = (if int ≠ -1 then int else ext) + k := by
    by_cases c : int = -1
    · have hx : ext ≠ -1 := by
        rcases hP with h | h
        · exact h
        · exact absurd c h
      simp [c, shiftPos_neg_one, shiftPos_of_ne k ext hx]
    · have := hI c
      simp [c, shiftPos_of_ne k int c, this]
  simp only [detectBeforePolyt, hpos, countBefore_shift, shiftL_length, shiftL_getElem?, shiftL_head?,
    ← shiftL_take, intervalsTotalLength_shift]
  generalize countBefore ((if int ≠ -1 then int else ext)) iso = c
  split
  · rfl
  · cases hb : iso[c]? with
    | none => rfl
    | some b =>
      cases hl : iso.head? with
      | none => rfl
      | some firstE =>
        simp only [Option.map_some, shiftIv_fst, distOrInf_shift k _ _ hE, distOrInf_shift k _ _ hI]
        split
        · simp only [Option.map_some, outShift, shiftEvents_append,
            shiftEvents_misalign k .terminal_exon_misalignment_left rfl, shiftPos_of_ne k firstE.1 (hEnd firstE hl)]
        · rfl

/-- the hypotheses of the two theorems are met in the sentinel case of the witness (k = 1000) -/
example : SafePos 1000 80 ∧ SafePos 1000 (-1) ∧ ((80 : Int) ≠ -1 ∨ (-1 : Int) ≠ -1) := by
  refine ⟨?_, ?_, Or.inl (by decide)⟩ <;> (unfold SafePos; intro h; omega)

end IsoVerif.Props.C01Polya
