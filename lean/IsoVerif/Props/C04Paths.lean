/-
C04 (part 4) — the edge relation of the intron graph and the paths enumerated from it.

* Every intron-to-intron edge, after ANY history of graph operations, is the image of two consecutive introns of a
  non-multimapper read under the merges performed so far (`edges_witnessed`); hence any labelling that merges
  respect and read adjacencies increase is strictly increasing along every edge and every threaded path.
* The raw order invariants are FALSE of model and code (`edge_order_witness`, `edge_selfloop_witness`): cluster
  substitution alone makes consecutive vertices overlap or coincide.
* What the code does guarantee: full-length paths start at a polyT / read-start vertex attached to their first intron
  and end at a polyA / read-end vertex attached to their last one (`fl_paths_attached`), and every path that survives
  the length guard of `construct_fl_isoforms` is strictly increasing with a non-empty exon between consecutive
  introns and at both ends (`paths_monotone`).
Property theorems only; helper lemmas: IsoVerif/Lemmas/IntronEdges.lean.
-/
import IsoVerif.Model.IntronGraph
import IsoVerif.Model.ModelConstruction
import IsoVerif.Lemmas.IntronGraph
import IsoVerif.Lemmas.IntronEdges
import IsoVerif.Lemmas.ModelConstruction
import IsoVerif.Props.C04Graph
import IsoVerif.Props.C04

namespace IsoVerif.Props.C04Paths
open IsoVerif.Gen IsoVerif.Model IsoVerif.Model.C04 IsoVerif.Lemmas.C04 IsoVerif.Props.C04Graph IsoVerif.Props.C04

/-! ### edges are images of read adjacencies -/

/-- **edges_witnessed.** Let `M` be any "may be merged into" relation that contains what `cluster_introns` does
    (both splice sites within `delta`).  After `intron_collector.process`, `construct()` and ANY history of graph
    operations in which `add_edge` is called on consecutive introns of a non-multimapper read and `collapse_vertex(c, s)`
    only for `M c s` (deletions, discards, defaultdict reads, `simplify_correction_map`, terminal attachments are
    unrestricted), every intron-to-intron edge `(u, v)` of `outgoing_edges` and of `incoming_edges` comes from a read
    adjacency `(a, b)` with `a` merged into `u` and `b` merged into `v` (`Rep M` = chains of `M` steps), and every entry of
    the correction map is such a chain. -/
theorem edges_witnessed (known : List Iv) (δ minCount : Int) (reads : List Read) (ops : List Op) (g0 g : Graph)
    (M : Iv → Iv → Prop) (hpos : ∀ v, Observed reads v → 0 ≤ v.1)
    (hδ : ∀ k s, Near δ k s → M k s) (hops : ∀ op ∈ ops, OpOk reads M op)
    (h0 : Graph.constructed known δ reads minCount = some g0)
    (h : runOps (obsIntrons reads) g0 ops = some g) :
    (∀ u v, (u, v) ∈ g.out → isIntronVertex v = true → Wit reads M u v) ∧
    (∀ w v, (w, v) ∈ g.inc → isIntronVertex v = true → Wit reads M v w) ∧
    (∀ k s, amGet? g.col.corr k = some s → Rep M k s) := by
  have hpos' : ∀ v ∈ obsIntrons reads, 0 ≤ v.1 := fun v hv => hpos v (mem_obsIntrons.1 hv)
  have h1 := runOps_edgeInv hpos' _ (init_edgeInv known δ minCount reads M hδ) (constructOps_ok M _ reads) h0
  have h2 := runOps_edgeInv hpos' _ h1 hops h
  exact ⟨fun u v huv hv => h2.out (u, v) huv hv, fun w v hwv hv => h2.inc (w, v) hwv hv,
    fun k s hks => h2.corr (k, s) (amGet?_mem hks)⟩

/-- **edges_label_monotone.** For any labelling `w` of introns (e.g. the index of the splice window an intron lies in)
    that the merges respect — introns within `delta` of each other and collapsed pairs carry the same label — and that
    strictly increases from an intron of a read to the next one, `w` strictly increases along every intron-to-intron
    edge, whatever the history: the graph is acyclic and ordered exactly as far as the merge heuristics are local. -/
theorem edges_label_monotone (known : List Iv) (δ minCount : Int) (reads : List Read) (ops : List Op) (g0 g : Graph)
    (w : Iv → Int) (hpos : ∀ v, Observed reads v → 0 ≤ v.1)
    (hδ : ∀ k s, Near δ k s → w k = w s) (hops : ∀ op ∈ ops, OpOk reads (fun c s => w c = w s) op)
    (hadj : ∀ a b, Adj reads a b → w a < w b)
    (h0 : Graph.constructed known δ reads minCount = some g0)
    (h : runOps (obsIntrons reads) g0 ops = some g) :
    (∀ u v, (u, v) ∈ g.out → isIntronVertex v = true → w u < w v) ∧
    (∀ x v, (x, v) ∈ g.inc → isIntronVertex v = true → w v < w x) := by
  obtain ⟨ho, hi, _⟩ := edges_witnessed known δ minCount reads ops g0 g (fun c s => w c = w s) hpos hδ hops h0 h
  constructor
  · intro u v huv hv
    obtain ⟨a, b, hab, ha, hb⟩ := ho u v huv hv
    rw [← Rep.label w (fun _ _ hm => hm) ha, ← Rep.label w (fun _ _ hm => hm) hb]
    exact hadj a b hab
  · intro x v hxv hv
    obtain ⟨a, b, hab, ha, hb⟩ := hi x v hxv hv
    rw [← Rep.label w (fun _ _ hm => hm) ha, ← Rep.label w (fun _ _ hm => hm) hb]
    exact hadj a b hab

/-- **thread_path_label_monotone.** Under the same hypotheses the path `thread_introns` builds for any intron list
    (a read's, or a reference isoform's) is strictly increasing in `w` wherever the list itself is: consecutive path
    vertices carry the labels of the consecutive introns they stand for.  In particular no vertex repeats. -/
theorem thread_path_label_monotone (known : List Iv) (δ minCount : Int) (reads : List Read) (ops : List Op) (g0 g : Graph)
    (w : Iv → Int) (hpos : ∀ v, Observed reads v → 0 ≤ v.1)
    (hδ : ∀ k s, Near δ k s → w k = w s) (hops : ∀ op ∈ ops, OpOk reads (fun c s => w c = w s) op)
    (h0 : Graph.constructed known δ reads minCount = some g0)
    (h : runOps (obsIntrons reads) g0 ops = some g)
    (introns path : List Iv) (hl : ∀ a b, AdjIn introns a b → w a < w b)
    (ht : threadIntrons g.col introns = some path) :
    ∀ u v, AdjIn path u v → w u < w v := by
  obtain ⟨_, _, hc⟩ := edges_witnessed known δ minCount reads ops g0 g (fun c s => w c = w s) hpos hδ hops h0 h
  have hc' : ∀ p ∈ g.col.corr, Rep (fun c s => w c = w s) p.1 p.2 := by
    intro p hp
    -- an entry of the association list that `amGet?` does not return is shadowed; use the invariant on entries
    have hpos' : ∀ v ∈ obsIntrons reads, 0 ≤ v.1 := fun v hv => hpos v (mem_obsIntrons.1 hv)
    have h1 := runOps_edgeInv hpos' _ (init_edgeInv known δ minCount reads _ hδ) (constructOps_ok _ _ reads) h0
    exact (runOps_edgeInv hpos' _ h1 hops h).corr p hp
  intro u v huv
  obtain ⟨a, b, hab, ha, hb⟩ := threadIntrons_adj hc' introns ht huv
  rw [← Rep.label w (fun _ _ hm => hm) ha, ← Rep.label w (fun _ _ hm => hm) hb]
  exact hl a b hab

/-- **edges_monotone_without_merging.** With `delta = 0` and no effective collapse (`collapse_vertex(c, c)` at most)
    every intron-to-intron edge IS a read adjacency, so it has the exon the read has between the two introns: the raw
    order invariant `u.end + 1 < v.start` fails only through cluster substitution and `collapse_vertex`. -/
theorem edges_monotone_without_merging (known : List Iv) (minCount : Int) (reads : List Read) (ops : List Op) (g0 g : Graph)
    (hpos : ∀ v, Observed reads v → 0 ≤ v.1)
    (hops : ∀ op ∈ ops, OpOk reads (fun c s => c = s) op)
    (hgap : ∀ a b, Adj reads a b → a.2 + 1 < b.1)
    (h0 : Graph.constructed known 0 reads minCount = some g0)
    (h : runOps (obsIntrons reads) g0 ops = some g) :
    ∀ u v, (u, v) ∈ g.out → isIntronVertex v = true → Adj reads u v ∧ u.2 + 1 < v.1 := by
  obtain ⟨ho, _, _⟩ := edges_witnessed known 0 minCount reads ops g0 g (fun c s => c = s) hpos
    (fun _ _ hn => Near.eq_of_zero hn) hops h0 h
  intro u v huv hv
  obtain ⟨a, b, hab, ha, hb⟩ := ho u v huv hv
  rw [← Rep.eq_of_eq ha, ← Rep.eq_of_eq hb]
  exact ⟨hab, hgap a b hab⟩

/-! non-vacuity: the read set of `C04Graph`, a history with a collapse inside a window of width 25 -/

def exLabel (i : Iv) : Int := i.1 / 25

example : (∀ op ∈ [Op.collapse (30, 42) (30, 40), .delVertex (30, 42), .simplifyMap, .attachOut (30, 40) (VERTEX_polya, 50)],
      OpOk exReads (fun c s => exLabel c = exLabel s) op) ∧
    (∀ k s, Near 0 k s → exLabel k = exLabel s) := by
  constructor
  · intro op hop
    simp only [List.mem_cons, List.not_mem_nil, or_false] at hop
    rcases hop with rfl | rfl | rfl | rfl <;> simp [OpOk, exLabel]
  · intro k s hn; rw [Near.eq_of_zero hn]

/-- the adjacencies of `exReads` increase the label, and the final graph has the (merged) edge -/
example : (∀ r ∈ exReads, r.multimapper = false → ∀ a b, AdjIn r.introns a b → exLabel a < exLabel b) ∧
    ((Graph.constructed [] 0 exReads 1).bind (fun g0 =>
      runOps (obsIntrons exReads) g0 [.collapse (30, 42) (30, 40), .delVertex (30, 42), .simplifyMap,
        .attachOut (30, 40) (VERTEX_polya, 50)])).map (fun g => g.out)
      = some [((10, 20), (30, 40)), ((30, 40), (VERTEX_polya, 50))] := by
  constructor
  · intro r hr hm a b hab
    obtain ⟨pre, post, hl⟩ := hab
    simp only [exReads, List.mem_cons, List.not_mem_nil, or_false] at hr
    rcases hr with rfl | rfl | rfl | rfl
    all_goals first
      | (simp at hm; done)
      | (rcases pre with _ | ⟨p, _ | ⟨q, pre⟩⟩ <;> simp at hl <;> (try obtain ⟨rfl, rfl, _⟩ := hl) <;> decide)
  · decide +kernel

/-! ### the raw order invariants are false -/

/-- three reads support the intron (10,23); one read has (10,20) followed, after the 1-bp exon (21,21), by (22,40) -/
def overlapReads : List Read :=
  [⟨"a", [(10, 20), (22, 40)], [(5, 9), (21, 21), (41, 50)], false, "+", true, false, "g"⟩,
   ⟨"b", [(10, 23)], [(5, 9), (24, 50)], false, "+", true, false, "g"⟩,
   ⟨"c", [(10, 23)], [(5, 9), (24, 50)], false, "+", true, false, "g"⟩,
   ⟨"d", [(10, 23)], [(5, 9), (24, 50)], false, "+", true, false, "g"⟩]

/-- **edge_order_witness.** FALSE in model and code: "every edge `(u, v)` between intron vertices has
    `u.end < v.start`".  With `delta = 4`, `cluster_introns` substitutes (10,20) by the better supported (10,23) and
    `construct()` adds the edge (10,23) → (22,40) between overlapping introns; the read's path is
    `[(10,23), (22,40)]`.  Replayed on the real `IntronGraph` by the correspondence on every run. -/
theorem edge_order_witness :
    (Graph.constructed [] 4 overlapReads 1).map (fun g => (g.out, threadIntrons g.col [(10, 20), (22, 40)]))
      = some ([((10, 23), (22, 40))], some [(10, 23), (22, 40)]) := by decide +kernel

/-- both introns of read "a" are within `delta = 4` of the better supported (12,14) -/
def selfloopReads : List Read :=
  [⟨"a", [(10, 12), (14, 16)], [(5, 9), (13, 13), (17, 30)], false, "+", true, false, "g"⟩,
   ⟨"b", [(12, 14)], [(5, 11), (15, 30)], false, "+", true, false, "g"⟩,
   ⟨"c", [(12, 14)], [(5, 11), (15, 30)], false, "+", true, false, "g"⟩,
   ⟨"d", [(12, 14)], [(5, 11), (15, 30)], false, "+", true, false, "g"⟩]

/-- **edge_selfloop_witness.** FALSE in model and code: "intron starts strictly increase along every edge".  Two
    consecutive introns of one read are both substituted by (12,14): the graph gets the self-loop (12,14) → (12,14) and
    the read's path repeats the vertex.  (Such a path never becomes a transcript: `paths_monotone`.) -/
theorem edge_selfloop_witness :
    (Graph.constructed [] 4 selfloopReads 1).map (fun g => (g.out, threadIntrons g.col [(10, 12), (14, 16)]))
      = some ([((12, 14), (12, 14))], some [(12, 14), (12, 14)]) := by decide +kernel

/-! ### full-length paths -/

/-- **fl_paths_attached.** Every full-length path that `IntronPathStorage.fill` registers with the code's own
    `thread_ends` / `thread_starts` is `[s] + thread_introns(read) + [e]` for a non-multimapper read, where `s` is a polyT or
    read-start vertex in `incoming_edges` of the path's first intron, `e` a polyA or read-end vertex in `outgoing_edges` of its
    last intron, and — when polyA evidence is required for construction — `e` is a polyA vertex or `s` a polyT vertex. -/
theorem fl_paths_attached (g : Graph) (delta apa : Int) (req : Bool) (reads : List Read) :
    ∀ path ∈ (fillGraphPaths g delta apa req reads).fl, ∃ r ∈ reads, r.multimapper = false ∧
      ∃ ip s e first last, threadIntrons g.col r.introns = some ip ∧ ip.head? = some first ∧ ip.getLast? = some last ∧
        path = s :: ip ++ [e] ∧
        (first, s) ∈ g.inc ∧ s.1 ∈ starting_vertex_codes ∧ (last, e) ∈ g.out ∧ e.1 ∈ terminal_vertex_codes ∧
        (req = true → e.1 = VERTEX_polya ∨ s.1 = VERTEX_polyt) := by
  intro path hp
  obtain ⟨a, ha, hrp⟩ := (fillPaths_spec g (graphThreadParams g delta apa req) reads).1 path hp
  obtain ⟨hmm, ip, s, e, first, last, ht, hf, hl, hpath, hs1, hs2, he1, he2, hreq⟩ := readPath_graph_spec hrp
  refine ⟨a, ha, hmm, ip, s, e, first, last, ht, hf, hl, hpath, hs1, ?_, he1, ?_, hreq⟩
  · simp only [starting_vertex_codes, List.mem_cons, List.not_mem_nil, or_false]; exact hs2
  · simp only [terminal_vertex_codes, List.mem_cons, List.not_mem_nil, or_false]; exact he2

/-- **paths_monotone (one step).** Whatever path the loop body of `construct_fl_isoforms` is given: if it emits a novel
    model, the model's intron chain — the inner vertices of the path — is strictly increasing inside the range spanned by
    the terminal positions, with a non-empty exon before, between and after the introns.  The length guard
    `len(novel_exons) == len(intron_path) + 1` is what enforces it (`hwf`: path vertices are non-empty intervals, which holds
    for every vertex of the graph since vertices are read introns: `vertices_observed`). -/
theorem paths_monotone_step (env : FLEnv) (sd : Iv → Strand) (next : Nat → Nat) (st st' : FLState) (pi : PathIn) (m : TModel)
    (hstep : flStep env sd next st pi = some (st', .novelAdded m))
    (hwf : ∀ i ∈ pi.path.tail.dropLast, i.1 ≤ i.2) :
    ∃ first last, pi.path.head? = some first ∧ pi.path.getLast? = some last ∧
      m.intronPath = pi.path.tail.dropLast ∧ m.exons = getExons (first.2, last.2) m.intronPath ∧
      m.exons.length = m.intronPath.length + 1 ∧ ChainMonotone first.2 m.intronPath last.2 := by
  have hf := flStep_novel_inv hstep
  obtain ⟨first, last, h1, h2, hex, hlen, _, idv', hb⟩ := hf.ends
  have hip := (buildNovel_inv hb).1
  refine ⟨first, last, h1, h2, hip, by rw [hip]; exact hex, by rw [hip, hex]; exact hlen rfl, ?_⟩
  rw [hip]
  exact (chainMonotone_of_pathGapped _ _ _ (pathGapped_of_getExons_length _ _ _ hwf (hlen rfl))).1

/-- **paths_monotone.** From the reads to the models, with the code's own path enumeration: build the graph (collector,
    `construct()`, ANY history of graph operations), enumerate the full-length paths with `thread_ends` / `thread_starts`,
    run `construct_fl_isoforms` with any assigner verdicts, canonical-site table and id source.  Every novel model emitted
    has a strictly increasing intron chain of observed introns, strictly between the position of a polyT / read-start vertex
    attached to its first intron and the position of a polyA / read-end vertex attached to its last one, with a non-empty
    exon everywhere in between — although the graph's edges themselves are not ordered (`edge_order_witness`). -/
theorem paths_monotone (known : List Iv) (δ minCount : Int) (reads : List Read) (ops : List Op)
    (g0 g : Graph) (hwf : ∀ r ∈ reads, ∀ i ∈ r.introns, i.1 ≤ i.2)
    (h0 : Graph.constructed known δ reads minCount = some g0)
    (h : runOps (obsIntrons reads) g0 ops = some g)
    (delta apa : Int) (req : Bool) (verdict : List Iv → Bool × String)
    (env : FLEnv) (sd : Iv → Strand) (next : Nat → Nat) (st st' : FLState) (ds : List Decision)
    (hrun : constructFL env sd next st (pathInsOf (fillGraphPaths g delta apa req reads) verdict) = some (st', ds)) :
    ∀ d ∈ ds, ∀ m, d = .novelAdded m →
      ∃ s e : Iv, s.1 ∈ starting_vertex_codes ∧ e.1 ∈ terminal_vertex_codes ∧
        (∃ first, m.intronPath.head? = some first ∧ (first, s) ∈ g.inc) ∧
        (∃ last, m.intronPath.getLast? = some last ∧ (last, e) ∈ g.out) ∧
        m.exons = getExons (s.2, e.2) m.intronPath ∧ m.exons.length = m.intronPath.length + 1 ∧
        ChainMonotone s.2 m.intronPath e.2 ∧ (∀ i ∈ m.intronPath, Observed reads i) := by
  intro d hd m hm
  subst hm
  unfold constructFL at hrun
  rcases flLoop_origin env sd next _ st [] st' ds hrun _ hd with h' | ⟨pi, hpi, s1, s2, hstep⟩
  · simp at h'
  · rw [mem_insSort] at hpi
    simp only [pathInsOf, List.mem_map] at hpi
    obtain ⟨path, hpath, rfl⟩ := hpi
    obtain ⟨r, hr, hmm, ip, s, e, first, last, ht, hfirst, hlast, hshape, hsin, hs, hein, he, _⟩ :=
      fl_paths_attached g delta apa req reads path hpath
    have hinner : path.tail.dropLast = ip := by rw [hshape]; simp
    have hobs := thread_path_observed known δ minCount reads ops g0 g h0 h r hr hmm ip ht
    have hwf' : ∀ i ∈ path.tail.dropLast, i.1 ≤ i.2 := by
      intro i hi
      rw [hinner] at hi
      obtain ⟨r', hr', _, hi'⟩ := hobs i hi
      exact hwf r' hr' i hi'
    obtain ⟨f', l', hf', hl', hip, hex, hcnt, hmono⟩ := paths_monotone_step env sd next s1 s2 _ m hstep hwf'
    simp only at hf' hl' hip
    have e1 : f' = s := by rw [hshape] at hf'; simpa using hf'.symm
    have e2 : l' = e := by
      rw [hshape] at hl'
      have : (s :: ip ++ [e]).getLast? = some e := by
        rw [show s :: ip ++ [e] = (s :: ip) ++ [e] by simp]; exact List.getLast?_concat
      rw [this] at hl'; simpa using hl'.symm
    subst e1 e2
    refine ⟨f', l', hs, he, ⟨first, by rw [hip, hinner]; exact hfirst, hsin⟩,
      ⟨last, by rw [hip, hinner]; exact hlast, hein⟩, hex, hcnt, hmono, ?_⟩
    intro i hi
    rw [hip, hinner] at hi
    exact hobs i hi

/-- non-vacuity of `paths_monotone`: the end-to-end example of `Props/C04.lean`, now with the modelled `thread_ends` /
    `thread_starts` (polyA vertex within `apa_delta` of the trusted read ends; an untrusted read-start vertex) -/
example : ((Graph.constructed [] 0 e2eReads 1).bind (fun g0 =>
      (runOps (obsIntrons e2eReads) g0 [.attachOut (100, 200) (VERTEX_polya, 400),
          .attachInc (50, 90) (VERTEX_read_start, 10)]).bind (fun g =>
        (constructFL (exEnv .only_stranded) exSd (· + 1) ⟨[], 0, Store.empty⟩
          (pathInsOf (fillGraphPaths g 0 10 true e2eReads) (fun _ => (false, "")))).map (fun r =>
            r.2.map (fun d => match d with | .novelAdded m => (m.intronPath, m.exons) | _ => ([], []))))))
    = some [([(50, 90), (100, 200)], [(10, 49), (91, 99), (201, 400)])] := by decide +kernel

/-- ... and the overlapping path of `edge_order_witness` is enumerated as a full-length path but yields no model -/
example : ((Graph.constructed [] 4 overlapReads 1).bind (fun g0 =>
      (runOps (obsIntrons overlapReads) g0 [.attachOut (22, 40) (VERTEX_polya, 50),
          .attachInc (10, 23) (VERTEX_read_start, 5)]).bind (fun g =>
        (constructFL (exEnv .only_stranded) exSd (· + 1) ⟨[], 0, Store.empty⟩
          (pathInsOf (fillGraphPaths g 4 10 false overlapReads) (fun _ => (false, "")))).map (fun r =>
            ((fillGraphPaths g 4 10 false overlapReads).fl, r.2)))))
    = some ([[(VERTEX_read_start, 5), (10, 23), (22, 40), (VERTEX_polya, 50)]], [.skipped]) := by decide +kernel

end IsoVerif.Props.C04Paths
