/-
C19 — interval and profile primitives return exactly the set-theoretic result.
Property theorems only (helper lemmas live in IsoVerif/Lemmas).  The straight-line primitives are the
*generated* definitions (IsoVerif/Gen/Prims.lean, re-translated from /repo/src/common.py on every run).
-/
import IsoVerif.Gen.Prims
import IsoVerif.Model.Interval
import IsoVerif.Lemmas.Interval

namespace IsoVerif.Props.C19
open IsoVerif.Gen IsoVerif.Model IsoVerif.Lemmas

/-- position `p` lies in the closed interval `r` -/
def In (p : Int) (r : Iv) : Prop := r.1 ≤ p ∧ p ≤ r.2
def WF (r : Iv) : Prop := r.1 ≤ r.2

/-! ### straight-line primitives = their position-set definitions (∀ well-formed intervals) -/

theorem overlaps_iff (a b : Iv) (ha : WF a) (hb : WF b) :
    overlaps a b = true ↔ ∃ p, In p a ∧ In p b := by
  unfold WF at *; unfold In
  constructor
  · intro h
    simp [overlaps] at h
    refine ⟨max a.1 b.1, ?_⟩; omega
  · rintro ⟨p, h1, h2⟩
    simp [overlaps]; omega

theorem contains_iff (a b : Iv) (hb : WF b) :
    contains a b = true ↔ ∀ p, In p b → In p a := by
  unfold WF at *; unfold In
  constructor
  · intro h p hp; simp [contains] at h; omega
  · intro h
    have h1 := h b.1 (by omega)
    have h2 := h b.2 (by omega)
    simp [contains]; omega

theorem left_of_iff (a b : Iv) (ha : WF a) (hb : WF b) :
    left_of a b = true ↔ ∀ p q, In p a → In q b → p < q := by
  unfold WF at *; unfold In
  constructor
  · intro h p q hp hq; simp [left_of] at h; omega
  · intro h
    have := h a.2 b.1 (by omega) (by omega)
    simp [left_of]; omega

/-- `intersection_len` is the number of common positions: it equals `hi − lo + 1` of the common
    interval when there is one and 0 otherwise -/
theorem intersection_len_eq (a b : Iv) :
    intersection_len a b = if max a.1 b.1 ≤ min a.2 b.2 then min a.2 b.2 - max a.1 b.1 + 1 else 0 := by
  simp only [intersection_len]; split <;> omega

theorem intersection_len_pos_iff (a b : Iv) (ha : WF a) (hb : WF b) :
    0 < intersection_len a b ↔ overlaps a b = true := by
  unfold WF at *
  simp [intersection_len, overlaps]; omega

theorem overlap_intervals_spec (a b : Iv) (p : Int) :
    In p (overlap_intervals a b) ↔ In p a ∧ In p b := by
  unfold In; simp only [overlap_intervals]; omega

theorem max_range_spec (a b : Iv) (p : Int) :
    (In p a ∨ In p b) → In p (max_range a b) := by
  unfold In; simp only [max_range]; omega

theorem interval_len_eq (r : Iv) : interval_len r = r.2 - r.1 + 1 := by
  simp [interval_len]

theorem equal_ranges_iff (a b : Iv) (d : Int) :
    equal_ranges a b d = true ↔ (-d ≤ a.1 - b.1 ∧ a.1 - b.1 ≤ d) ∧ (-d ≤ a.2 - b.2 ∧ a.2 - b.2 ≤ d) := by
  simp only [equal_ranges, Bool.and_eq_true, decide_eq_true_eq, iabs_le]

theorem equal_ranges_symm (a b : Iv) (d : Int) : equal_ranges a b d = equal_ranges b a d := by
  rw [Bool.eq_iff_iff, equal_ranges_iff, equal_ranges_iff]; omega

theorem contains_approx_iff (a b : Iv) (d : Int) :
    contains_approx a b d = true ↔ contains (a.1 - d, a.2 + d) b = true := by
  simp [contains_approx, contains] <;> omega

theorem contains_well_inside_iff (a b : Iv) (d : Int) :
    contains_well_inside a b d = true ↔ contains a (b.1 - d, b.2 + d) = true := by
  simp [contains_well_inside, contains] <;> omega

theorem covers_end_iff (a b : Iv) :
    covers_end a b = true ↔ (a.1 ≤ b.1 ∧ In a.2 b) := by
  unfold In; simp [covers_end] <;> omega

theorem covers_start_iff (a b : Iv) :
    covers_start a b = true ↔ (In a.1 b ∧ b.2 ≤ a.2) := by
  unfold In; simp [covers_start] <;> omega

/-- `overlaps_at_least a b d` (the intron absence test): the intervals intersect and either share at least
    `d` positions, or one of them contains the other.
    (Exact characterisation of the code since the fix "containment first" of audit2-C G7; before it `a` inside `b`
    counted only when it ended strictly before `b`'s end -- the tie `a.2 = b.2` fell into the partial-overlap test,
    see `overlaps_at_least_tie_regression` and Props/C11.lean `overlapsAtLeastBuggy_mirror_witness`.) -/
theorem overlaps_at_least_spec (a b : Iv) (d : Int) (ha : WF a) (hb : WF b) :
    overlaps_at_least a b d = true ↔
      (overlaps a b = true ∧ (intersection_len a b ≥ d ∨ contains b a = true ∨ contains a b = true)) := by
  unfold WF at *
  simp only [overlaps_at_least, overlaps, intersection_len, contains]
  have := ha; have := hb
  grind

/-- regression of the fixed tie: `a` inside `b` counts whichever end they share (pre-fix: sharing the *left* end
    counted, sharing the *right* end did not when `a` is shorter than the threshold; relevant to C11) -/
theorem overlaps_at_least_tie_regression :
    overlaps_at_least (1, 5) (1, 9) 10 = true ∧ overlaps_at_least (5, 9) (1, 9) 10 = true ∧
    overlaps_at_least (2, 4) (1, 9) 10 = true ∧ overlaps_at_least (5, 12) (1, 9) 10 = false := by
  decide

theorem overlaps_at_least_when_overlap_spec (a b : Iv) (d : Int) (ha : WF a) (hb : WF b)
    (hov : overlaps a b = true) :
    overlaps_at_least_when_overlap a b d = true ↔
      (intersection_len a b ≥ d ∨ contains b a = true ∨ contains a b = true) := by
  unfold WF at *
  simp only [overlaps_at_least_when_overlap, intersection_len, contains]
  simp [overlaps] at hov
  have := ha; have := hb
  grind

theorem cmp_spec (x y : Int) : (cmp x y = -1 ↔ x < y) ∧ (cmp x y = 0 ↔ x = y) ∧ (cmp x y = 1 ↔ x > y) := by
  simp only [cmp]; split
  · simp_all; omega
  · split <;> simp_all <;> omega

-- non-vacuity: the hypotheses are met by concrete intervals and the primitives compute
example : WF (3, 7) ∧ WF (7, 9) ∧ overlaps (3, 7) (7, 9) = true ∧ intersection_len (3, 7) (7, 9) = 1 := by
  unfold WF; decide

end IsoVerif.Props.C19
