/-
C09 — the `--read_group` option string (audit-2 B, GAP C09-1, C09-2, C09-4, C09-5), REPAIRED code (candidate patches
`fix_file_option_fields`, `fix_group_table_missing_contig`, `fix_read_id_colon_delimiter`); `--counts_format`: Props/C09Format.lean; the pinned tree is kept as `…Orig` with `…_witness` / `…_partial` theorems.

docs/cmd.md: "`file:FILE:READ_COL:GROUP_COL:DELIM`, where FILE is the file name, READ_COL is column with read ids (0 if not
set), GROUP_COL is column with group ids (1 if not set), DELIM is separator symbol (tab if not set)";
"`read_id:DELIM` where DELIM is the symbol/string by which the read id will be split";
"`--counts_format` Output format for grouped counts: matrix / linear / both".
-/
import IsoVerif.Model.C09Options
import IsoVerif.Lemmas.C09Options
import IsoVerif.Props.C09Files
import IsoVerif.Props.C09TablesChrom

namespace IsoVerif.Props.C09Options
open IsoVerif.Gen IsoVerif.Model.C09 IsoVerif.Lemmas.C09 IsoVerif.Lemmas.C09Split IsoVerif.Lemmas.C09Options
open IsoVerif.Props.C09Files IsoVerif.Props.C09TablesChrom

/-! ### `file:FILE:READ_COL:GROUP_COL:DELIM` — the documented meaning, field by field -/

/-- a column field: not set (empty) → its documented default; otherwise the number the text spells (`int`) -/
def colField (s : List Char) (dflt : Int) : Except OErr Int := if s = [] then .ok dflt else pyInt s

/-- the delimiter field: not set (empty) → tab; otherwise the text itself -/
def delimField (d : List Char) : List Char := if d = [] then ['\t'] else d

/-- the documented reading of the four fields: every component is a function of ITS OWN field only -/
def fileSpec (F a b d : List Char) : Except OErr (Option FileProps) :=
  match colField a 0 with
  | .error e => .error e
  | .ok rc =>
    match colField b 1 with
    | .error e => .error e
    | .ok gc => .ok (some ⟨F, rc, gc, delimField d⟩)

/-- the option string `file:<field>:<field>:…` -/
def fileOption (fields : List (List Char)) : List Char := joinWith [':'] (kwFile :: fields)

theorem kwFile_noColon : NoColon kwFile := by decide

theorem pieces4 (F a b d : List Char) (hF : NoColon F) (ha : NoColon a) (hb : NoColon b) :
    colonPieces (fileOption [F, a, b, d]) = kwFile :: F :: a :: b :: colonPieces d := by
  simp only [fileOption, joinWith]
  rw [colonPieces_cons' _ _ kwFile_noColon, colonPieces_cons' _ _ hF, colonPieces_cons' _ _ ha, colonPieces_cons' _ _ hb]

theorem fieldInt_some (s : List Char) (dflt : Int) : fieldInt (some s) dflt = colField s dflt := rfl

/-- **file_option_fields** (GAP C09-1): the option with all four fields.  `FILE`, `READ_COL`, `GROUP_COL` are any texts
    without a colon, `DELIM` is ANY text (it may be or contain a colon): the properties handed to
    `split_read_group_table` are the file, `int(READ_COL)` or 0 when the field is empty, `int(GROUP_COL)` or 1 when it is
    empty, `DELIM` or a tab when it is empty — each component read from its own field, whatever the others hold -/
theorem file_option_fields (F a b d : List Char) (hF : NoColon F) (ha : NoColon a) (hb : NoColon b) :
    prepareReadGroups false (some (fileOption [F, a, b, d])) = fileSpec F a b d := by
  simp only [prepareReadGroups, pieces4 F a b d hF ha hb, List.head?_cons, if_true, Bool.false_eq_true, if_false,
    fileGroupingProperties, fileSpec]
  simp only [List.getElem?_cons_zero, List.getElem?_cons_succ, fieldInt_some, List.drop_succ_cons, List.drop_zero,
    delimOf, join_colonPieces, delimField]
  cases colField a 0 <;> simp only []
  cases colField b 1 <;> simp only []

/-- **file_option_omitted_fields** (GAP C09-1): leaving trailing fields out is the same as leaving them empty — `file:F`
    = `file:F:::`, `file:F:a` = `file:F:a::`, `file:F:a:b` = `file:F:a:b:`.  With `file_option_fields`: every omitted field
    takes its documented default (0, 1, tab) independently of which other fields are given -/
theorem file_option_omitted_fields (F a b : List Char) (hF : NoColon F) (ha : NoColon a) (hb : NoColon b) :
    prepareReadGroups false (some (fileOption [F])) = fileSpec F [] [] [] ∧
    prepareReadGroups false (some (fileOption [F, a])) = fileSpec F a [] [] ∧
    prepareReadGroups false (some (fileOption [F, a, b])) = fileSpec F a b [] := by
  have p1 : colonPieces (fileOption [F]) = [kwFile, F] := by
    simp only [fileOption, joinWith]
    rw [colonPieces_cons' _ _ kwFile_noColon, colonPieces_noColon _ hF]
  have p2 : colonPieces (fileOption [F, a]) = [kwFile, F, a] := by
    simp only [fileOption, joinWith]
    rw [colonPieces_cons' _ _ kwFile_noColon, colonPieces_cons' _ _ hF, colonPieces_noColon _ ha]
  have p3 : colonPieces (fileOption [F, a, b]) = [kwFile, F, a, b] := by
    simp only [fileOption, joinWith]
    rw [colonPieces_cons' _ _ kwFile_noColon, colonPieces_cons' _ _ hF, colonPieces_cons' _ _ ha, colonPieces_noColon _ hb]
  refine ⟨?_, ?_, ?_⟩
  · simp [prepareReadGroups, p1, fileGroupingProperties, fileSpec, fieldInt, colField, delimOf, delimField, joinWith]
  · simp only [prepareReadGroups, p2, List.head?_cons, if_true, Bool.false_eq_true, if_false, fileGroupingProperties, fileSpec]
    simp only [List.getElem?_cons_zero, List.getElem?_cons_succ, List.getElem?_nil, fieldInt_some, List.drop_succ_cons,
      List.drop_nil, delimOf, joinWith, delimField]
    cases colField a 0 <;> simp [fieldInt, colField]
  · simp only [prepareReadGroups, p3, List.head?_cons, if_true, Bool.false_eq_true, if_false, fileGroupingProperties, fileSpec]
    simp only [List.getElem?_cons_zero, List.getElem?_cons_succ, fieldInt_some, List.drop_succ_cons, List.drop_zero,
      delimOf, joinWith, delimField]
    cases colField a 0 <;> simp only []
    cases colField b 1 <;> simp

/-- **file_fields_independent**: two option strings that agree on a field agree on the property read from it (whatever
    their other fields are) — no field is looked at through another one -/
theorem file_fields_independent (F F' a a' b b' d d' : List Char) (p p' : FileProps)
    (h : fileSpec F a b d = .ok (some p)) (h' : fileSpec F' a' b' d' = .ok (some p')) :
    (a = a' → p.readCol = p'.readCol) ∧ (b = b' → p.groupCol = p'.groupCol) ∧ (d = d' → p.delim = p'.delim) ∧
    (F = F' → p.file = p'.file) := by
  unfold fileSpec at h h'
  cases ha : colField a 0 with
  | error e => rw [ha] at h; cases h
  | ok rc =>
    cases hb : colField b 1 with
    | error e => rw [ha, hb] at h; cases h
    | ok gc =>
      cases ha' : colField a' 0 with
      | error e => rw [ha'] at h'; cases h'
      | ok rc' =>
        cases hb' : colField b' 1 with
        | error e => rw [ha', hb'] at h'; cases h'
        | ok gc' =>
          rw [ha, hb] at h; rw [ha', hb'] at h'
          simp only [Except.ok.injEq, Option.some.injEq] at h h'
          subst h; subst h'
          refine ⟨?_, ?_, ?_, ?_⟩
          · intro e; subst e; rw [ha] at ha'; cases ha'; rfl
          · intro e; subst e; rw [hb] at hb'; cases hb'; rfl
          · intro e; subst e; rfl
          · intro e; subst e; rfl

/-- what `int` reads from a column field: plain digits, outer blanks, a sign, single underscores; anything else is a
    `ValueError` (the run refuses the option) -/
theorem colField_examples :
    colField "2".toList 0 = .ok 2 ∧ colField [] 0 = .ok 0 ∧ colField [] 1 = .ok 1 ∧ colField " 12 ".toList 0 = .ok 12 ∧
    colField "+3".toList 0 = .ok 3 ∧ colField "1_0".toList 0 = .ok 10 ∧ colField "007".toList 0 = .ok 7 ∧
    colField "-1".toList 0 = .ok (-1) ∧ colField "x".toList 0 = .error .valueError ∧
    colField "1__0".toList 0 = .error .valueError ∧ colField "_1".toList 0 = .error .valueError ∧
    colField "1_".toList 0 = .error .valueError ∧ colField "1 2".toList 0 = .error .valueError ∧
    colField " ".toList 0 = .error .valueError ∧ colField "-".toList 0 = .error .valueError := by
  decide +kernel

/-- **file_option_orig_witness** (GAP C09-1, pinned tree): `file:T:2` — READ_COL 2, the other two fields not set — was read
    as (T, 0, 1, tab): READ_COL silently ignored (every read then misses the table and is counted under NA, exit 0); an
    empty READ_COL (`file:T::2`) was a `ValueError`; the delimiter `:` (`file:T:0:1::`) came out empty.  The repaired code
    gives the documented reading of all three -/
theorem file_option_orig_witness :
    prepareReadGroups true (some "file:T:2".toList) = .ok (some ⟨['T'], 0, 1, ['\t']⟩) ∧
    prepareReadGroups false (some "file:T:2".toList) = .ok (some ⟨['T'], 2, 1, ['\t']⟩) ∧
    fileSpec ['T'] ['2'] [] [] = .ok (some ⟨['T'], 2, 1, ['\t']⟩) ∧
    prepareReadGroups true (some "file:T::2".toList) = .error .valueError ∧
    prepareReadGroups false (some "file:T::2".toList) = .ok (some ⟨['T'], 0, 2, ['\t']⟩) ∧
    prepareReadGroups true (some "file:T:0:1::".toList) = .ok (some ⟨['T'], 0, 1, []⟩) ∧
    prepareReadGroups false (some "file:T:0:1::".toList) = .ok (some ⟨['T'], 0, 1, [':']⟩) := by
  decide +kernel

/-- **file_option_orig_partial**: the pinned tree read the option as documented exactly when (i) no field after FILE is
    given, or (ii) both column fields are given and non-empty and the delimiter is omitted, or given, non-empty and
    colon-free.  Missing from the full statement: a given READ_COL with GROUP_COL omitted, empty column fields, an empty
    delimiter field, a delimiter containing a colon -/
theorem file_option_orig_partial (F a b d : List Char) (hF : NoColon F) (ha : NoColon a) (hb : NoColon b)
    (ha0 : a ≠ []) (hb0 : b ≠ []) (hd : NoColon d) (hd0 : d ≠ []) :
    prepareReadGroups true (some (fileOption [F])) = fileSpec F [] [] [] ∧
    prepareReadGroups true (some (fileOption [F, a, b])) = fileSpec F a b [] ∧
    prepareReadGroups true (some (fileOption [F, a, b, d])) = fileSpec F a b d := by
  have p1 : colonPieces (fileOption [F]) = [kwFile, F] := by
    simp only [fileOption, joinWith]
    rw [colonPieces_cons' _ _ kwFile_noColon, colonPieces_noColon _ hF]
  have p3 : colonPieces (fileOption [F, a, b]) = [kwFile, F, a, b] := by
    simp only [fileOption, joinWith]
    rw [colonPieces_cons' _ _ kwFile_noColon, colonPieces_cons' _ _ hF, colonPieces_cons' _ _ ha, colonPieces_noColon _ hb]
  have p4 : colonPieces (fileOption [F, a, b, d]) = [kwFile, F, a, b, d] := by
    rw [pieces4 F a b d hF ha hb, colonPieces_noColon _ hd]
  have ca : colField a 0 = pyInt a := by simp [colField, ha0]
  have cb : colField b 1 = pyInt b := by simp [colField, hb0]
  refine ⟨?_, ?_, ?_⟩
  · simp [prepareReadGroups, p1, fileGroupingPropertiesOrig, fileSpec, colField, delimField]
  · simp only [prepareReadGroups, p3, List.head?_cons, if_true, fileGroupingPropertiesOrig, fileSpec, ca, cb]
    cases pyInt a <;> simp only []
    cases pyInt b <;> simp [delimField]
  · simp only [prepareReadGroups, p4, List.head?_cons, if_true, fileGroupingPropertiesOrig, fileSpec, ca, cb]
    cases pyInt a <;> simp only []
    cases pyInt b <;> simp [delimField, hd0]

-- non-vacuity of `file_option_fields` / `file_option_omitted_fields` / `file_option_orig_partial`: colon-free fields
-- exist, and the option strings are the ones a user types
example : NoColon "reads.tsv".toList ∧ NoColon "2".toList ∧ NoColon [] ∧ "2".toList ≠ [] ∧
    fileOption ["t.tsv".toList, "2".toList] = "file:t.tsv:2".toList ∧
    fileOption ["t.tsv".toList, [], "2".toList, "::".toList] = "file:t.tsv::2:::".toList ∧
    prepareReadGroups false (some "file:t.tsv::2:::".toList) = .ok (some ⟨"t.tsv".toList, 0, 2, "::".toList⟩) ∧
    prepareReadGroups false (some "tag:CB".toList) = .ok none ∧ prepareReadGroups false none = .ok none ∧
    prepareReadGroups false (some "file".toList) = .error .assertionError := by
  decide +kernel

-- non-vacuity of `file_fields_independent`
example : fileSpec ['T'] ['2'] [] [','] = .ok (some ⟨['T'], 2, 1, [',']⟩) ∧
    fileSpec ['U'] ['2'] ['5'] [] = .ok (some ⟨['U'], 2, 5, ['\t']⟩) := by decide +kernel

/-! ### `read_id:DELIM` — the delimiter is the text after the first colon (GAP C09-4) -/

/-- **read_id_option_delimiter**: for EVERY text `d` the option `read_id:` ++ `d` selects the read-id grouper with the
    delimiter `d` — also when `d` is or contains a colon -/
theorem read_id_option_delimiter (d : List Char) :
    parseReadGroupL false (kwReadIdColon ++ d) = .ok (.readId (String.ofList d)) := by
  have hs : kwReadIdColon ++ d = ['r', 'e', 'a', 'd', '_', 'i', 'd'] ++ ':' :: d := rfl
  have hp : pySplit [':'] (kwReadIdColon ++ d) = .ok (['r', 'e', 'a', 'd', '_', 'i', 'd'] :: colonPieces d) := by
    rw [pySplit_colon, hs, colonPieces_cons _ _ (by decide)]
  have hk : String.ofList ['r', 'e', 'a', 'd', '_', 'i', 'd'] = "read_id" := by decide +kernel
  simp only [parseReadGroupL, hp, List.map_cons, hk]
  have h1 : ("read_id" = "file_name") = False := by decide
  have h2 : ("read_id" = "tag") = False := by decide
  simp only [h1, h2, if_false, if_true, Bool.false_eq_true]
  have hdrop : (kwReadIdColon ++ d).drop kwReadIdColon.length = d := by simp
  rw [hdrop]

/-- **read_id_option_orig_witness** (pinned tree, `values[1]`): `read_id::` selected the EMPTY delimiter (the first read
    then raised `ValueError: empty separator`, exit code 255) and `read_id:__:x` the delimiter `__`; a bare `read_id` was
    an IndexError.  Repaired: `:`, `__:x`, and the empty delimiter for the bare keyword -/
theorem read_id_option_orig_witness :
    parseReadGroupOrig (some "read_id::") = .ok (.readId "") ∧ parseReadGroup (some "read_id::") = .ok (.readId ":") ∧
    parseReadGroupOrig (some "read_id:__:x") = .ok (.readId "__") ∧ parseReadGroup (some "read_id:__:x") = .ok (.readId "__:x") ∧
    parseReadGroupOrig (some "read_id") = .error .indexError ∧ parseReadGroup (some "read_id") = .ok (.readId "") ∧
    getGroupId (.readId "") ⟨"m1:NEU", [], none⟩ = .error .valueError ∧
    getGroupId (.readId ":") ⟨"m1:NEU", [], none⟩ = .ok (GRes.both "NEU") := by
  decide +kernel

/-- **read_id_option_orig_partial**: the pinned tree selected the documented delimiter exactly for colon-free ones -/
theorem read_id_option_orig_partial (d : List Char) (hd : NoColon d) :
    parseReadGroupL true (kwReadIdColon ++ d) = .ok (.readId (String.ofList d)) := by
  have hs : kwReadIdColon ++ d = ['r', 'e', 'a', 'd', '_', 'i', 'd'] ++ ':' :: d := rfl
  have hp : pySplit [':'] (kwReadIdColon ++ d) = .ok [['r', 'e', 'a', 'd', '_', 'i', 'd'], d] := by
    rw [pySplit_colon, hs, colonPieces_cons _ _ (by decide), colonPieces_noColon _ hd]
  have hk : String.ofList ['r', 'e', 'a', 'd', '_', 'i', 'd'] = "read_id" := by decide +kernel
  simp only [parseReadGroupL, hp, List.map_cons, List.map_nil, hk]
  have h1 : ("read_id" = "file_name") = False := by decide
  have h2 : ("read_id" = "tag") = False := by decide
  simp only [h1, h2, if_false, if_true]

-- non-vacuity: the keyword constant is the documented keyword; a colon-free delimiter exists
example : kwReadIdColon = "read_id:".toList ∧ kwFile = "file".toList ∧ NoColon "_".toList := by decide +kernel

/-! ### a table for every sequence of the reference genome (GAP C09-2) -/

/-- **table_grouper_on_every_reference_sequence**: `chr` is ANY sequence name — one of the reference FASTA, listed in the
    header of a BAM file or not.  The grouper of its collector is built without an exception and every read with a BAM
    record on `chr` gets the group of the whole table (`NA` without a row).  `hwf` is the BAM format: the reference of a
    record is a sequence of the header of its file.  (A sequence no header lists has no records: the empty table is
    never consulted.) -/
theorem table_grouper_on_every_reference_sequence (headers : List (List String)) (m : List (String × String))
    (alns : List (String × Option String))
    (hids : ∀ rid c, (rid, c) ∈ alns → '\t' ∉ rid.toList ∧ '\n' ∉ rid.toList)
    (hgrp : ∀ rid g, m.lookup rid = some g → '\n' ∉ g.toList)
    (hwf : ∀ rid c, (rid, some c) ∈ alns → ∃ h ∈ headers, c ∈ h)
    (chr : String) :
    ∃ m', loadSplitFile false (splitFileOf headers m chr alns) = .ok m' ∧
      ∀ a : Aln, (a.name, some chr) ∈ alns → getGroupId (.table m') a = .ok (GRes.both (tableGroup m a.name)) := by
  by_cases hc : headers.any (fun h => h.contains chr) = true
  · obtain ⟨m', hm', hl⟩ := table_roundtrip m chr alns hids hgrp
    refine ⟨m', by unfold splitFileOf; rw [if_pos hc]; simp [loadSplitFile, hm'], ?_⟩
    intro a ha
    simp only [getGroupId, hl a.name ha, tableGroup]
    cases m.lookup a.name <;> rfl
  · refine ⟨[], by unfold splitFileOf; rw [if_neg hc]; simp [loadSplitFile], ?_⟩
    intro a ha
    exfalso
    obtain ⟨h, hh, hch⟩ := hwf a.name chr ha
    apply hc
    rw [List.any_eq_true]
    exact ⟨h, hh, by simpa using hch⟩

/-- **table_grouper_orig_witness** (pinned tree + fix 3cddb34): reference FASTA {chr1, chr2}, BAM header {chr1}: the
    collector of chr2 dies with `FileNotFoundError` (exit code 255) although chr2 has no read at all; repaired: the
    empty table -/
theorem table_grouper_orig_witness :
    loadSplitFile true (splitFileOf [["chr1"]] [("r", "g")] "chr2" [("r", some "chr1")]) = .error .fileNotFound ∧
    loadSplitFile false (splitFileOf [["chr1"]] [("r", "g")] "chr2" [("r", some "chr1")]) = .ok [] ∧
    loadSplitFile true (splitFileOf [["chr1"]] [("r", "g")] "chr1" [("r", some "chr1")]) = .ok [("r", "g")] := by
  decide +kernel

/-- **table_grouper_orig_partial**: the pinned tree built the grouper for every sequence that some BAM header lists -/
theorem table_grouper_orig_partial (headers : List (List String)) (m : List (String × String))
    (alns : List (String × Option String)) (chr : String) (hc : ∃ h ∈ headers, chr ∈ h) :
    loadSplitFile true (splitFileOf headers m chr alns) = loadSplitFile false (splitFileOf headers m chr alns) := by
  have : headers.any (fun h => h.contains chr) = true := by
    rw [List.any_eq_true]
    obtain ⟨h, hh, hch⟩ := hc
    exact ⟨h, hh, by simpa using hch⟩
  unfold splitFileOf; rw [if_pos this]; simp [loadSplitFile]

-- non-vacuity of `table_grouper_on_every_reference_sequence`: two BAM files with different headers, a read on each, a
-- third reference sequence nobody lists
example : (∀ rid c, (rid, some c) ∈ [("#r1", some "chr1"), ("r2", some "chr2"), ("u", (none : Option String))] →
      ∃ h ∈ [["chr1"], ["chr1", "chr2"]], c ∈ h) ∧
    loadSplitFile false (splitFileOf [["chr1"], ["chr1", "chr2"]] [("#r1", "A "), ("r2", "")] "chr3"
      [("#r1", some "chr1"), ("r2", some "chr2"), ("u", none)]) = .ok [] ∧
    loadSplitFile false (splitFileOf [["chr1"], ["chr1", "chr2"]] [("#r1", "A "), ("r2", "")] "chr2"
      [("#r1", some "chr1"), ("r2", some "chr2"), ("u", none)]) = .ok [("r2", "")] := by
  refine ⟨?_, by decide +kernel, by decide +kernel⟩
  intro rid c h
  simp at h
  rcases h with ⟨_, rfl⟩ | ⟨_, rfl⟩ <;> simp

end IsoVerif.Props.C09Options
