/-
C03 — constructors of exon lists and the reference path: `get_exons` yields sorted disjoint well-formed exons for
every strictly increasing intron path; end correction keeps a transcript well-formed and its intron chain intact;
reference transcripts are copied verbatim; the extended annotation is reference + novel.
Property theorems only; helper lemmas live in IsoVerif/Lemmas/{Build,GtfDump}.lean.
-/
import IsoVerif.Model.Gtf
import IsoVerif.Lemmas.C03Build
import IsoVerif.Lemmas.C03GtfDump
import IsoVerif.Props.C03Hist
import IsoVerif.Props.C03

namespace IsoVerif.Props.C03Build
open IsoVerif.Gen IsoVerif.Model IsoVerif.Lemmas IsoVerif.Props.C03Hist IsoVerif.Props.C03 IsoVerif.Model.C03 IsoVerif.Lemmas.C03

/-- **get_exons_wellformed_of_monotone_starts** (weakest interface): for every transcript range and every intron path
    whose introns are well-formed (`start <= end`) and whose starts do not decrease, `get_exons` returns sorted,
    pairwise disjoint, well-formed exons; every exon starts at the range start or right after an intron and ends at
    the range end or right before an intron.  (Introns may touch, overlap or nest: `get_exons` then merges them.) -/
theorem get_exons_wellformed_of_monotone_starts (r : Iv) (introns : List Iv) (hsm : StartsMono introns) (hw : WFl introns) :
    SD (getExons r introns) ∧ WFl (getExons r introns) ∧
    (∀ x ∈ getExons r introns, x.1 = r.1 ∨ ∃ c ∈ introns, x.1 = c.2 + 1) ∧
    (∀ x ∈ getExons r introns, x.2 = r.2 ∨ ∃ c ∈ introns, x.2 = c.1 - 1) := by
  have h := junctions_between (r.2 + 1, 0) introns (0, r.1 - 1) hsm hw
  simp only at h
  unfold getExons
  obtain ⟨w, s, st, en⟩ := h
  refine ⟨s, w, ?_, ?_⟩
  · intro x hx
    rcases st x hx with h1 | h1
    · left; omega
    · right; exact h1
  · intro x hx
    rcases en x hx with h1 | h1
    · left; omega
    · right; exact h1

/-- **get_exons_wellformed**: the same for sorted, pairwise disjoint, well-formed intron paths (the statement of
    DESIGN §7; a special case of the previous theorem) -/
theorem get_exons_wellformed (r : Iv) (introns : List Iv) (hsd : SD introns) (hw : WFl introns) :
    SD (getExons r introns) ∧ WFl (getExons r introns) ∧
    (∀ x ∈ getExons r introns, x.1 = r.1 ∨ ∃ c ∈ introns, x.1 = c.2 + 1) ∧
    (∀ x ∈ getExons r introns, x.2 = r.2 ∨ ∃ c ∈ introns, x.2 = c.1 - 1) :=
  get_exons_wellformed_of_monotone_starts r introns (SD_startsMono introns hsd hw) hw

-- non-vacuity of the weak interface: touching and nested introns, starts non-decreasing
example : StartsMono [(11, 19), (20, 39)] ∧ WFl [(11, 19), (20, 39)] ∧ getExons (5, 50) [(11, 19), (20, 39)] = [(5, 10), (40, 50)] ∧
    StartsMono [(11, 30), (15, 20)] ∧ getExons (5, 50) [(11, 30), (15, 20)] = [(5, 10), (21, 50)] := by
  unfold StartsMono; decide

/-- **fl_guard_gives_wellformed**: with the length guard of `construct_fl_isoforms` (`len(novel_exons) ==
    len(intron_path) + 1`, added by a `fix:` commit of C04) the monotonicity part of the assumption interface is
    *enforced by the code*: for every range and every path of well-formed introns that survives the guard, the path is
    sorted and disjoint, lies strictly inside the range, and the exons are sorted, disjoint, well-formed, start at the
    range start and end at the range end.  What remains assumed of the intron graph is only `start <= end` per intron. -/
theorem fl_guard_gives_wellformed (r : Iv) (path ex : List Iv) (h : flNovelExons r path = some ex) (hw : WFl path) :
    SD path ∧ SD ex ∧ WFl ex ∧ ex.length = path.length + 1 ∧
    (∀ c ∈ path, r.1 < c.1 ∧ c.2 < r.2) ∧
    (∀ x ∈ ex, x.1 = r.1 ∨ ∃ c ∈ path, x.1 = c.2 + 1) ∧ (∀ x ∈ ex, x.2 = r.2 ∨ ∃ c ∈ path, x.2 = c.1 - 1) := by
  unfold flNovelExons at h
  simp only at h
  split at h
  · cases h
  · rename_i hlen
    simp only [Option.some.injEq] at h
    subst h
    have hlen' : (getExons r path).length = path.length + 1 := by
      by_cases hh : (getExons r path).length = path.length + 1
      · exact hh
      · exact absurd hh hlen
    have hg : GapsAll ((0, r.1 - 1) :: path ++ [(r.2 + 1, 0)]) := by
      apply junctions_full_gaps
      have : (getExons r path).length = ((0, r.1 - 1) :: path ++ [(r.2 + 1, 0)]).length - 1 := by
        rw [hlen']; simp
      exact this
    have hsd := gaps_inner_SD (r.2 + 1, 0) path (0, r.1 - 1) hg
    obtain ⟨s, w, st, en⟩ := get_exons_wellformed r path hsd hw
    refine ⟨hsd, s, w, hlen', ?_, st, en⟩
    -- the path lies strictly inside the range: first gap and last gap are non-empty, the rest follows from SD
    have hfirst : ∀ c ∈ path, r.1 < c.1 := by
      cases hp : path with
      | nil => intro c hc; cases hc
      | cons i rest =>
        rw [hp] at hg hsd hw
        have h1 : (0, r.1 - 1).2 + 1 < i.1 := hg.1
        intro c hc
        rcases List.mem_cons.mp hc with hc | hc
        · subst hc; simpa using h1
        · have := SD_all_right hsd hw c hc
          have := WFl_head hw
          simp at h1; omega
    have hlast : ∀ (l : List Iv) (a : Iv), GapsAll (a :: l ++ [(r.2 + 1, 0)]) → SD l → WFl l → ∀ c ∈ l, c.2 < r.2 := by
      intro l
      induction l with
      | nil => intro _ _ _ _ c hc; cases hc
      | cons i rest ih =>
        intro a hga hs hwl c hc
        have hg2 : GapsAll (i :: rest ++ [(r.2 + 1, 0)]) := hga.2
        rcases List.mem_cons.mp hc with hc | hc
        · subst hc
          cases rest with
          | nil =>
            have : c.2 + 1 < (r.2 + 1, (0 : Int)).1 := hg2.1
            simp at this; omega
          | cons j rest' =>
            have hj := ih c hg2 (SD_tail hs) (WFl_tail hwl) j (by simp)
            have := hs.1
            have := hwl j (by simp)
            omega
        · exact ih i hg2 (SD_tail hs) (WFl_tail hwl) c hc
    intro c hc
    exact ⟨hfirst c hc, hlast path (0, r.1 - 1) hg hsd hw c hc⟩

-- non-vacuity: a monotone path survives the guard; the non-monotone path of the witness below is now skipped
example : flNovelExons (5, 50) [(11, 19), (31, 39)] = some [(5, 10), (20, 30), (40, 50)] ∧
    flNovelExons (5, 50) [(31, 39), (11, 19)] = none ∧ flNovelExons (5, 50) [(11, 19), (20, 39)] = none := by decide

/-- exons built by `get_exons` from a path inside a 1-based range pass the gate -/
theorem get_exons_passes_gate (r : Iv) (introns : List Iv) (hsd : SD introns) (hw : WFl introns)
    (hr : 0 < r.1) (hi : ∀ c ∈ introns, 0 ≤ c.2) : validateExons (getExons r introns) = true := by
  obtain ⟨s, w, st, _⟩ := get_exons_wellformed r introns hsd hw
  apply sd_passes_gate _ s w
  intro x hx
  rcases st x hx with h1 | ⟨c, hc, h1⟩
  · omega
  · have := hi c hc; omega

-- non-vacuity: a concrete path meets the hypotheses and the function computes the expected exons
example : SD [(11, 19), (31, 39)] ∧ WFl [(11, 19), (31, 39)] ∧
    getExons (5, 50) [(11, 19), (31, 39)] = [(5, 10), (20, 30), (40, 50)] := by decide

/-- outside the assumption interface (an intron path that is not increasing) `get_exons` produces overlapping exons
    which the gate lets through (they are sorted by start): non-overlap of novel exons rests on the monotonicity of
    the intron paths, which the oracle monitors on every pipeline output -/
theorem get_exons_unsorted_path_witness :
    getExons (5, 50) [(31, 39), (11, 19)] = [(5, 30), (20, 50)] ∧
    validateExons (getExons (5, 50) [(31, 39), (11, 19)]) = true ∧ ¬ SD (getExons (5, 50) [(31, 39), (11, 19)]) := by
  decide

/-- **end_correction_preserves_wf**: for every sorted, disjoint, well-formed transcript and every list of assigned
    reads, `correct_novel_transcript_ends` succeeds and returns a transcript with the same number of exons and the same
    intron chain that is still sorted, disjoint and well-formed, starts no earlier and ends no later. -/
theorem end_correction_preserves_wf (exons reads : List Iv) (apa : Int) (hne : exons ≠ [])
    (hsd : SD exons) (hw : WFl exons) :
    ∃ r, correctEnds exons reads apa = some r ∧ Shrunk exons r := by
  cases exons with
  | nil => exact absurd rfl hne
  | cons a t =>
    obtain ⟨last, hlast⟩ : ∃ last, (a :: t).getLast? = some last := by
      cases h : (a :: t).getLast? with
      | none => simp at h
      | some x => exact ⟨x, rfl⟩
    unfold correctEnds
    simp only [List.head?_cons, hlast]
    have h1 := applyStart_shrunk a t last hlast hsd hw
      (if (List.foldl (endStep apa a.1 last.2 a last) {} reads).startSupported = true then none
        else List.find? (fun s => decide (s > a.1)) (isortBy intLt (List.foldl (endStep apa a.1 last.2 a last) {} reads).readStarts))
      (by
        intro s hs
        split at hs
        · cases hs
        · have := List.find?_some hs; simpa using this)
    apply applyEnd_shrunk h1.1 _ last.2 h1.2
    · intro e he
      split at he
      · cases he
      · have := List.find?_some he; simpa using this
    · intro hnil
      have := h1.1.2.2.1
      rw [hnil] at this
      simp at this

/-- corrected transcripts of 1-based transcripts are 1-based and pass the gate -/
theorem end_correction_passes_gate (exons reads : List Iv) (apa : Int) (r : List Iv)
    (h : correctEnds exons reads apa = some r) (hne : exons ≠ []) (hsd : SD exons) (hw : WFl exons)
    (hpos : ∀ x ∈ exons, 0 < x.1) : validateExons r = true := by
  obtain ⟨r', hr', hsh⟩ := end_correction_preserves_wf exons reads apa hne hsd hw
  rw [h] at hr'; simp only [Option.some.injEq] at hr'; subst hr'
  obtain ⟨s, w, hlen, _, hb⟩ := hsh
  apply sd_passes_gate r s w
  cases exons with
  | nil => exact absurd rfl hne
  | cons a t =>
    obtain ⟨last, hlast⟩ : ∃ last, (a :: t).getLast? = some last := by
      cases h : (a :: t).getLast? with
      | none => simp at h
      | some x => exact ⟨x, rfl⟩
    obtain ⟨f', t', hf', _, b1, _⟩ := hb a last rfl hlast
    have ha := hpos a (by simp)
    obtain ⟨ys, hys⟩ := List.head?_eq_some_iff.mp hf'
    subst hys
    intro x hx
    rcases List.mem_cons.mp hx with hx | hx
    · subst hx; omega
    · have := SD_all_right s w x hx
      have := WFl_head w
      omega

-- non-vacuity + a concrete correction: unsupported start 100 moves to the smallest later read start, end stays
example : SD [(100, 200), (300, 400)] ∧ WFl [(100, 200), (300, 400)] ∧
    correctEnds [(100, 200), (300, 400)] [(150, 400), (160, 395)] 10 = some [(150, 200), (300, 400)] := by decide

/-- **novel_spliced_model_wellformed**: the whole construction chain of a novel spliced model - `get_exons` on an
    intron path with well-formed introns and non-decreasing starts inside the chromosome `[1, L]`, then end correction with any assigned reads - succeeds and
    yields exons that are sorted, pairwise disjoint, well-formed, inside `[1, L]`, and pass the gate.  This is the
    "exons non-overlapping, `1 <= start <= end <= chromosome length`" clause for novel transcripts, conditional only on the
    monitored assumption interface (intron starts non-decreasing, each intron well-formed, range and introns inside the chromosome). -/
theorem novel_spliced_model_wellformed (r : Iv) (introns reads : List Iv) (apa L : Int)
    (hsm : StartsMono introns) (hw : WFl introns) (hr1 : 1 ≤ r.1) (hr2 : r.2 ≤ L)
    (hin : ∀ c ∈ introns, 1 ≤ c.1 ∧ c.2 ≤ L) (hne : getExons r introns ≠ []) :
    ∃ l, correctEnds (getExons r introns) reads apa = some l ∧ SD l ∧ WFl l ∧ validateExons l = true ∧
      (∀ x ∈ l, 1 ≤ x.1 ∧ x.2 ≤ L) ∧ junctionsFromBlocks l = junctionsFromBlocks (getExons r introns) := by
  obtain ⟨gs, gw, gst, gen⟩ := get_exons_wellformed_of_monotone_starts r introns hsm hw
  have gpos : ∀ x ∈ getExons r introns, 1 ≤ x.1 := by
    intro x hx
    rcases gst x hx with h | ⟨c, hc, h⟩
    · omega
    · have := hin c hc; have := hw c hc; omega
  have gend : ∀ x ∈ getExons r introns, x.2 ≤ L := by
    intro x hx
    rcases gen x hx with h | ⟨c, hc, h⟩
    · omega
    · have := hin c hc; have := hw c hc; omega
  obtain ⟨l, hl, hsh⟩ := end_correction_preserves_wf (getExons r introns) reads apa hne gs gw
  have hgate := end_correction_passes_gate (getExons r introns) reads apa l hl hne gs gw (fun x hx => by have := gpos x hx; omega)
  obtain ⟨ls, lw, llen, lj, lb⟩ := hsh
  refine ⟨l, hl, ls, lw, hgate, ?_, lj⟩
  -- bounds: the corrected transcript lies inside the span of the uncorrected one
  cases hE : getExons r introns with
  | nil => exact absurd hE hne
  | cons a t =>
    obtain ⟨last, hlast⟩ : ∃ last, (a :: t).getLast? = some last := by
      cases h : (a :: t).getLast? with
      | none => simp at h
      | some x => exact ⟨x, rfl⟩
    rw [hE] at lb gpos gend
    obtain ⟨f', t', hf', ht', b1, b2⟩ := lb a last rfl hlast
    have ha := gpos a (by simp)
    have hlastm := gend last (List.mem_of_getLast? hlast)
    have hgl := (validate_exons_iff l).mp hgate
    intro x hx
    constructor
    · have := (hgl.2 x hx).1; omega
    · -- x.2 ≤ t'.2 ≤ last.2 ≤ L
      have := (transcript_record_spans l f' t' hgate hf' ht').2.2.2 ls x hx
      omega

-- non-vacuity of `novel_spliced_model_wellformed`: hypotheses met, and the chain computes
example : StartsMono [(11, 19), (31, 39)] ∧ WFl [(11, 19), (31, 39)] ∧ getExons (5, 50) [(11, 19), (31, 39)] ≠ [] ∧
    (∀ c ∈ [((11, 19) : Iv), (31, 39)], 1 ≤ c.1 ∧ c.2 ≤ 100) ∧
    correctEnds (getExons (5, 50) [(11, 19), (31, 39)]) [(7, 48), (8, 50)] 1 = some [(7, 10), (20, 30), (40, 50)] := by
  unfold StartsMono; decide

/-- the gate on a mono-exon list -/
theorem mono_exon_gate (x : Iv) : validateExons [x] = true ↔ (0 < x.1 ∧ x.1 ≤ x.2) := by
  rw [validate_exons_iff]
  simp

theorem mono_exon_coordinates (cutoff : Nat) (reads : List Iv) (three : Int) (x : Iv) :
    (monoExonFromCluster cutoff true reads three = some [x] → x.2 = three ∧ listMin (reads.map (·.1)) = some x.1) ∧
    (monoExonFromCluster cutoff false reads three = some [x] → x.1 = three ∧ listMax (reads.map (·.2)) = some x.2) := by
  unfold monoExonFromCluster
  constructor
  · intro h
    split at h
    · simp at h
    · simp only [if_true] at h
      cases hm : listMin (reads.map (·.1)) with
      | none => simp [hm] at h
      | some v => simp [hm] at h; subst h; exact ⟨rfl, rfl⟩
  · intro h
    split at h
    · simp at h
    · simp only [Bool.false_eq_true, if_false] at h
      cases hm : listMax (reads.map (·.2)) with
      | none => simp [hm] at h
      | some v => simp [hm] at h; subst h; exact ⟨rfl, rfl⟩

/-- **mono_exon_passes_gate_iff**: a novel forward mono-exon model `(five', three')` is printed iff the minimum read
    start is positive and not beyond the clustered polyA position; the constructor itself does not guarantee it, the
    gate does (mirror statement for polyT clusters) -/
theorem mono_exon_passes_gate_iff (cutoff : Nat) (reads : List Iv) (three : Int) (x : Iv) :
    (monoExonFromCluster cutoff true reads three = some [x] →
      (validateExons [x] = true ↔ ∃ five, listMin (reads.map (·.1)) = some five ∧ 0 < five ∧ five ≤ three)) ∧
    (monoExonFromCluster cutoff false reads three = some [x] →
      (validateExons [x] = true ↔ ∃ five, listMax (reads.map (·.2)) = some five ∧ 0 < three ∧ three ≤ five)) := by
  obtain ⟨h1, h2⟩ := mono_exon_coordinates cutoff reads three x
  constructor
  · intro h
    obtain ⟨e1, e2⟩ := h1 h
    rw [mono_exon_gate, e2]
    constructor
    · rintro ⟨a, b⟩; exact ⟨x.1, rfl, a, by omega⟩
    · rintro ⟨five, hf, a, b⟩
      simp only [Option.some.injEq] at hf
      omega
  · intro h
    obtain ⟨e1, e2⟩ := h2 h
    rw [mono_exon_gate, e2]
    constructor
    · rintro ⟨a, b⟩; exact ⟨x.2, rfl, by omega, by omega⟩
    · rintro ⟨five, hf, a, b⟩
      simp only [Option.some.injEq] at hf
      omega

-- non-vacuity
example : monoExonFromCluster 2 true [(40, 90), (35, 95), (50, 99)] 100 = some [(35, 100)] := by decide

/-! ### reference transcripts -/

/-- the model object `from_reference_transcript` builds for an annotated transcript -/
def refModel (ctx : GeneCtx) (r : RefTx) : TModel :=
  { chr := ctx.chr, strand := r.strand, tid := r.tid, gid := r.gid, exons := r.exons, known := true, other := r.other }

/-- **reference_verbatim** (construction): a model reported under a reference id carries exactly the annotated exon
    list, strand, gene and chromosome of the first annotated transcript with that id -/
theorem reference_verbatim (ctx : GeneCtx) (iso : Id) (m : TModel) (h : fromReference ctx iso = some m) :
    ∃ r ∈ ctx.isoforms, r.tid = iso ∧ m = refModel ctx r := by
  unfold fromReference at h
  cases hf : ctx.isoforms.find? (fun r => r.tid == iso) with
  | none => simp [hf] at h
  | some r =>
    simp only [hf, Option.some.injEq] at h
    refine ⟨r, List.mem_of_find?_eq_some hf, by simpa using List.find?_some hf, h.symm⟩

/-- **reference_printed_verbatim**: when such a model is handed to the printer (any history), its transcript record
    and its exon records are the annotated ones: same chromosome, strand, gene, id, `(first start, last end)`, and the
    exon records of its block are exactly the annotated exons -/
theorem reference_printed_verbatim (ctx : GeneCtx) (r : RefTx) (calls : List Call) (printed p' : List Id)
    (out : List Line) (h : runCalls printed calls = some (p', out)) (hin : InHistory calls (refModel ctx r))
    (ho : ∀ f ∈ r.other, f.2.2 ≠ 0) :
    (∃ f l, r.exons.head? = some f ∧ r.exons.getLast? = some l ∧ Line.tx ctx.chr f.1 l.2 r.strand r.gid r.tid ∈ out) ∧
    (∀ x ∈ r.exons, ∃ num, Line.feat ctx.chr 0 x.1 x.2 r.strand r.gid r.tid num ∈ out) ∧
    (exonRecs (featLines (refModel ctx r))).Perm r.exons := by
  refine ⟨?_, ?_, exon_records_of_block (refModel ctx r) ho⟩
  · -- the call did not abort, so the exon list is non-empty
    cases hreg : regionOf? (refModel ctx r) with
    | none =>
      exfalso
      -- a gated model without a region aborts its call; use the exon-record completeness on the history instead
      obtain ⟨cl, hcl, hm, hv⟩ := hin
      have key : ∀ (calls : List Call) (printed p' : List Id) (out : List Line), runCalls printed calls = some (p', out) →
          ∀ cl ∈ calls, ∀ m ∈ cl.models, validM m = true → regionOf? m ≠ none := by
        intro calls
        induction calls with
        | nil => intro _ _ _ _ cl hcl; cases hcl
        | cons c cs ih =>
          intro printed p' out h cl hcl m hm hv
          simp only [runCalls] at h
          cases hd : dump printed c.ctx c.models with
          | none => simp [hd] at h
          | some r1 =>
            obtain ⟨p1, l1⟩ := r1
            simp only [hd] at h
            cases hr : runCalls p1 cs with
            | none => simp [hr] at h
            | some r2 =>
              rcases List.mem_cons.mp hcl with he | hcl
              · subst he
                obtain ⟨acc, seen, hinv, hs, _, _⟩ := dump_spec hd
                have : m ∈ seen.map (·.1) := by rw [hs, List.mem_filter]; exact ⟨hm, hv⟩
                obtain ⟨p, hp, hpe⟩ := List.mem_map.mp this
                have := (hinv.seen_ok p hp).2.1
                rw [hpe] at this
                rw [this]; simp
              · obtain ⟨p2, l2⟩ := r2
                exact ih p1 p2 l2 hr cl hcl m hm hv
      exact key calls printed p' out h cl hcl _ hm hv hreg
    | some tr =>
      have hreg' := hreg
      unfold regionOf? at hreg
      simp only [refModel] at hreg
      cases hf : r.exons.head? with
      | none => simp [hf] at hreg
      | some f =>
        cases hl : r.exons.getLast? with
        | none => simp [hf, hl] at hreg
        | some l =>
          simp only [hf, hl, Option.some.injEq] at hreg
          refine ⟨f, l, rfl, rfl, ?_⟩
          apply (transcript_records_are_gated_models calls printed p' out h _ _ _ _ _ _).mpr
          exact ⟨refModel ctx r, hin, by rw [hreg', ← hreg], rfl, rfl, rfl, rfl⟩
  · intro x hx
    exact (exon_records_are_model_exons calls printed p' out h).2 (refModel ctx r) hin x hx

/-- **extended_is_reference_plus_novel** (storage): with pairwise distinct annotated transcript ids,
    `create_extended_storage` is exactly: one verbatim model per annotated transcript, in annotation order, followed by
    the novel models, unchanged -/
theorem extended_is_reference_plus_novel (ctx : GeneCtx) (novel ms : List TModel)
    (hnd : (ctx.isoforms.map (·.tid)).Nodup) (h : createExtendedStorage ctx novel = some ms) :
    ms = ctx.isoforms.map (refModel ctx) ++ novel := by
  unfold createExtendedStorage at h
  have key : ∀ (l : List RefTx), (∀ r ∈ l, fromReference ctx r.tid = some (refModel ctx r)) →
      l.mapM (fun r => fromReference ctx r.tid) = some (l.map (refModel ctx)) := by
    intro l
    induction l with
    | nil => intro _; rfl
    | cons a t ih =>
      intro hl
      simp only [List.mapM_cons, hl a (by simp), ih (fun r hr => hl r (List.mem_cons_of_mem _ hr))]
      rfl
  have hall : ∀ r ∈ ctx.isoforms, fromReference ctx r.tid = some (refModel ctx r) := by
    intro r hr
    unfold fromReference
    have : ctx.isoforms.find? (fun r' => r'.tid == r.tid) = some r := by
      generalize ctx.isoforms = l at hnd hr
      induction l with
      | nil => cases hr
      | cons a t ih =>
        simp only [List.map_cons, List.nodup_cons] at hnd
        simp only [List.find?_cons]
        rcases List.mem_cons.mp hr with he | hr'
        · subst he; simp
        · have : (a.tid == r.tid) = false := by
            simp only [beq_eq_false_iff_ne]
            intro he
            exact hnd.1 (he ▸ List.mem_map_of_mem hr')
          rw [this]
          exact ih hnd.2 hr'
    rw [this]; rfl
  rw [key ctx.isoforms hall] at h
  simpa using h.symm

-- non-vacuity of the storage theorem
example : createExtendedStorage { chr := 0, isoforms := [{ tid := 1, gid := 5, strand := 0, exons := [(3, 9)] }] }
    [{ chr := 0, strand := 1, tid := 2, gid := 6, exons := [(20, 30)], known := false }] =
    some [{ chr := 0, strand := 0, tid := 1, gid := 5, exons := [(3, 9)], known := true },
          { chr := 0, strand := 1, tid := 2, gid := 6, exons := [(20, 30)], known := false }] := by decide

/-- the novel models collected over the `transcript_models.gtf` history (`novel_model_storage`) -/
def novelOf (calls : List Call) : List TModel := calls.flatMap (fun cl => cl.models.filter (fun m => !m.known))

/-- **extended_records**: the transcript records of `extended_annotation.gtf` (one dump of the extended storage on a
    fresh printer) are exactly: the verbatim record of every annotated transcript that passes the gate, plus the records
    of the novel models - and a novel model's record in the extended file is identical (chromosome, coordinates, strand,
    gene, id) to its record in `transcript_models.gtf`. -/
theorem extended_records (ctx : GeneCtx) (calls : List Call) (ms : List TModel)
    (hnd : (ctx.isoforms.map (·.tid)).Nodup)
    (hs : createExtendedStorage ctx (novelOf calls) = some ms)
    (pT pE : List Id) (outT outE : List Line)
    (hT : runCalls [] calls = some (pT, outT)) (hE : dump [] ctx ms = some (pE, outE)) :
    ∀ c s e st g t, Line.tx c s e st g t ∈ outE ↔
      ((∃ r ∈ ctx.isoforms, validateExons r.exons = true ∧ regionOf? (refModel ctx r) = some (s, e) ∧
          c = ctx.chr ∧ st = r.strand ∧ g = r.gid ∧ t = r.tid) ∨
       (Line.tx c s e st g t ∈ outT ∧ ∃ m, InHistory calls m ∧ m.known = false ∧ m.tid = t ∧ m.gid = g ∧
          regionOf? m = some (s, e) ∧ m.chr = c ∧ m.strand = st)) := by
  intro c s e st g t
  have hms := extended_is_reference_plus_novel ctx (novelOf calls) ms hnd hs
  rw [dump_tx_line hE, hms]
  have hnovel : ∀ m, m ∈ novelOf calls ∧ validM m = true ↔ (InHistory calls m ∧ m.known = false) := by
    intro m
    unfold novelOf InHistory
    simp only [List.mem_flatMap, List.mem_filter, Bool.not_eq_true']
    constructor
    · rintro ⟨⟨cl, hcl, hm, hk⟩, hv⟩; exact ⟨⟨cl, hcl, hm, hv⟩, hk⟩
    · rintro ⟨⟨cl, hcl, hm, hv⟩, hk⟩; exact ⟨⟨cl, hcl, hm, hk⟩, hv⟩
  constructor
  · rintro ⟨m, hm, hv, hreg, hc, hst, hg, ht⟩
    rcases List.mem_append.mp hm with hm | hm
    · obtain ⟨r, hr, hre⟩ := List.mem_map.mp hm
      subst hre
      left
      exact ⟨r, hr, hv, hreg, hc.symm, hst.symm, hg.symm, ht.symm⟩
    · right
      have hin := (hnovel m).mp ⟨hm, hv⟩
      refine ⟨?_, m, hin.1, hin.2, ht, hg, hreg, hc, hst⟩
      exact (transcript_records_are_gated_models calls [] pT outT hT c s e st g t).mpr ⟨m, hin.1, hreg, hc, hst, hg, ht⟩
  · rintro (⟨r, hr, hv, hreg, hc, hst, hg, ht⟩ | ⟨_, m, hin, hk, ht, hg, hreg, hc, hst⟩)
    · exact ⟨refModel ctx r, List.mem_append.mpr (Or.inl (List.mem_map_of_mem hr)), hv, hreg, hc.symm, hst.symm, hg.symm, ht.symm⟩
    · have := (hnovel m).mpr ⟨hin, hk⟩
      exact ⟨m, List.mem_append.mpr (Or.inr this.1), this.2, hreg, hc, hst, hg, ht⟩

end IsoVerif.Props.C03Build
