/-
C11 — translation / reflection equivariance of the BED12 output (Model/Bed.lean = `BEDPrinter.add_read_info`,
property C14's model), for ALL exon lists (sorted or not, well formed or not), all `k`, all `L`:

  translation : chromStart / chromEnd / thickStart / thickEnd + k; blockCount, blockSizes and the (relative)
                blockStarts unchanged; the empty block list raises on both sides; the decoded blocks are shifted
  reflection  : the record of the mirrored exon list (on the flipped strand) is `mirrorBed L` of the record:
                [chromStart, chromEnd) ↦ [L − chromEnd, L − chromStart), block sizes reversed, the start of a
                block measured from the other end; the decoded blocks are the mirrored blocks.
-/
import IsoVerif.Gen.Prims
import IsoVerif.Model.Bed
import IsoVerif.Model.C11Symmetry
import IsoVerif.Model.C11SymBedCorr
import IsoVerif.Lemmas.C11Shift
import IsoVerif.Lemmas.C11Mirror
import IsoVerif.Lemmas.C11Bed

namespace IsoVerif.Props.C11Bed
open IsoVerif.Gen IsoVerif.Model IsoVerif.Model.C14 IsoVerif.Model.C11 IsoVerif.Lemmas.C11

/-! ## translation -/

/-- `add_read_info` on exons shifted by `k`: the four absolute columns move by `k`, the block columns stay;
    `none ↦ none` (IndexError on the empty list) -/
theorem shift_equivariant_bedRecord (k : Int) (chrom name strand : String) (exons : List Iv) :
    bedRecord chrom name strand (shiftL k exons) = (bedRecord chrom name strand exons).map (shiftBed k) :=
  bedRecord_shift k chrom name strand exons

/-- the relative columns, spelled out: same count, same sizes, same relative starts -/
theorem shift_invariant_bed_block_columns (k : Int) (chrom name strand : String) (exons : List Iv) (r r' : BedRecord)
    (h : bedRecord chrom name strand exons = some r) (h' : bedRecord chrom name strand (shiftL k exons) = some r') :
    r'.blockCount = r.blockCount ∧ r'.blockSizes = r.blockSizes ∧ r'.blockStarts = r.blockStarts ∧
      r'.chromStart = r.chromStart + k ∧ r'.chromEnd = r.chromEnd + k ∧
      r'.thickStart = r.thickStart + k ∧ r'.thickEnd = r.thickEnd + k := by
  rw [bedRecord_shift, h] at h'
  simp only [Option.map_some, Option.some.injEq] at h'
  subst h'
  simp [shiftBed]

/-- decoding commutes with the shift (ALL records, also malformed ones) -/
theorem shift_equivariant_bed_blocks (k : Int) (r : BedRecord) : (shiftBed k r).blocks = shiftL k r.blocks :=
  blocks_shiftBed k r

/-- the rendered line of the shifted record: columns 2, 3, 7, 8 carry `+ k`, every other column is the same text -/
theorem shift_equivariant_render (k : Int) (r : BedRecord) :
    (shiftBed k r).render =
      "\t".intercalate [r.chrom, toString (r.chromStart + k), toString (r.chromEnd + k), r.name, "0", r.strand,
                         toString (r.thickStart + k), toString (r.thickEnd + k), "0", toString r.blockCount,
                         joinComma r.blockSizes, joinComma r.blockStarts] ++ "\n" := rfl

/-- `BEDPrinter.add_read_info` as a whole: the guards do not read coordinates; what is written for the shifted
    read is the rendering of the shifted record; the exception is kept -/
theorem shift_equivariant_addReadInfo (k : Int) (i : PrinterInput) :
    addReadInfo (shiftPrinterInput k i) =
      (if !i.assignmentPresent || !i.typePresent || !i.geneInfoPresent then some none
       else if !i.checkerPresent || !i.checkerAccepts then some none
       else match bedRecord i.chrom i.name i.strand (if i.printCorrected then i.correctedExons else i.exons) with
         | none => none
         | some r => some (some (shiftBed k r).render)) := by
  obtain ⟨b1, b2, b3, b4, b5, pc, chrom, name, strand, exons, corrected⟩ := i
  have e : (if pc = true then shiftL k corrected else shiftL k exons)
      = shiftL k (if pc = true then corrected else exons) := by split <;> rfl
  show (if (!b1 || !b2 || !b3) = true then some none
        else if (!b4 || !b5) = true then some none
        else match bedRecord chrom name strand (if pc = true then shiftL k corrected else shiftL k exons) with
          | none => none
          | some r => some (some r.render)) = _
  rw [e, bedRecord_shift]
  cases bedRecord chrom name strand (if pc = true then corrected else exons) <;> rfl

/-- nothing written / exception: exactly the same inputs as before the shift -/
theorem shift_equivariant_addReadInfo_silent (k : Int) (i : PrinterInput) :
    (addReadInfo (shiftPrinterInput k i) = none ↔ addReadInfo i = none) ∧
    (addReadInfo (shiftPrinterInput k i) = some none ↔ addReadInfo i = some none) := by
  rw [shift_equivariant_addReadInfo]
  simp only [addReadInfo]
  cases bedRecord i.chrom i.name i.strand (if i.printCorrected = true then i.correctedExons else i.exons) <;>
    constructor <;> (split <;> try simp) <;> (split <;> simp)

/-! ## reflection (strand flip) -/

/-- the record of the mirrored exon list, written with strand `strand'` (the flipped one), is the mirror image
    of the record: ALL exon lists, no sortedness needed -/
theorem mirror_dual_bedRecord (L : Int) (chrom name strand strand' : String) (exons : List Iv) :
    bedRecord chrom name strand' (mirrorL L exons) = (bedRecord chrom name strand exons).map (mirrorBed L strand') :=
  bedRecord_mirror L chrom name strand strand' exons

/-- the columns of the mirrored record, spelled out -/
theorem mirror_dual_bed_columns (L : Int) (chrom name strand strand' : String) (exons : List Iv) (r r' : BedRecord)
    (h : bedRecord chrom name strand exons = some r) (h' : bedRecord chrom name strand' (mirrorL L exons) = some r') :
    r'.chromStart = L - r.chromEnd ∧ r'.chromEnd = L - r.chromStart ∧ r'.blockCount = r.blockCount ∧
      r'.blockSizes = r.blockSizes.reverse ∧
      r'.blockStarts = ((List.zip r.blockStarts r.blockSizes).map
                          (fun q => (r.chromEnd - r.chromStart) - (q.1 + q.2))).reverse := by
  rw [bedRecord_mirror L chrom name strand strand', h] at h'
  simp only [Option.map_some, Option.some.injEq] at h'
  subst h'
  simp [mirrorBed]

/-- decoding the mirrored record gives the mirrored blocks, for every record with as many starts as sizes
    (all records written by `add_read_info`: `bedRecord_lengths`) -/
theorem mirror_dual_bed_blocks (L : Int) (strand' : String) (r : BedRecord)
    (h : r.blockStarts.length = r.blockSizes.length) :
    (mirrorBed L strand' r).blocks = mirrorL L r.blocks :=
  blocks_mirrorBed L strand' r h

/-- the hypothesis is needed: `zip` truncates at the end of the shorter column, which is the other end after
    the reversal -/
theorem mirror_dual_bed_blocks_witness :
    ¬ (∀ (L : Int) (s : String) (r : BedRecord), (mirrorBed L s r).blocks = mirrorL L r.blocks) := by
  intro h
  have := h 100 "-" { chrom := "c", chromStart := 0, chromEnd := 30, name := "r", strand := "+", thickStart := 0,
                       thickEnd := 0, blockCount := 2, blockSizes := [10, 5], blockStarts := [0] }
  revert this
  decide

-- non-vacuity: a written record meets the hypothesis, and the functions compute non-trivial values
example : ∃ r, bedRecord "chr1" "read" "+" [(11, 20), (31, 45), (61, 70)] = some r ∧
    r.blockStarts.length = r.blockSizes.length ∧ r.blockStarts = [0, 20, 50] ∧
    (mirrorBed 100 "-" r).blockStarts = [0, 25, 50] ∧ (mirrorBed 100 "-" r).chromStart = 30 ∧
    (mirrorBed 100 "-" r).blocks = [(31, 40), (56, 70), (81, 90)] ∧
    (shiftBed 255 r).blocks = [(266, 275), (286, 300), (316, 325)] := by
  refine ⟨_, rfl, ?_⟩
  decide

example : bedRecord "c" "n" "+" (shiftL 7 []) = none ∧ bedRecord "c" "n" "-" (mirrorL 7 []) = none := by decide

end IsoVerif.Props.C11Bed
