/-
C09 — `--counts_format` reaches every grouped count table (audit-2 B, GAP C09-5; repaired code = candidate patch
`fix_counts_format_transcript_model`).  docs/cmd.md: "`--counts_format` Output format for grouped counts: matrix / linear
(no TPM output) / both".

The table `rg_grouped_counters` (Gen/ReadGroups.lean) is regenerated from `ReadAssignmentAggregator.__init__`
(src/dataset_processor.py) on every run; this file is kept apart from Props/C09Options.lean so that a change of that table
re-opens exactly the obligation below.
-/
import IsoVerif.Model.C09
import IsoVerif.Lemmas.C09

namespace IsoVerif.Props.C09Format
open IsoVerif.Gen IsoVerif.Model.C09 IsoVerif.Lemmas.C09

/-! ### `--counts_format` reaches every grouped table (GAP C09-5) -/

/-- the format the counter of a grouped table works with: the run's `--counts_format` when the aggregator passes it, the
    default of the factory function otherwise -/
def tableFormat (passes : Bool) (fmt : GroupedOutputFormat) : GroupedOutputFormat :=
  if passes then fmt else rg_grouped_format_default

/-- **counts_format_reaches_every_grouped_table**: every grouped count table of `ReadAssignmentAggregator` (table
    generated from the source on every run) is written in the run's `--counts_format` — gene, transcript AND
    transcript-model tables.  On the pinned tree the third entry of the table is `false` and this theorem fails to
    check: with `--counts_format linear` the transcript-model matrix and TPM tables were still written -/
theorem counts_format_reaches_every_grouped_table (fmt : GroupedOutputFormat) :
    ∀ p ∈ rg_grouped_counters, tableFormat p.2 fmt = fmt := by
  have h : ∀ p ∈ rg_grouped_counters, p.2 = true := by decide
  intro p hp
  simp [tableFormat, h p hp]

/-- the three grouped tables are the ones the property names -/
theorem grouped_tables_listed :
    rg_grouped_counters.map Prod.fst = ["gene_grouped_counter", "transcript_grouped_counter", "transcript_model_grouped_counter"] := by
  decide

/-- **dump_writes_requested_renderings**: a grouped counter writes the matrix rendering iff its format is `matrix` or
    `both`, and the linear rendering iff it is `linear` or `both` -/
theorem dump_writes_requested_renderings (c : Counter) (d : Dump) (hg : c.ignoreGroups = false) (h : dump c = .ok d) :
    (d.matrix.isSome = true ↔ (c.fmt = .matrix ∨ c.fmt = .both)) ∧
    (d.linear.isSome = true ↔ (c.fmt = .linear ∨ c.fmt = .both)) := by
  unfold dump at h
  simp only [hg, Bool.false_eq_true, if_false] at h
  cases hr : dumpGroupedRows c (zeroUnconfirmed c.fc (sortStr c.allFeatures) c.confirmed) (sortStr c.allFeatures) with
  | error e => rw [hr] at h; cases h
  | ok p =>
    rw [hr] at h
    simp only [Except.ok.injEq] at h
    subst h
    cases hf : c.fmt <;> simp [GroupedOutputFormat.output_matrix, GroupedOutputFormat.output_linear] <;> decide

/-- the pinned tree, as a regression example: a table whose counter is not handed the format is written in both
    renderings whatever `--counts_format` says -/
theorem counts_format_orig_witness : tableFormat false .linear = .both ∧ tableFormat true .linear = .linear := by
  decide

-- non-vacuity of `dump_writes_requested_renderings`: a grouped counter that dumps
example : (initCounter false (some ["a", "b"]) .unique_only ["f"] true .linear).ignoreGroups = false ∧
    (dump (initCounter false (some ["a", "b"]) .unique_only ["f"] true .linear)).toOption.isSome = true := by
  decide +kernel

end IsoVerif.Props.C09Format
