/-
C12 — the same alignments supplied as one BAM or split over several BAM files of one experiment give the same
read assignments, corrected alignments and ungrouped tables (as multisets of records).

Theorems about `Model/BamMerge.lean` (the `BAMOnlineMerger` k-way merge on the code's key
`(reference_start, reference_end, bam_index)`, the region clusters of `AlignmentCollector.process`, the
per-region re-fetch and the per-alignment map).  No bound on the number of files, records or coordinates.
-/
import IsoVerif.Model.BamMerge
import IsoVerif.Lemmas.BamMerge
import IsoVerif.Lemmas.BamClusters
import IsoVerif.Lemmas.BamRecords
import IsoVerif.Lemmas.BamOrder

namespace IsoVerif.Props.C12
open IsoVerif.Gen IsoVerif.Model.C12 IsoVerif.Lemmas.C12
open List

/-- the merged stream is a permutation of the records of all files (nothing lost, nothing duplicated, whatever
    the order inside the files) -/
theorem merge_perm (files : List (List Aln)) : ((merge files).map Prod.snd).Perm files.flatten :=
  merge_perm_aux files

/-- coordinate-sorted files give a coordinate-sorted merged stream -/
theorem merge_sorted_by_start (files : List (List Aln)) (hs : ∀ f ∈ files, SortedStart f) :
    (merge files).Pairwise (fun x y => x.2.start ≤ y.2.start) :=
  merge_sorted_aux files hs

example : (∀ f ∈ [[(⟨1, 5, 0⟩ : Aln), ⟨3, 9, 1⟩], [⟨1, 4, 2⟩, ⟨3, 9, 3⟩], []], SortedStart f) ∧
    merge [[⟨1, 5, 0⟩, ⟨3, 9, 1⟩], [⟨1, 4, 2⟩, ⟨3, 9, 3⟩], []] = [(1, ⟨1, 4, 2⟩), (0, ⟨1, 5, 0⟩), (0, ⟨3, 9, 1⟩), (1, ⟨3, 9, 3⟩)] := by
  decide

/-- the merged stream keeps every file's own order, and the records labelled with bam index `i` are exactly the
    records of file `i` (the label selects the file name used by the file-name read grouper); together with
    `merge_perm` and `merge_sorted_by_start`: the stream is an order-preserving interleaving of the files -/
theorem merge_preserves_file_order (files : List (List Aln)) (i : Nat) :
    ((merge files).filter (fun e => e.1 == i)).map Prod.snd = files[i]?.getD [] :=
  merge_file_order_aux files i

/-! ### the tuple comparison of the priority queue never reaches the pysam record -/

/-- in every state the merger goes through, no two queue entries belong to the same iterator -/
theorem queue_indices_nodup (files : List (List Aln)) (n : Nat) (s : MState)
    (h : stateAfter files n = some s) : (s.queue.map Prod.fst).Nodup :=
  stateAfter_nodup files n s h

/-- hence two different queue entries never compare equal on `(start, end, bam_index)`: Python's tuple
    comparison is decided before it would have to compare two `AlignedSegment` objects (a `TypeError`) -/
theorem queue_keys_never_tie (files : List (List Aln)) (n : Nat) (s : MState)
    (h : stateAfter files n = some s) (x y : Entry) (hx : x ∈ s.queue) (hy : y ∈ s.queue) (hne : x ≠ y) :
    ¬ (keyLe x y = true ∧ keyLe y x = true) := by
  have hn := queue_indices_nodup files n s h
  intro ⟨h1, h2⟩
  have hidx : x.1 = y.1 := by
    simp only [keyLe, Bool.or_eq_true, Bool.and_eq_true, decide_eq_true_eq] at h1 h2
    omega
  exact hne (eq_of_nodup_map Prod.fst hn hx hy hidx)

/-! ### region clusters -/

/-- `AlignmentCollector.process`: two coordinate-sorted streams holding the same alignments (bam indices and
    the order among equal starts may differ) are cut into the same regions with the same alignments in each -/
theorem clusters_invariant_under_equal_start_permutation (l1 l2 : List Entry)
    (h1 : l1.Pairwise (fun x y => x.2.start ≤ y.2.start)) (h2 : l2.Pairwise (fun x y => x.2.start ≤ y.2.start))
    (wf : ∀ e ∈ l1, e.2.start < e.2.stop) (hp : (l1.map Prod.snd).Perm (l2.map Prod.snd)) :
    ClusterEquiv ((clusters Prod.snd l1).map strip) ((clusters Prod.snd l2).map strip) := by
  rw [clusters_strip, clusters_strip]
  refine go_perm_invariant id _ _ none ?_ ?_ ?_ hp ?_
  · exact List.pairwise_map.mpr h1
  · exact List.pairwise_map.mpr h2
  · intro x hx
    obtain ⟨e, he, rfl⟩ := List.mem_map.mp hx
    exact wf e he
  · intro x _ r cur h; cases h

example : clusters Prod.snd [(0, (⟨1, 5, 0⟩ : Aln)), (1, ⟨1, 9, 1⟩), (0, ⟨9, 12, 2⟩), (0, ⟨20, 30, 3⟩)] =
      [((1, 8), [(0, ⟨1, 5, 0⟩), (1, ⟨1, 9, 1⟩)]), ((9, 11), [(0, ⟨9, 12, 2⟩)]), ((20, 29), [(0, ⟨20, 30, 3⟩)])] ∧
    clusters Prod.snd [(1, (⟨1, 9, 1⟩ : Aln)), (0, ⟨1, 5, 0⟩), (0, ⟨9, 12, 2⟩), (0, ⟨20, 30, 3⟩)] =
      [((1, 8), [(1, ⟨1, 9, 1⟩), (0, ⟨1, 5, 0⟩)]), ((9, 11), [(0, ⟨9, 12, 2⟩)]), ((20, 29), [(0, ⟨20, 30, 3⟩)])] := by
  decide

/-- every alignment of the stream lands in exactly one cluster, in stream order -/
theorem clusters_flatten {E : Type} (al : E → Aln) (l : List E) : (clusters al l).flatMap (·.2) = l :=
  clusters_flatten_aux al l

/-! ### records -/

/-- the alignments of all files inside a sub-region, as handed to `process_alignments_in_region` in the default
    mode, are a permutation of the sub-region's alignments of the pooled input -/
theorem region_fetch_perm (files : List (List Aln)) (sub : Iv) :
    ((merge (files.map (fetch sub))).map Prod.snd).Perm (fetch sub files.flatten) := by
  exact fetch_merge_perm files sub

/-- **partition invariance.**  Two ways of supplying the same alignments as coordinate-sorted files
    (any number of files, any assignment of records to files, any order among equal starts) produce the same
    multiset of per-alignment records — for every `split_coverage_regions` function and every per-alignment
    function that does not look at the bam index (grouping by file name off). -/
theorem records_multiset_invariant {R : Type} (split : SplitFn) (assign : Assign R)
    (files1 files2 : List (List Aln))
    (s1 : ∀ f ∈ files1, SortedStart f) (s2 : ∀ f ∈ files2, SortedStart f)
    (wf : ∀ a ∈ files1.flatten, a.start < a.stop)
    (hp : files1.flatten.Perm files2.flatten)
    (hidx : ∀ r i j a, assign r i a = assign r j a) :
    (collect split assign files1).Perm (collect split assign files2) :=
  collect_perm split assign files1 files2 s1 s2 wf hp hidx

/-- the same for `--high_memory` (alignments of a region are taken from the stored cluster) -/
theorem records_multiset_invariant_high_memory {R : Type} (split : SplitFn) (assign : Assign R)
    (files1 files2 : List (List Aln))
    (s1 : ∀ f ∈ files1, SortedStart f) (s2 : ∀ f ∈ files2, SortedStart f)
    (wf : ∀ a ∈ files1.flatten, a.start < a.stop)
    (hp : files1.flatten.Perm files2.flatten)
    (hidx : ∀ r i j a, assign r i a = assign r j a) :
    (collectMem split assign files1).Perm (collectMem split assign files2) :=
  collectMem_perm split assign files1 files2 s1 s2 wf hp hidx

/-- one BAM vs. the same records split over several: the special case named in the statement -/
theorem one_bam_vs_split {R : Type} (split : SplitFn) (assign : Assign R) (whole : List Aln) (parts : List (List Aln))
    (sw : SortedStart whole) (sp : ∀ f ∈ parts, SortedStart f) (wf : ∀ a ∈ whole, a.start < a.stop)
    (hp : whole.Perm parts.flatten) (hidx : ∀ r i j a, assign r i a = assign r j a) :
    (collect split assign [whole]).Perm (collect split assign parts) :=
  records_multiset_invariant split assign [whole] parts (by simpa using sw) sp (by simpa using wf) (by simpa using hp) hidx

/-- any table that adds a per-record weight per feature (the ungrouped count tables) is the same for both
    representations; so is every other function of the multiset of records -/
theorem tables_invariant {R F : Type} (w : R → F → Int) {recs1 recs2 : List R} (h : recs1.Perm recs2) (f : F) :
    table w recs1 f = table w recs2 f :=
  sum_perm (h.map _)

example : let whole : List Aln := [⟨1, 5, 0⟩, ⟨1, 9, 1⟩, ⟨9, 12, 2⟩, ⟨20, 30, 3⟩]
    let parts : List (List Aln) := [[⟨1, 9, 1⟩, ⟨20, 30, 3⟩], [], [⟨1, 5, 0⟩, ⟨9, 12, 2⟩]]
    SortedStart whole ∧ (∀ f ∈ parts, SortedStart f) ∧ (∀ a ∈ whole, a.start < a.stop) ∧ whole.Perm parts.flatten ∧
      collect (fun r _ _ => [r]) (fun r _ a => some (r, a.tag)) [whole] = [((1, 8), 0), ((1, 8), 1), ((9, 11), 2), ((20, 29), 3)] ∧
      collect (fun r _ _ => [r]) (fun r _ a => some (r, a.tag)) parts = [((1, 8), 0), ((1, 8), 1), ((9, 11), 2), ((20, 29), 3)] := by
  refine ⟨by decide, by decide, by decide, ?_, by decide, by decide⟩
  decide

/-- with grouping by file name switched on (IsoQuant does so by itself when an experiment has several files) the
    per-alignment record carries a label that depends on the bam index; everything else in the record does not.
    Then the two representations give the same multiset of records once that label is projected away — which is
    what the ungrouped outputs named in the statement do. -/
theorem records_invariant_modulo_file_label {R S : Type} (proj : R → S) (split : SplitFn) (assign : Assign R)
    (files1 files2 : List (List Aln))
    (s1 : ∀ f ∈ files1, SortedStart f) (s2 : ∀ f ∈ files2, SortedStart f)
    (wf : ∀ a ∈ files1.flatten, a.start < a.stop)
    (hp : files1.flatten.Perm files2.flatten)
    (hidx : ∀ r i j a, (assign r i a).map proj = (assign r j a).map proj) :
    ((collect split assign files1).map proj).Perm ((collect split assign files2).map proj) := by
  rw [collect_map, collect_map]
  exact records_multiset_invariant split _ files1 files2 s1 s2 wf hp hidx

example : let assign : Assign (Nat × Nat) := fun _ i a => some (a.tag, i)     -- (record, file label)
    (∀ r i j a, (assign r i a).map Prod.fst = (assign r j a).map Prod.fst) ∧
    collect (fun r _ _ => [r]) assign [[⟨1, 5, 0⟩, ⟨1, 9, 1⟩]] = [(0, 0), (1, 0)] ∧
    collect (fun r _ _ => [r]) assign [[⟨1, 9, 1⟩], [⟨1, 5, 0⟩]] = [(0, 1), (1, 0)] := by
  refine ⟨fun _ _ _ _ => rfl, by decide, by decide⟩

/-- the hypothesis `start < stop` of the cluster theorem is needed: an alignment with an empty reference span and
    the start of its neighbour is clustered differently in the two orders.  (pysam never yields such a record:
    `reference_end` is `bam_endpos`, at least `reference_start + 1`; the harness re-checks this on real BAM files.) -/
example : clusters id [(⟨5, 9, 0⟩ : Aln), ⟨5, 5, 1⟩] = [((5, 8), [⟨5, 9, 0⟩]), ((5, 4), [⟨5, 5, 1⟩])] ∧
    clusters id [(⟨5, 5, 1⟩ : Aln), ⟨5, 9, 0⟩] = [((5, 4), [⟨5, 5, 1⟩]), ((5, 8), [⟨5, 9, 0⟩])] := by
  decide

/-! ### the clause of the property -/

/-- The BAM clause at full strength: every output `post` of the real pipeline downstream of the per-alignment
    records (multimapper resolution, counters, printers — compared up to record order) is the same for the two
    representations.  Not proved here in this form: that the real downstream is a function of the *multiset* of
    records is the content of C08 (`the resolver retains the same set for every record order`) and C02
    (`accumulation commutes`); it enters `outputs_invariant_partial` as the hypothesis `hpost`.
    Props/C12EndToEnd.lean composes the C08 and C02 models and proves the clause for the modelled downstream
    (`bam_clause_end_to_end_partial`, `end_to_end_partition_invariant`) under a no-conflicting-duplicates condition,
    without which it is false (`bam_clause_witness`). -/
def BamClause {R O : Type} (post : List R → O) (split : SplitFn) (assign : Assign R) : Prop :=
  ∀ files1 files2 : List (List Aln),
    (∀ f ∈ files1, SortedStart f) → (∀ f ∈ files2, SortedStart f) → (∀ a ∈ files1.flatten, a.start < a.stop) →
    files1.flatten.Perm files2.flatten →
    post (collect split assign files1) = post (collect split assign files2)

/-- proved part of `BamClause`: it holds for every downstream that does not depend on the order of the records
    and every per-alignment function that does not look at the bam index -/
theorem outputs_invariant_partial {R O : Type} (post : List R → O) (split : SplitFn) (assign : Assign R)
    (hpost : ∀ l l' : List R, l.Perm l' → post l = post l')
    (hidx : ∀ r i j a, assign r i a = assign r j a) : BamClause post split assign := by
  intro files1 files2 s1 s2 wf hp
  exact hpost _ _ (records_multiset_invariant split assign files1 files2 s1 s2 wf hp hidx)

example : (∀ l l' : List (Iv × Nat), l.Perm l' → table (fun r (f : Nat) => if r.2 = f then (1 : Int) else 0) l =
    table (fun r (f : Nat) => if r.2 = f then (1 : Int) else 0) l') :=
  fun _ _ h => funext (fun f => tables_invariant _ h f)

end IsoVerif.Props.C12
