/-
C11 — translation equivariance of the exon-id allocation (Model/Ids.lean, property C17's model of
`FeatureIdStorage.__init__ / get_id`): the storage is keyed by `(chr, start, end, strand)`; with the reference features and
the queried exons shifted by k, every call returns the SAME `exon_id` (reference ids for reference exons, the same fresh
`chr.N` numbers in the same order for novel ones), for every call history, every distributor state and every k.
The transcript / gene id allocators (`ExcludingIdDistributor`, `stepEvent`) take no coordinate at all.
-/
import IsoVerif.Model.Ids
import IsoVerif.Model.C11SymIds

namespace IsoVerif.Props.C11Ids
open IsoVerif.Model IsoVerif.Model.C11 IsoVerif.Model.C17

/-- the shift is injective on exon keys -/
theorem shiftEK_injective (k : Int) (a b : ExonKey) : shiftEK k a = shiftEK k b ↔ a = b := by
  obtain ⟨a1, a2, a3, a4⟩ := a
  obtain ⟨b1, b2, b3, b4⟩ := b
  simp only [shiftEK, Prod.mk.injEq]
  constructor
  · rintro ⟨h1, h2, h3, h4⟩; exact ⟨h1, by omega, by omega, h4⟩
  · rintro ⟨h1, h2, h3, h4⟩; exact ⟨h1, by omega, by omega, h4⟩

theorem shift_equivariant_dictGet (k : Int) (e : ExonKey) (d : List (ExonKey × Str)) :
    dictGet (shiftEK k e) (d.map (fun p => (shiftEK k p.1, p.2))) = dictGet e d := by
  induction d with
  | nil => rfl
  | cons p ps ih =>
    obtain ⟨pk, pv⟩ := p
    simp only [List.map_cons, dictGet, shiftEK_injective, ih]

/-- loading the shifted reference annotation gives the shifted dictionary and the same `used_ids` -/
theorem shift_equivariant_init (k : Int) (dist : IdDistributor) (genedb : Option (List RefFeature)) (chr : Str) :
    FeatureIdStorage.init dist (genedb.map (List.map (shiftRefFeature k))) chr =
      shiftIdStorage k (FeatureIdStorage.init dist genedb chr) := by
  cases genedb with
  | none => rfl
  | some feats =>
    simp only [Option.map_some, FeatureIdStorage.init]
    split
    · rfl
    · have aux : ∀ (l : List RefFeature) (st : FeatureIdStorage),
          (l.map (shiftRefFeature k)).foldl (FeatureIdStorage.load chr) (shiftIdStorage k st) =
            shiftIdStorage k (l.foldl (FeatureIdStorage.load chr) st) := by
        intro l
        induction l with
        | nil => intro st; rfl
        | cons f t ih =>
          intro st
          simp only [List.map_cons, List.foldl_cons]
          have : FeatureIdStorage.load chr (shiftIdStorage k st) (shiftRefFeature k f) =
              shiftIdStorage k (FeatureIdStorage.load chr st f) := by
            simp only [FeatureIdStorage.load, shiftRefFeature]
            cases f.idAttr with
            | none => rfl
            | some l => cases l <;> rfl
          rw [this, ih]
      exact aux feats ⟨dist, [], []⟩

/-- the same for the storage built from the reference records of every feature type (`exon_id` values of CDS / codon /
    UTR records reserved in `used_ids`, `id_dict` filled from the `exon` records) -/
theorem shift_equivariant_initRecords (k : Int) (dist : IdDistributor) (genedb : Option (List RefRecord)) (chr : Str) :
    FeatureIdStorage.initRecords dist (genedb.map (List.map (shiftRefRecord k))) chr =
      shiftIdStorage k (FeatureIdStorage.initRecords dist genedb chr) := by
  cases genedb with
  | none => rfl
  | some recs =>
    simp only [Option.map_some, FeatureIdStorage.initRecords]
    split
    · rfl
    · have aux : ∀ (l : List RefRecord) (st : FeatureIdStorage),
          (l.map (shiftRefRecord k)).foldl (FeatureIdStorage.loadRecord chr) (shiftIdStorage k st) =
            shiftIdStorage k (l.foldl (FeatureIdStorage.loadRecord chr) st) := by
        intro l
        induction l with
        | nil => intro st; rfl
        | cons f t ih =>
          intro st
          simp only [List.map_cons, List.foldl_cons]
          have : FeatureIdStorage.loadRecord chr (shiftIdStorage k st) (shiftRefRecord k f) =
              shiftIdStorage k (FeatureIdStorage.loadRecord chr st f) := by
            obtain ⟨ty, ft⟩ := f
            simp only [FeatureIdStorage.loadRecord, shiftRefRecord, shiftRefFeature]
            cases ft.idAttr with
            | none => rfl
            | some l => cases l <;> cases ty <;> rfl
          rw [this, ih]
      exact aux recs ⟨dist, [], []⟩

/-- **shift_equivariant_getId** — one `get_id` call on the shifted storage for the shifted exon: the same id -/
theorem shift_equivariant_getId (k : Int) (st : FeatureIdStorage) (e : ExonKey) :
    (shiftIdStorage k st).getId (shiftEK k e) = (st.getId e).map (fun r => (r.1, shiftIdStorage k r.2)) := by
  simp only [FeatureIdStorage.getId, shiftIdStorage, shift_equivariant_dictGet]
  cases dictGet e st.dict with
  | some id => rfl
  | none =>
    have : (shiftEK k e).1 = e.1 := rfl
    simp only [this]
    cases freshLoop e.1 st.used (st.used.length + 1) st.dist with
    | none => rfl
    | some r => rfl

/-- **shift_equivariant_getIds** — a whole call history -/
theorem shift_equivariant_getIds (k : Int) (es : List ExonKey) : ∀ (st : FeatureIdStorage),
    (shiftIdStorage k st).getIds (es.map (shiftEK k)) = (st.getIds es).map (fun r => (r.1, shiftIdStorage k r.2)) := by
  induction es with
  | nil => intro st; rfl
  | cons e t ih =>
    intro st
    simp only [List.map_cons, FeatureIdStorage.getIds, shift_equivariant_getId]
    cases st.getId e with
    | none => rfl
    | some r =>
      simp only [Option.map_some, ih]
      cases r.2.getIds t <;> rfl

/-- the ids written for the exons of a chromosome: reference annotation and queries shifted, ids unchanged -/
theorem shift_equivariant_exon_ids (k : Int) (dist : IdDistributor) (genedb : Option (List RefFeature)) (chr : Str)
    (es : List ExonKey) :
    ((FeatureIdStorage.init dist (genedb.map (List.map (shiftRefFeature k))) chr).getIds (es.map (shiftEK k))).map (·.1) =
      ((FeatureIdStorage.init dist genedb chr).getIds es).map (·.1) := by
  rw [shift_equivariant_init, shift_equivariant_getIds]
  cases (FeatureIdStorage.init dist genedb chr).getIds es <;> rfl

/-- … and with a reference that carries `exon_id` on records of other feature types as well -/
theorem shift_equivariant_exon_ids_records (k : Int) (dist : IdDistributor) (genedb : Option (List RefRecord))
    (chr : Str) (es : List ExonKey) :
    ((FeatureIdStorage.initRecords dist (genedb.map (List.map (shiftRefRecord k))) chr).getIds (es.map (shiftEK k))).map (·.1) =
      ((FeatureIdStorage.initRecords dist genedb chr).getIds es).map (·.1) := by
  rw [shift_equivariant_initRecords, shift_equivariant_getIds]
  cases (FeatureIdStorage.initRecords dist genedb chr).getIds es <;> rfl

/-- non-vacuity: reference exon `E7`, its CDS with the id `chr1.1` of its own: the novel exon gets `chr1.2` -/
example :
    let chr : Str := "chr1".toList
    let db : List RefRecord := [⟨true, 100, 200, "+".toList, some ["E7".toList]⟩, ⟨false, 120, 180, "+".toList, some ["chr1.1".toList]⟩]
    let calls : List ExonKey := [(chr, 100, 200, "+".toList), (chr, 300, 400, "+".toList), (chr, 300, 400, "+".toList)]
    ((FeatureIdStorage.initRecords SimpleIDDistributor.init (some db) chr).getIds calls).map (·.1) =
      some ["E7".toList, "chr1.2".toList, "chr1.2".toList] ∧
    ((FeatureIdStorage.initRecords SimpleIDDistributor.init (some (db.map (shiftRefRecord 1000))) chr).getIds
      (calls.map (shiftEK 1000))).map (·.1) = some ["E7".toList, "chr1.2".toList, "chr1.2".toList] := by decide

/-- non-vacuity: a reference exon keeps its reference id, a novel one gets `chr1.1`, before and after a shift by 1000 -/
example :
    let chr : Str := "chr1".toList
    let db : List RefFeature := [⟨100, 200, "+".toList, some ["E7".toList]⟩]
    let calls : List ExonKey := [(chr, 100, 200, "+".toList), (chr, 300, 400, "+".toList), (chr, 300, 400, "+".toList)]
    ((FeatureIdStorage.init SimpleIDDistributor.init (some db) chr).getIds calls).map (·.1) =
      some ["E7".toList, "chr1.1".toList, "chr1.1".toList] ∧
    ((FeatureIdStorage.init SimpleIDDistributor.init (some (db.map (shiftRefFeature 1000))) chr).getIds
      (calls.map (shiftEK 1000))).map (·.1) = some ["E7".toList, "chr1.1".toList, "chr1.1".toList] := by decide

end IsoVerif.Props.C11Ids
