/-
C16 (part 2) — removing terminal exons that consist of an aligned polyA/polyT tail never produces an empty or
unordered exon list and moves the recorded tail position onto the retained exon.
Model: IsoVerif/Model/PolyA.lean (`addPolyaInfo` = the code after the fix commit, `addPolyaInfoBuggy` = the pinned
tree).  Helper lemmas: IsoVerif/Lemmas/PolyA.lean.
-/
import IsoVerif.Model.PolyA
import IsoVerif.Lemmas.PolyA

namespace IsoVerif.Props.C16PolyA
open IsoVerif.Gen IsoVerif.Model IsoVerif.Model.C16 IsoVerif.Lemmas.C16

/-- **trim_nonempty_sorted** (full strength, fixed code) — for every non-empty exon list, every polyA/polyT
    position quadruple and every `max_fake_terminal_exon_len`: `add_polya_info` does not raise, the exon list
    it leaves is non-empty, is a contiguous part of the input (only terminal exons are removed), is sorted and
    disjoint whenever the input is, and the read/cigar block lists are cut in step with it. -/
theorem trim_nonempty_sorted (mf : Int) (exons rb cb : List Iv) (info : PolyAInfo) (hne : exons ≠ []) :
    ∃ r, addPolyaInfo mf exons rb cb info = some r ∧ r.exons ≠ [] ∧ r.exons <:+: exons ∧
      (SD exons → SD r.exons) ∧
      (rb.length = exons.length → r.readBlocks.length = r.exons.length) ∧
      (cb.length = exons.length → r.cigarBlocks.length = r.exons.length) := by
  obtain ⟨a, t, st0, st1, st2, r, _, hlt, _, _, _, _, _, _, hr, _, hre, hrr, hrc, _, _⟩ :=
    addPolyaInfo_spec mf exons rb cb info hne
  refine ⟨r, hr, ?_, ?_, ?_, ?_, ?_⟩
  · intro h
    have : r.exons.length = 0 := by rw [h]; rfl
    rw [hre, List.length_drop, List.length_take] at this
    omega
  · rw [hre]
    exact List.IsInfix.trans (List.drop_suffix _ _).isInfix (List.take_prefix _ _).isInfix
  · intro hsd; rw [hre]; exact (hsd.take _).drop _
  · intro h; rw [hre, hrr]; simp [List.length_drop, List.length_take, h]
  · intro h; rw [hre, hrc]; simp [List.length_drop, List.length_take, h]

/-- non-vacuity: a three-exon read whose polyA and polyT counts overlap ((2,2) on three exons, the input that
    crashed the pinned tree) is trimmed to its middle exon by the fixed code -/
example : (addPolyaInfo 40 [(1001, 1032), (1133, 1160), (1261, 1296)] [(0, 31), (32, 59), (60, 95)]
      [(0, 0), (2, 2), (4, 4)] ⟨-1, -1, 1032, 1159⟩).map (·.exons) = some [(1133, 1160)] := by decide

/-- **trim_empty_witness** — the pinned tree (`polyt + polya == len` guard only) fails the clause: the same
    read makes `add_polya_info` raise (`IndexError` in `shift_polyt`, after the exon list was cut to one exon
    and two more were to be removed); reachable from a real BAM record (`T32 A12 T16 A36`, `32M100N28M100N36M`) -/
theorem trim_empty_witness :
    correctReadInfoBuggy 40 [(1001, 1032), (1133, 1160), (1261, 1296)] ⟨-1, -1, 1032, 1159⟩ = some (2, 2) ∧
    addPolyaInfoBuggy 40 [(1001, 1032), (1133, 1160), (1261, 1296)] [(0, 31), (32, 59), (60, 95)]
      [(0, 0), (2, 2), (4, 4)] ⟨-1, -1, 1032, 1159⟩ = none := by decide

/-- second witness (the design-round probe): counts (2,2) on two exons ask for four exons to be removed -/
theorem trim_two_exons_witness :
    correctReadInfoBuggy 40 [(1, 10), (20, 30)] ⟨-1, -1, 1, 30⟩ = some (2, 2) ∧
    addPolyaInfoBuggy 40 [(1, 10), (20, 30)] [(0, 9), (10, 20)] [(0, 0), (2, 2)] ⟨-1, -1, 1, 30⟩ = none := by
  decide

/-- **counts_disjoint_of_ordered** — when the internal polyT end does not lie after the internal polyA start
    (or one of them is absent) no exon is counted on both sides, so the two counts never exceed the number of
    exons: the over-count needs a polyA start *before* a polyT end -/
theorem counts_disjoint_of_ordered (mf : Int) (exons : List Iv) (posA posT : Int)
    (h : posT ≤ posA ∨ posA = -1 ∨ posT = -1) :
    countPolyaExons mf exons posA + countPolytExons mf exons posT ≤ exons.length := by
  have ha := countPolyaExons_bounds mf exons posA
  have ht := countPolytExons_bounds mf exons posT
  by_cases hA : posA = -1
  · simp only [countPolyaExons, hA, if_true] at ha ⊢; omega
  by_cases hT : posT = -1
  · simp only [countPolytExons, hT, if_true] at ht ⊢; omega
  have hle : posT ≤ posA := by omega
  have h1 := countPolyaLoop_le_countP mf posA exons.reverse 0
  have h2 := countPolytLoop_le_countP mf posT exons 0
  rw [List.countP_reverse] at h1
  have h3 := countP_add_le_of_disjoint (polyaCounted mf posA) (polytCounted mf posT) exons (by
    intro e _ ⟨hpa, hpt⟩
    simp only [polyaCounted, polytCounted, isPolyaExon, isPolytExon, Bool.and_eq_true, Bool.or_eq_true,
      decide_eq_true_eq] at hpa hpt
    omega)
  simp only [countPolyaExons, countPolytExons, hA, hT, if_false]
  omega

example : (1159 : Int) ≤ 1200 ∨ (1200 : Int) = -1 ∨ (1159 : Int) = -1 := by decide

/-- **trim_nonempty_partial** (pinned tree) — on inputs whose counts do not overlap the old guard already behaved
    like the fixed code; with `counts_disjoint_of_ordered` this covers every read whose internal polyT end is not
    after its internal polyA start -/
theorem trim_nonempty_partial (mf : Int) (exons rb cb : List Iv) (info : PolyAInfo)
    (h : countPolyaExons mf exons info.internalPolyA + countPolytExons mf exons info.internalPolyT ≤ exons.length) :
    addPolyaInfoBuggy mf exons rb cb info = addPolyaInfo mf exons rb cb info := by
  have hcri : correctReadInfoBuggy mf exons info = correctReadInfo mf exons info := by
    unfold correctReadInfoBuggy correctReadInfo
    split
    · rfl
    · simp only
      by_cases heq : countPolytExons mf exons info.internalPolyT + countPolyaExons mf exons info.internalPolyA
          = exons.length
      · have h1 : countPolytExons mf exons info.internalPolyT + countPolyaExons mf exons info.internalPolyA
            ≥ (exons.length : Int) := by omega
        have h2 : ¬ (countPolytExons mf exons info.internalPolyT - 1 + (countPolyaExons mf exons info.internalPolyA - 1)
            ≥ (exons.length : Int)) := by omega
        simp [heq, clampLoop, h2]
      · have h1 : ¬ (countPolytExons mf exons info.internalPolyT + countPolyaExons mf exons info.internalPolyA
            ≥ (exons.length : Int)) := by omega
        simp [heq, clampLoop, h1]
  simp [addPolyaInfoBuggy, addPolyaInfo, addPolyaInfoWith, hcri]

example : countPolyaExons 40 [(1, 100), (200, 230)] 210 + countPolytExons 40 [(1, 100), (200, 230)] 5
    ≤ ([(1, 100), (200, 230)] : List Iv).length := by decide

/-- a 3' tail position `old` was re-anchored at `anchor` (end of the last retained exon): `-1` stays `-1`;
    otherwise the new position lies at or after the anchor, at a distance that does not exceed the genomic distance
    from the start `lo` of the removed part to the old position -/
def MovedRight (old new anchor lo : Int) : Prop :=
  (old = -1 → new = -1) ∧ (old ≠ -1 → anchor ≤ new ∧ new ≤ anchor + max 0 (old - lo))

/-- mirror image for a 5' head position: re-anchored at the start of the first retained exon -/
def MovedLeft (old new anchor hi : Int) : Prop :=
  (old = -1 → new = -1) ∧ (old ≠ -1 → anchor - max 0 (hi - old) ≤ new ∧ new ≤ anchor)

/-- **tail_moved_onto_retained** — for every sorted disjoint non-empty exon list and every position quadruple:
    when polyA exons are removed, the internal and the external polyA position are both moved onto the last
    exon of the result (its end is the anchor); when polyT exons are removed both polyT positions are moved onto
    the first exon of the result; a side on which nothing is removed keeps its positions. -/
theorem tail_moved_onto_retained (mf : Int) (exons rb cb : List Iv) (info : PolyAInfo) (hsd : SD exons)
    (hne : exons ≠ []) :
    ∃ (r : AInfo) (a t : Int), addPolyaInfo mf exons rb cb info = some r ∧
      correctReadInfo mf exons info = some (a, t) ∧
      (a ≤ 0 → r.info.internalPolyA = info.internalPolyA ∧ r.info.externalPolyA = info.externalPolyA) ∧
      (0 < a → ∃ lastKept firstRemoved : Iv, r.exons.getLast? = some lastKept ∧
          exons[exons.length - a.toNat]? = some firstRemoved ∧
          MovedRight info.internalPolyA r.info.internalPolyA lastKept.2 firstRemoved.1 ∧
          MovedRight info.externalPolyA r.info.externalPolyA lastKept.2 firstRemoved.1) ∧
      (t ≤ 0 → r.info.internalPolyT = info.internalPolyT ∧ r.info.externalPolyT = info.externalPolyT) ∧
      (0 < t → ∃ firstKept lastRemoved : Iv, r.exons.head? = some firstKept ∧
          exons[t.toNat - 1]? = some lastRemoved ∧
          MovedLeft info.internalPolyT r.info.internalPolyT firstKept.1 lastRemoved.2 ∧
          MovedLeft info.externalPolyT r.info.externalPolyT firstKept.1 lastRemoved.2) := by
  obtain ⟨a, t, st0, st1, st2, r, hcri, hlt, _, _, _, _, _, _, hr, h1e, hre, _, _, hri, _, hA0, hA, hIT, hET, hT0, hT,
    h2ia, h2ea⟩ := addPolyaInfo_spec mf exons rb cb info hne
  refine ⟨r, a, t, hr, hcri, ?_, ?_, ?_, ?_⟩
  · intro h; rw [hri, h2ia, h2ea, hA0 h]; exact ⟨rfl, rfl⟩
  · intro h
    have hal : a < exons.length := by omega
    obtain ⟨h1, h2⟩ := hA h
    -- the last retained exon
    have hlast : r.exons.getLast? = exons[exons.length - a.toNat - 1]? := by
      rw [hre, List.getLast?_drop, List.length_take]
      have : ¬ (min (exons.length - a.toNat) exons.length ≤ t.toNat) := by omega
      rw [if_neg this, List.getLast?_take]
      have h0 : ¬ (exons.length - a.toNat = 0) := by omega
      rw [if_neg h0]
      have hlt' : exons.length - a.toNat - 1 < exons.length := by omega
      simp [hlt']
    have key : ∀ old new, shiftPolya exons a old = some new →
        ∃ last first : Iv, exons[exons.length - a.toNat - 1]? = some last ∧
          exons[exons.length - a.toNat]? = some first ∧ MovedRight old new last.2 first.1 := by
      intro old new hs
      by_cases ho : old = -1
      · subst ho
        rw [shiftPolya_none_found] at hs
        have hi1 : exons.length - a.toNat - 1 < exons.length := by omega
        have hi2 : exons.length - a.toNat < exons.length := by omega
        refine ⟨exons[exons.length - a.toNat - 1], exons[exons.length - a.toNat], by simp [hi1], by simp [hi2], ?_⟩
        constructor
        · intro _; exact (Option.some.inj hs).symm
        · intro hc; exact absurd rfl hc
      · obtain ⟨last, first, d, hl, hf, hs', hd0, hd1⟩ := shiftPolya_onto_retained exons a old hsd h hal ho
        rw [hs'] at hs
        have hn : new = last.2 + d := (Option.some.inj hs).symm
        refine ⟨last, first, hl, hf, fun hc => absurd hc ho, fun _ => ?_⟩
        omega
    obtain ⟨l1, f1, hl1, hf1, hm1⟩ := key _ _ h1
    obtain ⟨l2, f2, hl2, hf2, hm2⟩ := key _ _ h2
    have hl12 : l2 = l1 := by rw [hl1] at hl2; exact (Option.some.inj hl2).symm
    have hf12 : f2 = f1 := by rw [hf1] at hf2; exact (Option.some.inj hf2).symm
    subst hl12 hf12
    refine ⟨l2, f2, by rw [hlast, hl1], hf1, ?_, ?_⟩
    · rw [hri, h2ia]; exact hm1
    · rw [hri, h2ea]; exact hm2
  · intro h; rw [hri, hT0 h, hIT, hET]; exact ⟨rfl, rfl⟩
  · intro h
    have hsd1 : SD st1.exons := by rw [h1e]; exact hsd.take _
    have h1len : st1.exons.length = exons.length - a.toNat := by rw [h1e]; simp
    have htl : t < st1.exons.length := by rw [h1len]; omega
    obtain ⟨h1, h2⟩ := hT h
    have hidx : ∀ i, i < exons.length - a.toNat → st1.exons[i]? = exons[i]? := by
      intro i hi; rw [h1e, List.getElem?_take]; simp [hi]
    have hhead : r.exons.head? = exons[t.toNat]? := by
      rw [hre, List.head?_drop, ← h1e, hidx _ (by omega)]
    have key : ∀ old new, shiftPolyt st1.exons t old = some new →
        ∃ fk lt : Iv, exons[t.toNat]? = some fk ∧ exons[t.toNat - 1]? = some lt ∧ MovedLeft old new fk.1 lt.2 := by
      intro old new hs
      by_cases ho : old = -1
      · subst ho
        rw [shiftPolyt_none_found] at hs
        have hi1 : t.toNat - 1 < exons.length := by omega
        have hi2 : t.toNat < exons.length := by omega
        refine ⟨exons[t.toNat], exons[t.toNat - 1], by simp [hi2], by simp [hi1], ?_⟩
        constructor
        · intro _; exact (Option.some.inj hs).symm
        · intro hc; exact absurd rfl hc
      · obtain ⟨fk, lt, d, hfk, hlt', hs', hd0, hd1⟩ := shiftPolyt_onto_retained st1.exons t old hsd1 h htl ho
        rw [hs'] at hs
        have hn : new = fk.1 - d := (Option.some.inj hs).symm
        rw [hidx _ (by omega)] at hfk hlt'
        refine ⟨fk, lt, hfk, hlt', fun hc => absurd hc ho, fun _ => ?_⟩
        omega
    obtain ⟨k1, t1, hk1, ht1, hm1⟩ := key _ _ h1
    obtain ⟨k2, t2, hk2, ht2, hm2⟩ := key _ _ h2
    have hk12 : k2 = k1 := by rw [hk1] at hk2; exact (Option.some.inj hk2).symm
    have ht12 : t2 = t1 := by rw [ht1] at ht2; exact (Option.some.inj ht2).symm
    subst hk12 ht12
    refine ⟨k2, t2, by rw [hhead, hk1], ht1, ?_, ?_⟩
    · rw [hri]; exact hm1
    · rw [hri]; exact hm2

/-- non-vacuity: a read with two polyA exons (`a = 2`) whose external polyA lies beyond the alignment end -/
example : SD [(100, 200), (300, 310), (400, 420)] ∧
    correctReadInfo 40 [(100, 200), (300, 310), (400, 420)] ⟨425, -1, 302, -1⟩ = some (2, 0) ∧
    (addPolyaInfo 40 [(100, 200), (300, 310), (400, 420)] [] [] ⟨425, -1, 302, -1⟩).map (fun r => (r.exons, r.info))
      = some ([(100, 200)], ⟨236, -1, 202, -1⟩) := by
  refine ⟨⟨?_, ?_⟩, by decide, by decide⟩
  · intro e he; simp at he; rcases he with h | h | h <;> subst h <;> decide
  · simp

/-- **internal_tail_within_first_removed** — the sharp form for the *internal* polyA position (the one the exon
    counts are computed from): every removed exon ends after it, so after trimming it sits at
    `lastKept.2 + max 0 (pos - firstRemoved.1)`, i.e. at most `len(firstRemoved) - 2` bases past the end of the
    retained exon — "onto the retained exon" up to the non-A prefix of the first fake exon -/
theorem internal_tail_within_first_removed (mf : Int) (exons rb cb : List Iv) (info : PolyAInfo) (hsd : SD exons)
    (hne : exons ≠ []) :
    ∃ (r : AInfo) (a t : Int), addPolyaInfo mf exons rb cb info = some r ∧
      correctReadInfo mf exons info = some (a, t) ∧
      (0 < a → info.internalPolyA ≠ -1 →
        ∃ lastKept firstRemoved : Iv, r.exons.getLast? = some lastKept ∧
          exons[exons.length - a.toNat]? = some firstRemoved ∧
          info.internalPolyA < firstRemoved.2 ∧
          r.info.internalPolyA = lastKept.2 + max 0 (info.internalPolyA - firstRemoved.1)) := by
  obtain ⟨a, t, st0, st1, st2, r, hcri, hlt, _, _, _, _, _, _, hr, _, hre, _, _, hri, _, _, hA, _, _, _, _,
    h2ia, _⟩ := addPolyaInfo_spec mf exons rb cb info hne
  obtain ⟨a', t', hcri', _, hale, _, _⟩ := correctReadInfo_spec mf exons info hne
  rw [hcri] at hcri'
  obtain ⟨rfl, rfl⟩ := Prod.mk.inj (Option.some.inj hcri')
  refine ⟨r, a, t, hr, hcri, ?_⟩
  intro h hp
  have hal : a < exons.length := by omega
  have hk : a.toNat < exons.length := by omega
  have hk0 : 0 < a.toNat := by omega
  have hend := last_counted_end_after mf exons info.internalPolyA a.toNat (by omega) hk0
  obtain ⟨last, hl, hs⟩ := shiftPolya_eq exons a info.internalPolyA h hal hp
  rw [(hA h).1] at hs
  have hd := shiftDistA_counted exons a.toNat info.internalPolyA hsd hk0 hk hend
  have hlast : r.exons.getLast? = exons[exons.length - a.toNat - 1]? := by
    rw [hre, List.getLast?_drop, List.length_take]
    have : ¬ (min (exons.length - a.toNat) exons.length ≤ t.toNat) := by omega
    rw [if_neg this, List.getLast?_take]
    have h0 : ¬ (exons.length - a.toNat = 0) := by omega
    rw [if_neg h0]
    have hlt' : exons.length - a.toNat - 1 < exons.length := by omega
    simp [hlt']
  have hm : exons.length - a.toNat < exons.length := by omega
  refine ⟨last, exons[exons.length - a.toNat], by rw [hlast, hl], by simp [hm], ?_, ?_⟩
  · exact hend _ (by rw [List.drop_eq_getElem_cons hm]; exact List.mem_cons_self)
  · rw [hri, h2ia, Option.some.inj hs, hd]

example : SD [(100, 200), (300, 310), (400, 420)] ∧ (302 : Int) ≠ -1 := by
  refine ⟨⟨?_, ?_⟩, by decide⟩
  · intro e he; simp at he; rcases he with h | h | h <;> subst h <;> decide
  · simp

end IsoVerif.Props.C16PolyA
