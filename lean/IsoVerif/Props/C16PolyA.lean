/-
C16 (part 2) — removing terminal exons that consist of an aligned polyA/polyT tail never produces an empty or
unordered exon list and moves the recorded tail position onto the retained exon.
Model: IsoVerif/Model/PolyA.lean (`addPolyaInfo` = the code after the fix commit, `addPolyaInfoBuggy` = the pinned
tree).  Helper lemmas: IsoVerif/Lemmas/PolyA.lean.
-/
import IsoVerif.Model.PolyA
import IsoVerif.Lemmas.PolyA

namespace IsoVerif.Props.C16PolyA
open IsoVerif.Gen IsoVerif.Model IsoVerif.Model.C16 IsoVerif.Lemmas.C16

/-- **trim_nonempty_sorted** (full strength, fixed code) — for every non-empty exon list, every polyA/polyT
    position quadruple and every `max_fake_terminal_exon_len`: `add_polya_info` does not raise, the exon list
    it leaves is non-empty, is a contiguous part of the input (only terminal exons are removed), is sorted and
    disjoint whenever the input is, and the read/cigar block lists are cut in step with it. -/
theorem trim_nonempty_sorted (mf : Int) (exons rb cb : List Iv) (info : PolyAInfo) (hne : exons ≠ []) :
    ∃ r, addPolyaInfo mf exons rb cb info = some r ∧ r.exons ≠ [] ∧ r.exons <:+: exons ∧
      (SD exons → SD r.exons) ∧
      (rb.length = exons.length → r.readBlocks.length = r.exons.length) ∧
      (cb.length = exons.length → r.cigarBlocks.length = r.exons.length) := by
  obtain ⟨a, t, st0, st1, st2, r, _, hlt, _, _, _, _, _, _, hr, _, hre, hrr, hrc, _, _⟩ :=
    addPolyaInfo_spec mf exons rb cb info hne
  refine ⟨r, hr, ?_, ?_, ?_, ?_, ?_⟩
  · intro h
    have : r.exons.length = 0 := by rw [h]; rfl
    rw [hre, List.length_drop, List.length_take] at this
    omega
  · rw [hre]
    exact List.IsInfix.trans (List.drop_suffix _ _).isInfix (List.take_prefix _ _).isInfix
  · intro hsd; rw [hre]; exact (hsd.take _).drop _
  · intro h; rw [hre, hrr]; simp [List.length_drop, List.length_take, h]
  · intro h; rw [hre, hrc]; simp [List.length_drop, List.length_take, h]

/-- non-vacuity: a three-exon read whose polyA and polyT counts overlap ((2,2) on three exons, the input that
    crashed the pinned tree) is trimmed to its middle exon by the fixed code -/
example : (addPolyaInfo 40 [(1001, 1032), (1133, 1160), (1261, 1296)] [(0, 31), (32, 59), (60, 95)]
      [(0, 0), (2, 2), (4, 4)] ⟨-1, -1, 1032, 1159⟩).map (·.exons) = some [(1133, 1160)] := by decide

/-- **trim_empty_witness** — the pinned tree (`polyt + polya == len` guard only) fails the clause: the same
    read makes `add_polya_info` raise (`IndexError` in `shift_polyt`, after the exon list was cut to one exon
    and two more were to be removed); reachable from a real BAM record (`T32 A12 T16 A36`, `32M100N28M100N36M`) -/
theorem trim_empty_witness :
    correctReadInfoBuggy 40 [(1001, 1032), (1133, 1160), (1261, 1296)] ⟨-1, -1, 1032, 1159⟩ = some (2, 2) ∧
    addPolyaInfoBuggy 40 [(1001, 1032), (1133, 1160), (1261, 1296)] [(0, 31), (32, 59), (60, 95)]
      [(0, 0), (2, 2), (4, 4)] ⟨-1, -1, 1032, 1159⟩ = none := by decide

/-- second witness (the design-round probe): counts (2,2) on two exons ask for four exons to be removed -/
theorem trim_two_exons_witness :
    correctReadInfoBuggy 40 [(1, 10), (20, 30)] ⟨-1, -1, 1, 30⟩ = some (2, 2) ∧
    addPolyaInfoBuggy 40 [(1, 10), (20, 30)] [(0, 9), (10, 20)] [(0, 0), (2, 2)] ⟨-1, -1, 1, 30⟩ = none := by
  decide

/-- **counts_disjoint_of_ordered** — when the internal polyT end does not lie after the internal polyA start
    (or one of them is absent) no exon is counted on both sides, so the two counts never exceed the number of
    exons: the over-count needs a polyA start *before* a polyT end -/
theorem counts_disjoint_of_ordered (mf : Int) (exons : List Iv) (posA posT : Int)
    (h : posT ≤ posA ∨ posA = -1 ∨ posT = -1) :
    countPolyaExons mf exons posA + countPolytExons mf exons posT ≤ exons.length := by
  have ha := countPolyaExons_bounds mf exons posA
  have ht := countPolytExons_bounds mf exons posT
  by_cases hA : posA = -1
  · simp only [countPolyaExons, hA, if_true] at ha ⊢; omega
  by_cases hT : posT = -1
  · simp only [countPolytExons, hT, if_true] at ht ⊢; omega
  have hle : posT ≤ posA := by omega
  have h1 := countPolyaLoop_le_countP mf posA exons.reverse 0
  have h2 := countPolytLoop_le_countP mf posT exons 0
  rw [List.countP_reverse] at h1
  have h3 := countP_add_le_of_disjoint (polyaCounted mf posA) (polytCounted mf posT) exons (by
    intro e _ ⟨hpa, hpt⟩
    simp only [polyaCounted, polytCounted, isPolyaExon, isPolytExon, Bool.and_eq_true, Bool.or_eq_true,
      decide_eq_true_eq] at hpa hpt
    omega)
  simp only [countPolyaExons, countPolytExons, hA, hT, if_false]
  omega

example : (1159 : Int) ≤ 1200 ∨ (1200 : Int) = -1 ∨ (1159 : Int) = -1 := by decide

/-- **trim_nonempty_partial** (pinned tree) — on inputs whose counts do not overlap the old guard already behaved
    like the fixed code; with `counts_disjoint_of_ordered` this covers every read whose internal polyT end is not
    after its internal polyA start -/
theorem trim_nonempty_partial (mf : Int) (exons rb cb : List Iv) (info : PolyAInfo)
    (h : countPolyaExons mf exons info.internalPolyA + countPolytExons mf exons info.internalPolyT ≤ exons.length) :
    addPolyaInfoBuggy mf exons rb cb info = addPolyaInfo mf exons rb cb info := by
  have hcri : correctReadInfoBuggy mf exons info = correctReadInfo mf exons info := by
    unfold correctReadInfoBuggy correctReadInfo
    split
    · rfl
    · simp only
      by_cases heq : countPolytExons mf exons info.internalPolyT + countPolyaExons mf exons info.internalPolyA
          = exons.length
      · have h1 : countPolytExons mf exons info.internalPolyT + countPolyaExons mf exons info.internalPolyA
            ≥ (exons.length : Int) := by omega
        have h2 : ¬ (countPolytExons mf exons info.internalPolyT - 1 + (countPolyaExons mf exons info.internalPolyA - 1)
            ≥ (exons.length : Int)) := by omega
        simp [heq, clampLoop, h2]
      · have h1 : ¬ (countPolytExons mf exons info.internalPolyT + countPolyaExons mf exons info.internalPolyA
            ≥ (exons.length : Int)) := by omega
        simp [heq, clampLoop, h1]
  simp [addPolyaInfoBuggy, addPolyaInfo, addPolyaInfoWith, hcri]

example : countPolyaExons 40 [(1, 100), (200, 230)] 210 + countPolytExons 40 [(1, 100), (200, 230)] 5
    ≤ ([(1, 100), (200, 230)] : List Iv).length := by decide

/-- a 3' tail position `old` was re-anchored at `anchor` (end of the last retained exon): `-1` stays `-1`;
    otherwise the new position lies at or after the anchor, at a distance that does not exceed the genomic distance
    from the start `lo` of the removed part to the old position -/
def MovedRight (old new anchor lo : Int) : Prop :=
  (old = -1 → new = -1) ∧ (old ≠ -1 → anchor ≤ new ∧ new ≤ anchor + max 0 (old - lo))

/-- mirror image for a 5' head position: re-anchored at the start of the first retained exon -/
def MovedLeft (old new anchor hi : Int) : Prop :=
  (old = -1 → new = -1) ∧ (old ≠ -1 → anchor - max 0 (hi - old) ≤ new ∧ new ≤ anchor)

/-- the clamp of the repaired code keeps the re-anchoring bound of the external position -/
theorem MovedRight.clamp {oi oe ni ne anchor lo : Int} (hi : MovedRight oi ni anchor lo)
    (he : MovedRight oe ne anchor lo) : MovedRight oe (clampA oi oe ni ne) anchor lo := by
  unfold clampA
  refine ⟨fun h => ?_, fun h => ?_⟩
  · have := he.1 h; simp [h, this]
  · have h2 := he.2 h
    split
    · rename_i hc
      have h1 := hi.2 hc.1
      omega
    · exact h2

theorem MovedLeft.clamp {oi oe ni ne anchor hi' : Int} (hi : MovedLeft oi ni anchor hi')
    (he : MovedLeft oe ne anchor hi') : MovedLeft oe (clampT oi oe ni ne) anchor hi' := by
  unfold clampT
  refine ⟨fun h => ?_, fun h => ?_⟩
  · have := he.1 h; simp [h, this]
  · have h2 := he.2 h
    split
    · rename_i hc
      have h1 := hi.2 hc.1
      omega
    · exact h2

/-- **tail_moved_onto_retained** — for every sorted disjoint non-empty exon list and every position quadruple:
    when polyA exons are removed, the internal and the external polyA position are both moved onto the last
    exon of the result (its end is the anchor); when polyT exons are removed both polyT positions are moved onto
    the first exon of the result; a side on which nothing is removed keeps its positions. -/
theorem tail_moved_onto_retained (mf : Int) (exons rb cb : List Iv) (info : PolyAInfo) (hsd : SD exons)
    (hne : exons ≠ []) :
    ∃ (r : AInfo) (a t : Int), addPolyaInfo mf exons rb cb info = some r ∧
      correctReadInfo mf exons info = some (a, t) ∧
      (a ≤ 0 → r.info.internalPolyA = info.internalPolyA ∧ r.info.externalPolyA = info.externalPolyA) ∧
      (0 < a → ∃ lastKept firstRemoved : Iv, r.exons.getLast? = some lastKept ∧
          exons[exons.length - a.toNat]? = some firstRemoved ∧
          MovedRight info.internalPolyA r.info.internalPolyA lastKept.2 firstRemoved.1 ∧
          MovedRight info.externalPolyA r.info.externalPolyA lastKept.2 firstRemoved.1) ∧
      (t ≤ 0 → r.info.internalPolyT = info.internalPolyT ∧ r.info.externalPolyT = info.externalPolyT) ∧
      (0 < t → ∃ firstKept lastRemoved : Iv, r.exons.head? = some firstKept ∧
          exons[t.toNat - 1]? = some lastRemoved ∧
          MovedLeft info.internalPolyT r.info.internalPolyT firstKept.1 lastRemoved.2 ∧
          MovedLeft info.externalPolyT r.info.externalPolyT firstKept.1 lastRemoved.2) := by
  obtain ⟨a, t, st0, st1, st2, r, hcri, hlt, _, _, _, _, _, _, hr, h1e, hre, _, _, hri, _, hA0, hA, hIT, hET, hT0, hT,
    h2ia, h2ea⟩ := addPolyaInfo_spec mf exons rb cb info hne
  refine ⟨r, a, t, hr, hcri, ?_, ?_, ?_, ?_⟩
  · intro h; rw [hri, h2ia, h2ea, hA0 h]; exact ⟨rfl, rfl⟩
  · intro h
    have hal : a < exons.length := by omega
    obtain ⟨h1, h2'⟩ := hA h
    obtain ⟨ea, h2, h3⟩ := Option.map_eq_some_iff.1 h2'
    -- the last retained exon
    have hlast : r.exons.getLast? = exons[exons.length - a.toNat - 1]? := by
      rw [hre, List.getLast?_drop, List.length_take]
      have : ¬ (min (exons.length - a.toNat) exons.length ≤ t.toNat) := by omega
      rw [if_neg this, List.getLast?_take]
      have h0 : ¬ (exons.length - a.toNat = 0) := by omega
      rw [if_neg h0]
      have hlt' : exons.length - a.toNat - 1 < exons.length := by omega
      simp [hlt']
    have key : ∀ old new, shiftPolya exons a old = some new →
        ∃ last first : Iv, exons[exons.length - a.toNat - 1]? = some last ∧
          exons[exons.length - a.toNat]? = some first ∧ MovedRight old new last.2 first.1 := by
      intro old new hs
      by_cases ho : old = -1
      · subst ho
        rw [shiftPolya_none_found] at hs
        have hi1 : exons.length - a.toNat - 1 < exons.length := by omega
        have hi2 : exons.length - a.toNat < exons.length := by omega
        refine ⟨exons[exons.length - a.toNat - 1], exons[exons.length - a.toNat], by simp [hi1], by simp [hi2], ?_⟩
        constructor
        · intro _; exact (Option.some.inj hs).symm
        · intro hc; exact absurd rfl hc
      · obtain ⟨last, first, d, hl, hf, hs', hd0, hd1⟩ := shiftPolya_onto_retained exons a old hsd h hal ho
        rw [hs'] at hs
        have hn : new = last.2 + d := (Option.some.inj hs).symm
        refine ⟨last, first, hl, hf, fun hc => absurd hc ho, fun _ => ?_⟩
        omega
    obtain ⟨l1, f1, hl1, hf1, hm1⟩ := key _ _ h1
    obtain ⟨l2, f2, hl2, hf2, hm2⟩ := key _ _ h2
    have hl12 : l2 = l1 := by rw [hl1] at hl2; exact (Option.some.inj hl2).symm
    have hf12 : f2 = f1 := by rw [hf1] at hf2; exact (Option.some.inj hf2).symm
    subst hl12 hf12
    refine ⟨l2, f2, by rw [hlast, hl1], hf1, ?_, ?_⟩
    · rw [hri, h2ia]; exact hm1
    · rw [hri, h2ea, ← h3]; exact hm1.clamp hm2
  · intro h; rw [hri, hT0 h, hIT, hET]; exact ⟨rfl, rfl⟩
  · intro h
    have hsd1 : SD st1.exons := by rw [h1e]; exact hsd.take _
    have h1len : st1.exons.length = exons.length - a.toNat := by rw [h1e]; simp
    have htl : t < st1.exons.length := by rw [h1len]; omega
    obtain ⟨h1, h2'⟩ := hT h
    obtain ⟨et, h2, h3⟩ := Option.map_eq_some_iff.1 h2'
    have hidx : ∀ i, i < exons.length - a.toNat → st1.exons[i]? = exons[i]? := by
      intro i hi; rw [h1e, List.getElem?_take]; simp [hi]
    have hhead : r.exons.head? = exons[t.toNat]? := by
      rw [hre, List.head?_drop, ← h1e, hidx _ (by omega)]
    have key : ∀ old new, shiftPolyt st1.exons t old = some new →
        ∃ fk lt : Iv, exons[t.toNat]? = some fk ∧ exons[t.toNat - 1]? = some lt ∧ MovedLeft old new fk.1 lt.2 := by
      intro old new hs
      by_cases ho : old = -1
      · subst ho
        rw [shiftPolyt_none_found] at hs
        have hi1 : t.toNat - 1 < exons.length := by omega
        have hi2 : t.toNat < exons.length := by omega
        refine ⟨exons[t.toNat], exons[t.toNat - 1], by simp [hi2], by simp [hi1], ?_⟩
        constructor
        · intro _; exact (Option.some.inj hs).symm
        · intro hc; exact absurd rfl hc
      · obtain ⟨fk, lt, d, hfk, hlt', hs', hd0, hd1⟩ := shiftPolyt_onto_retained st1.exons t old hsd1 h htl ho
        rw [hs'] at hs
        have hn : new = fk.1 - d := (Option.some.inj hs).symm
        rw [hidx _ (by omega)] at hfk hlt'
        refine ⟨fk, lt, hfk, hlt', fun hc => absurd hc ho, fun _ => ?_⟩
        omega
    obtain ⟨k1, t1, hk1, ht1, hm1⟩ := key _ _ h1
    obtain ⟨k2, t2, hk2, ht2, hm2⟩ := key _ _ h2
    have hk12 : k2 = k1 := by rw [hk1] at hk2; exact (Option.some.inj hk2).symm
    have ht12 : t2 = t1 := by rw [ht1] at ht2; exact (Option.some.inj ht2).symm
    subst hk12 ht12
    refine ⟨k2, t2, by rw [hhead, hk1], ht1, ?_, ?_⟩
    · rw [hri]; exact hm1
    · rw [hri, ← h3]; exact hm1.clamp hm2

/-- non-vacuity: a read with two polyA exons (`a = 2`) whose external polyA lies beyond the alignment end -/
example : SD [(100, 200), (300, 310), (400, 420)] ∧
    correctReadInfo 40 [(100, 200), (300, 310), (400, 420)] ⟨425, -1, 302, -1⟩ = some (2, 0) ∧
    (addPolyaInfo 40 [(100, 200), (300, 310), (400, 420)] [] [] ⟨425, -1, 302, -1⟩).map (fun r => (r.exons, r.info))
      = some ([(100, 200)], ⟨202, -1, 202, -1⟩) := by
  refine ⟨⟨?_, ?_⟩, by decide, by decide⟩
  · intro e he; simp at he; rcases he with h | h | h <;> subst h <;> decide
  · simp

/-- **internal_tail_within_first_removed** — the sharp form for the *internal* polyA position (the one the exon
    counts are computed from): every removed exon ends after it, so after trimming it sits at
    `lastKept.2 + max 0 (pos - firstRemoved.1)`, i.e. at most `len(firstRemoved) - 2` bases past the end of the
    retained exon — "onto the retained exon" up to the non-A prefix of the first fake exon -/
theorem internal_tail_within_first_removed (mf : Int) (exons rb cb : List Iv) (info : PolyAInfo) (hsd : SD exons)
    (hne : exons ≠ []) :
    ∃ (r : AInfo) (a t : Int), addPolyaInfo mf exons rb cb info = some r ∧
      correctReadInfo mf exons info = some (a, t) ∧
      (0 < a → info.internalPolyA ≠ -1 →
        ∃ lastKept firstRemoved : Iv, r.exons.getLast? = some lastKept ∧
          exons[exons.length - a.toNat]? = some firstRemoved ∧
          info.internalPolyA < firstRemoved.2 ∧
          r.info.internalPolyA = lastKept.2 + max 0 (info.internalPolyA - firstRemoved.1)) := by
  obtain ⟨a, t, st0, st1, st2, r, hcri, hlt, _, _, _, _, _, _, hr, _, hre, _, _, hri, _, _, hA, _, _, _, _,
    h2ia, _⟩ := addPolyaInfo_spec mf exons rb cb info hne
  obtain ⟨a', t', hcri', _, hale, _, _⟩ := correctReadInfo_spec mf exons info hne
  rw [hcri] at hcri'
  obtain ⟨rfl, rfl⟩ := Prod.mk.inj (Option.some.inj hcri')
  refine ⟨r, a, t, hr, hcri, ?_⟩
  intro h hp
  have hal : a < exons.length := by omega
  have hk : a.toNat < exons.length := by omega
  have hk0 : 0 < a.toNat := by omega
  have hend := last_counted_end_after mf exons info.internalPolyA a.toNat (by omega) hk0
  obtain ⟨last, hl, hs⟩ := shiftPolya_eq exons a info.internalPolyA h hal hp
  rw [(hA h).1] at hs
  have hd := shiftDistA_counted exons a.toNat info.internalPolyA hsd hk0 hk hend
  have hlast : r.exons.getLast? = exons[exons.length - a.toNat - 1]? := by
    rw [hre, List.getLast?_drop, List.length_take]
    have : ¬ (min (exons.length - a.toNat) exons.length ≤ t.toNat) := by omega
    rw [if_neg this, List.getLast?_take]
    have h0 : ¬ (exons.length - a.toNat = 0) := by omega
    rw [if_neg h0]
    have hlt' : exons.length - a.toNat - 1 < exons.length := by omega
    simp [hlt']
  have hm : exons.length - a.toNat < exons.length := by omega
  refine ⟨last, exons[exons.length - a.toNat], by rw [hlast, hl], by simp [hm], ?_, ?_⟩
  · exact hend _ (by rw [List.drop_eq_getElem_cons hm]; exact List.mem_cons_self)
  · rw [hri, h2ia, Option.some.inj hs, hd]

example : SD [(100, 200), (300, 310), (400, 420)] ∧ (302 : Int) ≠ -1 := by
  refine ⟨⟨?_, ?_⟩, by decide⟩
  · intro e he; simp at he; rcases he with h | h | h <;> subst h <;> decide
  · simp

/-- mirror image of `internal_tail_within_first_removed` for the internal polyT position: every removed exon starts
    before it, so after trimming it sits at `firstKept.1 - max 0 (lastRemoved.2 - pos)` -/
theorem internal_head_within_last_removed (mf : Int) (exons rb cb : List Iv) (info : PolyAInfo) (hsd : SD exons)
    (hne : exons ≠ []) :
    ∃ (r : AInfo) (a t : Int), addPolyaInfo mf exons rb cb info = some r ∧
      correctReadInfo mf exons info = some (a, t) ∧
      (0 < t → info.internalPolyT ≠ -1 →
        ∃ firstKept lastRemoved : Iv, r.exons.head? = some firstKept ∧
          exons[t.toNat - 1]? = some lastRemoved ∧
          lastRemoved.1 < info.internalPolyT ∧
          r.info.internalPolyT = firstKept.1 - max 0 (lastRemoved.2 - info.internalPolyT)) := by
  obtain ⟨a, t, st0, st1, st2, r, hcri, hlt, _, _, _, _, _, _, hr, h1e, hre, _, _, hri, _, _, _, _, _, _, hT,
    _, _⟩ := addPolyaInfo_spec mf exons rb cb info hne
  obtain ⟨a', t', hcri', _, _, htle, _⟩ := correctReadInfo_spec mf exons info hne
  rw [hcri] at hcri'
  obtain ⟨rfl, rfl⟩ := Prod.mk.inj (Option.some.inj hcri')
  refine ⟨r, a, t, hr, hcri, ?_⟩
  intro h hp
  have hsd1 : SD st1.exons := by rw [h1e]; exact hsd.take _
  have h1len : st1.exons.length = exons.length - a.toNat := by rw [h1e]; simp
  have htl : t < st1.exons.length := by rw [h1len]; omega
  have hk : t.toNat < st1.exons.length := by omega
  have hk0 : 0 < t.toNat := by omega
  have hidx : ∀ i, i < exons.length - a.toNat → st1.exons[i]? = exons[i]? := by
    intro i hi; rw [h1e, List.getElem?_take]; simp [hi]
  have hstart0 := first_counted_start_before mf exons info.internalPolyT t.toNat (by omega) hk0
  have hstart : ∀ e ∈ st1.exons.take t.toNat, e.1 < info.internalPolyT := by
    intro e he
    apply hstart0
    rw [h1e, List.take_take, Nat.min_eq_left (by omega)] at he
    exact he
  obtain ⟨fk, hfk, hs⟩ := shiftPolyt_eq st1.exons t info.internalPolyT h htl hp
  rw [(hT h).1] at hs
  have hd := shiftDistT_counted st1.exons t.toNat info.internalPolyT hsd1 hk0 hk hstart
  have hhead : r.exons.head? = exons[t.toNat]? := by
    rw [hre, List.head?_drop, ← h1e, hidx _ (by omega)]
  have hi1 : t.toNat - 1 < st1.exons.length := by omega
  have hlr : exons[t.toNat - 1]? = some (st1.exons[t.toNat - 1]'hi1) := by
    rw [← hidx _ (by omega)]; simp [hi1]
  rw [hidx _ (by omega)] at hfk
  refine ⟨fk, st1.exons[t.toNat - 1]'hi1, by rw [hhead, hfk], hlr, ?_, ?_⟩
  · exact hstart _ (List.mem_take_iff_getElem.2 ⟨t.toNat - 1, by omega, rfl⟩)
  · rw [hri, Option.some.inj hs, hd]

example : SD [(100, 110), (200, 300)] ∧
    correctReadInfo 40 [(100, 110), (200, 300)] ⟨-1, 95, -1, 108⟩ = some (0, 1) ∧
    (addPolyaInfo 40 [(100, 110), (200, 300)] [] [] ⟨-1, 95, -1, 108⟩).map (fun r => (r.exons, r.info))
      = some ([(200, 300)], ⟨-1, 198, -1, 198⟩) := by
  refine ⟨⟨?_, ?_⟩, by decide, by decide⟩
  · intro e he; simp at he; rcases he with h | h <;> subst h <;> decide
  · simp

/-- **tail_on_retained_exon** (full strength, repaired code) — "moves the recorded tail position onto the retained
    exon", for every sorted disjoint non-empty exon list, every position quadruple and every
    `max_fake_terminal_exon_len`.  When `a > 0` exons are removed at the 3' end the internal polyA position was found
    (`≠ -1`), lies before the end of the first removed exon, and with
    `d = max 0 (internal − start of the first removed exon)` — the number of bases of the removed part that lie before
    the tail and therefore stay attached to the retained exon (0 when the removed exons consist of tail; bounded by
    `max_fake_terminal_exon_len`, `tail_offset_bounded` in Props/C16TailExons.lean) —
    * the internal position is recorded EXACTLY at `end of the last retained exon + d`,
    * the external position, when found, is recorded in `[end of the last retained exon, recorded internal position]`
      (never beyond the point where the internal scan says the tail starts), and stays `-1` otherwise.
    Mirror statement at the 5' end around the start of the first retained exon. -/
theorem tail_on_retained_exon (mf : Int) (exons rb cb : List Iv) (info : PolyAInfo) (hsd : SD exons)
    (hne : exons ≠ []) :
    ∃ (r : AInfo) (a t : Int), addPolyaInfo mf exons rb cb info = some r ∧
      correctReadInfo mf exons info = some (a, t) ∧
      (0 < a → ∃ lastKept firstRemoved : Iv, r.exons.getLast? = some lastKept ∧
          exons[exons.length - a.toNat]? = some firstRemoved ∧
          info.internalPolyA ≠ -1 ∧ info.internalPolyA < firstRemoved.2 ∧
          r.info.internalPolyA = lastKept.2 + max 0 (info.internalPolyA - firstRemoved.1) ∧
          (info.externalPolyA = -1 → r.info.externalPolyA = -1) ∧
          (info.externalPolyA ≠ -1 →
            lastKept.2 ≤ r.info.externalPolyA ∧ r.info.externalPolyA ≤ r.info.internalPolyA)) ∧
      (0 < t → ∃ firstKept lastRemoved : Iv, r.exons.head? = some firstKept ∧
          exons[t.toNat - 1]? = some lastRemoved ∧
          info.internalPolyT ≠ -1 ∧ lastRemoved.1 < info.internalPolyT ∧
          r.info.internalPolyT = firstKept.1 - max 0 (lastRemoved.2 - info.internalPolyT) ∧
          (info.externalPolyT = -1 → r.info.externalPolyT = -1) ∧
          (info.externalPolyT ≠ -1 →
            r.info.internalPolyT ≤ r.info.externalPolyT ∧ r.info.externalPolyT ≤ firstKept.1)) := by
  obtain ⟨r, a, t, hr, hcri, _, hA, _, hT⟩ := tail_moved_onto_retained mf exons rb cb info hsd hne
  obtain ⟨r1, a1, t1, hr1, hcri1, hAs⟩ := internal_tail_within_first_removed mf exons rb cb info hsd hne
  obtain ⟨r2, a2, t2, hr2, hcri2, hTs⟩ := internal_head_within_last_removed mf exons rb cb info hsd hne
  obtain ⟨a3, t3, st0, st1, st2, r3, hcri3, _, _, _, _, _, _, _, hr3, _, _, _, _, hri, _, _, hAc, _, _, _, hTc,
    h2ia, h2ea⟩ := addPolyaInfo_spec mf exons rb cb info hne
  obtain ⟨a4, t4, hcri4, _, hale, htle, _⟩ := correctReadInfo_spec mf exons info hne
  rw [hr] at hr1 hr2 hr3
  obtain rfl := Option.some.inj hr1
  obtain rfl := Option.some.inj hr2
  obtain rfl := Option.some.inj hr3
  rw [hcri] at hcri1 hcri2 hcri3 hcri4
  obtain ⟨rfl, rfl⟩ := Prod.mk.inj (Option.some.inj hcri1)
  obtain ⟨rfl, rfl⟩ := Prod.mk.inj (Option.some.inj hcri2)
  obtain ⟨rfl, rfl⟩ := Prod.mk.inj (Option.some.inj hcri3)
  obtain ⟨rfl, rfl⟩ := Prod.mk.inj (Option.some.inj hcri4)
  refine ⟨r, a, t, hr, hcri, ?_, ?_⟩
  · intro h
    have hp : info.internalPolyA ≠ -1 := by
      intro hc
      have : countPolyaExons mf exons info.internalPolyA = 0 := by simp [countPolyaExons, hc]
      omega
    obtain ⟨lk, fr, hlk, hfr, hmi, hme⟩ := hA h
    obtain ⟨lk', fr', hlk', hfr', hlt, hex⟩ := hAs h hp
    rw [hlk] at hlk'; rw [hfr] at hfr'
    obtain rfl := Option.some.inj hlk'
    obtain rfl := Option.some.inj hfr'
    refine ⟨lk, fr, hlk, hfr, hp, hlt, hex, hme.1, ?_⟩
    intro he
    refine ⟨(hme.2 he).1, ?_⟩
    obtain ⟨_, hc⟩ := hAc h
    obtain ⟨ea, _, hc'⟩ := Option.map_eq_some_iff.1 hc
    rw [hri, h2ia, h2ea, ← hc', clampA_both _ _ _ _ hp he]
    omega
  · intro h
    have hp : info.internalPolyT ≠ -1 := by
      intro hc
      have : countPolytExons mf exons info.internalPolyT = 0 := by simp [countPolytExons, hc]
      omega
    obtain ⟨fk, lr, hfk, hlr, hmi, hme⟩ := hT h
    obtain ⟨fk', lr', hfk', hlr', hlt, hex⟩ := hTs h hp
    rw [hfk] at hfk'; rw [hlr] at hlr'
    obtain rfl := Option.some.inj hfk'
    obtain rfl := Option.some.inj hlr'
    refine ⟨fk, lr, hfk, hlr, hp, hlt, hex, hme.1, ?_⟩
    intro he
    refine ⟨?_, (hme.2 he).2⟩
    obtain ⟨_, hc⟩ := hTc h
    obtain ⟨et, _, hc'⟩ := Option.map_eq_some_iff.1 hc
    rw [hri, ← hc', clampT_both _ _ _ _ hp he]
    omega

/-- non-vacuity + the audit's read (`201M299N31M30S`, 31 aligned A + 30 clipped A): external 1528 / internal 1200 are
    both recorded at 1200, the end of the retained exon -/
example : SD [(1000, 1200), (1500, 1530)] ∧
    correctReadInfo 40 [(1000, 1200), (1500, 1530)] ⟨1528, -1, 1200, -1⟩ = some (1, 0) ∧
    (addPolyaInfo 40 [(1000, 1200), (1500, 1530)] [] [] ⟨1528, -1, 1200, -1⟩).map (fun r => (r.exons, r.info))
      = some ([(1000, 1200)], ⟨1200, -1, 1200, -1⟩) := by
  refine ⟨⟨?_, ?_⟩, by decide, by decide⟩
  · intro e he; simp at he; rcases he with h | h <;> subst h <;> decide
  · simp

/-- **tail_at_end_of_retained_exon** — the statement read literally: when the removed exons CONSIST of tail (the
    internal position does not lie after the start of the first removed exon; mirror: not before the end of the last
    removed exon), both recorded positions ARE the end (start) of the retained exon. -/
theorem tail_at_end_of_retained_exon (mf : Int) (exons rb cb : List Iv) (info : PolyAInfo) (hsd : SD exons)
    (hne : exons ≠ []) :
    ∃ (r : AInfo) (a t : Int), addPolyaInfo mf exons rb cb info = some r ∧
      correctReadInfo mf exons info = some (a, t) ∧
      (0 < a → ∃ lastKept firstRemoved : Iv, r.exons.getLast? = some lastKept ∧
          exons[exons.length - a.toNat]? = some firstRemoved ∧
          (info.internalPolyA ≤ firstRemoved.1 →
            r.info.internalPolyA = lastKept.2 ∧
            (info.externalPolyA ≠ -1 → r.info.externalPolyA = lastKept.2))) ∧
      (0 < t → ∃ firstKept lastRemoved : Iv, r.exons.head? = some firstKept ∧
          exons[t.toNat - 1]? = some lastRemoved ∧
          (lastRemoved.2 ≤ info.internalPolyT →
            r.info.internalPolyT = firstKept.1 ∧
            (info.externalPolyT ≠ -1 → r.info.externalPolyT = firstKept.1))) := by
  obtain ⟨r, a, t, hr, hcri, hA, hT⟩ := tail_on_retained_exon mf exons rb cb info hsd hne
  refine ⟨r, a, t, hr, hcri, ?_, ?_⟩
  · intro h
    obtain ⟨lk, fr, hlk, hfr, _, _, hi, _, he⟩ := hA h
    refine ⟨lk, fr, hlk, hfr, fun hle => ⟨by omega, fun hx => ?_⟩⟩
    have := he hx
    omega
  · intro h
    obtain ⟨fk, lr, hfk, hlr, _, _, hi, _, he⟩ := hT h
    refine ⟨fk, lr, hfk, hlr, fun hle => ⟨by omega, fun hx => ?_⟩⟩
    have := he hx
    omega

example : (1200 : Int) ≤ (1500, 1530).1 := by decide

/-- **external_shift_witness** — the code before the repair (both positions shifted independently) fails the
    clause: on the audit's read the external position is recorded at 1228, 28 bases past the retained exon
    `(1000, 1200)` – as far as the aligned tail reached into the removed exon – while the internal one is at 1200;
    mirror image for polyT.  With `--report_novel_unspliced true` ten such reads gave a novel mono-exon model ending
    28 bp behind every aligned base. -/
theorem external_shift_witness :
    (addPolyaInfoOrigShift 40 [(1000, 1200), (1500, 1530)] [] [] ⟨1528, -1, 1200, -1⟩).map (fun r => (r.exons, r.info))
      = some ([(1000, 1200)], ⟨1228, -1, 1200, -1⟩) ∧
    (addPolyaInfoOrigShift 40 [(1000, 1030), (1330, 1530)] [] [] ⟨-1, 1002, -1, 1330⟩).map (fun r => (r.exons, r.info))
      = some ([(1330, 1530)], ⟨-1, 1302, -1, 1330⟩) ∧
    (addPolyaInfo 40 [(1000, 1030), (1330, 1530)] [] [] ⟨-1, 1002, -1, 1330⟩).map (fun r => (r.exons, r.info))
      = some ([(1330, 1530)], ⟨-1, 1330, -1, 1330⟩) := by decide

/-- the repair changes nothing but the external positions of reads on which both positions were found and exons
    were removed: same exons, same blocks, same internal positions, and the same external ones whenever one of the
    two positions of a side is absent -/
theorem repair_conservative (mf : Int) (exons rb cb : List Iv) (info : PolyAInfo)
    (hA : info.internalPolyA = -1 ∨ info.externalPolyA = -1)
    (hT : info.internalPolyT = -1 ∨ info.externalPolyT = -1) :
    addPolyaInfo mf exons rb cb info = addPolyaInfoOrigShift mf exons rb cb info := by
  have hcA : ∀ st : AInfo, st.info.internalPolyA = info.internalPolyA → st.info.externalPolyA = info.externalPolyA →
      ∀ a, trimPolyA st a = trimPolyAOrig st a := by
    intro st h1 h2 a
    have hc : ¬ (st.info.internalPolyA ≠ -1 ∧ st.info.externalPolyA ≠ -1) := by rw [h1, h2]; omega
    unfold trimPolyA trimPolyAOrig clampA
    simp only [hc, if_false]
  have hcT : ∀ st : AInfo, st.info.internalPolyT = info.internalPolyT → st.info.externalPolyT = info.externalPolyT →
      ∀ t, trimPolyT st t = trimPolyTOrig st t := by
    intro st h1 h2 t
    have hc : ¬ (st.info.internalPolyT ≠ -1 ∧ st.info.externalPolyT ≠ -1) := by rw [h1, h2]; omega
    unfold trimPolyT trimPolyTOrig clampT
    simp only [hc, if_false]
  unfold addPolyaInfo addPolyaInfoOrigShift addPolyaInfoWith addPolyaInfoGen
  cases h0 : ainfoInit exons rb cb info with
  | none => rfl
  | some st0 =>
    have hi0 : st0.info = info := by
      unfold ainfoInit at h0
      split at h0
      · cases h0; rfl
      · cases h0
    cases hc : correctReadInfo mf exons info with
    | none => rfl
    | some at' =>
      obtain ⟨a, t⟩ := at'
      simp only [Option.bind_eq_bind, Option.bind_some]
      rw [hcA st0 (by rw [hi0]) (by rw [hi0]) a]
      cases h1 : trimPolyAOrig st0 a with
      | none => rfl
      | some st1 =>
        have hk : st1.info.internalPolyT = info.internalPolyT ∧ st1.info.externalPolyT = info.externalPolyT := by
          unfold trimPolyAOrig at h1
          split at h1
          · cases hx : shiftPolya st0.exons a st0.info.internalPolyA with
            | none => simp [hx] at h1
            | some v1 =>
              cases hy : shiftPolya st0.exons a st0.info.externalPolyA with
              | none => simp [hx, hy] at h1
              | some v2 =>
                simp [hx, hy] at h1
                subst h1
                simp [hi0]
          · cases h1; simp [hi0]
        simp only [Option.bind_some]
        rw [hcT st1 hk.1 hk.2 t]

example : ((-1 : Int) = -1 ∨ (1528 : Int) = -1) ∧ ((-1 : Int) = -1 ∨ (-1 : Int) = -1) := by decide

end IsoVerif.Props.C16PolyA
