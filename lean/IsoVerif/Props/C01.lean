/-
C01 (classification) — `classify_assignment` over the generated event tables.
The tables (`is_consistent`, `is_minor_error`, `nic/nnic_event_types`, `nonintronic_events`, the ReadAssignmentType
families) are re-extracted from /repo/src/isoform_assignment.py on every run; every statement below is closed over the
whole generated enum, so an edited table re-opens exactly the facts it touches.
-/
import IsoVerif.Gen.Enums
import IsoVerif.Gen.EventClasses
import IsoVerif.Gen.Strategies
import IsoVerif.Model.Assign

namespace IsoVerif.Props.C01
open IsoVerif.Gen IsoVerif.Model IsoVerif.Model.C01

/-! ### the generated tables partition the event enum -/

/-- Consistent ∩ Major = ∅ -/
theorem consistent_not_major (e : MatchEventSubtype) :
    ¬ (e.is_consistent = true ∧ e.is_major_inconsistency = true) := by
  cases e <;> decide

/-- MinorError ∩ Major = ∅ -/
theorem minor_not_major (e : MatchEventSubtype) :
    ¬ (e.is_minor_error = true ∧ e.is_major_inconsistency = true) := by
  cases e <;> decide

/-- Consistent ∩ MinorError = ∅ -/
theorem consistent_not_minor (e : MatchEventSubtype) :
    ¬ (e.is_consistent = true ∧ e.is_minor_error = true) := by
  cases e <;> decide

/-- an intronic inconsistency is a major inconsistency; elongation classes sit where the assigner expects them -/
theorem intronic_is_major (e : MatchEventSubtype) :
    e.is_intronic_inconsistency = true → e.is_major_inconsistency = true := by
  cases e <;> decide

theorem major_elongation_is_major (e : MatchEventSubtype) :
    e.is_major_elongation = true → (e.is_major_inconsistency = true ∧ e.is_intronic_inconsistency = false) := by
  cases e <;> decide

theorem minor_elongation_is_minor (e : MatchEventSubtype) :
    e.is_minor_elongation = true → e.is_minor_error = true := by
  cases e <;> decide

/-- the three families of assignment types are pairwise disjoint, and `consistent` is exactly
    {unique, unique_minor_difference, ambiguous} -/
theorem type_families (t : ReadAssignmentType) :
    ¬ (t.is_consistent = true ∧ t.is_inconsistent = true) ∧
    ¬ (t.is_consistent = true ∧ t.is_unassigned = true) ∧
    ¬ (t.is_inconsistent = true ∧ t.is_unassigned = true) ∧
    (t.is_consistent = true ↔ (t = .unique ∨ t = .unique_minor_difference ∨ t = .ambiguous)) := by
  cases t <;> decide

/-- every event with a cost is classified, and the only events outside the three classes are the bookkeeping ones -/
theorem unclassified_events (e : MatchEventSubtype) :
    (e.is_consistent = false ∧ e.is_minor_error = false ∧ e.is_major_inconsistency = false) ↔
      (e = .undefined ∨ e = .antisense ∨ e = .aligned_polya_tail) := by
  cases e <;> decide

/-! ### `classify_assignment` is sound for ALL event sets -/

/-- the type is in the inconsistent family iff some event is a major inconsistency -/
theorem classify_sound (amb : Bool) (tys : List MatchEventSubtype) :
    (classifyEvents amb tys).is_inconsistent = true ↔ ∃ e ∈ tys, e.is_major_inconsistency = true := by
  unfold classifyEvents
  by_cases hc : tys.all (fun e => e.is_consistent) = true
  · rw [if_pos hc]
    constructor
    · intro h; cases amb <;> simp at h <;> exact absurd h (by decide)
    · rintro ⟨e, he, hm⟩
      have := List.all_eq_true.mp hc e he
      exact absurd ⟨this, hm⟩ (consistent_not_major e)
  · rw [if_neg hc]
    by_cases hM : tys.any (fun e => e.is_major_inconsistency) = true
    · rw [if_pos hM]
      constructor
      · intro _
        obtain ⟨e, he, hm⟩ := List.any_eq_true.mp hM
        exact ⟨e, he, hm⟩
      · intro _
        cases amb
        · by_cases hI : tys.any (fun e => e.is_intronic_inconsistency) = true
          · simp [hI]; decide
          · simp [hI]; decide
        · simp; decide
    · rw [if_neg hM]
      constructor
      · intro h
        exfalso
        by_cases hm : tys.any (fun e => e.is_minor_error) = true
        · rw [if_pos hm] at h; cases amb <;> simp at h <;> exact absurd h (by decide)
        · rw [if_neg hm] at h; exact absurd h (by decide)
      · rintro ⟨e, he, hm⟩
        exact absurd (List.any_eq_true.mpr ⟨e, he, hm⟩) hM

/-- the type is consistent (unique / unique_minor_difference / ambiguous) iff no event is a major inconsistency and
    either all events are consistent or some event is a minor error -/
theorem classify_consistent_iff (amb : Bool) (tys : List MatchEventSubtype) :
    (classifyEvents amb tys).is_consistent = true ↔
      ((∀ e ∈ tys, e.is_major_inconsistency = false) ∧
       ((∀ e ∈ tys, e.is_consistent = true) ∨ ∃ e ∈ tys, e.is_minor_error = true)) := by
  unfold classifyEvents
  by_cases hc : tys.all (fun e => e.is_consistent) = true
  · rw [if_pos hc]
    have hall := List.all_eq_true.mp hc
    constructor
    · intro _
      refine ⟨?_, Or.inl hall⟩
      intro e he
      cases hm : e.is_major_inconsistency
      · rfl
      · exact absurd ⟨hall e he, hm⟩ (consistent_not_major e)
    · intro _; cases amb <;> simp <;> decide
  · rw [if_neg hc]
    by_cases hM : tys.any (fun e => e.is_major_inconsistency) = true
    · rw [if_pos hM]
      obtain ⟨e, he, hm⟩ := List.any_eq_true.mp hM
      constructor
      · intro h
        exfalso
        cases amb
        · by_cases hI : tys.any (fun e => e.is_intronic_inconsistency) = true
          · simp [hI] at h; exact absurd h (by decide)
          · simp [hI] at h; exact absurd h (by decide)
        · simp at h; exact absurd h (by decide)
      · rintro ⟨h1, _⟩
        rw [h1 e he] at hm; cases hm
    · rw [if_neg hM]
      have hnoM : ∀ e ∈ tys, e.is_major_inconsistency = false := by
        intro e he
        cases hm : e.is_major_inconsistency
        · rfl
        · exact absurd (List.any_eq_true.mpr ⟨e, he, hm⟩) hM
      by_cases hm : tys.any (fun e => e.is_minor_error) = true
      · rw [if_pos hm]
        obtain ⟨e, he, hme⟩ := List.any_eq_true.mp hm
        constructor
        · intro _; exact ⟨hnoM, Or.inr ⟨e, he, hme⟩⟩
        · intro _; cases amb <;> simp <;> decide
      · rw [if_neg hm]
        constructor
        · intro h; exact absurd h (by decide)
        · rintro ⟨_, h2⟩
          exfalso
          rcases h2 with h2 | ⟨e, he, hme⟩
          · exact hc (List.all_eq_true.mpr h2)
          · exact hm (List.any_eq_true.mpr ⟨e, he, hme⟩)

/-- `noninformative` is returned only for event sets that contain an unclassified (bookkeeping) event and nothing
    that is a major inconsistency or a minor error -/
theorem classify_noninformative_iff (amb : Bool) (tys : List MatchEventSubtype) :
    classifyEvents amb tys = .noninformative ↔
      ((∃ e ∈ tys, e.is_consistent = false) ∧ (∀ e ∈ tys, e.is_major_inconsistency = false) ∧
       (∀ e ∈ tys, e.is_minor_error = false)) := by
  have hcons := classify_consistent_iff amb tys
  have hinc := classify_sound amb tys
  constructor
  · intro h
    rw [h] at hcons hinc
    have h1 : ¬ ((∀ e ∈ tys, e.is_major_inconsistency = false) ∧
       ((∀ e ∈ tys, e.is_consistent = true) ∨ ∃ e ∈ tys, e.is_minor_error = true)) := by
      intro hh; exact absurd (hcons.mpr hh) (by decide)
    have h2 : ¬ ∃ e ∈ tys, e.is_major_inconsistency = true := by
      intro hh; exact absurd (hinc.mpr hh) (by decide)
    have hnoM : ∀ e ∈ tys, e.is_major_inconsistency = false := by
      intro e he
      cases hm : e.is_major_inconsistency
      · rfl
      · exact absurd ⟨e, he, hm⟩ h2
    refine ⟨?_, hnoM, ?_⟩
    · apply Classical.byContradiction
      intro hne
      apply h1
      refine ⟨hnoM, Or.inl ?_⟩
      intro e he
      cases hc : e.is_consistent
      · exact absurd ⟨e, he, hc⟩ hne
      · rfl
    · intro e he
      cases hme : e.is_minor_error
      · rfl
      · exact absurd ⟨hnoM, Or.inr ⟨e, he, hme⟩⟩ h1
  · rintro ⟨⟨e, he, hce⟩, hnoM, hnom⟩
    unfold classifyEvents
    have hc : ¬ tys.all (fun e => e.is_consistent) = true := by
      intro hc; have := List.all_eq_true.mp hc e he; simp [hce] at this
    have hM : ¬ tys.any (fun e => e.is_major_inconsistency) = true := by
      intro hM; obtain ⟨x, hx, hxm⟩ := List.any_eq_true.mp hM; rw [hnoM x hx] at hxm; cases hxm
    have hm : ¬ tys.any (fun e => e.is_minor_error) = true := by
      intro hm; obtain ⟨x, hx, hxm⟩ := List.any_eq_true.mp hm; rw [hnom x hx] at hxm; cases hxm
    rw [if_neg hc, if_neg hM, if_neg hm]

/-- the ambiguity flag decides between the unique and the ambiguous member of each family -/
theorem classify_ambiguity (amb : Bool) (tys : List MatchEventSubtype) :
    (amb = true → (classifyEvents amb tys = .ambiguous ∨ classifyEvents amb tys = .inconsistent_ambiguous ∨
                    classifyEvents amb tys = .noninformative)) ∧
    (amb = false → (classifyEvents amb tys = .unique ∨ classifyEvents amb tys = .unique_minor_difference ∨
                     classifyEvents amb tys = .inconsistent ∨ classifyEvents amb tys = .inconsistent_non_intronic ∨
                     classifyEvents amb tys = .noninformative)) := by
  unfold classifyEvents
  cases amb
  · refine ⟨fun h => absurd h (by decide), fun _ => ?_⟩
    simp only [Bool.false_eq_true, ↓reduceIte]
    (repeat' split) <;> simp
  · refine ⟨fun _ => ?_, fun h => absurd h (by decide)⟩
    simp only [↓reduceIte]
    (repeat' split) <;> simp

/-- `unique` exactly when the read is not ambiguous and every event is a consistent one -/
theorem classify_unique_iff (amb : Bool) (tys : List MatchEventSubtype) :
    classifyEvents amb tys = .unique ↔ (amb = false ∧ ∀ e ∈ tys, e.is_consistent = true) := by
  unfold classifyEvents
  by_cases hc : tys.all (fun e => e.is_consistent) = true
  · rw [if_pos hc]
    have hall := List.all_eq_true.mp hc
    cases amb
    · simp; exact hall
    · simp
  · rw [if_neg hc]
    have : ¬ ∀ e ∈ tys, e.is_consistent = true := fun h => hc (List.all_eq_true.mpr h)
    constructor
    · intro h; exfalso; revert h; (repeat' split) <;> simp
    · rintro ⟨_, h⟩; exact absurd h this

/-- an event set made of classified events only is never `noninformative` -/
theorem classify_known (amb : Bool) (tys : List MatchEventSubtype)
    (h : ∀ e ∈ tys, e.is_consistent = true ∨ e.is_minor_error = true ∨ e.is_major_inconsistency = true) :
    (classifyEvents amb tys).is_consistent = true ∨ (classifyEvents amb tys).is_inconsistent = true := by
  by_cases hM : ∃ e ∈ tys, e.is_major_inconsistency = true
  · exact Or.inr ((classify_sound amb tys).mpr hM)
  · left
    apply (classify_consistent_iff amb tys).mpr
    have hnoM : ∀ e ∈ tys, e.is_major_inconsistency = false := by
      intro e he
      cases hm : e.is_major_inconsistency
      · rfl
      · exact absurd ⟨e, he, hm⟩ hM
    refine ⟨hnoM, ?_⟩
    by_cases hm : ∃ e ∈ tys, e.is_minor_error = true
    · exact Or.inr hm
    · left
      intro e he
      rcases h e he with h1 | h2 | h3
      · exact h1
      · exact absurd ⟨e, he, h2⟩ hm
      · rw [hnoM e he] at h3; cases h3

-- non-vacuity: each family is reached by a concrete event set
example : classifyEvents false [.fsm, .terminal_site_match_left] = .unique ∧
    classifyEvents true [.fsm, .ism_left] = .ambiguous ∧
    classifyEvents false [.fsm, .exon_elongation_left] = .unique_minor_difference ∧
    classifyEvents false [.fsm, .exon_skipping_known] = .inconsistent ∧
    classifyEvents false [.fsm, .major_exon_elongation_right] = .inconsistent_non_intronic ∧
    classifyEvents true [.intron_retention, .intron_shift] = .inconsistent_ambiguous ∧
    classifyEvents false [.antisense] = .noninformative := by decide

/-! ### presets -/

/-- every matching preset has a non-negative tolerance, and `exact` means δ = 0 -/
theorem presets_delta_nonneg : ∀ q ∈ matching_presets, 0 ≤ q.2.delta := by decide

theorem preset_exact_delta : (matching_presets.lookup "exact").map (·.delta) = some 0 := by decide

end IsoVerif.Props.C01
